(* C15 - application contract, routing and round-robin, over ARBITRARY histories of the FDL station
   model (Model/Fdl.v), for arbitrary applications.

   Structure
     Part A  frame lemmas: the six do_* functions that never call an application ("quiet" functions)
             leave the call log, the applications, the parameters, next_application and the hold-time
             fields alone, and create token-use states only as a fresh visit.
     Part B  the application part: app_transmit_telegram / apps_transmit_loop / do_use_token /
             do_await_data_response against the C15 monitor.
     Part C  histories (events, run), the monitor, the invariant Inv, Inv init, one-step preservation,
             the lift by induction.
     Part D  the named theorems (statements of Properties/C15.v) as corollaries. *)
From PB Require Import Common Tables FdlTables Telegram Phy TokenRing Params Fdl FdlProofs FdlStepProofs.

(* ------------------------------------------------------------------------------------------ *)
(* The vocabulary of the theorems (independent of the application type)                        *)

(* token-use states: the station holds the token and serves its applications *)
Definition in_visit (k : state_kind) : bool :=
  match k with KUseToken | KAwaitDataResponse => true | _ => false end.

(* One item of a station history: an application callback, the end of a poll (time of the poll and
   the station as it is afterwards), the re-creation of the station by set_offline. *)
Inductive hitem : Type :=
| HCall (c : call)
| HEnd (now : Z) (f : fdl)
| HReset.

Definition calls_of (h : list hitem) : list call :=
  flat_map (fun x => match x with HCall c => [c] | _ => [] end) h.

Lemma calls_of_app h1 h2 : calls_of (h1 ++ h2) = calls_of h1 ++ calls_of h2.
Proof. unfold calls_of. apply flat_map_app. Qed.

Lemma calls_of_map l : calls_of (map HCall l) = l.
Proof. induction l as [|c l IH]; [reflexivity|]. cbn. f_equal. exact IH. Qed.

(* A generic acceptor: a precondition per item and a state update. *)
Section Acceptor.
Variable S : Type.
Variable pre : S -> hitem -> Prop.
Variable post : S -> hitem -> S.

Fixpoint accepts (m : S) (h : list hitem) : Prop :=
  match h with
  | [] => True
  | x :: h' => pre m x /\ accepts (post m x) h'
  end.

Definition posts (m : S) (h : list hitem) : S := fold_left post h m.

Lemma accepts_app m h1 h2 : accepts m (h1 ++ h2) <-> accepts m h1 /\ accepts (posts m h1) h2.
Proof.
  revert m. induction h1 as [|x h1 IH]; intros m; cbn.
  - tauto.
  - rewrite IH. tauto.
Qed.

Lemma posts_app m h1 h2 : posts m (h1 ++ h2) = posts (posts m h1) h2.
Proof. unfold posts. apply fold_left_app. Qed.
End Acceptor.
Arguments accepts {S}. Arguments posts {S}.

(* ------------------------------------------------------------------------------------------ *)
(* The C15 monitor                                                                             *)

Record cst : Set := mkCst {
  c_kind : state_kind;            (* state of the station when the current poll began *)
  c_out : option (nat * Z);       (* outstanding request: (application, addressed station) *)
  c_turn : nat;                   (* the application whose turn it is *)
  c_decl : nat                    (* applications that declined since the first decline of this visit *)
}.

Definition cst_init : cst := mkCst KOffline None 0 0.

(* n = number of applications, tsa = address of this station *)
Definition cpre (n : nat) (tsa : Z) (m : cst) (x : hitem) : Prop :=
  match x with
  | HCall (CallTransmit i hp r) =>
      (* asked only while the token is held, no request is outstanding, it is i's turn, and not
         everybody has declined already *)
      in_visit (c_kind m) = true /\ c_out m = None /\ i = c_turn m /\ (i < n)%nat /\ (c_decl m < n)%nat
  | HCall (CallReceiveReply i a t) =>
      c_kind m = KAwaitDataResponse /\ c_out m = Some (i, a) /\ i = c_turn m /\ reply_ok tsa a t
  | HCall (CallHandleTimeout i a) =>
      c_kind m = KAwaitDataResponse /\ c_out m = Some (i, a) /\ i = c_turn m
  | HEnd now f =>
      let k' := kind_of (f_state f) in
      (* the station waits for a reply exactly while a request is outstanding; an outstanding request
         is dropped without callback only when the station loses the token (back to ActiveIdle) *)
      (k' = KAwaitDataResponse -> c_out m <> None) /\
      (c_out m <> None -> k' = KAwaitDataResponse \/ k' = KActiveIdle) /\
      (* once all applications have declined, the token is passed ... *)
      (in_visit (c_kind m) = true -> (0 < n)%nat -> c_decl m = n -> k' = KPassToken) /\
      (* ... and it is passed only then, or when the hold time is over *)
      (in_visit (c_kind m) = true -> k' = KPassToken -> c_decl m = n \/ f_end_tht f <= now)
  | HReset => True
  end.

Definition cpost (n : nat) (m : cst) (x : hitem) : cst :=
  match x with
  | HCall (CallTransmit i hp r) =>
      match r with
      | None => mkCst (c_kind m) (c_out m) (Nat.modulo (i + 1) n) (S (c_decl m))   (* a decline ends the turn *)
      | Some (_, None) => m                                                         (* sent, no reply expected: keeps the turn *)
      | Some (_, Some da) => mkCst (c_kind m) (Some (i, da)) (c_turn m) (c_decl m)
      end
  | HCall (CallReceiveReply _ _ _) | HCall (CallHandleTimeout _ _) =>
      mkCst (c_kind m) None (c_turn m) (c_decl m)
  | HEnd now f =>
      let k' := kind_of (f_state f) in
      mkCst k'
            (match k' with KAwaitDataResponse => c_out m | _ => None end)
            (match k' with KOffline => 0%nat | _ => c_turn m end)                    (* a station that dropped offline was re-created *)
            (if in_visit k' then (if in_visit (c_kind m) then c_decl m else 0%nat) else 0%nat)
  | HReset => cst_init
  end.

(* ------------------------------------------------------------------------------------------ *)

Section Apps.
Variable A : Type.
Variable ops : app_ops A.
Notation W := (world A).

(* ------------------------------------------------------------------------------------------ *)
(* Part A: frame lemmas                                                                        *)

Definition keepf (f f' : fdl) : Prop :=
  f_p f' = f_p f /\ f_next_app f' = f_next_app f /\
  f_last_token_time f' = f_last_token_time f /\ f_end_tht f' = f_end_tht f.

Definition keepw (w w' : W) : Prop := w_calls w' = w_calls w /\ w_apps w' = w_apps w.

Lemma keepf_refl f : keepf f f. Proof. unfold keepf. tauto. Qed.
Lemma keepf_trans f g h : keepf f g -> keepf g h -> keepf f h.
Proof. unfold keepf. intuition congruence. Qed.
Lemma keepw_refl w : keepw w w. Proof. unfold keepw. tauto. Qed.
Lemma keepw_trans w1 w2 w3 : keepw w1 w2 -> keepw w2 w3 -> keepw w1 w3.
Proof. unfold keepw. intuition congruence. Qed.

Lemma keepf_same f f' : same_but_lba f f' -> keepf f f'.
Proof. unfold same_but_lba, keepf. tauto. Qed.

Lemma keepf_set_st f s : keepf f (set_st f s). Proof. unfold keepf. cbn. tauto. Qed.
Lemma keepf_set_ring f r : keepf f (set_ring f r). Proof. unfold keepf. cbn. tauto. Qed.
Lemma keepf_set_gap f g : keepf f (set_gap f g). Proof. unfold keepf. cbn. tauto. Qed.
Lemma keepf_set_pending f n : keepf f (set_pending f n). Proof. unfold keepf. cbn. tauto. Qed.
Lemma keepf_set_lba f l : keepf f (set_lba f l). Proof. unfold keepf. cbn. tauto. Qed.
Lemma keepf_mark_bus_activity f now : keepf f (mark_bus_activity f now).
Proof. unfold mark_bus_activity, lba_get_or_insert, keepf. destruct (f_lba f); cbn; tauto. Qed.
Lemma keepf_mark_rx f now : keepf f (mark_rx f now).
Proof. unfold mark_rx. eapply keepf_trans; [apply (keepf_set_pending f 0)|apply keepf_mark_bus_activity]. Qed.
Lemma keepf_sync_pending f (w : W) : keepf f (sync_pending_bytes A f w).
Proof. unfold sync_pending_bytes. apply keepf_set_pending. Qed.

Lemma state_mark_bus_activity f now : f_state (mark_bus_activity f now) = f_state f.
Proof. unfold mark_bus_activity, lba_get_or_insert. destruct (f_lba f); reflexivity. Qed.
Lemma state_mark_rx f now : f_state (mark_rx f now) = f_state f.
Proof. unfold mark_rx. rewrite state_mark_bus_activity. reflexivity. Qed.

Lemma keepw_note (w : W) t : keepw w (note A w t). Proof. unfold keepw. cbn. tauto. Qed.
Lemma keepw_set_rx (w : W) b : keepw w (set_rx A w b). Proof. unfold keepw. cbn. tauto. Qed.

Lemma trans_keep f (w : W) t f' w' : trans A f w t = Ok (f', w') ->
  exists s', t (f_state f) = Ok s' /\ f' = set_st f s' /\ keepf f f' /\ keepw w w' /\ f_state f' = s'.
Proof.
  intros H. apply trans_spec in H. destruct H as [s' [Ht [-> ->]]]. exists s'.
  split; [exact Ht|]. split; [reflexivity|]. split; [apply keepf_set_st|]. split; [apply keepw_note|reflexivity].
Qed.

Lemma phy_send_keep (w : W) rq w' n : phy_send A w rq = Ok (w', n) -> keepw w w'.
Proof. intros H. apply phy_send_tx in H. unfold keepw. tauto. Qed.

(* what a quiet function may do to the state: token-use states are only kept, or entered as a fresh
   visit (token_time = now, no first_app, no cycle done); DoGap::Yes is never set; AwaitStatusResponse
   is entered only from PassToken { do_gap: Yes } *)
Definition qstate (now : Z) (s s' : state) : Prop :=
  match s' with
  | UseToken _ _ _ => s' = s \/ s' = UseToken now None false
  | AwaitDataResponse _ _ _ => s' = s
  | PassToken true _ => s' = s
  | AwaitStatusResponse _ => s' = s \/ exists att, s = PassToken true att
  | _ => True
  end.

Lemma qstate_refl now s : qstate now s s.
Proof. destruct s as [ | | | | | | |g a| | ]; cbn; try tauto. destruct g; tauto. Qed.

Lemma qstate_trans now s1 s2 s3 : qstate now s1 s2 -> qstate now s2 s3 -> qstate now s1 s3.
Proof.
  intros H12 H23. destruct s3 as [ | | | | tk fa fcd | | a tk fa | g att | | a ]; cbn in *; try exact I.
  - destruct H23 as [<-|H]; [exact H12|right; exact H].
  - subst s2. exact H12.
  - destruct g; [|exact I]. subst s2. exact H12.
  - destruct H23 as [<-|[att ->]]; [exact H12|]. cbn in H12. right. exists att. symmetry. exact H12.
Qed.

(* the station after set_offline / FdlActiveStation::new *)
Definition is_reset (f : fdl) : Prop :=
  f_state f = Offline /\ f_conn f = ConnOffline /\ f_next_app f = 0%nat /\ f_last_token_time f = 0 /\ f_end_tht f = 0.

Definition quiet (now : Z) (f : fdl) (w : W) (f' : fdl) (w' : W) : Prop :=
  keepw w w' /\ f_p f' = f_p f /\
  ((keepf f f' /\ qstate now (f_state f) (f_state f')) \/ is_reset f').

Lemma quiet_refl now f w : quiet now f w f w.
Proof. split; [apply keepw_refl|]. split; [reflexivity|]. left. split; [apply keepf_refl|apply qstate_refl]. Qed.

Lemma quiet_intro now f w f' w' : keepw w w' -> keepf f f' -> qstate now (f_state f) (f_state f') -> quiet now f w f' w'.
Proof. intros Hw Hf Hq. split; [exact Hw|]. split; [apply Hf|]. left. split; assumption. Qed.

(* extend a quiet step at the front by a state-preserving frame step *)
Lemma quiet_front now f0 w0 f w f' w' :
  keepw w0 w -> keepf f0 f -> f_state f = f_state f0 -> quiet now f w f' w' -> quiet now f0 w0 f' w'.
Proof.
  intros Hw Hf Hs [Hw' [Hp [[Hk Hq]|Hr]]].
  - split; [eapply keepw_trans; eassumption|]. split; [rewrite Hp; apply Hf|]. left.
    split; [eapply keepf_trans; eassumption|rewrite <- Hs; exact Hq].
  - split; [eapply keepw_trans; eassumption|]. split; [rewrite Hp; apply Hf|]. right. exact Hr.
Qed.

(* extend by a frame step that moves to a state from which the rest is judged *)
Lemma quiet_front_st now f0 w0 f w f' w' :
  keepw w0 w -> keepf f0 f -> qstate now (f_state f0) (f_state f) -> quiet now f w f' w' -> quiet now f0 w0 f' w'.
Proof.
  intros Hw Hf Hs [Hw' [Hp [[Hk Hq]|Hr]]].
  - split; [eapply keepw_trans; eassumption|]. split; [rewrite Hp; apply Hf|]. left.
    split; [eapply keepf_trans; eassumption|eapply qstate_trans; eassumption].
  - split; [eapply keepw_trans; eassumption|]. split; [rewrite Hp; apply Hf|]. right. exact Hr.
Qed.

(* ---- GAP helpers ---- *)
Lemma next_gap_keep f (w : W) cur f' w' : next_gap_poll_traced A f w cur = Ok (f', w') ->
  keepf f f' /\ keepw w w' /\ f_state f' = f_state f.
Proof.
  unfold next_gap_poll_traced. destruct (next_gap_poll f cur) as [g| |]; cbn [bind]; try discriminate.
  intros H. injection H as <- <-. split; [apply keepf_set_gap|]. split; [apply keepw_note|reflexivity].
Qed.

Lemma transmit_gap_keep f now (w : W) f' w' polled :
  transmit_gap_poll_if_pending A f now w = Ok (f', w', polled) ->
  keepf f f' /\ keepw w w' /\ f_state f' = f_state f.
Proof.
  unfold transmit_gap_poll_if_pending. destruct (f_gap f) as [n|cur].
  - intros H. injection H as <- <- _. split; [apply keepf_refl|]. split; [apply keepw_refl|reflexivity].
  - destruct (cur =? ts f); [discriminate|].
    destruct (phy_send A w _) as [[w1 n]| |] eqn:Ep; cbn [bind]; try discriminate.
    destruct (mark_tx f now n) as [f1| |] eqn:Em; cbn [bind]; try discriminate.
    intros H. injection H as <- <- _. apply mark_tx_same in Em. apply phy_send_keep in Ep.
    split; [apply keepf_same; exact Em|]. split; [exact Ep|]. apply Em.
Qed.

Lemma await_gap_keep f now (w : W) pa f' w' r :
  await_gap_poll_response A f now w pa = Ok (f', w', r) ->
  keepf f f' /\ keepw w w' /\ f_state f' = f_state f.
Proof.
  unfold await_gap_poll_response. intros H.
  destruct (pa =? ts f); [discriminate H|]. destruct (negb _); [discriminate H|].
  destruct (receive_telegram (fun t => t) (w_rx w)) as [[rest received]| |]; cbn [bind] in H; try discriminate H.
  destruct received as [t|].
  - pose proof (keepf_mark_rx f now) as Hm. pose proof (state_mark_rx f now) as Hs.
    assert (Hw : forall tg, keepw w (note A (set_rx A w rest) tg)) by (intros tg; unfold keepw; cbn; tauto).
    destruct t as [[da sa dsap ssap fc] pdu|da sa|]; [destruct fc as [fb rq|st status]| |];
      try (injection H as <- <- _; split; [exact Hm|]; split; [apply Hw|exact Hs]).
    destruct ((sa =? pa) && (da =? ts (mark_rx f now))); [|injection H as <- <- _; split; [exact Hm|]; split; [apply Hw|exact Hs]].
    destruct (resp_status_eqb status gap_reply_status && gap_reply_state_is_master st);
      [|injection H as <- <- _; split; [exact Hm|]; split; [apply Hw|exact Hs]].
    destruct (set_next_station _ _) as [r'| |]; cbn [bind] in H; try discriminate H.
    injection H as <- <- _. split; [eapply keepf_trans; [exact Hm|apply keepf_set_ring]|]. split; [apply Hw|exact Hs].
  - destruct (check_slot_expired _ now) as [[f1 expired]| |] eqn:Ec; cbn [bind] in H; try discriminate H.
    apply check_slot_expired_same in Ec.
    assert (Hk : keepf f f1) by (eapply keepf_trans; [apply keepf_sync_pending|apply keepf_same; exact Ec]).
    assert (Hs : f_state f1 = f_state f) by (destruct Ec as [_ [_ [_ [_ [Hs _]]]]]; rewrite Hs; reflexivity).
    assert (Hw : forall tg, keepw w (note A (set_rx A (if Nat.ltb (length rest) (length (w_rx w)) then note A w TGapRxDiscard else w) rest) tg))
      by (intros tg; unfold keepw; destruct (Nat.ltb _ _); cbn; tauto).
    destruct expired; injection H as <- <- _; (split; [exact Hk|]; split; [apply Hw|exact Hs]).
Qed.

Lemma set_claim_step_spec f s f' : set_claim_step f s = Ok f' -> f' = set_st f (ClaimToken s).
Proof. unfold set_claim_step. destruct (get_claim_token_step _); cbn [bind]; try discriminate. intros H. injection H as <-. reflexivity. Qed.

(* ---- do_claim_token ---- *)
Lemma do_claim_token_scan_quiet f now (w : W) f' w' :
  do_claim_token_scan A f now w = Ok (f', w') -> quiet now f w f' w'.
Proof.
  unfold do_claim_token_scan. intros H.
  destruct (wait_synchronization_pause f now) as [[f1 wait]| |] eqn:Ew; cbn [bind] in H; try discriminate H.
  apply wait_sync_same in Ew. destruct Ew as [Ew _].
  assert (Hs1 : f_state f1 = f_state f) by apply Ew.
  destruct wait.
  - injection H as <- <-. apply quiet_intro; [apply keepw_note|apply keepf_same; exact Ew|rewrite Hs1; apply qstate_refl].
  - destruct (f_gap f1) as [rc|cur].
    + match type of H with context [trans A ?a ?b ?c] => destruct (trans A a b c) as [[f2 w2]| |] eqn:Et end; cbn [bind] in H; try discriminate H.
      injection H as <- <-. apply trans_keep in Et. destruct Et as [s' [Ht [_ [Hk [Hw Hs]]]]].
      unfold transition_pass_token in Ht. destruct (assert_kind _ _); cbn [bind] in Ht; try discriminate Ht. injection Ht as <-.
      apply quiet_intro; [eapply keepw_trans; [apply keepw_note|exact Hw]|eapply keepf_trans; [apply keepf_same; exact Ew|exact Hk]|].
      rewrite Hs. exact I.
    + destruct (next_gap_poll_traced A f1 w cur) as [[f2 w2]| |] eqn:En; cbn [bind] in H; try discriminate H.
      apply next_gap_keep in En. destruct En as [Hk2 [Hw2 Hs2]].
      destruct (transmit_gap_poll_if_pending A f2 now w2) as [[[f3 w3] polled]| |] eqn:Et; cbn [bind] in H; try discriminate H.
      apply transmit_gap_keep in Et. destruct Et as [Hk3 [Hw3 Hs3]].
      assert (Hk : keepf f f3) by (eapply keepf_trans; [apply keepf_same; exact Ew|eapply keepf_trans; eassumption]).
      assert (Hw : keepw w w3) by (eapply keepw_trans; eassumption).
      destruct polled as [address|].
      * destruct (set_claim_step f3 _) as [f4| |] eqn:Es; cbn [bind] in H; try discriminate H.
        apply set_claim_step_spec in Es. subst f4. injection H as <- <-.
        apply quiet_intro; [eapply keepw_trans; [exact Hw|apply keepw_note]|eapply keepf_trans; [exact Hk|apply keepf_set_st]|exact I].
      * injection H as <- <-.
        apply quiet_intro; [eapply keepw_trans; [exact Hw|apply keepw_note]|exact Hk|].
        rewrite Hs3, Hs2, Hs1. apply qstate_refl.
Qed.

Lemma do_claim_token_quiet f now (w : W) f' w' :
  do_claim_token A f now w = Ok (f', w') -> quiet now f w f' w'.
Proof.
  unfold do_claim_token. intros H.
  destruct (assert_entry DoClaimToken f); cbn [bind] in H; try discriminate H.
  destruct (get_claim_token_step (f_state f)) as [step| |]; cbn [bind] in H; try discriminate H.
  assert (Hsend : forall st,
    (let* (f0, wait) := wait_synchronization_pause f now in
     if wait then Ok (f0, note A w TSyncWait) else
     let* (w0, n) := phy_send A w (TxToken (ts f0) (ts f0)) in
     let f1 := set_ring f0 (claim_token (f_ring f0)) in
     let* f2 := set_claim_step f1 st in
     let f3 := set_gap f2 (GapDoPoll (ts f2)) in
     let* f4 := mark_tx f3 now n in Ok (f4, note A w0 TClaimSendToken)) = Ok (f', w') -> quiet now f w f' w').
  { intros st H1.
    destruct (wait_synchronization_pause f now) as [[f1 wait]| |] eqn:Ew; cbn [bind] in H1; try discriminate H1.
    apply wait_sync_same in Ew. destruct Ew as [Ew _].
    assert (Hs1 : f_state f1 = f_state f) by apply Ew.
    destruct wait.
    - injection H1 as <- <-. apply quiet_intro; [apply keepw_note|apply keepf_same; exact Ew|rewrite Hs1; apply qstate_refl].
    - destruct (phy_send A w _) as [[w1 n]| |] eqn:Ep; cbn [bind] in H1; try discriminate H1.
      apply phy_send_keep in Ep.
      destruct (set_claim_step _ _) as [f2| |] eqn:Es; cbn [bind] in H1; try discriminate H1.
      apply set_claim_step_spec in Es. subst f2.
      destruct (mark_tx _ now n) as [f4| |] eqn:Em; cbn [bind] in H1; try discriminate H1.
      apply mark_tx_same in Em. injection H1 as <- <-.
      apply quiet_intro; [eapply keepw_trans; [exact Ep|apply keepw_note]| |].
      + eapply keepf_trans; [apply keepf_same; exact Ew|]. eapply keepf_trans; [|apply keepf_same; exact Em].
        unfold keepf. cbn. tauto.
      + destruct Em as [_ [_ [_ [_ [Hs _]]]]]. rewrite Hs. exact I. }
  destruct step as [ | | |a0].
  - exact (Hsend _ H).
  - exact (Hsend _ H).
  - exact (do_claim_token_scan_quiet _ _ _ _ _ H).
  - destruct (await_gap_poll_response A f now w a0) as [[[f1 w1] r]| |] eqn:Ea; cbn [bind] in H; try discriminate H.
    apply await_gap_keep in Ea. destruct Ea as [Hk1 [Hw1 Hs1]].
    destruct r.
    + injection H as <- <-. apply quiet_intro; [exact Hw1|exact Hk1|rewrite Hs1; apply qstate_refl].
    + destruct (set_claim_step f1 StepScan) as [f2| |] eqn:Es; cbn [bind] in H; try discriminate H.
      apply set_claim_step_spec in Es. subst f2.
      pose proof (do_claim_token_scan_quiet _ _ _ _ _ H) as Hq.
      eapply quiet_front_st; [| | |exact Hq]; [exact Hw1|eapply keepf_trans; [exact Hk1|apply keepf_set_st]|cbn; exact I].
    + destruct (set_claim_step f1 StepScan) as [f2| |] eqn:Es; cbn [bind] in H; try discriminate H.
      apply set_claim_step_spec in Es. subst f2. injection H as <- <-.
      apply quiet_intro; [exact Hw1|eapply keepf_trans; [exact Hk1|apply keepf_set_st]|cbn; exact I].
    + apply trans_keep in H. destruct H as [s' [Ht [_ [Hk [Hw Hs]]]]].
      unfold transition_active_idle in Ht. destruct (assert_kind _ _); cbn [bind] in Ht; try discriminate Ht. injection Ht as <-.
      apply quiet_intro; [eapply keepw_trans; eassumption|eapply keepf_trans; eassumption|rewrite Hs; exact I].
Qed.

Lemma handle_lost_token_quiet f now (w : W) f' w' d :
  handle_lost_token A f now w = Ok (f', w', d) ->
  if d then quiet now f w f' w' else keepf f f' /\ keepw w w' /\ f_state f' = f_state f.
Proof.
  unfold handle_lost_token. intros H.
  destruct (lba_get_or_insert f now) as [l f0] eqn:El. apply lba_get_or_insert_same in El. destruct El as [El _].
  assert (Hs0 : f_state f0 = f_state f) by apply El.
  destruct (inst_diff now l); cbn [bind] in H; try discriminate H.
  match type of H with (if ?c then _ else _) = _ => destruct c end.
  - match type of H with context [trans A ?a ?b ?c] => destruct (trans A a b c) as [[f1 w1]| |] eqn:Et end; cbn [bind] in H; try discriminate H.
    apply trans_keep in Et. destruct Et as [s' [Ht [_ [Hk [Hw Hs]]]]].
    unfold transition_claim_token in Ht. destruct (assert_kind _ _); cbn [bind] in Ht; try discriminate Ht. injection Ht as <-.
    destruct (do_claim_token A f1 now w1) as [[f2 w2]| |] eqn:Ed; cbn [bind] in H; try discriminate H.
    injection H as <- <- <-. apply do_claim_token_quiet in Ed.
    eapply quiet_front_st; [| | |exact Ed]; [eapply keepw_trans; [apply keepw_note|exact Hw]|eapply keepf_trans; [apply keepf_same; exact El|exact Hk]|].
    rewrite Hs. exact I.
  - injection H as <- <- <-. split; [apply keepf_same; exact El|]. split; [apply keepw_refl|exact Hs0].
Qed.

(* ---- strictly quiet steps (no reset), closed under composition ---- *)
Definition squiet (now : Z) (f : fdl) (w : W) (f' : fdl) (w' : W) : Prop :=
  keepw w w' /\ keepf f f' /\ qstate now (f_state f) (f_state f').

Lemma squiet_refl now f w : squiet now f w f w.
Proof. split; [apply keepw_refl|]. split; [apply keepf_refl|apply qstate_refl]. Qed.
Lemma squiet_trans now f1 w1 f2 w2 f3 w3 : squiet now f1 w1 f2 w2 -> squiet now f2 w2 f3 w3 -> squiet now f1 w1 f3 w3.
Proof.
  intros [A1 [B1 C1]] [A2 [B2 C2]]. split; [eapply keepw_trans; eassumption|].
  split; [eapply keepf_trans; eassumption|eapply qstate_trans; eassumption].
Qed.
Lemma squiet_quiet now f w f' w' : squiet now f w f' w' -> quiet now f w f' w'.
Proof. intros [Hw [Hf Hq]]. apply quiet_intro; assumption. Qed.

Lemma quiet_trans_reset now f1 w1 f2 w2 f3 w3 :
  quiet now f1 w1 f2 w2 -> quiet now f2 w2 f3 w3 -> (is_reset f2 -> is_reset f3) -> quiet now f1 w1 f3 w3.
Proof.
  intros [A1 [P1 D1]] [A2 [P2 D2]] Hr. split; [eapply keepw_trans; eassumption|]. split; [congruence|].
  destruct D1 as [[K1 Q1]|R1].
  - destruct D2 as [[K2 Q2]|R2]; [left|right; exact R2].
    split; [eapply keepf_trans; eassumption|eapply qstate_trans; eassumption].
  - right. exact (Hr R1).
Qed.

Lemma fdl_new_spec p f : fdl_new p = Ok f -> is_reset f /\ f_p f = p.
Proof.
  unfold fdl_new. destruct (negb _); [discriminate|]. destruct (negb _); [discriminate|].
  destruct (ring_new _) as [r| |]; cbn [bind]; try discriminate. intros H. injection H as <-.
  unfold is_reset. cbn. tauto.
Qed.

(* ---- do_listen_token ---- *)
Lemma conn_mark_rx f now : f_conn (mark_rx f now) = f_conn f.
Proof. unfold mark_rx, mark_bus_activity, lba_get_or_insert. cbn [f_lba set_pending]. destruct (f_lba f); reflexivity. Qed.

Lemma is_reset_mark_rx f now : is_reset f -> is_reset (mark_rx f now).
Proof.
  unfold is_reset. destruct (keepf_mark_rx f now) as [_ [H1 [H2 H3]]].
  rewrite state_mark_rx, conn_mark_rx, H1, H2, H3. tauto.
Qed.

Lemma listen_token_telegram_quiet now f (w : W) t il f' w' u :
  listen_token_telegram A now (f, w) t il = Ok (f', w', u) ->
  quiet now f w f' w' /\ (is_reset f -> is_reset f').
Proof.
  unfold listen_token_telegram. intros H.
  pose proof (keepf_mark_rx f now) as Hm. pose proof (state_mark_rx f now) as Hs.
  set (g := mark_rx f now) in *.
  assert (Hsame : forall tg, quiet now f w g (note A w tg))
    by (intros tg; apply quiet_intro; [apply keepw_note|exact Hm|rewrite Hs; apply qstate_refl]).
  destruct (f_conn g) eqn:Ec.
  - injection H as <- <- _. split; [apply Hsame|]. intros Hr. apply is_reset_mark_rx. exact Hr.
  - split; [|intros [_ [C _]]; unfold g in Ec; rewrite conn_mark_rx in Ec; congruence].
    destruct (opt_eqb _ _).
    + destruct (get_listen_token _) as [[sr cc]| |]; cbn [bind] in H; try discriminate H.
      destruct (u8_add cc 1) as [cc'| |]; cbn [bind] in H; try discriminate H.
      destruct (cc' =? listen_collision_tolerated).
      * injection H as <- <- _. apply quiet_intro; [apply keepw_note|eapply keepf_trans; [exact Hm|apply keepf_set_st]|exact I].
      * destruct (set_offline _) as [f1| |] eqn:Eo; cbn [bind] in H; try discriminate H.
        injection H as <- <- _. apply fdl_new_spec in Eo. destruct Eo as [Hr Hp].
        split; [apply keepw_note|]. split; [rewrite Hp; cbn; apply Hm|right; exact Hr].
    + destruct t as [h pdu|da sa|].
      * destruct (is_fdl_status_request h && _).
        -- destruct il.
           ++ destruct (get_listen_token _) as [[sr cc]| |]; cbn [bind] in H; try discriminate H.
              injection H as <- <- _. apply quiet_intro; [apply keepw_note|eapply keepf_trans; [exact Hm|apply keepf_set_st]|exact I].
           ++ injection H as <- <- _. apply Hsame.
        -- injection H as <- <- _. apply Hsame.
      * destruct (witness _ _ _) as [r| |]; cbn [bind] in H; try discriminate H. injection H as <- <- _.
        apply quiet_intro; [apply keepw_note|eapply keepf_trans; [exact Hm|apply keepf_set_ring]|cbn; rewrite Hs; apply qstate_refl].
      * injection H as <- <- _. apply Hsame.
  - split; [|intros [_ [C _]]; unfold g in Ec; rewrite conn_mark_rx in Ec; congruence].
    destruct (opt_eqb _ _).
    + destruct (get_listen_token _) as [[sr cc]| |]; cbn [bind] in H; try discriminate H.
      destruct (u8_add cc 1) as [cc'| |]; cbn [bind] in H; try discriminate H.
      destruct (cc' =? listen_collision_tolerated).
      * injection H as <- <- _. apply quiet_intro; [apply keepw_note|eapply keepf_trans; [exact Hm|apply keepf_set_st]|exact I].
      * destruct (set_offline _) as [f1| |] eqn:Eo; cbn [bind] in H; try discriminate H.
        injection H as <- <- _. apply fdl_new_spec in Eo. destruct Eo as [Hr Hp].
        split; [apply keepw_note|]. split; [rewrite Hp; cbn; apply Hm|right; exact Hr].
    + destruct t as [h pdu|da sa|].
      * destruct (is_fdl_status_request h && _).
        -- destruct il.
           ++ destruct (get_listen_token _) as [[sr cc]| |]; cbn [bind] in H; try discriminate H.
              injection H as <- <- _. apply quiet_intro; [apply keepw_note|eapply keepf_trans; [exact Hm|apply keepf_set_st]|exact I].
           ++ injection H as <- <- _. apply Hsame.
        -- injection H as <- <- _. apply Hsame.
      * destruct (witness _ _ _) as [r| |]; cbn [bind] in H; try discriminate H. injection H as <- <- _.
        apply quiet_intro; [apply keepw_note|eapply keepf_trans; [exact Hm|apply keepf_set_ring]|cbn; rewrite Hs; apply qstate_refl].
      * injection H as <- <- _. apply Hsame.
Qed.

Lemma is_reset_sync_pending f (w : W) : is_reset f -> is_reset (sync_pending_bytes A f w).
Proof. unfold is_reset, sync_pending_bytes. cbn. tauto. Qed.

Lemma do_listen_token_quiet f now (w : W) f' w' :
  do_listen_token A f now w = Ok (f', w') -> quiet now f w f' w'.
Proof.
  unfold do_listen_token. intros H.
  destruct (assert_entry DoListenToken f); cbn [bind] in H; try discriminate H.
  destruct (handle_lost_token A f now w) as [[[f0 w0] d]| |] eqn:Eh; cbn [bind] in H; try discriminate H.
  apply handle_lost_token_quiet in Eh.
  destruct d; [injection H as <- <-; exact Eh|]. destruct Eh as [Hk0 [Hw0 Hs0]].
  destruct (get_listen_token (f_state f0)) as [[sr cc]| |] eqn:Eg; cbn [bind] in H; try discriminate H.
  eapply quiet_front; [exact Hw0|exact Hk0|exact Hs0|].
  destruct sr as [src|].
  - destruct (wait_synchronization_pause f0 now) as [[f1 wait]| |] eqn:Ew; cbn [bind] in H; try discriminate H.
    apply wait_sync_same in Ew. destruct Ew as [Ew _].
    assert (Hs1 : f_state f1 = f_state f0) by apply Ew.
    destruct wait.
    + injection H as <- <-. apply quiet_intro; [apply keepw_note|apply keepf_same; exact Ew|rewrite Hs1; apply qstate_refl].
    + destruct (phy_send A w0 _) as [[w1 n]| |] eqn:Ep; cbn [bind] in H; try discriminate H.
      apply phy_send_keep in Ep.
      match type of H with bind ?x _ = _ => destruct x as [[f2 w2]| |] eqn:E2 end; cbn [bind] in H; try discriminate H.
      destruct (mark_tx f2 now n) as [f3| |] eqn:Em; cbn [bind] in H; try discriminate H.
      apply mark_tx_same in Em. injection H as <- <-.
      assert (H2 : keepf f1 f2 /\ keepw w1 w2 /\ qstate now (f_state f1) (f_state f2)).
      { destruct (ready_for_ring (f_ring f1)).
        - apply trans_keep in E2. destruct E2 as [s' [Ht [_ [Hk [Hw Hs]]]]].
          unfold transition_active_idle in Ht. destruct (assert_kind _ _); cbn [bind] in Ht; try discriminate Ht. injection Ht as <-.
          split; [exact Hk|]. split; [eapply keepw_trans; [apply keepw_note|exact Hw]|rewrite Hs; exact I].
        - destruct (get_listen_token (f_state f1)) as [[sr1 cc1]| |]; cbn [bind] in E2; try discriminate E2.
          injection E2 as <- <-. split; [apply keepf_set_st|]. split; [apply keepw_note|exact I]. }
      destruct H2 as [Hk2 [Hw2 Hq2]].
      apply quiet_intro.
      * eapply keepw_trans; [exact Ep|exact Hw2].
      * eapply keepf_trans; [apply keepf_same; exact Ew|]. eapply keepf_trans; [exact Hk2|apply keepf_same; exact Em].
      * destruct Em as [_ [_ [_ [_ [Hs3 _]]]]]. rewrite Hs3, <- Hs1. exact Hq2.
  - unfold receive_all_telegrams in H.
    destruct (receive_all (listen_token_telegram A now) _ (f0, w0) (w_rx w0)) as [[[s1 rest] r]| |] eqn:Er; cbn [bind] in H; try discriminate H.
    destruct s1 as [f1 w1]. injection H as <- <-.
    assert (Hq : quiet now f0 w0 f1 w1 /\ True).
    { refine (receive_all_inv (fun s : fdl * W => quiet now f0 w0 (fst s) (snd s) /\ True) (listen_token_telegram A now) _ _ (f0, w0) _ (f1, w1) rest r _ Er).
      - intros [fa wa] t il [fb wb] u [Hp _] Hc. cbn [fst snd] in *. apply listen_token_telegram_quiet in Hc. destruct Hc as [Hc Hr].
        split; [|exact I]. eapply quiet_trans_reset; eassumption.
      - split; [apply quiet_refl|exact I]. }
    destruct Hq as [[Hw1 [Hp1 D1]] _].
    split; [eapply keepw_trans; [exact Hw1|apply keepw_set_rx]|]. split; [exact Hp1|].
    destruct D1 as [[K1 Q1]|R1].
    + left. split; [eapply keepf_trans; [exact K1|apply keepf_sync_pending]|exact Q1].
    + right. apply is_reset_sync_pending. exact R1.
Qed.

(* ---- handle_telegram, do_active_idle ---- *)
Lemma use_token_fresh s now s' : transition_use_token s now None = Ok s' -> s' = UseToken now None false.
Proof. unfold transition_use_token. destruct (assert_kind _ _); cbn [bind]; try discriminate. intros H. injection H as <-. reflexivity. Qed.

Lemma handle_telegram_squiet now f (w : W) t il f' w' :
  handle_telegram A now f w t il = Ok (f', w') -> squiet now f w f' w'.
Proof.
  unfold handle_telegram. intros H.
  assert (Hfresh : forall g wg, keepf f g -> keepw w wg ->
            trans A g wg (fun s => transition_use_token s now None) = Ok (f', w') -> squiet now f w f' w').
  { intros g wg Hg Hwg Ht. apply trans_keep in Ht. destruct Ht as [s' [Hu [_ [Hk [Hw Hs]]]]].
    apply use_token_fresh in Hu. subst s'.
    split; [eapply keepw_trans; eassumption|]. split; [eapply keepf_trans; eassumption|]. rewrite Hs. cbn. right. reflexivity. }
  destruct (f_state f) eqn:Es; cbn [negb kind_of state_kind_eqb] in H; try discriminate H;
    try (injection H as <- <-; split; [apply keepw_note|]; split; [apply keepf_refl|apply qstate_refl]).
  destruct t as [h pdu|da sa|].
  - destruct (is_fdl_status_request h && (h_da h =? ts f) && il).
    + cbn [get_active_idle bind] in H. injection H as <- <-.
      split; [apply keepw_note|]. split; [apply keepf_set_st|exact I].
    + injection H as <- <-. split; [apply keepw_note|]. split; [apply keepf_refl|apply qstate_refl].
  - cbn [get_active_idle bind] in H.
    destruct (sa =? ts f).
    + destruct (u8_add _ _); cbn [bind] in H; try discriminate H.
      match type of H with (if ?c then _ else _) = _ => destruct c end.
      * injection H as <- <-. split; [apply keepw_note|]. split; [apply keepf_set_st|exact I].
      * apply trans_keep in H. destruct H as [s' [Ht [_ [Hk [Hw Hs]]]]].
        unfold transition_listen_token in Ht. destruct (assert_kind _ _); cbn [bind] in Ht; try discriminate Ht. injection Ht as <-.
        split; [eapply keepw_trans; [apply keepw_note|exact Hw]|]. split; [eapply keepf_trans; [apply keepf_set_st|exact Hk]|rewrite Hs; exact I].
    + match type of H with (if ?c then _ else _) = _ => destruct c end.
      * destruct (witness _ _ _); cbn [bind] in H; try discriminate H. injection H as <- <-.
        split; [apply keepw_note|]. split; [eapply keepf_trans; [apply keepf_set_st|apply keepf_set_ring]|exact I].
      * match type of H with (if ?c then _ else _) = _ => destruct c end.
        -- eapply Hfresh; [| |exact H]; [apply keepf_set_st|apply keepw_note].
        -- destruct new_previous_station as [address|].
           ++ destruct (address =? sa).
              ** destruct (witness _ _ _); cbn [bind] in H; try discriminate H.
                 eapply Hfresh; [| |exact H]; [eapply keepf_trans; [apply keepf_set_st|apply keepf_set_ring]|apply keepw_note].
              ** injection H as <- <-. split; [apply keepw_note|]. split; [eapply keepf_trans; apply keepf_set_st|exact I].
           ++ injection H as <- <-. split; [apply keepw_note|]. split; [eapply keepf_trans; apply keepf_set_st|exact I].
  - injection H as <- <-. split; [apply keepw_note|]. split; [apply keepf_refl|apply qstate_refl].
Qed.

Lemma active_idle_telegram_squiet now f (w : W) t il f' w' u :
  active_idle_telegram A now (f, w) t il = Ok (f', w', u) -> squiet now f w f' w'.
Proof.
  unfold active_idle_telegram. intros H.
  destruct (handle_telegram A now (mark_rx f now) w t il) as [[f1 w1]| |] eqn:Eh; cbn [bind] in H; try discriminate H.
  injection H as <- <- _. apply handle_telegram_squiet in Eh.
  eapply squiet_trans; [|exact Eh]. split; [apply keepw_refl|]. split; [apply keepf_mark_rx|rewrite state_mark_rx; apply qstate_refl].
Qed.

Lemma do_active_idle_quiet f now (w : W) f' w' :
  do_active_idle A f now w = Ok (f', w') -> quiet now f w f' w'.
Proof.
  unfold do_active_idle. intros H.
  destruct (assert_entry DoActiveIdle f); cbn [bind] in H; try discriminate H.
  destruct (handle_lost_token A f now w) as [[[f0 w0] d]| |] eqn:Eh; cbn [bind] in H; try discriminate H.
  apply handle_lost_token_quiet in Eh.
  destruct d; [injection H as <- <-; exact Eh|]. destruct Eh as [Hk0 [Hw0 Hs0]].
  destruct (get_active_idle (f_state f0)) as [[[sr nps] cc]| |] eqn:Eg; cbn [bind] in H; try discriminate H.
  eapply quiet_front; [exact Hw0|exact Hk0|exact Hs0|].
  destruct sr as [src|].
  - destruct (wait_synchronization_pause f0 now) as [[f1 wait]| |] eqn:Ew; cbn [bind] in H; try discriminate H.
    apply wait_sync_same in Ew. destruct Ew as [Ew _].
    assert (Hs1 : f_state f1 = f_state f0) by apply Ew.
    destruct wait.
    + injection H as <- <-. apply quiet_intro; [apply keepw_note|apply keepf_same; exact Ew|rewrite Hs1; apply qstate_refl].
    + destruct (phy_send A w0 _) as [[w1 n]| |] eqn:Ep; cbn [bind] in H; try discriminate H.
      apply phy_send_keep in Ep.
      destruct (mark_tx _ now n) as [f3| |] eqn:Em; cbn [bind] in H; try discriminate H.
      apply mark_tx_same in Em. injection H as <- <-.
      apply quiet_intro.
      * eapply keepw_trans; [exact Ep|apply keepw_note].
      * eapply keepf_trans; [apply keepf_same; exact Ew|]. eapply keepf_trans; [apply keepf_set_st|apply keepf_same; exact Em].
      * destruct Em as [_ [_ [_ [_ [Hs3 _]]]]]. rewrite Hs3. exact I.
  - unfold receive_all_telegrams in H.
    destruct (receive_all (active_idle_telegram A now) _ (f0, w0) (w_rx w0)) as [[[s1 rest] r]| |] eqn:Er; cbn [bind] in H; try discriminate H.
    destruct s1 as [f1 w1]. injection H as <- <-.
    assert (Hq : squiet now f0 w0 f1 w1).
    { refine (receive_all_inv (fun s : fdl * W => squiet now f0 w0 (fst s) (snd s)) (active_idle_telegram A now) _ _ (f0, w0) _ (f1, w1) rest r _ Er).
      - intros [fa wa] t il [fb wb] u Hp Hc. cbn [fst snd] in *. apply active_idle_telegram_squiet in Hc.
        eapply squiet_trans; eassumption.
      - apply squiet_refl. }
    apply squiet_quiet. eapply squiet_trans; [exact Hq|].
    split; [apply keepw_set_rx|]. split; [apply keepf_sync_pending|apply qstate_refl].
Qed.

(* ---- do_pass_token, do_await_status_response, do_check_token_pass ---- *)
Lemma do_pass_token_squiet f now (w : W) f' w' :
  do_pass_token A f now w = Ok (f', w') -> squiet now f w f' w'.
Proof.
  unfold do_pass_token. intros H.
  destruct (assert_entry DoPassToken f); cbn [bind] in H; try discriminate H.
  destruct (wait_synchronization_pause f now) as [[f1 wait]| |] eqn:Ew; cbn [bind] in H; try discriminate H.
  apply wait_sync_same in Ew. destruct Ew as [Ew _].
  assert (Hs1 : f_state f1 = f_state f) by apply Ew.
  destruct wait.
  - injection H as <- <-. split; [apply keepw_note|]. split; [apply keepf_same; exact Ew|rewrite Hs1; apply qstate_refl].
  - destruct (get_pass_token (f_state f1)) as [[do_gap att0]| |] eqn:Eg; cbn [bind] in H; try discriminate H.
    match type of H with bind ?x _ = _ => destruct x as [[[f2 w2] polled]| |] eqn:E2 end; cbn [bind] in H; try discriminate H.
    assert (H2 : keepf f1 f2 /\ keepw w w2 /\ f_state f2 = f_state f1 /\ (polled <> None -> do_gap = true)).
    { destruct do_gap.
      - match type of E2 with bind ?x _ = _ => destruct x as [[f3 w3]| |] eqn:E3 end; cbn [bind] in E2; try discriminate E2.
        apply transmit_gap_keep in E2. destruct E2 as [Hk [Hw Hs]].
        assert (H3 : keepf f1 f3 /\ keepw w w3 /\ f_state f3 = f_state f1).
        { destruct (f_gap f1) as [rc|cur].
          - destruct (p_gap_wait (f_p f1) <? rc).
            + apply next_gap_keep in E3. destruct E3 as [A1 [A2 A3]].
              split; [exact A1|]. split; [eapply keepw_trans; [apply keepw_note|exact A2]|exact A3].
            + destruct (u8_add rc 1); cbn [bind] in E3; try discriminate E3. injection E3 as <- <-.
              split; [apply keepf_set_gap|]. split; [apply keepw_note|reflexivity].
          - apply next_gap_keep in E3. exact E3. }
        destruct H3 as [B1 [B2 B3]].
        split; [eapply keepf_trans; eassumption|]. split; [eapply keepw_trans; eassumption|]. split; [congruence|reflexivity].
      - injection E2 as <- <- <-. split; [apply keepf_refl|]. split; [apply keepw_refl|]. split; [reflexivity|intros C; contradiction C; reflexivity]. }
    destruct H2 as [Hk2 [Hw2 [Hs2 Hpol]]].
    assert (Hkf : keepf f f2) by (eapply keepf_trans; [apply keepf_same; exact Ew|exact Hk2]).
    destruct polled as [pa|].
    + apply trans_keep in H. destruct H as [s' [Ht [_ [Hk [Hw Hs]]]]].
      unfold transition_await_status_response in Ht. destruct (assert_kind _ _); cbn [bind] in Ht; try discriminate Ht. injection Ht as <-.
      split; [eapply keepw_trans; eassumption|]. split; [eapply keepf_trans; eassumption|].
      rewrite Hs. cbn. right. exists att0. rewrite (Hpol ltac:(discriminate)) in Eg.
      rewrite <- Hs1. destruct (f_state f1) as [ | | | | | | |g0 a1| | ]; try discriminate Eg. injection Eg as -> ->. reflexivity.
    + destruct (phy_send A w2 _) as [[w3 n]| |] eqn:Ep; cbn [bind] in H; try discriminate H.
      apply phy_send_keep in Ep.
      destruct (witness _ _ _) as [r| |]; cbn [bind] in H; try discriminate H.
      match type of H with bind ?x _ = _ => destruct x as [[f4 w4]| |] eqn:E4 end; cbn [bind] in H; try discriminate H.
      destruct (mark_tx f4 now n) as [f5| |] eqn:Em; cbn [bind] in H; try discriminate H.
      apply mark_tx_same in Em. injection H as <- <-.
      assert (H4 : keepf f2 f4 /\ keepw w3 w4 /\ qstate now (f_state f) (f_state f4)).
      { match type of E4 with (if ?c then _ else _) = _ => destruct c end.
        - apply trans_keep in E4. destruct E4 as [s' [Ht [_ [Hk [Hw Hs]]]]]. apply use_token_fresh in Ht. subst s'.
          split; [eapply keepf_trans; [apply keepf_set_ring|exact Hk]|]. split; [eapply keepw_trans; [apply keepw_note|exact Hw]|].
          rewrite Hs. cbn. right. reflexivity.
        - destruct (get_pass_token (f_state (set_ring f2 r))) as [[g1 att1]| |]; cbn [bind] in E4; try discriminate E4.
          apply trans_keep in E4. destruct E4 as [s' [Ht [_ [Hk [Hw Hs]]]]].
          unfold transition_check_token_pass in Ht. destruct (assert_kind _ _); cbn [bind] in Ht; try discriminate Ht. injection Ht as <-.
          split; [eapply keepf_trans; [apply keepf_set_ring|exact Hk]|]. split; [eapply keepw_trans; [apply keepw_note|exact Hw]|].
          rewrite Hs. exact I. }
      destruct H4 as [Hk4 [Hw4 Hq4]].
      split; [eapply keepw_trans; [exact Hw2|eapply keepw_trans; eassumption]|].
      split; [eapply keepf_trans; [exact Hkf|eapply keepf_trans; [exact Hk4|apply keepf_same; exact Em]]|].
      destruct Em as [_ [_ [_ [_ [Hs5 _]]]]]. rewrite Hs5. exact Hq4.
Qed.

Lemma pass_token_false s att s' : transition_pass_token s false att = Ok s' -> s' = PassToken false att.
Proof. unfold transition_pass_token. destruct (assert_kind _ _); cbn [bind]; try discriminate. intros H. injection H as <-. reflexivity. Qed.

Lemma do_await_status_response_squiet f now (w : W) f' w' :
  do_await_status_response A f now w = Ok (f', w') -> squiet now f w f' w'.
Proof.
  unfold do_await_status_response. intros H.
  destruct (assert_entry DoAwaitStatusResponse f); cbn [bind] in H; try discriminate H.
  destruct (get_await_status_response_address (f_state f)) as [address| |]; cbn [bind] in H; try discriminate H.
  destruct (await_gap_poll_response A f now w address) as [[[f1 w1] r]| |] eqn:Ea; cbn [bind] in H; try discriminate H.
  apply await_gap_keep in Ea. destruct Ea as [Hk1 [Hw1 Hs1]].
  destruct r.
  - injection H as <- <-. split; [exact Hw1|]. split; [exact Hk1|rewrite Hs1; apply qstate_refl].
  - match type of H with context [trans A ?a ?b ?c] => destruct (trans A a b c) as [[f2 w2]| |] eqn:Et end; cbn [bind] in H; try discriminate H.
    apply trans_keep in Et. destruct Et as [s' [Ht [_ [Hk [Hw Hs]]]]]. apply pass_token_false in Ht. subst s'.
    apply do_pass_token_squiet in H.
    eapply squiet_trans; [|exact H].
    split; [eapply keepw_trans; eassumption|]. split; [eapply keepf_trans; eassumption|rewrite Hs; exact I].
  - apply trans_keep in H. destruct H as [s' [Ht [_ [Hk [Hw Hs]]]]]. apply pass_token_false in Ht. subst s'.
    split; [eapply keepw_trans; eassumption|]. split; [eapply keepf_trans; eassumption|rewrite Hs; exact I].
  - apply trans_keep in H. destruct H as [s' [Ht [_ [Hk [Hw Hs]]]]].
    unfold transition_active_idle in Ht. destruct (assert_kind _ _); cbn [bind] in Ht; try discriminate Ht. injection Ht as <-.
    split; [eapply keepw_trans; eassumption|]. split; [eapply keepf_trans; eassumption|rewrite Hs; exact I].
Qed.

Lemma check_token_pass_telegram_squiet now f (w : W) fi t il f' w' fi' u :
  check_token_pass_telegram A now (f, w, fi) t il = Ok (f', w', fi', u) -> squiet now f w f' w'.
Proof.
  unfold check_token_pass_telegram. intros H.
  match type of H with bind ?x _ = _ => destruct x as [[f1 w1]| |] eqn:E1 end; cbn [bind] in H; try discriminate H.
  assert (H1 : squiet now f w f1 w1).
  { destruct fi.
    - apply trans_keep in E1. destruct E1 as [s' [Ht [_ [Hk [Hw Hs]]]]].
      unfold transition_active_idle in Ht. destruct (assert_kind _ _); cbn [bind] in Ht; try discriminate Ht. injection Ht as <-.
      split; [eapply keepw_trans; [apply keepw_note|exact Hw]|]. split; [eapply keepf_trans; [apply keepf_mark_rx|exact Hk]|rewrite Hs; exact I].
    - injection E1 as <- <-. split; [apply keepw_refl|]. split; [apply keepf_mark_rx|rewrite state_mark_rx; apply qstate_refl]. }
  destruct (handle_telegram A now f1 w1 t il) as [[f2 w2]| |] eqn:Eh; cbn [bind] in H; try discriminate H.
  injection H as <- <- _ _. apply handle_telegram_squiet in Eh. eapply squiet_trans; eassumption.
Qed.

Lemma do_check_token_pass_squiet f now (w : W) f' w' :
  do_check_token_pass A f now w = Ok (f', w') -> squiet now f w f' w'.
Proof.
  unfold do_check_token_pass. intros H.
  destruct (assert_entry DoCheckTokenPass f); cbn [bind] in H; try discriminate H.
  destruct (check_slot_expired f now) as [[f1 expired]| |] eqn:Ec; cbn [bind] in H; try discriminate H.
  apply check_slot_expired_same in Ec.
  assert (Hs1 : f_state f1 = f_state f) by apply Ec.
  destruct expired.
  - destruct (get_check_token_pass_attempt (f_state f1)) as [att| |]; cbn [bind] in H; try discriminate H.
    match type of H with bind ?x _ = _ => destruct x as [[f2 w2]| |] eqn:E2 end; cbn [bind] in H; try discriminate H.
    assert (H2 : keepf f1 f2 /\ keepw w w2).
    { destruct (check_pass_removes att).
      - destruct (remove_station _ _) as [r| |]; cbn [bind] in E2; try discriminate E2.
        injection E2 as <- <-. split; [apply keepf_set_ring|apply keepw_note].
      - injection E2 as <- <-. split; [apply keepf_refl|apply keepw_note]. }
    destruct H2 as [Hk2 Hw2].
    match type of H with context [trans A ?a ?b ?c] => destruct (trans A a b c) as [[f3 w3]| |] eqn:Et end; cbn [bind] in H; try discriminate H.
    apply trans_keep in Et. destruct Et as [s' [Ht [_ [Hk [Hw Hs]]]]]. apply pass_token_false in Ht. subst s'.
    apply do_pass_token_squiet in H. eapply squiet_trans; [|exact H].
    split; [eapply keepw_trans; eassumption|].
    split; [eapply keepf_trans; [apply keepf_same; exact Ec|eapply keepf_trans; eassumption]|rewrite Hs; exact I].
  - destruct (receive_all _ _ (f1, w, true) (w_rx w)) as [[[s1 rest] r]| |] eqn:Er; cbn [bind] in H; try discriminate H.
    destruct s1 as [[f2 w2] fi]. injection H as <- <-.
    assert (Hq : squiet now f1 w f2 w2).
    { refine (receive_all_inv (fun s : fdl * W * bool => squiet now f1 w (fst (fst s)) (snd (fst s))) (check_token_pass_telegram A now) _ _ (f1, w, true) _ (f2, w2, fi) rest r _ Er).
      - intros [[fa wa] fia] t il [[fb wb] fib] u Hp Hc. cbn [fst snd] in *. apply check_token_pass_telegram_squiet in Hc.
        eapply squiet_trans; eassumption.
      - apply squiet_refl. }
    eapply squiet_trans; [split; [apply keepw_refl|split; [apply keepf_same; exact Ec|rewrite Hs1; apply qstate_refl]]|].
    eapply squiet_trans; [exact Hq|].
    split; [destruct fi; unfold keepw; cbn; tauto|]. split; [apply keepf_sync_pending|apply qstate_refl].
Qed.

End Apps.
