(* C15 - application contract, routing and round-robin, over ARBITRARY histories of the FDL station
   model (Model/Fdl.v), for arbitrary applications.

   Structure
     Part A  frame lemmas: the six do_* functions that never call an application ("quiet" functions)
             leave the call log, the applications, the parameters, next_application and the hold-time
             fields alone, and create token-use states only as a fresh visit.
     Part B  the application part: app_transmit_telegram / apps_transmit_loop / do_use_token /
             do_await_data_response against the C15 monitor.
     Part C  histories (events, run), the monitor, the invariant Inv, Inv init, one-step preservation,
             the lift by induction.
     Part D  the named theorems (statements of Properties/C15.v) as corollaries. *)
From Coq Require Import Arith.
From PB Require Import Common Tables FdlTables Telegram Phy TokenRing Params Fdl FdlProofs FdlStepProofs.

(* ------------------------------------------------------------------------------------------ *)
(* The vocabulary of the theorems (independent of the application type)                        *)

(* token-use states: the station holds the token and serves its applications *)
Definition in_visit (k : state_kind) : bool :=
  match k with KUseToken | KAwaitDataResponse => true | _ => false end.

Lemma in_visit_have_token (k : state_kind) : in_visit k = true -> have_token_kind k = true.
Proof. destruct k; cbn; intros H; try discriminate H; reflexivity. Qed.

(* How a visit ends.  Since the F20 repair do_use_token passes the token in the same poll that finds
   nothing (more) to send, so the poll that ends a visit leaves the station in what do_pass_token
   leaves: a token-passing state (PassToken while the synchronisation pause lasts, AwaitStatusResponse
   after a GAP request, CheckTokenPass after the token telegram), or - when the station is its own
   successor - the first state of its next visit (UseToken, no first_app, no cycle done). *)
Definition pass_kind (k : state_kind) : bool :=
  match k with KPassToken | KAwaitStatusResponse | KCheckTokenPass => true | _ => false end.
Definition fresh_visit (s : state) : bool :=
  match s with UseToken _ None false => true | _ => false end.

(* One item of a station history: an application callback, the end of a poll (time of the poll and
   the station as it is afterwards), the re-creation of the station by set_offline. *)
Inductive hitem : Type :=
| HCall (c : call)
| HEnd (now : Z) (f : fdl)
| HReset.

Definition calls_of (h : list hitem) : list call :=
  flat_map (fun x => match x with HCall c => [c] | _ => [] end) h.

Lemma calls_of_app h1 h2 : calls_of (h1 ++ h2) = calls_of h1 ++ calls_of h2.
Proof. unfold calls_of. apply flat_map_app. Qed.

Lemma calls_of_map l : calls_of (map HCall l) = l.
Proof. induction l as [|c l IH]; [reflexivity|]. cbn. f_equal. exact IH. Qed.

(* A generic acceptor: a precondition per item and a state update. *)
Section Acceptor.
Variable S : Type.
Variable pre : S -> hitem -> Prop.
Variable post : S -> hitem -> S.

Fixpoint accepts (m : S) (h : list hitem) : Prop :=
  match h with
  | [] => True
  | x :: h' => pre m x /\ accepts (post m x) h'
  end.

Definition posts (m : S) (h : list hitem) : S := fold_left post h m.

Lemma accepts_app m h1 h2 : accepts m (h1 ++ h2) <-> accepts m h1 /\ accepts (posts m h1) h2.
Proof.
  revert m. induction h1 as [|x h1 IH]; intros m; cbn.
  - tauto.
  - rewrite IH. tauto.
Qed.

Lemma posts_app m h1 h2 : posts m (h1 ++ h2) = posts (posts m h1) h2.
Proof. unfold posts. apply fold_left_app. Qed.
End Acceptor.
Arguments accepts {S}. Arguments posts {S}.

(* an acceptor that is a projection of another one accepts whatever the other accepts *)
Lemma accepts_sim {S1 S2 : Type} (pre1 : S1 -> hitem -> Prop) (post1 : S1 -> hitem -> S1)
      (pre2 : S2 -> hitem -> Prop) (post2 : S2 -> hitem -> S2) (proj : S1 -> S2) :
  (forall m x, pre1 m x -> pre2 (proj m) x /\ proj (post1 m x) = post2 (proj m) x) ->
  forall h m, accepts pre1 post1 m h -> accepts pre2 post2 (proj m) h /\ proj (posts post1 m h) = posts post2 (proj m) h.
Proof.
  intros Hsim. induction h as [|x h IH]; intros m Hacc; cbn in *.
  - split; [exact I|reflexivity].
  - destruct Hacc as [Hp Hrest]. destruct (Hsim m x Hp) as [Hp2 Heq].
    destruct (IH _ Hrest) as [Ha2 Hpost]. rewrite Heq in Ha2, Hpost. split; [split; assumption|exact Hpost].
Qed.

(* every item of an accepted history satisfied its precondition in some monitor state *)
Lemma accepts_in {S : Type} (pre : S -> hitem -> Prop) (post : S -> hitem -> S) :
  forall h m x, accepts pre post m h -> In x h -> exists m', pre m' x.
Proof.
  induction h as [|y h IH]; intros m x Hacc Hin; [contradiction|]. cbn in Hacc. destruct Hacc as [Hp Hrest].
  destruct Hin as [<-|Hin]; [exists m; exact Hp|exact (IH _ _ Hrest Hin)].
Qed.

(* ------------------------------------------------------------------------------------------ *)
(* The C15 monitor                                                                             *)

Record cst : Set := mkCst {
  c_kind : state_kind;            (* state of the station when the current poll began *)
  c_out : option (nat * Z);       (* outstanding request: (application, addressed station) *)
  c_turn : nat;                   (* the application whose turn it is *)
  c_decl : nat                    (* applications that declined since the first decline of this visit *)
}.

Definition cst_init : cst := mkCst KOffline None 0 0.

(* n = number of applications, tsa = address of this station *)
Definition cpre (n : nat) (tsa : Z) (m : cst) (x : hitem) : Prop :=
  match x with
  | HCall (CallTransmit i hp r) =>
      (* asked only while the token is held, no request is outstanding, it is i's turn, and not
         everybody has declined already *)
      in_visit (c_kind m) = true /\ c_out m = None /\ i = c_turn m /\ (i < n)%nat /\ (c_decl m < n)%nat
  | HCall (CallReceiveReply i a t) =>
      c_kind m = KAwaitDataResponse /\ c_out m = Some (i, a) /\ i = c_turn m /\ reply_ok tsa a t
  | HCall (CallHandleTimeout i a) =>
      c_kind m = KAwaitDataResponse /\ c_out m = Some (i, a) /\ i = c_turn m
  | HEnd now f =>
      let k' := kind_of (f_state f) in
      (* the station waits for a reply exactly while a request is outstanding; an outstanding request
         is dropped without callback only when the station loses the token (back to ActiveIdle) *)
      (k' = KAwaitDataResponse -> c_out m <> None) /\
      (c_out m <> None -> k' = KAwaitDataResponse \/ k' = KActiveIdle) /\
      (* once all applications have declined, the token is passed (in this very poll) ... *)
      (in_visit (c_kind m) = true -> (0 < n)%nat -> c_decl m = n ->
         pass_kind k' = true \/ fresh_visit (f_state f) = true) /\
      (* ... and it is passed only then, or when the hold time is over (a first-visit state with declines
         counted can only be the next visit of a station that passed the token to itself) *)
      (in_visit (c_kind m) = true ->
         pass_kind k' = true \/ (fresh_visit (f_state f) = true /\ c_decl m <> 0%nat) ->
         c_decl m = n \/ f_end_tht f <= now)
  | HReset => True
  end.

Definition cpost (n : nat) (m : cst) (x : hitem) : cst :=
  match x with
  | HCall (CallTransmit i hp r) =>
      match r with
      | None => mkCst (c_kind m) (c_out m) (Nat.modulo (i + 1) n) (S (c_decl m))   (* a decline ends the turn *)
      | Some (_, None) => m                                                         (* sent, no reply expected: keeps the turn *)
      | Some (_, Some da) => mkCst (c_kind m) (Some (i, da)) (c_turn m) (c_decl m)
      end
  | HCall (CallReceiveReply _ _ _) | HCall (CallHandleTimeout _ _) =>
      mkCst (c_kind m) None (c_turn m) (c_decl m)
  | HEnd now f =>
      let k' := kind_of (f_state f) in
      mkCst k'
            (match k' with KAwaitDataResponse => c_out m | _ => None end)
            (match k' with KOffline => 0%nat | _ => c_turn m end)                    (* a station that dropped offline was re-created *)
            (if in_visit k' then (if in_visit (c_kind m) then (if fresh_visit (f_state f) then 0%nat else c_decl m) else 0%nat) else 0%nat)
  | HReset => cst_init
  end.


(* ------------------------------------------------------------------------------------------ *)
(* Round-robin arithmetic                                                                      *)

Lemma mod_lt2 (n x : nat) : (n <= x)%nat -> (x < 2 * n)%nat -> Nat.modulo x n = (x - n)%nat.
Proof. intros H1 H2. symmetry. apply Nat.mod_unique with 1%nat; lia. Qed.

(* Between two polls of a visit: no application has declined yet (first_app = None), or the
   applications first, first+1, ..., first+d-1 (mod n) have declined, 0 < d < n, and the next one is
   first+d (mod n). *)
Definition visit_inv (n : nat) (fa : option nat) (next d : nat) : Prop :=
  match fa with
  | None => d = 0%nat
  | Some first => (first < n)%nat /\ (0 < d < n)%nat /\ next = Nat.modulo (first + d) n
  end.

(* one more decline: schedule_next_application reports "cycle completed" exactly when all n have
   declined *)
Lemma decline_step n fa next d : (next < n)%nat -> visit_inv n fa next d ->
  let first := match fa with Some x => x | None => next end in
  let next' := Nat.modulo (next + 1) n in
  if Nat.eqb next' first then S d = n else visit_inv n (Some first) next' (S d).
Proof.
  intros Hn Hv. cbn zeta.
  assert (Hnext' : Nat.modulo (next + 1) n = if Nat.eqb (S next) n then 0%nat else S next).
  { destruct (Nat.eqb_spec (S next) n) as [E|E].
    - replace (next + 1)%nat with n by lia. apply Nat.mod_same. lia.
    - replace (next + 1)%nat with (S next) by lia. apply Nat.mod_small. lia. }
  destruct fa as [first|]; cbn [visit_inv] in *.
  - destruct Hv as [Hf [Hd Hnx]].
    assert (Hcase : ((first + d < n)%nat /\ next = (first + d)%nat) \/ ((n <= first + d)%nat /\ next = (first + d - n)%nat)).
    { destruct (lt_dec (first + d) n) as [L|L]; [left|right]; (split; [lia|]).
      - rewrite Hnx. apply Nat.mod_small. exact L.
      - rewrite Hnx. apply mod_lt2; lia. }
    assert (Htarget : Nat.modulo (first + S d) n = if Nat.eqb (S next) n then 0%nat else S next).
    { destruct (Nat.eqb_spec (S next) n) as [E|E].
      - destruct Hcase as [[L1 L2]|[L1 L2]].
        + replace (first + S d)%nat with n by lia. apply Nat.mod_same. lia.
        + lia.
      - destruct Hcase as [[L1 L2]|[L1 L2]].
        + rewrite Nat.mod_small by lia. lia.
        + rewrite mod_lt2 by lia. lia. }
    rewrite Hnext'. destruct (Nat.eqb_spec (if Nat.eqb (S next) n then 0%nat else S next) first) as [E|E].
    + destruct (Nat.eqb_spec (S next) n) as [E2|E2]; destruct Hcase as [[L1 L2]|[L1 L2]]; lia.
    + split; [exact Hf|]. split; [|symmetry; exact Htarget].
      destruct (Nat.eqb_spec (S next) n) as [E2|E2]; destruct Hcase as [[L1 L2]|[L1 L2]]; lia.
  - subst d. rewrite Hnext'. destruct (Nat.eqb_spec (S next) n) as [E2|E2].
    + destruct (Nat.eqb_spec 0 next) as [E|E]; [lia|].
      split; [exact Hn|]. split; [lia|]. reflexivity.
    + destruct (Nat.eqb_spec (S next) next) as [E|E]; [lia|].
      split; [exact Hn|]. split; [lia|]. reflexivity.
Qed.

Lemma length_replace_nth {X} (l : list X) i x : length (replace_nth l i x) = length l.
Proof. revert i. induction l as [|h t IH]; intros [|i]; cbn; try reflexivity. rewrite IH. reflexivity. Qed.

(* the monitor run over the callbacks of one poll *)
Definition acalls (n : nat) (tsa : Z) (m : cst) (l : list call) : Prop :=
  accepts (cpre n tsa) (cpost n) m (map HCall l).
Definition mcalls (n : nat) (m : cst) (l : list call) : cst := posts (cpost n) m (map HCall l).

Lemma mcalls_kind n l : forall m, c_kind (mcalls n m l) = c_kind m.
Proof.
  induction l as [|c l IH]; intros m; [reflexivity|].
  change (mcalls n m (c :: l)) with (mcalls n (cpost n m (HCall c)) l). rewrite IH.
  destruct c as [i hp [[wire [da|]]|]|i a t|i a]; reflexivity.
Qed.

Lemma acalls_app n tsa m l1 l2 : acalls n tsa m (l1 ++ l2) <-> acalls n tsa m l1 /\ acalls n tsa (mcalls n m l1) l2.
Proof. unfold acalls, mcalls. rewrite map_app. apply accepts_app. Qed.
Lemma mcalls_app n m l1 l2 : mcalls n m (l1 ++ l2) = mcalls n (mcalls n m l1) l2.
Proof. unfold mcalls. rewrite map_app. apply posts_app. Qed.

(* the state-dependent part of the invariant *)
Definition inv_st (n : nat) (f : fdl) (m : cst) : Prop :=
  match f_state f with
  | UseToken _ fa _ => c_out m = None /\ visit_inv n fa (f_next_app f) (c_decl m)
  | AwaitDataResponse a _ fa => c_out m = Some (f_next_app f, a) /\ visit_inv n fa (f_next_app f) (c_decl m)
  | Offline => c_out m = None /\ f_next_app f = 0%nat
  | _ => c_out m = None
  end.

(* The invariant between two events: the monitor knows the state kind, whose turn it is, the outstanding
   request, and how many applications have declined in this visit. *)
Definition Inv (n : nat) (f : fdl) (m : cst) : Prop :=
  c_kind m = kind_of (f_state f) /\ c_turn m = f_next_app f /\ inv_st n f m.

(* ------------------------------------------------------------------------------------------ *)
(* The statements of the named theorems: projections of the monitor                            *)

(* C15_contract - what ONE application (index i) may rely on.  Its state: idle, or waiting for the reply
   to the request it sent to da; k = state of the station when the current poll began. *)
Inductive app_st : Set := AppIdle | AppWaiting (da : Z).

Definition apre (tsa : Z) (i : nat) (s : app_st * state_kind) (x : hitem) : Prop :=
  match x with
  | HCall (CallTransmit j hp r) =>
      (* whoever is asked: the token is held and application i is not waiting for a reply *)
      fst s = AppIdle /\ in_visit (snd s) = true
  | HCall (CallReceiveReply j a t) => j = i -> fst s = AppWaiting a /\ reply_ok tsa a t
  | HCall (CallHandleTimeout j a) => j = i -> fst s = AppWaiting a
  | HEnd now f =>
      (* a request stays outstanding across polls only in AwaitDataResponse; it is dropped without a
         callback only when the station loses the token *)
      match fst s with
      | AppWaiting _ => kind_of (f_state f) = KAwaitDataResponse \/ kind_of (f_state f) = KActiveIdle
      | AppIdle => True
      end
  | HReset => True
  end.

Definition apost (i : nat) (s : app_st * state_kind) (x : hitem) : app_st * state_kind :=
  match x with
  | HCall (CallTransmit j hp r) =>
      if Nat.eqb j i then (match r with Some (_, Some da) => AppWaiting da | _ => AppIdle end, snd s) else s
  | HCall (CallReceiveReply j _ _) | HCall (CallHandleTimeout j _) => if Nat.eqb j i then (AppIdle, snd s) else s
  | HEnd now f =>
      (match fst s, kind_of (f_state f) with AppWaiting da, KAwaitDataResponse => AppWaiting da | _, _ => AppIdle end,
       kind_of (f_state f))
  | HReset => (AppIdle, KOffline)
  end.

Definition app_view (i : nat) (m : cst) : app_st * state_kind :=
  (match c_out m with Some (j, da) => if Nat.eqb j i then AppWaiting da else AppIdle | None => AppIdle end, c_kind m).

Lemma app_view_sim n tsa i m x :
  cpre n tsa m x -> apre tsa i (app_view i m) x /\ app_view i (cpost n m x) = apost i (app_view i m) x.
Proof.
  unfold app_view. destruct x as [[j hp r|j a t|j a]|now f|]; cbn.
  - intros [Hv [Ho [Hj [Hn Hd]]]]. rewrite Ho. split; [split; [reflexivity|exact Hv]|].
    destruct r as [[wire [da|]]|]; cbn; rewrite ?Ho; destruct (Nat.eqb j i); reflexivity.
  - intros [Hk [Ho [Hj Hr]]]. rewrite Ho. split.
    + intros ->. rewrite Nat.eqb_refl. split; [reflexivity|exact Hr].
    + destruct (Nat.eqb j i); reflexivity.
  - intros [Hk [Ho Hj]]. rewrite Ho. split.
    + intros ->. rewrite Nat.eqb_refl. reflexivity.
    + destruct (Nat.eqb j i); reflexivity.
  - intros [H1 [H2 _]]. destruct (c_out m) as [[j da]|] eqn:Eo.
    + split.
      * destruct (Nat.eqb j i); [apply H2; discriminate|exact I].
      * destruct (kind_of (f_state f)); cbn; rewrite ?Eo; cbn; destruct (Nat.eqb j i); reflexivity.
    + split; [exact I|]. destruct (kind_of (f_state f)); reflexivity.
  - intros _. split; [exact I|reflexivity].
Qed.

(* C15_round_robin - the turn order.  r_turn = application whose turn it is, r_decl = number of
   applications that have declined since the first decline of the visit (they are r_turn - r_decl, ...,
   r_turn - 1 modulo n, each exactly once). *)
Record rr_st : Set := mkRr { r_kind : state_kind; r_turn : nat; r_decl : nat }.

Definition rpre (n : nat) (s : rr_st) (x : hitem) : Prop :=
  match x with
  | HCall (CallTransmit i hp r) => i = r_turn s /\ (i < n)%nat /\ (r_decl s < n)%nat
  | HCall (CallReceiveReply i _ _) | HCall (CallHandleTimeout i _) => i = r_turn s
  | HEnd now f =>
      let k' := kind_of (f_state f) in
      (in_visit (r_kind s) = true -> (0 < n)%nat -> r_decl s = n ->
         pass_kind k' = true \/ fresh_visit (f_state f) = true) /\
      (in_visit (r_kind s) = true ->
         pass_kind k' = true \/ (fresh_visit (f_state f) = true /\ r_decl s <> 0%nat) ->
         r_decl s = n \/ f_end_tht f <= now)
  | HReset => True
  end.

Definition rpost (n : nat) (s : rr_st) (x : hitem) : rr_st :=
  match x with
  | HCall (CallTransmit i hp None) => mkRr (r_kind s) (Nat.modulo (i + 1) n) (S (r_decl s))
  | HCall _ => s
  | HEnd now f =>
      let k' := kind_of (f_state f) in
      mkRr k' (match k' with KOffline => 0%nat | _ => r_turn s end)
           (if in_visit k' then (if in_visit (r_kind s) then (if fresh_visit (f_state f) then 0%nat else r_decl s) else 0%nat) else 0%nat)
  | HReset => mkRr KOffline 0 0
  end.

Definition rr_view (m : cst) : rr_st := mkRr (c_kind m) (c_turn m) (c_decl m).

Lemma rr_view_sim n tsa m x :
  cpre n tsa m x -> rpre n (rr_view m) x /\ rr_view (cpost n m x) = rpost n (rr_view m) x.
Proof.
  unfold rr_view. destruct x as [[j hp r|j a t|j a]|now f|]; cbn.
  - intros [Hv [Ho [Hj [Hn Hd]]]]. split; [tauto|]. destruct r as [[wire [da|]]|]; reflexivity.
  - intros [Hk [Ho [Hj Hr]]]. split; [exact Hj|reflexivity].
  - intros [Hk [Ho Hj]]. split; [exact Hj|reflexivity].
  - intros [_ [_ [H3 H4]]]. split; [split; assumption|reflexivity].
  - intros _. split; [exact I|reflexivity].
Qed.

(* C15_routing - in the station's call log every reply / time-out is immediately preceded by the
   transmit call of the same application that sent a request expecting a reply from that address *)
Definition answers (c : call) (i : nat) (a : Z) : Prop :=
  (exists t, c = CallReceiveReply i a t) \/ c = CallHandleTimeout i a.

Fixpoint routed (prev : option call) (l : list call) : Prop :=
  match l with
  | [] => True
  | c :: l' =>
      (forall i a, answers c i a -> exists hp wire, prev = Some (CallTransmit i hp (Some (wire, Some a)))) /\
      routed (Some c) l'
  end.

Lemma last_cons {X} (l : list X) : forall x d, last (x :: l) d = last l x.
Proof. induction l as [|y l IH]; intros x d; [reflexivity|]. change (last (x :: y :: l) d) with (last (y :: l) d). rewrite !IH. reflexivity. Qed.

Lemma routed_spec : forall l prev, routed prev l ->
  forall pre c post i a, l = pre ++ c :: post -> answers c i a ->
  exists hp wire, last (map Some pre) prev = Some (CallTransmit i hp (Some (wire, Some a))).
Proof.
  induction l as [|x l IH]; intros prev Hr pre c post i a Heq Ha.
  - destruct pre; discriminate Heq.
  - cbn in Hr. destruct Hr as [Hx Hrest]. destruct pre as [|y pre].
    + cbn in Heq. injection Heq as -> ->. cbn. exact (Hx i a Ha).
    + cbn in Heq. injection Heq as -> Heq. specialize (IH _ Hrest pre c post i a Heq Ha).
      destruct IH as [hp [wire IH]]. exists hp, wire. cbn [map]. rewrite last_cons. exact IH.
Qed.

Lemma accepted_routed n tsa : forall h m prev,
  accepts (cpre n tsa) (cpost n) m h ->
  (forall i a, c_out m = Some (i, a) -> exists hp wire, prev = Some (CallTransmit i hp (Some (wire, Some a)))) ->
  routed prev (calls_of h).
Proof.
  induction h as [|x h IH]; intros m prev Hacc HJ; [exact I|].
  cbn in Hacc. destruct Hacc as [Hp Hrest].
  destruct x as [c|now f|]; cbn [calls_of flat_map app].
  - change (flat_map _ h) with (calls_of h). cbn [routed]. split.
    + intros i a [[t ->]| ->]; cbn in Hp; apply HJ; tauto.
    + apply (IH _ _ Hrest). intros i a Ho.
      destruct c as [j hp [[wire [da|]]|]|j a' t|j a']; cbn in Ho, Hp; try (destruct Hp as [_ [Hp _]]; congruence); try discriminate Ho.
      injection Ho as <- <-. exists hp, wire. reflexivity.
  - change (flat_map _ h) with (calls_of h). apply (IH _ _ Hrest). intros i a Ho. cbn in Ho.
    destruct (kind_of (f_state f)); try discriminate Ho. exact (HJ _ _ Ho).
  - change (flat_map _ h) with (calls_of h). apply (IH _ _ Hrest). intros i a Ho. discriminate Ho.
Qed.

(* C15_zero_apps, history part: without applications nobody is ever called *)
Lemma accepted_zero_apps tsa : forall h m, accepts (cpre 0 tsa) (cpost 0) m h -> c_out m = None ->
  calls_of h = [] /\ c_out (posts (cpost 0) m h) = None.
Proof.
  induction h as [|x h IH]; intros m Hacc Ho; [split; [reflexivity|exact Ho]|].
  cbn in Hacc. destruct Hacc as [Hp Hrest].
  destruct x as [c|now f|]; cbn [calls_of flat_map app posts fold_left]; change (flat_map _ h) with (calls_of h).
  - exfalso. destruct c as [j hp r|j a t|j a]; cbn in Hp; [lia|destruct Hp as [_ [Hp _]]; congruence|destruct Hp as [_ [Hp _]]; congruence].
  - apply (IH _ Hrest). cbn. rewrite Ho. destruct (kind_of (f_state f)); reflexivity.
  - apply (IH _ Hrest). reflexivity.
Qed.

(* ------------------------------------------------------------------------------------------ *)

Section Apps.
Variable A : Type.
Variable ops : app_ops A.
Notation W := (world A).

(* ------------------------------------------------------------------------------------------ *)
(* Part A: frame lemmas                                                                        *)

Definition keepf (f f' : fdl) : Prop :=
  f_p f' = f_p f /\ f_next_app f' = f_next_app f /\
  f_last_token_time f' = f_last_token_time f /\ f_end_tht f' = f_end_tht f.

Definition keepw (w w' : W) : Prop := w_calls w' = w_calls w /\ w_apps w' = w_apps w.

Lemma keepf_refl f : keepf f f. Proof. unfold keepf. tauto. Qed.
Lemma keepf_trans f g h : keepf f g -> keepf g h -> keepf f h.
Proof. unfold keepf. intuition congruence. Qed.
Lemma keepw_refl w : keepw w w. Proof. unfold keepw. tauto. Qed.
Lemma keepw_trans w1 w2 w3 : keepw w1 w2 -> keepw w2 w3 -> keepw w1 w3.
Proof. unfold keepw. intuition congruence. Qed.

Lemma keepf_same f f' : same_but_lba f f' -> keepf f f'.
Proof. unfold same_but_lba, keepf. tauto. Qed.

Lemma keepf_set_st f s : keepf f (set_st f s). Proof. unfold keepf. cbn. tauto. Qed.
Lemma keepf_set_ring f r : keepf f (set_ring f r). Proof. unfold keepf. cbn. tauto. Qed.
Lemma keepf_set_gap f g : keepf f (set_gap f g). Proof. unfold keepf. cbn. tauto. Qed.
Lemma keepf_set_pending f n : keepf f (set_pending f n). Proof. unfold keepf. cbn. tauto. Qed.
Lemma keepf_set_lba f l : keepf f (set_lba f l). Proof. unfold keepf. cbn. tauto. Qed.
Lemma keepf_mark_bus_activity f now : keepf f (mark_bus_activity f now).
Proof. unfold mark_bus_activity, lba_get_or_insert, keepf. destruct (f_lba f); cbn; tauto. Qed.
Lemma keepf_mark_rx f now : keepf f (mark_rx f now).
Proof. unfold mark_rx. eapply keepf_trans; [apply (keepf_set_pending f 0)|apply keepf_mark_bus_activity]. Qed.
Lemma keepf_sync_pending f (w : W) : keepf f (sync_pending_bytes A f w).
Proof. unfold sync_pending_bytes. apply keepf_set_pending. Qed.

Lemma state_mark_bus_activity f now : f_state (mark_bus_activity f now) = f_state f.
Proof. unfold mark_bus_activity, lba_get_or_insert. destruct (f_lba f); reflexivity. Qed.
Lemma state_mark_rx f now : f_state (mark_rx f now) = f_state f.
Proof. unfold mark_rx. rewrite state_mark_bus_activity. reflexivity. Qed.

Lemma keepw_note (w : W) t : keepw w (note A w t). Proof. unfold keepw. cbn. tauto. Qed.
Lemma keepw_set_rx (w : W) b : keepw w (set_rx A w b). Proof. unfold keepw. cbn. tauto. Qed.

Lemma trans_keep f (w : W) t f' w' : trans A f w t = Ok (f', w') ->
  exists s', t (f_state f) = Ok s' /\ f' = set_st f s' /\ keepf f f' /\ keepw w w' /\ f_state f' = s'.
Proof.
  intros H. apply trans_spec in H. destruct H as [s' [Ht [-> ->]]]. exists s'.
  split; [exact Ht|]. split; [reflexivity|]. split; [apply keepf_set_st|]. split; [apply keepw_note|reflexivity].
Qed.

Lemma phy_send_keep (w : W) rq w' n : phy_send A w rq = Ok (w', n) -> keepw w w'.
Proof. intros H. apply phy_send_tx in H. unfold keepw. tauto. Qed.

(* what a quiet function may do to the state: token-use states are only kept, or entered as a fresh
   visit (token_time = now, no first_app, no cycle done); DoGap::Yes is never set; AwaitStatusResponse
   is entered only from PassToken { do_gap: Yes } *)
Definition qstate (now : Z) (s s' : state) : Prop :=
  match s' with
  | UseToken _ _ _ => s' = s \/ s' = UseToken now None false
  | AwaitDataResponse _ _ _ => s' = s
  | PassToken true _ => s' = s
  | AwaitStatusResponse _ => s' = s \/ exists att, s = PassToken true att
  | Offline => s' = s                      (* Offline only through set_offline, see is_reset *)
  | _ => True
  end.

Lemma qstate_refl now s : qstate now s s.
Proof. destruct s as [ | | | | | | |g a| | ]; cbn; try tauto. destruct g; tauto. Qed.

Lemma qstate_trans now s1 s2 s3 : qstate now s1 s2 -> qstate now s2 s3 -> qstate now s1 s3.
Proof.
  intros H12 H23. destruct s3 as [ | | | | tk fa fcd | | a tk fa | g att | | a ]; cbn in *; try exact I.
  - subst s2. exact H12.
  - destruct H23 as [<-|H]; [exact H12|right; exact H].
  - subst s2. exact H12.
  - destruct g; [|exact I]. subst s2. exact H12.
  - destruct H23 as [<-|[att ->]]; [exact H12|]. cbn in H12. right. exists att. symmetry. exact H12.
Qed.

(* the station after set_offline / FdlActiveStation::new *)
Definition is_reset (f : fdl) : Prop :=
  f_state f = Offline /\ f_conn f = ConnOffline /\ f_next_app f = 0%nat /\ f_last_token_time f = 0 /\ f_end_tht f = 0.

Definition quiet (now : Z) (f : fdl) (w : W) (f' : fdl) (w' : W) : Prop :=
  keepw w w' /\ f_p f' = f_p f /\
  ((keepf f f' /\ qstate now (f_state f) (f_state f')) \/ is_reset f').

Lemma quiet_refl now f w : quiet now f w f w.
Proof. split; [apply keepw_refl|]. split; [reflexivity|]. left. split; [apply keepf_refl|apply qstate_refl]. Qed.

Lemma quiet_intro now f w f' w' : keepw w w' -> keepf f f' -> qstate now (f_state f) (f_state f') -> quiet now f w f' w'.
Proof. intros Hw Hf Hq. split; [exact Hw|]. split; [apply Hf|]. left. split; assumption. Qed.

(* extend a quiet step at the front by a state-preserving frame step *)
Lemma quiet_front now f0 w0 f w f' w' :
  keepw w0 w -> keepf f0 f -> f_state f = f_state f0 -> quiet now f w f' w' -> quiet now f0 w0 f' w'.
Proof.
  intros Hw Hf Hs [Hw' [Hp [[Hk Hq]|Hr]]].
  - split; [eapply keepw_trans; eassumption|]. split; [rewrite Hp; apply Hf|]. left.
    split; [eapply keepf_trans; eassumption|rewrite <- Hs; exact Hq].
  - split; [eapply keepw_trans; eassumption|]. split; [rewrite Hp; apply Hf|]. right. exact Hr.
Qed.

(* extend by a frame step that moves to a state from which the rest is judged *)
Lemma quiet_front_st now f0 w0 f w f' w' :
  keepw w0 w -> keepf f0 f -> qstate now (f_state f0) (f_state f) -> quiet now f w f' w' -> quiet now f0 w0 f' w'.
Proof.
  intros Hw Hf Hs [Hw' [Hp [[Hk Hq]|Hr]]].
  - split; [eapply keepw_trans; eassumption|]. split; [rewrite Hp; apply Hf|]. left.
    split; [eapply keepf_trans; eassumption|eapply qstate_trans; eassumption].
  - split; [eapply keepw_trans; eassumption|]. split; [rewrite Hp; apply Hf|]. right. exact Hr.
Qed.

(* ---- GAP helpers ---- *)
Lemma next_gap_keep f (w : W) cur f' w' : next_gap_poll_traced A f w cur = Ok (f', w') ->
  keepf f f' /\ keepw w w' /\ f_state f' = f_state f.
Proof.
  unfold next_gap_poll_traced. destruct (next_gap_poll f cur) as [g| |]; cbn [bind]; try discriminate.
  intros H. injection H as <- <-. split; [apply keepf_set_gap|]. split; [apply keepw_note|reflexivity].
Qed.

Lemma transmit_gap_keep f now (w : W) f' w' polled :
  transmit_gap_poll_if_pending A f now w = Ok (f', w', polled) ->
  keepf f f' /\ keepw w w' /\ f_state f' = f_state f.
Proof.
  unfold transmit_gap_poll_if_pending. destruct (f_gap f) as [n|cur].
  - intros H. injection H as <- <- _. split; [apply keepf_refl|]. split; [apply keepw_refl|reflexivity].
  - destruct (cur =? ts f); [discriminate|].
    destruct (phy_send A w _) as [[w1 n]| |] eqn:Ep; cbn [bind]; try discriminate.
    destruct (mark_tx f now n) as [f1| |] eqn:Em; cbn [bind]; try discriminate.
    intros H. injection H as <- <- _. apply mark_tx_same in Em. apply phy_send_keep in Ep.
    split; [apply keepf_same; exact Em|]. split; [exact Ep|]. apply Em.
Qed.

Lemma await_gap_keep f now (w : W) pa f' w' r :
  await_gap_poll_response A f now w pa = Ok (f', w', r) ->
  keepf f f' /\ keepw w w' /\ f_state f' = f_state f.
Proof.
  unfold await_gap_poll_response. intros H.
  destruct (pa =? ts f); [discriminate H|]. destruct (negb _); [discriminate H|].
  destruct (receive_telegram (fun t => t) (w_rx w)) as [[rest received]| |]; cbn [bind] in H; try discriminate H.
  destruct received as [t|].
  - pose proof (keepf_mark_rx f now) as Hm. pose proof (state_mark_rx f now) as Hs.
    assert (Hw : forall tg, keepw w (note A (set_rx A w rest) tg)) by (intros tg; unfold keepw; cbn; tauto).
    destruct t as [[da sa dsap ssap fc] pdu|da sa|]; [destruct fc as [fb rq|st status]| |];
      try (injection H as <- <- _; split; [exact Hm|]; split; [apply Hw|exact Hs]).
    destruct ((sa =? pa) && (da =? ts (mark_rx f now))); [|injection H as <- <- _; split; [exact Hm|]; split; [apply Hw|exact Hs]].
    destruct (resp_status_eqb status gap_reply_status && gap_reply_state_is_master st);
      [|injection H as <- <- _; split; [exact Hm|]; split; [apply Hw|exact Hs]].
    destruct (set_next_station _ _) as [r'| |]; cbn [bind] in H; try discriminate H.
    injection H as <- <- _. split; [eapply keepf_trans; [exact Hm|apply keepf_set_ring]|]. split; [apply Hw|exact Hs].
  - destruct (check_slot_expired _ now) as [[f1 expired]| |] eqn:Ec; cbn [bind] in H; try discriminate H.
    apply check_slot_expired_same in Ec.
    assert (Hk : keepf f f1) by (eapply keepf_trans; [apply keepf_sync_pending|apply keepf_same; exact Ec]).
    assert (Hs : f_state f1 = f_state f) by (destruct Ec as [_ [_ [_ [_ [Hs _]]]]]; rewrite Hs; reflexivity).
    assert (Hw : forall tg, keepw w (note A (set_rx A (if Nat.ltb (length rest) (length (w_rx w)) then note A w TGapRxDiscard else w) rest) tg))
      by (intros tg; unfold keepw; destruct (Nat.ltb _ _); cbn; tauto).
    destruct expired; injection H as <- <- _; (split; [exact Hk|]; split; [apply Hw|exact Hs]).
Qed.

Lemma set_claim_step_spec f s f' : set_claim_step f s = Ok f' -> f' = set_st f (ClaimToken s).
Proof. unfold set_claim_step. destruct (get_claim_token_step _); cbn [bind]; try discriminate. intros H. injection H as <-. reflexivity. Qed.

(* ---- do_claim_token ---- *)
Lemma do_claim_token_scan_quiet f now (w : W) f' w' :
  do_claim_token_scan A f now w = Ok (f', w') -> quiet now f w f' w'.
Proof.
  unfold do_claim_token_scan. intros H.
  destruct (wait_synchronization_pause f now) as [[f1 wait]| |] eqn:Ew; cbn [bind] in H; try discriminate H.
  apply wait_sync_same in Ew. destruct Ew as [Ew _].
  assert (Hs1 : f_state f1 = f_state f) by apply Ew.
  destruct wait.
  - injection H as <- <-. apply quiet_intro; [apply keepw_note|apply keepf_same; exact Ew|rewrite Hs1; apply qstate_refl].
  - destruct (f_gap f1) as [rc|cur].
    + match type of H with context [trans A ?a ?b ?c] => destruct (trans A a b c) as [[f2 w2]| |] eqn:Et end; cbn [bind] in H; try discriminate H.
      injection H as <- <-. apply trans_keep in Et. destruct Et as [s' [Ht [_ [Hk [Hw Hs]]]]].
      unfold transition_pass_token in Ht. destruct (assert_kind _ _); cbn [bind] in Ht; try discriminate Ht. injection Ht as <-.
      apply quiet_intro; [eapply keepw_trans; [apply keepw_note|exact Hw]|eapply keepf_trans; [apply keepf_same; exact Ew|exact Hk]|].
      rewrite Hs. exact I.
    + destruct (next_gap_poll_traced A f1 w cur) as [[f2 w2]| |] eqn:En; cbn [bind] in H; try discriminate H.
      apply next_gap_keep in En. destruct En as [Hk2 [Hw2 Hs2]].
      destruct (transmit_gap_poll_if_pending A f2 now w2) as [[[f3 w3] polled]| |] eqn:Et; cbn [bind] in H; try discriminate H.
      apply transmit_gap_keep in Et. destruct Et as [Hk3 [Hw3 Hs3]].
      assert (Hk : keepf f f3) by (eapply keepf_trans; [apply keepf_same; exact Ew|eapply keepf_trans; eassumption]).
      assert (Hw : keepw w w3) by (eapply keepw_trans; eassumption).
      destruct polled as [address|].
      * destruct (set_claim_step f3 _) as [f4| |] eqn:Es; cbn [bind] in H; try discriminate H.
        apply set_claim_step_spec in Es. subst f4. injection H as <- <-.
        apply quiet_intro; [eapply keepw_trans; [exact Hw|apply keepw_note]|eapply keepf_trans; [exact Hk|apply keepf_set_st]|exact I].
      * injection H as <- <-.
        apply quiet_intro; [eapply keepw_trans; [exact Hw|apply keepw_note]|exact Hk|].
        rewrite Hs3, Hs2, Hs1. apply qstate_refl.
Qed.

Lemma do_claim_token_quiet f now (w : W) f' w' :
  do_claim_token A f now w = Ok (f', w') -> quiet now f w f' w'.
Proof.
  unfold do_claim_token. intros H.
  destruct (assert_entry DoClaimToken f); cbn [bind] in H; try discriminate H.
  destruct (get_claim_token_step (f_state f)) as [step| |]; cbn [bind] in H; try discriminate H.
  assert (Hsend : forall st,
    (let* (f0, wait) := wait_synchronization_pause f now in
     if wait then Ok (f0, note A w TSyncWait) else
     let* (w0, n) := phy_send A w (TxToken (ts f0) (ts f0)) in
     let f1 := set_ring f0 (claim_token (f_ring f0)) in
     let* f2 := set_claim_step f1 st in
     let f3 := set_gap f2 (GapDoPoll (ts f2)) in
     let* f4 := mark_tx f3 now n in Ok (f4, note A w0 TClaimSendToken)) = Ok (f', w') -> quiet now f w f' w').
  { intros st H1.
    destruct (wait_synchronization_pause f now) as [[f1 wait]| |] eqn:Ew; cbn [bind] in H1; try discriminate H1.
    apply wait_sync_same in Ew. destruct Ew as [Ew _].
    assert (Hs1 : f_state f1 = f_state f) by apply Ew.
    destruct wait.
    - injection H1 as <- <-. apply quiet_intro; [apply keepw_note|apply keepf_same; exact Ew|rewrite Hs1; apply qstate_refl].
    - destruct (phy_send A w _) as [[w1 n]| |] eqn:Ep; cbn [bind] in H1; try discriminate H1.
      apply phy_send_keep in Ep.
      destruct (set_claim_step _ _) as [f2| |] eqn:Es; cbn [bind] in H1; try discriminate H1.
      apply set_claim_step_spec in Es. subst f2.
      destruct (mark_tx _ now n) as [f4| |] eqn:Em; cbn [bind] in H1; try discriminate H1.
      apply mark_tx_same in Em. injection H1 as <- <-.
      apply quiet_intro; [eapply keepw_trans; [exact Ep|apply keepw_note]| |].
      + eapply keepf_trans; [apply keepf_same; exact Ew|]. eapply keepf_trans; [|apply keepf_same; exact Em].
        unfold keepf. cbn. tauto.
      + destruct Em as [_ [_ [_ [_ [Hs _]]]]]. rewrite Hs. exact I. }
  destruct step as [ | | |a0].
  - exact (Hsend _ H).
  - exact (Hsend _ H).
  - exact (do_claim_token_scan_quiet _ _ _ _ _ H).
  - destruct (await_gap_poll_response A f now w a0) as [[[f1 w1] r]| |] eqn:Ea; cbn [bind] in H; try discriminate H.
    apply await_gap_keep in Ea. destruct Ea as [Hk1 [Hw1 Hs1]].
    destruct r.
    + injection H as <- <-. apply quiet_intro; [exact Hw1|exact Hk1|rewrite Hs1; apply qstate_refl].
    + destruct (set_claim_step f1 StepScan) as [f2| |] eqn:Es; cbn [bind] in H; try discriminate H.
      apply set_claim_step_spec in Es. subst f2.
      pose proof (do_claim_token_scan_quiet _ _ _ _ _ H) as Hq.
      eapply quiet_front_st; [| | |exact Hq]; [exact Hw1|eapply keepf_trans; [exact Hk1|apply keepf_set_st]|cbn; exact I].
    + destruct (set_claim_step f1 StepScan) as [f2| |] eqn:Es; cbn [bind] in H; try discriminate H.
      apply set_claim_step_spec in Es. subst f2. injection H as <- <-.
      apply quiet_intro; [exact Hw1|eapply keepf_trans; [exact Hk1|apply keepf_set_st]|cbn; exact I].
    + apply trans_keep in H. destruct H as [s' [Ht [_ [Hk [Hw Hs]]]]].
      unfold transition_active_idle in Ht. destruct (assert_kind _ _); cbn [bind] in Ht; try discriminate Ht. injection Ht as <-.
      apply quiet_intro; [eapply keepw_trans; eassumption|eapply keepf_trans; eassumption|rewrite Hs; exact I].
Qed.

Lemma handle_lost_token_quiet f now (w : W) f' w' d :
  handle_lost_token A f now w = Ok (f', w', d) ->
  if d then quiet now f w f' w' else keepf f f' /\ keepw w w' /\ f_state f' = f_state f.
Proof.
  unfold handle_lost_token. intros H.
  destruct (lba_get_or_insert f now) as [l f0] eqn:El. apply lba_get_or_insert_same in El. destruct El as [El _].
  assert (Hs0 : f_state f0 = f_state f) by apply El.
  destruct (inst_diff now l); cbn [bind] in H; try discriminate H.
  match type of H with (if ?c then _ else _) = _ => destruct c end.
  - match type of H with context [trans A ?a ?b ?c] => destruct (trans A a b c) as [[f1 w1]| |] eqn:Et end; cbn [bind] in H; try discriminate H.
    apply trans_keep in Et. destruct Et as [s' [Ht [_ [Hk [Hw Hs]]]]].
    unfold transition_claim_token in Ht. destruct (assert_kind _ _); cbn [bind] in Ht; try discriminate Ht. injection Ht as <-.
    destruct (do_claim_token A f1 now w1) as [[f2 w2]| |] eqn:Ed; cbn [bind] in H; try discriminate H.
    injection H as <- <- <-. apply do_claim_token_quiet in Ed.
    eapply quiet_front_st; [| | |exact Ed]; [eapply keepw_trans; [apply keepw_note|exact Hw]|eapply keepf_trans; [apply keepf_same; exact El|exact Hk]|].
    rewrite Hs. exact I.
  - injection H as <- <- <-. split; [apply keepf_same; exact El|]. split; [apply keepw_refl|exact Hs0].
Qed.

(* ---- strictly quiet steps (no reset), closed under composition ---- *)
Definition squiet (now : Z) (f : fdl) (w : W) (f' : fdl) (w' : W) : Prop :=
  keepw w w' /\ keepf f f' /\ qstate now (f_state f) (f_state f').

Lemma squiet_refl now f w : squiet now f w f w.
Proof. split; [apply keepw_refl|]. split; [apply keepf_refl|apply qstate_refl]. Qed.
Lemma squiet_trans now f1 w1 f2 w2 f3 w3 : squiet now f1 w1 f2 w2 -> squiet now f2 w2 f3 w3 -> squiet now f1 w1 f3 w3.
Proof.
  intros [A1 [B1 C1]] [A2 [B2 C2]]. split; [eapply keepw_trans; eassumption|].
  split; [eapply keepf_trans; eassumption|eapply qstate_trans; eassumption].
Qed.
Lemma squiet_quiet now f w f' w' : squiet now f w f' w' -> quiet now f w f' w'.
Proof. intros [Hw [Hf Hq]]. apply quiet_intro; assumption. Qed.

Lemma quiet_trans_reset now f1 w1 f2 w2 f3 w3 :
  quiet now f1 w1 f2 w2 -> quiet now f2 w2 f3 w3 -> (is_reset f2 -> is_reset f3) -> quiet now f1 w1 f3 w3.
Proof.
  intros [A1 [P1 D1]] [A2 [P2 D2]] Hr. split; [eapply keepw_trans; eassumption|]. split; [congruence|].
  destruct D1 as [[K1 Q1]|R1].
  - destruct D2 as [[K2 Q2]|R2]; [left|right; exact R2].
    split; [eapply keepf_trans; eassumption|eapply qstate_trans; eassumption].
  - right. exact (Hr R1).
Qed.

Lemma fdl_new_spec p f : fdl_new p = Ok f -> is_reset f /\ f_p f = p.
Proof.
  unfold fdl_new. destruct (negb _); [discriminate|]. destruct (negb _); [discriminate|].
  destruct (ring_new _) as [r| |]; cbn [bind]; try discriminate. intros H. injection H as <-.
  unfold is_reset. cbn. tauto.
Qed.

(* ---- do_listen_token ---- *)
Lemma conn_mark_rx f now : f_conn (mark_rx f now) = f_conn f.
Proof. unfold mark_rx, mark_bus_activity, lba_get_or_insert. cbn [f_lba set_pending]. destruct (f_lba f); reflexivity. Qed.

Lemma is_reset_mark_rx f now : is_reset f -> is_reset (mark_rx f now).
Proof.
  unfold is_reset. destruct (keepf_mark_rx f now) as [_ [H1 [H2 H3]]].
  rewrite state_mark_rx, conn_mark_rx, H1, H2, H3. tauto.
Qed.

Lemma listen_token_telegram_quiet now f (w : W) t il f' w' u :
  listen_token_telegram A now (f, w) t il = Ok (f', w', u) ->
  quiet now f w f' w' /\ (is_reset f -> is_reset f').
Proof.
  unfold listen_token_telegram. intros H.
  pose proof (keepf_mark_rx f now) as Hm. pose proof (state_mark_rx f now) as Hs.
  set (g := mark_rx f now) in *.
  assert (Hsame : forall tg, quiet now f w g (note A w tg))
    by (intros tg; apply quiet_intro; [apply keepw_note|exact Hm|rewrite Hs; apply qstate_refl]).
  destruct (f_conn g) eqn:Ec.
  - injection H as <- <- _. split; [apply Hsame|]. intros Hr. apply is_reset_mark_rx. exact Hr.
  - split; [|intros [_ [C _]]; unfold g in Ec; rewrite conn_mark_rx in Ec; congruence].
    destruct (opt_eqb _ _).
    + destruct (get_listen_token _) as [[sr cc]| |]; cbn [bind] in H; try discriminate H.
      destruct (u8_add cc 1) as [cc'| |]; cbn [bind] in H; try discriminate H.
      destruct (cc' =? listen_collision_tolerated).
      * injection H as <- <- _. apply quiet_intro; [apply keepw_note|eapply keepf_trans; [exact Hm|apply keepf_set_st]|exact I].
      * destruct (set_offline _) as [f1| |] eqn:Eo; cbn [bind] in H; try discriminate H.
        injection H as <- <- _. apply fdl_new_spec in Eo. destruct Eo as [Hr Hp].
        split; [apply keepw_note|]. split; [rewrite Hp; cbn; apply Hm|right; exact Hr].
    + destruct t as [h pdu|da sa|].
      * destruct (is_fdl_status_request h && _).
        -- destruct il.
           ++ destruct (get_listen_token _) as [[sr cc]| |]; cbn [bind] in H; try discriminate H.
              injection H as <- <- _. apply quiet_intro; [apply keepw_note|eapply keepf_trans; [exact Hm|apply keepf_set_st]|exact I].
           ++ injection H as <- <- _. apply Hsame.
        -- injection H as <- <- _. apply Hsame.
      * destruct (witness _ _ _) as [r| |]; cbn [bind] in H; try discriminate H. injection H as <- <- _.
        apply quiet_intro; [apply keepw_note|eapply keepf_trans; [exact Hm|apply keepf_set_ring]|cbn; rewrite Hs; apply qstate_refl].
      * injection H as <- <- _. apply Hsame.
  - split; [|intros [_ [C _]]; unfold g in Ec; rewrite conn_mark_rx in Ec; congruence].
    destruct (opt_eqb _ _).
    + destruct (get_listen_token _) as [[sr cc]| |]; cbn [bind] in H; try discriminate H.
      destruct (u8_add cc 1) as [cc'| |]; cbn [bind] in H; try discriminate H.
      destruct (cc' =? listen_collision_tolerated).
      * injection H as <- <- _. apply quiet_intro; [apply keepw_note|eapply keepf_trans; [exact Hm|apply keepf_set_st]|exact I].
      * destruct (set_offline _) as [f1| |] eqn:Eo; cbn [bind] in H; try discriminate H.
        injection H as <- <- _. apply fdl_new_spec in Eo. destruct Eo as [Hr Hp].
        split; [apply keepw_note|]. split; [rewrite Hp; cbn; apply Hm|right; exact Hr].
    + destruct t as [h pdu|da sa|].
      * destruct (is_fdl_status_request h && _).
        -- destruct il.
           ++ destruct (get_listen_token _) as [[sr cc]| |]; cbn [bind] in H; try discriminate H.
              injection H as <- <- _. apply quiet_intro; [apply keepw_note|eapply keepf_trans; [exact Hm|apply keepf_set_st]|exact I].
           ++ injection H as <- <- _. apply Hsame.
        -- injection H as <- <- _. apply Hsame.
      * destruct (witness _ _ _) as [r| |]; cbn [bind] in H; try discriminate H. injection H as <- <- _.
        apply quiet_intro; [apply keepw_note|eapply keepf_trans; [exact Hm|apply keepf_set_ring]|cbn; rewrite Hs; apply qstate_refl].
      * injection H as <- <- _. apply Hsame.
Qed.

Lemma is_reset_sync_pending f (w : W) : is_reset f -> is_reset (sync_pending_bytes A f w).
Proof. unfold is_reset, sync_pending_bytes. cbn. tauto. Qed.

Lemma do_listen_token_quiet f now (w : W) f' w' :
  do_listen_token A f now w = Ok (f', w') -> quiet now f w f' w'.
Proof.
  unfold do_listen_token. intros H.
  destruct (assert_entry DoListenToken f); cbn [bind] in H; try discriminate H.
  destruct (handle_lost_token A f now w) as [[[f0 w0] d]| |] eqn:Eh; cbn [bind] in H; try discriminate H.
  apply handle_lost_token_quiet in Eh.
  destruct d; [injection H as <- <-; exact Eh|]. destruct Eh as [Hk0 [Hw0 Hs0]].
  destruct (get_listen_token (f_state f0)) as [[sr cc]| |] eqn:Eg; cbn [bind] in H; try discriminate H.
  eapply quiet_front; [exact Hw0|exact Hk0|exact Hs0|].
  destruct sr as [src|].
  - destruct (wait_synchronization_pause f0 now) as [[f1 wait]| |] eqn:Ew; cbn [bind] in H; try discriminate H.
    apply wait_sync_same in Ew. destruct Ew as [Ew _].
    assert (Hs1 : f_state f1 = f_state f0) by apply Ew.
    destruct wait.
    + injection H as <- <-. apply quiet_intro; [apply keepw_note|apply keepf_same; exact Ew|rewrite Hs1; apply qstate_refl].
    + destruct (phy_send A w0 _) as [[w1 n]| |] eqn:Ep; cbn [bind] in H; try discriminate H.
      apply phy_send_keep in Ep.
      match type of H with bind ?x _ = _ => destruct x as [[f2 w2]| |] eqn:E2 end; cbn [bind] in H; try discriminate H.
      destruct (mark_tx f2 now n) as [f3| |] eqn:Em; cbn [bind] in H; try discriminate H.
      apply mark_tx_same in Em. injection H as <- <-.
      assert (H2 : keepf f1 f2 /\ keepw w1 w2 /\ qstate now (f_state f1) (f_state f2)).
      { destruct (ready_for_ring (f_ring f1)).
        - apply trans_keep in E2. destruct E2 as [s' [Ht [_ [Hk [Hw Hs]]]]].
          unfold transition_active_idle in Ht. destruct (assert_kind _ _); cbn [bind] in Ht; try discriminate Ht. injection Ht as <-.
          split; [exact Hk|]. split; [eapply keepw_trans; [apply keepw_note|exact Hw]|rewrite Hs; exact I].
        - destruct (get_listen_token (f_state f1)) as [[sr1 cc1]| |]; cbn [bind] in E2; try discriminate E2.
          injection E2 as <- <-. split; [apply keepf_set_st|]. split; [apply keepw_note|exact I]. }
      destruct H2 as [Hk2 [Hw2 Hq2]].
      apply quiet_intro.
      * eapply keepw_trans; [exact Ep|exact Hw2].
      * eapply keepf_trans; [apply keepf_same; exact Ew|]. eapply keepf_trans; [exact Hk2|apply keepf_same; exact Em].
      * destruct Em as [_ [_ [_ [_ [Hs3 _]]]]]. rewrite Hs3, <- Hs1. exact Hq2.
  - unfold receive_all_telegrams in H.
    destruct (receive_all (listen_token_telegram A now) _ (f0, w0) (w_rx w0)) as [[[s1 rest] r]| |] eqn:Er; cbn [bind] in H; try discriminate H.
    destruct s1 as [f1 w1]. injection H as <- <-.
    assert (Hq : quiet now f0 w0 f1 w1 /\ True).
    { refine (receive_all_inv (fun s : fdl * W => quiet now f0 w0 (fst s) (snd s) /\ True) (listen_token_telegram A now) _ _ (f0, w0) _ (f1, w1) rest r _ Er).
      - intros [fa wa] t il [fb wb] u [Hp _] Hc. cbn [fst snd] in *. apply listen_token_telegram_quiet in Hc. destruct Hc as [Hc Hr].
        split; [|exact I]. eapply quiet_trans_reset; eassumption.
      - split; [apply quiet_refl|exact I]. }
    destruct Hq as [[Hw1 [Hp1 D1]] _].
    split; [eapply keepw_trans; [exact Hw1|apply keepw_set_rx]|]. split; [exact Hp1|].
    destruct D1 as [[K1 Q1]|R1].
    + left. split; [eapply keepf_trans; [exact K1|apply keepf_sync_pending]|exact Q1].
    + right. apply is_reset_sync_pending. exact R1.
Qed.

(* ---- handle_telegram, do_active_idle ---- *)
Lemma use_token_fresh s now s' : transition_use_token s now None = Ok s' -> s' = UseToken now None false.
Proof. unfold transition_use_token. destruct (assert_kind _ _); cbn [bind]; try discriminate. intros H. injection H as <-. reflexivity. Qed.

Lemma handle_telegram_squiet now f (w : W) t il f' w' :
  handle_telegram A now f w t il = Ok (f', w') -> squiet now f w f' w'.
Proof.
  unfold handle_telegram. intros H.
  assert (Hfresh : forall g wg, keepf f g -> keepw w wg ->
            trans A g wg (fun s => transition_use_token s now None) = Ok (f', w') -> squiet now f w f' w').
  { intros g wg Hg Hwg Ht. apply trans_keep in Ht. destruct Ht as [s' [Hu [_ [Hk [Hw Hs]]]]].
    apply use_token_fresh in Hu. subst s'.
    split; [eapply keepw_trans; eassumption|]. split; [eapply keepf_trans; eassumption|]. rewrite Hs. cbn. right. reflexivity. }
  destruct (f_state f) eqn:Es; cbn [negb kind_of state_kind_eqb] in H; try discriminate H;
    try (injection H as <- <-; split; [apply keepw_note|]; split; [apply keepf_refl|apply qstate_refl]).
  destruct t as [h pdu|da sa|].
  - destruct (is_fdl_status_request h && (h_da h =? ts f) && il).
    + cbn [get_active_idle bind] in H. injection H as <- <-.
      split; [apply keepw_note|]. split; [apply keepf_set_st|exact I].
    + injection H as <- <-. split; [apply keepw_note|]. split; [apply keepf_refl|apply qstate_refl].
  - cbn [get_active_idle bind] in H.
    destruct (sa =? ts f).
    + destruct (u8_add _ _); cbn [bind] in H; try discriminate H.
      match type of H with (if ?c then _ else _) = _ => destruct c end.
      * injection H as <- <-. split; [apply keepw_note|]. split; [apply keepf_set_st|exact I].
      * apply trans_keep in H. destruct H as [s' [Ht [_ [Hk [Hw Hs]]]]].
        unfold transition_listen_token in Ht. destruct (assert_kind _ _); cbn [bind] in Ht; try discriminate Ht. injection Ht as <-.
        split; [eapply keepw_trans; [apply keepw_note|exact Hw]|]. split; [eapply keepf_trans; [apply keepf_set_st|exact Hk]|rewrite Hs; exact I].
    + match type of H with (if ?c then _ else _) = _ => destruct c end.
      * destruct (witness _ _ _); cbn [bind] in H; try discriminate H. injection H as <- <-.
        split; [apply keepw_note|]. split; [eapply keepf_trans; [apply keepf_set_st|apply keepf_set_ring]|exact I].
      * match type of H with (if ?c then _ else _) = _ => destruct c end.
        -- eapply Hfresh; [| |exact H]; [apply keepf_set_st|apply keepw_note].
        -- destruct new_previous_station as [address|].
           ++ destruct (address =? sa).
              ** destruct (witness _ _ _); cbn [bind] in H; try discriminate H.
                 eapply Hfresh; [| |exact H]; [eapply keepf_trans; [apply keepf_set_st|apply keepf_set_ring]|apply keepw_note].
              ** injection H as <- <-. split; [apply keepw_note|]. split; [eapply keepf_trans; apply keepf_set_st|exact I].
           ++ injection H as <- <-. split; [apply keepw_note|]. split; [eapply keepf_trans; apply keepf_set_st|exact I].
  - injection H as <- <-. split; [apply keepw_note|]. split; [apply keepf_refl|apply qstate_refl].
Qed.

Lemma active_idle_telegram_squiet now f (w : W) t il f' w' u :
  active_idle_telegram A now (f, w) t il = Ok (f', w', u) -> squiet now f w f' w'.
Proof.
  unfold active_idle_telegram. intros H.
  destruct (handle_telegram A now (mark_rx f now) w t il) as [[f1 w1]| |] eqn:Eh; cbn [bind] in H; try discriminate H.
  injection H as <- <- _. apply handle_telegram_squiet in Eh.
  eapply squiet_trans; [|exact Eh]. split; [apply keepw_refl|]. split; [apply keepf_mark_rx|rewrite state_mark_rx; apply qstate_refl].
Qed.

Lemma do_active_idle_quiet f now (w : W) f' w' :
  do_active_idle A f now w = Ok (f', w') -> quiet now f w f' w'.
Proof.
  unfold do_active_idle. intros H.
  destruct (assert_entry DoActiveIdle f); cbn [bind] in H; try discriminate H.
  destruct (handle_lost_token A f now w) as [[[f0 w0] d]| |] eqn:Eh; cbn [bind] in H; try discriminate H.
  apply handle_lost_token_quiet in Eh.
  destruct d; [injection H as <- <-; exact Eh|]. destruct Eh as [Hk0 [Hw0 Hs0]].
  destruct (get_active_idle (f_state f0)) as [[[sr nps] cc]| |] eqn:Eg; cbn [bind] in H; try discriminate H.
  eapply quiet_front; [exact Hw0|exact Hk0|exact Hs0|].
  destruct sr as [src|].
  - destruct (wait_synchronization_pause f0 now) as [[f1 wait]| |] eqn:Ew; cbn [bind] in H; try discriminate H.
    apply wait_sync_same in Ew. destruct Ew as [Ew _].
    assert (Hs1 : f_state f1 = f_state f0) by apply Ew.
    destruct wait.
    + injection H as <- <-. apply quiet_intro; [apply keepw_note|apply keepf_same; exact Ew|rewrite Hs1; apply qstate_refl].
    + destruct (phy_send A w0 _) as [[w1 n]| |] eqn:Ep; cbn [bind] in H; try discriminate H.
      apply phy_send_keep in Ep.
      destruct (mark_tx _ now n) as [f3| |] eqn:Em; cbn [bind] in H; try discriminate H.
      apply mark_tx_same in Em. injection H as <- <-.
      apply quiet_intro.
      * eapply keepw_trans; [exact Ep|apply keepw_note].
      * eapply keepf_trans; [apply keepf_same; exact Ew|]. eapply keepf_trans; [apply keepf_set_st|apply keepf_same; exact Em].
      * destruct Em as [_ [_ [_ [_ [Hs3 _]]]]]. rewrite Hs3. exact I.
  - unfold receive_all_telegrams in H.
    destruct (receive_all (active_idle_telegram A now) _ (f0, w0) (w_rx w0)) as [[[s1 rest] r]| |] eqn:Er; cbn [bind] in H; try discriminate H.
    destruct s1 as [f1 w1]. injection H as <- <-.
    assert (Hq : squiet now f0 w0 f1 w1).
    { refine (receive_all_inv (fun s : fdl * W => squiet now f0 w0 (fst s) (snd s)) (active_idle_telegram A now) _ _ (f0, w0) _ (f1, w1) rest r _ Er).
      - intros [fa wa] t il [fb wb] u Hp Hc. cbn [fst snd] in *. apply active_idle_telegram_squiet in Hc.
        eapply squiet_trans; eassumption.
      - apply squiet_refl. }
    apply squiet_quiet. eapply squiet_trans; [exact Hq|].
    split; [apply keepw_set_rx|]. split; [apply keepf_sync_pending|apply qstate_refl].
Qed.

(* ---- do_pass_token, do_await_status_response, do_check_token_pass ---- *)
Lemma do_pass_token_squiet f now (w : W) f' w' :
  do_pass_token A f now w = Ok (f', w') -> squiet now f w f' w'.
Proof.
  unfold do_pass_token. intros H.
  destruct (assert_entry DoPassToken f); cbn [bind] in H; try discriminate H.
  destruct (wait_synchronization_pause f now) as [[f1 wait]| |] eqn:Ew; cbn [bind] in H; try discriminate H.
  apply wait_sync_same in Ew. destruct Ew as [Ew _].
  assert (Hs1 : f_state f1 = f_state f) by apply Ew.
  destruct wait.
  - injection H as <- <-. split; [apply keepw_note|]. split; [apply keepf_same; exact Ew|rewrite Hs1; apply qstate_refl].
  - destruct (get_pass_token (f_state f1)) as [[do_gap att0]| |] eqn:Eg; cbn [bind] in H; try discriminate H.
    match type of H with bind ?x _ = _ => destruct x as [[[f2 w2] polled]| |] eqn:E2 end; cbn [bind] in H; try discriminate H.
    assert (H2 : keepf f1 f2 /\ keepw w w2 /\ f_state f2 = f_state f1 /\ (polled <> None -> do_gap = true)).
    { destruct do_gap.
      - match type of E2 with bind ?x _ = _ => destruct x as [[f3 w3]| |] eqn:E3 end; cbn [bind] in E2; try discriminate E2.
        apply transmit_gap_keep in E2. destruct E2 as [Hk [Hw Hs]].
        assert (H3 : keepf f1 f3 /\ keepw w w3 /\ f_state f3 = f_state f1).
        { destruct (f_gap f1) as [rc|cur].
          - destruct (p_gap_wait (f_p f1) <? rc).
            + apply next_gap_keep in E3. destruct E3 as [A1 [A2 A3]].
              split; [exact A1|]. split; [eapply keepw_trans; [apply keepw_note|exact A2]|exact A3].
            + destruct (u8_add rc 1); cbn [bind] in E3; try discriminate E3. injection E3 as <- <-.
              split; [apply keepf_set_gap|]. split; [apply keepw_note|reflexivity].
          - apply next_gap_keep in E3. exact E3. }
        destruct H3 as [B1 [B2 B3]].
        split; [eapply keepf_trans; eassumption|]. split; [eapply keepw_trans; eassumption|]. split; [congruence|reflexivity].
      - injection E2 as <- <- <-. split; [apply keepf_refl|]. split; [apply keepw_refl|]. split; [reflexivity|intros C; contradiction C; reflexivity]. }
    destruct H2 as [Hk2 [Hw2 [Hs2 Hpol]]].
    assert (Hkf : keepf f f2) by (eapply keepf_trans; [apply keepf_same; exact Ew|exact Hk2]).
    destruct polled as [pa|].
    + apply trans_keep in H. destruct H as [s' [Ht [_ [Hk [Hw Hs]]]]].
      unfold transition_await_status_response in Ht. destruct (assert_kind _ _); cbn [bind] in Ht; try discriminate Ht. injection Ht as <-.
      split; [eapply keepw_trans; eassumption|]. split; [eapply keepf_trans; eassumption|].
      rewrite Hs. cbn. right. exists att0. rewrite (Hpol ltac:(discriminate)) in Eg.
      rewrite <- Hs1. destruct (f_state f1) as [ | | | | | | |g0 a1| | ]; try discriminate Eg. injection Eg as -> ->. reflexivity.
    + destruct (phy_send A w2 _) as [[w3 n]| |] eqn:Ep; cbn [bind] in H; try discriminate H.
      apply phy_send_keep in Ep.
      destruct (witness _ _ _) as [r| |]; cbn [bind] in H; try discriminate H.
      match type of H with bind ?x _ = _ => destruct x as [[f4 w4]| |] eqn:E4 end; cbn [bind] in H; try discriminate H.
      destruct (mark_tx f4 now n) as [f5| |] eqn:Em; cbn [bind] in H; try discriminate H.
      apply mark_tx_same in Em. injection H as <- <-.
      assert (H4 : keepf f2 f4 /\ keepw w3 w4 /\ qstate now (f_state f) (f_state f4)).
      { match type of E4 with (if ?c then _ else _) = _ => destruct c end.
        - apply trans_keep in E4. destruct E4 as [s' [Ht [_ [Hk [Hw Hs]]]]]. apply use_token_fresh in Ht. subst s'.
          split; [eapply keepf_trans; [apply keepf_set_ring|exact Hk]|]. split; [eapply keepw_trans; [apply keepw_note|exact Hw]|].
          rewrite Hs. cbn. right. reflexivity.
        - destruct (get_pass_token (f_state (set_ring f2 r))) as [[g1 att1]| |]; cbn [bind] in E4; try discriminate E4.
          apply trans_keep in E4. destruct E4 as [s' [Ht [_ [Hk [Hw Hs]]]]].
          unfold transition_check_token_pass in Ht. destruct (assert_kind _ _); cbn [bind] in Ht; try discriminate Ht. injection Ht as <-.
          split; [eapply keepf_trans; [apply keepf_set_ring|exact Hk]|]. split; [eapply keepw_trans; [apply keepw_note|exact Hw]|].
          rewrite Hs. exact I. }
      destruct H4 as [Hk4 [Hw4 Hq4]].
      split; [eapply keepw_trans; [exact Hw2|eapply keepw_trans; eassumption]|].
      split; [eapply keepf_trans; [exact Hkf|eapply keepf_trans; [exact Hk4|apply keepf_same; exact Em]]|].
      destruct Em as [_ [_ [_ [_ [Hs5 _]]]]]. rewrite Hs5. exact Hq4.
Qed.

(* what do_pass_token leaves: a token-passing state, or the first state of the next visit when the
   station is its own successor *)
Lemma do_pass_token_ends f now (w : W) f' w' :
  do_pass_token A f now w = Ok (f', w') ->
  pass_kind (kind_of (f_state f')) = true \/ f_state f' = UseToken now None false.
Proof.
  intros H0. pose proof (do_pass_token_squiet _ _ _ _ _ H0) as [_ [_ Hq]]. revert H0.
  unfold do_pass_token, assert_entry. intros H.
  destruct (f_state f) as [ | | | | | | |dg att| | ] eqn:Es; cbn [kind_of do_fn_entry state_kind_eqb bind] in H; try discriminate H.
  destruct (wait_synchronization_pause f now) as [[f1 wait]| |] eqn:Ew; cbn [bind] in H; try discriminate H.
  apply wait_sync_same in Ew. destruct Ew as [[_ [_ [_ [_ [Hs1 _]]]]] _].
  destruct wait.
  - injection H as <- <-. rewrite Hs1, Es. left. reflexivity.
  - rewrite Hs1, Es in H. cbn [get_pass_token bind] in H.
    match type of H with bind ?x _ = _ => destruct x as [[[f2 w2] polled]| |] eqn:E2 end; cbn [bind] in H; try discriminate H.
    destruct polled as [pa|].
    + apply trans_spec in H. destruct H as [s' [Ht [-> _]]].
      unfold transition_await_status_response in Ht. destruct (assert_kind _ _); cbn [bind] in Ht; try discriminate Ht.
      injection Ht as <-. left. reflexivity.
    + apply pass_token_tail_state in H. destruct H as [[tk H]|[at' H]].
      * rewrite H in Hq. cbn in Hq. destruct Hq as [Hq|Hq]; [discriminate Hq|]. right. rewrite H. exact Hq.
      * rewrite H. left. reflexivity.
Qed.

Lemma pass_token_false s att s' : transition_pass_token s false att = Ok s' -> s' = PassToken false att.
Proof. unfold transition_pass_token. destruct (assert_kind _ _); cbn [bind]; try discriminate. intros H. injection H as <-. reflexivity. Qed.

Lemma do_await_status_response_squiet f now (w : W) f' w' :
  do_await_status_response A f now w = Ok (f', w') -> squiet now f w f' w'.
Proof.
  unfold do_await_status_response. intros H.
  destruct (assert_entry DoAwaitStatusResponse f); cbn [bind] in H; try discriminate H.
  destruct (get_await_status_response_address (f_state f)) as [address| |]; cbn [bind] in H; try discriminate H.
  destruct (await_gap_poll_response A f now w address) as [[[f1 w1] r]| |] eqn:Ea; cbn [bind] in H; try discriminate H.
  apply await_gap_keep in Ea. destruct Ea as [Hk1 [Hw1 Hs1]].
  destruct r.
  - injection H as <- <-. split; [exact Hw1|]. split; [exact Hk1|rewrite Hs1; apply qstate_refl].
  - match type of H with context [trans A ?a ?b ?c] => destruct (trans A a b c) as [[f2 w2]| |] eqn:Et end; cbn [bind] in H; try discriminate H.
    apply trans_keep in Et. destruct Et as [s' [Ht [_ [Hk [Hw Hs]]]]]. apply pass_token_false in Ht. subst s'.
    apply do_pass_token_squiet in H.
    eapply squiet_trans; [|exact H].
    split; [eapply keepw_trans; eassumption|]. split; [eapply keepf_trans; eassumption|rewrite Hs; exact I].
  - apply trans_keep in H. destruct H as [s' [Ht [_ [Hk [Hw Hs]]]]]. apply pass_token_false in Ht. subst s'.
    split; [eapply keepw_trans; eassumption|]. split; [eapply keepf_trans; eassumption|rewrite Hs; exact I].
  - apply trans_keep in H. destruct H as [s' [Ht [_ [Hk [Hw Hs]]]]].
    unfold transition_active_idle in Ht. destruct (assert_kind _ _); cbn [bind] in Ht; try discriminate Ht. injection Ht as <-.
    split; [eapply keepw_trans; eassumption|]. split; [eapply keepf_trans; eassumption|rewrite Hs; exact I].
Qed.

Lemma check_token_pass_telegram_squiet now f (w : W) fi t il f' w' fi' u :
  check_token_pass_telegram A now (f, w, fi) t il = Ok (f', w', fi', u) -> squiet now f w f' w'.
Proof.
  unfold check_token_pass_telegram. intros H.
  match type of H with bind ?x _ = _ => destruct x as [[f1 w1]| |] eqn:E1 end; cbn [bind] in H; try discriminate H.
  assert (H1 : squiet now f w f1 w1).
  { destruct fi.
    - apply trans_keep in E1. destruct E1 as [s' [Ht [_ [Hk [Hw Hs]]]]].
      unfold transition_active_idle in Ht. destruct (assert_kind _ _); cbn [bind] in Ht; try discriminate Ht. injection Ht as <-.
      split; [eapply keepw_trans; [apply keepw_note|exact Hw]|]. split; [eapply keepf_trans; [apply keepf_mark_rx|exact Hk]|rewrite Hs; exact I].
    - injection E1 as <- <-. split; [apply keepw_refl|]. split; [apply keepf_mark_rx|rewrite state_mark_rx; apply qstate_refl]. }
  destruct (handle_telegram A now f1 w1 t il) as [[f2 w2]| |] eqn:Eh; cbn [bind] in H; try discriminate H.
  injection H as <- <- _ _. apply handle_telegram_squiet in Eh. eapply squiet_trans; eassumption.
Qed.

Lemma do_check_token_pass_squiet f now (w : W) f' w' :
  do_check_token_pass A f now w = Ok (f', w') -> squiet now f w f' w'.
Proof.
  unfold do_check_token_pass. intros H.
  destruct (assert_entry DoCheckTokenPass f); cbn [bind] in H; try discriminate H.
  destruct (check_slot_expired f now) as [[f1 expired]| |] eqn:Ec; cbn [bind] in H; try discriminate H.
  apply check_slot_expired_same in Ec.
  assert (Hs1 : f_state f1 = f_state f) by apply Ec.
  destruct expired.
  - destruct (get_check_token_pass_attempt (f_state f1)) as [att| |]; cbn [bind] in H; try discriminate H.
    match type of H with bind ?x _ = _ => destruct x as [[f2 w2]| |] eqn:E2 end; cbn [bind] in H; try discriminate H.
    assert (H2 : keepf f1 f2 /\ keepw w w2).
    { destruct (check_pass_removes att).
      - destruct (remove_station _ _) as [r| |]; cbn [bind] in E2; try discriminate E2.
        injection E2 as <- <-. split; [apply keepf_set_ring|apply keepw_note].
      - injection E2 as <- <-. split; [apply keepf_refl|apply keepw_note]. }
    destruct H2 as [Hk2 Hw2].
    match type of H with context [trans A ?a ?b ?c] => destruct (trans A a b c) as [[f3 w3]| |] eqn:Et end; cbn [bind] in H; try discriminate H.
    apply trans_keep in Et. destruct Et as [s' [Ht [_ [Hk [Hw Hs]]]]]. apply pass_token_false in Ht. subst s'.
    apply do_pass_token_squiet in H. eapply squiet_trans; [|exact H].
    split; [eapply keepw_trans; eassumption|].
    split; [eapply keepf_trans; [apply keepf_same; exact Ec|eapply keepf_trans; eassumption]|rewrite Hs; exact I].
  - destruct (receive_all _ _ (f1, w, true) (w_rx w)) as [[[s1 rest] r]| |] eqn:Er; cbn [bind] in H; try discriminate H.
    destruct s1 as [[f2 w2] fi]. injection H as <- <-.
    assert (Hq : squiet now f1 w f2 w2).
    { refine (receive_all_inv (fun s : fdl * W * bool => squiet now f1 w (fst (fst s)) (snd (fst s))) (check_token_pass_telegram A now) _ _ (f1, w, true) _ (f2, w2, fi) rest r _ Er).
      - intros [[fa wa] fia] t il [[fb wb] fib] u Hp Hc. cbn [fst snd] in *. apply check_token_pass_telegram_squiet in Hc.
        eapply squiet_trans; eassumption.
      - apply squiet_refl. }
    eapply squiet_trans; [split; [apply keepw_refl|split; [apply keepf_same; exact Ec|rewrite Hs1; apply qstate_refl]]|].
    eapply squiet_trans; [exact Hq|].
    split; [destruct fi; unfold keepw; cbn; tauto|]. split; [apply keepf_sync_pending|apply qstate_refl].
Qed.

(* ------------------------------------------------------------------------------------------ *)
(* Part B: the functions that call applications                                                *)

(* hold-time fields and parameters (next_application may move) *)
Definition keeph (f f' : fdl) : Prop :=
  f_p f' = f_p f /\ f_last_token_time f' = f_last_token_time f /\ f_end_tht f' = f_end_tht f.
Lemma keeph_refl f : keeph f f. Proof. unfold keeph. tauto. Qed.
Lemma keeph_trans f g h : keeph f g -> keeph g h -> keeph f h.
Proof. unfold keeph. intuition congruence. Qed.
Lemma keepf_keeph f f' : keepf f f' -> keeph f f'.
Proof. unfold keepf, keeph. tauto. Qed.

Lemma app_transmit_spec f now (w : W) idx app hp f' w' d :
  app_transmit_telegram A ops f now w idx app hp = Ok (f', w', d) ->
  exists app' r, a_tx ops app now (f_p f) hp = Ok (app', r) /\
    w_calls w' = w_calls w ++ [CallTransmit idx hp r] /\
    w_apps w' = replace_nth (w_apps w) idx app' /\ keepf f f' /\
    match r with
    | None => d = false /\ f_state f' = f_state f
    | Some (_, None) => d = true /\ f_state f' = f_state f
    | Some (_, Some da) => d = true /\ exists tk fa fcd, f_state f = UseToken tk fa fcd /\ f_state f' = AwaitDataResponse da tk fa
    end.
Proof.
  unfold app_transmit_telegram. intros H.
  destruct (a_tx ops app now (f_p f) hp) as [[app' r]| |] eqn:Ea; cbn [bind] in H; try discriminate H.
  exists app', r. split; [reflexivity|].
  destruct r as [[wire exp]|].
  - unfold phy_transmit in H. cbn [log_call set_app w_tx] in H.
    destruct (w_tx w); cbn [bind] in H; [discriminate H|].
    destruct exp as [addr|].
    + destruct (f_state f) as [ | | | |tk fa fcd| | | | | ] eqn:Es; cbn [get_use_token bind] in H; try discriminate H.
      match type of H with context [trans A ?a ?b ?c] => destruct (trans A a b c) as [[f1 w1]| |] eqn:Et end; cbn [bind] in H; try discriminate H.
      apply trans_keep in Et. destruct Et as [s' [Ht [_ [Hk [[Hw1 Hw2] Hs]]]]].
      unfold transition_await_data_response in Ht. destruct (assert_kind _ _); cbn [bind] in Ht; try discriminate Ht. injection Ht as <-.
      destruct (mark_tx f1 now _) as [f2| |] eqn:Em; cbn [bind] in H; try discriminate H.
      injection H as <- <- <-. apply mark_tx_same in Em.
      split; [rewrite Hw1; reflexivity|]. split; [rewrite Hw2; reflexivity|].
      split; [eapply keepf_trans; [exact Hk|apply keepf_same; exact Em]|]. split; [reflexivity|].
      exists tk, fa, fcd. split; [reflexivity|]. destruct Em as [_ [_ [_ [_ [Hs2 _]]]]]. rewrite Hs2. exact Hs.
    + cbn [bind] in H. destruct (mark_tx f now _) as [f2| |] eqn:Em; cbn [bind] in H; try discriminate H.
      injection H as <- <- <-. apply mark_tx_same in Em.
      split; [reflexivity|]. split; [reflexivity|]. split; [apply keepf_same; exact Em|]. split; [reflexivity|apply Em].
  - injection H as <- <- <-. split; [reflexivity|]. split; [reflexivity|]. split; [apply keepf_refl|]. split; reflexivity.
Qed.

Lemma schedule_next_spec f n f' c : schedule_next_application f n = Ok (f', c) ->
  exists tk fa fcd, f_state f = UseToken tk fa fcd /\ n <> 0%nat /\
    let first := match fa with Some x => x | None => f_next_app f end in
    let next := Nat.modulo (f_next_app f + 1) n in
    f_state f' = UseToken tk (Some first) fcd /\ f_next_app f' = next /\ c = Nat.eqb next first /\ keeph f f'.
Proof.
  unfold schedule_next_application.
  destruct (f_state f) as [ | | | |tk fa fcd| | | | | ]; cbn [get_use_token bind]; try discriminate.
  destruct (Nat.eqb_spec n 0) as [E|E]; [discriminate|]. intros H. injection H as <- <-.
  exists tk, fa, fcd. split; [reflexivity|]. split; [exact E|]. cbn. unfold keeph. cbn. tauto.
Qed.

(* do_await_data_response, case by case *)
Lemma do_await_data_response_split f now (w : W) f' w' :
  do_await_data_response A ops f now w = Ok (f', w') ->
  exists a tk fa app, f_state f = AwaitDataResponse a tk fa /\ nth_error (w_apps w) (f_next_app f) = Some app /\
  ( (* a valid reply is delivered *)
    (exists t app', reply_ok (ts f) a t /\ a_rx ops app now (f_p f) a t = Ok app' /\
       w_calls w' = w_calls w ++ [CallReceiveReply (f_next_app f) a t] /\
       w_apps w' = replace_nth (w_apps w) (f_next_app f) app' /\ keepf f f' /\ f_state f' = UseToken tk fa true)
  \/ (* something else arrived: the token is given up, no callback *)
    (keepw w w' /\ keepf f f' /\ f_state f' = ActiveIdle None None 0)
  \/ (* still waiting *)
    (keepw w w' /\ keepf f f' /\ f_state f' = f_state f)
  \/ (* slot time expired: time-out callback, then do_use_token in the same poll *)
    (exists app' f3 w3, a_to ops app now (f_p f) a = Ok app' /\
       w_calls w3 = w_calls w ++ [CallHandleTimeout (f_next_app f) a] /\
       w_apps w3 = replace_nth (w_apps w) (f_next_app f) app' /\ keepf f f3 /\ f_state f3 = UseToken tk fa true /\
       do_use_token A ops f3 now w3 = Ok (f', w')) ).
Proof.
  unfold do_await_data_response. intros H.
  destruct (assert_entry DoAwaitDataResponse f) as [[]| |]; cbn [bind] in H; try discriminate H.
  destruct (f_state f) as [ | | | | | |a tk fa| | | ] eqn:Es; cbn [get_await_data_response bind] in H; try discriminate H.
  destruct (nth_error (w_apps w) (f_next_app f)) as [app|] eqn:En; [|discriminate H].
  exists a, tk, fa, app. split; [reflexivity|]. split; [reflexivity|].
  destruct (receive_telegram (fun t => t) (w_rx w)) as [[rest received]| |]; cbn [bind] in H; try discriminate H.
  destruct received as [t|].
  - pose proof (keepf_mark_rx f now) as Hm. pose proof (state_mark_rx f now) as Hsm.
    destruct (is_valid_response (mark_rx f now) a t) eqn:Ev.
    + left. apply is_valid_response_spec in Ev.
      replace (ts (mark_rx f now)) with (ts f) in Ev by (unfold ts; destruct Hm as [-> _]; reflexivity).
      replace (f_p (mark_rx f now)) with (f_p f) in H by (destruct Hm as [-> _]; reflexivity).
      destruct (a_rx ops app now (f_p f) a t) as [app'| |] eqn:Ea; cbn [bind] in H; try discriminate H.
      match type of H with context [trans A ?a ?b ?c] => destruct (trans A a b c) as [[f1 w1]| |] eqn:Et end; cbn [bind] in H; try discriminate H.
      apply trans_keep in Et. destruct Et as [s' [Ht [_ [Hk [[Hw1 Hw2] Hs]]]]].
      unfold transition_use_token in Ht. destruct (assert_kind _ _); cbn [bind] in Ht; try discriminate Ht. injection Ht as <-.
      unfold set_first_cycle_done in H. rewrite Hs in H. cbn [get_use_token bind] in H. injection H as <- <-.
      exists t, app'. split; [exact Ev|]. split; [first [exact Ea|reflexivity]|]. split; [rewrite Hw1; reflexivity|]. split; [rewrite Hw2; reflexivity|].
      split; [|reflexivity]. eapply keepf_trans; [exact Hm|]. eapply keepf_trans; [apply keepf_sync_pending|]. eapply keepf_trans; [exact Hk|apply keepf_set_st].
    + right. left. apply trans_keep in H. destruct H as [s' [Ht [_ [Hk [Hw Hs]]]]].
      unfold transition_active_idle in Ht. destruct (assert_kind _ _); cbn [bind] in Ht; try discriminate Ht. injection Ht as <-.
      split; [eapply keepw_trans; [|exact Hw]; unfold keepw; cbn; tauto|]. split; [eapply keepf_trans; eassumption|exact Hs].
  - set (wx := if Nat.ltb (length rest) (length (w_rx w)) then note A w TReplyRxDiscard else w) in *.
    assert (Hwx : w_calls wx = w_calls w /\ w_apps wx = w_apps w) by (unfold wx; destruct (Nat.ltb _ _); split; reflexivity).
    destruct Hwx as [Hwx1 Hwx2]. clearbody wx.
destruct (check_slot_expired _ now) as [[f1 expired]| |] eqn:Ec; cbn [bind] in H; try discriminate H.
    apply check_slot_expired_same in Ec.
    assert (Hk1 : keepf f f1) by (eapply keepf_trans; [apply keepf_sync_pending|apply keepf_same; exact Ec]).
    assert (Hs1 : f_state f1 = f_state f) by (destruct Ec as [_ [_ [_ [_ [Hs _]]]]]; rewrite Hs; reflexivity).
    destruct expired.
    + right. right. right.
      replace (f_p f1) with (f_p f) in H by (destruct Hk1 as [-> _]; reflexivity).
      destruct (a_to ops app now (f_p f) a) as [app'| |] eqn:Ea; cbn [bind] in H; try discriminate H.
      match type of H with context [trans A ?a ?b ?c] => destruct (trans A a b c) as [[f2 w2]| |] eqn:Et end; cbn [bind] in H; try discriminate H.
      apply trans_keep in Et. destruct Et as [s' [Ht [_ [Hk [[Hw1 Hw2] Hs]]]]].
      unfold transition_use_token in Ht. destruct (assert_kind _ _); cbn [bind] in Ht; try discriminate Ht. injection Ht as <-.
      unfold set_first_cycle_done in H. rewrite Hs in H. cbn [get_use_token bind] in H.
      exists app', (set_st f2 (UseToken tk fa true)), w2. split; [first [exact Ea|reflexivity]|].
      split; [rewrite Hw1; cbn; rewrite Hwx1; reflexivity|]. split; [rewrite Hw2; cbn; rewrite Hwx2; reflexivity|].
      split; [eapply keepf_trans; [exact Hk1|]; eapply keepf_trans; [exact Hk|apply keepf_set_st]|]. split; [reflexivity|exact H].
    + right. right. left. injection H as <- <-.
      split; [unfold keepw; cbn; tauto|]. split; [exact Hk1|rewrite Hs1; exact Es].
Qed.

Section Mon.
Variable n : nat.       (* number of applications *)
Variable tsa : Z.       (* address of this station *)

Lemma visit_inv_decl_lt fa next d : (next < n)%nat -> visit_inv n fa next d -> (d < n)%nat.
Proof. intros Hn. destruct fa as [first|]; cbn; [intros [_ [H _]]; lia|intros ->; lia]. Qed.

Lemma apps_transmit_loop_mon : forall k f now (w : W) hp f' w' d m,
  apps_transmit_loop A ops k f now w hp = Ok (f', w', d) ->
  length (w_apps w) = n -> in_visit (c_kind m) = true ->
  (exists tk fa fcd, f_state f = UseToken tk fa fcd) -> c_turn m = f_next_app f -> inv_st n f m ->
  exists l, w_calls w' = w_calls w ++ l /\ acalls n tsa m l /\ Forall (is_transmit_call hp) l /\
    length (w_apps w') = n /\ keeph f f' /\
    let m' := mcalls n m l in
    c_turn m' = f_next_app f' /\
    if d then inv_st n f' m' /\ in_visit (kind_of (f_state f')) = true
    else c_out m' = None /\ (exists tk fa fcd, f_state f' = UseToken tk fa fcd) /\
         (c_decl m' = n \/ (inv_st n f' m' /\ c_decl m' = (c_decl m + k)%nat)).
Proof.
  induction k as [|k IH]; intros f now w hp f' w' d m H Hlen Hvis Hst Hturn Hinv; cbn [apps_transmit_loop] in H.
  - injection H as <- <- <-. exists []. rewrite app_nil_r. split; [reflexivity|]. split; [exact I|]. split; [constructor|].
    split; [exact Hlen|]. split; [apply keeph_refl|]. cbn. split; [exact Hturn|].
    destruct Hst as [tk [fa [fcd Es]]]. split; [unfold inv_st in Hinv; rewrite Es in Hinv; apply Hinv|].
    split; [exists tk, fa, fcd; exact Es|]. right. split; [exact Hinv|lia].
  - destruct (nth_error (w_apps w) (f_next_app f)) as [app|] eqn:En; [|discriminate H].
    assert (Hidx : (f_next_app f < n)%nat) by (rewrite <- Hlen; apply nth_error_Some; rewrite En; discriminate).
    destruct (app_transmit_telegram A ops f now w (f_next_app f) app hp) as [[[f1 w1] d1]| |] eqn:Ea; cbn [bind] in H; try discriminate H.
    apply app_transmit_spec in Ea. destruct Ea as [app' [r [_ [Hc1 [Ha1 [Hk1 Hr]]]]]].
    assert (Hlen1 : length (w_apps w1) = n) by (rewrite Ha1, length_replace_nth; exact Hlen).
    destruct Hst as [tk [fa [fcd Es]]].
    assert (Hinv' := Hinv). unfold inv_st in Hinv'. rewrite Es in Hinv'. destruct Hinv' as [Hout Hv].
    assert (Hpre : cpre n tsa m (HCall (CallTransmit (f_next_app f) hp r))).
    { cbn. split; [exact Hvis|]. split; [exact Hout|]. split; [symmetry; exact Hturn|]. split; [exact Hidx|].
      eapply visit_inv_decl_lt; eassumption. }
    assert (Hone : Forall (is_transmit_call hp) [CallTransmit (f_next_app f) hp r])
      by (constructor; [eexists; eexists; reflexivity|constructor]).
    destruct Hk1 as [Kp [Kn [Kl Ke]]].
    destruct r as [[wire [da|]]|].
    + (* sent, reply expected *)
      destruct Hr as [-> [tk' [fa' [fcd' [Es' Es1]]]]]. rewrite Es in Es'. injection Es' as <- <- <-.
      injection H as <- <- <-. exists [CallTransmit (f_next_app f) hp (Some (wire, Some da))].
      split; [exact Hc1|]. split; [split; [exact Hpre|exact I]|]. split; [exact Hone|]. split; [exact Hlen1|].
      split; [unfold keeph; tauto|]. cbn. split; [rewrite Kn; exact Hturn|].
      split; [|rewrite Es1; reflexivity]. unfold inv_st. rewrite Es1, Kn. cbn. split; [reflexivity|exact Hv].
    + (* sent, no reply expected *)
      destruct Hr as [-> Es1]. injection H as <- <- <-. exists [CallTransmit (f_next_app f) hp (Some (wire, None))].
      split; [exact Hc1|]. split; [split; [exact Hpre|exact I]|]. split; [exact Hone|]. split; [exact Hlen1|].
      split; [unfold keeph; tauto|]. cbn. split; [rewrite Kn; exact Hturn|].
      split; [|rewrite Es1, Es; reflexivity]. unfold inv_st. rewrite Es1, Es, Kn. split; [exact Hout|exact Hv].
    + (* declined *)
      destruct Hr as [-> Es1]. rewrite Hlen1 in H.
      destruct (schedule_next_application f1 n) as [[f2 completed]| |] eqn:Esch; cbn [bind] in H; try discriminate H.
      apply schedule_next_spec in Esch. destruct Esch as [tk2 [fa2 [fcd2 [Es2 [Hn0 Hsch]]]]]. cbn zeta in Hsch.
      rewrite Es1, Es in Es2. injection Es2 as <- <- <-. rewrite Kn in Hsch.
      destruct Hsch as [Est2 [Hnext2 [Hcomp Kh2]]].
      pose proof (decline_step n fa (f_next_app f) (c_decl m) Hidx Hv) as Hstep. cbn zeta in Hstep.
      set (m1 := cpost n m (HCall (CallTransmit (f_next_app f) hp None))) in *.
      assert (Hm1 : c_kind m1 = c_kind m /\ c_out m1 = c_out m /\ c_turn m1 = Nat.modulo (f_next_app f + 1) n /\ c_decl m1 = S (c_decl m))
        by (unfold m1; cbn; tauto).
      destruct Hm1 as [M1 [M2 [M3 M4]]].
      assert (Kh : keeph f f2) by (eapply keeph_trans; [|exact Kh2]; unfold keeph; tauto).
      rewrite <- Hcomp in Hstep.
      destruct completed.
      * injection H as <- <- <-. exists [CallTransmit (f_next_app f) hp None].
        split; [exact Hc1|]. split; [split; [exact Hpre|exact I]|]. split; [exact Hone|]. split; [exact Hlen1|].
        split; [exact Kh|]. change (mcalls n m [CallTransmit (f_next_app f) hp None]) with m1. cbn zeta.
        split; [rewrite M3, Hnext2; reflexivity|]. split; [rewrite M2; exact Hout|].
        split; [eexists; eexists; eexists; exact Est2|]. left. rewrite M4. exact Hstep.
      * assert (Hinv2 : inv_st n f2 m1) by (unfold inv_st; rewrite Est2, Hnext2, M2, M4; split; [exact Hout|exact Hstep]).
        specialize (IH f2 now w1 hp f' w' d m1 H Hlen1 ltac:(rewrite M1; exact Hvis)
                       ltac:(eexists; eexists; eexists; exact Est2) ltac:(rewrite M3, Hnext2; reflexivity) Hinv2).
        destruct IH as [l [Hl [Hacc [Hfa [Hlen' [Kh' Hrest]]]]]].
        exists (CallTransmit (f_next_app f) hp None :: l).
        split; [rewrite Hl, Hc1, <- app_assoc; reflexivity|]. split; [split; [exact Hpre|exact Hacc]|].
        split; [constructor; [eexists; eexists; reflexivity|exact Hfa]|]. split; [exact Hlen'|].
        split; [eapply keeph_trans; eassumption|].
        change (mcalls n m (CallTransmit (f_next_app f) hp None :: l)) with (mcalls n m1 l).
        cbn zeta in *. destruct Hrest as [R1 R2]. split; [exact R1|].
        destruct d; [exact R2|]. destruct R2 as [R2 [R3 R4]]. split; [exact R2|]. split; [exact R3|].
        destruct R4 as [R4|[R4 R5]]; [left; exact R4|right]. split; [exact R4|]. rewrite R5, M4. lia.
Qed.

(* do_use_token: the monitor accepts the calls; afterwards the station is still in the visit, or it has
   decided to pass the token - because every application has declined, or because the hold time is over *)
Lemma do_use_token_head_mon f now (w : W) f' w' m :
  do_use_token_head A ops f now w = Ok (f', w') ->
  length (w_apps w) = n -> in_visit (c_kind m) = true -> c_turn m = f_next_app f -> inv_st n f m ->
  exists l, w_calls w' = w_calls w ++ l /\ acalls n tsa m l /\ length (w_apps w') = n /\ f_p f' = f_p f /\
    let m' := mcalls n m l in
    c_turn m' = f_next_app f' /\ inv_st n f' m' /\
    (in_visit (kind_of (f_state f')) = true \/
     (f_state f' = PassToken true first_attempt /\ (c_decl m' = n \/ f_end_tht f' <= now))).
Proof.
  unfold do_use_token_head, assert_entry. intros H Hlen Hvis Hturn Hinv.
  destruct (f_state f) as [ | | | |tk fa fcd| | | | | ] eqn:Es; cbn [kind_of do_fn_entry state_kind_eqb bind get_use_token] in H; try discriminate H.
  match type of H with bind ?x _ = _ => destruct x as [[f1 w1]| |] eqn:E1 end; cbn [bind] in H; try discriminate H.
  assert (H1 : keepw w w1 /\ f_state f1 = f_state f /\ f_next_app f1 = f_next_app f /\ f_p f1 = f_p f).
  { destruct (negb _).
    - destruct (inst_add _ _) as [e| |]; cbn [bind] in E1; try discriminate E1.
      destruct (f_gap f).
      + injection E1 as <- <-. split; [apply keepw_note|]. cbn. tauto.
      + destruct (inst_sub_dur _ _) as [e2| |]; cbn [bind] in E1; try discriminate E1.
        injection E1 as <- <-. split; [apply keepw_note|]. cbn. tauto.
    - injection E1 as <- <-. split; [apply keepw_refl|]. tauto. }
  destruct H1 as [[Hc1 Ha1] [Hs1 [Hn1 Hp1]]].
  destruct (wait_synchronization_pause f1 now) as [[f2 wait]| |] eqn:Ew; cbn [bind] in H; try discriminate H.
  apply wait_sync_same in Ew. destruct Ew as [[Hp2 [_ [_ [_ [Hs2 [_ [_ [He2 Hn2]]]]]]]] _].
  assert (Hinv2 : inv_st n f2 m) by (unfold inv_st in *; rewrite Hs2, Hs1, Hn2, Hn1; exact Hinv).
  assert (Hturn2 : c_turn m = f_next_app f2) by (rewrite Hn2, Hn1; exact Hturn).
  destruct wait.
  - injection H as <- <-. exists []. cbn. rewrite app_nil_r. split; [exact Hc1|]. split; [exact I|]. split; [rewrite Ha1; exact Hlen|].
    split; [congruence|]. split; [exact Hturn2|]. split; [exact Hinv2|]. left. rewrite Hs2, Hs1, Es. reflexivity.
  - rewrite Hs2, Hs1, Es in H. cbn [get_use_token bind] in H.
    (* the two rounds are the same up to the priority flag *)
    assert (Hround : forall hp tg f'' w'' d,
      (let* f0 := set_first_cycle_done f2 in apps_transmit_telegram A ops f0 now (note A w1 tg) hp) = Ok (f'', w'', d) ->
      exists l, w_calls w'' = w_calls w ++ l /\ acalls n tsa m l /\ length (w_apps w'') = n /\ keeph f2 f'' /\
        let m' := mcalls n m l in
        c_turn m' = f_next_app f'' /\
        if d then inv_st n f'' m' /\ in_visit (kind_of (f_state f'')) = true
        else c_out m' = None /\ (exists tk fa fcd, f_state f'' = UseToken tk fa fcd) /\ c_decl m' = n).
    { intros hp tg f'' w'' d Hr. unfold set_first_cycle_done in Hr. rewrite Hs2, Hs1, Es in Hr. cbn [get_use_token bind] in Hr.
      unfold apps_transmit_telegram in Hr. cbn [note w_apps] in Hr.
      eapply apps_transmit_loop_mon with (m := m) in Hr.
      - destruct Hr as [l [Hl [Hacc [_ [Hlen' [Kh Hrest]]]]]]. exists l. cbn [note w_calls] in Hl.
        split; [rewrite Hl, Hc1; reflexivity|]. split; [exact Hacc|]. split; [exact Hlen'|].
        split; [eapply keeph_trans; [|exact Kh]; unfold keeph; cbn; tauto|].
        cbn zeta in *. destruct Hrest as [R1 R2]. split; [exact R1|]. destruct d; [exact R2|].
        destruct R2 as [R2 [R3 R4]]. split; [exact R2|]. split; [exact R3|].
        destruct R4 as [R4|[R4 R5]]; [exact R4|]. cbn [note w_apps] in R5. rewrite Ha1, Hlen in R5.
        destruct R3 as [tk3 [fa3 [fcd3 Es3]]]. unfold inv_st in R4. rewrite Es3 in R4. destruct R4 as [_ R4].
        destruct fa3 as [first|]; cbn in R4; lia.
      - cbn. rewrite Ha1. exact Hlen.
      - exact Hvis.
      - eexists; eexists; eexists; reflexivity.
      - cbn. exact Hturn2.
      - unfold inv_st in *. cbn. rewrite Hs2, Hs1, Es in Hinv2. exact Hinv2. }
    assert (Hfinish : forall (f3 : fdl) (w3 : W) (d : bool) (l : list call),
      (if d then Ok (f3, w3) else trans A f3 w3 (fun s => transition_pass_token s true first_attempt)) = Ok (f', w') ->
      w_calls w3 = w_calls w ++ l -> acalls n tsa m l -> length (w_apps w3) = n -> keeph f2 f3 ->
      (let m' := mcalls n m l in
        c_turn m' = f_next_app f3 /\
        if d then inv_st n f3 m' /\ in_visit (kind_of (f_state f3)) = true
        else c_out m' = None /\ (exists tk fa fcd, f_state f3 = UseToken tk fa fcd) /\ (c_decl m' = n \/ f_end_tht f3 <= now)) ->
      exists l, w_calls w' = w_calls w ++ l /\ acalls n tsa m l /\ length (w_apps w') = n /\ f_p f' = f_p f /\
        let m' := mcalls n m l in
        c_turn m' = f_next_app f' /\ inv_st n f' m' /\
        (in_visit (kind_of (f_state f')) = true \/
         (f_state f' = PassToken true first_attempt /\ (c_decl m' = n \/ f_end_tht f' <= now)))).
    { intros f3 w3 d l Hfin Hl Hacc Hlen3 Kh Hrest. cbn zeta in *. exists l. destruct Hrest as [R1 R2].
      destruct d.
      - injection Hfin as <- <-. split; [exact Hl|]. split; [exact Hacc|]. split; [exact Hlen3|].
        split; [destruct Kh as [Kp _]; congruence|]. split; [exact R1|]. split; [apply R2|left; apply R2].
      - apply trans_keep in Hfin. destruct Hfin as [s' [Ht [_ [Hk [[Hw1 Hw2] Hs]]]]].
        destruct R2 as [R2 [[tk3 [fa3 [fcd3 Es3]]] R4]].
        unfold transition_pass_token in Ht. destruct (assert_kind _ _); cbn [bind] in Ht; try discriminate Ht. injection Ht as <-.
        destruct Hk as [Kp [Kn [Kl Ke]]].
        split; [rewrite Hw1; exact Hl|]. split; [exact Hacc|]. split; [rewrite Hw2; exact Hlen3|].
        split; [destruct Kh as [Kp' _]; congruence|]. split; [rewrite Kn; exact R1|].
        split; [unfold inv_st; rewrite Hs; exact R2|]. right. split; [exact Hs|]. rewrite Ke. exact R4. }
    destruct (Z.ltb_spec now (f_end_tht f2)) as [Hlt|Hge].
    + match type of H with bind ?x _ = _ => destruct x as [[[f3 w3] d]| |] eqn:El end; cbn [bind] in H; try discriminate H.
      apply Hround in El. destruct El as [l [Hl [Hacc [Hlen3 [Kh Hrest]]]]].
      eapply Hfinish; [exact H|exact Hl|exact Hacc|exact Hlen3|exact Kh|].
      cbn zeta in *. destruct Hrest as [R1 R2]. split; [exact R1|]. destruct d; [exact R2|].
      destruct R2 as [R2 [R3 R4]]. split; [exact R2|]. split; [exact R3|left; exact R4].
    + destruct fcd.
      * cbn [negb bind] in H.
        eapply (Hfinish f2 (note A w1 TUseHoldOver) false []); [exact H|cbn; rewrite app_nil_r; exact Hc1|exact I|cbn; rewrite Ha1; exact Hlen|apply keeph_refl|].
        cbn. split; [exact Hturn2|]. unfold inv_st in Hinv2. rewrite Hs2, Hs1, Es in Hinv2.
        split; [apply Hinv2|]. split; [exists tk, fa, true; rewrite Hs2, Hs1; exact Es|right; exact Hge].
      * cbn [negb] in H.
        match type of H with bind ?x _ = _ => destruct x as [[[f3 w3] d]| |] eqn:El end; cbn [bind] in H; try discriminate H.
        apply Hround in El. destruct El as [l [Hl [Hacc [Hlen3 [Kh Hrest]]]]].
        eapply Hfinish; [exact H|exact Hl|exact Hacc|exact Hlen3|exact Kh|].
        cbn zeta in *. destruct Hrest as [R1 R2]. split; [exact R1|]. destruct d; [exact R2|].
        destruct R2 as [R2 [R3 R4]]. split; [exact R2|]. split; [exact R3|left; exact R4].
Qed.

(* the whole do_use_token: the head, then - when the head decided to pass the token - do_pass_token in
   the same poll, which asks no application and ends in a token-passing state or in the next visit *)
Lemma do_use_token_mon f now (w : W) f' w' m :
  do_use_token A ops f now w = Ok (f', w') ->
  length (w_apps w) = n -> in_visit (c_kind m) = true -> c_turn m = f_next_app f -> inv_st n f m ->
  exists l, w_calls w' = w_calls w ++ l /\ acalls n tsa m l /\ length (w_apps w') = n /\ f_p f' = f_p f /\
    let m' := mcalls n m l in
    c_turn m' = f_next_app f' /\
    ((inv_st n f' m' /\ in_visit (kind_of (f_state f')) = true) \/
     (c_out m' = None /\ (c_decl m' = n \/ f_end_tht f' <= now) /\
      (pass_kind (kind_of (f_state f')) = true \/ f_state f' = UseToken now None false))).
Proof.
  rewrite do_use_token_split. intros H Hlen Hvis Hturn Hinv.
  destruct (do_use_token_head A ops f now w) as [[f1 w1]| |] eqn:Eh; cbn [bind] in H; try discriminate H.
  eapply do_use_token_head_mon in Eh; try eassumption.
  destruct Eh as [l [Hl [Hacc [Hlen1 [Hp1 Hrest]]]]]. cbn zeta in Hrest. destruct Hrest as [R1 [R2 R3]].
  exists l. cbn zeta.
  destruct (is_pass_token (f_state f1)) eqn:Ek.
  - destruct R3 as [R3|[R3 R4]].
    + exfalso. unfold is_pass_token in Ek. destruct (f_state f1); cbn in Ek, R3; discriminate.
    + pose proof (do_pass_token_ends _ _ _ _ _ H) as Hends.
      apply do_pass_token_squiet in H. destruct H as [[Hwc Hwa] [[Kp [Kn [Kl Ke]]] _]].
      split; [rewrite Hwc; exact Hl|]. split; [exact Hacc|]. split; [rewrite Hwa; exact Hlen1|]. split; [congruence|].
      split; [rewrite Kn; exact R1|]. right.
      split; [unfold inv_st in R2; rewrite R3 in R2; exact R2|]. split; [rewrite Ke; exact R4|exact Hends].
  - injection H as <- <-. split; [exact Hl|]. split; [exact Hacc|]. split; [exact Hlen1|]. split; [exact Hp1|].
    split; [exact R1|]. left. split; [exact R2|].
    destruct R3 as [R3|[R3 _]]; [exact R3|]. rewrite R3 in Ek. discriminate Ek.
Qed.

Lemma do_await_data_response_mon f now (w : W) f' w' m :
  do_await_data_response A ops f now w = Ok (f', w') -> tsa = ts f ->
  length (w_apps w) = n -> c_kind m = KAwaitDataResponse -> c_turn m = f_next_app f -> inv_st n f m ->
  exists l, w_calls w' = w_calls w ++ l /\ acalls n tsa m l /\ length (w_apps w') = n /\ f_p f' = f_p f /\
    let m' := mcalls n m l in
    ( (c_turn m' = f_next_app f' /\
       ((inv_st n f' m' /\ in_visit (kind_of (f_state f')) = true) \/
        (c_out m' = None /\ (c_decl m' = n \/ f_end_tht f' <= now) /\
         (pass_kind (kind_of (f_state f')) = true \/ f_state f' = UseToken now None false))))
    \/ (l = [] /\ kind_of (f_state f') = KActiveIdle /\ f_next_app f' = f_next_app f) ).
Proof.
  intros H Hts Hlen Hkind Hturn Hinv.
  apply do_await_data_response_split in H.
  destruct H as [a [tk [fa [app [Es [En Hcases]]]]]].
  assert (Hinv' := Hinv). unfold inv_st in Hinv'. rewrite Es in Hinv'. destruct Hinv' as [Hout Hv].
  destruct Hcases as [[t [app' [Hok [_ [Hc [Ha [Hk Hs']]]]]]]|[[Hw [Hk Hs']]|[[Hw [Hk Hs']]|[app' [f3 [w3 [_ [Hc3 [Ha3 [Hk3 [Hs3 Hdo]]]]]]]]]]].
  - exists [CallReceiveReply (f_next_app f) a t]. split; [exact Hc|].
    split; [split; [|exact I]; cbn; rewrite Hts; split; [exact Hkind|]; split; [exact Hout|]; split; [symmetry; exact Hturn|exact Hok]|].
    split; [rewrite Ha, length_replace_nth; exact Hlen|]. split; [apply Hk|]. cbn. left.
    destruct Hk as [_ [Kn _]]. split; [rewrite Kn; exact Hturn|]. left. split; [|rewrite Hs'; reflexivity].
    unfold inv_st. rewrite Hs', Kn. cbn. split; [reflexivity|exact Hv].
  - exists []. rewrite app_nil_r. split; [apply Hw|]. split; [exact I|]. split; [destruct Hw as [_ ->]; exact Hlen|]. split; [apply Hk|].
    cbn. right. split; [reflexivity|]. split; [rewrite Hs'; reflexivity|apply Hk].
  - exists []. rewrite app_nil_r. split; [apply Hw|]. split; [exact I|]. split; [destruct Hw as [_ ->]; exact Hlen|]. split; [apply Hk|].
    cbn. left. destruct Hk as [_ [Kn _]]. split; [rewrite Kn; exact Hturn|]. left. split; [|rewrite Hs', Es; reflexivity].
    unfold inv_st. rewrite Hs', Es, Kn. split; [exact Hout|exact Hv].
  - set (m1 := cpost n m (HCall (CallHandleTimeout (f_next_app f) a))).
    destruct Hk3 as [Kp [Kn [Kl Ke]]].
    eapply do_use_token_mon with (m := m1) in Hdo.
    + destruct Hdo as [l [Hl [Hacc [Hlen' [Hp' Hrest]]]]].
      exists (CallHandleTimeout (f_next_app f) a :: l).
      split; [rewrite Hl, Hc3, <- app_assoc; reflexivity|].
      split; [split; [cbn; split; [exact Hkind|]; split; [exact Hout|symmetry; exact Hturn]|exact Hacc]|].
      split; [exact Hlen'|]. split; [congruence|].
      change (mcalls n m (CallHandleTimeout (f_next_app f) a :: l)) with (mcalls n m1 l). left. exact Hrest.
    + rewrite Ha3, length_replace_nth. exact Hlen.
    + unfold m1. cbn. rewrite Hkind. reflexivity.
    + unfold m1. cbn. rewrite Kn. exact Hturn.
    + unfold inv_st, m1. rewrite Hs3, Kn. cbn. split; [reflexivity|exact Hv].
Qed.

(* ------------------------------------------------------------------------------------------ *)
(* the end of the poll: the monitor accepts the HEnd item and the invariant is re-established   *)

Definition outcome (now : Z) (m : cst) (l : list call) (f' : fdl) : Prop :=
  let h := map HCall l ++ [HEnd now f'] in
  accepts (cpre n tsa) (cpost n) m h /\ Inv n f' (posts (cpost n) m h).

Lemma outcome_intro now m l f' :
  acalls n tsa m l ->
  cpre n tsa (mcalls n m l) (HEnd now f') ->
  Inv n f' (cpost n (mcalls n m l) (HEnd now f')) ->
  outcome now m l f'.
Proof.
  intros Ha Hp Hi. unfold outcome. cbn zeta. split.
  - apply accepts_app. split; [exact Ha|]. cbn. split; [exact Hp|exact I].
  - rewrite posts_app. exact Hi.
Qed.

Lemma visit_inv_not_all fa next d : (0 < n)%nat -> visit_inv n fa next d -> d <> n.
Proof. intros Hn. destruct fa as [first|]; cbn; [intros [_ [H _]]; lia|intros ->; lia]. Qed.

(* a poll inside a visit *)
Lemma outcome_visit now m l f' :
  in_visit (c_kind m) = true -> acalls n tsa m l ->
  c_turn (mcalls n m l) = f_next_app f' ->
  ((inv_st n f' (mcalls n m l) /\ in_visit (kind_of (f_state f')) = true) \/
   (c_out (mcalls n m l) = None /\ (c_decl (mcalls n m l) = n \/ f_end_tht f' <= now) /\
    (pass_kind (kind_of (f_state f')) = true \/ f_state f' = UseToken now None false))) ->
  outcome now m l f'.
Proof.
  intros Hvis Hacc Hturn Hd. apply outcome_intro; [exact Hacc| |].
  - pose proof (mcalls_kind n l m) as Hk. set (m' := mcalls n m l) in *. cbn. rewrite Hk, Hvis.
    destruct Hd as [[Hinv Hv]|[Ho [Hd Hp]]].
    + unfold inv_st in Hinv.
      destruct (f_state f') as [ | | | |tk fa fcd| |a tk fa| | | ] eqn:Es; try discriminate Hv; cbn.
      * destruct Hinv as [Ho Hvi]. split; [discriminate|]. split; [intros C; contradiction|].
        split; [intros _ Hn Hdn; exfalso; exact (visit_inv_not_all _ _ _ Hn Hvi Hdn)|].
        intros _ [C|[Hf Hne]]; [discriminate C|]. exfalso.
        destruct fa as [first|]; [discriminate Hf|]. cbn in Hvi. contradiction.
      * destruct Hinv as [Ho Hvi]. split; [intros _; rewrite Ho; discriminate|]. split; [intros _; left; reflexivity|].
        split; [intros _ Hn Hdn; exfalso; exact (visit_inv_not_all _ _ _ Hn Hvi Hdn)|].
        intros _ [C|[C _]]; discriminate C.
    + split; [intros C; destruct Hp as [Hp|Hp]; [rewrite C in Hp; discriminate Hp|rewrite Hp in C; discriminate C]|].
      split; [intros C; contradiction|].
      split; [intros _ _ _; destruct Hp as [Hp|Hp]; [left; exact Hp|right; rewrite Hp; reflexivity]|].
      intros _ _. exact Hd.
  - pose proof (mcalls_kind n l m) as Hk. set (m' := mcalls n m l) in *.
    unfold Inv, inv_st in *. cbn. destruct Hd as [[Hinv Hv]|[Ho [Hd Hp]]].
    + destruct (f_state f') as [ | | | |tk fa fcd| |a tk fa| | | ] eqn:Es; try discriminate Hv; cbn.
      * rewrite Hk, Hvis. split; [reflexivity|]. split; [exact Hturn|]. split; [reflexivity|].
        destruct Hinv as [_ Hvi]. destruct fa as [first|]; [exact Hvi|]. destruct fcd; [exact Hvi|reflexivity].
      * rewrite Hk, Hvis. split; [reflexivity|]. split; [exact Hturn|]. exact Hinv.
    + destruct Hp as [Hp|Hp].
      * destruct (f_state f') as [ | | | | | | |g a| |a] eqn:Es; try discriminate Hp; cbn;
          (split; [reflexivity|]; split; [exact Hturn|reflexivity]).
      * rewrite Hp. cbn. rewrite Hk, Hvis. split; [reflexivity|]. split; [exact Hturn|]. split; reflexivity.
Qed.

(* a poll outside a visit that calls no application; the station may have been re-created *)
Lemma outcome_quiet now m f' :
  in_visit (c_kind m) = false -> c_out m = None ->
  (f_state f' = Offline -> f_next_app f' = 0%nat) -> (f_state f' <> Offline -> c_turn m = f_next_app f') ->
  match f_state f' with AwaitDataResponse _ _ _ => False | UseToken _ fa _ => fa = None | _ => True end ->
  outcome now m [] f'.
Proof.
  intros Hvis Hout Hoff Hturn Hst. apply outcome_intro; [exact I| |]; change (mcalls n m []) with m.
  - cbn. rewrite Hvis, Hout. split; [|split; [intros C; contradiction C; reflexivity|split; discriminate]].
    intros Hk. destruct (f_state f'); try discriminate Hk. contradiction.
  - unfold Inv, inv_st. cbn. rewrite Hvis.
    destruct (f_state f') eqn:Es; cbn; try contradiction;
      try (split; [reflexivity|]; split; [apply Hturn; discriminate|reflexivity]).
    + split; [reflexivity|]. rewrite (Hoff eq_refl). repeat split; reflexivity.
    + subst first_app. split; [reflexivity|]. split; [apply Hturn; discriminate|]. split; reflexivity.
Qed.

(* a poll that changes nothing the applications can see *)
Lemma outcome_same now m f f' :
  Inv n f m -> f_state f' = f_state f -> f_next_app f' = f_next_app f -> outcome now m [] f'.
Proof.
  intros [Hk [Hturn Hinv]] Hs Hn.
  assert (Hinv' : inv_st n f' m) by (unfold inv_st in *; rewrite Hs, Hn; exact Hinv).
  destruct (in_visit (c_kind m)) eqn:Hvis.
  - apply outcome_visit; [exact Hvis|exact I|cbn; rewrite Hn; exact Hturn|].
    left. split; [exact Hinv'|]. rewrite Hs, <- Hk. exact Hvis.
  - rewrite Hk in Hvis. unfold inv_st in Hinv'. rewrite Hs in Hinv'.
    apply outcome_quiet; [rewrite Hk; exact Hvis| | |intros _; rewrite Hn; exact Hturn|];
      rewrite ?Hs; destruct (f_state f); try discriminate Hvis; try tauto; try discriminate.
Qed.

(* the station gives up an outstanding request because it lost the token *)
Lemma outcome_abandon now m f f' :
  Inv n f m -> kind_of (f_state f) = KAwaitDataResponse -> kind_of (f_state f') = KActiveIdle ->
  f_next_app f' = f_next_app f -> outcome now m [] f'.
Proof.
  intros [Hk [Hturn Hinv]] Hs Hs' Hn. apply outcome_intro; [exact I| |]; change (mcalls n m []) with m.
  - cbn. rewrite Hs', Hk, Hs. cbn. unfold inv_st in Hinv.
    destruct (f_state f) as [ | | | | | |a tk fa| | | ]; try discriminate Hs. destruct Hinv as [Ho Hvi].
    split; [discriminate|]. split; [intros _; right; reflexivity|].
    split; [intros _ Hp Hd; exfalso; exact (visit_inv_not_all _ _ _ Hp Hvi Hd)|].
    intros _ [C|[C _]]; [discriminate C|]. destruct (f_state f'); try discriminate Hs'. discriminate C.
  - unfold Inv, inv_st. cbn. rewrite Hs'.
    destruct (f_state f') as [ | | |sr nps cc| | | | | | ]; try discriminate Hs'. cbn.
    split; [reflexivity|]. split; [rewrite Hn; exact Hturn|reflexivity].
Qed.

End Mon.

(* ------------------------------------------------------------------------------------------ *)
(* Part C: one poll, then histories                                                            *)

(* poll_inner up to the dispatch: connectivity prologue, ongoing transmission, bus activity *)
Definition dispatch (f : fdl) (now : Z) (w : W) : res (fdl * W) :=
  match poll_dispatch (kind_of (f_state f)) with
  | TgUnreachable => Panic SiteUnreachable
  | TgTodo => Panic SiteUnreachable
  | TgDo DoListenToken => do_listen_token A f now w
  | TgDo DoClaimToken => do_claim_token A f now w
  | TgDo DoUseToken => do_use_token A ops f now w
  | TgDo DoAwaitDataResponse => do_await_data_response A ops f now w
  | TgDo DoPassToken => do_pass_token A f now w
  | TgDo DoCheckTokenPass => do_check_token_pass A f now w
  | TgDo DoActiveIdle => do_active_idle A f now w
  | TgDo DoAwaitStatusResponse => do_await_status_response A f now w
  end.

(* what the prologue may do to the state: nothing, or leave Offline / PassiveIdle *)
Definition prologue_state (s s' : state) : Prop :=
  s' = s \/ (in_visit (kind_of s) = false /\ (s' = PassiveIdle \/ s' = ListenToken None 0)).

Lemma poll_inner_cases f now busy (w : W) f' w' :
  poll_inner ops f now busy w = Ok (f', w') ->
  (keepw w w' /\ keepf f f' /\ prologue_state (f_state f) (f_state f')) \/
  (exists f3 w3, keepw w w3 /\ keepf f f3 /\ prologue_state (f_state f) (f_state f3) /\ dispatch f3 now w3 = Ok (f', w')).
Proof.
  unfold poll_inner. intros H.
  match type of H with bind ?r _ = _ => destruct r as [[[f2 w2] off]| |] eqn:Ep end; cbn [bind] in H; try discriminate H.
  assert (Hp : keepw w w2 /\ keepf f f2 /\ prologue_state (f_state f) (f_state f2)).
  { destruct (f_conn f).
    - destruct (f_state f) eqn:Es; try discriminate Ep. injection Ep as <- <- _.
      split; [apply keepw_refl|]. split; [apply keepf_refl|left; exact Es].
    - destruct (passive_entry_kind (kind_of (f_state f))) eqn:Ek.
      + match type of Ep with context [trans A ?a ?b ?c] => destruct (trans A a b c) as [[f3 w3]| |] eqn:Et end; cbn [bind] in Ep; try discriminate Ep.
        injection Ep as <- <- _. apply trans_keep in Et. destruct Et as [s' [Ht [_ [Hk [Hw Hs]]]]].
        unfold transition_passive_idle in Ht. destruct (assert_kind _ _); cbn [bind] in Ht; try discriminate Ht. injection Ht as <-.
        split; [exact Hw|]. split; [exact Hk|]. right. split; [destruct (f_state f); try discriminate Ek; reflexivity|left; exact Hs].
      + injection Ep as <- <- _. split; [apply keepw_refl|]. split; [apply keepf_refl|left; reflexivity].
    - destruct (online_entry_kind (kind_of (f_state f))) eqn:Ek.
      + match type of Ep with context [trans A ?a ?b ?c] => destruct (trans A a b c) as [[f3 w3]| |] eqn:Et end; cbn [bind] in Ep; try discriminate Ep.
        injection Ep as <- <- _. apply trans_keep in Et. destruct Et as [s' [Ht [_ [Hk [Hw Hs]]]]].
        unfold transition_listen_token in Ht. destruct (assert_kind _ _); cbn [bind] in Ht; try discriminate Ht. injection Ht as <-.
        split; [exact Hw|]. split; [exact Hk|]. right. split; [destruct (f_state f); try discriminate Ek; reflexivity|right; exact Hs].
      + injection Ep as <- <- _. split; [apply keepw_refl|]. split; [apply keepf_refl|left; reflexivity]. }
  destruct Hp as [Hw2 [Hk2 Hs2]].
  destruct off; [injection H as <- <-; left; tauto|].
  unfold check_for_ongoing_transmision in H.
  match type of H with context [if ?c then (_, _, true) else _] => destruct c end.
  - injection H as <- <-. left. split; [eapply keepw_trans; [exact Hw2|apply keepw_note]|].
    split; [eapply keepf_trans; [exact Hk2|apply keepf_mark_bus_activity]|rewrite state_mark_bus_activity; exact Hs2].
  - right. unfold check_for_bus_activity in H.
    match type of H with context [if Nat.ltb ?a ?b then _ else _] => destruct (Nat.ltb a b) end.
    + eexists; eexists. split; [|split; [|split; [|exact H]]].
      * eapply keepw_trans; [exact Hw2|apply keepw_note].
      * eapply keepf_trans; [exact Hk2|]. eapply keepf_trans; [apply keepf_mark_bus_activity|apply keepf_set_pending].
      * cbn. rewrite state_mark_bus_activity. exact Hs2.
    + eexists; eexists. split; [exact Hw2|]. split; [exact Hk2|]. split; [exact Hs2|exact H].
Qed.

(* One-step preservation for a poll.  n = number of applications. *)
Lemma poll_inner_preserves n f now busy (w : W) f' w' m :
  Inv n f m -> length (w_apps w) = n ->
  poll_inner ops f now busy w = Ok (f', w') ->
  exists l, w_calls w' = w_calls w ++ l /\ outcome n (ts f) now m l f' /\ length (w_apps w') = n /\ f_p f' = f_p f.
Proof.
  intros HI Hlen H. pose proof HI as [Hk [Hturn Hinv]].
  apply poll_inner_cases in H.
  assert (Hnv : in_visit (kind_of (f_state f)) = false -> c_out m = None).
  { intros Hv. unfold inv_st in Hinv. destruct (f_state f); try discriminate Hv; tauto. }
  (* a state the prologue moved to: nothing the monitor can see *)
  assert (Hpro : forall g, keepf f g -> in_visit (kind_of (f_state f)) = false ->
            f_state g = PassiveIdle \/ f_state g = ListenToken None 0 -> outcome n (ts f) now m [] g).
  { intros g Kg Hv Hg. apply outcome_quiet.
    - rewrite Hk; exact Hv.
    - exact (Hnv Hv).
    - destruct Hg as [-> | ->]; discriminate.
    - intros _. destruct Kg as [_ [-> _]]. exact Hturn.
    - destruct Hg as [-> | ->]; exact I. }
  destruct H as [[Hw [Kf Hs]]|[f3 [w3 [Hw3 [Kf3 [Hs3 Hd]]]]]].
  - exists []. rewrite app_nil_r. split; [apply Hw|]. split; [|split; [destruct Hw as [_ ->]; exact Hlen|apply Kf]].
    destruct Hs as [Hs|[Hv Hs]].
    + eapply outcome_same; [exact HI|exact Hs|apply Kf].
    + apply Hpro; assumption.
  - assert (Hlen3 : length (w_apps w3) = n) by (destruct Hw3 as [_ ->]; exact Hlen).
    assert (Hc3 : w_calls w3 = w_calls w) by apply Hw3.
    assert (Hp3 : f_p f3 = f_p f) by apply Kf3.
    assert (Hn3 : f_next_app f3 = f_next_app f) by apply Kf3.
    (* the six quiet functions *)
    assert (Hquiet : in_visit (kind_of (f_state f3)) = false -> quiet now f3 w3 f' w' ->
              exists l, w_calls w' = w_calls w ++ l /\ outcome n (ts f) now m l f' /\ length (w_apps w') = n /\ f_p f' = f_p f).
    { intros Hv3 [[Qc Qa] [Qp Qd]]. exists []. rewrite app_nil_r. split; [congruence|].
      split; [|split; [rewrite Qa; exact Hlen3|congruence]].
      assert (Hvf : in_visit (kind_of (f_state f)) = false).
      { destruct Hs3 as [E|[Hv _]]; [rewrite <- E; exact Hv3|exact Hv]. }
      apply outcome_quiet.
      - rewrite Hk. exact Hvf.
      - exact (Hnv Hvf).
      - destruct Qd as [[K Q]|R]; [|intros _; apply R]. intros Eo.
        (* Offline without a reset: the state was Offline all along *)
        exfalso. unfold dispatch in Hd. rewrite Eo in Q. cbn in Q.
        rewrite <- Q in Hd. discriminate Hd.
      - intros Hno. destruct Qd as [[[_ [K _]] _]|[R _]]; [rewrite K, Hn3; exact Hturn|contradiction].
      - destruct Qd as [[_ Q]|[R _]]; [|rewrite R; exact I].
        destruct (f_state f') as [ | | | |tk fa fcd| |a tk fa| | | ] eqn:Es'; try exact I; cbn in Q.
        + destruct Q as [Q|Q]; [rewrite <- Q in Hv3; discriminate Hv3|injection Q as _ -> _; reflexivity].
        + rewrite <- Q in Hv3. discriminate Hv3. }
    unfold dispatch in Hd.
    destruct (f_state f3) as [ | | | |tk fa fcd| |a tk fa| | | ] eqn:Es3; cbn [kind_of poll_dispatch] in Hd; try discriminate Hd.
    + apply Hquiet; [reflexivity|]. apply do_listen_token_quiet. exact Hd.
    + apply Hquiet; [reflexivity|]. apply do_active_idle_quiet. exact Hd.
    + (* UseToken: the prologue cannot have produced it *)
      assert (Hs : f_state f3 = f_state f) by (destruct Hs3 as [E|[_ [E|E]]]; [congruence|discriminate E|discriminate E]).
      rewrite Es3 in Hs.
      eapply do_use_token_mon with (n := n) (tsa := ts f) (m := m) in Hd.
      * destruct Hd as [l [Hl [Hacc [Hlen' [Hp' [R1 R2]]]]]]. exists l. split; [congruence|].
        split; [|split; [exact Hlen'|congruence]]. apply outcome_visit; try assumption.
        rewrite Hk, <- Hs. reflexivity.
      * exact Hlen3.
      * rewrite Hk, <- Hs. reflexivity.
      * congruence.
      * unfold inv_st in *. rewrite Es3, Hn3. rewrite <- Hs in Hinv. exact Hinv.
    + apply Hquiet; [reflexivity|]. apply do_claim_token_quiet. exact Hd.
    + assert (Hs : f_state f3 = f_state f) by (destruct Hs3 as [E|[_ [E|E]]]; [congruence|discriminate E|discriminate E]).
      rewrite Es3 in Hs.
      eapply do_await_data_response_mon with (n := n) (tsa := ts f) (m := m) in Hd.
      * destruct Hd as [l [Hl [Hacc [Hlen' [Hp' [[R1 R2]|[-> [R2 R3]]]]]]]].
        -- exists l. split; [congruence|]. split; [|split; [exact Hlen'|congruence]]. apply outcome_visit; try assumption.
           rewrite Hk, <- Hs. reflexivity.
        -- exists []. split; [congruence|]. split; [|split; [exact Hlen'|congruence]].
           eapply outcome_abandon; [exact HI|rewrite <- Hs; reflexivity|exact R2|congruence].
      * unfold ts. rewrite Hp3. reflexivity.
      * exact Hlen3.
      * rewrite Hk, <- Hs. reflexivity.
      * congruence.
      * unfold inv_st in *. rewrite Es3, Hn3. rewrite <- Hs in Hinv. exact Hinv.
    + apply Hquiet; [reflexivity|]. apply squiet_quiet. apply do_pass_token_squiet. exact Hd.
    + apply Hquiet; [reflexivity|]. apply squiet_quiet. apply do_check_token_pass_squiet. exact Hd.
    + apply Hquiet; [reflexivity|]. apply squiet_quiet. apply do_await_status_response_squiet. exact Hd.
Qed.

(* ------------------------------------------------------------------------------------------ *)
(* Histories: arbitrary sequences of polls (any time, any PHY input), set_online / set_offline calls, and
   arbitrary interference of the user with the application objects between polls.                *)

Inductive event : Type :=
| EvPoll (now : Z) (pin : phy_in)
| EvOnline
| EvOffline
| EvUser (g : A -> A).

Definition step (f : fdl) (apps : list A) (e : event) : res (fdl * list A * list hitem) :=
  match e with
  | EvPoll now pin =>
      let* (f', _, apps', calls) := poll ops f now pin apps in
      Ok (f', apps', map HCall calls ++ [HEnd now f'])
  | EvOnline => let* f' := set_online f in Ok (f', apps, [])
  | EvOffline => let* f' := set_offline f in Ok (f', apps, [HReset])
  | EvUser g => Ok (f, map g apps, [])
  end.

Fixpoint run (f : fdl) (apps : list A) (evs : list event) : res (fdl * list A * list hitem) :=
  match evs with
  | [] => Ok (f, apps, [])
  | e :: tl =>
      let* (f1, apps1, h1) := step f apps e in
      let* (f2, apps2, h2) := run f1 apps1 tl in
      Ok (f2, apps2, h1 ++ h2)
  end.

Definition accepted (n : nat) (tsa : Z) (m : cst) (h : list hitem) : Prop := accepts (cpre n tsa) (cpost n) m h.
Definition after (n : nat) (m : cst) (h : list hitem) : cst := posts (cpost n) m h.

Lemma step_preserves f apps e f' apps' h m :
  Inv (length apps) f m -> step f apps e = Ok (f', apps', h) ->
  accepted (length apps) (ts f) m h /\ Inv (length apps) f' (after (length apps) m h) /\
  length apps' = length apps /\ f_p f' = f_p f.
Proof.
  intros HI H. destruct e as [now pin| | |g]; cbn [step] in H.
  - unfold poll, poll_traced in H.
    destruct (poll_inner ops f now (tx_busy pin) (mkWorld (rx pin) None apps [] [])) as [[f1 w1]| |] eqn:E; cbn [bind] in H; try discriminate H.
    injection H as <- <- <-.
    eapply poll_inner_preserves in E; [|exact HI|reflexivity].
    destruct E as [l [Hl [[Hacc Hinv] [Hlen Hp]]]]. cbn in Hl. subst l.
    unfold accepted, after. tauto.
  - unfold set_online, set_state in H. cbn [bind] in H. injection H as <- <- <-.
    split; [exact I|]. split; [|split; reflexivity]. exact HI.
  - unfold set_offline, set_state in H. destruct (fdl_new (f_p f)) as [f1| |] eqn:En; cbn [bind] in H; try discriminate H.
    injection H as <- <- <-. apply fdl_new_spec in En. destruct En as [[Rs [_ [Rn _]]] Rp].
    split; [split; exact I|]. split; [|split; [reflexivity|exact Rp]].
    unfold Inv, inv_st, after. cbn. rewrite Rs, Rn. cbn. tauto.
  - injection H as <- <- <-. split; [exact I|]. split; [exact HI|]. split; [apply map_length|reflexivity].
Qed.

(* The lift: the monitor accepts every history, from every state that satisfies the invariant. *)
Theorem run_accepted : forall evs f apps m f' apps' h,
  Inv (length apps) f m -> run f apps evs = Ok (f', apps', h) ->
  accepted (length apps) (ts f) m h /\ Inv (length apps) f' (after (length apps) m h) /\
  length apps' = length apps /\ f_p f' = f_p f.
Proof.
  induction evs as [|e tl IH]; intros f apps m f' apps' h HI H; cbn [run] in H.
  - injection H as <- <- <-. split; [exact I|]. split; [exact HI|]. split; reflexivity.
  - destruct (step f apps e) as [[[f1 apps1] h1]| |] eqn:Es; cbn [bind] in H; try discriminate H.
    destruct (run f1 apps1 tl) as [[[f2 apps2] h2]| |] eqn:Er; cbn [bind] in H; try discriminate H.
    injection H as <- <- <-.
    apply (step_preserves _ _ _ _ _ _ m HI) in Es. destruct Es as [A1 [I1 [L1 P1]]].
    rewrite <- L1 in I1. apply (IH _ _ _ _ _ _ I1) in Er. destruct Er as [A2 [I2 [L2 P2]]].
    rewrite L1 in *. replace (ts f1) with (ts f) in A2 by (unfold ts; rewrite P1; reflexivity).
    unfold accepted, after in *. split; [apply accepts_app; split; assumption|].
    split; [rewrite posts_app; exact I2|]. split; congruence.
Qed.

(* Inv init: the station as FdlActiveStation::new creates it *)
Lemma Inv_init n p f : fdl_new p = Ok f -> Inv n f cst_init.
Proof.
  intros H. apply fdl_new_spec in H. destruct H as [[Rs [_ [Rn _]]] _].
  unfold Inv, inv_st. rewrite Rs, Rn. cbn. tauto.
Qed.

(* every state determines the monitor state that makes Inv true, if there is one: the theorems hold from
   any such state, not only from the initial one *)
Definition cst_of (f : fdl) (decl : nat) : cst :=
  mkCst (kind_of (f_state f))
        (match f_state f with AwaitDataResponse a _ _ => Some (f_next_app f, a) | _ => None end)
        (f_next_app f) decl.

(* ------------------------------------------------------------------------------------------ *)
(* One poll, all states: where the callbacks of a poll come from                               *)

(* a poll that calls no application: the station was re-created, or the application-relevant fields are
   kept and the state moved as the prologue and one quiet function allow *)
Definition quiet_poll (now : Z) (f f' : fdl) : Prop :=
  f_p f' = f_p f /\
  (is_reset f' \/
   (keepf f f' /\ exists s3, prologue_state (f_state f) s3 /\ qstate now s3 (f_state f') /\
                             (in_visit (kind_of s3) = true -> f_state f' = s3))).

Lemma poll_calls_cases f now pin (apps : list A) f' o apps' calls :
  poll ops f now pin apps = Ok (f', o, apps', calls) ->
  (calls = [] /\ apps' = apps /\ quiet_poll now f f') \/
  (exists f3 w3 w', keepf f f3 /\ f_state f3 = f_state f /\ w_calls w3 = [] /\ w_apps w3 = apps /\
     calls = w_calls w' /\ apps' = w_apps w' /\
     (do_use_token A ops f3 now w3 = Ok (f', w') \/ do_await_data_response A ops f3 now w3 = Ok (f', w'))).
Proof.
  unfold poll, poll_traced. intros H.
  destruct (poll_inner ops f now (tx_busy pin) (mkWorld (rx pin) None apps [] [])) as [[f1 w1]| |] eqn:E; cbn [bind] in H; try discriminate H.
  injection H as <- _ <- <-.
  apply poll_inner_cases in E. destruct E as [[[Hc Ha] [Kf Hs]]|[f3 [w3 [[Hc3 Ha3] [Kf3 [Hs3 Hd]]]]]].
  - left. split; [exact Hc|]. split; [exact Ha|]. split; [apply Kf|]. right. split; [exact Kf|].
    exists (f_state f1). split; [exact Hs|]. split; [apply qstate_refl|reflexivity].
  - cbn in Hc3, Ha3.
    assert (Hq : in_visit (kind_of (f_state f3)) = false -> quiet now f3 w3 f1 w1 ->
                 (w_calls w1 = [] /\ w_apps w1 = apps /\ quiet_poll now f f1)).
    { intros Hv [[Qc Qa] [Qp Qd]]. split; [congruence|]. split; [congruence|].
      split; [destruct Kf3 as [Kp _]; congruence|]. destruct Qd as [[K Q]|R]; [right|left; exact R].
      split; [eapply keepf_trans; eassumption|]. exists (f_state f3). split; [exact Hs3|]. split; [exact Q|].
      intros C. rewrite C in Hv. discriminate Hv. }
    unfold dispatch in Hd.
    destruct (f_state f3) as [ | | | |tk fa fcd| |a tk fa| | | ] eqn:Es3; cbn [kind_of poll_dispatch] in Hd; try discriminate Hd.
    + left. apply Hq; [reflexivity|]. apply do_listen_token_quiet. exact Hd.
    + left. apply Hq; [reflexivity|]. apply do_active_idle_quiet. exact Hd.
    + right. exists f3, w3, w1. split; [exact Kf3|].
      split; [destruct Hs3 as [E|[_ [E|E]]]; [congruence|discriminate E|discriminate E]|]. tauto.
    + left. apply Hq; [reflexivity|]. apply do_claim_token_quiet. exact Hd.
    + right. exists f3, w3, w1. split; [exact Kf3|].
      split; [destruct Hs3 as [E|[_ [E|E]]]; [congruence|discriminate E|discriminate E]|]. tauto.
    + left. apply Hq; [reflexivity|]. apply squiet_quiet. apply do_pass_token_squiet. exact Hd.
    + left. apply Hq; [reflexivity|]. apply squiet_quiet. apply do_check_token_pass_squiet. exact Hd.
    + left. apply Hq; [reflexivity|]. apply squiet_quiet. apply do_await_status_response_squiet. exact Hd.
Qed.

(* C15_delivered_reply_shape for one poll, from ANY state: whatever a poll hands to receive_reply is a
   short confirmation, or a response telegram from the addressed station to this station *)
Lemma poll_reply_shape f now pin (apps : list A) f' o apps' calls i a t :
  poll ops f now pin apps = Ok (f', o, apps', calls) ->
  In (CallReceiveReply i a t) calls -> reply_ok (ts f) a t.
Proof.
  intros H Hin. apply poll_calls_cases in H.
  destruct H as [[-> _]|[f3 [w3 [w' [Kf3 [Hs3 [Hc3 [Ha3 [-> [_ [Hd|Hd]]]]]]]]]]]; [contradiction| |].
  - apply do_use_token_hold_rule in Hd. destruct Hd as [l [hp [Hl [Hf _]]]]. rewrite Hl, Hc3 in Hin. cbn in Hin.
    rewrite Forall_forall in Hf. destruct (Hf _ Hin) as [j [r C]]. discriminate C.
  - apply do_await_data_response_split in Hd.
    destruct Hd as [a' [tk [fa [app [Es [En Hcases]]]]]].
    assert (Hts : ts f3 = ts f) by (unfold ts; destruct Kf3 as [-> _]; reflexivity).
    destruct Hcases as [[t' [app' [Hok [_ [Hc _]]]]]|[[[Hw _] _]|[[[Hw _] _]|[app' [f4 [w4 [_ [Hc4 [_ [_ [_ Hdo]]]]]]]]]]].
    + rewrite Hc, Hc3 in Hin. cbn in Hin. destruct Hin as [Hin|[]]. injection Hin as _ <- <-. rewrite <- Hts. exact Hok.
    + rewrite Hw, Hc3 in Hin. contradiction.
    + rewrite Hw, Hc3 in Hin. contradiction.
    + apply do_use_token_hold_rule in Hdo. destruct Hdo as [l [hp [Hl [Hf _]]]]. rewrite Hl, Hc4, Hc3 in Hin. cbn in Hin.
      destruct Hin as [Hin|Hin]; [discriminate Hin|].
      rewrite Forall_forall in Hf. destruct (Hf _ Hin) as [j [r C]]. discriminate C.
Qed.

(* ------------------------------------------------------------------------------------------ *)
(* Part D: the named theorems                                                                  *)

(* the monitor accepts every history of a newly created station; with the invariant at the end *)
Theorem history_accepted p f0 (apps : list A) evs f apps' h :
  fdl_new p = Ok f0 -> run f0 apps evs = Ok (f, apps', h) ->
  accepted (length apps) (p_address p) cst_init h /\ Inv (length apps) f (after (length apps) cst_init h).
Proof.
  intros Hn Hr. pose proof (Inv_init (length apps) _ _ Hn) as HI.
  apply (run_accepted _ _ _ _ _ _ _ HI) in Hr. destruct Hr as [Ha [Hi _]].
  apply fdl_new_spec in Hn. destruct Hn as [_ Hp]. unfold ts in Ha. rewrite Hp in Ha. split; assumption.
Qed.

(* C15_contract *)
Theorem contract_from_inv f m (apps : list A) evs f' apps' h i :
  Inv (length apps) f m -> run f apps evs = Ok (f', apps', h) ->
  accepts (apre (ts f) i) (apost i) (app_view i m) h.
Proof.
  intros HI Hr. apply (run_accepted _ _ _ _ _ _ _ HI) in Hr. destruct Hr as [Ha _].
  exact (proj1 (accepts_sim _ _ _ _ (app_view i) (fun m x => app_view_sim (length apps) (ts f) i m x) h m Ha)).
Qed.

Theorem contract_history p f0 (apps : list A) evs f apps' h i :
  fdl_new p = Ok f0 -> run f0 apps evs = Ok (f, apps', h) ->
  accepts (apre (p_address p) i) (apost i) (AppIdle, KOffline) h.
Proof.
  intros Hn Hr. destruct (history_accepted _ _ _ _ _ _ _ Hn Hr) as [Ha _].
  exact (proj1 (accepts_sim _ _ _ _ (app_view i) (fun m x => app_view_sim (length apps) (p_address p) i m x) h cst_init Ha)).
Qed.

(* C15_routing *)
Theorem routing_history p f0 (apps : list A) evs f apps' h :
  fdl_new p = Ok f0 -> run f0 apps evs = Ok (f, apps', h) ->
  forall pre c post i a, calls_of h = pre ++ c :: post -> answers c i a ->
  exists pre' hp wire, pre = pre' ++ [CallTransmit i hp (Some (wire, Some a))].
Proof.
  intros Hn Hr pre c post i a Heq Ha. destruct (history_accepted _ _ _ _ _ _ _ Hn Hr) as [Hacc _].
  assert (Hro : routed None (calls_of h)) by (eapply accepted_routed; [exact Hacc|intros i0 a0 C; discriminate C]).
  destruct (routed_spec _ _ Hro pre c post i a Heq Ha) as [hp [wire Hl]].
  destruct (@exists_last _ pre) as [pre' [x ->]].
  - intros ->. discriminate Hl.
  - exists pre', hp, wire. rewrite map_app in Hl. cbn [map] in Hl. rewrite last_last in Hl. injection Hl as ->. reflexivity.
Qed.

(* C15_delivered_reply_shape over histories *)
Theorem reply_shape_history p f0 (apps : list A) evs f apps' h i a t :
  fdl_new p = Ok f0 -> run f0 apps evs = Ok (f, apps', h) ->
  In (CallReceiveReply i a t) (calls_of h) -> reply_ok (p_address p) a t.
Proof.
  intros Hn Hr Hin. destruct (history_accepted _ _ _ _ _ _ _ Hn Hr) as [Hacc _].
  assert (Hin' : In (HCall (CallReceiveReply i a t)) h).
  { clear - Hin. induction h as [|x h IH]; [contradiction|]. cbn in Hin. apply in_app_or in Hin. destruct Hin as [Hin|Hin].
    - destruct x; cbn in Hin; try contradiction. destruct Hin as [->|[]]. left. reflexivity.
    - right. exact (IH Hin). }
  destruct (accepts_in _ _ _ _ _ Hacc Hin') as [m' Hp]. cbn in Hp. tauto.
Qed.

(* C15_round_robin *)
Theorem round_robin_history p f0 (apps : list A) evs f apps' h :
  fdl_new p = Ok f0 -> run f0 apps evs = Ok (f, apps', h) ->
  accepts (rpre (length apps)) (rpost (length apps)) (mkRr KOffline 0 0) h /\
  r_turn (posts (rpost (length apps)) (mkRr KOffline 0 0) h) = f_next_app f.
Proof.
  intros Hn Hr. destruct (history_accepted _ _ _ _ _ _ _ Hn Hr) as [Ha [_ [Ht _]]].
  destruct (accepts_sim _ _ _ _ rr_view (fun m x => rr_view_sim (length apps) (p_address p) m x) h cst_init Ha) as [H1 H2].
  split; [exact H1|]. change (mkRr KOffline 0 0) with (rr_view cst_init). rewrite <- H2. exact Ht.
Qed.

(* C15_zero_apps: history part *)
Theorem zero_apps_history p f0 evs f apps' h :
  fdl_new p = Ok f0 -> run f0 [] evs = Ok (f, apps', h) ->
  calls_of h = [] /\ apps' = [] /\ kind_of (f_state f) <> KAwaitDataResponse.
Proof.
  intros Hn Hr. pose proof (Inv_init 0 _ _ Hn) as HI.
  apply (run_accepted evs f0 (@nil A) cst_init f apps' h HI) in Hr. cbn [length] in Hr. destruct Hr as [Ha [[Hk [_ Hi]] [Hl _]]].
  destruct (accepted_zero_apps _ _ _ Ha eq_refl) as [Hc Ho].
  split; [exact Hc|]. split; [destruct apps'; [reflexivity|discriminate Hl]|].
  intros C. unfold inv_st, after in Hi. destruct (f_state f) as [ | | | | | |a tk fa| | | ]; try discriminate C.
  destruct Hi as [Hi _]. rewrite Ho in Hi. discriminate Hi.
Qed.

(* C15_zero_apps, one-step part: with no application do_use_token asks nobody, never reaches the
   `% apps.len()` of schedule_next_application, and goes on to pass the token - whether or not the hold
   time is over (hypotheses: the deadline of this visit is already computed and the synchronisation
   pause is over; without them the function waits, or computes the deadline first) *)
Lemma apps_transmit_telegram_zero f now (w : W) hp :
  w_apps w = [] -> apps_transmit_telegram A ops f now w hp = Ok (f, w, false).
Proof. intros H. unfold apps_transmit_telegram. rewrite H. reflexivity. Qed.

Lemma do_use_token_zero_apps f (w : W) now tk fa fcd l :
  w_apps w = [] -> f_state f = UseToken tk fa fcd -> f_last_token_time f = tk -> f_lba f = Some l ->
  i64_ok (l + p_bits_to_time (f_p f) sync_pause_bits) = true ->
  l + p_bits_to_time (f_p f) sync_pause_bits < now ->
  exists w1, do_use_token A ops f now w = do_pass_token A (set_st f (PassToken true first_attempt)) now w1 /\
             w_calls w1 = w_calls w /\ w_tx w1 = w_tx w /\ w_apps w1 = [] /\
             forall f' w', do_use_token A ops f now w = Ok (f', w') -> w_calls w' = w_calls w /\ w_apps w' = [].
Proof.
  intros Ha Hst Hlt Hl Hok Hsync.
  assert (Hh : exists w1, do_use_token_head A ops f now w = Ok (set_st f (PassToken true first_attempt), w1) /\
                          w_calls w1 = w_calls w /\ w_tx w1 = w_tx w /\ w_apps w1 = []).
  { unfold do_use_token_head, assert_entry. rewrite Hst. cbn [f_state kind_of do_fn_entry state_kind_eqb bind get_use_token].
    rewrite Hlt, Z.eqb_refl. cbn [negb bind].
    unfold wait_synchronization_pause, lba_get_or_insert. rewrite Hl. unfold inst_add. rewrite Hok. cbn [bind].
    destruct (Z.leb_spec now (l + p_bits_to_time (f_p f) sync_pause_bits)) as [C|_]; [lia|].
    rewrite Hst. cbn [get_use_token bind].
    destruct (now <? f_end_tht f).
    - unfold set_first_cycle_done. rewrite Hst. cbn [get_use_token bind].
      rewrite apps_transmit_telegram_zero by (cbn; exact Ha). cbn [bind].
      unfold trans. cbn. eexists. split; [reflexivity|]. cbn. repeat split; try reflexivity. exact Ha.
    - destruct fcd; cbn [negb bind].
      + unfold trans. rewrite Hst. cbn. eexists. split; [reflexivity|]. cbn. repeat split; try reflexivity. exact Ha.
      + unfold set_first_cycle_done. rewrite Hst. cbn [get_use_token bind].
        rewrite apps_transmit_telegram_zero by (cbn; exact Ha). cbn [bind].
        unfold trans. cbn. eexists. split; [reflexivity|]. cbn. repeat split; try reflexivity. exact Ha. }
  destruct Hh as [w1 [Hh [Hc [Ht Ha1]]]].
  assert (Hd : do_use_token A ops f now w = do_pass_token A (set_st f (PassToken true first_attempt)) now w1).
  { rewrite do_use_token_split, Hh. reflexivity. }
  exists w1. split; [exact Hd|]. split; [exact Hc|]. split; [exact Ht|]. split; [exact Ha1|].
  intros f' w' H. rewrite Hd in H. apply do_pass_token_frame in H. destruct H as [-> [-> _]]. split; assumption.
Qed.

(* ------------------------------------------------------------------------------------------ *)
(* Which requests await a reply: every transmit entry of the call log is what the application's
   callback returned; an application that sends through TelegramTx (hypothesis of the section below)
   gets `expects_reply` from the regenerated table req_expects_reply                            *)

Definition is_app_result (c : call) : Prop :=
  forall i hp r, c = CallTransmit i hp r -> exists a now p a', a_tx ops a now p hp = Ok (a', r).

Lemma apps_transmit_loop_results : forall k f now (w : W) hp f' w' d,
  apps_transmit_loop A ops k f now w hp = Ok (f', w', d) ->
  exists l, w_calls w' = w_calls w ++ l /\ Forall is_app_result l.
Proof.
  induction k as [|k IH]; intros f now w hp f' w' d H; cbn [apps_transmit_loop] in H.
  - injection H as <- <- _. exists []. rewrite app_nil_r. split; [reflexivity|constructor].
  - destruct (nth_error (w_apps w) (f_next_app f)) as [app|]; [|discriminate H].
    destruct (app_transmit_telegram A ops f now w (f_next_app f) app hp) as [[[f1 w1] d1]| |] eqn:Ea; cbn [bind] in H; try discriminate H.
    apply app_transmit_spec in Ea. destruct Ea as [app' [r [Htx [Hc1 _]]]].
    assert (Hone : is_app_result (CallTransmit (f_next_app f) hp r)).
    { intros i hp' r' E. injection E as <- <- <-. eexists; eexists; eexists; eexists. exact Htx. }
    destruct d1.
    + injection H as <- <- _. exists [CallTransmit (f_next_app f) hp r]. split; [exact Hc1|]. constructor; [exact Hone|constructor].
    + destruct (schedule_next_application f1 _) as [[f2 completed]| |]; cbn [bind] in H; try discriminate H.
      destruct completed.
      * injection H as <- <- _. exists [CallTransmit (f_next_app f) hp r]. split; [exact Hc1|]. constructor; [exact Hone|constructor].
      * apply IH in H. destruct H as [l [Hl Hf]]. exists (CallTransmit (f_next_app f) hp r :: l).
        split; [rewrite Hl, Hc1, <- app_assoc; reflexivity|]. constructor; assumption.
Qed.

Lemma do_use_token_head_results f now (w : W) f' w' :
  do_use_token_head A ops f now w = Ok (f', w') ->
  exists l, w_calls w' = w_calls w ++ l /\ Forall is_app_result l.
Proof.
  unfold do_use_token_head. intros H.
  destruct (assert_entry DoUseToken f); cbn [bind] in H; try discriminate H.
  destruct (get_use_token (f_state f)) as [[[tk fa] fcd]| |]; cbn [bind] in H; try discriminate H.
  match type of H with bind ?x _ = _ => destruct x as [[f1 w1]| |] eqn:E1 end; cbn [bind] in H; try discriminate H.
  assert (Hc1 : w_calls w1 = w_calls w).
  { destruct (negb _).
    - destruct (inst_add _ _) as [e| |]; cbn [bind] in E1; try discriminate E1.
      destruct (f_gap f).
      + injection E1 as _ <-. reflexivity.
      + destruct (inst_sub_dur _ _) as [e2| |]; cbn [bind] in E1; try discriminate E1. injection E1 as _ <-. reflexivity.
    - injection E1 as _ <-. reflexivity. }
  destruct (wait_synchronization_pause f1 now) as [[f2 wait]| |]; cbn [bind] in H; try discriminate H.
  assert (Hnone : w_calls w' = w_calls w -> exists l, w_calls w' = w_calls w ++ l /\ Forall is_app_result l)
    by (intros E; exists []; rewrite app_nil_r; split; [exact E|constructor]).
  destruct wait; [injection H as _ <-; apply Hnone; exact Hc1|].
  destruct (get_use_token (f_state f2)) as [[[tk2 fa2] fcd2]| |]; cbn [bind] in H; try discriminate H.
  assert (Hround : forall hp tg f3 w3 d,
    (let* f0 := set_first_cycle_done f2 in apps_transmit_telegram A ops f0 now (note A w1 tg) hp) = Ok (f3, w3, d) ->
    (if d then Ok (f3, w3) else trans A f3 w3 (fun s => transition_pass_token s true first_attempt)) = Ok (f', w') ->
    exists l, w_calls w' = w_calls w ++ l /\ Forall is_app_result l).
  { intros hp tg f3 w3 d Hr Hfin. destruct (set_first_cycle_done f2) as [f0| |]; cbn [bind] in Hr; try discriminate Hr.
    apply apps_transmit_loop_results in Hr. destruct Hr as [l [Hl Hf]]. cbn in Hl. exists l. split; [|exact Hf].
    destruct d; [injection Hfin as _ <-; congruence|].
    apply trans_keep in Hfin. destruct Hfin as [_ [_ [_ [_ [[Hw _] _]]]]]. congruence. }
  destruct (now <? f_end_tht f2).
  - match type of H with bind ?x _ = _ => destruct x as [[[f3 w3] d]| |] eqn:El end; cbn [bind] in H; try discriminate H.
    exact (Hround _ _ _ _ _ El H).
  - destruct (negb fcd2).
    + match type of H with bind ?x _ = _ => destruct x as [[[f3 w3] d]| |] eqn:El end; cbn [bind] in H; try discriminate H.
      exact (Hround _ _ _ _ _ El H).
    + cbn [bind] in H. apply trans_keep in H. destruct H as [_ [_ [_ [_ [[Hw _] _]]]]]. apply Hnone. rewrite Hw. exact Hc1.
Qed.

Lemma do_use_token_results f now (w : W) f' w' :
  do_use_token A ops f now w = Ok (f', w') ->
  exists l, w_calls w' = w_calls w ++ l /\ Forall is_app_result l.
Proof.
  rewrite do_use_token_split. intros H.
  destruct (do_use_token_head A ops f now w) as [[f1 w1]| |] eqn:Eh; cbn [bind] in H; try discriminate H.
  apply do_use_token_head_results in Eh.
  destruct (is_pass_token (f_state f1)); [|injection H as <- <-; exact Eh].
  apply do_pass_token_frame in H. destruct H as [Hc _]. rewrite Hc. exact Eh.
Qed.

Lemma poll_results f now pin (apps : list A) f' o apps' calls :
  poll ops f now pin apps = Ok (f', o, apps', calls) -> Forall is_app_result calls.
Proof.
  intros H. apply poll_calls_cases in H.
  destruct H as [[-> _]|[f3 [w3 [w' [_ [_ [Hc3 [_ [-> [_ [Hd|Hd]]]]]]]]]]]; [constructor| |].
  - apply do_use_token_results in Hd. destruct Hd as [l [Hl Hf]]. rewrite Hl, Hc3. exact Hf.
  - apply do_await_data_response_split in Hd.
    destruct Hd as [a' [tk [fa [app [Es [En Hcases]]]]]].
    destruct Hcases as [[t' [app' [Hok [_ [Hc _]]]]]|[[[Hw _] _]|[[[Hw _] _]|[app' [f4 [w4 [_ [Hc4 [_ [_ [_ Hdo]]]]]]]]]]].
    + rewrite Hc, Hc3. constructor; [intros i hp r C; discriminate C|constructor].
    + rewrite Hw, Hc3. constructor.
    + rewrite Hw, Hc3. constructor.
    + apply do_use_token_results in Hdo. destruct Hdo as [l [Hl Hf]]. rewrite Hl, Hc4, Hc3.
      constructor; [intros i hp r C; discriminate C|exact Hf].
Qed.

Lemma run_results : forall evs f (apps : list A) f' apps' h,
  run f apps evs = Ok (f', apps', h) -> Forall is_app_result (calls_of h).
Proof.
  induction evs as [|e tl IH]; intros f apps f' apps' h H; cbn [run] in H.
  - injection H as _ _ <-. constructor.
  - destruct (step f apps e) as [[[f1 apps1] h1]| |] eqn:Es; cbn [bind] in H; try discriminate H.
    destruct (run f1 apps1 tl) as [[[f2 apps2] h2]| |] eqn:Er; cbn [bind] in H; try discriminate H.
    injection H as _ _ <-. rewrite calls_of_app. apply Forall_app. split; [|exact (IH _ _ _ _ _ Er)].
    destruct e as [now pin| | |g]; cbn [step] in Es.
    + destruct (poll ops f now pin apps) as [[[[f3 o3] a3] c3]| |] eqn:Ep; cbn [bind] in Es; try discriminate Es.
      injection Es as _ _ <-. rewrite calls_of_app, calls_of_map. cbn. rewrite app_nil_r. exact (poll_results _ _ _ _ _ _ _ _ Ep).
    + destruct (set_online f); cbn [bind] in Es; try discriminate Es. injection Es as _ _ <-. constructor.
    + destruct (set_offline f); cbn [bind] in Es; try discriminate Es. injection Es as _ _ <-. constructor.
    + injection Es as _ _ <-. constructor.
Qed.

(* what TelegramTx computes (telegram.rs:684-704), through the regenerated table *)
Lemma transmit_expects_reply size rq wire er : transmit size rq = Ok (wire, er) ->
  forall da, er = Some da <->
    exists h pdu fcb r, rq = TxData h pdu /\ h_fc h = FcRequest fcb r /\ req_expects_reply r = true /\ da = h_da h.
Proof.
  intros H da. destruct rq as [h pdu|d s0|]; unfold transmit in H.
  - destruct (encode_data_in size h pdu) as [w0| |]; cbn [bind] in H; try discriminate H. injection H as _ <-.
    unfold tx_expects_reply. split.
    + destruct (h_fc h) as [fcb r|st ss] eqn:Efc; [|discriminate]. destruct (req_expects_reply r) eqn:Er; [|discriminate].
      intros E. injection E as <-. exists h, pdu, fcb, r. repeat split; assumption.
    + intros [h' [pdu' [fcb [r [E [Efc [Er ->]]]]]]]. injection E as <- <-. rewrite Efc, Er. reflexivity.
  - destruct (Nat.ltb size 3); [discriminate H|]. injection H as _ <-.
    split; [discriminate|]. intros [h' [pdu' [fcb [r [E _]]]]]. discriminate E.
  - destruct (Nat.ltb size 1); [discriminate H|]. injection H as _ <-.
    split; [discriminate|]. intros [h' [pdu' [fcb [r [E _]]]]]. discriminate E.
Qed.

Section TelegramTx.
(* the application builds its telegram with the TelegramTx it is handed (any buffer size) *)
Hypothesis app_uses_telegram_tx : forall a now p hp a' wire er,
  a_tx ops a now p hp = Ok (a', Some (wire, er)) -> exists size rq, transmit size rq = Ok (wire, er).

Theorem expects_reply_by_table p f0 (apps : list A) evs f apps' h i hp wire er :
  fdl_new p = Ok f0 -> run f0 apps evs = Ok (f, apps', h) ->
  In (CallTransmit i hp (Some (wire, er))) (calls_of h) ->
  exists size rq, transmit size rq = Ok (wire, er) /\
    forall da, er = Some da <->
      exists hd pdu fcb r, rq = TxData hd pdu /\ h_fc hd = FcRequest fcb r /\ req_expects_reply r = true /\ da = h_da hd.
Proof.
  intros _ Hr Hin. apply run_results in Hr. rewrite Forall_forall in Hr.
  destruct (Hr _ Hin i hp _ eq_refl) as [a [now [p' [a' Htx]]]].
  destruct (app_uses_telegram_tx _ _ _ _ _ _ _ Htx) as [size [rq Ht]].
  exists size, rq. split; [exact Ht|]. exact (transmit_expects_reply _ _ _ _ Ht).
Qed.
End TelegramTx.

End Apps.

Arguments event A : clear implicits.

(* ------------------------------------------------------------------------------------------ *)
(* Non-vacuity: a concrete application on a concrete station, run through the model.  The application
   sends one SRD request to station 5 when first asked and declines afterwards; the station holds the
   token (UseToken), the hold time is far away.  Four polls: request sent, PHY still busy, short
   confirmation received, application declines -> the token is passed in that same poll (F20 repair); the
   station is alone in its ring, so it passes the token to itself and its next visit begins. *)
Definition demo_hdr : header := mkHeader 5 2 None None (FcRequest FcbFirst RqSrdLow).
Definition demo_ops : app_ops nat :=
  mkAppOps nat
    (fun a now p hp => match a with
                       | O => match transmit tx_buffer_size (TxData demo_hdr [1; 2]) with
                              | Ok r => Ok (1%nat, Some r) | Panic s => Panic s | OutOfFuel => OutOfFuel
                              end
                       | S _ => Ok (a, None)
                       end)
    (fun a _ _ _ _ => Ok (S a)) (fun a _ _ _ => Ok (S a)).
Definition demo_params : params :=
  mkParams 2 default_baudrate default_slot_bits default_token_rotation_bits default_gap_wait_rotations
           default_highest_station_address default_max_retry_limit default_min_tsdr_bits None.
Definition demo_start : fdl :=
  match fdl_new demo_params with
  | Ok f => mkFdl (f_p f) (f_ring f) ConnOnline (GapWaiting 0) (UseToken 0 None false) (Some 0) 0 0 1000000000 0
  | _ => mkFdl demo_params (mkRing [] LasValid 2 2 2) ConnOffline (GapWaiting 0) Offline None 0 0 0 0
  end.
Definition demo_events : list (event nat) :=
  [EvPoll nat 100000 (mkPhyIn false []); EvPoll nat 100100 (mkPhyIn true []);
   EvPoll nat 200000 (mkPhyIn false [229]); EvPoll nat 300000 (mkPhyIn false [])].
Definition demo_wire : bytes := [104; 5; 5; 104; 5; 2; 108; 1; 2; 118; 22].

Lemma demo_inv : Inv 1 demo_start (cst_of demo_start 0).
Proof. vm_compute. repeat split. Qed.

Lemma demo_history : exists f apps h,
  run nat demo_ops demo_start [0%nat] demo_events = Ok (f, apps, h) /\
  calls_of h = [CallTransmit 0 false (Some (demo_wire, Some 5)); CallReceiveReply 0 5 TShortConf; CallTransmit 0 false None] /\
  f_state f = UseToken 300000 None false /\ apps = [2%nat].
Proof.
  destruct (run nat demo_ops demo_start [0%nat] demo_events) as [[[f apps] h]| |] eqn:E.
  - exists f, apps, h. split; [reflexivity|].
    assert (E' : match run nat demo_ops demo_start [0%nat] demo_events with
                 | Ok (f, apps, h) => (calls_of h, f_state f, apps)
                 | _ => ([], Offline, [])
                 end = ([CallTransmit 0 false (Some (demo_wire, Some 5)); CallReceiveReply 0 5 TShortConf; CallTransmit 0 false None],
                        UseToken 300000 None false, [2%nat])) by (vm_compute; reflexivity).
    rewrite E in E'. injection E' as -> -> ->. repeat split.
  - exfalso. assert (E' : is_ok (run nat demo_ops demo_start [0%nat] demo_events) = true) by (vm_compute; reflexivity).
    rewrite E in E'. discriminate E'.
  - exfalso. assert (E' : is_ok (run nat demo_ops demo_start [0%nat] demo_events) = true) by (vm_compute; reflexivity).
    rewrite E in E'. discriminate E'.
Qed.

(* the acceptors are not trivially true: an unsolicited reply, a reply from the wrong station, a
   transmit call while a reply is outstanding, and an application asked out of turn are rejected *)
Lemma contract_rejects_unsolicited_reply :
  ~ accepts (apre 2 0) (apost 0) (AppIdle, KAwaitDataResponse) [HCall (CallReceiveReply 0 5 TShortConf)].
Proof. cbn. intros [H _]. destruct (H eq_refl) as [C _]. discriminate C. Qed.

Lemma contract_rejects_foreign_reply :
  ~ accepts (apre 2 0) (apost 0) (AppWaiting 5, KAwaitDataResponse)
      [HCall (CallReceiveReply 0 5 (TData (mkHeader 2 7 None None (FcResponse RsSlave StOk)) []))].
Proof.
  cbn. intros [H _]. destruct (H eq_refl) as [_ [C|[h [pdu [st [s [E [_ [Hs _]]]]]]]]]; [discriminate C|].
  injection E as <- <-. cbn in Hs. discriminate Hs.
Qed.

Lemma contract_rejects_second_request :
  ~ accepts (apre 2 0) (apost 0) (AppIdle, KUseToken)
      [HCall (CallTransmit 0 false (Some ([], Some 5))); HCall (CallTransmit 0 false None)].
Proof. cbn. intros [_ [[C _] _]]. discriminate C. Qed.

Lemma round_robin_rejects_out_of_turn :
  ~ accepts (rpre 3) (rpost 3) (mkRr KUseToken 0 0)
      [HCall (CallTransmit 0 false None); HCall (CallTransmit 2 false None)].
Proof. cbn. intros [_ [[C _] _]]. discriminate C. Qed.

(* the hypotheses of the history theorems are satisfiable from a new station: it goes online, listens,
   and claims the token after its time-out - a run of the model that is Ok *)
Definition demo_init_events : list (event nat) :=
  [EvOnline nat; EvPoll nat 0 (mkPhyIn false []); EvPoll nat 10000000 (mkPhyIn false []);
   EvPoll nat 10000100 (mkPhyIn true []); EvUser nat (fun a => a); EvOffline nat; EvOnline nat;
   EvPoll nat 10000200 (mkPhyIn false [])].

Lemma demo_from_init : exists f0, fdl_new demo_params = Ok f0 /\
  is_ok (run nat demo_ops f0 [0%nat] demo_init_events) = true.
Proof.
  destruct (fdl_new demo_params) as [f0| |] eqn:E.
  - exists f0. split; [reflexivity|].
    assert (E' : match fdl_new demo_params with Ok f0 => is_ok (run nat demo_ops f0 [0%nat] demo_init_events) | _ => false end = true)
      by (vm_compute; reflexivity).
    rewrite E in E'. exact E'.
  - assert (E' : is_ok (fdl_new demo_params) = true) by (vm_compute; reflexivity). rewrite E in E'. discriminate E'.
  - assert (E' : is_ok (fdl_new demo_params) = true) by (vm_compute; reflexivity). rewrite E in E'. discriminate E'.
Qed.
