(* C03_watchdog_factors: the watchdog factor search of src/fdl/parameters.rs (model: Params.watchdog_factors) *)
From PB Require Import Params.

Lemma wd_search_spec : forall fuel t f,
  1 <= f ->
  (exists g, f <= g < f + Z.of_nat fuel /\ (t + g - 1) / g < 256) ->
  exists f1, wd_search t f fuel = Some (f1, (t + f1 - 1) / f1) /\
             f <= f1 < f + Z.of_nat fuel /\ (t + f1 - 1) / f1 < 256 /\
             (forall g, f <= g < f1 -> 256 <= (t + g - 1) / g).
Proof.
  induction fuel as [|fuel IH]; intros t f Hf (g & Hg & Hlt).
  - lia.
  - cbn [wd_search].
    destruct (Z.ltb_spec ((t + f - 1) / f) 256) as [Hok|Hno].
    + exists f. split; [reflexivity|]. split; [lia|]. split; [exact Hok|]. intros g' Hg'. lia.
    + assert (Hgf : g <> f) by (intro; subst; lia).
      destruct (IH t (f + 1)) as (f1 & Hs & Hr & Hl & Hmin); [lia| |].
      { exists g. split; [lia|exact Hlt]. }
      exists f1. split; [exact Hs|]. split; [lia|]. split; [exact Hl|].
      intros g' Hg'. destruct (Z.eq_dec g' f) as [->|Hne]; [lia|apply Hmin; lia].
Qed.

Lemma ceil_mul : forall t f, 0 <= t -> 1 <= f -> t <= f * ((t + f - 1) / f).
Proof.
  intros t f Ht Hf.
  pose proof (Z.div_mod (t + f - 1) f ltac:(lia)) as Hdm.
  pose proof (Z.mod_pos_bound (t + f - 1) f ltac:(lia)) as Hb.
  lia.
Qed.

Lemma watchdog_factors_spec : forall ms,
  10 <= ms <= 650000 ->
  exists f1 f2, watchdog_factors (ms * 1000) = Some (Some (f1, f2)) /\
    1 <= f1 <= 255 /\ 1 <= f2 <= 255 /\ ms / 10 <= f1 * f2 /\
    (forall g, 1 <= g < f1 -> 256 <= (ms / 10 + g - 1) / g).
Proof.
  intros ms Hms. unfold watchdog_factors.
  assert (H0 : (ms * 1000 =? 0) = false) by (apply Z.eqb_neq; lia). rewrite H0.
  rewrite Z.div_mul by lia.
  set (t := ms / 10).
  assert (Ht : 1 <= t <= 65000).
  { unfold t. split; [apply Z.div_le_lower_bound; lia|apply Z.div_le_upper_bound; lia]. }
  assert (Hu : (4294967295 <? t) = false) by (apply Z.ltb_ge; lia). rewrite Hu.
  destruct (wd_search_spec 255 t 1 ltac:(lia)) as (f1 & Hs & Hr & Hl & Hmin).
  { exists 255. split; [lia|]. apply Z.div_lt_upper_bound; lia. }
  exists f1, ((t + f1 - 1) / f1). rewrite Hs. repeat split; try lia.
  - apply Z.div_le_lower_bound; lia.
  - apply ceil_mul; lia.
  - intros g Hg. apply Hmin. lia.
Qed.
