(* C08: frame-count-bit and retry discipline, history theorems.
   Everything here is read from DpHistory.history_new: in every history of a peripheral each event of the wire
   trace satisfies `ev_ok` for the monitor state of the events before it.  This file turns the monitor state
   into explicit statements about the trace:
     tr = pre ++ WReq h1 pdu1 :: mid ++ WReq h2 pdu2 :: post   with `quiet mid` (no request, no Offline event
   in mid) are two CONSECUTIVE requests; `answered sv mid` says a reply in mid is accepted (the standard's view
   DpOracle.reply_accepted) for service sv. *)
From PB Require Import Peripheral DpOracle DpStepProofs DpHistory.

(* ------------------------------------------------------------------ trace vocabulary *)

Definition is_req (e : wev) : bool := match e with WReq _ _ => true | _ => false end.
Definition is_offline (e : wev) : bool := match e with WEvent EvOffline => true | _ => false end.

(* no request and no Offline event *)
Definition quiet (mid : list wev) : Prop := forall e, In e mid -> is_req e = false /\ is_offline e = false.

(* some reply in mid is an accepted reply to a request of service sv *)
Definition answered (sv : service) (mid : list wev) : bool :=
  existsb (fun e => match e with WReply t _ => reply_accepted sv t | _ => false end) mid.

(* a stretch in which a request of service sv stays unanswered: no accepted reply, no idle turn, no event;
   requests (retransmissions), rejected replies, time-outs and user calls may occur *)
Definition unanswered_seg (sv : service) (mid : list wev) : Prop :=
  forall e, In e mid ->
    match e with
    | WIdle | WEvent _ => False
    | WReply t _ => reply_accepted sv t = false
    | _ => True
    end.

Fixpoint count_req (l : list wev) : Z :=
  match l with
  | [] => 0
  | e :: r => (if is_req e then 1 else 0) + count_req r
  end.

(* the last transmit_telegram turn in l (if any) put a request on the wire *)
Definition turn_open (l : list wev) : bool :=
  fold_left (fun b e => match e with WReq _ _ => true | WIdle | WEvent _ => false | _ => b end) l false.

(* every request in pre was followed by an Offline event: none since start-up / since the last Offline event *)
Definition no_request_since_offline (pre : list wev) : Prop :=
  forall pre1 h1 pdu1 post1, pre = pre1 ++ WReq h1 pdu1 :: post1 -> In (WEvent EvOffline) post1.

(* ------------------------------------------------------------------ pure facts about the monitor state *)

Lemma ghost_snoc : forall pre e, ghost_of (pre ++ [e]) = gstep (ghost_of pre) e.
Proof. intros. unfold ghost_of. rewrite fold_left_app. reflexivity. Qed.

Lemma ghost_app : forall a b, ghost_of (a ++ b) = fold_left gstep b (ghost_of a).
Proof. intros. unfold ghost_of. apply fold_left_app. Qed.

Lemma unans_nonneg : forall tr, 0 <= gh_unans (ghost_of tr).
Proof.
  induction tr as [|e tr IH] using rev_ind; [cbn; lia|].
  rewrite ghost_snoc. destruct e as [h pdu| |ev|t ev| |]; cbn [gstep gh_unans]; try lia.
  - destruct ev; cbn; lia.
  - destruct (reply_accepted _ t); cbn; lia.
Qed.

Lemma count_req_app : forall a b, count_req (a ++ b) = count_req a + count_req b.
Proof.
  induction a as [|e a IH]; intro b; cbn [app count_req]; [lia|].
  rewrite IH. destruct (is_req e); lia.
Qed.

Lemma count_req_nonneg : forall l, 0 <= count_req l.
Proof. induction l as [|e l IH]; cbn [count_req]; [lia|]. destruct (is_req e); lia. Qed.

Lemma turn_open_snoc : forall l e,
  turn_open (l ++ [e]) = match e with WReq _ _ => true | WIdle | WEvent _ => false | _ => turn_open l end.
Proof. intros. unfold turn_open. rewrite fold_left_app. reflexivity. Qed.

Lemma reply_accepted_other : forall t, reply_accepted SvOther t = false.
Proof. destruct t; reflexivity. Qed.

(* at start-up and after an Offline event, until the next request: no last request, phase NeedDiag *)
Lemma first_spec : forall pre,
  no_request_since_offline pre ->
  gh_last (ghost_of pre) = None /\ gh_phase (ghost_of pre) = PhNeedDiag.
Proof.
  induction pre as [|e pre IH] using rev_ind; intro Hc; [split; reflexivity|].
  rewrite ghost_snoc.
  destruct (is_offline e) eqn:Hoff.
  { destruct e as [| |[]| | |]; try discriminate Hoff. split; reflexivity. }
  destruct (is_req e) eqn:Hreq.
  { destruct e as [h pdu| | | | |]; try discriminate Hreq. exfalso.
    apply (Hc pre h pdu []). reflexivity. }
  assert (Hpre : no_request_since_offline pre).
  { intros pre1 h1 pdu1 post1 Hx.
    assert (Hin : In (WEvent EvOffline) (post1 ++ [e])).
    { apply (Hc pre1 h1 pdu1). rewrite Hx. rewrite <- app_assoc. reflexivity. }
    apply in_app_or in Hin. destruct Hin as [Hin|[Hin|[]]]; [exact Hin|].
    subst e. discriminate Hoff. }
  destruct (IH Hpre) as (Hl & Hp).
  destruct e as [h pdu| |ev|t ev| |]; try discriminate Hreq; cbn [gstep].
  - split; assumption.
  - destruct ev; try discriminate Hoff; split; assumption.
  - rewrite Hl, reply_accepted_other. cbn [gh_last gh_phase]. split; auto.
  - split; assumption.
  - split; assumption.
Qed.

(* between two consecutive requests the monitor keeps the first one and records whether it was answered *)
Lemma ghost_quiet : forall mid g h,
  gh_last g = Some h -> quiet mid ->
  gh_last (fold_left gstep mid g) = Some h /\
  gh_acc (fold_left gstep mid g) = gh_acc g || answered (classify h) mid.
Proof.
  induction mid as [|e mid IH]; intros g h Hl Hq.
  - cbn. split; [exact Hl|]. rewrite orb_false_r. reflexivity.
  - assert (He : is_req e = false /\ is_offline e = false) by (apply Hq; left; reflexivity).
    assert (Hq' : quiet mid) by (intros e' Hin; apply Hq; right; exact Hin).
    destruct He as (Hreq & Hoff).
    cbn [fold_left answered existsb].
    assert (Hstep : gh_last (gstep g e) = Some h /\
                    gh_acc (gstep g e) = gh_acc g ||
                      match e with WReply t _ => reply_accepted (classify h) t | _ => false end).
    { destruct e as [h' pdu| |ev|t ev| |]; try discriminate Hreq; cbn [gstep].
      - cbn. rewrite orb_false_r. auto.
      - destruct ev; try discriminate Hoff; cbn; rewrite orb_false_r; auto.
      - rewrite Hl. destruct (reply_accepted (classify h) t); cbn; [rewrite orb_true_r|rewrite orb_false_r]; auto.
      - cbn. rewrite orb_false_r. auto.
      - rewrite orb_false_r. auto. }
    destruct Hstep as (Hl1 & Ha1).
    destruct (IH (gstep g e) h Hl1 Hq') as (Hl2 & Ha2).
    split; [exact Hl2|]. rewrite Ha2, Ha1. rewrite orb_assoc. reflexivity.
Qed.

Lemma split_second : forall (pre : list wev) e1 mid e2 post,
  pre ++ e1 :: mid ++ e2 :: post = (pre ++ e1 :: mid) ++ e2 :: post.
Proof. intros. rewrite <- app_assoc. reflexivity. Qed.

(* ------------------------------------------------------------------ C08_first *)

Lemma first_request : forall pa a o tr,
  1 <= p_max_retry pa -> history pa a o tr ->
  forall pre h pdu post,
  tr = pre ++ WReq h pdu :: post ->
  no_request_since_offline pre ->
  h = mkHeader a (p_address pa) (Some 60) (Some 62) (FcRequest FcbFirst RqSrdLow) /\ pdu = [] /\
  fc_to_byte (h_fc h) = 108.
Proof.
  intros pa a o tr Hmax Hh pre h pdu post Htr Hc.
  pose proof (history_new pa a o tr Hmax Hh pre (WReq h pdu) post Htr) as Hok.
  destruct (first_spec pre Hc) as (Hl & Hp).
  cbn [ev_ok] in Hok. destruct Hok as (f & Hstd & _ & Hfirst & _ & Hprobe & _).
  specialize (Hfirst Hl). subst f. destruct (Hprobe Hp) as (Hsv & _).
  rewrite Hsv in Hstd. cbn in Hstd. destruct Hstd as (-> & ->). repeat split; reflexivity.
Qed.

(* ------------------------------------------------------------------ consecutive requests *)

(* what the monitor knows when the second of two consecutive requests is sent *)
Lemma consecutive : forall pa a o tr,
  1 <= p_max_retry pa -> history pa a o tr ->
  forall pre h1 pdu1 mid h2 pdu2 post,
  tr = pre ++ WReq h1 pdu1 :: mid ++ WReq h2 pdu2 :: post ->
  quiet mid ->
  exists f2, std_request pa a o f2 (classify h2) h2 pdu2 /\ f2 <> FcbInactive /\
  exists f1 rq1, h_fc h1 = FcRequest f1 rq1 /\
    if answered (classify h1) mid
    then fcbit_fcv f2 = true /\ fcbit_fcb f2 = negb (fcbit_fcb f1)
    else classify h2 = classify h1 /\ h_da h2 = h_da h1 /\
         (h_fc h2 = h_fc h1 \/ (f2 = FcbFirst /\ classify h2 = SvDiag)).
Proof.
  intros pa a o tr Hmax Hh pre h1 pdu1 mid h2 pdu2 post Htr Hq.
  rewrite split_second in Htr.
  pose proof (history_new pa a o tr Hmax Hh _ _ _ Htr) as Hok.
  replace (pre ++ WReq h1 pdu1 :: mid) with ((pre ++ [WReq h1 pdu1]) ++ mid) in Hok
    by (rewrite <- app_assoc; reflexivity).
  rewrite ghost_app, ghost_snoc in Hok.
  set (g1 := gstep (ghost_of pre) (WReq h1 pdu1)) in *.
  assert (Hl1 : gh_last g1 = Some h1) by reflexivity.
  destruct (ghost_quiet mid g1 h1 Hl1 Hq) as (Hl & Ha).
  change (gh_acc g1) with false in Ha. cbn [orb] in Ha.
  cbn [ev_ok] in Hok. destruct Hok as (f2 & Hstd & Hact & _ & Hprev & Hprobe & _).
  exists f2. split; [exact Hstd|]. split; [exact Hact|].
  destruct (Hprev h1 Hl) as (f1 & rq1 & Hfc1 & Hb). exists f1, rq1. split; [exact Hfc1|].
  rewrite Ha in Hb. destruct (answered (classify h1) mid); [exact Hb|].
  destruct Hb as (Hsv & Hda & Hfc). repeat split; try assumption.
  destruct Hfc as [Hfc|(Hp & Hf)]; [left; exact Hfc|right].
  split; [exact Hf|]. apply Hprobe. exact Hp.
Qed.

Lemma toggle_history : forall pa a o tr,
  1 <= p_max_retry pa -> history pa a o tr ->
  forall pre h1 pdu1 mid h2 pdu2 post,
  tr = pre ++ WReq h1 pdu1 :: mid ++ WReq h2 pdu2 :: post ->
  quiet mid ->
  answered (classify h1) mid = true ->
  exists f1 rq1 f2 rq2, h_fc h1 = FcRequest f1 rq1 /\ h_fc h2 = FcRequest f2 rq2 /\
    fcbit_fcv f2 = true /\ fcbit_fcb f2 = negb (fcbit_fcb f1).
Proof.
  intros pa a o tr Hmax Hh pre h1 pdu1 mid h2 pdu2 post Htr Hq Hans.
  destruct (consecutive pa a o tr Hmax Hh _ _ _ _ _ _ _ Htr Hq) as (f2 & Hstd & _ & f1 & rq1 & Hfc1 & Hb).
  rewrite Hans in Hb. destruct (std_request_classify _ _ _ _ _ _ _ Hstd) as (_ & _ & _ & Hfc2).
  exists f1, rq1, f2, (sv_req (classify h2)). repeat split; try assumption; apply Hb.
Qed.

Lemma same_bit_only_retransmission : forall pa a o tr,
  1 <= p_max_retry pa -> history pa a o tr ->
  forall pre h1 pdu1 mid h2 pdu2 post,
  tr = pre ++ WReq h1 pdu1 :: mid ++ WReq h2 pdu2 :: post ->
  quiet mid ->
  forall f1 rq1 f2 rq2,
  h_fc h1 = FcRequest f1 rq1 -> h_fc h2 = FcRequest f2 rq2 ->
  fcbit_fcb f1 = fcbit_fcb f2 ->
  answered (classify h1) mid = false /\
  classify h2 = classify h1 /\ h_da h2 = h_da h1 /\
  (h_fc h2 = h_fc h1 \/ (f2 = FcbFirst /\ classify h2 = SvDiag)).
Proof.
  intros pa a o tr Hmax Hh pre h1 pdu1 mid h2 pdu2 post Htr Hq f1 rq1 f2 rq2 Hfc1 Hfc2 Hsame.
  destruct (consecutive pa a o tr Hmax Hh _ _ _ _ _ _ _ Htr Hq) as (f2' & Hstd & _ & f1' & rq1' & Hfc1' & Hb).
  destruct (std_request_classify _ _ _ _ _ _ _ Hstd) as (_ & _ & _ & Hfc2').
  rewrite Hfc1 in Hfc1'. inversion Hfc1'; subst f1' rq1'.
  rewrite Hfc2 in Hfc2'. inversion Hfc2'; subst f2'.
  destruct (answered (classify h1) mid).
  - exfalso. destruct Hb as (_ & Hb). rewrite <- Hsame in Hb. destruct (fcbit_fcb f1); discriminate Hb.
  - split; [reflexivity|exact Hb].
Qed.

(* ------------------------------------------------------------------ C08_retry_bound *)

(* while a request stays unanswered every further request is a retransmission of the same service and the
   monitor counts the transmissions *)
Lemma unanswered_state : forall pa a o tr,
  1 <= p_max_retry pa -> history pa a o tr ->
  forall pre h pdu mid post,
  tr = pre ++ WReq h pdu :: mid ++ post ->
  unanswered_seg (classify h) mid ->
  let g := ghost_of (pre ++ WReq h pdu :: mid) in
  (exists h', gh_last g = Some h' /\ classify h' = classify h) /\ gh_acc g = false /\
  gh_unans g = gh_unans (ghost_of pre) + 1 + count_req mid.
Proof.
  intros pa a o tr Hmax Hh pre h pdu mid.
  induction mid as [|e mid IH] using rev_ind; intros post Htr Hun.
  - cbn zeta. rewrite ghost_snoc. cbn. split; [exists h; auto|]. split; [reflexivity|lia].
  - assert (Hun' : unanswered_seg (classify h) mid).
    { intros e' Hin. apply Hun. apply in_or_app. left. exact Hin. }
    assert (He : match e with
                 | WIdle | WEvent _ => False
                 | WReply t _ => reply_accepted (classify h) t = false
                 | _ => True
                 end) by (apply Hun; apply in_or_app; right; left; reflexivity).
    assert (Htr' : tr = pre ++ WReq h pdu :: mid ++ e :: post).
    { rewrite Htr. rewrite <- app_assoc. reflexivity. }
    specialize (IH (e :: post) Htr' Hun'). cbn zeta in IH.
    destruct IH as ((h' & Hl & Hcl) & Hacc & Hu).
    cbn zeta.
    replace (pre ++ WReq h pdu :: mid ++ [e]) with ((pre ++ WReq h pdu :: mid) ++ [e])
      by (rewrite <- app_assoc; reflexivity).
    rewrite ghost_snoc. rewrite count_req_app.
    set (g := ghost_of (pre ++ WReq h pdu :: mid)) in *.
    destruct e as [h2 pdu2| |ev|t ev| |]; try contradiction; cbn [gstep gh_last gh_acc gh_unans count_req is_req].
    + (* a retransmission *)
      rewrite split_second in Htr'.
      pose proof (history_new pa a o tr Hmax Hh _ _ _ Htr') as Hok. fold g in Hok.
      cbn [ev_ok] in Hok. destruct Hok as (f2 & _ & _ & _ & Hprev & _).
      destruct (Hprev h' Hl) as (f1 & rq1 & _ & Hb). rewrite Hacc in Hb. destruct Hb as (Hsv & _).
      split; [exists h2; split; [reflexivity|congruence]|]. split; [reflexivity|lia].
    + rewrite Hl, Hcl, He. cbn. split; [exists h'; auto|]. split; [exact Hacc|lia].
    + split; [exists h'; auto|]. split; [exact Hacc|lia].
    + split; [exists h'; auto|]. split; [exact Hacc|lia].
Qed.

Lemma retry_bound : forall pa a o tr,
  1 <= p_max_retry pa -> history pa a o tr ->
  forall pre h pdu mid post,
  tr = pre ++ WReq h pdu :: mid ++ post ->
  unanswered_seg (classify h) mid ->
  1 + count_req mid <= 1 + p_max_retry pa.
Proof.
  intros pa a o tr Hmax Hh pre h pdu mid.
  induction mid as [|e mid IH] using rev_ind; intros post Htr Hun; [cbn [count_req]; lia|].
  assert (Hun' : unanswered_seg (classify h) mid).
  { intros e' Hin. apply Hun. apply in_or_app. left. exact Hin. }
  assert (Htr' : tr = pre ++ WReq h pdu :: mid ++ e :: post).
  { rewrite Htr. rewrite <- app_assoc. reflexivity. }
  specialize (IH (e :: post) Htr' Hun').
  rewrite count_req_app. cbn [count_req].
  destruct (is_req e) eqn:Hreq; [|lia].
  destruct e as [h2 pdu2| | | | |]; try discriminate Hreq.
  destruct (unanswered_state pa a o tr Hmax Hh pre h pdu mid _ Htr' Hun') as (_ & _ & Hu).
  rewrite split_second in Htr'.
  pose proof (history_new pa a o tr Hmax Hh _ _ _ Htr') as Hok.
  cbn [ev_ok] in Hok. destruct Hok as (f2 & _ & _ & _ & _ & _ & Hb & _).
  pose proof (unans_nonneg pre). lia.
Qed.

(* the monitor's count of unanswered transmissions, made explicit: n > 0 means the trace ends with a request
   followed by an unanswered stretch holding n - 1 further transmissions *)
Lemma unans_witness : forall pa a o tr,
  1 <= p_max_retry pa -> history pa a o tr ->
  forall pre post, tr = pre ++ post ->
  0 < gh_unans (ghost_of pre) ->
  exists pre0 h pdu mid, pre = pre0 ++ WReq h pdu :: mid /\ unanswered_seg (classify h) mid /\
    1 + count_req mid = gh_unans (ghost_of pre) /\ gh_unans (ghost_of pre0) = 0.
Proof.
  intros pa a o tr Hmax Hh pre.
  induction pre as [|e pre IH] using rev_ind; intros post Htr Hpos; [cbn in Hpos; lia|].
  assert (Htr' : tr = pre ++ e :: post) by (rewrite Htr, <- app_assoc; reflexivity).
  specialize (IH (e :: post) Htr').
  rewrite ghost_snoc in Hpos |- *.
  (* extend the stretch of the induction hypothesis by an event that leaves the monitor alone *)
  assert (Hext : forall ok : match e with
                             | WIdle | WEvent _ | WReq _ _ => False
                             | WReply t _ => forall sv, (exists h', gh_last (ghost_of pre) = Some h' /\ classify h' = sv) ->
                                                        reply_accepted sv t = false
                             | _ => True
                             end,
                 gh_unans (gstep (ghost_of pre) e) = gh_unans (ghost_of pre) ->
                 0 < gh_unans (ghost_of pre) ->
                 exists pre0 h pdu mid, pre ++ [e] = pre0 ++ WReq h pdu :: mid /\ unanswered_seg (classify h) mid /\
                   1 + count_req mid = gh_unans (gstep (ghost_of pre) e) /\ gh_unans (ghost_of pre0) = 0).
  { intros ok Hsame Hp. destruct (IH Hp) as (pre0 & h & pdu & mid & Hpre & Hun & Hcnt & Hz).
    exists pre0, h, pdu, (mid ++ [e]). split; [rewrite Hpre, <- app_assoc; reflexivity|].
    split.
    - intros e' Hin. apply in_app_or in Hin. destruct Hin as [Hin|[Hin|[]]]; [apply Hun; exact Hin|].
      subst e'. destruct e as [| | |t ev| |]; try contradiction; auto.
      apply ok.
      assert (Htr0 : tr = pre0 ++ WReq h pdu :: mid ++ WReply t ev :: post) by (rewrite Htr', Hpre, <- app_assoc; reflexivity).
      destruct (unanswered_state pa a o tr Hmax Hh pre0 h pdu mid _ Htr0 Hun) as (Hx & _).
      rewrite <- Hpre in Hx. exact Hx.
    - split; [|exact Hz]. rewrite count_req_app. rewrite Hsame.
      destruct e as [| | | | |]; try contradiction; cbn [count_req is_req]; lia. }
  destruct e as [h2 pdu2| |ev|t ev| |]; cbn [gstep gh_unans] in Hpos |- *.
  - (* a request *)
    pose proof (unans_nonneg pre) as Hnn.
    destruct (Z.eq_dec (gh_unans (ghost_of pre)) 0) as [Hz|Hnz].
    + exists pre, h2, pdu2, []. split; [reflexivity|]. split; [intros e' []|]. split; [cbn [count_req]; lia|exact Hz].
    + destruct IH as (pre0 & h & pdu & mid & Hpre & Hun & Hcnt & Hz); [lia|].
      exists pre0, h, pdu, (mid ++ [WReq h2 pdu2]). split; [rewrite Hpre, <- app_assoc; reflexivity|].
      split.
      * intros e' Hin. apply in_app_or in Hin. destruct Hin as [Hin|[Hin|[]]]; [apply Hun; exact Hin|].
        subst e'. exact Logic.I.
      * split; [|exact Hz]. rewrite count_req_app. cbn [count_req is_req]. lia.
  - lia.
  - destruct ev; cbn [gh_unans] in Hpos; lia.
  - (* a reply *)
    destruct (reply_accepted
                match gh_last (ghost_of pre) with Some h => classify h | None => SvOther end t) eqn:Hacc;
      cbn [gh_unans] in Hpos |- *; [lia|].
    assert (Hok : forall sv, (exists h', gh_last (ghost_of pre) = Some h' /\ classify h' = sv) ->
                             reply_accepted sv t = false).
    { intros sv (h' & Hl & Hcl). rewrite Hl, Hcl in Hacc. exact Hacc. }
    pose proof (Hext Hok) as Hx. cbn [gstep] in Hx. rewrite Hacc in Hx. cbn [gh_unans] in Hx.
    apply Hx; [reflexivity|exact Hpos].
  - apply (Hext Logic.I); [reflexivity|exact Hpos].
  - apply (Hext Logic.I); [reflexivity|exact Hpos].
Qed.

(* events raised by transmit_telegram: only Offline, only while live, exactly when the retries ran out:
   the trace ends with a request that stayed unanswered through exactly 1 + max_retry transmissions *)
Lemma offline_when_exhausted : forall pa a o tr,
  1 <= p_max_retry pa -> history pa a o tr ->
  forall pre ev post,
  tr = pre ++ WEvent ev :: post ->
  ev = EvOffline /\
  exists pre0 h pdu mid, pre = pre0 ++ WReq h pdu :: mid /\ unanswered_seg (classify h) mid /\
    1 + count_req mid = 1 + p_max_retry pa.
Proof.
  intros pa a o tr Hmax Hh pre ev post Htr.
  pose proof (history_new pa a o tr Hmax Hh _ _ _ Htr) as Hok.
  cbn [ev_ok] in Hok. destruct Hok as (-> & _ & Hu). split; [reflexivity|].
  destruct (unans_witness pa a o tr Hmax Hh pre _ Htr) as (pre0 & h & pdu & mid & Hpre & Hun & Hcnt & _); [lia|].
  exists pre0, h, pdu, mid. repeat split; try assumption. lia.
Qed.

(* ... and conversely: once a request went unanswered through 1 + max_retry transmissions the next turn of
   transmit_telegram raises Offline: it neither sends nor stays idle *)
Lemma exhausted_then_offline : forall pa a o tr,
  1 <= p_max_retry pa -> history pa a o tr ->
  forall pre h pdu mid e post,
  tr = pre ++ WReq h pdu :: mid ++ e :: post ->
  unanswered_seg (classify h) mid ->
  1 + count_req mid = 1 + p_max_retry pa ->
  e <> WIdle /\ (forall h2 pdu2, e <> WReq h2 pdu2).
Proof.
  intros pa a o tr Hmax Hh pre h pdu mid e post Htr Hun Hcnt.
  destruct (unanswered_state pa a o tr Hmax Hh pre h pdu mid _ Htr Hun) as (_ & _ & Hu).
  rewrite split_second in Htr.
  pose proof (history_new pa a o tr Hmax Hh _ _ _ Htr) as Hok.
  pose proof (unans_nonneg pre).
  split; [|intros h2 pdu2]; intros ->; cbn [ev_ok] in Hok.
  - lia.
  - destruct Hok as (f2 & _ & _ & _ & _ & _ & Hb & _). lia.
Qed.

(* after the Offline event, until a diagnostics reply is accepted: no further event; nothing but Slave_Diag
   probes with FCV=0/FCB=1 and no payload; a probe is never repeated in the turn in which it went unanswered
   (the turn before every probe was idle, or the probe is the first one): one probe per DP cycle *)
Definition no_answer (mid : list wev) : Prop :=
  forall t ev, In (WReply t ev) mid -> reply_accepted SvDiag t = false.

Lemma probing_state : forall pa a o tr,
  1 <= p_max_retry pa -> history pa a o tr ->
  forall pre mid post,
  tr = pre ++ WEvent EvOffline :: mid ++ post ->
  no_answer mid ->
  let g := ghost_of (pre ++ WEvent EvOffline :: mid) in
  gh_phase g = PhNeedDiag /\ gh_acc g = false /\
  (gh_last g = None \/ exists h', gh_last g = Some h' /\ classify h' = SvDiag /\ h_fc h' = FcRequest FcbFirst RqSrdLow) /\
  gh_unans g = (if turn_open mid then 1 else 0) /\
  (forall e, In e mid -> match e with WEvent _ => False | _ => True end).
Proof.
  intros pa a o tr Hmax Hh pre mid.
  induction mid as [|e mid IH] using rev_ind; intros post Htr Hna.
  - cbn zeta. rewrite ghost_snoc. cbn. repeat split; auto. intros e [].
  - assert (Hna' : no_answer mid).
    { intros t ev Hin. apply (Hna t ev). apply in_or_app. left. exact Hin. }
    assert (Htr' : tr = pre ++ WEvent EvOffline :: mid ++ e :: post).
    { rewrite Htr. rewrite <- app_assoc. reflexivity. }
    specialize (IH (e :: post) Htr' Hna'). cbn zeta in IH.
    destruct IH as (Hp & Hacc & Hl & Hu & Hev).
    pose proof Htr' as Htr2. rewrite split_second in Htr2.
    pose proof (history_new pa a o tr Hmax Hh _ _ _ Htr2) as Hok.
    cbn zeta.
    replace (pre ++ WEvent EvOffline :: mid ++ [e]) with ((pre ++ WEvent EvOffline :: mid) ++ [e])
      by (rewrite <- app_assoc; reflexivity).
    rewrite ghost_snoc, turn_open_snoc.
    set (g := ghost_of (pre ++ WEvent EvOffline :: mid)) in *.
    assert (Hin : forall (P : wev -> Prop), (forall e', In e' mid -> P e') -> P e -> forall e', In e' (mid ++ [e]) -> P e').
    { intros P H1 H2 e' Hi. apply in_app_or in Hi. destruct Hi as [Hi|[Hi|[]]]; [apply H1; exact Hi|subst e'; exact H2]. }
    destruct e as [h2 pdu2| |ev|t ev| |]; cbn [gstep gh_phase gh_last gh_acc gh_unans].
    + (* a probe *)
      cbn [ev_ok] in Hok. destruct Hok as (f2 & Hstd & _ & Hfirst & Hprev & Hprobe & _).
      destruct (Hprobe Hp) as (Hsv & Hz).
      rewrite Hsv in Hstd. cbn in Hstd. destruct Hstd as (Hh2 & _).
      assert (Hf2 : f2 = FcbFirst).
      { destruct Hl as [Hl|(h' & Hl & Hcl & Hfc')]; [apply Hfirst; exact Hl|].
        destruct (Hprev h' Hl) as (f1 & rq1 & Hfc1 & Hb). rewrite Hacc in Hb.
        destruct Hb as (_ & _ & [Hb|(_ & Hb)]); [|exact Hb].
        rewrite Hh2 in Hb. cbn in Hb. rewrite Hfc' in Hb. inversion Hb. reflexivity. }
      repeat split; auto; try lia.
      * right. exists h2. repeat split; auto. rewrite Hh2, Hf2. reflexivity.
      * apply Hin; [exact Hev|exact Logic.I].
    + repeat split; auto. apply Hin; [exact Hev|exact Logic.I].
    + exfalso. cbn [ev_ok] in Hok. destruct Hok as (_ & Hx & _). apply Hx. exact Hp.
    + (* a reply that is no acceptable diagnostics reply *)
      assert (Hrej : reply_accepted match gh_last g with Some h => classify h | None => SvOther end t = false).
      { destruct Hl as [Hl|(h' & Hl & Hcl & _)]; rewrite Hl; [apply reply_accepted_other|].
        rewrite Hcl. apply (Hna t ev). apply in_or_app. right. left. reflexivity. }
      rewrite Hrej. cbn [gh_phase gh_last gh_acc gh_unans].
      repeat split; auto. apply Hin; [exact Hev|exact Logic.I].
    + repeat split; auto. apply Hin; [exact Hev|exact Logic.I].
    + repeat split; auto. apply Hin; [exact Hev|exact Logic.I].
Qed.

Lemma offline_then_probes : forall pa a o tr,
  1 <= p_max_retry pa -> history pa a o tr ->
  forall pre mid e post,
  tr = pre ++ WEvent EvOffline :: mid ++ e :: post ->
  no_answer mid ->
  match e with
  | WEvent _ => False
  | WReq h pdu =>
      h = mkHeader a (p_address pa) (Some 60) (Some 62) (FcRequest FcbFirst RqSrdLow) /\ pdu = [] /\
      fc_to_byte (h_fc h) = 108 /\ turn_open mid = false
  | _ => True
  end.
Proof.
  intros pa a o tr Hmax Hh pre mid e post Htr Hna.
  destruct (probing_state pa a o tr Hmax Hh pre mid (e :: post) Htr Hna) as (Hp & Hacc & Hl & Hu & _).
  rewrite split_second in Htr.
  pose proof (history_new pa a o tr Hmax Hh _ _ _ Htr) as Hok.
  destruct e as [h pdu| |ev|t ev| |]; try exact Logic.I.
  - cbn [ev_ok] in Hok. destruct Hok as (f & Hstd & _ & Hfirst & Hprev & Hprobe & _).
    destruct (Hprobe Hp) as (Hsv & Hz). rewrite Hsv in Hstd. cbn in Hstd. destruct Hstd as (Hhd & Hpdu).
    assert (Hf : f = FcbFirst).
    { destruct Hl as [Hl|(h' & Hl & Hcl & Hfc')]; [apply Hfirst; exact Hl|].
      destruct (Hprev h' Hl) as (f1 & rq1 & Hfc1 & Hb). rewrite Hacc in Hb.
      destruct Hb as (_ & _ & [Hb|(_ & Hb)]); [|exact Hb].
      rewrite Hhd in Hb. cbn in Hb. rewrite Hfc' in Hb. inversion Hb. reflexivity. }
    subst f. split; [exact Hhd|]. split; [exact Hpdu|]. split; [rewrite Hhd; reflexivity|].
    rewrite Hz in Hu. destruct (turn_open mid); [discriminate Hu|reflexivity].
  - cbn [ev_ok] in Hok. destruct Hok as (_ & Hx & _). apply Hx. exact Hp.
Qed.

(* ------------------------------------------------------------------ at the master level *)
From PB Require Import DpMaster DpMasterHistory.

Lemma first_request_master : forall pa bufsize m0 cs m' outs log,
  1 <= p_max_retry pa ->
  d_run pa bufsize m0 cs [] = Ok (m', outs, log) ->
  contract_m None outs = true ->
  forall k a o i q d, slot m0 k = Some (periph_new a o i q d) ->
  forall pre h pdu post,
  proj k log = pre ++ WReq h pdu :: post ->
  no_request_since_offline pre ->
  h = mkHeader a (p_address pa) (Some 60) (Some 62) (FcRequest FcbFirst RqSrdLow) /\ pdu = [] /\
  fc_to_byte (h_fc h) = 108.
Proof.
  intros pa bufsize m0 cs m' outs log Hm H C k a o i q d Hk.
  apply (first_request pa a o (proj k log) Hm). apply (master_history pa bufsize m0 cs m' outs log H C k a o i q d Hk).
Qed.
