From PB Require Import Common Tables StdRates.

Lemma all_baudrates_complete : forall b : baudrate, In b all_baudrates.
Proof. intros b; destruct b; vm_compute; tauto. Qed.

Lemma standard_baud_rates : forall b : baudrate, baud_to_rate b = std_rate b.
Proof. intros b; destruct b; reflexivity. Qed.

Lemma rates_standard_ok_true : rates_standard_ok = true.
Proof. reflexivity. Qed.

Lemma standard_expects_reply : forall r : req_type, req_expects_reply r = std_expects_reply r.
Proof. intros r; destruct r; reflexivity. Qed.
