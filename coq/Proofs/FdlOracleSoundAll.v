(* FDL oracle soundness, summary: ALL rule groups treated in FdlOracleSound1-9 in ONE induction over the
   transcript.  Theorem fdl_oracle_sound: a rule that the monitors report on a transcript of the model is one of
   `open_rules` - the rules whose soundness is not proved.  Corollaries per property. *)
From Coq Require Import Arith.
From PB Require Import Common Tables FdlTables Telegram Phy TokenRing Params Fdl FdlOracle FdlProofs FdlStepProofs.
From PB Require Import C05Proofs C01Proofs C11Proofs C15Proofs C13Proofs C12Proofs.
From PB Require Import FdlOracleSound1 FdlOracleSound2 FdlOracleSound3 FdlOracleSound4 FdlOracleSound5 FdlOracleSound6
                       FdlOracleSound7 FdlOracleSound8 FdlOracleSound9 FdlOracleSound10.

(* rules whose soundness is NOT proved here (R05_panic: see c05_oracle_sound, a separate induction) *)
Definition open_rules : list rule :=
  [R05_panic;
   R11_supervision_never_ends;
   R12_reply_without_request; R12_reply_untruthful; R12_reply_from_wrong_state;
   R12_sweep_bound; R12_post_claim_scan_incomplete; R12_gap_wait_never_ends;
   R15_no_reply_no_timeout].

Definition may_fire (r : rule) : Prop := In r open_rules.
Ltac in_leaf := unfold may_fire, open_rules; cbn; repeat (first [left; reflexivity | right]).

Section Master.
Variable A : Type.
Variable ops : app_ops A.
Variable p : params.
Hypothesis Happs : apps_total A ops.
Hypothesis Hbv : builder_valid p.
Hypothesis Hdata : app_sends_data A ops.

Definition JA (n : nat) (f : fdl) (apps : list A) (buf : bytes) (tl : Z) (m : mon) (g : mon2) : Prop :=
  J7 A p n f apps buf tl m g /\ TI f tl m /\ UB f tl g /\ PS f m /\ CD f m.

Lemma x_e12b_open m s : onlyr may_fire (x_e12b p m s).
Proof. unfold x_e12b. cbv zeta. solve_onlyr in_leaf. Qed.
Lemma y_e_sweep_open m g s : onlyr may_fire (y_e_sweep p m g s).
Proof. unfold y_e_sweep. cbv zeta. solve_onlyr in_leaf. Qed.
Lemma y_e_scan_open m g s : onlyr may_fire (y_e_scan p m g s).
Proof. unfold y_e_scan. cbv zeta. solve_onlyr in_leaf. Qed.
Lemma y_e_live_open m g s : onlyr may_fire (y_e_live p m g s).
Proof. unfold y_e_live. solve_onlyr in_leaf. Qed.

Theorem fdl_oracle_sound (apps : list A) (ins : list minput) :
  ins_ok 0 ins ->
  forall k r, In (k, r) (monitor p (length apps) (model_transcript A ops p apps ins)) -> In r open_rules.
Proof.
  intros Hok.
  apply (generic_sound_transcript A ops p (length apps) may_fire (JA (length apps)) (fun _ => True)); try assumption; try reflexivity.
  - in_leaf.
  - intros a f apps0 buf tl m g f' ((((HB & c & HV) & HG) & HX) & HT & HU & HP & HC) E _. split; [split; [split|]|split; [|split; [|split]]].
    + split; [eapply base_api; eassumption|]. eapply vi_api; eassumption.
    + intros Hor. destruct a; cbn [mon_after_api fst]; try reflexivity.
      * unfold api_result, set_online, set_state in E. cbn in E. injection E as <-. exact (HG Hor).
      * discriminate E.
    + eapply gx_api; eassumption.
    + eapply ti_api; eassumption.
    + eapply ub_api; eassumption.
    + eapply ps_api; eassumption.
    + eapply cd_api; eassumption.
  - intros f apps0 buf tl m g now busy nb f' o apps' calls (((HJ & HG) & HX) & HT & HU & HP & HC) Hlt Hnow Hnb E _.
    pose proof HJ as (HB & c & HV). assert (Hle : tl <= now) by lia.
    destruct (J5_poll A ops p (length apps) Happs Hbv Hdata _ _ _ _ _ _ _ _ _ _ _ _ _ HJ Hlt Hnow Hnb E)
      as ((c' & Hf & H15 & H13 & Hrr & Hend & HV') & HB').
    destruct (gx_poll A ops p (length apps) Hdata _ _ _ _ _ _ _ _ _ _ _ _ _ HB HX E) as (Hfound & Htok & HX').
    pose proof (c01_ok A ops p (length apps) Hbv _ _ _ _ _ _ _ _ _ _ _ _ HB HT Hle Hnow Hnb E) as H01.
    pose proof (c06_ok A ops p (length apps) Hbv _ _ _ _ _ _ _ _ _ _ _ _ HB HT Hle Hnow Hnb E) as H06.
    pose proof (backoff_ok A ops p (length apps) _ _ _ _ _ _ _ _ _ _ _ _ _ _ HB HV HX HU Hlt E) as Hbo.
    pose proof (e11b_ok A ops p (length apps) Hbv _ _ _ _ _ _ _ _ _ _ _ _ HB HP E H01) as H11b.
    pose proof (e11a_ok A ops p (length apps) _ _ _ _ _ _ _ _ _ _ _ _ HB HC E) as H11a.
    pose proof (e11c_ok A ops p (length apps) _ _ _ _ _ _ _ _ _ _ _ _ HB HC E) as H11c.
    split; [|split].
    + rewrite mon_poll_eq. cbn [snd].
      assert (H12a : x_e12a p m (poll_event now busy (buf ++ nb) f' o calls) = []) by (eapply e12a_ok; eassumption).
      rewrite H01, H06, H11a, H11c, H11b, H12a, Hf, H15. cbn [app]. rewrite app_nil_r.
      apply x_e12b_open.
    + rewrite mon_poll2_eq. cbn [snd]. rewrite Hfound, Htok, H13, Hrr, Hend, Hbo. cbn [app]. rewrite app_nil_r.
      apply onlyr_app; [apply y_e_sweep_open|].
      apply onlyr_app; [apply y_e_scan_open|].
      apply y_e_live_open.
    + split; [split; [split|]|split; [|split; [|split]]].
      * split; [exact HB'|exists c'; rewrite fst_mon_poll, mon_poll2_eq; exact HV'].
      * rewrite fst_mon_poll. eapply gp_poll; eassumption.
      * rewrite mon_poll2_eq. cbn [fst]. exact HX'.
      * eapply ti_poll; eassumption.
      * rewrite mon_poll2_eq. cbn [fst]. eapply ub_poll; eassumption.
      * rewrite fst_mon_poll. eapply ps_poll; eassumption.
      * rewrite fst_mon_poll. eapply cd_poll; eassumption.
  - intros f0 apps0 E Hn _. split; [split; [split; [apply J5_init; assumption|intros _; reflexivity]|]|split; [|split; [|split]]].
    + split; [|intros a C; discriminate C].
      intros a Haw. exfalso. destruct (fdl_new_spec _ _ E) as ((S1 & _) & _). rewrite S1 in Haw. destruct Haw as [C|C]; discriminate C.
    + destruct (J1_init A p Hbv _ _ _ E Hn) as (_ & HT). exact HT.
    + intros l El. destruct (fdl_new_fields _ _ E) as (_ & _ & L1 & _). rewrite L1 in El. discriminate El.
    + destruct (fdl_new_fields _ _ E) as (S1 & _). split; intros; rewrite S1 in *; discriminate.
    + intros sr nps cc Es. destruct (fdl_new_fields _ _ E) as (S1 & _). rewrite S1 in Es. discriminate Es.
  - apply transcript_ok_true.
Qed.

(* per property: what is left *)
Corollary c06_oracle_sound (apps : list A) (ins : list minput) :
  ins_ok 0 ins ->
  forall k r, In (k, r) (monitor p (length apps) (model_transcript A ops p apps ins)) -> rule_prop r <> PC06.
Proof.
  intros Hok k r Hin. pose proof (fdl_oracle_sound _ _ Hok _ _ Hin) as H. unfold open_rules in H. cbn in H.
  repeat (destruct H as [<-|H]; [discriminate|]). contradiction.
Qed.

Corollary c11_open (apps : list A) (ins : list minput) :
  ins_ok 0 ins ->
  forall k r, In (k, r) (monitor p (length apps) (model_transcript A ops p apps ins)) -> rule_prop r = PC11 ->
  r = R11_supervision_never_ends.
Proof.
  intros Hok k r Hin Hp. pose proof (fdl_oracle_sound _ _ Hok _ _ Hin) as H. unfold open_rules in H. cbn in H.
  repeat (destruct H as [<-|H]; [first [discriminate Hp | reflexivity]|]). contradiction.
Qed.

Corollary c12_open (apps : list A) (ins : list minput) :
  ins_ok 0 ins ->
  forall k r, In (k, r) (monitor p (length apps) (model_transcript A ops p apps ins)) -> rule_prop r = PC12 ->
  In r [R12_reply_without_request; R12_reply_untruthful; R12_reply_from_wrong_state;
        R12_sweep_bound; R12_post_claim_scan_incomplete; R12_gap_wait_never_ends].
Proof.
  intros Hok k r Hin Hp. pose proof (fdl_oracle_sound _ _ Hok _ _ Hin) as H. unfold open_rules in H. cbn in H.
  repeat (destruct H as [<-|H]; [first [discriminate Hp | cbn; repeat (first [left; reflexivity | right])]|]). contradiction.
Qed.

End Master.
