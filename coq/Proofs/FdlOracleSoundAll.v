(* FDL oracle soundness, summary: ALL rule groups treated in FdlOracleSound1-11 in ONE induction over the
   transcript.  Theorem fdl_oracle_sound: a rule that the monitors report on a transcript of the model is one of
   `open_rules` - the rules whose soundness is not proved; theorem fdl_oracle_sound_req: for applications that
   transmit request telegrams the status-reply rules of C12 are not among them.  Corollaries per property. *)
From Coq Require Import Arith.
From PB Require Import Common Tables FdlTables Telegram Phy TokenRing Params Fdl FdlOracle FdlProofs FdlStepProofs.
From PB Require Import C05Proofs C01Proofs C11Proofs C15Proofs C13Proofs C12Proofs.
From PB Require Import FdlOracleSound1 FdlOracleSound2 FdlOracleSound3 FdlOracleSound4 FdlOracleSound5 FdlOracleSound6
                       FdlOracleSound7 FdlOracleSound8 FdlOracleSound9 FdlOracleSound10 FdlOracleSound11.

(* rules whose soundness is NOT proved here (R05_panic: see c05_oracle_sound, a separate induction) *)
Definition open_rules_req : list rule :=
  [R05_panic;
   R11_supervision_never_ends;
   R12_sweep_bound; R12_post_claim_scan_incomplete; R12_gap_wait_never_ends;
   R15_no_reply_no_timeout].

(* ... and without the hypothesis on the applications' telegrams *)
Definition open_rules : list rule :=
  [R12_reply_without_request; R12_reply_untruthful; R12_reply_from_wrong_state] ++ open_rules_req.

Definition may_fire (l : list rule) (r : rule) : Prop := In r l.
Ltac in_leaf := unfold may_fire, open_rules, open_rules_req; cbn; repeat (first [left; reflexivity | right]).

Section Master.
Variable A : Type.
Variable ops : app_ops A.
Variable p : params.
Hypothesis Happs : apps_total A ops.
Hypothesis Hbv : builder_valid p.
Hypothesis Hdata : app_sends_data A ops.

Definition JA (n : nat) (f : fdl) (apps : list A) (buf : bytes) (tl : Z) (m : mon) (g : mon2) : Prop :=
  J7 A p n f apps buf tl m g /\ TI f tl m /\ UB f tl g /\ PS f m /\ CD f m /\ RQ f m.

Lemma x_e12b_open m s : onlyr (may_fire open_rules) (x_e12b p m s).
Proof. unfold x_e12b. cbv zeta. solve_onlyr in_leaf. Qed.
Lemma y_e_sweep_open l m g s : (forall r, In r open_rules_req -> In r l) -> onlyr (may_fire l) (y_e_sweep p m g s).
Proof. intros Hl. unfold y_e_sweep. cbv zeta. solve_onlyr ltac:(apply Hl; in_leaf). Qed.
Lemma y_e_scan_open l m g s : (forall r, In r open_rules_req -> In r l) -> onlyr (may_fire l) (y_e_scan p m g s).
Proof. intros Hl. unfold y_e_scan. cbv zeta. solve_onlyr ltac:(apply Hl; in_leaf). Qed.
Lemma y_e_live_open l m g s : (forall r, In r open_rules_req -> In r l) -> onlyr (may_fire l) (y_e_live p m g s).
Proof. intros Hl. unfold y_e_live. solve_onlyr ltac:(apply Hl; in_leaf). Qed.

Lemma JA_init n f0 apps : fdl_new p = Ok f0 -> length apps = n -> JA n f0 apps [] 0 (mon_reset (view_of f0) 0) mon2_reset.
Proof.
  intros E Hn. destruct (fdl_new_fields _ _ E) as (S1 & _ & L1 & _).
  split; [split; [split; [apply J5_init; assumption|intros _; reflexivity]|]|split; [|split; [|split; [|split]]]].
  - split; [|intros a C; discriminate C]. intros a Haw. exfalso. rewrite S1 in Haw. destruct Haw as [C|C]; discriminate C.
  - destruct (J1_init A p Hbv _ _ _ E Hn) as (_ & HT). exact HT.
  - intros l El. rewrite L1 in El. discriminate El.
  - split; intros; rewrite S1 in *; discriminate.
  - intros sr nps cc Es. rewrite S1 in Es. discriminate Es.
  - intros src Hm. rewrite S1 in Hm. discriminate Hm.
Qed.

Lemma JA_api n a f apps buf tl m g f' :
  JA n f apps buf tl m g -> api_result p a f = Ok f' ->
  JA n f' apps buf tl (fst (mon_after_api a (view_of f') m g)) (snd (mon_after_api a (view_of f') m g)).
Proof.
  intros ((((HB & c & HV) & HG) & HX) & HT & HU & HP & HC & HR) E. split; [split; [split|]|split; [|split; [|split; [|split]]]].
  - split; [eapply base_api; eassumption|]. eapply vi_api; eassumption.
  - intros Hor. destruct a; cbn [mon_after_api fst]; try reflexivity.
    + unfold api_result, set_online, set_state in E. cbn in E. injection E as <-. exact (HG Hor).
    + discriminate E.
  - eapply gx_api; eassumption.
  - eapply ti_api; eassumption.
  - eapply ub_api; eassumption.
  - eapply ps_api; eassumption.
  - eapply cd_api; eassumption.
  - eapply rq_api; eassumption.
Qed.

(* one poll: every treated rule group is silent; what is left *)
Lemma JA_poll n f apps buf tl m g now busy nb f' o apps' calls :
  length apps = n ->
  JA n f apps buf tl m g -> tl < now -> time_ok now -> all_bytes nb ->
  poll ops f now (mkPhyIn busy (buf ++ nb)) apps = Ok (f', o, apps', calls) ->
  let s := poll_event now busy (buf ++ nb) f' o calls in
  snd (mon_poll p n m s) = x_e12b p m s /\
  snd (mon_poll2 p n m g s) = y_e_sweep p m g s ++ y_e_scan p m g s ++ y_e_live p m g s /\
  JA n f' apps' (rx_left o) now (fst (mon_poll p n m s)) (fst (mon_poll2 p n m g s)) /\
  Base A p n f apps buf tl m /\ RQ f m.
Proof.
  intros Hlen (((HJ & HG) & HX) & HT & HU & HP & HC & HR) Hlt Hnow Hnb E s. subst n.
  pose proof HJ as (HB & c & HV). assert (Hle : tl <= now) by lia.
  destruct (J5_poll A ops p (length apps) Happs Hbv Hdata _ _ _ _ _ _ _ _ _ _ _ _ _ HJ Hlt Hnow Hnb E)
    as ((c' & Hf & H15 & H13 & Hrr & Hend & HV') & HB').
  destruct (gx_poll A ops p (length apps) Hdata _ _ _ _ _ _ _ _ _ _ _ _ _ HB HX E) as (Hfound & Htok & HX').
  pose proof (c01_ok A ops p (length apps) Hbv _ _ _ _ _ _ _ _ _ _ _ _ HB HT Hle Hnow Hnb E) as H01.
  pose proof (c06_ok A ops p (length apps) Hbv _ _ _ _ _ _ _ _ _ _ _ _ HB HT Hle Hnow Hnb E) as H06.
  pose proof (backoff_ok A ops p (length apps) _ _ _ _ _ _ _ _ _ _ _ _ _ _ HB HV HX HU Hlt E) as Hbo.
  pose proof (e11b_ok A ops p (length apps) Hbv _ _ _ _ _ _ _ _ _ _ _ _ HB HP E H01) as H11b.
  pose proof (e11a_ok A ops p (length apps) _ _ _ _ _ _ _ _ _ _ _ _ HB HC E) as H11a.
  pose proof (e11c_ok A ops p (length apps) _ _ _ _ _ _ _ _ _ _ _ _ HB HC E) as H11c.
  assert (H12a : x_e12a p m s = []) by (eapply e12a_ok; eassumption).
  fold s in H01, H06, Hbo, H11b, H11a, H11c, Hf, H15, H13, Hrr, Hend, Hfound, Htok.
  split; [|split; [|split; [|split; [exact HB|exact HR]]]].
  - rewrite mon_poll_eq. cbn [snd]. rewrite H01, H06, H11a, H11c, H11b, H12a, Hf, H15. cbn [app]. apply app_nil_r.
  - rewrite mon_poll2_eq. cbn [snd]. rewrite Hfound, Htok, H13, Hrr, Hend, Hbo. cbn [app]. rewrite app_nil_r. reflexivity.
  - split; [split; [split|]|split; [|split; [|split; [|split]]]].
    + split; [exact HB'|exists c'; rewrite fst_mon_poll, mon_poll2_eq; exact HV'].
    + rewrite fst_mon_poll. eapply gp_poll; eassumption.
    + rewrite mon_poll2_eq. cbn [fst]. exact HX'.
    + eapply ti_poll; eassumption.
    + rewrite mon_poll2_eq. cbn [fst]. eapply ub_poll; eassumption.
    + rewrite fst_mon_poll. eapply ps_poll; eassumption.
    + rewrite fst_mon_poll. eapply cd_poll; eassumption.
    + rewrite fst_mon_poll. eapply rq_poll; eassumption.
Qed.

Theorem fdl_oracle_sound (apps : list A) (ins : list minput) :
  ins_ok 0 ins ->
  forall k r, In (k, r) (monitor p (length apps) (model_transcript A ops p apps ins)) -> In r open_rules.
Proof.
  intros Hok.
  apply (generic_sound_transcript A ops p (length apps) (may_fire open_rules) (JA (length apps)) (fun _ => True)); try assumption; try reflexivity.
  - in_leaf.
  - intros a f apps0 buf tl m g f' HJ E _. exact (JA_api _ _ _ _ _ _ _ _ _ HJ E).
  - intros f apps0 buf tl m g now busy nb f' o apps' calls HJ Hlt Hnow Hnb E _.
    assert (Hlen : length apps0 = length apps) by (destruct HJ as ((((HB & _) & _) & _) & _); exact (b_n _ _ _ _ _ _ _ _ HB)).
    destruct (JA_poll _ _ _ _ _ _ _ _ _ _ _ _ _ _ Hlen HJ Hlt Hnow Hnb E) as (H1 & H2 & HJ' & _).
    split; [|split; [|exact HJ']].
    + rewrite H1. apply x_e12b_open.
    + rewrite H2. assert (Hsub : forall r, In r open_rules_req -> In r open_rules) by (intros r Hr; unfold open_rules; apply in_or_app; right; exact Hr).
      apply onlyr_app; [apply y_e_sweep_open; exact Hsub|]. apply onlyr_app; [apply y_e_scan_open; exact Hsub|apply y_e_live_open; exact Hsub].
  - intros f0 apps0 E Hn _. exact (JA_init _ _ _ E Hn).
  - apply transcript_ok_true.
Qed.

Theorem fdl_oracle_sound_req (apps : list A) (ins : list minput) :
  app_sends_requests A ops -> ins_ok 0 ins ->
  forall k r, In (k, r) (monitor p (length apps) (model_transcript A ops p apps ins)) -> In r open_rules_req.
Proof.
  intros Hreq Hok.
  apply (generic_sound_transcript A ops p (length apps) (may_fire open_rules_req) (JA (length apps)) (fun _ => True)); try assumption; try reflexivity.
  - in_leaf.
  - intros a f apps0 buf tl m g f' HJ E _. exact (JA_api _ _ _ _ _ _ _ _ _ HJ E).
  - intros f apps0 buf tl m g now busy nb f' o apps' calls HJ Hlt Hnow Hnb E _.
    assert (Hlen : length apps0 = length apps) by (destruct HJ as ((((HB & _) & _) & _) & _); exact (b_n _ _ _ _ _ _ _ _ HB)).
    destruct (JA_poll _ _ _ _ _ _ _ _ _ _ _ _ _ _ Hlen HJ Hlt Hnow Hnb E) as (H1 & H2 & HJ' & HB & HR).
    split; [|split; [|exact HJ']].
    + rewrite H1. rewrite (e12b_ok A ops p (length apps) Hdata Hreq _ _ _ _ _ _ _ _ _ _ _ _ HB HR E). intros r [].
    + rewrite H2. apply onlyr_app; [apply y_e_sweep_open; auto|]. apply onlyr_app; [apply y_e_scan_open; auto|apply y_e_live_open; auto].
  - intros f0 apps0 E Hn _. exact (JA_init _ _ _ E Hn).
  - apply transcript_ok_true.
Qed.

(* per property: what is left *)
Corollary c06_oracle_sound (apps : list A) (ins : list minput) :
  ins_ok 0 ins ->
  forall k r, In (k, r) (monitor p (length apps) (model_transcript A ops p apps ins)) -> rule_prop r <> PC06.
Proof.
  intros Hok k r Hin. pose proof (fdl_oracle_sound _ _ Hok _ _ Hin) as H. unfold open_rules, open_rules_req in H. cbn in H.
  repeat (destruct H as [<-|H]; [discriminate|]). contradiction.
Qed.

Corollary c11_open (apps : list A) (ins : list minput) :
  ins_ok 0 ins ->
  forall k r, In (k, r) (monitor p (length apps) (model_transcript A ops p apps ins)) -> rule_prop r = PC11 ->
  r = R11_supervision_never_ends.
Proof.
  intros Hok k r Hin Hp. pose proof (fdl_oracle_sound _ _ Hok _ _ Hin) as H. unfold open_rules, open_rules_req in H. cbn in H.
  repeat (destruct H as [<-|H]; [first [discriminate Hp | reflexivity]|]). contradiction.
Qed.

Corollary c12_open (apps : list A) (ins : list minput) :
  ins_ok 0 ins ->
  forall k r, In (k, r) (monitor p (length apps) (model_transcript A ops p apps ins)) -> rule_prop r = PC12 ->
  In r [R12_reply_without_request; R12_reply_untruthful; R12_reply_from_wrong_state;
        R12_sweep_bound; R12_post_claim_scan_incomplete; R12_gap_wait_never_ends].
Proof.
  intros Hok k r Hin Hp. pose proof (fdl_oracle_sound _ _ Hok _ _ Hin) as H. unfold open_rules, open_rules_req in H. cbn in H.
  repeat (destruct H as [<-|H]; [first [discriminate Hp | cbn; repeat (first [left; reflexivity | right])]|]). contradiction.
Qed.

Corollary c12_open_req (apps : list A) (ins : list minput) :
  app_sends_requests A ops -> ins_ok 0 ins ->
  forall k r, In (k, r) (monitor p (length apps) (model_transcript A ops p apps ins)) -> rule_prop r = PC12 ->
  In r [R12_sweep_bound; R12_post_claim_scan_incomplete; R12_gap_wait_never_ends].
Proof.
  intros Hreq Hok k r Hin Hp. pose proof (fdl_oracle_sound_req _ _ Hreq Hok _ _ Hin) as H. unfold open_rules_req in H. cbn in H.
  repeat (destruct H as [<-|H]; [first [discriminate Hp | cbn; repeat (first [left; reflexivity | right])]|]). contradiction.
Qed.

End Master.
