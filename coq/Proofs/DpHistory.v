(* Histories of ONE peripheral (shared by C08Proofs.v and C03Proofs.v).

   - `pcall`: the calls that reach a `Peripheral`: transmit_telegram (from DpMaster's slot loop),
     receive_reply, the time-out / abandoned request (nothing reaches the peripheral), and the user's
     request_diagnostics() / pi_q_mut() writes.  `p_step` / `p_run` apply them to the model of
     Peripheral.v and produce the WIRE TRACE `list wev` (what a bus analyser plus the event queue see).
   - `contract_p`: the FdlApplication contract projected to one peripheral: a reply or a time-out only
     while a request is outstanding, at most one of them per request (the request may also be dropped
     silently: token given up).
   - `ghost` / `gstep`: the monitor state, a function of the wire trace alone (it never looks at the
     peripheral): bring-up phase (strict and text version), last request, accepted flag, number of
     unanswered transmissions, outstanding flag.
   - `Inv`: the invariant relating the peripheral record to the ghost; `step_inv`: EVERY call from EVERY
     state satisfying Inv preserves it and the emitted event satisfies `ev_ok` (the per-event guarantee
     all history theorems are read from); `history_ok`: the lift by induction over the call list.

   The model is of the code after the fixes F6 (bit reset on retry exhaustion), F10 (in-flight latch),
   F16 (Prm_Req during data exchange restarts the bring-up), F17 (ValidateConfig keeps the retry counter
   on a reply that is no diagnostics reply) and F18 (bit reset after an unanswered probe of an offline
   peripheral). *)
From PB Require Import Peripheral DpOracle DpStepProofs.

(* ------------------------------------------------------------------ calls, events, runs *)

Inductive pcall : Set :=
| PcTransmit (op : opstate)     (* Peripheral::transmit_telegram in operating state op *)
| PcReply (t : telegram)        (* Peripheral::receive_reply *)
| PcTimeout                     (* handle_timeout / request abandoned by the FDL: nothing reaches the peripheral *)
| PcReqDiag                     (* request_diagnostics() *)
| PcWriteQ (q : bytes).         (* pi_q_mut().copy_from_slice(q) *)

Inductive wev : Set :=
| WReq (h : header) (pdu : bytes)            (* a request to the peripheral went on the wire *)
| WIdle                                      (* transmit_telegram: nothing to send in this turn, no event *)
| WEvent (ev : pevent)                       (* transmit_telegram: nothing sent, event raised *)
| WReply (t : telegram) (ev : option pevent) (* a reply was delivered; the event it raised *)
| WTimeout                                   (* the outstanding request got no (admissible) reply *)
| WUser.                                     (* a user call: nothing on the wire *)

(* what a call of transmit_telegram shows on the wire / in the event queue *)
Definition wev_of_ptx (r : ptx) : wev :=
  match r with
  | PtxSend h pdu => WReq h pdu
  | PtxSkip None => WIdle
  | PtxSkip (Some ev) => WEvent ev
  end.

Definition p_step (pa : params) (p : periph) (c : pcall) : res (periph * wev) :=
  match c with
  | PcTransmit op => let* (p1, r) := p_transmit pa op p in Ok (p1, wev_of_ptx r)
  | PcReply t => let* (p1, ev) := p_receive_reply p t in Ok (p1, WReply t ev)
  | PcTimeout => Ok (p, WTimeout)
  | PcReqDiag => Ok (p_request_diagnostics p, WUser)
  | PcWriteQ q => let* d := copy_from_slice (pe_pi_q p) q in Ok (set_pi_q p d, WUser)
  end.

(* the run: final peripheral and the wire trace in chronological order *)
Fixpoint p_run (pa : params) (p : periph) (cs : list pcall) : res (periph * list wev) :=
  match cs with
  | [] => Ok (p, [])
  | c :: r =>
      let* (p1, e) := p_step pa p c in
      let* (p2, tr) := p_run pa p1 r in
      Ok (p2, e :: tr)
  end.

(* the contract, on the trace: `out` = a request is outstanding *)
Fixpoint contract_p (out : bool) (tr : list wev) : bool :=
  match tr with
  | [] => true
  | WReq _ _ :: r => contract_p true r
  | WIdle :: r => contract_p false r
  | WEvent _ :: r => contract_p false r
  | WReply _ _ :: r => out && contract_p false r
  | WTimeout :: r => out && contract_p false r
  | WUser :: r => contract_p out r
  end.

(* ------------------------------------------------------------------ the monitor state (ghost) *)

(* Prm_Fault (0x40 of station status 1) or Cfg_Fault (0x04) *)
Definition diag_fault (f : Z) : bool := has_flag f 64 || has_flag f 4.

Definition resp_is_rs (h : header) : bool :=
  match h_fc h with FcResponse _ StSapNotEnabled => true | _ => false end.

(* STRICT bring-up monitor, wire only.  sv = service of the request the accepted reply t answers.
   NeedDiag -> DiagAnswered -> PrmAcked -> CfgAcked -> Ready;  in CfgAcked a diagnostics reply with a
   parameter / configuration fault means "considered offline" (NeedDiag); a diagnostics reply carrying
   Prm_Req (0x100) restarts at DiagAnswered from every phase (F16: also from Ready); a Data_Exchange reply
   "service not activated" (RS) sends Ready back to CfgAcked (readiness must be confirmed again). *)
Definition next_phase (ph : phase) (sv : service) (t : telegram) : phase :=
  match sv, t with
  | SvDiag, TData _ pdu =>
      let f := diag_flags pdu in
      match ph with
      | PhNeedDiag => PhDiagAnswered
      | PhCfgAcked =>
          if diag_fault f then PhNeedDiag
          else if has_flag f 256 then PhDiagAnswered
          else if has_flag f 2 then PhCfgAcked
          else PhReady
      | _ => if has_flag f 256 then PhDiagAnswered else ph
      end
  | SvPrm, TShortConf => if phase_eqb ph PhDiagAnswered then PhPrmAcked else ph
  | SvCfg, TShortConf => if phase_eqb ph PhPrmAcked then PhCfgAcked else ph
  | SvDx, TData h _ => if phase_eqb ph PhReady && resp_is_rs h then PhCfgAcked else ph
  | _, _ => ph
  end.

(* TEXT bring-up monitor: the wire part of DpOracle.c03_step, transition for transition ... *)
Definition text_phase (ph : phase) (sv : service) (t : telegram) : phase :=
  match sv, t with
  | SvDiag, TData _ pdu =>
      let f := diag_flags pdu in
      if has_flag f 256 then PhDiagAnswered
      else match ph with
           | PhNeedDiag => PhDiagAnswered
           | PhCfgAcked => if has_flag f 64 || has_flag f 4 || has_flag f 2 then PhCfgAcked else PhReady
           | _ => ph
           end
  | SvPrm, _ => if phase_eqb ph PhDiagAnswered then PhPrmAcked else ph
  | SvCfg, _ => if phase_eqb ph PhPrmAcked then PhCfgAcked else ph
  | _, _ => ph
  end.
(* ... and its event part: the master considers the peripheral offline *)
Definition offline_event (ev : option pevent) : bool :=
  match ev with
  | Some EvOffline | Some EvParameterError | Some EvConfigError => true
  | _ => false
  end.

Record ghost : Set := mkGhost {
  gh_phase : phase;            (* strict bring-up monitor *)
  gh_text : phase;             (* text bring-up monitor (DpOracle.c03_step) *)
  gh_last : option header;     (* the last request since start / since the last Offline event *)
  gh_acc : bool;               (* that request has been answered by an accepted reply *)
  gh_unans : Z;                (* transmissions since the last accepted reply, idle turn or Offline event *)
  gh_out : bool }.             (* a request is outstanding *)

Definition ghost0 : ghost := mkGhost PhNeedDiag PhNeedDiag None false 0 false.

Definition gstep (g : ghost) (e : wev) : ghost :=
  match e with
  | WReq h _ => mkGhost (gh_phase g) (gh_text g) (Some h) false (gh_unans g + 1) true
  | WIdle => mkGhost (gh_phase g) (gh_text g) (gh_last g) (gh_acc g) 0 false
  | WEvent EvOffline => mkGhost PhNeedDiag PhNeedDiag None false 0 false
  | WEvent ev =>                                                                   (* does not occur: ev_ok *)
      mkGhost (gh_phase g) (if offline_event (Some ev) then PhNeedDiag else gh_text g) (gh_last g) (gh_acc g) 0 false
  | WReply t ev =>
      let sv := match gh_last g with Some h => classify h | None => SvOther end in
      let acc := reply_accepted sv t in        (* the standard's view; SvOther accepts nothing *)
      let tx := if acc then text_phase (gh_text g) sv t else gh_text g in
      let tx' := if offline_event ev then PhNeedDiag else tx in
      if acc then mkGhost (next_phase (gh_phase g) sv t) tx' (gh_last g) true 0 false
      else mkGhost (gh_phase g) tx' (gh_last g) (gh_acc g) (gh_unans g) false
  | WTimeout => mkGhost (gh_phase g) (gh_text g) (gh_last g) (gh_acc g) (gh_unans g) false
  | WUser => g
  end.

Definition ghost_of (tr : list wev) : ghost := fold_left gstep tr ghost0.

(* the histories of the theorems: any call sequence on a freshly constructed peripheral (any address, options,
   image sizes, diagnostics buffer) whose run does not panic and whose trace respects the contract *)
Definition history (pa : params) (a : Z) (o : poptions) (tr : list wev) : Prop :=
  exists i q d cs p', p_run pa (periph_new a o i q d) cs = Ok (p', tr) /\ contract_p false tr = true.

(* ------------------------------------------------------------------ the per-event guarantee *)

(* the requests of the standard, with literal SAP numbers: Slave_Diag 60, Set_Prm 61, Chk_Cfg 62 from the
   master's SAP 62; Data_Exchange on the default SAP; frame count bit f *)
Definition std_request (pa : params) (a : Z) (o : poptions) (f : fcbit) (sv : service) (h : header) (pdu : bytes)
  : Prop :=
  match sv with
  | SvDiag => h = mkHeader a (p_address pa) (Some 60) (Some 62) (FcRequest f RqSrdLow) /\ pdu = []
  | SvPrm => exists user, o_user_prm o = Some user /\
             h = mkHeader a (p_address pa) (Some 61) (Some 62) (FcRequest f RqSrdLow) /\
             pdu = std_set_prm pa o user
  | SvCfg => exists cfg, o_config o = Some cfg /\
             h = mkHeader a (p_address pa) (Some 62) (Some 62) (FcRequest f RqSrdLow) /\ pdu = cfg
  | SvDx => h = mkHeader a (p_address pa) None None (FcRequest f RqSrdHigh)
  | _ => False
  end.

(* the service the strict monitor's phase calls for *)
Definition phase_service_ok (ph : phase) (sv : service) : Prop :=
  match sv with
  | SvDiag => ph = PhNeedDiag \/ ph = PhCfgAcked \/ ph = PhReady
  | SvPrm => ph = PhDiagAnswered
  | SvCfg => ph = PhPrmAcked
  | SvDx => ph = PhReady
  | _ => False
  end.

Definition req_ok (pa : params) (a : Z) (o : poptions) (g : ghost) (h : header) (pdu : bytes) : Prop :=
  exists f,
    std_request pa a o f (classify h) h pdu /\ f <> FcbInactive /\
    (* C08: first / toggle / retransmission *)
    (gh_last g = None -> f = FcbFirst) /\
    (forall h0, gh_last g = Some h0 ->
       exists f0 rq0, h_fc h0 = FcRequest f0 rq0 /\
         if gh_acc g
         then fcbit_fcv f = true /\ fcbit_fcb f = negb (fcbit_fcb f0)
         else classify h = classify h0 /\ h_da h = h_da h0 /\
              (h_fc h = h_fc h0 \/ (gh_phase g = PhNeedDiag /\ f = FcbFirst))) /\
    (* C08: probes of a peripheral that is not live: Slave_Diag only, never retransmitted in the same turn *)
    (gh_phase g = PhNeedDiag -> classify h = SvDiag /\ gh_unans g = 0) /\
    (* C08: retry bound *)
    gh_unans g <= p_max_retry pa /\
    (* C03: order *)
    phase_service_ok (gh_phase g) (classify h) /\
    (classify h = SvDx -> gh_text g = PhReady).

Definition ev_ok (pa : params) (a : Z) (o : poptions) (g : ghost) (e : wev) : Prop :=
  match e with
  | WReq h pdu => req_ok pa a o g h pdu
  | WIdle => gh_unans g <= p_max_retry pa
  | WEvent ev => ev = EvOffline /\ gh_phase g <> PhNeedDiag /\ gh_unans g = p_max_retry pa + 1
  | _ => True
  end.

(* ------------------------------------------------------------------ the invariant *)

Definition state_phase (s : pstate) : phase :=
  match s with
  | PsOffline => PhNeedDiag
  | PsWaitForParam => PhDiagAnswered
  | PsWaitForConfig => PhPrmAcked
  | PsValidateConfig => PhCfgAcked
  | PsPreDataExchange | PsDataExchange => PhReady
  end.

(* the service of the request transmit_telegram sends / receive_reply expects in this state *)
Definition state_service (p : periph) : service :=
  match pe_state p with
  | PsOffline | PsValidateConfig => SvDiag
  | PsWaitForParam => SvPrm
  | PsWaitForConfig => SvCfg
  | PsPreDataExchange | PsDataExchange => if pe_diag_in_flight p then SvDiag else SvDx
  end.

(* SRD high for Data_Exchange, SRD low for the others *)
Definition sv_req (sv : service) : req_type := match sv with SvDx => RqSrdHigh | _ => RqSrdLow end.

(* states in which transmit_telegram has nothing to send: the user gave no parameters / configuration (O7) *)
Definition idle_state (p : periph) : Prop :=
  match pe_state p with
  | PsWaitForParam => o_user_prm (pe_opts p) = None
  | PsWaitForConfig => o_config (pe_opts p) = None
  | _ => False
  end.

Record Inv (pa : params) (a : Z) (o : poptions) (p : periph) (g : ghost) : Prop := mkInv {
  inv_addr : pe_addr p = a;
  inv_opts : pe_opts p = o;
  inv_phase : gh_phase g = state_phase (pe_state p);
  inv_text : gh_text g = gh_phase g \/ (gh_phase g = PhCfgAcked /\ gh_text g = PhReady);
  inv_retry : pe_retry p = gh_unans g;
  inv_bound : 0 <= gh_unans g <= p_max_retry pa + 1;
  inv_probe : pe_state p = PsOffline -> gh_unans g <= 1;
  inv_active : pe_fcb p <> FcbInactive;
  inv_fcb : match gh_last g with
            | None => pe_fcb p = FcbFirst
            | Some h => exists f, h_fc h = FcRequest f (sv_req (classify h)) /\ h_da h = a /\
                 if gh_acc g then fcbit_cycle f = Some (pe_fcb p)
                 else pe_fcb p = f \/ (pe_state p = PsOffline /\ pe_fcb p = FcbFirst /\ gh_unans g = 0)
            end;
  inv_unacc : forall h, gh_last g = Some h -> gh_acc g = false ->
              classify h = state_service p /\ (0 < gh_unans g \/ pe_state p = PsOffline);
  inv_pending : 0 < gh_unans g -> exists h, gh_last g = Some h /\ gh_acc g = false;
  inv_idle : idle_state p -> gh_unans g = 0;
  inv_out : gh_out g = true -> 0 < gh_unans g }.

Lemma inv_init : forall pa a o i q d, 0 <= p_max_retry pa -> Inv pa a o (periph_new a o i q d) ghost0.
Proof.
  intros. constructor; cbn; try reflexivity; try lia; try discriminate; auto; intros; try lia; try discriminate;
    try contradiction.
Qed.

(* ------------------------------------------------------------------ flag arithmetic *)

Lemma land_pow2 : forall x k, 0 <= k -> Z.land x (2 ^ k) = if Z.testbit x k then 2 ^ k else 0.
Proof.
  intros x k Hk. apply Z.bits_inj'. intros n Hn.
  rewrite Z.land_spec, Z.pow2_bits_eqb by assumption.
  destruct (Z.eqb_spec k n) as [->|Hne].
  - destruct (Z.testbit x n); [rewrite Z.pow2_bits_eqb, Z.eqb_refl by assumption; reflexivity|].
    rewrite Z.bits_0. reflexivity.
  - rewrite andb_false_r. destruct (Z.testbit x k); [|rewrite Z.bits_0; reflexivity].
    rewrite Z.pow2_bits_eqb by assumption. symmetry. apply Z.eqb_neq. exact Hne.
Qed.

Lemma pow2_nonzero : forall k, 0 <= k -> 2 ^ k <> 0.
Proof. intros k Hk. pose proof (Z.pow_pos_nonneg 2 k ltac:(lia) Hk). lia. Qed.

(* the code's test on the stored flags (PERMANENT bit 0x400 removed) = the wire test, for every other bit *)
Lemma contains_remove_pow2 : forall x k, 0 <= k -> k <> 10 ->
  flags_contains (flags_remove x DF_PERMANENT_BIT) (2 ^ k) = has_flag x (2 ^ k).
Proof.
  intros x k Hk Hne. unfold flags_contains, flags_remove, has_flag.
  rewrite !land_pow2 by assumption.
  rewrite Z.ldiff_spec. change DF_PERMANENT_BIT with (2 ^ 10).
  rewrite Z.pow2_bits_eqb by lia.
  replace (10 =? k) with false by (symmetry; apply Z.eqb_neq; lia).
  cbn [negb]. rewrite andb_true_r.
  pose proof (pow2_nonzero k Hk) as Hz.
  destruct (Z.testbit x k).
  - rewrite Z.eqb_refl. symmetry. apply negb_true_iff. apply Z.eqb_neq. exact Hz.
  - replace (0 =? 2 ^ k) with false by (symmetry; apply Z.eqb_neq; lia). reflexivity.
Qed.

Lemma contains_remove : forall x,
  flags_contains (flags_remove x DF_PERMANENT_BIT) DF_PARAMETER_FAULT = has_flag x 64 /\
  flags_contains (flags_remove x DF_PERMANENT_BIT) DF_CONFIGURATION_FAULT = has_flag x 4 /\
  flags_contains (flags_remove x DF_PERMANENT_BIT) DF_PARAMETER_REQUIRED = has_flag x 256 /\
  flags_contains (flags_remove x DF_PERMANENT_BIT) DF_STATION_NOT_READY = has_flag x 2.
Proof.
  intro x. repeat split.
  - exact (contains_remove_pow2 x 6 ltac:(lia) ltac:(lia)).
  - exact (contains_remove_pow2 x 2 ltac:(lia) ltac:(lia)).
  - exact (contains_remove_pow2 x 8 ltac:(lia) ltac:(lia)).
  - exact (contains_remove_pow2 x 1 ltac:(lia) ltac:(lia)).
Qed.

(* ------------------------------------------------------------------ what the model's calls do *)

Ltac crunch H :=
  repeat (match type of H with
          | context [match ?x with _ => _ end] => destruct x eqn:?; try discriminate
          end).

Lemma set_prm_std : forall pa o user, set_prm_pdu pa o user = std_set_prm pa o user.
Proof.
  intros. unfold set_prm_pdu, std_set_prm.
  destruct (o_sync o); destruct (o_freeze o); destruct (p_watchdog pa) as [[f1 f2]|]; reflexivity.
Qed.

Lemma std_request_classify : forall pa a o f sv h pdu,
  std_request pa a o f sv h pdu ->
  classify h = sv /\ h_da h = a /\ h_sa h = p_address pa /\ h_fc h = FcRequest f (sv_req sv).
Proof.
  intros pa a o f sv h pdu H. destruct sv; cbn in H; try contradiction.
  - destruct H as [-> _]. cbn. repeat split; eauto.
  - destruct H as (u & _ & -> & _). cbn. repeat split; eauto.
  - destruct H as (u & _ & -> & _). cbn. repeat split; eauto.
  - subst h. cbn. repeat split; eauto.
Qed.

(* handle_diagnostics_response accepts exactly the replies the standard's view accepts for Slave_Diag:
   DSAP 62, SSAP 60, at least 6 bytes; then it cycles the bit and stores flags = wire flags without 0x400 *)
Lemma handle_diag_facts : forall p t p1 d,
  p_handle_diag p t = Ok (p1, d) ->
  pe_addr p1 = pe_addr p /\ pe_state p1 = pe_state p /\ pe_retry p1 = pe_retry p /\
  pe_diag_in_flight p1 = pe_diag_in_flight p /\ pe_opts p1 = pe_opts p /\
  match d with
  | None => reply_accepted SvDiag t = false /\ pe_fcb p1 = pe_fcb p
  | Some di => reply_accepted SvDiag t = true /\ fcbit_cycle (pe_fcb p) = Some (pe_fcb p1) /\
               exists h pdu, t = TData h pdu /\ d_flags di = flags_remove (diag_flags pdu) DF_PERMANENT_BIT
  end.
Proof.
  intros p t p1 d H.
  destruct (handle_diag_frame _ _ _ _ H) as (Ha & Hs & Hr & _ & _ & _ & Hfl & Ho & Hn & Hc).
  repeat (split; [assumption|]).
  unfold p_handle_diag in H.
  destruct t as [h pdu| |]; try (inversion H; subst; split; reflexivity).
  cbn [reply_accepted].
  change dp_diag_reply_dsap with (Some 62) in H. change dp_diag_reply_ssap with (Some 60) in H.
  change dp_diag_min_len with 6%nat in H.
  destruct (opt_eqb (h_dsap h) (Some 62)); cbn [negb andb] in H |- *; [|inversion H; subst; split; reflexivity].
  destruct (opt_eqb (h_ssap h) (Some 60)); cbn [negb andb] in H |- *; [|inversion H; subst; split; reflexivity].
  destruct (Nat.ltb_spec (length pdu) 6) as [Hlt|Hge].
  { inversion H; subst. split; [|reflexivity]. apply Nat.leb_gt. exact Hlt. }
  assert (Hle : Nat.leb 6 (length pdu) = true) by (apply Nat.leb_le; exact Hge).
  rewrite Hle.
  unfold bind, get in H.
  destruct pdu as [|b0 [|b1 pdu']]; try (cbn in Hge; lia).
  cbn [nth_error] in H.
  crunch H; inversion H; subst; (split; [reflexivity|]);
    (split; [apply Hc; discriminate|]); exists h; eexists; (split; [reflexivity|]); reflexivity.
Qed.

Lemma exhausted_false : forall r m, dp_retry_exhausted r m = false -> r <= m.
Proof. intros r m H. unfold dp_retry_exhausted in H. apply Z.ltb_ge in H. exact H. Qed.
Lemma exhausted_true : forall r m, dp_retry_exhausted r m = true -> m < r.
Proof. intros r m H. unfold dp_retry_exhausted in H. apply Z.ltb_lt in H. exact H. Qed.

Ltac tfin :=
  repeat split; auto; try discriminate; try lia; try (intro; lia);
  try solve [left; split; [unfold idle_state;
                           match goal with Hs : pe_state _ = _ |- _ => rewrite Hs end; assumption|reflexivity]];
  try solve [right; repeat split; auto].

(* Peripheral::transmit_telegram *)
Lemma transmit_facts : forall pa op p p' r,
  p_transmit pa op p = Ok (p', r) ->
  pe_addr p' = pe_addr p /\ pe_opts p' = pe_opts p /\
  match r with
  | PtxSend h pdu =>
      pe_retry p <= p_max_retry pa /\ pe_state p' = pe_state p /\ pe_fcb p' = pe_fcb p /\
      pe_retry p' = pe_retry p + 1 /\ (pe_state p = PsOffline -> pe_retry p = 0) /\
      (pe_retry p <> 0 -> state_service p' = state_service p) /\
      std_request pa (pe_addr p) (pe_opts p) (pe_fcb p) (state_service p') h pdu
  | PtxSkip (Some ev) =>
      ev = EvOffline /\ p_max_retry pa < pe_retry p /\ pe_fcb p' = FcbFirst /\ pe_state p' = PsOffline /\
      pe_retry p' = 0
  | PtxSkip None =>
      pe_retry p <= p_max_retry pa /\ pe_retry p' = 0 /\ pe_state p' = pe_state p /\
      pe_diag_in_flight p' = pe_diag_in_flight p /\
      ((idle_state p /\ pe_fcb p' = pe_fcb p) \/
       (pe_state p = PsOffline /\ pe_retry p <> 0 /\ pe_fcb p' = FcbFirst))
  end.
Proof.
  intros pa op p p' r H. unfold p_transmit in H.
  destruct (opstate_eqb op OpStop); [discriminate|].
  unfold p_transmit_select in H.
  destruct (dp_retry_exhausted (pe_retry p) (p_max_retry pa)) eqn:Hex.
  { inversion H; subst. cbn. apply exhausted_true in Hex. repeat split; auto. }
  apply exhausted_false in Hex.
  unfold state_service.
  destruct (pe_state p) eqn:Hst.
  - (* Offline *)
    change dp_offline_probe_retry with 0 in H.
    destruct (Z.eqb_spec (pe_retry p) 0) as [Hz|Hnz].
    + unfold diag_request in H. destruct (255 <=? pe_retry p); [discriminate|]. inversion H; subst; cbn.
      rewrite Hst. tfin.
    + inversion H; subst; cbn. tfin.
  - destruct (o_user_prm (pe_opts p)) as [user|] eqn:Hu.
    + unfold prm_request in H. rewrite set_prm_std in H.
      destruct (255 <=? pe_retry p); [discriminate|]. inversion H; subst; cbn.
      rewrite Hst. tfin. exists user. tfin.
    + inversion H; subst; cbn. tfin.
  - destruct (o_config (pe_opts p)) as [cfg|] eqn:Hu.
    + unfold cfg_request in H. destruct (255 <=? pe_retry p); [discriminate|]. inversion H; subst; cbn.
      rewrite Hst. tfin. exists cfg. tfin.
    + inversion H; subst; cbn. tfin.
  - unfold diag_request in H. destruct (255 <=? pe_retry p); [discriminate|]. inversion H; subst; cbn.
    rewrite Hst. repeat split; auto; try discriminate.
  - destruct (Z.eqb_spec (pe_retry p) 0) as [Hz|Hnz];
    match type of H with context [if pe_diag_in_flight ?q then _ else _] => destruct (pe_diag_in_flight q) eqn:Hfl end;
    unfold diag_request, dx_request in H; cbn [pe_retry set_diag_in_flight pe_addr pe_fcb] in H;
    (destruct (255 <=? pe_retry p); [discriminate|]); inversion H; subst; cbn in Hfl |- *;
    rewrite Hst; rewrite ?Hfl; repeat split; auto; try discriminate; try (intro; lia).
  - destruct (Z.eqb_spec (pe_retry p) 0) as [Hz|Hnz];
    match type of H with context [if pe_diag_in_flight ?q then _ else _] => destruct (pe_diag_in_flight q) eqn:Hfl end;
    unfold diag_request, dx_request in H; cbn [pe_retry set_diag_in_flight pe_addr pe_fcb] in H;
    (destruct (255 <=? pe_retry p); [discriminate|]); inversion H; subst; cbn in Hfl |- *;
    rewrite Hst; rewrite ?Hfl; repeat split; auto; try discriminate; try (intro; lia).
Qed.

Lemma receive_dx_facts : forall p t p1 ev,
  p_receive_dx p t = Ok (p1, ev) ->
  state_phase (pe_state p) = PhReady ->
  pe_addr p1 = pe_addr p /\ pe_opts p1 = pe_opts p /\ pe_fcb p1 = pe_fcb p /\
  reply_accepted SvDx t = true /\ offline_event ev = false /\
  state_phase (pe_state p1) = next_phase PhReady SvDx t.
Proof.
  intros p t p1 ev H Hph. unfold p_receive_dx in H.
  destruct t as [h pdu| |].
  - cbn [reply_accepted next_phase phase_eqb andb]. unfold resp_is_rs.
    destruct (h_fc h) as [|st s] eqn:Hfc; [discriminate|].
    destruct s; cbn [fst snd] in H;
    repeat match type of H with
           | context [if ?c then _ else _] => destruct c eqn:?
           end;
    unfold copy_from_slice, bind in H;
    repeat match type of H with
           | context [if ?c then _ else _] => destruct c eqn:?
           end;
    try discriminate; inversion H; subst; cbn; repeat split; auto.
  - discriminate.
  - cbn [reply_accepted next_phase].
    destruct (negb (length (pe_pi_i p) =? 0)%nat); inversion H; subst; cbn; repeat split; auto.
Qed.

Lemma phase_eqb_refl : forall ph, phase_eqb ph ph = true.
Proof. destruct ph; reflexivity. Qed.

(* Peripheral::receive_reply: the reply is accepted exactly when the standard's view accepts it for the
   service of the state; accepted = bit cycled, counter cleared, phase advanced as the strict monitor says;
   rejected = nothing the monitors depend on changes *)
Lemma receive_facts : forall p t p' ev,
  p_receive_reply p t = Ok (p', ev) ->
  pe_addr p' = pe_addr p /\ pe_opts p' = pe_opts p /\
  if reply_accepted (state_service p) t
  then fcbit_cycle (pe_fcb p) = Some (pe_fcb p') /\ pe_retry p' = 0 /\
       state_phase (pe_state p') = next_phase (state_phase (pe_state p)) (state_service p) t /\
       offline_event ev =
         phase_eqb (state_phase (pe_state p)) PhCfgAcked && phase_eqb (state_phase (pe_state p')) PhNeedDiag
  else pe_fcb p' = pe_fcb p /\ pe_retry p' = pe_retry p /\ pe_state p' = pe_state p /\
       pe_diag_in_flight p' = pe_diag_in_flight p /\ offline_event ev = false.
Proof.
  intros p t p' ev H. unfold p_receive_reply in H. unfold state_service.
  destruct (pe_state p) eqn:Hst.
  - (* Offline *)
    unfold bind in H. destruct (p_handle_diag p t) as [[p1 d]| |] eqn:Hd; try discriminate.
    apply handle_diag_facts in Hd. destruct Hd as (Ha & Hs & Hr & Hfl & Ho & Hd).
    destruct d as [di|].
    + destruct Hd as (Hacc & Hc & h & pdu & -> & _). rewrite Hacc. inversion H; subst; cbn.
      repeat split; auto.
    + destruct Hd as (Hacc & Hf). rewrite Hacc. inversion H; subst. rewrite Hs, Hst. repeat split; auto.
  - (* WaitForParam *)
    destruct t as [h pdu| |]; cbn [is_sc reply_accepted] in H |- *.
    + inversion H; subst. repeat split; auto.
    + inversion H; subst. repeat split; auto.
    + unfold bind in H. destruct (fcb_cycle (pe_fcb p)) eqn:Hc; try discriminate.
      apply fcb_cycle_ok in Hc. inversion H; subst; cbn. repeat split; auto.
  - (* WaitForConfig *)
    destruct t as [h pdu| |]; cbn [is_sc reply_accepted] in H |- *.
    + inversion H; subst. repeat split; auto.
    + inversion H; subst. repeat split; auto.
    + unfold bind in H. destruct (fcb_cycle (pe_fcb p)) eqn:Hc; try discriminate.
      apply fcb_cycle_ok in Hc. inversion H; subst; cbn. repeat split; auto.
  - (* ValidateConfig *)
    unfold bind in H. destruct (p_handle_diag (set_retry p 0) t) as [[p1 d]| |] eqn:Hd; try discriminate.
    apply handle_diag_facts in Hd. destruct Hd as (Ha & Hs & Hr & Hfl & Ho & Hd).
    cbn [pe_addr pe_state pe_retry pe_diag_in_flight pe_opts pe_fcb set_retry] in Ha, Hs, Hr, Hfl, Ho, Hd.
    destruct d as [di|].
    + destruct Hd as (Hacc & Hc & h & pdu & -> & Hflags). rewrite Hacc.
      destruct (validate_outcome (d_flags di)) as [s e] eqn:Hv. inversion H; subst; cbn.
      unfold validate_outcome in Hv. rewrite Hflags in Hv.
      destruct (contains_remove (diag_flags pdu)) as (E1 & E2 & E3 & E4).
      rewrite E1, E2, E3, E4 in Hv. unfold diag_fault.
      destruct (has_flag (diag_flags pdu) 64); [inversion Hv; subst; repeat split; auto|].
      destruct (has_flag (diag_flags pdu) 4); [inversion Hv; subst; repeat split; auto|].
      destruct (has_flag (diag_flags pdu) 256); [inversion Hv; subst; repeat split; auto|].
      destruct (has_flag (diag_flags pdu) 2); inversion Hv; subst; repeat split; auto.
    + destruct Hd as (Hacc & Hf). rewrite Hacc. inversion H; subst; cbn. repeat split; auto.
  - (* PreDataExchange *)
    destruct (pe_diag_in_flight p) eqn:Hifl; unfold bind in H.
    + destruct (p_handle_diag p t) as [[p1 d]| |] eqn:Hd; try discriminate.
      apply handle_diag_facts in Hd. destruct Hd as (Ha & Hs & Hr & Hfl & Ho & Hd).
      destruct d as [di|].
      * destruct Hd as (Hacc & Hc & h & pdu & -> & Hflags). rewrite Hacc.
        rewrite Hflags in H. destruct (contains_remove (diag_flags pdu)) as (_ & _ & E3 & _). rewrite E3 in H.
        cbn [next_phase state_phase].
        destruct (has_flag (diag_flags pdu) 256); inversion H; subst; cbn; rewrite ?Hs, ?Hst; repeat split; auto.
      * destruct Hd as (Hacc & Hf). rewrite Hacc. inversion H; subst. rewrite Hs, Hst.
        repeat split; auto; congruence.
    + destruct (p_receive_dx p t) as [[p1 e1]| |] eqn:Hdx; try discriminate.
      apply receive_dx_facts in Hdx; [|rewrite Hst; reflexivity].
      destruct Hdx as (Ha & Ho & Hf & Hacc & He & Hph). rewrite Hacc.
      destruct (fcb_cycle (pe_fcb (set_retry p1 0))) eqn:Hc; try discriminate.
      apply fcb_cycle_ok in Hc. cbn in Hc. rewrite Hf in Hc.
      inversion H; subst; cbn. repeat split; auto.
  - (* DataExchange *)
    destruct (pe_diag_in_flight p) eqn:Hifl; unfold bind in H.
    + destruct (p_handle_diag p t) as [[p1 d]| |] eqn:Hd; try discriminate.
      apply handle_diag_facts in Hd. destruct Hd as (Ha & Hs & Hr & Hfl & Ho & Hd).
      destruct d as [di|].
      * destruct Hd as (Hacc & Hc & h & pdu & -> & Hflags). rewrite Hacc.
        rewrite Hflags in H. destruct (contains_remove (diag_flags pdu)) as (_ & _ & E3 & _). rewrite E3 in H.
        cbn [next_phase state_phase].
        destruct (has_flag (diag_flags pdu) 256); inversion H; subst; cbn; rewrite ?Hs, ?Hst; repeat split; auto.
      * destruct Hd as (Hacc & Hf). rewrite Hacc. inversion H; subst. rewrite Hs, Hst.
        repeat split; auto; congruence.
    + destruct (p_receive_dx p t) as [[p1 e1]| |] eqn:Hdx; try discriminate.
      apply receive_dx_facts in Hdx; [|rewrite Hst; reflexivity].
      destruct Hdx as (Ha & Ho & Hf & Hacc & He & Hph). rewrite Hacc.
      destruct (fcb_cycle (pe_fcb (set_retry p1 0))) eqn:Hc; try discriminate.
      apply fcb_cycle_ok in Hc. cbn in Hc. rewrite Hf in Hc.
      inversion H; subst; cbn. repeat split; auto.
Qed.

(* ------------------------------------------------------------------ pure facts about the monitors *)

Lemma cycle_active : forall f f', fcbit_cycle f = Some f' -> f' <> FcbInactive.
Proof. intros f f' H. destruct f; inversion H; discriminate. Qed.

Lemma state_service_ok : forall p, phase_service_ok (state_phase (pe_state p)) (state_service p).
Proof.
  intro p. unfold state_service. destruct (pe_state p); cbn; auto.
  - destruct (pe_diag_in_flight p); cbn; auto.
  - destruct (pe_diag_in_flight p); cbn; auto.
Qed.

Lemma need_diag_offline : forall s, state_phase s = PhNeedDiag -> s = PsOffline.
Proof. destruct s; cbn; intro H; try discriminate; reflexivity. Qed.

(* the text monitor (DpOracle.c03_step: wire part, then the master's fault events) follows the strict one:
   equal, or Ready while the strict one re-validates after a "service not activated" reply *)
Lemma text_follows : forall ph tx sv t ev,
  (tx = ph \/ (ph = PhCfgAcked /\ tx = PhReady)) ->
  reply_accepted sv t = true -> phase_service_ok ph sv ->
  offline_event ev = phase_eqb ph PhCfgAcked && phase_eqb (next_phase ph sv t) PhNeedDiag ->
  (if offline_event ev then PhNeedDiag else text_phase tx sv t) = next_phase ph sv t \/
  (next_phase ph sv t = PhCfgAcked /\ (if offline_event ev then PhNeedDiag else text_phase tx sv t) = PhReady).
Proof.
  intros ph tx sv t ev Hrel Hacc Hok Hev. rewrite Hev. clear Hev.
  destruct sv; cbn in Hok; try contradiction.
  - (* Diag *)
    destruct t as [h pdu| |]; try discriminate Hacc.
    cbn [next_phase text_phase]. unfold diag_fault.
    destruct Hok as [ -> | [ -> | -> ] ]; destruct Hrel as [ -> | [Hx -> ] ]; try discriminate Hx; cbn [phase_eqb andb];
      destruct (has_flag (diag_flags pdu) 64); destruct (has_flag (diag_flags pdu) 4);
      destruct (has_flag (diag_flags pdu) 256); destruct (has_flag (diag_flags pdu) 2); cbn; auto.
  - destruct t as [h pdu| |]; try discriminate Hacc. subst ph.
    destruct Hrel as [ -> | [Hx _] ]; [|discriminate Hx]. cbn. auto.
  - destruct t as [h pdu| |]; try discriminate Hacc. subst ph.
    destruct Hrel as [ -> | [Hx _] ]; [|discriminate Hx]. cbn. auto.
  - subst ph. destruct Hrel as [ -> | [Hx _] ]; [|discriminate Hx].
    destruct t as [h pdu| |]; try discriminate Hacc; cbn; auto.
    destruct (resp_is_rs h); cbn; auto.
Qed.

(* ------------------------------------------------------------------ the step lemma *)

Lemma step_inv : forall pa a o p g c p' e,
  1 <= p_max_retry pa ->
  Inv pa a o p g ->
  p_step pa p c = Ok (p', e) ->
  contract_p (gh_out g) [e] = true ->
  Inv pa a o p' (gstep g e) /\ ev_ok pa a o g e.
Proof.
  intros pa a o p g c p' e Hmax I H Hct.
  destruct I as [Iaddr Iopts Iphase Itext Iretry Ibound Iprobe Iactive Ifcb Iunacc Ipending Iidle Iout].
  destruct c as [op|t| | |q]; cbn [p_step] in H.
  - (* transmit_telegram *)
    unfold bind in H. destruct (p_transmit pa op p) as [[p1 r]| |] eqn:Ht; try discriminate.
    inversion H; subst p' e; clear H.
    destruct (transmit_facts _ _ _ _ _ Ht) as (Ha & Ho & F).
    destruct r as [h pdu|[ev|]]; cbn [wev_of_ptx] in *.
    + (* a request *)
      destruct F as (Hle & Hs & Hf & Hr & Hoff & Hsame & Hstd).
      destruct (std_request_classify _ _ _ _ _ _ _ Hstd) as (Hcl & Hda & Hsa & Hfc).
      split.
      * constructor; cbn [gstep gh_phase gh_text gh_last gh_acc gh_unans gh_out]; try congruence; try lia.
        -- intro Hx. rewrite Hs in Hx. specialize (Hoff Hx). lia.
        -- rewrite Hcl. exists (pe_fcb p). repeat split; try congruence. left. exact Hf.
        -- intros h0 Hh0 _. inversion Hh0; subst h0. split; [exact Hcl|left; lia].
        -- intros _. exists h. split; reflexivity.
        -- intro Hid. exfalso. unfold idle_state in Hid. rewrite Hs, Ho in Hid.
           unfold state_service in Hstd. rewrite Hs in Hstd.
           destruct (pe_state p); try contradiction; cbn in Hstd;
             destruct Hstd as (u & Hu & _); congruence.
      * cbn [ev_ok]. exists (pe_fcb p).
        rewrite Hcl. rewrite <- Iaddr, <- Iopts.
        split; [exact Hstd|]. split; [exact Iactive|].
        split; [intro Hn; rewrite Hn in Ifcb; exact Ifcb|].
        split.
        { intros h0 Hh0. rewrite Hh0 in Ifcb. destruct Ifcb as (f0 & Hfc0 & Hda0 & Hb).
          exists f0, (sv_req (classify h0)). split; [exact Hfc0|].
          destruct (gh_acc g) eqn:Hacc.
          - apply fcbit_cycle_toggles. exact Hb.
          - destruct (Iunacc h0 Hh0 eq_refl) as (Hcl0 & Hpos).
            assert (Hsv : state_service p1 = classify h0).
            { rewrite Hcl0. destruct Hpos as [Hpos|Hpos].
              - apply Hsame. lia.
              - unfold state_service. rewrite Hs, Hpos. reflexivity. }
            split; [exact Hsv|]. split; [congruence|].
            destruct Hb as [Hb|(Hb1 & Hb2 & _)].
            + left. rewrite Hfc, Hfc0, Hb, Hsv. reflexivity.
            + right. split; [rewrite Iphase, Hb1; reflexivity|exact Hb2]. }
        split.
        { intro Hn. rewrite Iphase in Hn. apply need_diag_offline in Hn.
          split; [|specialize (Hoff Hn); lia].
          unfold state_service. rewrite Hs, Hn. reflexivity. }
        split; [lia|].
        assert (Hok : phase_service_ok (gh_phase g) (state_service p1)).
        { rewrite Iphase, <- Hs. apply state_service_ok. }
        split; [exact Hok|].
        intro Hdx. rewrite Hdx in Hok. cbn in Hok.
        destruct Itext as [Hx|[Hx _]]; congruence.
    + (* retries exhausted: Offline *)
      destruct F as (-> & Hgt & Hf & Hs & Hr).
      split.
      * constructor; cbn [gstep gh_phase gh_text gh_last gh_acc gh_unans gh_out]; try congruence; try lia.
        -- rewrite Hs. reflexivity.
        -- left; reflexivity.
      * cbn [ev_ok]. split; [reflexivity|]. split; [|lia].
        intro Hn. rewrite Iphase in Hn. apply need_diag_offline in Hn. specialize (Iprobe Hn). lia.
    + (* nothing to send *)
      destruct F as (Hle & Hr & Hs & Hfl & Hcase).
      assert (Hsv : state_service p1 = state_service p) by (unfold state_service; rewrite Hs, Hfl; reflexivity).
      split; [|cbn [ev_ok]; lia].
      constructor; cbn [gstep gh_phase gh_text gh_last gh_acc gh_unans gh_out]; try congruence; try lia.
      * destruct Hcase as [(_ & Hf)|(_ & _ & Hf)]; rewrite Hf; [exact Iactive|discriminate].
      * destruct (gh_last g) as [h0|] eqn:Hl.
        -- destruct Ifcb as (f0 & Hfc0 & Hda0 & Hb). exists f0. split; [exact Hfc0|]. split; [exact Hda0|].
           destruct (gh_acc g) eqn:Hacc.
           ++ destruct Hcase as [(_ & Hf)|(_ & Hnz & _)]; [rewrite Hf; exact Hb|].
              exfalso. destruct Ipending as (h1 & _ & Hx); [lia|discriminate Hx].
           ++ destruct Hcase as [(_ & Hf)|(Hoff & _ & Hf)].
              ** rewrite Hf, Hs. destruct Hb as [Hb|(Hb1 & Hb2 & _)]; [left; exact Hb|right; auto].
              ** right. rewrite Hs. auto.
        -- destruct Hcase as [(_ & Hf)|(_ & _ & Hf)]; congruence.
      * intros h0 Hh0 Hacc. destruct (Iunacc h0 Hh0 Hacc) as (Hcl0 & Hpos).
        split; [congruence|]. right. rewrite Hs.
        destruct Hcase as [(Hid & _)|(Hoff & _)]; [|exact Hoff].
        destruct Hpos as [Hpos|Hpos]; [specialize (Iidle Hid); lia|exact Hpos].
  - (* receive_reply *)
    unfold bind in H. destruct (p_receive_reply p t) as [[p1 ev]| |] eqn:Hr; try discriminate.
    inversion H; subst p' e; clear H.
    cbn [contract_p] in Hct. apply andb_true_iff in Hct. destruct Hct as (Hout & _).
    specialize (Iout Hout).
    destruct (Ipending Iout) as (h0 & Hh0 & Hacc0).
    destruct (Iunacc h0 Hh0 Hacc0) as (Hcl0 & _).
    destruct (receive_facts _ _ _ _ Hr) as (Ha & Ho & F).
    split; [|exact I].
    cbn [gstep]. rewrite Hh0, Hcl0.
    rewrite Hh0 in Ifcb. destruct Ifcb as (f0 & Hfc0 & Hda0 & Hb). rewrite Hacc0 in Hb.
    assert (Hfcb : pe_fcb p = f0) by (destruct Hb as [Hb|(_ & _ & Hb)]; [exact Hb|lia]).
    destruct (reply_accepted (state_service p) t) eqn:Hacc.
    + destruct F as (Hc & Hr0 & Hph & Hev).
      constructor; cbn [gh_phase gh_text gh_last gh_acc gh_unans gh_out]; try congruence; try lia.
      * rewrite Iphase. rewrite Iphase in Itext. rewrite Hph in Hev.
        apply text_follows; auto. apply state_service_ok.
      * apply (cycle_active _ _ Hc).
      * exists f0. repeat split; try assumption. congruence.
    + destruct F as (Hf & Hr0 & Hs & Hfl & Hev). rewrite Hev.
      assert (Hsv : state_service p1 = state_service p) by (unfold state_service; rewrite Hs, Hfl; reflexivity).
      constructor; cbn [gh_phase gh_text gh_last gh_acc gh_unans gh_out]; try congruence; try lia.
      * rewrite Hs. exact Iprobe.
      * exists f0. repeat split; try assumption. rewrite Hacc0. left. congruence.
      * intros h1 Hh1 Hx. inversion Hh1; subst h1. split; [congruence|left; lia].
      * intros _. exists h0. split; [reflexivity|exact Hacc0].
      * intros Hid. apply Iidle. unfold idle_state in *. rewrite Hs, Ho in Hid. exact Hid.
  - (* time-out *)
    inversion H; subst p' e; clear H. split; [|exact I].
    constructor; cbn [gstep gh_phase gh_text gh_last gh_acc gh_unans gh_out]; auto. intro Hx; discriminate Hx.
  - (* request_diagnostics() *)
    inversion H; subst p' e; clear H. split; [|exact I].
    constructor; cbn [gstep]; auto.
  - (* pi_q write *)
    unfold bind in H. destruct (copy_from_slice (pe_pi_q p) q) as [d| |]; try discriminate.
    inversion H; subst p' e; clear H. split; [|exact I].
    constructor; cbn [gstep]; auto.
Qed.

(* ------------------------------------------------------------------ the lift to histories *)

Lemma contract_step : forall g e tr,
  contract_p (gh_out g) (e :: tr) = true ->
  contract_p (gh_out g) [e] = true /\ contract_p (gh_out (gstep g e)) tr = true.
Proof.
  intros g e tr H. destruct e as [h pdu| |ev|t ev| |]; cbn [contract_p gstep gh_out] in *.
  - auto.
  - auto.
  - destruct ev; auto.
  - apply andb_true_iff in H. destruct H as (Ho & Hr). rewrite Ho. split; [reflexivity|].
    destruct (reply_accepted _ t); cbn [gh_out]; exact Hr.
  - apply andb_true_iff in H. destruct H as (Ho & Hr). rewrite Ho. auto.
  - auto.
Qed.

Theorem history_ok : forall pa a o,
  1 <= p_max_retry pa ->
  forall cs p g p' tr,
  Inv pa a o p g ->
  p_run pa p cs = Ok (p', tr) ->
  contract_p (gh_out g) tr = true ->
  Inv pa a o p' (fold_left gstep tr g) /\
  forall pre e post, tr = pre ++ e :: post -> ev_ok pa a o (fold_left gstep pre g) e.
Proof.
  intros pa a o Hmax. induction cs as [|c cs IH]; intros p g p' tr I Hrun Hct.
  - cbn in Hrun. inversion Hrun; subst. split; [exact I|].
    intros pre e post Hx. destruct pre; discriminate Hx.
  - cbn [p_run] in Hrun. unfold bind in Hrun.
    destruct (p_step pa p c) as [[p1 e0]| |] eqn:Hs; try discriminate.
    destruct (p_run pa p1 cs) as [[p2 tr1]| |] eqn:Hr; try discriminate.
    inversion Hrun; subst p' tr; clear Hrun.
    destruct (contract_step _ _ _ Hct) as (Hc1 & Hc2).
    destruct (step_inv _ _ _ _ _ _ _ _ Hmax I Hs Hc1) as (I1 & Hok).
    destruct (IH _ _ _ _ I1 Hr Hc2) as (I2 & Hall).
    split; [exact I2|].
    intros pre e post Hx. destruct pre as [|e1 pre].
    + cbn in Hx. inversion Hx; subst. exact Hok.
    + cbn in Hx. inversion Hx; subst. cbn [fold_left]. apply (Hall pre e post). reflexivity.
Qed.

(* every history of a freshly constructed peripheral that respects the contract: each event of the wire
   trace satisfies ev_ok for the monitor state computed from the events before it *)
Theorem history_new : forall pa a o tr,
  1 <= p_max_retry pa ->
  history pa a o tr ->
  forall pre e post, tr = pre ++ e :: post -> ev_ok pa a o (ghost_of pre) e.
Proof.
  intros pa a o tr Hmax (i & q & d & cs & p' & Hrun & Hct).
  apply (history_ok pa a o Hmax cs (periph_new a o i q d) ghost0 p' tr); auto.
  apply inv_init. lia.
Qed.
