(* C05, application side: the DP master, the live list and the DP scanner never panic under the calls
   the FDL active station makes, and `Fdl.poll` with these applications attached is total.

   Part 1 (generic): `apps_contract AI AW` - an application with representation invariant AI and a
   "waiting for the reply from da" predicate AW is total UNDER THE FdlApplication CONTRACT: transmit is
   called at any time; receive_reply(addr, t) / handle_timeout(addr) only while the application waits for
   addr (AW, established by its own last transmit) and t is a short confirmation or a response from
   addr to this station.  `AppsInv f apps` ties the station to the application list (every application
   satisfies AI; while the station is in AwaitDataResponse addr the application whose turn it is waits
   for addr).  Rep /\ Winv /\ AppsInv is preserved by poll_inner: for the six `do_*` functions that make
   no callback this follows from the existing C05 lemma (Ok, Rep) and the C15 frame lemma (quiet: the
   application list is untouched, AwaitDataResponse is neither entered nor modified); do_use_token and
   do_await_data_response are re-proved with the contract in place of apps_total.
   Part 2: the DP master (DpRep / dp_waiting).   Part 3: live list and scanner.
   Part 4: the sum application of Model/AppsGlue.v and the histories. *)
From PB Require Import Common Tables FdlTables Telegram Phy TokenRing Params Fdl FdlProofs FdlStepProofs.
From PB Require Import C09Proofs C16Proofs C05Proofs C15Proofs.

(* ------------------------------------------------------------------------------------------ *)
(* Part 1: the station with applications that are total under the contract                      *)

Section Contract.
Variable A : Type.
Variable ops : app_ops A.
Variable AI : A -> Prop.
Variable AW : A -> Z -> Prop.

Definition apps_contract : Prop :=
  (forall a now p hp, AI a -> builder_valid p -> time_ok now ->
     exists a' r, a_tx ops a now p hp = Ok (a', r) /\ AI a' /\
       match r with
       | Some (wire, er) => Z.of_nat (length wire) <= 65536 /\ (forall da, er = Some da -> AW a' da)
       | None => True
       end) /\
  (forall a now p addr t, AI a -> AW a addr -> builder_valid p -> time_ok now -> reply_ok (p_address p) addr t ->
     exists a', a_rx ops a now p addr t = Ok a' /\ AI a') /\
  (forall a now p addr, AI a -> AW a addr -> builder_valid p -> time_ok now ->
     exists a', a_to ops a now p addr = Ok a' /\ AI a').

Definition AppsInv (f : fdl) (apps : list A) : Prop :=
  Forall AI apps /\
  forall addr tk fa, f_state f = AwaitDataResponse addr tk fa ->
    exists a, nth_error apps (f_next_app f) = Some a /\ AW a addr.

Lemma AppsInv_idle f apps : Forall AI apps -> kind_of (f_state f) <> KAwaitDataResponse -> AppsInv f apps.
Proof. intros F K. split; [exact F|]. intros addr tk fa E. rewrite E in K. contradiction K. reflexivity. Qed.

Lemma AppsInv_same f f' apps : f_state f' = f_state f -> f_next_app f' = f_next_app f ->
  AppsInv f apps -> AppsInv f' apps.
Proof. intros Es En (F & H). split; [exact F|]. intros addr tk fa E. rewrite En. apply (H addr tk fa). rewrite <- Es. exact E. Qed.

Lemma AppsInv_sb f f' apps : sb f f' -> AppsInv f apps -> AppsInv f' apps.
Proof. intros S. apply AppsInv_same; apply S. Qed.

Lemma Forall_replace_nth (P : A -> Prop) (l : list A) : forall i x, Forall P l -> P x -> Forall P (replace_nth l i x).
Proof.
  induction l as [|h t IH]; intros [|i] x F Hx; cbn; try exact F.
  - inversion F; subst. constructor; assumption.
  - inversion F; subst. constructor; [assumption|apply IH; assumption].
Qed.

Lemma nth_error_replace_nth (l : list A) : forall i x, (i < length l)%nat -> nth_error (replace_nth l i x) i = Some x.
Proof.
  induction l as [|h t IH]; intros [|i] x L; cbn in *; try lia; [reflexivity|]. apply IH. lia.
Qed.

Lemma quiet_AppsInv now f (w : world A) f' w' : quiet A now f w f' w' -> AppsInv f (w_apps w) -> AppsInv f' (w_apps w').
Proof.
  intros ((_ & Ea) & _ & Q) (F & H). rewrite Ea. split; [exact F|].
  intros addr tk fa E. destruct Q as [(K & Q)|R].
  - rewrite E in Q. cbn in Q. destruct K as (_ & -> & _). apply (H addr tk fa). symmetry. exact Q.
  - destruct R as (R & _). rewrite R in E. discriminate E.
Qed.

Section WithN.
Variable n : nat.
Hypothesis Happs : apps_contract.
Notation W := (world A).
Notation Winv := (Winv A n).

Definition PostA (x : fdl * W) : Prop := Rep n (fst x) /\ Winv (snd x) /\ AppsInv (fst x) (w_apps (snd x)).

Lemma wp_quiet (r : res (fdl * W)) now f w :
  wp r (PostRW A n) -> (forall f' w', r = Ok (f', w') -> quiet A now f w f' w') ->
  AppsInv f (w_apps w) -> wp r PostA.
Proof.
  destruct r as [[f' w']| |]; cbn; intros H Q I; try contradiction.
  destruct H as (R & Wi). split; [exact R|]. split; [exact Wi|].
  eapply quiet_AppsInv; [apply Q; reflexivity|exact I].
Qed.

Lemma app_transmit_wpA f now (w : W) app hp tk fa fcd : Rep n f -> time_ok now -> w_tx w = None -> Winv w ->
  f_state f = UseToken tk fa fcd -> (f_next_app f < n)%nat ->
  Forall AI (w_apps w) -> nth_error (w_apps w) (f_next_app f) = Some app ->
  wp (app_transmit_telegram A ops f now w (f_next_app f) app hp)
     (fun x => let '(f1, w1, done) := x in
        Rep n f1 /\ Winv w1 /\ AppsInv f1 (w_apps w1) /\ (done = false -> w_tx w1 = None /\ f1 = f)).
Proof.
  intros R Tn Hw Wi Hs Hna Fa En. unfold app_transmit_telegram.
  assert (Ha : AI app) by (rewrite Forall_forall in Fa; apply Fa; eapply nth_error_In; exact En).
  destruct Happs as (Htx & _ & _).
  destruct (Htx app now (f_p f) hp Ha (rep_p _ _ R) Tn) as (a' & r & E & Ha' & Hr). rewrite E. cbn [bind].
  assert (Hon : f_conn f = ConnOnline) by (apply (Rep_online n); [exact R|rewrite Hs; discriminate]).
  pose proof (rep_st _ _ R) as St. rewrite Hs in St. cbn in St.
  assert (Fa' : Forall AI (replace_nth (w_apps w) (f_next_app f) a')) by (apply Forall_replace_nth; assumption).
  assert (Hlen : (f_next_app f < length (w_apps w))%nat) by (destruct Wi as (_ & ->); exact Hna).
  destruct r as [[wire er]|].
  - destruct Hr as (Hwire & Hwait).
    unfold phy_transmit. cbn [w_tx log_call set_app]. rewrite Hw. cbn [bind].
    match goal with |- context [note A ?w0 _] => assert (W1 : Winv w0) by (split; cbn; [apply Wi|rewrite replace_nth_length; apply Wi]) end.
    eapply wp_bind with (P := PostA).
    + destruct er as [addr|].
      * rewrite Hs. cbn [get_use_token bind].
        rewrite (trans_ok A f _ _ (AwaitDataResponse addr tk fa)) by (rewrite Hs; reflexivity).
        cbn. split; [|split; [apply Winv_note, Winv_note, W1|]].
        -- apply Rep_set_st; [exact R|exact Hon|cbn; tauto].
        -- split; [exact Fa'|]. intros addr0 tk0 fa0 E0. injection E0 as <- _ _.
           exists a'. split; [apply nth_error_replace_nth; exact Hlen|apply Hwait; reflexivity].
      * cbn. split; [exact R|]. split; [apply Winv_note, W1|]. cbn [fst snd w_apps note].
        cbn [fst snd w_apps note]; apply AppsInv_idle; [exact Fa'|rewrite Hs; discriminate].
    + intros [f1 w1] (R1 & W1' & I1). cbn [fst snd] in *.
      eapply wp_bind; [apply (mark_tx_wp n); [exact R1|exact Tn|exact Hwire]|].
      intros f2 (R2 & S2). cbn. split; [exact R2|]. split; [exact W1'|]. split; [|discriminate].
      eapply AppsInv_sb; eassumption.
  - cbn. split; [exact R|]. split; [apply Winv_note, Winv_set_app, Wi|]. split.
    + cbn [fst snd w_apps note]; apply AppsInv_idle; [exact Fa'|rewrite Hs; discriminate].
    + intros _. split; [exact Hw|reflexivity].
Qed.

Lemma apps_loop_wpA k : forall f now (w : W) hp, (k <= n)%nat -> Rep n f -> time_ok now -> w_tx w = None -> Winv w ->
  kind_of (f_state f) = KUseToken -> Forall AI (w_apps w) ->
  wp (apps_transmit_loop A ops k f now w hp)
     (fun x => let '(f1, w1, done) := x in
        Rep n f1 /\ Winv w1 /\ AppsInv f1 (w_apps w1) /\ (done = false -> w_tx w1 = None /\ kind_of (f_state f1) = KUseToken)).
Proof.
  induction k as [|k IH]; intros f now w hp Hkn R Tn Hw Wi Hk Fa.
  - cbn. split; [exact R|]. split; [exact Wi|]. split; [|tauto]. cbn [fst snd w_apps note]; apply AppsInv_idle; [exact Fa|rewrite Hk; discriminate].
  - cbn [apps_transmit_loop].
    assert (Hna : (f_next_app f < n)%nat) by (destruct (rep_na _ _ R); lia).
    destruct (nth_error (w_apps w) (f_next_app f)) as [app|] eqn:En.
    2:{ apply nth_error_None in En. destruct Wi as (_ & Wa). lia. }
    destruct (f_state f) as [| | | |tk fa fcd| | | | |] eqn:Hs; try discriminate Hk.
    eapply wp_bind; [apply (app_transmit_wpA f now w app hp tk fa fcd); assumption|].
    intros [[f1 w1] done] (R1 & W1 & I1 & Hd). destruct done; [cbn; split; [exact R1|split; [exact W1|split; [exact I1|discriminate]]]|].
    destruct (Hd eq_refl) as (Hw1 & ->). clear Hd.
    unfold schedule_next_application. rewrite Hs. cbn [get_use_token bind].
    destruct W1 as (Wb1 & Wa1). rewrite Wa1.
    destruct (Nat.eqb_spec n 0) as [C|Hn0]; [lia|]. cbn [bind].
    match goal with |- context [apps_transmit_loop A ops k ?ff] =>
      assert (R2 : Rep n ff /\ kind_of (f_state ff) = KUseToken) end.
    { split; [|reflexivity]. apply Rep_set_next_app.
      - apply Rep_set_st; [exact R1|apply (Rep_online n); [exact R1|rewrite Hs; discriminate]|].
        pose proof (rep_st _ _ R1) as St. rewrite Hs in St. exact St.
      - apply Nat.mod_upper_bound. exact Hn0.
      - discriminate. }
    destruct R2 as (R2 & K2). destruct I1 as (F1 & _).
    match goal with |- context [if ?c then _ else _] => destruct c end.
    + cbn. split; [exact R2|]. split; [apply Winv_note; split; assumption|].
      split; [cbn [fst snd w_apps note]; apply AppsInv_idle; [exact F1|discriminate]|]. intros _. split; [exact Hw1|exact K2].
    + apply IH; [lia|exact R2|exact Tn|exact Hw1|split; assumption|exact K2|exact F1].
Qed.

Lemma do_use_token_wpA f now (w : W) : Rep n f -> time_ok now -> w_tx w = None -> Winv w ->
  kind_of (f_state f) = KUseToken -> Forall AI (w_apps w) ->
  wp (do_use_token A ops f now w) PostA.
Proof.
  intros R Tn Hw Wi Hk Fa. unfold do_use_token, assert_entry. rewrite Hk. cbn [do_fn_entry state_kind_eqb bind].
  destruct (f_state f) as [| | | |tk fa fcd| | | | |] eqn:Hs; try discriminate Hk.
  cbn [get_use_token bind].
  assert (Hon : f_conn f = ConnOnline) by (apply (Rep_online n); [exact R|rewrite Hs; discriminate]).
  pose proof (rep_st _ _ R) as St. rewrite Hs in St. cbn in St.
  eapply wp_bind with (P := fun x => Rep n (fst x) /\ wkeep A w (snd x) /\ f_state (fst x) = UseToken tk fa fcd).
  - destruct (negb (f_last_token_time f =? tk)).
    + pose proof (bv_ttr n f R) as Bt. pose proof (rep_ltt _ _ R) as Bl. unfold time_ok in Bl.
      rewrite inst_add_ok; [|unfold T62, DMAX in *; lia|exact Bt]. cbn [bind].
      destruct (f_gap f).
      * cbn. split; [apply Rep_set_hold; assumption|]. split; [apply wkeep_note|exact Hs].
      * pose proof (bv_ranges _ (rep_p _ _ R)) as Hbv.
        pose proof (btt_bound (p_baud (f_p f)) (p_slot_bits (f_p f) + gap_reserve_extra_bits)
                      ltac:(unfold gap_reserve_extra_bits; lia)) as Bs.
        unfold p_bits_to_time.
        rewrite inst_sub_dur_ok; [|unfold T62, DMAX in *; lia|exact Bs].
        cbn. split; [apply Rep_set_hold; assumption|]. split; [apply wkeep_note|exact Hs].
    + cbn. split; [exact R|]. split; [apply wkeep_refl|exact Hs].
  - intros [f1 w1] (R1 & K1 & Hs1). cbn [fst snd] in *.
    assert (Fa1 : Forall AI (w_apps w1)) by (destruct K1 as (_ & _ & ->); exact Fa).
    eapply wp_bind; [apply (wait_sync_wp n); assumption|].
    intros [f2 wait] (R2 & S2). cbn [fst] in *.
    assert (Hs2 : f_state f2 = UseToken tk fa fcd) by (rewrite (sb_state _ _ S2); exact Hs1).
    destruct wait.
    { cbn. split; [exact R2|]. split; [apply Winv_note, (wkeep_Winv _ _ _ _ K1 Wi)|].
      cbn [fst snd w_apps note]; apply AppsInv_idle; [exact Fa1|rewrite Hs2; discriminate]. }
    assert (Hon2 : f_conn f2 = ConnOnline) by (apply (Rep_online n); [exact R2|rewrite Hs2; discriminate]).
    rewrite Hs2. cbn [get_use_token bind].
    pose proof (wkeep_Winv _ _ _ _ K1 Wi) as W1. pose proof (wkeep_tx _ _ _ K1 Hw) as Hw1.
    assert (Rfc : Rep n (set_st f2 (UseToken tk fa true))) by (apply Rep_set_st; [exact R2|exact Hon2|exact St]).
    assert (Efc : set_first_cycle_done f2 = Ok (set_st f2 (UseToken tk fa true)))
      by (unfold set_first_cycle_done; rewrite Hs2; reflexivity).
    assert (Loop : forall tg hp,
      wp (apps_transmit_telegram A ops (set_st f2 (UseToken tk fa true)) now (note A w1 tg) hp)
         (fun x => let '(f3, w3, done) := x in
            Rep n f3 /\ Winv w3 /\ AppsInv f3 (w_apps w3) /\ (done = false -> w_tx w3 = None /\ kind_of (f_state f3) = KUseToken))).
    { intros tg hp. unfold apps_transmit_telegram.
      apply apps_loop_wpA; [destruct W1 as (_ & Wa); cbn; lia|exact Rfc|exact Tn|exact Hw1|apply Winv_note, W1|reflexivity|exact Fa1]. }
    eapply wp_bind with (P := fun x => let '(f3, w3, done) := x in
            Rep n f3 /\ Winv w3 /\ AppsInv f3 (w_apps w3) /\ (done = false -> w_tx w3 = None /\ kind_of (f_state f3) = KUseToken)).
    + destruct (now <? f_end_tht f2).
      * rewrite Efc. cbn [bind]. apply Loop.
      * destruct (negb fcd).
        -- rewrite Efc. cbn [bind]. apply Loop.
        -- cbn. split; [exact R2|]. split; [apply Winv_note, W1|].
           split; [cbn [fst snd w_apps note]; apply AppsInv_idle; [exact Fa1|rewrite Hs2; discriminate]|].
           intros _. split; [exact Hw1|rewrite Hs2; reflexivity].
    + intros [[f3 w3] done] (R3 & W3 & I3 & Hd). destruct done; [exact (conj R3 (conj W3 I3))|].
      destruct (Hd eq_refl) as (Hw3 & K3).
      rewrite (trans_ok A f3 _ _ (PassToken true first_attempt))
        by (unfold transition_pass_token, assert_kind; rewrite K3; reflexivity).
      cbn [bind].
      (* F20 repair: the token is passed in the same poll; do_pass_token makes no callback *)
      eapply wp_quiet.
      * apply do_pass_token_wp; [|exact Tn|exact Hw3|apply Winv_note, W3|reflexivity].
        apply Rep_set_st; [exact R3|apply (Rep_online n); [exact R3|rewrite K3; discriminate]|exact I].
      * intros f' w' Hdp. apply squiet_quiet, do_pass_token_squiet. exact Hdp.
      * cbn [fst snd w_apps note]; apply AppsInv_idle; [apply I3|discriminate].
Qed.

Lemma do_await_data_response_wpA f now (w : W) : Rep n f -> time_ok now -> w_tx w = None -> Winv w ->
  kind_of (f_state f) = KAwaitDataResponse -> AppsInv f (w_apps w) ->
  wp (do_await_data_response A ops f now w) PostA.
Proof.
  intros R Tn Hw Wi Hk AIv. pose proof AIv as (Fa & Hwait). unfold do_await_data_response, assert_entry. rewrite Hk. cbn [do_fn_entry state_kind_eqb bind].
  destruct (f_state f) as [| | | | | |addr tk fa| | |] eqn:Hs; try discriminate Hk.
  cbn [get_await_data_response bind].
  assert (Hon : f_conn f = ConnOnline) by (apply (Rep_online n); [exact R|rewrite Hs; discriminate]).
  pose proof (rep_st _ _ R) as St. rewrite Hs in St. cbn in St. destruct St as (Ttk & Hna).
  destruct Wi as (Wb & Wa).
  destruct (Hwait addr tk fa eq_refl) as (app & En & Haw). rewrite En.
  assert (Ha : AI app) by (rewrite Forall_forall in Fa; apply Fa; eapply nth_error_In; exact En).
  assert (Hlen : (f_next_app f < length (w_apps w))%nat) by lia.
  destruct Happs as (_ & Hrx & Hto).
  unfold receive_telegram. destruct (decode_total (w_rx w)) as [d D]. rewrite D. cbn [bind].
  assert (Use : forall f' w', Rep n f' -> f_conn f' = ConnOnline -> f_state f' = AwaitDataResponse addr tk fa ->
     Winv w' -> wp (trans A f' w' (fun s => transition_use_token s tk fa))
                   (fun x => Rep n (fst x) /\ Winv (snd x) /\ f_state (fst x) = UseToken tk fa false /\
                             w_tx (snd x) = w_tx w' /\ w_apps (snd x) = w_apps w')).
  { intros f' w' R' C' S' W'. rewrite (trans_ok A f' _ _ (UseToken tk fa false)) by (rewrite S'; reflexivity).
    cbn. split; [apply Rep_set_st; [exact R'|exact C'|exact Ttk]|]. split; [apply Winv_note, W'|]. repeat split; reflexivity. }
  assert (Timeout : forall w', Winv w' -> w_tx w' = None -> w_apps w' = w_apps w ->
    wp (let f0 := sync_pending_bytes A f w' in
        let* (f1, expired) := check_slot_expired f0 now in
        if expired then
          let* app' := a_to ops app now (f_p f1) addr in
          let w2 := log_call A (set_app A w' (f_next_app f) app') (CallHandleTimeout (f_next_app f) addr) in
          let* (f2, w3) := trans A f1 (note A w2 TReplyTimeout) (fun s => transition_use_token s tk fa) in
          let* f3 := set_first_cycle_done f2 in do_use_token A ops f3 now w3
        else Ok (f1, note A w' TReplyAwait)) PostA).
  { intros w' W' Hw' Ea'. cbv zeta.
    destruct (sync_pending_rep n A f w' R) as (R0 & S0).
    eapply wp_bind; [apply (check_slot_wp n); [exact R0|exact Tn]|].
    intros [f1 expired] (R1 & S1). cbn [fst] in *.
    assert (Hs1 : f_state f1 = AwaitDataResponse addr tk fa) by (rewrite (sb_state _ _ S1), (sb_state _ _ S0); exact Hs).
    assert (Hon1 : f_conn f1 = ConnOnline) by (rewrite (sb_conn _ _ S1), (sb_conn _ _ S0); exact Hon).
    destruct expired.
    2:{ cbn. split; [exact R1|]. split; [apply Winv_note, W'|]. cbn [fst snd w_apps note]. rewrite Ea'.
        eapply AppsInv_sb; [exact S1|]. eapply AppsInv_sb; [exact S0|]. exact AIv. }
    destruct (Hto app now (f_p f1) addr Ha Haw (rep_p _ _ R1) Tn) as (a' & E & Ha'). rewrite E. cbn [bind].
    eapply wp_bind; [apply Use; [exact R1|exact Hon1|exact Hs1|apply Winv_note, Winv_set_app, W']|].
    intros [f2 w2] (R2 & W2 & Hs2 & Hw2 & Ea2). cbn [fst snd] in *.
    unfold set_first_cycle_done. rewrite Hs2. cbn [get_use_token bind].
    apply do_use_token_wpA; [|exact Tn|rewrite Hw2; exact Hw'|exact W2|reflexivity|].
    - apply Rep_set_st; [exact R2|apply (Rep_online n); [exact R2|rewrite Hs2; discriminate]|exact Ttk].
    - rewrite Ea2. cbn. rewrite Ea'. apply Forall_replace_nth; assumption. }
  destruct d as [ | |t k]; cbn [bind].
  - apply Timeout.
    + destruct (Nat.ltb (length (w_rx w)) (length (w_rx w))); split; cbn; assumption.
    + destruct (Nat.ltb (length (w_rx w)) (length (w_rx w))); cbn; exact Hw.
    + destruct (Nat.ltb (length (w_rx w)) (length (w_rx w))); reflexivity.
  - apply Timeout.
    + destruct (Nat.ltb (@length Z []) (length (w_rx w))); split; cbn; try assumption; constructor.
    + destruct (Nat.ltb (@length Z []) (length (w_rx w))); cbn; exact Hw.
    + destruct (Nat.ltb (@length Z []) (length (w_rx w))); reflexivity.
  - destruct (mark_rx_rep n f now R Tn) as (R1 & S1).
    assert (Hs1 : f_state (mark_rx f now) = AwaitDataResponse addr tk fa) by (rewrite (sb_state _ _ S1); exact Hs).
    assert (Hon1 : f_conn (mark_rx f now) = ConnOnline) by (rewrite (sb_conn _ _ S1); exact Hon).
    assert (W1 : Winv (set_rx A w (skipn k (w_rx w)))) by (split; cbn; [apply all_bytes_skipn, Wb|exact Wa]).
    destruct (is_valid_response (mark_rx f now) addr t) eqn:Ev.
    + apply is_valid_response_spec in Ev. unfold ts in Ev.
      destruct (Hrx app now (f_p (mark_rx f now)) addr t Ha Haw (rep_p _ _ R1) Tn Ev) as (a' & E & Ha'). rewrite E. cbn [bind].
      match goal with |- context [sync_pending_bytes A ?ff ?ww] =>
        destruct (sync_pending_rep n A ff ww R1) as (R2 & S2); set (f2 := sync_pending_bytes A ff ww) in * end.
      eapply wp_bind.
      * apply Use; [exact R2|rewrite (sb_conn _ _ S2); exact Hon1|rewrite (sb_state _ _ S2); exact Hs1|
                    apply Winv_note, Winv_set_app, W1].
      * intros [f3 w3] (R3 & W3 & Hs3 & Hw3 & Ea3). cbn [fst snd] in *.
        unfold set_first_cycle_done. rewrite Hs3. cbn. split; [|split; [exact W3|]].
        -- apply Rep_set_st; [exact R3|apply (Rep_online n); [exact R3|rewrite Hs3; discriminate]|exact Ttk].
        -- cbn [fst snd w_apps note]; apply AppsInv_idle; [|discriminate]. rewrite Ea3. cbn. apply Forall_replace_nth; assumption.
    + rewrite (trans_ok A _ _ _ (ActiveIdle None None 0)) by (rewrite Hs1; reflexivity).
      cbn. split; [|split; [apply Winv_note, Winv_note, W1|]].
      * apply Rep_set_st; [exact R1|exact Hon1|cbn; lia].
      * cbn [fst snd w_apps note]; apply AppsInv_idle; [exact Fa|discriminate].
Qed.

Lemma dispatch_wpA f now (w : W) : Rep n f -> time_ok now -> w_tx w = None -> Winv w ->
  f_conn f = ConnOnline -> kind_of (f_state f) <> KOffline -> AppsInv f (w_apps w) ->
  wp (dispatch A ops f now w) PostA.
Proof.
  intros R Tn Hw Wi Hc Hk AIv. pose proof (rep_st _ _ R) as St. unfold dispatch.
  destruct (kind_of (f_state f)) eqn:K; cbn [poll_dispatch].
  - contradiction Hk. reflexivity.
  - destruct (f_state f); try discriminate K. contradiction St.
  - eapply wp_quiet; [apply do_listen_token_wp; assumption|intros; apply do_listen_token_quiet; eassumption|exact AIv].
  - eapply wp_quiet; [apply do_active_idle_wp; assumption|intros; apply do_active_idle_quiet; eassumption|exact AIv].
  - apply do_use_token_wpA; try assumption. apply AIv.
  - eapply wp_quiet; [apply do_claim_token_wp; assumption|intros; apply do_claim_token_quiet; eassumption|exact AIv].
  - apply do_await_data_response_wpA; assumption.
  - eapply wp_quiet; [apply do_pass_token_wp; assumption|intros; apply squiet_quiet, do_pass_token_squiet; eassumption|exact AIv].
  - eapply wp_quiet; [apply do_check_token_pass_wp; assumption|intros; apply squiet_quiet, do_check_token_pass_squiet; eassumption|exact AIv].
  - eapply wp_quiet; [apply do_await_status_response_wp; assumption|intros; apply squiet_quiet, do_await_status_response_squiet; eassumption|exact AIv].
Qed.

Lemma poll_inner_wpA f now busy (w : W) : Rep n f -> time_ok now -> w_tx w = None -> Winv w -> AppsInv f (w_apps w) ->
  wp (poll_inner ops f now busy w) PostA.
Proof.
  intros R Tn Hw Wi AIv. unfold poll_inner.
  pose proof (rep_conn _ _ R) as C. pose proof (rep_st _ _ R) as St.
  eapply wp_bind with (P := fun x => let '(f1, w1, off) := x in
     Rep n f1 /\ Winv w1 /\ AppsInv f1 (w_apps w1) /\
     (off = false -> w_tx w1 = None /\ f_conn f1 = ConnOnline /\ kind_of (f_state f1) <> KOffline)).
  - destruct (f_conn f) eqn:Ec.
    + destruct (f_state f); cbn in C; try (exfalso; congruence); try contradiction.
      cbn. split; [exact R|]. split; [exact Wi|]. split; [exact AIv|discriminate].
    + exfalso. destruct (f_state f); cbn in C; try congruence; try contradiction.
    + destruct (online_entry_kind (kind_of (f_state f))) eqn:Eo.
      * destruct (f_state f) eqn:Hs; try discriminate Eo; [|contradiction St].
        rewrite (trans_ok A f _ _ (ListenToken None 0)) by (rewrite Hs; reflexivity).
        cbn. split; [apply Rep_set_st; [exact R|exact Ec|cbn; lia]|]. split; [apply Winv_note, Wi|].
        split; [cbn [fst snd w_apps note]; apply AppsInv_idle; [apply AIv|discriminate]|].
        intros _. split; [exact Hw|]. split; [exact Ec|discriminate].
      * cbn. split; [exact R|]. split; [exact Wi|]. split; [exact AIv|]. intros _. split; [exact Hw|]. split; [exact Ec|].
        intros K. rewrite K in Eo. discriminate Eo.
  - intros [[f1 w1] off] (R1 & W1 & I1 & Ho). destruct off; [exact (conj R1 (conj W1 I1))|].
    destruct (Ho eq_refl) as (Hw1 & Hc1 & Hk1). clear Ho.
    unfold check_for_ongoing_transmision.
    destruct (mark_bus_activity_rep n f1 now R1 Tn) as (Rm & Sm).
    match goal with |- context [if ?c then _ else _] => destruct c end.
    + cbn. split; [exact Rm|]. split; [destruct busy; apply Winv_note, W1|].
      destruct busy; cbn; eapply AppsInv_sb; eassumption.
    + unfold check_for_bus_activity.
      destruct (Nat.ltb (f_pending f1) (length (w_rx w1))).
      * apply dispatch_wpA.
        -- apply Rep_set_pending, Rm.
        -- exact Tn.
        -- exact Hw1.
        -- apply Winv_note, W1.
        -- cbn [f_conn set_pending]. rewrite (sb_conn _ _ Sm). exact Hc1.
        -- cbn [f_state set_pending]. rewrite (sb_state _ _ Sm). exact Hk1.
        -- cbn [w_apps note]. apply (AppsInv_same f1); [cbn; apply Sm|cbn; apply Sm|exact I1].
      * apply dispatch_wpA; assumption.
Qed.

End WithN.

(* one poll *)
Theorem poll_rep_stepA (Happs : apps_contract) (f : fdl) (now : Z) (pin : phy_in) (apps : list A) :
  Rep (length apps) f -> AppsInv f apps -> time_ok now -> all_bytes (rx pin) ->
  exists f' o apps' c, poll ops f now pin apps = Ok (f', o, apps', c) /\
                       Rep (length apps) f' /\ AppsInv f' apps' /\ length apps' = length apps.
Proof.
  intros R AIv Tn Hb. unfold poll, poll_traced.
  pose proof (poll_inner_wpA (length apps) Happs f now (tx_busy pin) (mkWorld (rx pin) None apps [] []) R Tn eq_refl) as H.
  destruct (wp_ok _ _ (H (conj Hb eq_refl) AIv)) as ([f' w'] & E & (R' & (_ & Wa) & I')).
  rewrite E. cbn [bind]. eexists. eexists. eexists. eexists. split; [reflexivity|]. exact (conj R' (conj I' Wa)).
Qed.

(* histories: polls, set_online / set_offline, and user calls on one application object between polls
   (any function that keeps the application's invariant and, if the application is waiting for a reply,
   keeps it waiting for it) *)
Inductive app_ev : Type :=
| AePoll (now : Z) (pin : phy_in)
| AeOnline
| AeOffline
| AeUser (i : nat) (g : A -> A).

Definition user_ok (g : A -> A) : Prop :=
  (forall a, AI a -> AI (g a)) /\ (forall a da, AI a -> AW a da -> AW (g a) da).

Definition app_ev_ok (e : app_ev) : Prop :=
  match e with
  | AePoll now pin => time_ok now /\ all_bytes (rx pin)
  | AeUser _ g => user_ok g
  | _ => True
  end.

Definition user_call (apps : list A) (i : nat) (g : A -> A) : list A :=
  match nth_error apps i with Some a => replace_nth apps i (g a) | None => apps end.

Fixpoint run_app_events (f : fdl) (apps : list A) (evs : list app_ev) : res (fdl * list A) :=
  match evs with
  | [] => Ok (f, apps)
  | AePoll now pin :: t =>
      let* (f', _, apps', _) := poll ops f now pin apps in run_app_events f' apps' t
  | AeOnline :: t => let* f' := set_online f in run_app_events f' apps t
  | AeOffline :: t => let* f' := set_offline f in run_app_events f' apps t
  | AeUser i g :: t => run_app_events f (user_call apps i g) t
  end.

Lemma nth_error_replace_nth_other (l : list A) : forall i j x, i <> j -> nth_error (replace_nth l i x) j = nth_error l j.
Proof.
  induction l as [|h t IH]; intros [|i] [|j] x Hij; cbn; try reflexivity; try congruence.
  apply IH. congruence.
Qed.

Lemma user_call_inv f apps i g : user_ok g -> AppsInv f apps ->
  AppsInv f (user_call apps i g) /\ length (user_call apps i g) = length apps.
Proof.
  intros (G1 & G2) (F & H). unfold user_call.
  destruct (nth_error apps i) as [a|] eqn:En; [|split; [split; assumption|reflexivity]].
  assert (Ha : AI a) by (rewrite Forall_forall in F; apply F; eapply nth_error_In; exact En).
  split; [|apply replace_nth_length]. split; [apply Forall_replace_nth; [exact F|apply G1, Ha]|].
  intros addr tk fa E. destruct (H addr tk fa E) as (b & Eb & Wb).
  destruct (Nat.eq_dec i (f_next_app f)) as [Ei|Ne].
  - rewrite <- Ei in *. rewrite En in Eb. injection Eb as <-. exists (g a). split; [|apply G2; assumption].
    apply nth_error_replace_nth. apply nth_error_Some. congruence.
  - exists b. split; [|exact Wb]. rewrite nth_error_replace_nth_other by exact Ne. exact Eb.
Qed.

Lemma run_app_events_rep (Happs : apps_contract) evs : forall f apps,
  Rep (length apps) f -> AppsInv f apps -> Forall app_ev_ok evs ->
  exists f' apps', run_app_events f apps evs = Ok (f', apps') /\ Rep (length apps) f' /\ AppsInv f' apps' /\
                   length apps' = length apps.
Proof.
  induction evs as [|e t IH]; intros f apps R AIv F.
  - exists f, apps. cbn. tauto.
  - inversion F as [|? ? He Ft]; subst. destruct e as [now pin| | |i g]; cbn [run_app_events].
    + destruct He as (Tn & Hb).
      destruct (poll_rep_stepA Happs f now pin apps R AIv Tn Hb) as (f' & o & apps' & c & E & R' & I' & L).
      rewrite E. cbn [bind]. rewrite <- L in R'.
      destruct (IH f' apps' R' I' Ft) as (f2 & apps2 & E2 & R2 & I2 & L2).
      exists f2, apps2. split; [exact E2|]. rewrite <- L. exact (conj R2 (conj I2 L2)).
    + destruct (Rep_set_online _ f R) as (f' & E & R'). rewrite E. cbn [bind]. apply IH; try assumption.
      unfold set_online, set_state in E. injection E as <-. eapply AppsInv_same; [| |exact AIv]; reflexivity.
    + destruct (Rep_set_offline _ f R) as (f' & E & R'). rewrite E. cbn [bind]. apply IH; try assumption.
      unfold set_offline, set_state in E. apply fdl_new_spec in E. destruct E as ((Es & _) & _).
      cbn [fst snd w_apps note]; apply AppsInv_idle; [apply AIv|rewrite Es; discriminate].
    + destruct (user_call_inv f apps i g He AIv) as (I' & L).
      rewrite <- L in R. destruct (IH f (user_call apps i g) R I' Ft) as (f2 & apps2 & E2 & R2 & I2 & L2).
      exists f2, apps2. rewrite <- L. exact (conj E2 (conj R2 (conj I2 L2))).
Qed.

(* from a new station *)
Theorem no_panic_contract (Happs : apps_contract) p (apps : list A) (evs : list app_ev) :
  builder_valid p -> Forall AI apps -> Forall app_ev_ok evs ->
  exists f0 f' apps', fdl_new p = Ok f0 /\ run_app_events f0 apps evs = Ok (f', apps') /\
                      Rep (length apps) f' /\ AppsInv f' apps' /\ length apps' = length apps.
Proof.
  intros B Fa F. destruct (fdl_new_rep (length apps) p B) as [f0 (E & R0 & _)].
  assert (I0 : AppsInv f0 apps).
  { cbn [fst snd w_apps note]; apply AppsInv_idle; [exact Fa|]. apply fdl_new_spec in E. destruct E as ((Es & _) & _). rewrite Es. discriminate. }
  destruct (run_app_events_rep Happs evs f0 apps R0 I0 F) as (f' & apps' & E' & R' & I' & L).
  exists f0, f', apps'. tauto.
Qed.

End Contract.

(* ------------------------------------------------------------------------------------------ *)
(* Part 2: the DP master                                                                        *)

From PB Require Import DpMaster DpStepProofs C14Proofs ScanBase LiveList Scan C18Proofs AppsGlue.

(* What the master needs of a peripheral.  These are the (undocumented) preconditions of
   `Peripheral::new` / `PeripheralOptions`: a 7-bit address; an output image, Chk_Cfg data and user
   parameters that fit one telegram: `fits dsap ssap n` is the serializer's assertion length_byte <= 249
   for a PDU of n bytes with the SAPs of that service (regenerated tables), i.e. at most 246 bytes of
   outputs (Data_Exchange uses no SAP bytes), 244 bytes of configuration, 237 bytes of user parameters
   (Set_Prm has 7 fixed bytes).  The bounds are tight (oversize_output_panics; on the crate: an output
   image of 247 bytes panics at telegram.rs `assert!(length_byte <= 249)`, 246 bytes do not).
   The frame count bit of a peripheral is never Inactive (the code only ever assigns First / High / Low).
   Nothing is required of the retry counter, the input image, the diagnostics storage or the state. *)
Definition fits (ds ss : option Z) (n : nat) : Prop := (n + has_sap ds + has_sap ss + 3 <= 249)%nat.

Definition periph_ok (p : periph) : Prop :=
  0 <= pe_addr p < 128 /\ pe_fcb p <> FcbInactive /\ fits dp_dx_dsap dp_dx_ssap (length (pe_pi_q p)) /\
  match o_user_prm (pe_opts p) with Some u => fits dp_prm_dsap dp_prm_ssap (7 + length u) | None => True end /\
  match o_config (pe_opts p) with Some c => fits dp_cfg_dsap dp_cfg_ssap (length c) | None => True end.

Definition slots_ok (l : list (option periph)) : Prop :=
  forall i p, nth_error l i = Some (Some p) -> (i <= 255)%nat /\ periph_ok p.

(* DpRep: every occupied slot has an index that fits the u8 of a handle (PeripheralSet::add panics
   before it would create another one) and holds a peripheral satisfying periph_ok; the time of the last
   global control telegram is a time the station passed in.  ANY number of slots (including none), any
   occupancy pattern, any cycle state, any operating state (Stop included), any pending events. *)
Definition DpRep (m : dpm) : Prop :=
  slots_ok (dm_slots m) /\ match dm_last_gc m with Some t => time_ok t | None => True end.

(* the master waits for the reply from da: the peripheral the cycle index points to has address da *)
Definition dp_waiting (m : dpm) (da : Z) : Prop :=
  exists index hd p, dm_cycle m = CyDataExchange index /\
    get_at_index (dm_slots m) index = Ok (Some (hd, p)) /\ pe_addr p = da.

(* what the station delivers as a reply: never a token, never a request *)
Definition reply_shape (t : telegram) : Prop :=
  match t with
  | TToken _ _ => False
  | TShortConf => True
  | TData h _ => exists st s, h_fc h = FcResponse st s
  end.

Lemma reply_ok_shape tsa addr t : reply_ok tsa addr t -> reply_shape t.
Proof.
  intros [->|(h & pdu & st & s & -> & Hfc & _)]; [exact I|]. exists st, s. exact Hfc.
Qed.

(* ---- the slot vector *)

Lemma nth_error_put_slot (l : list (option periph)) : forall i p j,
  nth_error (put_slot l i p) j =
  if (Nat.eqb j i && Nat.ltb i (length l))%bool then Some (Some p) else nth_error l j.
Proof.
  induction l as [|x l IH]; intros [|i] p [|j]; cbn [put_slot nth_error length]; try reflexivity.
  - rewrite andb_false_r. reflexivity.
  - rewrite IH. cbn [Nat.eqb]. replace (Nat.ltb (S i) (S (length l))) with (Nat.ltb i (length l)); [reflexivity|].
    destruct (Nat.ltb_spec i (length l)), (Nat.ltb_spec (S i) (S (length l))); try reflexivity; lia.
Qed.

Lemma slots_ok_put l i p : slots_ok l -> (i <= 255)%nat -> periph_ok p -> slots_ok (put_slot l i p).
Proof.
  intros S Hi Hp j q E. rewrite nth_error_put_slot in E.
  destruct (Nat.eqb_spec j i) as [->|Ne]; cbn [andb] in E.
  - destruct (Nat.ltb i (length l)); [injection E as <-; split; assumption|apply S; exact E].
  - apply S; exact E.
Qed.

Lemma find_occupied_spec (l : list (option periph)) : forall j i p,
  find_occupied l j = Some (i, p) <->
  exists k, i = (j + k)%nat /\ nth_error l k = Some (Some p) /\ forall k', (k' < k)%nat -> nth_error l k' = Some None.
Proof.
  induction l as [|x l IH]; intros j i p.
  - cbn. split; [discriminate|]. intros (k & _ & E & _). destruct k; discriminate E.
  - destruct x as [q|]; cbn [find_occupied].
    + split.
      * intros E. injection E as <- <-. exists 0%nat. split; [lia|]. split; [reflexivity|]. intros k' L; lia.
      * intros (k & -> & E & Hb). destruct k as [|k].
        -- cbn in E. injection E as <-. f_equal. f_equal. lia.
        -- specialize (Hb 0%nat ltac:(lia)). discriminate Hb.
    + rewrite IH. split.
      * intros (k & -> & E & Hb). exists (S k). split; [lia|]. split; [exact E|].
        intros [|k'] L; [reflexivity|]. cbn. apply Hb. lia.
      * intros (k & -> & E & Hb). destruct k as [|k]; [discriminate E|].
        exists k. split; [lia|]. split; [exact E|]. intros k' L. apply (Hb (S k')). lia.
Qed.

Lemma find_occupied_none (l : list (option periph)) : forall j,
  find_occupied l j = None -> forall k p, nth_error l k <> Some (Some p).
Proof.
  induction l as [|x l IH]; intros j E k p; [destruct k; discriminate|].
  destruct x as [q|]; cbn in E; [discriminate E|].
  destruct k as [|k]; cbn; [discriminate|]. eapply IH. exact E.
Qed.

(* get_at_index under slots_ok: no panic; the result is an occupied slot *)
Lemma get_at_index_ok l index : slots_ok l ->
  get_at_index l index = Ok None \/
  exists i p, get_at_index l index = Ok (Some (mkHandle i (pe_addr p), p)) /\
              nth_error l i = Some (Some p) /\ (i <= 255)%nat /\ periph_ok p /\ (i < length l)%nat.
Proof.
  intros S. unfold get_at_index.
  destruct (find_occupied (skipn index l) index) as [[i p]|] eqn:Ef; [right|left; reflexivity].
  destruct (find_occupied_nth _ _ _ _ Ef) as (k & -> & Hn). rewrite nth_error_skipn' in Hn.
  destruct (S _ _ Hn) as (Hi & Hp). exists (index + k)%nat, p.
  unfold u8_index. destruct (Nat.ltb_spec 255 (index + k)) as [L|_]; [lia|]. cbn [bind].
  split; [reflexivity|]. split; [exact Hn|]. split; [exact Hi|]. split; [exact Hp|].
  apply nth_error_Some. congruence.
Qed.

(* replacing the peripheral that get_at_index found keeps it the one that is found *)
Lemma get_at_index_put l index i p p1 :
  get_at_index l index = Ok (Some (mkHandle i (pe_addr p), p)) -> (i <= 255)%nat ->
  get_at_index (put_slot l i p1) index = Ok (Some (mkHandle i (pe_addr p1), p1)).
Proof.
  unfold get_at_index. intros E Hi.
  destruct (find_occupied (skipn index l) index) as [[i0 q]|] eqn:Ef; [|discriminate E].
  unfold u8_index in E. destruct (Nat.ltb 255 i0); [discriminate E|]. cbn [bind] in E.
  injection E as <- _ <-.
  apply find_occupied_spec in Ef. destruct Ef as (k & -> & Hn & Hb).
  assert (Ef' : find_occupied (skipn index (put_slot l (index + k) p1)) index = Some ((index + k)%nat, p1)).
  { apply find_occupied_spec. exists k. split; [reflexivity|].
    rewrite nth_error_skipn' in Hn.
    assert (Hl : (index + k < length l)%nat) by (apply nth_error_Some; congruence).
    split.
    - rewrite nth_error_skipn', nth_error_put_slot, Nat.eqb_refl.
      destruct (Nat.ltb_spec (index + k) (length l)); [reflexivity|lia].
    - intros k' L. rewrite nth_error_skipn', nth_error_put_slot.
      destruct (Nat.eqb_spec (index + k') (index + k)); [lia|]. cbn [andb].
      rewrite <- nth_error_skipn'. apply Hb. exact L. }
  rewrite Ef'. unfold u8_index. destruct (Nat.ltb_spec 255 (index + k)); [lia|]. reflexivity.
Qed.

Lemma occupied_from_in (l : list (option periph)) : forall j i,
  In i (occupied_from l j) -> exists k p, i = (j + k)%nat /\ nth_error l k = Some (Some p).
Proof.
  induction l as [|x l IH]; intros j i H; [contradiction H|].
  destruct x as [q|]; cbn [occupied_from] in H.
  - destruct H as [<-|H].
    + exists 0%nat, q. split; [lia|reflexivity].
    + destruct (IH _ _ H) as (k & p & -> & E). exists (S k), p. split; [lia|exact E].
  - destruct (IH _ _ H) as (k & p & -> & E). exists (S k), p. split; [lia|exact E].
Qed.

Lemma increment_cycle_ok m index : slots_ok (dm_slots m) ->
  exists c comp, increment_cycle m index = Ok (set_cycle m c, comp).
Proof.
  intros S. unfold increment_cycle, get_next_index.
  destruct (occupied_from (skipn index (dm_slots m)) index) as [|a [|b r]] eqn:Eo; cbn [bind].
  - eexists; eexists; reflexivity.
  - eexists; eexists; reflexivity.
  - assert (Hb : In b (occupied_from (skipn index (dm_slots m)) index)) by (rewrite Eo; right; left; reflexivity).
    destruct (occupied_from_in _ _ _ Hb) as (k & p & -> & E). rewrite nth_error_skipn' in E.
    destruct (S _ _ E) as (Hi & _). unfold u8_index. destruct (Nat.ltb_spec 255 (index + k)); [lia|].
    cbn [bind]. eexists; eexists; reflexivity.
Qed.

(* ---- telegrams *)

Lemma send_data_ok h pdu : wf_header h -> (length_byte h (length pdu) <= 249)%nat ->
  send_data tx_buffer_size h pdu = Ok (frame_spec h pdu, tx_expects_reply h) /\
  Z.of_nat (length (frame_spec h pdu)) <= 65536.
Proof.
  intros Wf Hlb.
  assert (Htl : (telegram_len_data h (length pdu) <= 255)%nat).
  { unfold telegram_len_data. destruct (_ || _)%bool; lia. }
  unfold send_data. rewrite encode_data_in_spec; [|exact Wf|exact Hlb|unfold tx_buffer_size; lia].
  cbn [bind]. split; [reflexivity|]. rewrite frame_spec_length. lia.
Qed.

Lemma expects_reply_da h da : tx_expects_reply h = Some da -> da = h_da h.
Proof.
  unfold tx_expects_reply. destruct (h_fc h) as [fcb r|]; [|discriminate].
  destruct (req_expects_reply r); [|discriminate]. intros E. injection E as <-. reflexivity.
Qed.

Lemma bv_addr_retry pa : builder_valid pa -> 0 <= p_address pa <= 125 /\ p_max_retry pa <= 15.
Proof.
  unfold builder_valid, builder_max_address, builder_max_retry. intros (Ha & _ & _ & _ & _ & Hr & _). lia.
Qed.

(* ---- one peripheral *)

Lemma fcb_cycle_total f : f <> FcbInactive -> exists f', fcb_cycle f = Ok f' /\ f' <> FcbInactive.
Proof.
  intros H. unfold fcb_cycle. destruct f; cbn; try (eexists; split; [reflexivity|discriminate]). contradiction H. reflexivity.
Qed.

Definition request_ok (p : periph) (r : ptx) : Prop :=
  match r with
  | PtxSend h pdu => wf_header h /\ (length_byte h (length pdu) <= 249)%nat /\ h_da h = pe_addr p
  | PtxSkip _ => True
  end.

(* Peripheral::transmit_telegram: total for every state of the peripheral and every retry counter *)
Lemma p_transmit_total pa op p : builder_valid pa -> op <> OpStop -> periph_ok p ->
  exists p1 r, p_transmit pa op p = Ok (p1, r) /\ periph_ok p1 /\ pe_addr p1 = pe_addr p /\ request_ok p r.
Proof.
  intros B Hop (Ha & Hf & Hq & Hu & Hc). destruct (bv_addr_retry pa B) as (Hts & Hmr). unfold fits in Hq, Hu, Hc. cbn in Hq, Hu, Hc.
  unfold p_transmit. rewrite (opstate_eqb_stop op Hop). unfold p_transmit_select, dp_retry_exhausted.
  destruct (Z.ltb_spec (p_max_retry pa) (pe_retry p)) as [Hex|Hex].
  { eexists; eexists. split; [reflexivity|]. cbn. unfold periph_ok. cbn. repeat split; try assumption; try lia. discriminate. }
  assert (Hr : (255 <=? pe_retry p) = false) by (apply Z.leb_gt; lia).
  assert (Wf : forall ds ss fc, wf_sap ds -> wf_sap ss -> wf_header (mkHeader (pe_addr p) (p_address pa) ds ss fc)).
  { intros ds ss fc W1 W2. unfold wf_header, is_addr7. cbn. repeat split; try assumption; lia. }
  assert (Wdiag : wf_sap dp_diag_dsap /\ wf_sap dp_diag_ssap) by (split; cbv; split; congruence).
  assert (Wprm : wf_sap dp_prm_dsap /\ wf_sap dp_prm_ssap) by (split; cbv; split; congruence).
  assert (Wcfg : wf_sap dp_cfg_dsap /\ wf_sap dp_cfg_ssap) by (split; cbv; split; congruence).
  assert (Wdx : wf_sap dp_dx_dsap /\ wf_sap dp_dx_ssap) by (split; cbv; split; congruence).
  assert (Pok : periph_ok p) by (unfold periph_ok; tauto).
  assert (Diag : forall q, periph_ok q -> pe_addr q = pe_addr p -> pe_retry q = pe_retry p ->
    exists p1 r, (let (p1, r) := (q, diag_request pa q) in
                  match r with
                  | PtxSend _ _ => if 255 <=? pe_retry p1 then Panic SiteArith else Ok (set_retry p1 (pe_retry p1 + 1), r)
                  | PtxSkip _ => Ok (set_retry p1 0, r)
                  end) = Ok (p1, r) /\ periph_ok p1 /\ pe_addr p1 = pe_addr p /\ request_ok p r).
  { intros q Qok Qa Qr. unfold diag_request. cbv iota beta. rewrite Qr, Hr.
    eexists; eexists. split; [reflexivity|]. split; [exact Qok|]. split; [exact Qa|].
    cbn [request_ok]. rewrite Qa. split; [apply Wf; apply Wdiag|]. split; [|reflexivity].
    unfold length_byte. cbn. lia. }
  destruct (pe_state p) eqn:Hst.
  - destruct (pe_retry p =? dp_offline_probe_retry).
    + apply Diag; [exact Pok|reflexivity|reflexivity].
    + eexists; eexists. split; [reflexivity|]. cbn. unfold periph_ok. cbn. repeat split; try assumption; try lia. discriminate.
  - destruct (o_user_prm (pe_opts p)) as [user|] eqn:Eu.
    + unfold prm_request. rewrite Hr. eexists; eexists. split; [reflexivity|]. split; [exact Pok|]. split; [reflexivity|].
      cbn [request_ok]. split; [apply Wf; apply Wprm|]. split; [|reflexivity].
      unfold length_byte, set_prm_pdu. cbn [h_dsap h_ssap]. rewrite app_length. cbn. lia.
    + eexists; eexists. split; [reflexivity|]. split; [exact Pok|]. split; [reflexivity|exact I].
  - destruct (o_config (pe_opts p)) as [cfg|] eqn:Ec.
    + unfold cfg_request. rewrite Hr. eexists; eexists. split; [reflexivity|]. split; [exact Pok|]. split; [reflexivity|].
      cbn [request_ok]. split; [apply Wf; apply Wcfg|]. split; [|reflexivity].
      unfold length_byte. cbn. lia.
    + eexists; eexists. split; [reflexivity|]. split; [exact Pok|]. split; [reflexivity|exact I].
  - apply Diag; [exact Pok|reflexivity|reflexivity].
  - set (q := if pe_retry p =? 0 then set_diag_in_flight p (pe_diag_needed p) else p).
    assert (Q : periph_ok q /\ pe_addr q = pe_addr p /\ pe_retry q = pe_retry p /\ pe_pi_q q = pe_pi_q p)
      by (unfold q; destruct (pe_retry p =? 0); cbn; tauto).
    destruct Q as (Qok & Qa & Qr & Qq). clearbody q.
    destruct (pe_diag_in_flight q); [apply Diag; assumption|].
    unfold dx_request. rewrite Qr, Hr. eexists; eexists. split; [reflexivity|]. split; [exact Qok|]. split; [exact Qa|].
    cbn [request_ok]. rewrite Qa. split; [apply Wf; apply Wdx|]. split; [|reflexivity].
    unfold length_byte, dx_pdu. cbn [h_dsap h_ssap]. rewrite Qq.
    destruct (opstate_eqb op OpOperate); rewrite ?repeat_length; cbn; lia.
  - set (q := if pe_retry p =? 0 then set_diag_in_flight p (pe_diag_needed p) else p).
    assert (Q : periph_ok q /\ pe_addr q = pe_addr p /\ pe_retry q = pe_retry p /\ pe_pi_q q = pe_pi_q p)
      by (unfold q; destruct (pe_retry p =? 0); cbn; tauto).
    destruct Q as (Qok & Qa & Qr & Qq). clearbody q.
    destruct (pe_diag_in_flight q); [apply Diag; assumption|].
    unfold dx_request. rewrite Qr, Hr. eexists; eexists. split; [reflexivity|]. split; [exact Qok|]. split; [exact Qa|].
    cbn [request_ok]. rewrite Qa. split; [apply Wf; apply Wdx|]. split; [|reflexivity].
    unfold length_byte, dx_pdu. cbn [h_dsap h_ssap]. rewrite Qq.
    destruct (opstate_eqb op OpOperate); rewrite ?repeat_length; cbn; lia.
Qed.

Lemma periph_ok_frame p q : periph_ok p -> pe_addr q = pe_addr p -> pe_fcb q = pe_fcb p ->
  pe_pi_q q = pe_pi_q p -> pe_opts q = pe_opts p -> periph_ok q.
Proof. unfold periph_ok. intros H -> -> -> ->. exact H. Qed.

Lemma periph_ok_fcb p q : periph_ok p -> pe_addr q = pe_addr p -> pe_fcb q <> FcbInactive ->
  pe_pi_q q = pe_pi_q p -> pe_opts q = pe_opts p -> periph_ok q.
Proof. unfold periph_ok. intros (H1 & _ & H3) -> Hf -> ->. tauto. Qed.

Ltac same_tac := split; [reflexivity|]; split; [assumption|]; repeat split; first [assumption|reflexivity].

(* handle_diagnostics_response: total on every telegram *)
Lemma p_handle_diag_total p t : periph_ok p ->
  exists p1 d, p_handle_diag p t = Ok (p1, d) /\ periph_ok p1 /\ pe_addr p1 = pe_addr p /\
               pe_state p1 = pe_state p /\ pe_retry p1 = pe_retry p.
Proof.
  intros Pok. pose proof Pok as (Ha & Hf & Hq & Hu & Hc).
  assert (Same : exists p1 d, Ok (p, @None diaginfo) = Ok (p1, d) /\ periph_ok p1 /\ pe_addr p1 = pe_addr p /\
                              pe_state p1 = pe_state p /\ pe_retry p1 = pe_retry p)
    by (exists p, None; split; [reflexivity|]; split; [exact Pok|]; repeat split).
  unfold p_handle_diag. destruct t as [h pdu|da sa|]; try exact Same.
  destruct (negb (opt_eqb (h_dsap h) dp_diag_reply_dsap)); [exact Same|].
  destruct (negb (opt_eqb (h_ssap h) dp_diag_reply_ssap)); [exact Same|].
  destruct pdu as [|b0 [|b1 [|b2 [|b3 [|b4 [|b5 rest]]]]]]; try exact Same.
  change (Nat.ltb (length (b0 :: b1 :: b2 :: b3 :: b4 :: b5 :: rest)) dp_diag_min_len) with false. cbv iota.
  unfold get, dp_diag_master_pos. cbn [nth_error bind].
  destruct (fcb_cycle_total _ Hf) as (f' & Ef & Hf').
  match goal with |- context [if ?c then _ else Ok (pe_ext p)] => destruct c end.
  - unfold slice_from. cbn [length Nat.leb skipn bind]. rewrite Ef. cbn [bind].
    eexists; eexists. split; [reflexivity|]. split; [|repeat split]. eapply periph_ok_fcb; [exact Pok| | | |]; try reflexivity. exact Hf'.
  - cbn [bind]. rewrite Ef. cbn [bind].
    eexists; eexists. split; [reflexivity|]. split; [|repeat split]. eapply periph_ok_fcb; [exact Pok| | | |]; try reflexivity. exact Hf'.
Qed.


(* the Data_Exchange reply branch: total on every reply the station delivers *)
Lemma p_receive_dx_total p t : periph_ok p -> reply_shape t ->
  exists p1 ev, p_receive_dx p t = Ok (p1, ev) /\ periph_ok p1 /\ pe_addr p1 = pe_addr p /\ pe_fcb p1 = pe_fcb p.
Proof.
  intros Pok Sh. unfold p_receive_dx. destruct t as [h pdu|da sa|]; [|contradiction Sh|].
  - destruct Sh as (st & s & ->).
    assert (Fin : forall p1 : periph, periph_ok p1 -> pe_addr p1 = pe_addr p -> pe_fcb p1 = pe_fcb p ->
      exists p2 ev,
        (if Nat.eqb (length pdu) (length (pe_pi_i p1)) then
           let* d := copy_from_slice (pe_pi_i p1) pdu in
           Ok (set_state (set_pi_i p1 d) PsDataExchange, Some EvDataExchanged)
         else Ok (p1, None)) = Ok (p2, ev) /\ periph_ok p2 /\ pe_addr p2 = pe_addr p /\ pe_fcb p2 = pe_fcb p).
    { intros p1 P1 A1 F1.
      destruct (Nat.eqb_spec (length pdu) (length (pe_pi_i p1))) as [E|E]; [|exists p1, None; same_tac].
      unfold copy_from_slice. rewrite <- E, Nat.eqb_refl. cbn [bind].
      eexists; eexists. split; [reflexivity|]. split; [|split; assumption].
      eapply periph_ok_frame; [exact P1| | | |]; reflexivity. }
    assert (Fno : forall p1 : periph, periph_ok p1 -> pe_addr p1 = pe_addr p -> pe_fcb p1 = pe_fcb p ->
      exists p2 ev, Ok (p1, @None pevent) = Ok (p2, ev) /\ periph_ok p2 /\ pe_addr p2 = pe_addr p /\ pe_fcb p2 = pe_fcb p).
    { intros p1 P1 A1 F1. exists p1, None. same_tac. }
    destruct s; cbv iota beta; first [apply Fin | apply Fno]; try assumption; try reflexivity;
      (eapply periph_ok_frame; [exact Pok| | | |]; reflexivity).
  - destruct (negb (Nat.eqb (length (pe_pi_i p)) 0)).
    + exists p, None. same_tac.
    + eexists; eexists. split; [reflexivity|]. split; [|split; reflexivity].
      eapply periph_ok_frame; [exact Pok| | | |]; reflexivity.
Qed.

(* Peripheral::receive_reply: total on every reply the station delivers, in every state *)
Lemma p_receive_reply_total p t : periph_ok p -> reply_shape t ->
  exists p1 ev, p_receive_reply p t = Ok (p1, ev) /\ periph_ok p1 /\ pe_addr p1 = pe_addr p.
Proof.
  intros Pok Sh. pose proof Pok as (Ha & Hf & Hq & Hu & Hc).
  assert (Keep : forall q : periph, pe_addr q = pe_addr p -> pe_fcb q = pe_fcb p -> pe_pi_q q = pe_pi_q p ->
                   pe_opts q = pe_opts p -> periph_ok q) by (intros q; apply periph_ok_frame; exact Pok).
  assert (Sc : forall s2 : pstate,
    exists p1 ev, (if is_sc t then let* f := fcb_cycle (pe_fcb p) in Ok (set_retry (set_state (set_fcb p f) s2) 0, @None pevent)
                   else Ok (p, None)) = Ok (p1, ev) /\ periph_ok p1 /\ pe_addr p1 = pe_addr p).
  { intros s2. destruct (is_sc t); [|exists p, None; same_tac].
    destruct (fcb_cycle_total _ Hf) as (f' & Ef & Hf'). rewrite Ef. cbn [bind].
    eexists; eexists. split; [reflexivity|]. split; [|reflexivity]. eapply periph_ok_fcb; [exact Pok| | | |]; try reflexivity. exact Hf'. }
  assert (Fl : forall q : periph, periph_ok q -> pe_diag_in_flight q = true ->
    exists p1 ev, (let* (p1, d) := p_handle_diag q t in
        match d with
        | Some di =>
            let p2 := set_diag_needed (set_retry p1 0) false in
            let p3 := if flags_contains (d_flags di) DF_PARAMETER_REQUIRED then set_state p2 PsWaitForParam else p2 in
            Ok (p3, Some EvDiagnostics)
        | None => Ok (p1, None)
        end) = Ok (p1, ev) /\ periph_ok p1 /\ pe_addr p1 = pe_addr q).
  { intros q Qok _. destruct (p_handle_diag_total q t Qok) as (p1 & d & E & P1 & A1 & _). rewrite E. cbn [bind].
    destruct d as [di|]; [|exists p1, None; same_tac].
    cbv zeta. destruct (flags_contains (d_flags di) DF_PARAMETER_REQUIRED);
      (eexists; eexists; split; [reflexivity|]; split; [|exact A1]);
      (eapply periph_ok_frame; [exact P1| | | |]; reflexivity). }
  assert (Dx : forall q : periph, periph_ok q -> pe_diag_in_flight q = false ->
    exists p1 ev, (let* (p1, ev) := p_receive_dx q t in
        let p2 := set_retry p1 0 in let* f := fcb_cycle (pe_fcb p2) in Ok (set_fcb p2 f, ev)) = Ok (p1, ev) /\
        periph_ok p1 /\ pe_addr p1 = pe_addr q).
  { intros q Qok _. destruct (p_receive_dx_total q t Qok Sh) as (p1 & ev & E & P1 & A1 & F1). rewrite E. cbn [bind].
    cbv zeta. cbn [pe_fcb set_retry]. pose proof P1 as (Pa & Pf & Pq & Pu & Pc).
    destruct (fcb_cycle_total _ Pf) as (f' & Ef & Hf'). rewrite Ef. cbn [bind].
    eexists; eexists. split; [reflexivity|]. split; [|exact A1]. eapply periph_ok_fcb; [exact P1| | | |]; try reflexivity. exact Hf'. }
  unfold p_receive_reply. destruct (pe_state p) eqn:Hst.
  - destruct (p_handle_diag_total p t Pok) as (p1 & d & E & P1 & A1 & _). rewrite E. cbn [bind].
    destruct d; (eexists; eexists; split; [reflexivity|]; split; [|try exact A1]).
    + eapply periph_ok_frame; [exact P1| | | |]; reflexivity.
    + exact P1.
  - apply Sc.
  - apply Sc.
  - assert (P0 : periph_ok (set_retry p 0)) by (apply Keep; reflexivity).
    destruct (p_handle_diag_total _ t P0) as (p1 & d & E & P1 & A1 & _). rewrite E. cbn [bind].
    destruct d as [di|].
    + destruct (validate_outcome (d_flags di)) as [s ev]. eexists; eexists. split; [reflexivity|]. split; [|exact A1].
      eapply periph_ok_frame; [exact P1| | | |]; reflexivity.
    + eexists; eexists. split; [reflexivity|]. split; [|exact A1].
      eapply periph_ok_frame; [exact P1| | | |]; reflexivity.
  - destruct (pe_diag_in_flight p) eqn:Ei; [apply Fl|apply Dx]; assumption.
  - destruct (pe_diag_in_flight p) eqn:Ei; [apply Fl|apply Dx]; assumption.
Qed.

(* ---- the master *)

Lemma DpRep_slots m l : DpRep m -> slots_ok l -> DpRep (set_slots m l).
Proof. intros (_ & G) S. split; [exact S|exact G]. Qed.
Lemma DpRep_cycle m c : DpRep m -> DpRep (set_cycle m c).
Proof. intros H. exact H. Qed.
Lemma DpRep_events m e : DpRep m -> DpRep (set_events m e).
Proof. intros H. exact H. Qed.

Definition tx_post (m' : dpm) (r : DpMaster.txout) : Prop :=
  DpRep m' /\
  match r with
  | Some (wire, er) => Z.of_nat (length wire) <= 65536 /\ forall da, er = Some da -> dp_waiting m' da
  | None => True
  end.

(* the slot loop of transmit_telegram: never panics; (fuel: C14) *)
Lemma dp_tx_loop_no_panic pa : builder_valid pa -> forall fuel m, DpRep m -> dm_op m <> OpStop ->
  match dp_tx_loop fuel pa tx_buffer_size m None with
  | Ok (m', r) => tx_post m' r
  | Panic _ => False
  | OutOfFuel => True
  end.
Proof.
  intros B. induction fuel as [|fuel IH]; intros m D Hop; [exact I|].
  cbn [dp_tx_loop]. pose proof D as (S & G).
  destruct (dm_cycle m) as [index|] eqn:Hc.
  2:{ split; [exact D|exact I]. }
  destruct (get_at_index_ok (dm_slots m) index S) as [E|(i & p & E & Hn & Hi & Pok & Hl)]; rewrite E; cbn [bind].
  { split; [exact D|exact I]. }
  destruct (p_transmit_total pa (dm_op m) p B Hop Pok) as (p1 & r & Et & P1 & A1 & Rq). rewrite Et. cbn [bind hd_index].
  assert (S1 : slots_ok (put_slot (dm_slots m) i p1)) by (apply slots_ok_put; assumption).
  destruct r as [h pdu|ev].
  - destruct Rq as (Wf & Hlb & Hda). destruct (send_data_ok h pdu Wf Hlb) as (Es & Hlen). rewrite Es. cbn [bind].
    split; [apply DpRep_events, DpRep_slots; assumption|]. split; [exact Hlen|].
    intros da Eda. apply expects_reply_da in Eda. exists index, (mkHandle i (pe_addr p1)), p1.
    split; [exact Hc|]. split; [|congruence].
    cbn [dm_slots set_events set_slots]. eapply get_at_index_put; eassumption.
  - assert (Ev : (match ev with Some e => Ok (Some (mkHandle i (pe_addr p), e)) | None => Ok (@None (handle * pevent)) end)
                 = Ok (match ev with Some e => Some (mkHandle i (pe_addr p), e) | None => None end))
      by (destruct ev; reflexivity).
    rewrite Ev. cbn [bind]. clear Ev.
    set (m1 := set_slots m (put_slot (dm_slots m) i p1)).
    assert (D1 : DpRep m1) by (apply DpRep_slots; assumption).
    destruct (increment_cycle_ok m1 index S1) as (c & comp & Ei). rewrite Ei. cbn [bind].
    destruct comp; [split; [exact D1|exact I]|].
    destruct ev as [e|]; [split; [exact D1|exact I]|].
    apply IH; [exact D1|exact Hop].
Qed.

Lemma instant_diff_ok a b : time_ok a -> time_ok b -> instant_diff a b = Ok (Z.abs (a - b)).
Proof.
  unfold time_ok, instant_diff. intros Ha Hb.
  destruct (Z.ltb_spec (a - b) (-9223372036854775808)); [lia|].
  destruct (Z.ltb_spec 9223372036854775807 (a - b)); [lia|]. reflexivity.
Qed.

(* <DpMaster as FdlApplication>::transmit_telegram *)
Theorem dp_transmit_total pa m now hp : builder_valid pa -> time_ok now -> DpRep m ->
  exists m' r, dp_transmit pa tx_buffer_size m now hp = Ok (m', r) /\ tx_post m' r.
Proof.
  intros B Tn D. pose proof D as (S & G). unfold dp_transmit.
  destruct (opstate_eqb (dm_op m) OpStop) eqn:Eop.
  { eexists; eexists. split; [reflexivity|]. split; [exact D|exact I]. }
  assert (Hop : dm_op m <> OpStop) by (intros E; rewrite E in Eop; discriminate Eop).
  assert (Due : exists due, (if hp then Ok false else gc_due pa m now) = Ok due).
  { destruct hp; [exists false; reflexivity|]. unfold gc_due. destruct (dm_last_gc m) as [t|]; [|exists true; reflexivity].
    rewrite (instant_diff_ok now t Tn G). cbn [bind]. eexists; reflexivity. }
  destruct Due as (due & Edue). rewrite Edue. cbn [bind]. destruct due.
  - assert (Eb : exists b, (match dm_op m with OpClear => Ok dp_gc_clear | OpOperate => Ok dp_gc_operate | OpStop => Panic SiteUnreachable end) = Ok b)
      by (destruct (dm_op m); [contradiction Hop; reflexivity|eexists; reflexivity|eexists; reflexivity]).
    destruct Eb as (b & Eb). rewrite Eb. cbn [bind].
    destruct (bv_addr_retry pa B) as (Hts & _).
    assert (Wf : wf_header (gc_header pa)).
    { unfold wf_header, gc_header, is_addr7. cbn. split; [unfold dp_gc_da; lia|]. split; [lia|]. split; cbv; split; congruence. }
    destruct (send_data_ok (gc_header pa) [b; dp_gc_groups] Wf ltac:(unfold length_byte; cbn; lia)) as (Es & Hlen).
    rewrite Es. cbn [bind]. eexists; eexists. split; [reflexivity|].
    split; [split; [exact S|exact Tn]|]. split; [exact Hlen|].
    intros da Eda. discriminate Eda.
  - pose proof (dp_tx_loop_no_panic pa B (dp_tx_fuel m) m D Hop) as H.
    pose proof (tx_loop_ends (dp_tx_fuel m) pa tx_buffer_size m None) as Hf.
    destruct (dp_tx_loop (dp_tx_fuel m) pa tx_buffer_size m None) as [[m' r]| |].
    + exists m', r. split; [reflexivity|exact H].
    + contradiction H.
    + exfalso. apply Hf; [|reflexivity]. unfold dp_tx_fuel. pose proof (mu_le m). lia.
Qed.

(* <DpMaster as FdlApplication>::receive_reply, for the reply the master waits for *)
Theorem dp_receive_reply_total m addr t : DpRep m -> dp_waiting m addr -> reply_shape t ->
  exists m', dp_receive_reply m addr t = Ok m' /\ DpRep m'.
Proof.
  intros D (index & hd & p & Hc & Eg & Ea) Sh. pose proof D as (S & G).
  unfold dp_receive_reply. rewrite Hc, Eg. cbn [bind]. rewrite <- Ea, Z.eqb_refl.
  destruct (get_at_index_ok (dm_slots m) index S) as [E|(i & q & E & Hn & Hi & Pok & Hl)]; rewrite E in Eg; [discriminate Eg|].
  injection Eg as <- <-.
  destruct (p_receive_reply_total q t Pok Sh) as (p1 & ev & Er & P1 & A1). rewrite Er. cbn [bind hd_index].
  assert (S1 : slots_ok (put_slot (dm_slots m) i p1)) by (apply slots_ok_put; assumption).
  destruct (increment_cycle_ok (set_slots m (put_slot (dm_slots m) i p1)) index S1) as (c & comp & Ei). rewrite Ei. cbn [bind].
  eexists. split; [reflexivity|]. split; [exact S1|exact G].
Qed.

Theorem dp_handle_timeout_total m addr : DpRep m -> exists m', dp_handle_timeout m addr = Ok m' /\ DpRep m'.
Proof. intros D. exists m. split; [reflexivity|exact D]. Qed.

(* the DP master satisfies the contract *)
Theorem dp_contract : apps_contract dpm dp_app_ops DpRep dp_waiting.
Proof.
  split; [|split].
  - intros m now p hp D B Tn. cbn [a_tx dp_app_ops].
    destruct (dp_transmit_total p m now hp B Tn D) as (m' & r & E & D' & Hr).
    exists m', r. split; [exact E|]. split; [exact D'|]. destruct r as [[wire er]|]; exact Hr.
  - intros m now p addr t D Wt B Tn Rk. cbn [a_rx dp_app_ops].
    apply dp_receive_reply_total; [exact D|exact Wt|eapply reply_ok_shape; exact Rk].
  - intros m now p addr D Wt B Tn. cbn [a_to dp_app_ops]. apply dp_handle_timeout_total. exact D.
Qed.

(* outside the contract the panic sites are real: a reply nobody waits for *)
Lemma dp_receive_reply_outside_contract :
  dp_receive_reply (dp_new 1 false) 5 TShortConf = Panic SiteUnreachable /\ DpRep (dp_new 1 false).
Proof.
  split; [reflexivity|]. split; [|exact I]. intros [|[|i]] p E; discriminate E.
Qed.

(* non-vacuity: new masters of any size, with peripherals added, satisfy DpRep *)
Lemma DpRep_new k owned : DpRep (dp_new k owned).
Proof.
  split; [|exact I]. intros i p E. cbn in E. exfalso.
  assert (H : forall k i, nth_error (repeat (@None periph) k) i <> Some (Some p)).
  { clear. induction k as [|k IH]; intros [|i]; cbn; try discriminate. apply IH. }
  exact (H _ _ E).
Qed.

Lemma periph_new_ok a o pi_i pi_q dsz : 0 <= a < 128 -> fits dp_dx_dsap dp_dx_ssap (length pi_q) ->
  match o_user_prm o with Some u => fits dp_prm_dsap dp_prm_ssap (7 + length u) | None => True end ->
  match o_config o with Some c => fits dp_cfg_dsap dp_cfg_ssap (length c) | None => True end ->
  periph_ok (periph_new a o pi_i pi_q dsz).
Proof. intros Ha Hq Hu Hc. unfold periph_ok, periph_new. cbn. repeat split; try assumption; try lia. discriminate. Qed.


(* ---- masters whose storage is filled front to back.  PeripheralSet::add takes the first free slot and
   nothing ever frees one, so every storage the public API can produce is `dense` (sparse storages exist
   only through the verif-hooks constructor); DpRepD = DpRep /\ dense is what lets add() be called while a
   reply is outstanding: the new peripheral lands behind the one the cycle index points to. *)
Definition dense (l : list (option periph)) : Prop :=
  forall i j, (i < j)%nat -> nth_error (map occ l) j = Some true -> nth_error (map occ l) i = Some true.

Definition DpRepD (m : dpm) : Prop := DpRep m /\ dense (dm_slots m).

Definition mask_eq (m m' : dpm) : Prop := map occ (dm_slots m') = map occ (dm_slots m).

Lemma dense_mask m m' : mask_eq m m' -> dense (dm_slots m) -> dense (dm_slots m').
Proof. unfold mask_eq, dense. intros ->. tauto. Qed.

Lemma increment_cycle_slots m index m2 c : increment_cycle m index = Ok (m2, c) -> dm_slots m2 = dm_slots m.
Proof.
  unfold increment_cycle. destruct (get_next_index (dm_slots m) index) as [[n|]| |]; cbn [bind]; try discriminate;
    intros E; injection E as <- _; reflexivity.
Qed.

(* the callbacks never change which slots are occupied (from every state, no invariant needed) *)
Lemma dp_tx_loop_mask pa bs : forall fuel m pev m' r,
  dp_tx_loop fuel pa bs m pev = Ok (m', r) -> mask_eq m m'.
Proof.
  induction fuel as [|fuel IH]; intros m pev m' r E; [discriminate E|].
  cbn [dp_tx_loop] in E. unfold mask_eq.
  destruct (dm_cycle m) as [index|]; [|injection E as <- _; reflexivity].
  destruct (get_at_index (dm_slots m) index) as [[[hd p]|]| |] eqn:Eg; cbn [bind] in E; try discriminate E;
    [|injection E as <- _; reflexivity].
  pose proof (get_at_index_some _ _ _ _ Eg) as Hn.
  destruct (p_transmit pa (dm_op m) p) as [[p1 rr]| |]; cbn [bind] in E; try discriminate E.
  assert (M1 : map occ (put_slot (dm_slots m) (hd_index hd) p1) = map occ (dm_slots m)) by (eapply put_slot_mask; exact Hn).
  destruct rr as [h pdu|ev].
  - destruct (send_data bs h pdu) as [o| |]; cbn [bind] in E; try discriminate E. injection E as <- _. exact M1.
  - match type of E with bind ?x _ = _ => destruct x as [pev1| |] end; cbn [bind] in E; try discriminate E.
    match type of E with bind (increment_cycle ?mm _) _ = _ => destruct (increment_cycle mm index) as [[m2 comp]| |] eqn:Ei end;
      cbn [bind] in E; try discriminate E.
    apply increment_cycle_slots in Ei. cbn [dm_slots set_slots] in Ei.
    destruct comp; [injection E as <- _; cbn; rewrite Ei; exact M1|].
    destruct pev1; [injection E as <- _; cbn; rewrite Ei; exact M1|].
    apply IH in E. unfold mask_eq in E. rewrite E, Ei. exact M1.
Qed.

Lemma dp_transmit_mask pa bs m now hp m' r : dp_transmit pa bs m now hp = Ok (m', r) -> mask_eq m m'.
Proof.
  unfold dp_transmit. destruct (opstate_eqb (dm_op m) OpStop); [intros E; injection E as <- _; reflexivity|].
  destruct (if hp then Ok false else gc_due pa m now) as [due| |]; cbn [bind]; try discriminate.
  destruct due.
  - destruct (dm_op m); cbn [bind]; try discriminate;
      (destruct (send_data bs (gc_header pa) _) as [o| |]; cbn [bind]; try discriminate; intros E; injection E as <- _; reflexivity).
  - apply dp_tx_loop_mask.
Qed.

Lemma dp_receive_reply_mask m addr t m' : dp_receive_reply m addr t = Ok m' -> mask_eq m m'.
Proof.
  unfold dp_receive_reply, mask_eq. destruct (dm_cycle m) as [index|]; [|discriminate].
  destruct (get_at_index (dm_slots m) index) as [[[hd p]|]| |] eqn:Eg; cbn [bind]; try discriminate.
  pose proof (get_at_index_some _ _ _ _ Eg) as Hn.
  destruct (addr =? pe_addr p); [|discriminate].
  destruct (p_receive_reply p t) as [[p1 ev]| |]; cbn [bind]; try discriminate.
  match goal with |- bind (increment_cycle ?mm _) _ = _ -> _ => destruct (increment_cycle mm index) as [[m2 comp]| |] eqn:Ei end;
    cbn [bind]; try discriminate.
  apply increment_cycle_slots in Ei. cbn [dm_slots set_slots] in Ei.
  intros E. injection E as <-. cbn. rewrite Ei. eapply put_slot_mask; exact Hn.
Qed.

Theorem dpd_contract : apps_contract dpm dp_app_ops DpRepD dp_waiting.
Proof.
  destruct dp_contract as (Tx & Rx & To). split; [|split].
  - intros m now p hp (D & Dn) B Tn. destruct (Tx m now p hp D B Tn) as (m' & r & E & D' & Hr).
    exists m', r. split; [exact E|]. split; [|exact Hr]. split; [exact D'|].
    eapply dense_mask; [|exact Dn]. eapply dp_transmit_mask. exact E.
  - intros m now p addr t (D & Dn) W B Tn Rk. destruct (Rx m now p addr t D W B Tn Rk) as (m' & E & D').
    exists m'. split; [exact E|]. split; [exact D'|]. eapply dense_mask; [|exact Dn]. eapply dp_receive_reply_mask. exact E.
  - intros m now p addr (D & Dn) W B Tn. exists m. split; [reflexivity|]. split; assumption.
Qed.

Lemma dense_repeat k : dense (repeat (@None periph) k).
Proof.
  intros i j _ H. exfalso. revert j H. induction k as [|k IH]; intros [|j] H; cbn in H; try discriminate. eapply IH. exact H.
Qed.

Lemma DpRepD_new k owned : DpRepD (dp_new k owned).
Proof. split; [apply DpRep_new|apply dense_repeat]. Qed.

(* ------------------------------------------------------------------------------------------ *)
(* Part 3: live list and DP scanner                                                             *)

(* invariant: the cursor is an address 0..125 - ANY station set, any uncollected event, either value of
   current_address_done; waiting for da: da is an address 0..125 (the applications index a 128-bit array
   with it, C18_panic_outside_contract) *)
Definition ll_ok (s : ll) : Prop := 0 <= ll_cursor s <= 125.
Definition sc_ok (s : scanner) : Prop := 0 <= sc_cursor s <= 125.
Definition scan_waiting (da : Z) : Prop := 0 <= da <= 125.

Lemma frame_spec_small h : Z.of_nat (length (frame_spec h [])) <= 65536.
Proof.
  rewrite frame_spec_length. unfold telegram_len_data, length_byte. cbn [length].
  destruct (h_dsap h), (h_ssap h); cbn; lia.
Qed.

Theorem ll_contract : apps_contract ll ll_app_ops ll_ok (fun _ => scan_waiting).
Proof.
  split; [|split].
  - intros s now p hp Hs B Tn. cbn [a_tx ll_app_ops]. destruct (bv_addr_retry p B) as (Hts & _).
    unfold ll_transmit. destruct (ll_done s).
    + cbn [bind sb_result]. eexists; eexists. split; [reflexivity|]. split; [|exact I].
      unfold ll_ok, LL_LAST, LL_FIRST in *. cbn [ll_cursor]. destruct (Z.ltb_spec (ll_cursor s) 125); lia.
    + rewrite (send_request_ok _ (ll_request_wf (p_address p) (ll_cursor s) Hts Hs)). cbn [bind sb_result tx_wire tx_exp].
      eexists; eexists. split; [reflexivity|]. split; [exact Hs|]. split; [apply frame_spec_small|].
      intros da E. apply expects_reply_da in E. subst da. exact Hs.
  - intros s now p addr t Hs Hw B Tn _. cbn [a_rx ll_app_ops]. rewrite (ll_receive_ok s addr t Hw).
    eexists. split; [reflexivity|]. unfold ll_ok. destruct (Z.testbit (ll_stations s) addr); exact Hs.
  - intros s now p addr Hs Hw B Tn. cbn [a_to ll_app_ops]. rewrite (ll_timeout_ok s addr Hw).
    eexists. split; [reflexivity|]. unfold ll_ok. destruct (Z.testbit (ll_stations s) addr); exact Hs.
Qed.

Theorem sc_contract : apps_contract scanner sc_app_ops sc_ok (fun _ => scan_waiting).
Proof.
  split; [|split].
  - intros s now p hp Hs B Tn. cbn [a_tx sc_app_ops]. destruct (bv_addr_retry p B) as (Hts & _).
    unfold sc_transmit. destruct (sc_done s).
    + cbn [bind sb_result]. eexists; eexists. split; [reflexivity|]. split; [|exact I].
      unfold sc_ok, SC_LAST, SC_FIRST in *. cbn [sc_cursor]. destruct (Z.ltb_spec (sc_cursor s) 125); lia.
    + rewrite (send_request_ok _ (sc_request_wf (p_address p) (sc_cursor s) Hts Hs)). cbn [bind sb_result tx_wire tx_exp].
      eexists; eexists. split; [reflexivity|]. split; [exact Hs|]. split; [apply frame_spec_small|].
      intros da E. apply expects_reply_da in E. subst da. exact Hs.
  - intros s now p addr t Hs Hw B Tn _. cbn [a_rx sc_app_ops]. destruct (sc_parse_total t) as (d & Ed).
    rewrite (sc_receive_ok s addr t d Hw Ed).
    eexists. split; [reflexivity|]. unfold sc_ok. destruct d; [cbv zeta; destruct (Z.testbit (sc_stations s) addr)|]; exact Hs.
  - intros s now p addr Hs Hw B Tn. cbn [a_to sc_app_ops]. rewrite (sc_timeout_ok s addr Hw).
    eexists. split; [reflexivity|]. unfold sc_ok. destruct (Z.testbit (sc_stations s) addr); exact Hs.
Qed.

(* ------------------------------------------------------------------------------------------ *)
(* Part 4: any mixture of the applications in one list                                          *)

Definition any_ok (a : any_app) : Prop :=
  match a with AppUnit => True | AppDp m => DpRepD m | AppLl s => ll_ok s | AppSc s => sc_ok s end.
Definition any_waiting (a : any_app) (da : Z) : Prop :=
  match a with AppUnit => False | AppDp m => dp_waiting m da | AppLl _ => scan_waiting da | AppSc _ => scan_waiting da end.

Theorem any_contract : apps_contract any_app any_app_ops any_ok any_waiting.
Proof.
  destruct dpd_contract as (Dtx & Drx & Dto). destruct ll_contract as (Ltx & Lrx & Lto). destruct sc_contract as (Stx & Srx & Sto).
  split; [|split].
  - intros [|m|s|s] now p hp Ha B Tn; cbn [a_tx any_app_ops any_ok] in *.
    + exists AppUnit, None. split; [reflexivity|]. split; exact I.
    + destruct (Dtx m now p hp Ha B Tn) as (m' & r & E & Ha' & Hr). rewrite E. cbn [bind]. exists (AppDp m'), r. split; [reflexivity|]. split; [exact Ha'|exact Hr].
    + destruct (Ltx s now p hp Ha B Tn) as (s' & r & E & Ha' & Hr). rewrite E. cbn [bind]. exists (AppLl s'), r. split; [reflexivity|]. split; [exact Ha'|exact Hr].
    + destruct (Stx s now p hp Ha B Tn) as (s' & r & E & Ha' & Hr). rewrite E. cbn [bind]. exists (AppSc s'), r. split; [reflexivity|]. split; [exact Ha'|exact Hr].
  - intros [|m|s|s] now p addr t Ha Hw B Tn Rk; cbn [a_rx any_app_ops any_ok any_waiting] in *.
    + contradiction Hw.
    + destruct (Drx m now p addr t Ha Hw B Tn Rk) as (m' & E & Ha'). rewrite E. exists (AppDp m'). split; [reflexivity|exact Ha'].
    + destruct (Lrx s now p addr t Ha Hw B Tn Rk) as (s' & E & Ha'). rewrite E. exists (AppLl s'). split; [reflexivity|exact Ha'].
    + destruct (Srx s now p addr t Ha Hw B Tn Rk) as (s' & E & Ha'). rewrite E. exists (AppSc s'). split; [reflexivity|exact Ha'].
  - intros [|m|s|s] now p addr Ha Hw B Tn; cbn [a_to any_app_ops any_ok any_waiting] in *.
    + contradiction Hw.
    + destruct (Dto m now p addr Ha Hw B Tn) as (m' & E & Ha'). rewrite E. exists (AppDp m'). split; [reflexivity|exact Ha'].
    + destruct (Lto s now p addr Ha Hw B Tn) as (s' & E & Ha'). rewrite E. exists (AppLl s'). split; [reflexivity|exact Ha'].
    + destruct (Sto s now p addr Ha Hw B Tn) as (s' & E & Ha'). rewrite E. exists (AppSc s'). split; [reflexivity|exact Ha'].
Qed.

(* ------------------------------------------------------------------------------------------ *)
(* User calls on the DP master between polls: they keep DpRep and keep the master waiting        *)

Lemma get_at_index_put_same_addr l index hd p j q0 q : slots_ok l ->
  get_at_index l index = Ok (Some (hd, p)) -> nth_error l j = Some (Some q0) -> pe_addr q = pe_addr q0 ->
  exists hd' p', get_at_index (put_slot l j q) index = Ok (Some (hd', p')) /\ pe_addr p' = pe_addr p.
Proof.
  intros S Eg Ej Ea.
  destruct (get_at_index_ok l index S) as [E|(i & p0 & E & Hn & Hi & Pok & Hl)]; rewrite E in Eg; [discriminate Eg|].
  injection Eg as <- <-.
  destruct (Nat.eq_dec j i) as [->|Ne].
  - rewrite Hn in Ej. injection Ej as <-. eexists; eexists. split; [eapply get_at_index_put; eassumption|exact Ea].
  - exists (mkHandle i (pe_addr p0)), p0. split; [|reflexivity].
    unfold get_at_index in *.
    destruct (find_occupied (skipn index l) index) as [[i0 q1]|] eqn:Ef; [|discriminate E].
    unfold u8_index in E. destruct (Nat.ltb 255 i0) eqn:E255; [discriminate E|]. cbn [bind] in E. injection E as Ei _ Eq. subst i0 q1.
    apply find_occupied_spec in Ef. destruct Ef as (k & -> & Hk & Hb).
    assert (Ef' : find_occupied (skipn index (put_slot l j q)) index = Some ((index + k)%nat, p0)).
    { apply find_occupied_spec. exists k. split; [reflexivity|]. split.
      - rewrite nth_error_skipn', nth_error_put_slot.
        destruct (Nat.eqb_spec (index + k) j); [lia|]. cbn [andb]. exact Hn.
      - intros k' L. rewrite nth_error_skipn', nth_error_put_slot.
        destruct (Nat.eqb_spec (index + k') j) as [<-|_]; cbn [andb].
        + specialize (Hb k' L). rewrite nth_error_skipn' in Hb. congruence.
        + rewrite <- nth_error_skipn'. apply Hb. exact L. }
    rewrite Ef'. unfold u8_index. rewrite E255. reflexivity.
Qed.

Lemma dp_replace_ok m j q0 q : DpRep m -> nth_error (dm_slots m) j = Some (Some q0) ->
  periph_ok q -> pe_addr q = pe_addr q0 ->
  DpRep (set_slots m (put_slot (dm_slots m) j q)) /\
  forall da, dp_waiting m da -> dp_waiting (set_slots m (put_slot (dm_slots m) j q)) da.
Proof.
  intros (S & G) Ej Qok Ea. destruct (S _ _ Ej) as (Hj & _). split.
  - split; [apply slots_ok_put; assumption|exact G].
  - intros da (index & hd & p & Hc & Eg & Hda).
    destruct (get_at_index_put_same_addr _ _ _ _ _ _ _ S Eg Ej Ea) as (hd' & p' & Eg' & Ha').
    exists index, hd', p'. split; [exact Hc|]. split; [exact Eg'|congruence].
Qed.

(* the user calls as functions on the master (a call that panics - foreign handle, wrong length - is
   not part of a history) *)
Definition u_take_last_events (m : dpm) : dpm := fst (dp_take_last_events m).
Definition u_enter_state (s : opstate) (m : dpm) : dpm := dp_enter_state_unwound m s.
Definition u_request_diagnostics (h : handle) (m : dpm) : dpm :=
  match dp_request_diagnostics m h with Ok m' => m' | _ => m end.
Definition u_write_q (h : handle) (q : bytes) (m : dpm) : dpm :=
  match dp_write_q m h q with Ok m' => m' | _ => m end.

Lemma dp_user_calls_ok :
  user_ok dpm DpRep dp_waiting u_take_last_events /\
  (forall s, user_ok dpm DpRep dp_waiting (u_enter_state s)) /\
  (forall h, user_ok dpm DpRep dp_waiting (u_request_diagnostics h)) /\
  (forall h q, user_ok dpm DpRep dp_waiting (u_write_q h q)).
Proof.
  split; [|split; [|split]].
  - split; [intros m D; exact D|intros m da _ W; exact W].
  - intros s. split; [intros m (S & _); split; [exact S|exact I]|intros m da _ W; exact W].
  - intros h.
    assert (K : forall m, DpRep m -> DpRep (u_request_diagnostics h m) /\ forall da, dp_waiting m da -> dp_waiting (u_request_diagnostics h m) da).
    { intros m D. unfold u_request_diagnostics, dp_request_diagnostics, dp_update, dp_get_mut.
      destruct (nth_error (dm_slots m) (hd_index h)) as [[p|]|] eqn:E; cbn [bind]; try (split; [exact D|tauto]).
      destruct D as (S & G). destruct (S _ _ E) as (_ & Pok).
      apply (dp_replace_ok m (hd_index h) p); [split; assumption|exact E| |reflexivity].
      eapply periph_ok_frame; [exact Pok| | | |]; reflexivity. }
    split; [intros m D; apply K, D|intros m da D W; apply K; assumption].
  - intros h q.
    assert (K : forall m, DpRep m -> DpRep (u_write_q h q m) /\ forall da, dp_waiting m da -> dp_waiting (u_write_q h q m) da).
    { intros m D. unfold u_write_q, dp_write_q, dp_get_mut.
      destruct (nth_error (dm_slots m) (hd_index h)) as [[p|]|] eqn:E; cbn [bind]; try (split; [exact D|tauto]).
      unfold copy_from_slice. destruct (Nat.eqb_spec (length (pe_pi_q p)) (length q)) as [El|_]; cbn [bind]; [|split; [exact D|tauto]].
      destruct D as (S & G). destruct (S _ _ E) as (_ & Pok).
      apply (dp_replace_ok m (hd_index h) p); [split; assumption|exact E| |reflexivity].
      destruct Pok as (Ha & Hf & Hq & Hu & Hc). unfold periph_ok. cbn. rewrite <- El. tauto. }
    split; [intros m D; apply K, D|intros m da D W; apply K; assumption].
Qed.

(* DpMaster::add keeps DpRep (a panic - full fixed storage, 257th slot - is not part of a history) *)
Lemma dp_add_rep m p : DpRep m -> periph_ok p ->
  match dp_add m p with Ok (m', _) => DpRep m' | _ => True end.
Proof.
  intros (S & G) Pok. unfold dp_add.
  destruct (first_free (dm_slots m) 0) as [i|].
  - unfold u8_index. destruct (Nat.ltb_spec 255 i); cbn [bind]; [exact I|].
    split; [apply slots_ok_put; [exact S|lia|exact Pok]|exact G].
  - destruct (dm_owned m); [|exact I]. unfold u8_index.
    destruct (Nat.ltb_spec 255 (length (dm_slots m))); cbn [bind]; [exact I|].
    split; [|exact G]. intros j q E. cbn [dm_slots set_slots] in E.
    destruct (Nat.lt_ge_cases j (length (dm_slots m))) as [L|L].
    + rewrite nth_error_app1 in E by exact L. apply S; exact E.
    + rewrite nth_error_app2 in E by exact L.
      destruct (j - length (dm_slots m))%nat as [|d] eqn:Ed; cbn in E; [|destruct d; discriminate E].
      injection E as <-. split; [lia|exact Pok].
Qed.


(* the same calls keep the occupancy, hence DpRepD *)
Lemma dp_user_calls_mask :
  (forall m, mask_eq m (u_take_last_events m)) /\ (forall s m, mask_eq m (u_enter_state s m)) /\
  (forall h m, mask_eq m (u_request_diagnostics h m)) /\ (forall h q m, mask_eq m (u_write_q h q m)).
Proof.
  split; [|split; [|split]]; unfold mask_eq.
  - reflexivity.
  - reflexivity.
  - intros h m. unfold u_request_diagnostics, dp_request_diagnostics, dp_update, dp_get_mut.
    destruct (nth_error (dm_slots m) (hd_index h)) as [[p|]|] eqn:E; cbn [bind]; try reflexivity.
    cbn. eapply put_slot_mask. exact E.
  - intros h q m. unfold u_write_q, dp_write_q, dp_get_mut.
    destruct (nth_error (dm_slots m) (hd_index h)) as [[p|]|] eqn:E; cbn [bind]; try reflexivity.
    unfold copy_from_slice. destruct (Nat.eqb (length (pe_pi_q p)) (length q)); cbn [bind]; try reflexivity.
    cbn. eapply put_slot_mask. exact E.
Qed.

Lemma user_ok_dense g : user_ok dpm DpRep dp_waiting g -> (forall m, mask_eq m (g m)) -> user_ok dpm DpRepD dp_waiting g.
Proof.
  intros (G1 & G2) M. split.
  - intros m (D & Dn). split; [apply G1, D|]. eapply dense_mask; [apply M|exact Dn].
  - intros m da (D & _) W. apply G2; assumption.
Qed.

(* DpMaster::add at any time, also while a reply is outstanding *)
Definition u_add (p : periph) (m : dpm) : dpm := match dp_add m p with Ok (m', _) => m' | _ => m end.

Lemma first_free_spec (l : list (option periph)) : forall j i, first_free l j = Some i ->
  exists k, i = (j + k)%nat /\ nth_error l k = Some None /\ forall k', (k' < k)%nat -> nth_error (map occ l) k' = Some true.
Proof.
  induction l as [|x l IH]; intros j i E; [discriminate E|].
  destruct x as [q|]; cbn [first_free] in E.
  - destruct (IH _ _ E) as (k & -> & En & Hb). exists (S k). split; [lia|]. split; [exact En|].
    intros [|k'] L; [reflexivity|]. cbn. apply Hb. lia.
  - injection E as <-. exists 0%nat. split; [lia|]. split; [reflexivity|]. intros k' L. lia.
Qed.

Lemma first_free_none (l : list (option periph)) : forall j, first_free l j = None ->
  forall k, (k < length l)%nat -> nth_error (map occ l) k = Some true.
Proof.
  induction l as [|x l IH]; intros j E k L; [cbn in L; lia|].
  destruct x as [q|]; cbn [first_free] in E; [|discriminate E].
  destruct k as [|k]; [reflexivity|]. cbn. eapply IH; [exact E|cbn in L; lia].
Qed.

Lemma get_at_index_ext l l' index hd p0 : get_at_index l index = Ok (Some (hd, p0)) ->
  (forall j, (j <= hd_index hd)%nat -> nth_error l' j = nth_error l j) ->
  get_at_index l' index = Ok (Some (hd, p0)).
Proof.
  unfold get_at_index. intros E Hx.
  destruct (find_occupied (skipn index l) index) as [[i q]|] eqn:Ef; [|discriminate E].
  unfold u8_index in *. destruct (Nat.ltb 255 i) eqn:E255; [discriminate E|]. cbn [bind] in E.
  injection E as <- <-. cbn [hd_index] in Hx.
  apply find_occupied_spec in Ef. destruct Ef as (k & -> & Hn & Hb).
  assert (Ef' : find_occupied (skipn index l') index = Some ((index + k)%nat, q)).
  { apply find_occupied_spec. exists k. split; [reflexivity|]. split.
    - rewrite nth_error_skipn', Hx by lia. rewrite <- nth_error_skipn'. exact Hn.
    - intros k' L. rewrite nth_error_skipn', Hx by lia. rewrite <- nth_error_skipn'. apply Hb. exact L. }
  rewrite Ef', E255. reflexivity.
Qed.

Lemma nth_error_occ (l : list (option periph)) j : nth_error (map occ l) j = Some true <-> exists q, nth_error l j = Some (Some q).
Proof.
  rewrite nth_error_map. destruct (nth_error l j) as [[q|]|]; cbn; split; try discriminate.
  - intros _. exists q. reflexivity.
  - reflexivity.
  - intros (q & E). discriminate E.
  - intros (q & E). discriminate E.
Qed.

Lemma dp_add_user_ok p : periph_ok p -> user_ok dpm DpRepD dp_waiting (u_add p).
Proof.
  intros Pok.
  assert (K : forall m, DpRepD m -> DpRepD (u_add p m) /\ forall da, dp_waiting m da -> dp_waiting (u_add p m) da).
  { intros m (D & Dn). pose proof (dp_add_rep m p D Pok) as Hr. unfold u_add. unfold dp_add in *.
    destruct (first_free (dm_slots m) 0) as [i|] eqn:Ef.
    - unfold u8_index in *. destruct (Nat.ltb 255 i); cbn [bind] in *; [split; [split; assumption|tauto]|].
      destruct (first_free_spec _ _ _ Ef) as (k & Ek & En & Hb). cbn in Ek. subst k.
      assert (Hl : (i < length (dm_slots m))%nat) by (apply nth_error_Some; congruence).
      split; [split; [exact Hr|]|].
      + cbn [dm_slots set_slots]. intros a b Lab Hbt. apply nth_error_occ in Hbt. destruct Hbt as (q & Eq).
        apply nth_error_occ. rewrite nth_error_put_slot in *.
        destruct (Nat.eqb_spec a i) as [->|Na]; cbn [andb].
        * destruct (Nat.ltb_spec i (length (dm_slots m))); [eexists; reflexivity|lia].
        * apply nth_error_occ.
          destruct (Nat.eqb_spec b i) as [->|Nb]; cbn [andb] in Eq.
          -- apply Hb. lia.
          -- apply (Dn a b Lab). apply nth_error_occ. exists q. exact Eq.
      + intros da (index & hd & p0 & Hc & Eg & Hda). exists index, hd, p0. split; [exact Hc|]. split; [|exact Hda].
        cbn [dm_slots set_slots]. eapply get_at_index_ext; [exact Eg|].
        intros j Lj. rewrite nth_error_put_slot. destruct (Nat.eqb_spec j i) as [->|_]; [|reflexivity].
        exfalso. pose proof (get_at_index_some _ _ _ _ Eg) as Hk.
        destruct (Nat.eq_dec i (hd_index hd)) as [Ei|Ni]; [rewrite Ei in En; congruence|].
        assert (Ho : nth_error (map occ (dm_slots m)) i = Some true).
        { apply (Dn i (hd_index hd)); [lia|]. apply nth_error_occ. eexists; exact Hk. }
        apply nth_error_occ in Ho. destruct Ho as (q & Eq). congruence.
    - destruct (dm_owned m); [|split; [split; assumption|tauto]].
      unfold u8_index in *. destruct (Nat.ltb 255 (length (dm_slots m))); cbn [bind] in *; [split; [split; assumption|tauto]|].
      pose proof (first_free_none _ _ Ef) as Hall.
      split; [split; [exact Hr|]|].
      + cbn [dm_slots set_slots]. intros a b Lab Hbt.
        assert (Lb : (b < length (map occ (dm_slots m ++ [Some p])))%nat) by (apply nth_error_Some; congruence).
        rewrite map_length, app_length in Lb. cbn in Lb.
        rewrite map_app, nth_error_app1 by (rewrite map_length; lia). apply Hall. lia.
      + intros da (index & hd & p0 & Hc & Eg & Hda). exists index, hd, p0. split; [exact Hc|]. split; [|exact Hda].
        cbn [dm_slots set_slots]. eapply get_at_index_ext; [exact Eg|].
        intros j Lj. pose proof (get_at_index_some _ _ _ _ Eg) as Hk.
        assert (Lk : (hd_index hd < length (dm_slots m))%nat) by (apply nth_error_Some; congruence).
        apply nth_error_app1. lia. }
  split; [intros m D; apply K, D|intros m da D W; apply K; assumption].
Qed.

Lemma dp_user_calls_dense_ok :
  user_ok dpm DpRepD dp_waiting u_take_last_events /\
  (forall s, user_ok dpm DpRepD dp_waiting (u_enter_state s)) /\
  (forall h, user_ok dpm DpRepD dp_waiting (u_request_diagnostics h)) /\
  (forall h q, user_ok dpm DpRepD dp_waiting (u_write_q h q)) /\
  (forall p, periph_ok p -> user_ok dpm DpRepD dp_waiting (u_add p)).
Proof.
  destruct dp_user_calls_ok as (A1 & A2 & A3 & A4). destruct dp_user_calls_mask as (M1 & M2 & M3 & M4).
  split; [apply user_ok_dense; assumption|]. split; [intros s; apply user_ok_dense; [apply A2|apply M2]|].
  split; [intros h; apply user_ok_dense; [apply A3|apply M3]|].
  split; [intros h q; apply user_ok_dense; [apply A4|apply M4]|]. exact dp_add_user_ok.
Qed.

(* a user call on the i-th application if it is a DP master *)
Definition on_dp (g : dpm -> dpm) (a : any_app) : any_app :=
  match a with AppDp m => AppDp (g m) | _ => a end.

Lemma on_dp_ok g : user_ok dpm DpRepD dp_waiting g -> user_ok any_app any_ok any_waiting (on_dp g).
Proof.
  intros (G1 & G2). split.
  - intros [|m|s|s] H; cbn in *; try exact H. apply G1, H.
  - intros [|m|s|s] da H W; cbn in *; try exact W. apply G2; assumption.
Qed.

(* ------------------------------------------------------------------------------------------ *)
(* The composition: Fdl.poll with the real applications never panics                            *)

Definition any_ev := app_ev any_app.
Definition any_ev_ok : any_ev -> Prop := app_ev_ok any_app any_ok any_waiting.
Definition run_any := run_app_events any_app any_app_ops.

(* one poll, from any station state satisfying Rep and any application states satisfying their
   invariants *)
Theorem poll_with_apps_step (f : fdl) (now : Z) (pin : phy_in) (apps : list any_app) :
  Rep (length apps) f -> AppsInv any_app any_ok any_waiting f apps -> time_ok now -> all_bytes (rx pin) ->
  exists f' o apps' c, Fdl.poll any_app_ops f now pin apps = Ok (f', o, apps', c) /\
    Rep (length apps) f' /\ AppsInv any_app any_ok any_waiting f' apps' /\ length apps' = length apps.
Proof. exact (poll_rep_stepA any_app any_app_ops any_ok any_waiting any_contract f now pin apps). Qed.

Theorem no_panic_with_apps (p : params) (apps : list any_app) (evs : list any_ev) :
  builder_valid p -> Forall any_ok apps -> Forall any_ev_ok evs ->
  exists f0 f' apps', fdl_new p = Ok f0 /\ run_any f0 apps evs = Ok (f', apps') /\
    Rep (length apps) f' /\ Forall any_ok apps' /\ length apps' = length apps.
Proof.
  intros B Fa F.
  destruct (no_panic_contract any_app any_app_ops any_ok any_waiting any_contract p apps evs B Fa F)
    as (f0 & f' & apps' & E0 & E & R & (Fa' & _) & L).
  exists f0, f', apps'. tauto.
Qed.

(* the single-application instances: poll(now, phy, &mut dp_master) etc. *)
Theorem no_panic_dp_master (p : params) (m : dpm) (evs : list (app_ev dpm)) :
  builder_valid p -> DpRep m -> Forall (app_ev_ok dpm DpRep dp_waiting) evs ->
  exists f0 f' m', fdl_new p = Ok f0 /\ run_app_events dpm dp_app_ops f0 [m] evs = Ok (f', [m']) /\
    Rep 1 f' /\ DpRep m'.
Proof.
  intros B D F.
  destruct (no_panic_contract dpm dp_app_ops DpRep dp_waiting dp_contract p [m] evs B (Forall_cons _ D (Forall_nil _)) F)
    as (f0 & f' & apps' & E0 & E & R & (Fa' & _) & L).
  destruct apps' as [|m' [|x t]]; try discriminate L. inversion Fa'; subst.
  exists f0, f', m'. tauto.
Qed.

Theorem no_panic_live_list (p : params) (s : ll) (evs : list (app_ev ll)) :
  builder_valid p -> ll_ok s -> Forall (app_ev_ok ll ll_ok (fun _ => scan_waiting)) evs ->
  exists f0 f' s', fdl_new p = Ok f0 /\ run_app_events ll ll_app_ops f0 [s] evs = Ok (f', [s']) /\
    Rep 1 f' /\ ll_ok s'.
Proof.
  intros B D F.
  destruct (no_panic_contract ll ll_app_ops ll_ok _ ll_contract p [s] evs B (Forall_cons _ D (Forall_nil _)) F)
    as (f0 & f' & apps' & E0 & E & R & (Fa' & _) & L).
  destruct apps' as [|s' [|x t]]; try discriminate L. inversion Fa'; subst.
  exists f0, f', s'. tauto.
Qed.

Theorem no_panic_scanner (p : params) (s : scanner) (evs : list (app_ev scanner)) :
  builder_valid p -> sc_ok s -> Forall (app_ev_ok scanner sc_ok (fun _ => scan_waiting)) evs ->
  exists f0 f' s', fdl_new p = Ok f0 /\ run_app_events scanner sc_app_ops f0 [s] evs = Ok (f', [s']) /\
    Rep 1 f' /\ sc_ok s'.
Proof.
  intros B D F.
  destruct (no_panic_contract scanner sc_app_ops sc_ok _ sc_contract p [s] evs B (Forall_cons _ D (Forall_nil _)) F)
    as (f0 & f' & apps' & E0 & E & R & (Fa' & _) & L).
  destruct apps' as [|s' [|x t]]; try discriminate L. inversion Fa'; subst.
  exists f0, f', s'. tauto.
Qed.

(* non-vacuity: a master with two peripherals in a four-slot storage, a live list and a scanner *)
Definition demo_periph (a : Z) : periph := periph_new a (mkOpts 4711 false false 0 0 false (Some [1; 2; 3]) (Some [33])) [0] [0; 0] 8.
Definition demo_master : dpm :=
  match dp_add (dp_new 4 false) (demo_periph 8) with
  | Ok (m1, _) => match dp_add m1 (demo_periph 9) with Ok (m2, _) => dp_enter_state_unwound m2 OpOperate | _ => m1 end
  | _ => dp_new 4 false
  end.

Lemma demo_master_rep : DpRepD demo_master /\ occupied demo_master = [0%nat; 1%nat] /\
  Forall any_ok [AppDp demo_master; AppLl ll_new; AppSc sc_new; AppUnit].
Proof.
  assert (D : DpRepD demo_master).
  { split.
    - split; [|exact I]. intros [|[|[|[|i]]]] q E; cbn in E; try discriminate E; try (destruct i; discriminate E);
        injection E as <-; (split; [lia|]); apply periph_new_ok; unfold fits; cbn; lia.
    - intros [|[|a]] [|[|[|[|b]]]] L H; cbn in *; try reflexivity; try lia; try discriminate H.
      destruct b; discriminate H. }
  split; [exact D|]. split; [reflexivity|].
  constructor; [exact D|]. constructor; [cbv; split; congruence|]. constructor; [cbv; split; congruence|].
  constructor; [exact I|constructor].
Qed.

(* the preconditions on the image sizes are necessary: a peripheral in data exchange whose output image
   has 247 bytes makes transmit_telegram panic in the serializer (assert!(length_byte <= 249)); reproduced
   on the crate (pb_harness run dp, `P - 7 .. 1 247 0`: PANIC src/fdl/telegram.rs:298, 246 bytes: no panic) *)
Definition oversize_master : dpm :=
  mkDpm [Some (mkPeriph 7 PsDataExchange 0 FcbHigh [] (repeat 0 247) None ext_default false false default_options)]
        false OpOperate (Some 0) (CyDataExchange 0) events_default.

Lemma oversize_output_panics :
  dp_transmit default_params tx_buffer_size oversize_master 0 true = Panic SiteAssertLen /\
  ~ DpRep oversize_master.
Proof.
  split; [vm_compute; reflexivity|]. intros (S & _). destruct (S 0%nat _ eq_refl) as (_ & (_ & _ & Hq & _)).
  unfold fits in Hq. cbn in Hq. lia.
Qed.

(* non-vacuity of the composition: a token-holding station (Rep) with the demo master (two peripherals,
   nobody answers except one SC), a live list and a scanner: the model runs through 18 polls; all three
   applications are asked in turn, send, receive a reply or a time-out *)
Definition demo_station (f0 : fdl) : fdl :=
  set_hold (set_lba (set_gap (set_st (set_conn f0 ConnOnline) (UseToken 0 None false)) (GapWaiting 0)) (Some 0)) 0 1000000000.
Definition demo_apps : list any_app := [AppDp demo_master; AppLl ll_new; AppSc sc_new].

Fixpoint polls (f : fdl) (apps : list any_app) (l : list (Z * phy_in)) : res (fdl * list any_app * list call) :=
  match l with
  | [] => Ok (f, apps, [])
  | (now, pin) :: t =>
      let* (f1, _, a1, c1) := Fdl.poll any_app_ops f now pin apps in
      let* (f2, a2, c2) := polls f1 a1 t in Ok (f2, a2, c1 ++ c2)
  end.

(* a call without its bytes: (application, 0 = declined | 1 = sent | 2 = reply | 3 = time-out, station) *)
Definition short (c : call) : Z * Z * option Z :=
  match c with
  | CallTransmit i _ (Some (_, er)) => (Z.of_nat i, 1, er)
  | CallTransmit i _ None => (Z.of_nat i, 0, None)
  | CallReceiveReply i a _ => (Z.of_nat i, 2, Some a)
  | CallHandleTimeout i a => (Z.of_nat i, 3, Some a)
  end.

Definition nb (now : Z) := (now, mkPhyIn false []).
Definition bz (now : Z) := (now, mkPhyIn true []).
Definition demo_polls : list (Z * phy_in) :=
  [nb 100000; bz 100100; nb 110000; bz 110100; (120000, mkPhyIn false [229]); nb 130000; bz 130100; nb 150000; nb 160000;
   bz 160100; nb 170000; nb 180000; bz 180100; nb 200000; nb 210000; bz 210100; nb 230000; nb 240000].

Lemma demo_station_rep f0 : fdl_new demo_params = Ok f0 ->
  Rep 3 (demo_station f0) /\ AppsInv any_app any_ok any_waiting (demo_station f0) demo_apps.
Proof.
  intros E.
  assert (B : builder_valid demo_params) by (cbv; repeat split; congruence).
  destruct (fdl_new_rep 3 demo_params B) as [f0' (E' & R0 & _)]. rewrite E in E'. injection E' as <-.
  destruct (Rep_set_online 3 f0 R0) as (f1 & E1 & R1). injection E1 as <-.
  split.
  - unfold demo_station. apply Rep_set_hold; [|unfold time_ok; lia].
    apply Rep_set_lba; [|cbn; unfold lba_rng, T62, DMAX; lia].
    apply Rep_set_gap; [| |cbn; unfold time_ok; lia].
    + apply Rep_set_st; [exact R1|reflexivity|cbn; unfold time_ok; lia].
    + cbn. pose proof (bv_ranges _ (rep_p _ _ R1)). cbn in *. lia.
  - apply AppsInv_idle; [|discriminate]. destruct demo_master_rep as (D & _ & F).
    inversion F as [|? ? H1 F1]; subst. inversion F1 as [|? ? H2 F2]; subst. inversion F2 as [|? ? H3 F3]; subst.
    unfold demo_apps. constructor; [exact H1|]. constructor; [exact H2|]. constructor; [exact H3|constructor].
Qed.

Lemma demo_run :
  match fdl_new demo_params with
  | Ok f0 =>
      match polls (demo_station f0) demo_apps demo_polls with
      | Ok (f, apps, calls) =>
          map short calls =
            [(0, 1, None); (0, 1, Some 8); (0, 2, Some 8); (0, 1, Some 9); (0, 3, Some 9); (0, 0, None);
             (1, 1, Some 0); (1, 3, Some 0); (1, 0, None); (2, 1, Some 0); (2, 3, Some 0); (2, 0, None);
             (0, 1, Some 9); (0, 3, Some 9); (0, 0, None); (1, 1, Some 1); (1, 3, Some 1); (1, 0, None);
             (2, 1, Some 1)] /\
          f_state f = AwaitDataResponse 1 180000 (Some 0%nat)
      | _ => False
      end
  | _ => False
  end.
Proof. vm_compute. split; reflexivity. Qed.
