(* Representation lemmas: the `list bool` operations of Model/TokenRing.v (set_nth, fill_from,
   las_any, ones_from) against the membership predicate `active las a`, sorted address lists,
   and the find-based next_of / prev_of against the declarative cyclic neighbours. *)
From PB Require Import Common TokenRing LasOracle.
From Coq Require Import Sorted.

(* boolean comparisons to Prop, then lia / bool case analysis *)
Ltac zb :=
  repeat match goal with
  | |- context [?a <? ?b] => destruct (Z.ltb_spec a b)
  | |- context [?a <=? ?b] => destruct (Z.leb_spec a b)
  | |- context [?a =? ?b] => destruct (Z.eqb_spec a b)
  | H : context [?a <? ?b] |- _ => destruct (Z.ltb_spec a b)
  | H : context [?a <=? ?b] |- _ => destruct (Z.leb_spec a b)
  | H : context [?a =? ?b] |- _ => destruct (Z.eqb_spec a b)
  end.

(* ------------------------------------------------------------------ nth of set_nth / fill_from *)

Lemma set_nth_length : forall l i v, length (set_nth l i v) = length l.
Proof. induction l as [|x t IH]; intros [|i] v; simpl; auto. Qed.

Lemma fill_from_length : forall l lo len v, length (fill_from l lo len v) = length l.
Proof.
  induction l as [|x t IH]; intros lo len v; simpl; auto.
  destruct lo; simpl; auto. destruct len; simpl; auto.
Qed.

Lemma nth_set_nth_eq : forall l i v, (i < length l)%nat -> nth i (set_nth l i v) false = v.
Proof.
  induction l as [|x t IH]; intros [|i] v H; simpl in *; try lia; auto.
  apply IH. lia.
Qed.

Lemma nth_set_nth_neq : forall l i v j, i <> j -> nth j (set_nth l i v) false = nth j l false.
Proof.
  induction l as [|x t IH]; intros [|i] v [|j] H; simpl; auto; try congruence.
Qed.

Lemma nth_fill_in : forall l lo len v j,
  (lo <= j < lo + len)%nat -> (j < length l)%nat -> nth j (fill_from l lo len v) false = v.
Proof.
  induction l as [|x t IH]; intros lo len v j H1 H2; simpl in *; try lia.
  destruct lo as [|lo].
  - destruct len as [|len]; try lia. destruct j as [|j]; simpl; auto.
    apply IH; lia.
  - destruct j as [|j]; try lia. simpl. apply IH; lia.
Qed.

Lemma nth_fill_out : forall l lo len v j,
  ~ (lo <= j < lo + len)%nat -> nth j (fill_from l lo len v) false = nth j l false.
Proof.
  induction l as [|x t IH]; intros lo len v j H; simpl; auto.
  destruct lo as [|lo].
  - destruct len as [|len]; auto. destruct j as [|j]; try lia. simpl. apply IH. lia.
  - destruct j as [|j]; simpl; auto. apply IH. lia.
Qed.

(* ------------------------------------------------------------------ membership view *)

Lemma active_range : forall las a, active las a -> 0 <= a < Z.of_nat (length las).
Proof.
  unfold active, activeb. intros las a H. apply andb_true_iff in H. destruct H as [H1 H2].
  apply Z.leb_le in H1. split; auto.
  destruct (Nat.lt_ge_cases (Z.to_nat a) (length las)) as [L|L]; try lia.
  rewrite nth_overflow in H2 by lia. discriminate.
Qed.

Lemma activeb_set : forall las i v a,
  0 <= i < Z.of_nat (length las) ->
  activeb (set_nth las (Z.to_nat i) v) a = if a =? i then v else activeb las a.
Proof.
  intros las i v a Hi. unfold activeb.
  destruct (Z.eqb_spec a i) as [E|E].
  - subst a. rewrite nth_set_nth_eq by lia. destruct (Z.leb_spec 0 i); try lia. reflexivity.
  - destruct (Z.leb_spec 0 a); simpl; auto.
    rewrite nth_set_nth_neq; auto. intro Q. apply E. lia.
Qed.

Lemma activeb_fill : forall las lo hi v a,
  0 <= lo -> lo <= hi -> hi <= Z.of_nat (length las) ->
  activeb (fill_from las (Z.to_nat lo) (Z.to_nat (hi - lo)) v) a =
  if (lo <=? a) && (a <? hi) then v else activeb las a.
Proof.
  intros las lo hi v a H0 H1 H2. unfold activeb.
  destruct (Z.leb_spec lo a) as [A|A]; destruct (Z.ltb_spec a hi) as [B|B]; simpl.
  - rewrite nth_fill_in by lia. destruct (Z.leb_spec 0 a); try lia. reflexivity.
  - destruct (Z.leb_spec 0 a); simpl; auto. rewrite nth_fill_out by lia. reflexivity.
  - destruct (Z.leb_spec 0 a); simpl; auto. rewrite nth_fill_out by lia. reflexivity.
  - destruct (Z.leb_spec 0 a); simpl; auto. rewrite nth_fill_out by lia. reflexivity.
Qed.

(* existsb over a window = some member of the window is set *)
Lemma any_window : forall l lo n,
  existsb (fun b : bool => b) (firstn n (skipn lo l)) = true <->
  exists j, (lo <= j < lo + n)%nat /\ nth j l false = true.
Proof.
  induction l as [|x t IH]; intros lo n.
  - rewrite skipn_nil, firstn_nil. simpl. split; [discriminate|].
    intros [j [_ H]]. destruct j; discriminate.
  - destruct lo as [|lo].
    + simpl skipn. destruct n as [|n].
      * simpl. split; [discriminate|]. intros [j [H _]]. lia.
      * simpl firstn. simpl existsb. rewrite orb_true_iff.
        specialize (IH 0%nat n). simpl skipn in IH. rewrite IH. split.
        -- intros [H|[j [H1 H2]]]; [exists 0%nat; split; [lia|auto] | exists (S j); split; [lia|auto]].
        -- intros [[|j] [H1 H2]]; [left; auto | right; exists j; split; [lia|auto]].
    + simpl skipn. rewrite IH. split.
      * intros [j [H1 H2]]. exists (S j). split; [lia|auto].
      * intros [[|j] [H1 H2]]; [lia|]. exists j. split; [lia|auto].
Qed.

Lemma las_any_spec : forall las lo hi,
  0 <= lo -> lo <= hi -> hi <= 128 -> length las = 128%nat ->
  exists b, las_any las lo hi = Ok b /\ (b = true <-> exists x, lo <= x < hi /\ active las x).
Proof.
  intros las lo hi H0 H1 H2 HL. unfold las_any.
  destruct (Z.leb_spec 0 lo); destruct (Z.leb_spec lo hi); destruct (Z.leb_spec hi 128); try lia.
  simpl. eexists. split; [reflexivity|]. rewrite any_window. split.
  - intros [j [Hj Hn]]. exists (Z.of_nat j). split; [lia|].
    unfold active, activeb. rewrite Nat2Z.id, Hn. destruct (Z.leb_spec 0 (Z.of_nat j)); [reflexivity|lia].
  - intros [x [Hx Ha]]. exists (Z.to_nat x). split; [lia|].
    unfold active, activeb in Ha. apply andb_true_iff in Ha. tauto.
Qed.

(* ------------------------------------------------------------------ ones_from / las_ones *)

Lemma In_ones_from : forall l i a,
  In a (ones_from l i) <-> i <= a /\ nth (Z.to_nat (a - i)) l false = true.
Proof.
  induction l as [|b t IH]; intros i a.
  - simpl. split; [tauto|]. intros [_ H]. destruct (Z.to_nat (a - i)); discriminate.
  - assert (T : In a (ones_from t (i + 1)) <-> i + 1 <= a /\ nth (Z.to_nat (a - (i + 1))) t false = true)
      by apply IH.
    assert (S1 : i < a -> Z.to_nat (a - i) = S (Z.to_nat (a - (i + 1)))) by lia.
    simpl ones_from. destruct b.
    + simpl In. rewrite T. split.
      * intros [E|[H1 H2]].
        -- subst a. replace (i - i) with 0 by lia. simpl. split; [lia|reflexivity].
        -- split; [lia|]. rewrite S1 by lia. simpl. exact H2.
      * intros [H1 H2]. destruct (Z.eq_dec i a) as [E|E]; [left; auto|right].
        split; [lia|]. rewrite S1 in H2 by lia. simpl in H2. exact H2.
    + rewrite T. split.
      * intros [H1 H2]. split; [lia|]. rewrite S1 by lia. simpl. exact H2.
      * intros [H1 H2]. destruct (Z.eq_dec i a) as [E|E].
        -- subst a. replace (i - i) with 0 in H2 by lia. simpl in H2. discriminate.
        -- split; [lia|]. rewrite S1 in H2 by lia. simpl in H2. exact H2.
Qed.

Lemma In_las_ones : forall las a, In a (las_ones las) <-> active las a.
Proof.
  intros las a. unfold las_ones. rewrite In_ones_from. unfold active, activeb.
  replace (a - 0) with a by lia. rewrite andb_true_iff, Z.leb_le. tauto.
Qed.

Lemma ones_from_sorted : forall l i, StronglySorted Z.lt (ones_from l i).
Proof.
  induction l as [|b t IH]; intros i; simpl.
  - constructor.
  - destruct b; [|apply IH]. constructor; [apply IH|].
    apply Forall_forall. intros x Hx. apply In_ones_from in Hx. lia.
Qed.

Lemma las_ones_sorted : forall las, StronglySorted Z.lt (las_ones las).
Proof. intros. apply ones_from_sorted. Qed.

(* ------------------------------------------------------------------ sorted address lists *)

Lemma sorted_ext : forall l1 l2 : list Z,
  StronglySorted Z.lt l1 -> StronglySorted Z.lt l2 -> (forall x, In x l1 <-> In x l2) -> l1 = l2.
Proof.
  induction l1 as [|a t IH]; intros l2 S1 S2 E.
  - destruct l2 as [|b u]; auto. exfalso. apply (proj2 (E b)). left; auto.
  - destruct l2 as [|b u].
    + exfalso. apply (proj1 (E a)). left; auto.
    + inversion S1 as [|? ? St Ft]; subst. inversion S2 as [|? ? Su Fu]; subst.
      rewrite Forall_forall in Ft, Fu.
      assert (a = b).
      { destruct (proj1 (E a) (or_introl eq_refl)) as [Q|Q]; auto.
        destruct (proj2 (E b) (or_introl eq_refl)) as [Q'|Q']; auto.
        apply Fu in Q. apply Ft in Q'. lia. }
      subst b. f_equal. apply IH; auto. intros x. split; intro Hx.
      * destruct (proj1 (E x) (or_intror Hx)) as [Q|Q]; auto. subst x. apply Ft in Hx. lia.
      * destruct (proj2 (E x) (or_intror Hx)) as [Q|Q]; auto. subst x. apply Fu in Hx. lia.
Qed.

Lemma sortedb_sorted : forall l, sortedb l = true -> StronglySorted Z.lt l.
Proof.
  induction l as [|a t IH]; intros H; [constructor|].
  destruct t as [|b u]; [constructor; constructor|].
  simpl in H. apply andb_true_iff in H. destruct H as [H1 H2]. apply Z.ltb_lt in H1.
  specialize (IH H2). constructor; auto.
  inversion IH as [|? ? Su Fu]; subst. constructor; auto.
  eapply Forall_impl; [|exact Fu]. simpl. intros; lia.
Qed.

Lemma sorted_filter : forall (f : Z -> bool) l, StronglySorted Z.lt l -> StronglySorted Z.lt (filter f l).
Proof.
  induction l as [|a t IH]; intros S; simpl; [constructor|].
  inversion S as [|? ? St Ft]; subst. destruct (f a); auto.
  constructor; auto. rewrite Forall_forall in *. intros x Hx. apply filter_In in Hx. apply Ft. tauto.
Qed.

Lemma In_insert_sorted : forall b l x, In x (insert_sorted b l) <-> x = b \/ In x l.
Proof.
  induction l as [|a t IH]; intros x; simpl.
  - intuition.
  - destruct (Z.ltb_spec b a); [simpl; intuition|].
    destruct (Z.eqb_spec b a); [subst; simpl; intuition|].
    simpl. rewrite IH. intuition.
Qed.

Lemma sorted_insert : forall b l, StronglySorted Z.lt l -> StronglySorted Z.lt (insert_sorted b l).
Proof.
  induction l as [|a t IH]; intros S; simpl.
  - constructor; constructor.
  - inversion S as [|? ? St Ft]; subst.
    destruct (Z.ltb_spec b a).
    + constructor; auto. constructor; auto. eapply Forall_impl; [|exact Ft]. simpl; intros; lia.
    + destruct (Z.eqb_spec b a); auto.
      constructor; auto. rewrite Forall_forall in *. intros x Hx.
      apply In_insert_sorted in Hx. destruct Hx as [Hx|Hx]; [lia|auto].
Qed.

Lemma existsb_eqb_In : forall x l, existsb (Z.eqb x) l = true <-> In x l.
Proof.
  intros x l. rewrite existsb_exists. split.
  - intros [y [H1 H2]]. apply Z.eqb_eq in H2. subst; auto.
  - intros H. exists x. split; auto. apply Z.eqb_refl.
Qed.

Lemma list_eqb_eq : forall a b, list_eqb a b = true <-> a = b.
Proof.
  induction a as [|x a IH]; intros [|y b]; simpl; split; intros H; try discriminate; auto.
  - apply andb_true_iff in H. destruct H as [H1 H2]. apply Z.eqb_eq in H1. apply IH in H2. congruence.
  - inversion H; subst. rewrite Z.eqb_refl. simpl. apply IH. reflexivity.
Qed.

(* ------------------------------------------------------------------ next_of / prev_of *)

Lemma find_up_sorted : forall ts l n,
  StronglySorted Z.lt l -> find (fun a => ts <? a) l = Some n ->
  In n l /\ ts < n /\ forall a, In a l -> ts < a -> n <= a.
Proof.
  induction l as [|x t IH]; intros n S H; simpl in H; [discriminate|].
  inversion S as [|? ? St Ft]; subst. rewrite Forall_forall in Ft.
  destruct (Z.ltb_spec ts x) as [L|L].
  - inversion H; subst. split; [left; auto|]. split; auto.
    intros a [E|Ha] _; [lia|]. apply Ft in Ha. lia.
  - destruct (IH n St H) as [I1 [I2 I3]]. split; [right; auto|]. split; auto.
    intros a [E|Ha] Q; [lia|]. apply I3; auto.
Qed.

Lemma find_down_sorted : forall ts l p,
  StronglySorted (fun x y => y < x) l -> find (fun a => a <? ts) l = Some p ->
  In p l /\ p < ts /\ forall a, In a l -> a < ts -> a <= p.
Proof.
  induction l as [|x t IH]; intros p S H; simpl in H; [discriminate|].
  inversion S as [|? ? St Ft]; subst. rewrite Forall_forall in Ft.
  destruct (Z.ltb_spec x ts) as [L|L].
  - inversion H; subst. split; [left; auto|]. split; auto.
    intros a [E|Ha] _; [lia|]. apply Ft in Ha. lia.
  - destruct (IH p St H) as [I1 [I2 I3]]. split; [right; auto|]. split; auto.
    intros a [E|Ha] Q; [lia|]. apply I3; auto.
Qed.

Lemma sorted_app_last : forall (Rel : Z -> Z -> Prop) l a,
  StronglySorted Rel l -> Forall (fun x => Rel x a) l -> StronglySorted Rel (l ++ [a]).
Proof.
  induction l as [|x t IH]; intros a S F; simpl.
  - constructor; constructor.
  - inversion S as [|? ? St Ft]; subst. inversion F as [|? ? Fx Ft']; subst.
    constructor; auto. apply Forall_app. split; auto.
Qed.

Lemma sorted_rev : forall l, StronglySorted Z.lt l -> StronglySorted (fun x y => y < x) (rev l).
Proof.
  induction l as [|x t IH]; intros S; simpl; [constructor|].
  inversion S as [|? ? St Ft]; subst. apply sorted_app_last; auto.
  rewrite Forall_forall in *. intros y Hy. apply in_rev in Hy. apply Ft in Hy. lia.
Qed.

Lemma next_of_spec : forall l ts, StronglySorted Z.lt l -> cyc_next l ts (next_of l ts).
Proof.
  intros l ts S. unfold cyc_next, next_of. destruct l as [|x t]; [reflexivity|].
  destruct (find (fun a => ts <? a) (x :: t)) as [n|] eqn:F.
  - destruct (find_up_sorted _ _ _ S F) as [I1 [I2 I3]]. split; auto.
  - split; [left; auto|]. right. split.
    + intros a Ha. pose proof (find_none _ _ F a Ha) as Q. simpl in Q. apply Z.ltb_ge in Q. exact Q.
    + inversion S as [|? ? St Ft]; subst. rewrite Forall_forall in Ft.
      intros a [E|Ha]; [lia|]. apply Ft in Ha. lia.
Qed.

Lemma prev_of_spec : forall l ts, StronglySorted Z.lt l -> cyc_prev l ts (prev_of l ts).
Proof.
  intros l ts S. unfold cyc_prev, prev_of. destruct l as [|x t]; [reflexivity|].
  pose proof (sorted_rev _ S) as SR.
  assert (NE : rev (x :: t) <> []) by (simpl; intro Q; apply app_eq_nil in Q; destruct Q; discriminate).
  destruct (find (fun a => a <? ts) (rev (x :: t))) as [p|] eqn:F.
  - destruct (find_down_sorted _ _ _ SR F) as [I1 [I2 I3]]. split; [apply in_rev; auto|].
    left. split; auto. intros a Ha. apply I3. apply in_rev in Ha. exact Ha.
  - destruct (rev (x :: t)) as [|p u] eqn:RV; [congruence|].
    assert (Hp : In p (x :: t)) by (apply in_rev; rewrite RV; left; auto).
    split; auto. right. split.
    + intros a Ha. apply in_rev in Ha. rewrite RV in Ha.
      pose proof (find_none _ _ F a Ha) as Q. simpl in Q. apply Z.ltb_ge in Q. exact Q.
    + inversion SR as [|? ? Su Fu]; subst. rewrite Forall_forall in Fu.
      intros a Ha. apply in_rev in Ha. rewrite RV in Ha. destruct Ha as [E|Ha]; [lia|]. apply Fu in Ha. lia.
Qed.

(* the declarative neighbours are unique *)
Lemma cyc_next_unique : forall l ts n n', cyc_next l ts n -> cyc_next l ts n' -> n = n'.
Proof.
  intros l ts n n'. unfold cyc_next. destruct l as [|x t]; [congruence|].
  intros [I [[A1 A2]|[A1 A2]]] [I' [[B1 B2]|[B1 B2]]].
  - pose proof (A2 _ I' B1). pose proof (B2 _ I A1). lia.
  - pose proof (B1 _ I). lia.
  - pose proof (A1 _ I'). lia.
  - pose proof (A2 _ I'). pose proof (B2 _ I). lia.
Qed.

Lemma cyc_prev_unique : forall l ts p p', cyc_prev l ts p -> cyc_prev l ts p' -> p = p'.
Proof.
  intros l ts p p'. unfold cyc_prev. destruct l as [|x t]; [congruence|].
  intros [I [[A1 A2]|[A1 A2]]] [I' [[B1 B2]|[B1 B2]]].
  - pose proof (A2 _ I' B1). pose proof (B2 _ I A1). lia.
  - pose proof (B1 _ I). lia.
  - pose proof (A1 _ I'). lia.
  - pose proof (A2 _ I'). pose proof (B2 _ I). lia.
Qed.

(* the boolean versions used by the correspondence oracles decide the declarative ones *)
Lemma cyc_nextb_spec : forall l ts n, cyc_nextb l ts n = true <-> cyc_next l ts n.
Proof.
  intros l ts n. unfold cyc_nextb, cyc_next. destruct l as [|x t]; [apply Z.eqb_eq|].
  rewrite andb_true_iff, existsb_eqb_In, orb_true_iff, !andb_true_iff, !forallb_forall, Z.ltb_lt.
  split.
  - intros [I [[A1 A2]|[A1 A2]]]; split; auto; [left|right]; split; auto.
    + intros a Ha Q. specialize (A2 a Ha). apply orb_true_iff in A2. destruct A2 as [A2|A2].
      * apply negb_true_iff, Z.ltb_ge in A2. lia.
      * apply Z.leb_le in A2. exact A2.
    + intros a Ha. apply Z.leb_le. auto.
    + intros a Ha. apply Z.leb_le. auto.
  - intros [I [[A1 A2]|[A1 A2]]]; split; auto; [left|right]; split; auto.
    + intros a Ha. apply orb_true_iff. destruct (Z.ltb_spec ts a); [right|left; reflexivity].
      apply Z.leb_le. auto.
    + intros a Ha. apply Z.leb_le. auto.
    + intros a Ha. apply Z.leb_le. auto.
Qed.

Lemma cyc_prevb_spec : forall l ts p, cyc_prevb l ts p = true <-> cyc_prev l ts p.
Proof.
  intros l ts p. unfold cyc_prevb, cyc_prev. destruct l as [|x t]; [apply Z.eqb_eq|].
  rewrite andb_true_iff, existsb_eqb_In, orb_true_iff, !andb_true_iff, !forallb_forall, Z.ltb_lt.
  split.
  - intros [I [[A1 A2]|[A1 A2]]]; split; auto; [left|right]; split; auto.
    + intros a Ha Q. specialize (A2 a Ha). apply orb_true_iff in A2. destruct A2 as [A2|A2].
      * apply negb_true_iff, Z.ltb_ge in A2. lia.
      * apply Z.leb_le in A2. exact A2.
    + intros a Ha. apply Z.leb_le. auto.
    + intros a Ha. apply Z.leb_le. auto.
  - intros [I [[A1 A2]|[A1 A2]]]; split; auto; [left|right]; split; auto.
    + intros a Ha. apply orb_true_iff. destruct (Z.ltb_spec a ts); [right|left; reflexivity].
      apply Z.leb_le. auto.
    + intros a Ha. apply Z.leb_le. auto.
    + intros a Ha. apply Z.leb_le. auto.
Qed.
