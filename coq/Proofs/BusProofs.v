(* Proofs about the bus-level layer:
   (a) soundness of the boolean trace monitors of Model/BusOracle.v w.r.t. the declarative
       predicates of Model/Bus.v;
   (b) the abstract assume/guarantee composition theorem for collision freedom (C01_compose);
   (c) the link from the C13 hold-rule monitor to the abstract rotation bound (RotationBound.v). *)
From PB Require Import Bus BusOracle RotationBound.

(* ====================================================================================== *)
(* (a1) gaps: overlap and idle times                                                        *)
(* ====================================================================================== *)

(* the transmission before position j of a suffix whose predecessor is pv *)
Definition prev_of' (pv : option btx) (tr : trace) (j : nat) : option btx :=
  match j with O => pv | S k => nth_error tr k end.

Lemma prev_of'_cons pv y0 r k : prev_of' pv (y0 :: r) (S k) = prev_of' (Some y0) r k.
Proof. destruct k; reflexivity. Qed.

Lemma gaps_go_sound need slack : forall tr me pv, gaps_go need slack me pv tr = true ->
  (forall j y m, nth_error tr j = Some y -> me = Some m ->
     m + need (prev_of' pv tr j) y <= start_sc y + slack) /\
  (forall i j x y, (i < j)%nat -> nth_error tr i = Some x -> nth_error tr j = Some y ->
     end_sc x + need (prev_of' pv tr j) y <= start_sc y + slack).
Proof.
  induction tr as [|y0 r IH]; intros me pv H.
  - split; intros; destruct j; discriminate.
  - cbn [gaps_go] in H. apply andb_true_iff in H. destruct H as [H0 Hr].
    destruct (IH _ _ Hr) as [IH1 IH2]. split.
    + intros j y m Hj Hm. destruct j as [|k].
      * cbn in Hj. inversion Hj; subst y. subst me. cbn [prev_of']. apply Z.leb_le in H0. exact H0.
      * cbn [nth_error] in Hj. rewrite prev_of'_cons. subst me.
        specialize (IH1 k y (Z.max m (end_sc y0)) Hj eq_refl). lia.
    + intros i j x y Hij Hi Hj. destruct j as [|k]; [lia|]. cbn [nth_error] in Hj.
      rewrite prev_of'_cons. destruct i as [|i'].
      * cbn in Hi. inversion Hi; subst x.
        destruct me as [m|].
        -- specialize (IH1 k y (Z.max m (end_sc y0)) Hj eq_refl). lia.
        -- specialize (IH1 k y (end_sc y0) Hj eq_refl). lia.
      * cbn [nth_error] in Hi. apply (IH2 i' k x y); [lia|exact Hi|exact Hj].
Qed.

Lemma prev_of'_none tr j : prev_of' None tr j = prev_of tr j.
Proof. destruct j; reflexivity. Qed.

Lemma c01_no_overlap_sound tr : c01_no_overlap_b tr = true -> no_overlap tr.
Proof.
  intros H. unfold c01_no_overlap_b in H. destruct (gaps_go_sound _ _ _ _ _ H) as [_ G].
  intros i j x y Hne Hi Hj. unfold disjoint, interval. cbn [fst snd].
  destruct (Nat.lt_total i j) as [L|[E|L]].
  - left. specialize (G i j x y L Hi Hj). unfold need0 in G. lia.
  - contradiction.
  - right. specialize (G j i y x L Hj Hi). unfold need0 in G. lia.
Qed.

Lemma c01_idle_sound c tr : c01_idle_b c tr = true -> idle_times c tr.
Proof.
  intros H. unfold c01_idle_b in H. destruct (gaps_go_sound _ _ _ _ _ H) as [_ G].
  intros i j x y Hij Hi Hj. specialize (G i j x y Hij Hi Hj). rewrite prev_of'_none in G. exact G.
Qed.

(* idle times imply that nothing overlaps as long as 1 us is not more than 11 bit times (every
   bit rate up to 6 Mbit/s; at 12 Mbit/s one microsecond is 12 bit times, so there the overlap
   monitor is the stronger of the two for replies) *)
Lemma idle_need_ge prev y : 11 * M <= idle_need prev y.
Proof. unfold idle_need, M. destruct prev as [x|]; [destruct (is_reply_to x y)|]; lia. Qed.

Lemma idle_times_no_overlap c tr : rate c <= 11 * M -> idle_times c tr -> no_overlap tr.
Proof.
  intros R G i j x y Hne Hi Hj. unfold disjoint, interval. cbn [fst snd].
  destruct (Nat.lt_total i j) as [L|[E|L]].
  - left. specialize (G i j x y L Hi Hj). pose proof (idle_need_ge (prev_of tr j) y). lia.
  - contradiction.
  - right. specialize (G j i y x L Hj Hi). pose proof (idle_need_ge (prev_of tr i) x). lia.
Qed.

(* ====================================================================================== *)
(* (a2) who may transmit                                                                    *)
(* ====================================================================================== *)

Lemma opt_eqb_some (o : option Z) (s : Z) : opt_eqb o (Some s) = true -> o = Some s.
Proof. destruct o as [x|]; cbn; [|discriminate]. intros H. apply Z.eqb_eq in H. now subst. Qed.

Lemma silent_forb_sound c st y bits : silent_forb c st y bits = true -> silent_for c st y bits.
Proof.
  unfold silent_forb, silent_for. intros H m Hm. rewrite Hm in H. now apply Z.leb_le in H.
Qed.

Lemma online_forb_sound c y bits : online_forb c y bits = true -> online_for c y bits.
Proof. unfold online_forb, online_for. intros H. now apply Z.leb_le in H. Qed.

Lemma own_token_before_sound st s : own_token_before st s = true ->
  exists x da', w_prev st = Some x /\ tx_sender x = s /\ tel_of x = Some (TToken da' s).
Proof.
  unfold own_token_before. destruct (w_prev st) as [x|]; [|discriminate]. intros H.
  apply andb_true_iff in H. destruct H as [Hs Ht]. apply Z.eqb_eq in Hs.
  destruct (tel_of x) as [[h p|da sa|]|] eqn:Et; try discriminate.
  apply Z.eqb_eq in Ht. subst sa. exists x, da. auto.
Qed.

Lemma reply_before_sound st y : reply_before st y = true ->
  exists x, w_prev st = Some x /\ is_reply_to x y = true.
Proof. unfold reply_before. destruct (w_prev st) as [x|]; [|discriminate]. intros H. eauto. Qed.

Lemma classify_sound c st y cl : classify c st y = Some cl -> justified c st y cl.
Proof.
  unfold classify. destruct (tel_of y) as [[h p|da sa|]|] eqn:Et; [| | |discriminate].
  - (* data *)
    destruct (h_sa h =? tx_sender y) eqn:Es; cbn [negb]; [|discriminate]. apply Z.eqb_eq in Es.
    destruct (h_fc h) as [f r|rs st'] eqn:Ef.
    + destruct (opt_eqb (w_holder st) (Some (tx_sender y))) eqn:Eh; [|discriminate].
      intros H; inversion H; subst cl. apply opt_eqb_some in Eh.
      eapply J_holder; eauto.
    + destruct (reply_before st y) eqn:Er; [|discriminate]. intros H; inversion H; subst cl.
      destruct (reply_before_sound _ _ Er) as (x & Hx & Hr). eapply J_reply; eauto.
  - (* token *)
    destruct (sa =? tx_sender y) eqn:Es; cbn [negb]; [|discriminate]. apply Z.eqb_eq in Es. subst sa.
    destruct (opt_eqb (w_holder st) (Some (tx_sender y))) eqn:Eh.
    { intros H; inversion H; subst cl. apply opt_eqb_some in Eh. eapply J_pass; eauto. }
    destruct (own_token_before st (tx_sender y) && silent_forb c st y (c_slot c)) eqn:Eo.
    { intros H; inversion H; subst cl. apply andb_true_iff in Eo. destruct Eo as [Eo Esl].
      destruct (own_token_before_sound _ _ Eo) as (x & da' & Hx & Hs & Ht).
      eapply J_retry; eauto using silent_forb_sound. }
    destruct ((da =? tx_sender y) && silent_forb c st y (t_lost_bits c (tx_sender y))
              && online_forb c y (t_lost_bits c (tx_sender y))) eqn:Ec; [|discriminate].
    intros H; inversion H; subst cl.
    apply andb_true_iff in Ec. destruct Ec as [Ec Eon]. apply andb_true_iff in Ec. destruct Ec as [Ed Esl].
    apply Z.eqb_eq in Ed. subst da.
    apply J_claim; auto using silent_forb_sound, online_forb_sound.
  - (* short confirmation *)
    destruct (reply_before st y) eqn:Er; [|discriminate]. intros H; inversion H; subst cl.
    destruct (reply_before_sound _ _ Er) as (x & Hx & Hr). eapply J_reply; eauto.
Qed.

Lemma who_go_sound c : forall tr st, who_go c st tr = true ->
  forall k y, nth_error tr k = Some y ->
  exists cl, justified c (fold_left w_step (firstn k tr) st) y cl.
Proof.
  induction tr as [|y0 r IH]; intros st H k y Hk.
  - destruct k; discriminate.
  - cbn [who_go] in H. destruct (classify c st y0) as [cl0|] eqn:Ec; [|discriminate].
    destruct k as [|k'].
    + cbn in Hk. inversion Hk; subst y. cbn. exists cl0. now apply classify_sound.
    + cbn [nth_error] in Hk. cbn [firstn fold_left]. apply (IH _ H k' y Hk).
Qed.

Lemma c01_who_sound c tr : c01_who_b c tr = true -> who_may_transmit c tr.
Proof. intros H k y Hk. unfold w_after. apply (who_go_sound c tr w0 H k y Hk). Qed.

(* ====================================================================================== *)
(* (a3) the excluded claim race                                                             *)
(* ====================================================================================== *)

Lemma unsynchronisedb_sound st y : unsynchronisedb st y = true -> unsynchronised st y.
Proof.
  unfold unsynchronisedb, unsynchronised. intros H m Hm. rewrite Hm in H. now apply Z.ltb_lt in H.
Qed.

Lemma claim_raceb_sound c st x y : claim_raceb c st x y = true -> claim_race c st x y.
Proof.
  unfold claim_raceb, claim_race. intros H.
  repeat (apply andb_true_iff in H; let H2 := fresh "H" in destruct H as [H H2]).
  apply negb_true_iff in H7. apply Z.eqb_neq in H7.
  apply Z.leb_le in H6. apply Z.ltb_lt in H5.
  apply orb_true_iff in H0.
  repeat split; auto using silent_forb_sound, online_forb_sound.
  destruct H0 as [U|U]; [left|right]; now apply unsynchronisedb_sound.
Qed.

Lemma w_after_snoc tr x : w_after (tr ++ [x]) = w_step (w_after tr) x.
Proof. unfold w_after. rewrite fold_left_app. reflexivity. Qed.

Lemma cut_go_sound c : forall tr stx x acc pre b,
  stx = w_after (rev acc) -> cut_go c stx x acc tr = (pre, b) ->
  (b = false -> pre = rev acc ++ x :: tr) /\
  (b = true -> exists x' y' post, rev acc ++ x :: tr = pre ++ x' :: y' :: post /\
                                 claim_race c (w_after pre) x' y').
Proof.
  induction tr as [|y r IH]; intros stx x acc pre b Hst H.
  - cbn [cut_go] in H. rewrite <- rev_alt in H. injection H as Hp Hb. subst pre b. cbn [rev].
    split; [reflexivity|discriminate].
  - cbn [cut_go] in H. destruct (claim_raceb c stx x y) eqn:Er.
    + rewrite <- rev_alt in H. injection H as Hp Hb. subst pre b. split; [discriminate|].
      intros _. exists x, y, r. split; [reflexivity|]. rewrite <- Hst. now apply claim_raceb_sound.
    + specialize (IH (w_step stx x) y (x :: acc) pre b).
      assert (Hst' : w_step stx x = w_after (rev (x :: acc))).
      { cbn [rev]. rewrite w_after_snoc. now rewrite Hst. }
      destruct (IH Hst' H) as [I1 I2]. cbn [rev] in I1, I2. rewrite <- app_assoc in I1, I2.
      cbn [app] in I1, I2. split; assumption.
Qed.

Lemma c01_cut_sound c tr pre b : c01_cut c tr = (pre, b) ->
  (b = false -> pre = tr) /\
  (b = true -> exists x y post, tr = pre ++ x :: y :: post /\ claim_race c (w_after pre) x y).
Proof.
  unfold c01_cut. destruct tr as [|x r].
  - intros H; inversion H; subst. split; [reflexivity|discriminate].
  - intros H. destruct (cut_go_sound c r w0 x [] pre b eq_refl H) as [I1 I2]. cbn in I1, I2.
    split; assumption.
Qed.

(* ====================================================================================== *)
(* (a4) rotations (C02 / C06)                                                               *)
(* ====================================================================================== *)

Lemma index_of_some a : forall l k, index_of a l = Some k -> nth_error l k = Some a.
Proof.
  induction l as [|x r IH]; intros k H; [discriminate|].
  cbn [index_of] in H. destruct (x =? a) eqn:E.
  - inversion H; subst k. apply Z.eqb_eq in E. now subst.
  - destruct (index_of a r) as [k'|]; [|discriminate]. cbn in H. inversion H; subst k.
    cbn. now apply IH.
Qed.

Lemma ascb_cons a t : ascb (a :: t) = true -> Forall (fun b => a < b) t /\ ascb t = true.
Proof.
  revert a. induction t as [|b r IH]; intros a H.
  - split; [constructor|reflexivity].
  - cbn [ascb] in H. apply andb_true_iff in H. destruct H as [H1 H2]. apply Z.ltb_lt in H1.
    split; [|exact H2]. constructor; [exact H1|].
    destruct (IH b H2) as [F _]. eapply Forall_impl; [|exact F]. intros z Hz. cbn in Hz. lia.
Qed.

Lemma ascb_nodup R : ascb R = true -> NoDup R.
Proof.
  induction R as [|a t IH]; intros H; [constructor|].
  destruct (ascb_cons a t H) as [F H2]. constructor; [|now apply IH].
  intros Hin. rewrite Forall_forall in F. specialize (F a Hin). cbn in F. lia.
Qed.

Lemma succ_in_spec R k a d : NoDup R -> nth_error R k = Some a -> succ_in R a = Some d ->
  nth_error R ((k + 1) mod length R) = Some d.
Proof.
  intros ND Hk Hs. unfold succ_in in Hs. destruct (index_of a R) as [k'|] eqn:Ei; [|discriminate].
  apply index_of_some in Ei.
  assert (k = k').
  { assert (Hlt : (k < length R)%nat) by (apply nth_error_Some; congruence).
    rewrite NoDup_nth_error in ND. apply ND; [exact Hlt|congruence]. }
  subst k'. exact Hs.
Qed.

Lemma rot_go_from R : NoDup R -> forall ps k e, (k < length R)%nat -> rot_go R e ps = true ->
  (forall sa da r, ps = (sa, da) :: r -> nth_error R k = Some sa) ->
  forall i sa da, nth_error ps i = Some (sa, da) ->
    nth_error R ((k + i) mod length R) = Some sa /\ nth_error R ((k + i + 1) mod length R) = Some da.
Proof.
  intros ND. induction ps as [|[sa0 da0] r IH]; intros k e Hk H Hfirst i sa da Hi.
  - destruct i; discriminate.
  - cbn [rot_go] in H. apply andb_true_iff in H. destruct H as [H Hr].
    apply andb_true_iff in H. destruct H as [_ Hsucc]. apply opt_eqb_some in Hsucc.
    pose proof (Hfirst sa0 da0 r eq_refl) as Hk0.
    pose proof (succ_in_spec R k sa0 da0 ND Hk0 Hsucc) as Hd.
    destruct i as [|i'].
    + cbn in Hi. inversion Hi; subst sa da. rewrite Nat.add_0_r.
      rewrite (Nat.mod_small k) by exact Hk. auto.
    + cbn [nth_error] in Hi.
      assert (Hk2 : ((k + 1) mod length R < length R)%nat) by (apply Nat.mod_upper_bound; lia).
      assert (Hf2 : forall sa1 da1 r1, r = (sa1, da1) :: r1 -> nth_error R ((k + 1) mod length R) = Some sa1).
      { intros sa1 da1 r1 Er. subst r. cbn [rot_go] in Hr.
        apply andb_true_iff in Hr. destruct Hr as [Hr _]. apply andb_true_iff in Hr. destruct Hr as [He _].
        apply Z.eqb_eq in He. subst sa1. exact Hd. }
      destruct (IH ((k + 1) mod length R)%nat (Some da0) Hk2 Hr Hf2 i' sa da Hi) as [A B].
      assert (Hn : length R <> 0%nat) by lia.
      replace ((k + S i') mod length R)%nat with (((k + 1) mod length R + i') mod length R)%nat.
      2:{ rewrite Nat.add_mod_idemp_l by exact Hn. f_equal. lia. }
      replace ((k + S i' + 1) mod length R)%nat with (((k + 1) mod length R + i' + 1) mod length R)%nat.
      2:{ rewrite <- Nat.add_assoc. rewrite Nat.add_mod_idemp_l by exact Hn. f_equal. lia. }
      auto.
Qed.

Lemma c02_rot_sound R ps : c02_rot_b R ps = true -> NoDup R /\ rotations_of R ps.
Proof.
  unfold c02_rot_b. intros H. apply andb_true_iff in H. destruct H as [Ha Hr].
  pose proof (ascb_nodup R Ha) as ND. split; [exact ND|].
  destruct ps as [|[sa0 da0] r]; [now left|right].
  assert (Hs : exists k0, nth_error R k0 = Some sa0).
  { cbn [rot_go] in Hr. apply andb_true_iff in Hr. destruct Hr as [Hr _].
    apply andb_true_iff in Hr. destruct Hr as [_ Hs]. apply opt_eqb_some in Hs.
    unfold succ_in in Hs. destruct (index_of sa0 R) as [k0|] eqn:Ei; [|discriminate].
    exists k0. now apply index_of_some. }
  destruct Hs as [k0 Hk0]. exists k0.
  assert (Hlt : (k0 < length R)%nat) by (apply nth_error_Some; congruence).
  apply (rot_go_from R ND ((sa0, da0) :: r) k0 None Hlt Hr).
  intros sa da r' E. inversion E; subst. exact Hk0.
Qed.

Lemma list_eqb_eq : forall a b, list_eqb a b = true -> a = b.
Proof.
  induction a as [|x a IH]; destruct b as [|y b]; cbn; intros H; try discriminate; [reflexivity|].
  apply andb_true_iff in H. destruct H as [E H]. apply Z.eqb_eq in E. subst. f_equal. now apply IH.
Qed.

Lemma succ_in_cyc R a d : succ_in R a = Some d -> cyc_succ R a d.
Proof.
  unfold succ_in. destruct (index_of a R) as [k|] eqn:Ei; [|discriminate]. intros H.
  exists k. split; [now apply index_of_some|exact H].
Qed.

Lemma view_okb_sound R v : view_okb R v = true -> view_agrees R v.
Proof.
  unfold view_okb, view_agrees. intros H.
  repeat (apply andb_true_iff in H; let H2 := fresh "H" in destruct H as [H H2]).
  apply opt_eqb_some in H0, H1. apply list_eqb_eq in H2.
  repeat split; auto using succ_in_cyc.
Qed.

Lemma first_self_in : forall ps a, first_self ps = Some a -> In (a, a) ps.
Proof.
  induction ps as [|[sa da] r IH]; intros a H; [discriminate|]. cbn [first_self] in H.
  destruct (sa =? da) eqn:E.
  - inversion H; subst. apply Z.eqb_eq in E. subst. now left.
  - right. now apply IH.
Qed.

Lemma two_self_holders_sound ps : two_self_holders_b ps = true -> two_self_holders ps.
Proof.
  unfold two_self_holders_b, two_self_holders. destruct (first_self ps) as [a|] eqn:Ef; [|discriminate].
  intros H. apply existsb_exists in H. destruct H as [[sa da] [Hin H]]. cbn [fst snd] in H.
  apply andb_true_iff in H. destruct H as [E N]. apply Z.eqb_eq in E. subst da.
  apply negb_true_iff in N. apply Z.eqb_neq in N.
  exists a, sa. split; [congruence|]. split; [now apply first_self_in|exact Hin].
Qed.

(* ====================================================================================== *)
(* (c) C13: from the hold-rule monitor to the abstract rotation bound                       *)
(* ====================================================================================== *)

Lemma hold_go_spec TTR C O : forall old cur, hold_go TTR C O old cur = true ->
  forall v so eo s1 e1 s2 e2,
    nth_error old v = Some (so, eo) -> nth_error cur v = Some (s1, e1) ->
    nth_error cur (S v) = Some (s2, e2) -> hold_check TTR C O eo e1 s2 e2 = true.
Proof.
  induction old as [|[so0 eo0] old' IH]; intros cur H v so eo s1 e1 s2 e2 Ho H1 H2.
  - destruct v; discriminate.
  - destruct cur as [|[s10 e10] cur']; [destruct v; discriminate|].
    cbn [hold_go] in H. destruct cur' as [|[s20 e20] cur'']; [destruct v as [|[|v]]; discriminate|].
    apply andb_true_iff in H. destruct H as [Hc Hr].
    destruct v as [|v'].
    + cbn in Ho, H1, H2. inversion Ho; inversion H1; inversion H2; subst. exact Hc.
    + cbn [nth_error] in Ho, H1, H2. eapply IH; eauto.
Qed.

Lemma wf_go_spec : forall vs, wf_go vs = true ->
  forall v s1 e1 s2 e2, nth_error vs v = Some (s1, e1) -> nth_error vs (S v) = Some (s2, e2) ->
  e1 <= s2 <= e2.
Proof.
  induction vs as [|[s10 e10] r IH]; intros H v s1 e1 s2 e2 H1 H2.
  - destruct v; discriminate.
  - destruct r as [|[s20 e20] r']; [destruct v as [|[|v]]; discriminate|].
    cbn [wf_go] in H. apply andb_true_iff in H. destruct H as [Hc Hr].
    apply andb_true_iff in Hc. destruct Hc as [Ha Hb]. apply Z.leb_le in Ha, Hb.
    destruct v as [|v'].
    + cbn in H1, H2. inversion H1; inversion H2; subst. lia.
    + cbn [nth_error] in H1, H2. eapply IH; eauto.
Qed.

Lemma nth_error_skipn' {A} : forall n (l : list A) i, nth_error (skipn n l) i = nth_error l (n + i).
Proof.
  induction n as [|n IH]; intros l i; [reflexivity|].
  destruct l as [|x r]; [now destruct i|]. cbn [skipn Nat.add nth_error]. apply IH.
Qed.

Lemma nth_error_nth_visit (vs : list visit) v p : nth_error vs v = Some p -> nth v vs (0, 0) = p.
Proof. intros H. now apply nth_error_nth. Qed.

Lemma nth_error_visit (vs : list visit) v : (v < length vs)%nat ->
  nth_error vs v = Some (v_start vs v, v_end vs v).
Proof.
  intros H. unfold v_start, v_end. destruct (nth_error vs v) as [p|] eqn:E.
  - rewrite (nth_error_nth_visit vs v p E). now destruct p.
  - apply nth_error_None in E. lia.
Qed.

Lemma c13_hold_wf n TTR C O vs : c13_hold_b n TTR C O vs = true -> trace_wf (rt_of n vs).
Proof.
  unfold c13_hold_b. intros H. apply andb_true_iff in H. destruct H as [H _].
  apply andb_true_iff in H. destruct H as [Hn Hwf]. apply Nat.leb_le in Hn.
  split; [exact Hn|]. intros v. cbn [rt_of rt_t rt_h rt_o].
  destruct (Nat.ltb (S v) (length vs)) eqn:El.
  - apply Nat.ltb_lt in El.
    rewrite (Nat.min_l (S v)) by lia. rewrite (Nat.min_l v) by lia.
    pose proof (wf_go_spec vs Hwf v _ _ _ _ (nth_error_visit vs v ltac:(lia)) (nth_error_visit vs (S v) El)).
    lia.
  - apply Nat.ltb_ge in El.
    rewrite (Nat.min_r (S v)) by lia. rewrite (Nat.min_r v) by lia. lia.
Qed.

Lemma c13_hold_obeys n TTR C O vs : 0 <= C -> 0 <= O -> c13_hold_b n TTR C O vs = true ->
  obeys_hold_rule (rt_of n vs) TTR C O.
Proof.
  intros HC HO H. unfold c13_hold_b in H. apply andb_true_iff in H. destruct H as [_ Hh].
  intros v Hv. cbn [rt_of rt_t rt_h rt_o rt_n] in *.
  destruct (Nat.ltb (S v) (length vs)) eqn:El.
  - apply Nat.ltb_lt in El.
    rewrite (Nat.min_l v) by lia. rewrite (Nat.min_l (v - n)) by lia.
    assert (H1 : nth_error (skipn n vs) (v - n) = Some (v_start vs v, v_end vs v)).
    { rewrite nth_error_skipn'. replace (n + (v - n))%nat with v by lia. apply nth_error_visit. lia. }
    assert (H2 : nth_error (skipn n vs) (S (v - n)) = Some (v_start vs (S v), v_end vs (S v))).
    { rewrite nth_error_skipn'. replace (n + S (v - n))%nat with (S v) by lia. now apply nth_error_visit. }
    pose proof (hold_go_spec TTR C O vs (skipn n vs) Hh (v - n)%nat _ _ _ _ _ _
                  (nth_error_visit vs (v - n) ltac:(lia)) H1 H2) as Hc.
    unfold hold_check in Hc. apply andb_true_iff in Hc. destruct Hc as [Ha Hb].
    apply Z.leb_le in Ha, Hb. split; assumption.
  - split; lia.
Qed.

(* the hold-rule monitor accepts => every station has the token back within TTR + N (C + O) *)
Lemma c13_hold_rotation_bounded n TTR C O vs : 0 <= TTR -> 0 <= C -> 0 <= O ->
  c13_hold_b n TTR C O vs = true -> rotation_bounded n vs TTR C O.
Proof.
  intros HT HC HO H v Hv Hlen.
  pose proof (rotation_bound (rt_of n vs) TTR C O (c13_hold_wf _ _ _ _ _ H)
                (c13_hold_obeys _ _ _ _ _ HC HO H) HT HC HO v Hv) as B.
  cbn [rt_of rt_t rt_n] in B.
  rewrite (Nat.min_l (v + n)) in B by lia. rewrite (Nat.min_l v) in B by lia. exact B.
Qed.

Lemma bound_go_complete B : forall old cur,
  (forall v so eo s1 e1, nth_error old v = Some (so, eo) -> nth_error cur v = Some (s1, e1) -> e1 - eo <= B) ->
  bound_go B old cur = true.
Proof.
  induction old as [|[so eo] old' IH]; intros cur H; [reflexivity|].
  destruct cur as [|[s1 e1] cur']; [reflexivity|]. cbn [bound_go]. apply andb_true_iff. split.
  - apply Z.leb_le. apply (H 0%nat so eo s1 e1); reflexivity.
  - apply IH. intros v so' eo' s1' e1' Ho Hc. apply (H (S v) so' eo' s1' e1'); assumption.
Qed.

(* ... so the directly checked bound can never fail where the hold-rule monitor accepts *)
Lemma c13_hold_implies_bound_b n TTR C O vs : 0 <= TTR -> 0 <= C -> 0 <= O ->
  c13_hold_b n TTR C O vs = true -> c13_bound_b n (TTR + Z.of_nat n * (C + O)) vs = true.
Proof.
  intros HT HC HO H. pose proof (c13_hold_rotation_bounded n TTR C O vs HT HC HO H) as RB.
  unfold c13_bound_b. apply bound_go_complete. intros v so eo s1 e1 Ho Hc.
  rewrite nth_error_skipn' in Ho, Hc.
  assert (L1 : (n + n + v < length vs)%nat) by (apply (proj1 (nth_error_Some vs (n + n + v)%nat)); intro E; unfold visit in *; congruence).
  specialize (RB (n + v)%nat ltac:(lia) ltac:(lia)).
  pose proof (nth_error_visit vs (n + v) ltac:(lia)) as Eo.
  pose proof (nth_error_visit vs (n + n + v) ltac:(lia)) as Ec.
  unfold visit in *. rewrite Eo in Ho. rewrite Ec in Hc.
  inversion Ho; inversion Hc; subst. replace (n + v + n)%nat with (n + n + v)%nat in RB by lia. exact RB.
Qed.

(* ====================================================================================== *)
(* (b) C01_compose: assume / guarantee composition for collision freedom                    *)
(* ====================================================================================== *)
(* An abstract timed trace: transmissions of type T with sender, start and end; `tr` lists them in
   the order of their starts.  For the k-th transmission, `seen k` is the number of transmissions of
   the trace whose BEGINNING its sender had noticed when it decided to transmit (a ghost value: what
   the station knew).  `entitled pre t s`: according to the prefix `pre` of transmissions it has
   noticed, station s may transmit at time t (token holder, designated replier, or its time-out
   window for a retry / a claim is open) - the abstract entitlement function.

   Hypotheses about the STATIONS (to be discharged by the single-station theorems):
     S_entitled  a station transmits only when entitled by what it has noticed, inside the time
                 window of that entitlement (C01_who_may_transmit, C11_accept_iff, C11_supervise,
                 C12_status_reply_truth; the window part needs the poll-period bound)
     S_idle      it leaves its idle time after the end of every transmission it has noticed
                 (C01_sync_pause, C01_not_while_busy)
     S_own       it has noticed its own earlier transmissions (mark_tx)
   about the PROTOCOL (the entitlement function itself):
     E_unique    at one instant one prefix entitles at most one station
     E_windows   entitlements of two different stations by the same prefix are separated by at
                 least `react` (slot time / staggered claim time-outs against reaction times)
   about the MEDIUM and the SCHEDULE:
     T_sorted    the trace is in the order of the starts
     M_causal    a station notices only transmissions that began before its own
     M_visible   a transmission that began `react` earlier has been noticed (every completed byte
                 is delivered before the next poll, and polls are frequent enough). *)
Section Compose.
  Variable T : Type.
  Variables (sender : T -> Z) (start fin : T -> Z).
  Variable idle : nat -> Z.
  Variable entitled : list T -> Z -> Z -> Prop.
  Variable react : Z.
  Variable tr : list T.
  Variable seen : nat -> nat.

  Hypothesis T_sorted : forall i j x y, (i < j)%nat -> nth_error tr i = Some x -> nth_error tr j = Some y ->
    start x <= start y.
  Hypothesis S_entitled : forall k y, nth_error tr k = Some y ->
    entitled (firstn (seen k) tr) (start y) (sender y).
  Hypothesis S_idle : forall k y j x, nth_error tr k = Some y -> (j < seen k)%nat -> nth_error tr j = Some x ->
    fin x + idle k <= start y.
  Hypothesis S_own : forall j k x y, (j < k)%nat -> nth_error tr j = Some x -> nth_error tr k = Some y ->
    sender x = sender y -> (j < seen k)%nat.
  Hypothesis E_unique : forall pre t a b, entitled pre t a -> entitled pre t b -> a = b.
  Hypothesis E_windows : forall pre t t' a b, entitled pre t a -> entitled pre t' b -> a <> b -> t < t' ->
    t + react <= t'.
  Hypothesis M_causal : forall k y, nth_error tr k = Some y -> (seen k <= k)%nat.
  Hypothesis M_visible : forall j k x y, (j < k)%nat -> nth_error tr j = Some x -> nth_error tr k = Some y ->
    start x + react <= start y -> (j < seen k)%nat.

  (* every transmitter is up to date: it has noticed ALL earlier transmissions *)
  Lemma compose_up_to_date : forall k y, nth_error tr k = Some y -> seen k = k.
  Proof.
    intros k. induction k as [k IH] using (well_founded_induction lt_wf). intros y Hk.
    pose proof (M_causal k y Hk) as Hle.
    destruct (Nat.eq_dec (seen k) k) as [E|NE]; [exact E|exfalso].
    assert (Hm : (seen k < k)%nat) by lia.
    destruct (nth_error tr (seen k)) as [x|] eqn:Ex.
    2:{ apply nth_error_None in Ex. assert ((k < length tr)%nat) by (apply nth_error_Some; congruence). lia. }
    pose proof (IH (seen k) Hm x Ex) as Hup.
    pose proof (S_entitled k y Hk) as Ey.
    pose proof (S_entitled (seen k) x Ex) as Exx. rewrite Hup in Exx.
    destruct (Z.eq_dec (sender x) (sender y)) as [Es|Ns].
    - pose proof (S_own (seen k) k x y Hm Ex Hk Es). lia.
    - pose proof (T_sorted (seen k) k x y Hm Ex Hk) as Hs.
      destruct (Z.eq_dec (start x) (start y)) as [Et|Nt].
      + rewrite Et in Exx. apply Ns. exact (E_unique _ _ _ _ Exx Ey).
      + assert (Hlt : start x < start y) by lia.
        pose proof (E_windows _ _ _ _ _ Exx Ey Ns Hlt) as Hr.
        pose proof (M_visible (seen k) k x y Hm Ex Hk Hr). lia.
  Qed.

  (* hence the idle times hold against EVERY earlier transmission, and nothing overlaps *)
  Theorem compose_idle : forall i j x y, (i < j)%nat -> nth_error tr i = Some x -> nth_error tr j = Some y ->
    fin x + idle j <= start y.
  Proof.
    intros i j x y Hij Hi Hj. apply (S_idle j y i x Hj); [|exact Hi].
    rewrite (compose_up_to_date j y Hj). exact Hij.
  Qed.

  Theorem compose_no_overlap : (forall k, 0 <= idle k) ->
    forall i j x y, i <> j -> nth_error tr i = Some x -> nth_error tr j = Some y ->
    fin x <= start y \/ fin y <= start x.
  Proof.
    intros Hpos i j x y Hne Hi Hj. destruct (Nat.lt_total i j) as [L|[E|L]]; [left| contradiction |right].
    - pose proof (compose_idle i j x y L Hi Hj). pose proof (Hpos j). lia.
    - pose proof (compose_idle j i y x L Hj Hi). pose proof (Hpos i). lia.
  Qed.
End Compose.

(* the composition theorem on bus traces: the conclusions are the predicates of Bus.v *)
Lemma compose_bus (c : buscfg) (entitled : trace -> Z -> Z -> Prop) (react : Z) (tr : trace) (seen : nat -> nat) :
  (forall i j x y, (i < j)%nat -> nth_error tr i = Some x -> nth_error tr j = Some y -> start_sc x <= start_sc y) ->
  (forall k y, nth_error tr k = Some y -> entitled (firstn (seen k) tr) (start_sc y) (tx_sender y)) ->
  (forall k y j x, nth_error tr k = Some y -> (j < seen k)%nat -> nth_error tr j = Some x ->
     end_sc x + (idle_need (prev_of tr k) y - rate c) <= start_sc y) ->
  (forall j k x y, (j < k)%nat -> nth_error tr j = Some x -> nth_error tr k = Some y ->
     tx_sender x = tx_sender y -> (j < seen k)%nat) ->
  (forall pre t a b, entitled pre t a -> entitled pre t b -> a = b) ->
  (forall pre t t' a b, entitled pre t a -> entitled pre t' b -> a <> b -> t < t' -> t + react <= t') ->
  (forall k y, nth_error tr k = Some y -> (seen k <= k)%nat) ->
  (forall j k x y, (j < k)%nat -> nth_error tr j = Some x -> nth_error tr k = Some y ->
     start_sc x + react <= start_sc y -> (j < seen k)%nat) ->
  idle_times c tr /\ (rate c <= 11 * M -> no_overlap tr).
Proof.
  intros Hsort Hent Hidle Hown Hu Hw Hc Hv.
  assert (I : idle_times c tr).
  { intros i j x y Hij Hi Hj.
    pose proof (compose_up_to_date btx tx_sender start_sc entitled react tr seen
                  Hsort Hent Hown Hu Hw Hc Hv j y Hj) as Up.
    specialize (Hidle j y i x Hj ltac:(lia) Hi). lia. }
  split; [exact I|]. intros R. exact (idle_times_no_overlap c tr R I).
Qed.

(* non-vacuity of the hypotheses of the composition theorem: a two-station ping-pong *)
Definition ex_T := (Z * Z * Z)%type.    (* sender, start, end *)
Definition ex_tr : list ex_T := [(0, 0, 10); (1, 20, 30); (0, 40, 50)].
Definition ex_entitled (pre : list ex_T) (t : Z) (s : Z) : Prop := s = Z.of_nat (length pre) mod 2.

Lemma compose_example :
  let sender := fun x : ex_T => fst (fst x) in
  let start := fun x : ex_T => snd (fst x) in
  let fin := fun x : ex_T => snd x in
  (forall i j x y, (i < j)%nat -> nth_error ex_tr i = Some x -> nth_error ex_tr j = Some y -> start x <= start y) /\
  (forall k y, nth_error ex_tr k = Some y -> ex_entitled (firstn k ex_tr) (start y) (sender y)) /\
  (forall k y j x, nth_error ex_tr k = Some y -> (j < k)%nat -> nth_error ex_tr j = Some x -> fin x + 5 <= start y) /\
  (forall pre t a b, ex_entitled pre t a -> ex_entitled pre t b -> a = b) /\
  (forall pre t t' a b, ex_entitled pre t a -> ex_entitled pre t' b -> a <> b -> t < t' -> t + 1 <= t').
Proof.
  assert (B : forall k (y : ex_T), nth_error ex_tr k = Some y -> (k < 3)%nat).
  { intros k y Hk. change 3%nat with (length ex_tr). apply nth_error_Some. congruence. }
  cbn zeta. repeat split.
  - intros i j x y Hij Hi Hj. pose proof (B i x Hi). pose proof (B j y Hj).
    destruct i as [|[|[|i]]]; [| | |lia]; (destruct j as [|[|[|j]]]; [| | |lia]); try lia;
      cbn in Hi, Hj; inversion Hi; inversion Hj; subst; cbn; lia.
  - intros k y Hk. pose proof (B k y Hk).
    destruct k as [|[|[|k]]]; [| | |lia]; cbn in Hk; inversion Hk; subst; reflexivity.
  - intros k y j x Hk Hjk Hj. pose proof (B k y Hk).
    destruct k as [|[|[|k]]]; [| | |lia]; (destruct j as [|[|[|j]]]; [| | |lia]); try lia;
      cbn in Hk, Hj; inversion Hk; inversion Hj; subst; cbn; lia.
  - unfold ex_entitled. intros; congruence.
  - unfold ex_entitled. intros; congruence.
Qed.

(* ====================================================================================== *)
(* (a5) rotations as windows: every window of |R| consecutive passes is a rotation of R     *)
(* ====================================================================================== *)

Lemma nth_error_firstn' {A} : forall n (l : list A) i, (i < n)%nat -> nth_error (firstn n l) i = nth_error l i.
Proof.
  induction n as [|n IH]; intros l i Hi; [lia|].
  destruct l as [|x r]; [now destruct i|]. destruct i as [|i']; [reflexivity|].
  cbn [firstn nth_error]. apply IH. lia.
Qed.

(* the k-th rotation of R, read at position j *)
Lemma rot_nth (R : list Z) k j : (k < length R)%nat -> (j < length R)%nat ->
  nth_error (skipn k R ++ firstn k R) j = nth_error R ((k + j) mod length R).
Proof.
  intros Hk Hj. pose proof (skipn_length k R) as Ls.
  destruct (Nat.lt_ge_cases j (length R - k)) as [L|G].
  - rewrite nth_error_app1 by lia. rewrite nth_error_skipn'. rewrite Nat.mod_small by lia. reflexivity.
  - rewrite nth_error_app2 by lia. rewrite Ls. rewrite nth_error_firstn' by lia.
    f_equal. replace (k + j)%nat with ((j - (length R - k)) + 1 * length R)%nat by lia.
    rewrite Nat.mod_add by lia. rewrite Nat.mod_small by lia. reflexivity.
Qed.

Lemma nth_error_ext {A} : forall (l1 l2 : list A),
  (forall j, nth_error l1 j = nth_error l2 j) -> l1 = l2.
Proof.
  induction l1 as [|x r IH]; intros l2 H.
  - destruct l2 as [|y r2]; [reflexivity|]. specialize (H 0%nat). discriminate.
  - destruct l2 as [|y r2]; [specialize (H 0%nat); discriminate|].
    pose proof (H 0%nat) as H0. cbn in H0. inversion H0; subst y. f_equal.
    apply IH. intros j. exact (H (S j)).
Qed.

Lemma rotations_windows (R : list Z) (ps : list (Z * Z)) : rotations_of R ps -> ps <> [] ->
  exists k0, forall i, (i + length R <= length ps)%nat ->
    map fst (firstn (length R) (skipn i ps)) =
    skipn ((k0 + i) mod length R) R ++ firstn ((k0 + i) mod length R) R.
Proof.
  intros [E|[k0 H]] Hne; [contradiction|]. exists k0. intros i Hi.
  assert (Hn : length R <> 0%nat).
  { destruct ps as [|[sa da] r]; [contradiction|]. destruct (H 0%nat sa da eq_refl) as [A _].
    intros Z0. destruct R as [|r0 R']; [|cbn in Z0; discriminate]. cbn [length] in A.
    remember ((k0 + 0) mod 0)%nat as q. destruct q; discriminate. }
  apply nth_error_ext. intros j.
  destruct (Nat.lt_ge_cases j (length R)) as [Lj|Gj].
  - rewrite rot_nth by (try apply Nat.mod_upper_bound; lia).
    rewrite Nat.add_mod_idemp_l by exact Hn.
    rewrite nth_error_map, nth_error_firstn' by exact Lj. rewrite nth_error_skipn'.
    destruct (nth_error ps (i + j)) as [[sa da]|] eqn:Ep.
    + cbn. destruct (H (i + j)%nat sa da Ep) as [A _]. rewrite <- A. f_equal. f_equal. lia.
    + apply nth_error_None in Ep. lia.
  - assert (L1 : length (map fst (firstn (length R) (skipn i ps))) = length R).
    { rewrite map_length, firstn_length, skipn_length. lia. }
    assert (L2 : length (skipn ((k0 + i) mod length R) R ++ firstn ((k0 + i) mod length R) R) = length R).
    { pose proof (Nat.mod_upper_bound (k0 + i) (length R) Hn).
      rewrite app_length, skipn_length, firstn_length. lia. }
    transitivity (@None Z); [|symmetry]; apply nth_error_None; lia.
Qed.
