From PB Require Import Bus BusOracle.
