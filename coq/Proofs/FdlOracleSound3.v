(* FDL oracle soundness, part 3: the base invariant between the model run and the monitor state, and the rule
   groups of C01 (bus access), C05 (no panic) and C06 (claim after the time-out).

   The corner O9 (no class is excluded any more): after the SECOND address collision while listening, when further
   telegrams follow in the same receive buffer, the closure of do_listen_token re-creates the station
   (set_offline) and the next iteration still calls mark_rx on it, so last_bus_activity = Some(now) survives in the
   offline station (`no_stale` below fails).  When it is set online again the silence time-out is measured from
   that instant: the station may claim the token in the very poll that takes it online.  The monitor follows the
   code there (an offline station observes nothing, the claim reference is re-based at the self-offline poll);
   FdlOracleSound2.poll_offline_rst: a poll of an online station ends in state Offline only by that re-creation. *)
From Coq Require Import Arith.
From PB Require Import Common Tables FdlTables Telegram Phy TokenRing Params Fdl FdlOracle FdlProofs FdlStepProofs.
From PB Require Import C05Proofs C01Proofs C09Proofs C12Proofs FdlOracleSound1 FdlOracleSound2.

(* the states outside the corner O9 (not a hypothesis of the theorems; see c01_corner_example) *)
Definition no_stale (f : fdl) : Prop := f_state f = Offline -> f_lba f = None.

(* ------------------------------------------------------------------------------------------ *)
(* small facts                                                                                 *)

Lemma bytes_eqb_refl (l : bytes) : bytes_eqb l l = true.
Proof. induction l as [|x l IH]; [reflexivity|]. cbn. rewrite Z.eqb_refl. exact IH. Qed.

Lemma decode_one_token da sa : decode_one (encode_token da sa) = Some (TToken da sa).
Proof.
  unfold decode_one. rewrite <- (app_nil_r (encode_token da sa)). rewrite decode_token_frame. reflexivity.
Qed.

Lemma decode_one_data h pdu : wf_header h -> (length_byte h (length pdu) <= 249)%nat ->
  decode_one (encode (TData h pdu)) = Some (TData h pdu).
Proof.
  intros Hw Hl. unfold decode_one. cbn [encode]. rewrite <- (app_nil_r (frame_spec h pdu)).
  rewrite (decode_data_frame h pdu [] Hw Hl). rewrite app_nil_r, frame_spec_length, Nat.eqb_refl. reflexivity.
Qed.

Lemma dur_nonneg p k : 0 <= dur p k.
Proof. unfold dur. apply btt_nonneg. unfold bits_per_byte. lia. Qed.

Lemma dur_is_prop p (w : bytes) : bits_to_time (p_baud p) (prop_bits_per_byte * Zlen w) = dur p (length w).
Proof. reflexivity. Qed.

Lemma sync_is_prop p : p_bits_to_time p prop_sync_bits = p_bits_to_time p sync_pause_bits.
Proof. reflexivity. Qed.

(* the time-out is longer than the synchronisation pause *)
Lemma sync_lt_timeout p : builder_valid p -> p_bits_to_time p sync_pause_bits < token_lost_timeout p.
Proof.
  intros B. pose proof (bv_ranges _ B) as (Ha & _ & Hs & _).
  destruct B as (_ & (Hmin & _) & _).
  unfold token_lost_timeout, p_bits_to_time, bits_to_time, token_lost_base, token_lost_per_addr, sync_pause_bits.
  assert (H100 : 100 <= p_slot_bits p) by (destruct (p_baud p); cbn in Hmin; lia).
  assert (Hr : 1 <= baud_to_rate (p_baud p) <= 12000000) by (destruct (p_baud p); cbn; lia).
  set (r := baud_to_rate (p_baud p)) in *.
  assert (H1 : 33 * 1000000 / r + 1 = (33 * 1000000 + 1 * r) / r) by (rewrite Z.div_add by lia; reflexivity).
  assert (H2 : (33 * 1000000 + 1 * r) / r <= p_slot_bits p * (6 + 2 * p_address p) * 1000000 / r)
    by (apply Z.div_le_mono; nia).
  lia.
Qed.

(* ------------------------------------------------------------------------------------------ *)

Section S3.
Variable A : Type.
Variable ops : app_ops A.
Variable p : params.
Variable n : nat.
Hypothesis Happs : apps_total A ops.
Hypothesis Hbv : builder_valid p.

(* the base invariant: station, applications, PHY buffer, time of the last poll, first monitor *)
Record Base (f : fdl) (apps : list A) (buf : bytes) (tl : Z) (m : mon) : Prop := mkBase {
  b_rep : Rep (length apps) f;
  b_p : f_p f = p;
  b_n : length apps = n;
  b_view : m_view m = view_of f;
  b_left : m_left m = length buf;
  b_pend : (f_pending f <= length buf)%nat;
  b_bytes : all_bytes buf;
  b_tl : 0 <= tl
}.

Lemma all_bytes_app (a b : bytes) : all_bytes a -> all_bytes b -> all_bytes (a ++ b).
Proof. unfold all_bytes. intros Ha Hb. apply Forall_app. split; assumption. Qed.

Lemma m_view_x_m3 m s : m_view (x_m3 p n m s) = s_view s.
Proof. unfold x_m3. destruct (x_new_visit p m s); [reflexivity|]. destruct (state_kind_eqb _ _); reflexivity. Qed.
Lemma m_left_x_m3 m s : m_left (x_m3 p n m s) = x_left s.
Proof. unfold x_m3. destruct (x_new_visit p m s); [reflexivity|]. destruct (state_kind_eqb _ _); reflexivity. Qed.
Lemma m_lba_x_m3 m s : m_lba (x_m3 p n m s) = x_lba' p m s.
Proof. unfold x_m3. destruct (x_new_visit p m s); [reflexivity|]. destruct (state_kind_eqb _ _); reflexivity. Qed.
Lemma m_quiet_x_m3 m s : m_quiet (x_m3 p n m s) = x_quiet p m s.
Proof. unfold x_m3. destruct (x_new_visit p m s); [reflexivity|]. destruct (state_kind_eqb _ _); reflexivity. Qed.
Lemma m_start_x_m3 m s : m_start (x_m3 p n m s) = x_start m s.
Proof. unfold x_m3. destruct (x_new_visit p m s); [reflexivity|]. destruct (state_kind_eqb _ _); reflexivity. Qed.

Lemma fst_mon_poll m s : fst (mon_poll p n m s) = x_m3 p n m s.
Proof. rewrite mon_poll_eq. reflexivity. Qed.

Lemma skipn_length_le {X} k (l : list X) : (length (skipn k l) <= length l)%nat.
Proof. rewrite skipn_length. lia. Qed.

Lemma base_poll f apps buf tl m now busy nb f' o apps' calls :
  Base f apps buf tl m -> tl <= now -> time_ok now -> all_bytes nb ->
  poll ops f now (mkPhyIn busy (buf ++ nb)) apps = Ok (f', o, apps', calls) ->
  Base f' apps' (rx_left o) now (fst (mon_poll p n m (poll_event now busy (buf ++ nb) f' o calls))).
Proof.
  intros [R Hp Hn Hv Hl Hpd Hb Htl] Hle Hnow Hnb E.
  assert (Hrx : all_bytes (buf ++ nb)) by (apply all_bytes_app; assumption).
  destruct (poll_rep_step A ops Happs f now (mkPhyIn busy (buf ++ nb)) apps R Hnow Hrx) as (f'' & o'' & apps'' & c'' & E' & R' & L').
  rewrite E in E'. injection E' as <- <- <- <-.
  destruct (poll_bk A ops now _ _ _ _ _ _ _ E) as ((k & Ek) & Pp & Qp & _). cbn [rx] in *.
  rewrite fst_mon_poll. constructor.
  - rewrite L'. exact R'.
  - congruence.
  - congruence.
  - rewrite m_view_x_m3. reflexivity.
  - rewrite m_left_x_m3. unfold x_left. cbn [s_rx s_consumed poll_event]. rewrite Ek.
    pose proof (skipn_length_le k (buf ++ nb)). lia.
  - apply Pp. rewrite app_length. lia.
  - rewrite Ek. apply all_bytes_skipn. exact Hrx.
  - lia.
Qed.

Lemma base_api a f apps buf tl m g f' :
  Base f apps buf tl m -> api_result p a f = Ok f' ->
  Base f' apps buf tl (fst (mon_after_api a (view_of f') m g)).
Proof.
  intros [R Hp Hn Hv Hl Hpd Hb Htl] E.
  assert (Hnew : forall f1, fdl_new p = Ok f1 -> Base f1 apps buf tl (mon_reset (view_of f1) (m_left m))).
  { intros f1 E1. destruct (fdl_new_rep (length apps) p Hbv) as (f0 & E0 & R0 & _). rewrite E1 in E0. injection E0 as <-.
    destruct (fdl_new_fields _ _ E1) as (_ & _ & _ & P1 & Q1).
    constructor; try assumption; try reflexivity. rewrite P1. lia. }
  destruct a; cbn [api_result mon_after_api fst] in *.
  - apply Hnew. exact E.
  - unfold set_online, set_state in E. injection E as <-.
    destruct (Rep_set_online _ f R) as (f1 & E1 & R1). unfold set_online, set_state in E1. injection E1 as <-.
    constructor; try assumption; reflexivity.
  - unfold set_offline, set_state in E. rewrite Hp in E. apply Hnew. exact E.
  - discriminate E.
Qed.

Lemma base_init f0 apps : fdl_new p = Ok f0 -> length apps = n -> Base f0 apps [] 0 (mon_reset (view_of f0) 0).
Proof.
  intros E Hn. destruct (fdl_new_rep (length apps) p Hbv) as (f1 & E1 & R1 & _). rewrite E in E1. injection E1 as <-.
  destruct (fdl_new_fields _ _ E) as (_ & _ & _ & P1 & Q1).
  constructor; try assumption; try reflexivity; try lia. constructor.
Qed.

(* ------------------------------------------------------------------------------------------ *)
(* the timing invariant of C01 / C06 between the station's last_bus_activity and the monitor    *)

Record TI (f : fdl) (tl : Z) (m : mon) : Prop := mkTI {
  ti_lba : forall x, m_lba m = Some x -> match f_lba f with Some l => x <= l | None => x <= tl end;
  ti_some : f_lba f = None -> f_state f = Offline;
  ti_s1 : m_start m = None -> f_state f = Offline /\ f_lba f = None;
  ti_s2 : forall t0, m_start m = Some t0 -> t0 <= tl /\ forall l, f_lba f = Some l -> t0 <= l;
  ti_q0 : m_quiet m = None -> f_state f = Offline;
  ti_q1 : forall q, m_quiet m = Some q -> f_lba f <> None /\ forall l, f_lba f = Some l -> l <= q;
  ti_off : f_state f = Offline -> forall l, f_lba f = Some l -> l <= tl
}.

(* what one poll does to last_bus_activity, as far as the timing monitors need it *)
Inductive lba_case (f f' : fdl) (now : Z) (busy : bool) (rxb : bytes) (txo : option bytes) : Prop :=
| LcTx (wire : bytes) (l : Z) :
    txo = Some wire -> f_lba f' = Some (now + dur (f_p f) (length wire)) -> busy = false ->
    (length rxb <= f_pending f)%nat -> f_lba f = Some l -> l + p_bits_to_time (f_p f) sync_pause_bits < now ->
    lba_case f f' now busy rxb txo
| LcSame : txo = None -> f_lba f' = f_lba f -> lba_case f f' now busy rxb txo
| LcInsert : txo = None -> f_lba f' = Some (gv now (f_lba f)) -> lba_case f f' now busy rxb txo
| LcMark : txo = None -> (busy = true \/ rxb <> []) -> f_lba f' = Some (Z.max (gv now (f_lba f)) now) ->
    lba_case f f' now busy rxb txo
| LcReset : txo = None -> rst now f' -> (forall l, f_lba f = Some l -> l < now) -> lba_case f f' now busy rxb txo.

Lemma poll_lba_case f now busy rxb (apps : list A) f' o apps' calls :
  poll ops f now (mkPhyIn busy rxb) apps = Ok (f', o, apps', calls) ->
  lba_case f f' now busy rxb (tx o).
Proof.
  intros E. destruct (poll_bk A ops now _ _ _ _ _ _ _ E) as (_ & _ & _ & L & _). cbn [rx tx_busy] in L.
  destruct (tx o) as [wire|].
  - destruct L as (L1 & L2 & L3 & (l & El & Hlt)). eapply LcTx; eauto.
  - destruct L as [[L|[L|(M & L)]]|(R & Hl)].
    + apply LcSame; [reflexivity|exact L].
    + apply LcInsert; [reflexivity|exact L].
    + apply LcMark; [reflexivity|exact M|exact L].
    + apply LcReset; [reflexivity|exact R|exact Hl].
Qed.

Definition grewb (buf nb : bytes) : bool := Nat.ltb (length buf) (length (buf ++ nb)).

Lemma ti_poll f apps buf tl m now busy nb f' o apps' calls :
  Base f apps buf tl m -> TI f tl m -> tl <= now -> time_ok now -> all_bytes nb ->
  poll ops f now (mkPhyIn busy (buf ++ nb)) apps = Ok (f', o, apps', calls) ->
  TI f' now (fst (mon_poll p n m (poll_event now busy (buf ++ nb) f' o calls))).
Proof.
  intros HB [Tl Tsome Ts1 Ts2 Tq0 Tq1 Toff] Hle Hnow Hnb E.
  pose proof (base_poll _ _ _ _ _ _ _ _ _ _ _ _ HB Hle Hnow Hnb E) as HB'.
  destruct HB as [R Hp Hn Hv Hl Hpd Hb Htl].
  pose proof (poll_lba_case _ _ _ _ _ _ _ _ _ E) as LC.
  destruct (poll_bk A ops now _ _ _ _ _ _ _ E) as (_ & _ & _ & _ & Hact). cbn [rx tx_busy] in Hact.
  set (s := poll_event now busy (buf ++ nb) f' o calls) in *.
  rewrite fst_mon_poll.
  (* the connectivity of the old station: offline (the poll is a no-op) or online *)
  assert (Hconn : (f' = f /\ tx o = None /\ f_state f = Offline /\ f_conn f = ConnOffline) \/ f_conn f = ConnOnline).
  { pose proof (rep_conn _ _ R) as C. destruct (f_conn f) eqn:Ec.
    - left. assert (Hs : f_state f = Offline) by (destruct (f_state f); cbn in C; try congruence; try contradiction; reflexivity).
      rewrite (poll_offline_noop A ops f now _ apps Ec Hs) in E. injection E as <- <- _ _.
      split; [reflexivity|]. split; [reflexivity|]. split; [exact Hs|reflexivity].
    - exfalso. destruct (f_state f); cbn in C; try congruence; contradiction.
    - right. reflexivity. }
  assert (Hoff' : f_conn f' = ConnOffline -> f_state f' = Offline).
  { intros Hc. pose proof (rep_conn _ _ (b_rep _ _ _ _ _ HB')) as C. rewrite Hc in C.
    destruct (f_state f'); cbn in C; try congruence; try contradiction; reflexivity. }
  assert (Hdur : forall w : bytes, 0 <= dur p (length w)) by (intros; apply dur_nonneg).
  assert (Hsync : 0 <= p_bits_to_time p sync_pause_bits) by (rewrite <- Hp; apply sync_nonneg).
  (* a station without last_bus_activity that is polled while online records one *)
  assert (Hfresh : f_lba f = None -> f_lba f' = None -> f_state f' = Offline).
  { intros E0 E1. pose proof (Tsome E0) as Hs. destruct Hconn as [(-> & _)|Ec]; [exact Hs|].
    destruct (poll_online_lba_some A ops now _ _ _ _ _ _ _ E Ec Hs E0) as [C|(S1 & _)]; [contradiction|exact S1]. }
  set (g := (grewb buf nb || busy) && x_pre_online m).
  assert (Hxg : (x_grew m s || s_busy s) && x_pre_online m = g) by (unfold x_grew, grewb, g; rewrite Hl; reflexivity).
  assert (Hpo : x_pre_online m = match f_conn f with ConnOffline => false | _ => true end)
    by (unfold x_pre_online, x_pre; rewrite Hv; reflexivity).
  (* activity seen by the monitor is activity seen by the station *)
  assert (Hg : g = true -> f_conn f = ConnOnline ->
               tx o = None /\ (f_lba f' = Some (Z.max (gv now (f_lba f)) now) \/ rst now f')).
  { intros Hg1 Ec. apply Hact; [congruence|]. unfold g in Hg1. apply andb_prop in Hg1. destruct Hg1 as (Hg1 & _).
    apply orb_prop in Hg1.
    destruct Hg1 as [Hg1|Hg1]; [right|left; exact Hg1]. unfold grewb in Hg1. apply Nat.ltb_lt in Hg1. lia. }
  assert (Hnog : (length (buf ++ nb) <= f_pending f)%nat -> busy = false -> g = false).
  { intros H1 ->. unfold g, grewb. rewrite orb_false_r. replace (Nat.ltb _ _) with false by (symmetry; apply Nat.ltb_ge; lia). reflexivity. }
  (* the monitor's last bus activity before the transmission of this poll *)
  assert (HX : forall x, x_lba m s = Some x ->
             match f_lba f' with Some l' => tx o = None -> x <= l' | None => x <= now end /\
             (g = false -> m_lba m = Some x)).
  { unfold x_lba. rewrite Hxg. cbn [s_now s poll_event]. intros x Hx.
    destruct g eqn:Eg.
    - injection Hx as <-. split; [|discriminate].
      assert (Hx0 : forall x0, m_lba m = Some x0 -> match f_lba f with Some l => x0 <= l | None => x0 <= now end).
      { intros x0 Em. specialize (Tl x0 Em). destruct (f_lba f); lia. }
      destruct Hconn as [(_ & _ & _ & Ec0)|Ec].
      + exfalso. unfold g in Eg. rewrite Hpo, Ec0, andb_false_r in Eg. discriminate Eg.
      + destruct (Hg eq_refl Ec) as (Htx0 & [La|(S1 & C1 & P1 & L1)]).
        * rewrite La. intros _. destruct (m_lba m) as [x0|] eqn:Em; cbn [zmax_opt]; [|lia].
          specialize (Hx0 x0 eq_refl). destruct (f_lba f); cbn [gv]; lia.
        * assert (Hle0 : zmax_opt (m_lba m) now <= now).
          { destruct (m_lba m) as [x0|] eqn:Em; cbn [zmax_opt]; [|lia]. specialize (Hx0 x0 eq_refl).
            destruct LC as [wire l Etx L' Hb0 Hng El Hlt|Etx L'|Etx L'|Etx M L'|Etx _ Hl1].
            - rewrite Htx0 in Etx. discriminate Etx.
            - destruct (f_lba f) as [l|]; [|lia]. rewrite L' in L1. destruct L1 as [L1|L1]; [discriminate|injection L1 as ->; lia].
            - rewrite L' in L1. destruct L1 as [L1|L1]; [discriminate|]. injection L1 as L1. destruct (f_lba f); cbn [gv] in *; lia.
            - rewrite L' in L1. destruct L1 as [L1|L1]; [discriminate|]. injection L1 as L1. destruct (f_lba f); cbn [gv] in *; lia.
            - destruct (f_lba f) as [l|]; [specialize (Hl1 l eq_refl); lia|lia]. }
          destruct L1 as [-> | ->]; [exact Hle0|intros _; exact Hle0].
    - split; [|intros _; exact Hx]. specialize (Tl x Hx).
      destruct LC as [wire l Etx L' Hb0 Hng El Hlt|Etx L'|Etx L'|Etx M L'|Etx (S1 & C1 & P1 & L1) Hl1].
      + rewrite L'. intros C. rewrite Etx in C. discriminate C.
      + rewrite L'. destruct (f_lba f); [intros _; exact Tl|lia].
      + rewrite L'. intros _. destruct (f_lba f); cbn [gv]; lia.
      + rewrite L'. intros _. destruct (f_lba f); cbn [gv]; lia.
      + assert (x <= now) by (destruct (f_lba f) as [l|]; [specialize (Hl1 l eq_refl); lia|lia]).
        destruct L1 as [-> | ->]; [assumption|intros _; assumption]. }
  constructor.
  - (* ti_lba *)
    rewrite m_lba_x_m3. unfold x_lba', x_tx_end. cbn [s_tx s_now s poll_event]. intros x Hx.
    destruct LC as [wire l Etx L' Hb0 Hng El Hlt|Etx L'|Etx L'|Etx M L'|Etx R1 Hl1]; rewrite Etx in Hx.
    + rewrite dur_is_prop in Hx. rewrite L', Hp. specialize (Hdur wire). injection Hx as <-.
      destruct (x_lba m s) as [x1|] eqn:Ex; cbn [zmax_opt]; [|lia].
      destruct (HX x1 eq_refl) as (_ & H2). specialize (H2 (Hnog Hng Hb0)). specialize (Tl x1 H2).
      rewrite El in Tl. rewrite Hp in Hlt. lia.
    + destruct (HX x Hx) as (H1 & _). destruct (f_lba f'); [exact (H1 Etx)|exact H1].
    + destruct (HX x Hx) as (H1 & _). destruct (f_lba f'); [exact (H1 Etx)|exact H1].
    + destruct (HX x Hx) as (H1 & _). destruct (f_lba f'); [exact (H1 Etx)|exact H1].
    + destruct (HX x Hx) as (H1 & _). destruct (f_lba f'); [exact (H1 Etx)|exact H1].
  - (* ti_some *)
    intros E1.
    destruct LC as [wire l Etx L' Hb0 Hng El Hlt|Etx L'|Etx L'|Etx M L'|Etx (S1 & C1 & P1 & L1) Hl1].
    + rewrite L' in E1. discriminate E1.
    + rewrite E1 in L'. apply Hfresh; [symmetry; exact L'|exact E1].
    + rewrite L' in E1. discriminate E1.
    + rewrite L' in E1. discriminate E1.
    + exact S1.
  - (* ti_s1 *)
    rewrite m_start_x_m3. unfold x_start, x_online, x_post. cbn [s_view s poll_event view_of v_conn].
    intros H. rewrite Hpo in H.
    destruct (f_conn f') eqn:Ec'; [|destruct (m_start m); discriminate H|destruct (m_start m); discriminate H].
    destruct Hconn as [(-> & _ & _ & Ec0)|Ec0]; rewrite Ec0 in H; [exact (Ts1 H)|discriminate H].
  - (* ti_s2 *)
    rewrite m_start_x_m3. unfold x_start, x_online, x_post. cbn [s_view s_now s poll_event view_of v_conn].
    intros t0 H.
    destruct (f_conn f') eqn:Ec'.
    { (* the station is offline after the poll: it was offline before (the poll is a no-op), or it has re-created
         itself in this poll and its last_bus_activity, if any, is `now` (O9) *)
      rewrite Hpo in H. destruct Hconn as [(-> & _ & _ & Ec0)|Ec0]; rewrite Ec0 in H.
      - destruct (Ts2 t0 H) as (Ht & Hl0). split; [lia|exact Hl0].
      - injection H as <-. split; [lia|]. intros l' El'.
        destruct (poll_offline_rst A ops _ _ _ _ _ _ _ _ E Ec0 (Hoff' eq_refl)) as (_ & _ & _ & [L1|L1]); rewrite L1 in El';
          [discriminate El'|injection El' as <-; lia]. }
    { exfalso. pose proof (rep_conn _ _ (b_rep _ _ _ _ _ HB')) as C. rewrite Ec' in C. destruct (f_state f'); cbn in C; try congruence; contradiction. }
    assert (Hc' : ConnOnline <> ConnOffline) by discriminate.
    assert (H0 : (m_start m = Some t0) \/ (m_start m = None /\ t0 = now)).
    { destruct (m_start m); injection H as <-; auto. }
    destruct H0 as [Es|(Es & ->)].
    + destruct (Ts2 t0 Es) as (Ht0 & Hl0). split; [lia|]. intros l' El'.
      destruct LC as [wire l Etx L' Hb0 Hng El Hlt|Etx L'|Etx L'|Etx M L'|Etx (S1 & C1 & P1 & L1) Hl1].
      * rewrite L', Hp in El'. injection El' as <-. specialize (Hdur wire). lia.
      * rewrite L' in El'. exact (Hl0 _ El').
      * rewrite L' in El'. injection El' as <-. destruct (f_lba f) as [l|] eqn:El; cbn [gv]; [exact (Hl0 l eq_refl)|lia].
      * rewrite L' in El'. injection El' as <-. destruct (f_lba f) as [l|] eqn:El; cbn [gv]; [specialize (Hl0 l eq_refl); lia|lia].
      * congruence.
    + split; [lia|]. intros l' El'. destruct (Ts1 Es) as (_ & E0).
      destruct LC as [wire l Etx L' Hb0 Hng El Hlt|Etx L'|Etx L'|Etx M L'|Etx (S1 & C1 & P1 & L1) Hl1].
      * rewrite E0 in El. discriminate El.
      * rewrite L', E0 in El'. discriminate El'.
      * rewrite L', E0 in El'. cbn [gv] in El'. injection El' as <-. lia.
      * rewrite L', E0 in El'. cbn [gv] in El'. injection El' as <-. lia.
      * congruence.
  - (* ti_q0 *)
    rewrite m_quiet_x_m3. unfold x_quiet, x_online, x_post. cbn [s_view s poll_event view_of v_conn].
    intros H. apply Hoff'. destruct (f_conn f'); [reflexivity| |]; cbn [negb] in H;
      (destruct (x_tx_end p _); [discriminate H|]);
      (match type of H with context [if ?b then _ else _] => destruct b end; [discriminate H|]);
      destruct (m_quiet m); discriminate H.
  - (* ti_q1 *)
    rewrite m_quiet_x_m3. unfold x_quiet, x_online, x_post, x_tx_end. cbn [s_view s_tx s_busy s_rx s_now s poll_event view_of v_conn].
    intros q H.
    assert (Hc' : f_conn f' <> ConnOffline) by (intros C; rewrite C in H; discriminate H).
    assert (H0 : Some q = match tx o with
                          | Some w => Some (zmax_opt (m_quiet m) (now + dur p (length w)))
                          | None => if busy || match buf ++ nb with [] => false | _ => true end
                                    then Some (zmax_opt (m_quiet m) now)
                                    else match m_quiet m with Some q0 => Some q0 | None => Some now end
                          end).
    { destruct (f_conn f'); [contradiction| |]; cbn [negb] in H; rewrite <- H; destruct (tx o); reflexivity. }
    clear H.
    assert (Hmq : forall q0, m_quiet m = Some q0 -> exists l, f_lba f = Some l /\ l <= q0).
    { intros q0 Eq. destruct (Tq1 q0 Eq) as (Hne & Hle0). destruct (f_lba f) as [l|]; [exists l; split; [reflexivity|exact (Hle0 l eq_refl)]|contradiction]. }
    assert (Hm0 : m_quiet m = None -> forall l, f_lba f = Some l -> l <= now)
      by (intros Eq l El; specialize (Toff (Tq0 Eq) l El); lia).
    assert (Hcase : (exists l, f_lba f = Some l) \/ f_lba f = None) by (destruct (f_lba f); eauto).
    destruct LC as [wire l Etx L' Hb0 Hng El Hlt|Etx L'|Etx L'|Etx M L'|Etx (S1 & C1 & P1 & L1) Hl1]; rewrite Etx in H0.
    + split; [rewrite L'; discriminate|]. intros l' El'. rewrite L', Hp in El'. injection El' as <-. injection H0 as ->.
      destruct (m_quiet m); cbn [zmax_opt]; lia.
    + destruct (m_quiet m) as [q0|] eqn:Eq.
      * destruct (Hmq q0 eq_refl) as (l & El & Hlq). split; [rewrite L', El; discriminate|].
        intros l' El'. rewrite L', El in El'. injection El' as <-.
        destruct (busy || _); injection H0 as ->; cbn [zmax_opt]; lia.
      * destruct Hcase as [(l & El)|E0].
        -- split; [rewrite L', El; discriminate|]. intros l' El'. rewrite L', El in El'. injection El' as <-.
           specialize (Hm0 eq_refl l El). destruct (busy || _); injection H0 as ->; cbn [zmax_opt]; lia.
        -- split.
           ++ intros C. apply Hc'. pose proof (Hfresh E0 C) as Hs'.
              destruct Hconn as [(-> & _ & _ & Ec)|Ec]; [exact Ec|].
              destruct (poll_online_lba_some A ops now _ _ _ _ _ _ _ E Ec (Tsome E0) E0) as [C2|(_ & C2 & _)]; [contradiction|exact C2].
           ++ intros l' El'. rewrite L', E0 in El'. discriminate El'.
    + split; [rewrite L'; discriminate|]. intros l' El'. rewrite L' in El'. injection El' as <-.
      destruct (m_quiet m) as [q0|] eqn:Eq.
      * destruct (Hmq q0 eq_refl) as (l & El & Hlq). rewrite El. cbn [gv].
        destruct (busy || _); injection H0 as ->; cbn [zmax_opt]; lia.
      * destruct Hcase as [(l & El)|E0]; [rewrite El; specialize (Hm0 eq_refl l El)|rewrite E0]; cbn [gv];
          destruct (busy || _); injection H0 as ->; cbn [zmax_opt]; lia.
    + split; [rewrite L'; discriminate|]. intros l' El'. rewrite L' in El'. injection El' as <-.
      assert (Hb1 : busy || match buf ++ nb with [] => false | _ => true end = true).
      { destruct M as [-> | M]; [reflexivity|]. destruct (buf ++ nb); [contradiction|apply orb_true_r]. }
      rewrite Hb1 in H0. injection H0 as ->.
      destruct (m_quiet m) as [q0|] eqn:Eq; cbn [zmax_opt].
      * destruct (Hmq q0 eq_refl) as (l & El & Hlq). rewrite El. cbn [gv]. lia.
      * destruct Hcase as [(l & El)|E0]; [rewrite El; specialize (Hm0 eq_refl l El)|rewrite E0]; cbn [gv]; lia.
    + contradiction.
  - (* ti_off *)
    intros Hs' l' El'.
    destruct Hconn as [(-> & _ & Hs & _)|Ec0].
    + specialize (Toff Hs l' El'). lia.
    + destruct (poll_offline_rst A ops _ _ _ _ _ _ _ _ E Ec0 Hs') as (_ & _ & _ & [L1|L1]); rewrite L1 in El';
        [discriminate El'|injection El' as <-; lia].
Qed.

Lemma ti_api a f apps buf tl m g f' :
  Base f apps buf tl m -> TI f tl m -> api_result p a f = Ok f' ->
  TI f' tl (fst (mon_after_api a (view_of f') m g)).
Proof.
  intros HB [Tl Tsome Ts1 Ts2 Tq0 Tq1 Toff] E.
  assert (Hnew : forall f1 v k, fdl_new p = Ok f1 -> TI f1 tl (mon_reset v k)).
  { intros f1 v k E1. destruct (fdl_new_fields _ _ E1) as (S1 & _ & L1 & _).
    constructor; cbn [mon_reset m_lba m_start m_quiet]; try discriminate.
    - intros _. exact S1.
    - intros _. split; assumption.
    - intros _. exact S1.
    - intros _ l C. rewrite L1 in C. discriminate C. }
  destruct a; cbn [api_result mon_after_api fst] in *.
  - apply Hnew. exact E.
  - unfold set_online, set_state in E. injection E as <-. constructor; cbn; assumption.
  - unfold set_offline, set_state in E. rewrite (b_p _ _ _ _ _ HB) in E. apply Hnew. exact E.
  - discriminate E.
Qed.

Lemma no_stale_new f1 : fdl_new p = Ok f1 -> no_stale f1.
Proof. intros E _. exact (proj1 (proj2 (proj2 (fdl_new_fields _ _ E)))). Qed.

(* ------------------------------------------------------------------------------------------ *)
(* C01: no rule of the group fires                                                              *)

Lemma x_k0_base f apps buf tl m : Base f apps buf tl m -> x_k0 m = kind_of (f_state f).
Proof. intros HB. unfold x_k0, x_pre. rewrite (b_view _ _ _ _ _ HB). reflexivity. Qed.

Lemma c01_ok f apps buf tl m now busy nb f' o apps' calls :
  Base f apps buf tl m -> TI f tl m -> tl <= now -> time_ok now -> all_bytes nb ->
  poll ops f now (mkPhyIn busy (buf ++ nb)) apps = Ok (f', o, apps', calls) ->
  x_e01 p m (poll_event now busy (buf ++ nb) f' o calls) = [].
Proof.
  intros HB HT Hle Hnow Hnb E.
  pose proof (poll_lba_case _ _ _ _ _ _ _ _ _ E) as LC.
  pose proof (x_k0_base _ _ _ _ _ HB) as Hk0.
  destruct HB as [R Hp Hn Hv Hl Hpd Hb Htl]. destruct HT as [Tl Tsome Ts1 Ts2 Tq0 Tq1 Toff].
  set (s := poll_event now busy (buf ++ nb) f' o calls) in *.
  unfold x_e01. cbn [s_tx s poll_event]. destruct (tx o) as [wire|] eqn:Etx; [|reflexivity].
  destruct LC as [wire' l Etx' L' Hb0 Hng El Hlt|C _|C _|C _ _|C _ _]; try discriminate C. injection Etx' as <-.
  assert (Hts : x_ts p = ts f) by (unfold x_ts, ts; rewrite Hp; reflexivity).
  assert (Hxl : x_lba m s = m_lba m).
  { unfold x_lba, x_grew. cbn [s_rx s_busy s poll_event]. rewrite Hl, Hb0.
    replace (Nat.ltb (length buf) (length (buf ++ nb))) with false by (symmetry; apply Nat.ltb_ge; lia). reflexivity. }
  assert (Hsil : forall d, l + d < now -> x_silent m s d = true).
  { intros d Hd. unfold x_silent. rewrite Hxl. cbn [x_now s_now s poll_event]. destruct (m_lba m) as [x|] eqn:Em; [|reflexivity].
    specialize (Tl x eq_refl). rewrite El in Tl. apply Z.ltb_lt. unfold x_now. cbn. lia. }
  cbn [s_busy s poll_event]. rewrite Hb0. cbn [negb check app].
  unfold x_sync. rewrite sync_is_prop. rewrite <- Hp at 1. rewrite (Hsil _ Hlt). cbn [check app].
  rewrite Hk0.
  pose proof (bv_timeouts _ Hbv) as (Hslot & Hto).
  destruct (f_state f) as [ | |sr cc|sr nps cc|tk fa fcd|st|a tk fa|dg att|att|a] eqn:Es; cbn [kind_of kind_in existsb state_kind_eqb orb];
    try reflexivity.
  - (* Offline: the poll takes the station online; the only transmission is the claim - at once when the station
       kept a last_bus_activity from its re-creation (O9) *)
    assert (Hcl : wire = encode_token (ts f) (ts f) /\ kind_of (f_state f') = KClaimToken).
    { destruct (poll_transmissions A ops _ _ _ _ _ _ _ _ _ E Etx) as [(cs & i & hp & er & _ & [K|K] & _)|(_ & [Htok|[Hgap|Hrep]])];
        try (rewrite Es in K; discriminate K).
      - destruct Htok as (da & Hw & [(Hda & Hcl)|(_ & [K|[K|[K|[K|K]]]])]); try (rewrite Es in K; discriminate K).
        subst da. split; [exact Hw|]. destruct Hcl as [(S & _)|(S & _)]; rewrite S; reflexivity.
      - exfalso. destruct Hgap as (a & _ & _ & _ & _ & _ & [(_ & [(att & K)|[K|K]])|(_ & [K|(a0 & K)])]); rewrite Es in K; discriminate K.
      - exfalso. destruct Hrep as (src & st & _ & [(cc & K & _)|(nps & cc & K & _)]); rewrite Es in K; discriminate K. }
    destruct Hcl as (Hw & Hs').
    unfold x_txt. cbn [s_tx s poll_event]. rewrite Etx, Hw, decode_one_token.
    unfold is_claim_token. rewrite Hts, bytes_eqb_refl. cbn [check app].
    destruct (poll_claim_needs_timeout A ops _ _ _ _ _ _ _ _ E ltac:(right; right; rewrite Es; reflexivity) Hs' ltac:(rewrite Hp; exact Hto))
      as (l2 & El2 & _ & Hl2). rewrite El in El2. injection El2 as <-.
    destruct (m_start m) as [t0|] eqn:Est; [|destruct (Ts1 eq_refl) as (_ & C); rewrite C in El; discriminate El].
    destruct (Ts2 t0 eq_refl) as (_ & Ht0). specialize (Ht0 l El).
    rewrite Hxl. replace (token_lost_timeout p <=? x_now s - zmax_opt (m_lba m) t0) with true; [reflexivity|].
    symmetry. apply Z.leb_le. unfold x_now. cbn [s_now s poll_event]. rewrite Hp in Hl2.
    destruct (m_lba m) as [x|] eqn:Em; cbn [zmax_opt]; [specialize (Tl x eq_refl); rewrite El in Tl; lia|lia].
  - (* PassiveIdle *) exfalso. pose proof (rep_st _ _ R) as St. rewrite Es in St. exact St.
  - (* ListenToken *)
    destruct (listen_idle_transmissions A ops _ _ _ _ _ _ _ _ _ E ltac:(left; rewrite Es; reflexivity) Etx) as (_ & [(Hw & Hs')|(src & st & Hm & Hw & _)]).
    + unfold x_txt. cbn [s_tx s poll_event]. rewrite Etx, Hw, decode_one_token.
      unfold is_claim_token. rewrite Hts, bytes_eqb_refl. cbn [check app].
      destruct (poll_claim_needs_timeout A ops _ _ _ _ _ _ _ _ E ltac:(left; rewrite Es; reflexivity) ltac:(rewrite Hs'; reflexivity) ltac:(rewrite Hp; exact Hto))
        as (l2 & El2 & _ & Hl2). rewrite El in El2. injection El2 as <-.
      destruct (m_start m) as [t0|] eqn:Est; [|destruct (Ts1 eq_refl) as (C & _); discriminate C].
      destruct (Ts2 t0 eq_refl) as (_ & Ht0). specialize (Ht0 l El).
      rewrite Hxl. replace (token_lost_timeout p <=? x_now s - zmax_opt (m_lba m) t0) with true; [reflexivity|].
      symmetry. apply Z.leb_le. unfold x_now. cbn [s_now s poll_event]. rewrite Hp in Hl2.
      destruct (m_lba m) as [x|] eqn:Em; cbn [zmax_opt]; [specialize (Tl x eq_refl); rewrite El in Tl; lia|lia].
    + unfold x_txt. cbn [s_tx s poll_event]. rewrite Etx, Hw. unfold reply_wire.
      assert (Hwf : wf_header (status_response_header src (ts f) st status_reply_status)).
      { pose proof (rep_st _ _ R) as St. rewrite Es in St, Hm. cbn in Hm. subst sr. destruct St as (Hsr & _). cbn in Hsr.
        pose proof (Rep_ts _ _ R). unfold wf_header, is_addr7. cbn. lia. }
      rewrite (decode_one_data _ [] Hwf) by (cbn; lia).
      cbn [status_response_header h_fc h_sa]. rewrite Hts, Z.eqb_refl. reflexivity.
  - (* ActiveIdle *)
    destruct (listen_idle_transmissions A ops _ _ _ _ _ _ _ _ _ E ltac:(right; rewrite Es; reflexivity) Etx) as (_ & [(Hw & Hs')|(src & st & Hm & Hw & _)]).
    + unfold x_txt. cbn [s_tx s poll_event]. rewrite Etx, Hw, decode_one_token.
      unfold is_claim_token. rewrite Hts, bytes_eqb_refl. cbn [check app].
      destruct (poll_claim_needs_timeout A ops _ _ _ _ _ _ _ _ E ltac:(right; left; rewrite Es; reflexivity) ltac:(rewrite Hs'; reflexivity) ltac:(rewrite Hp; exact Hto))
        as (l2 & El2 & _ & Hl2). rewrite El in El2. injection El2 as <-.
      destruct (m_start m) as [t0|] eqn:Est; [|destruct (Ts1 eq_refl) as (C & _); discriminate C].
      destruct (Ts2 t0 eq_refl) as (_ & Ht0). specialize (Ht0 l El).
      rewrite Hxl. replace (token_lost_timeout p <=? x_now s - zmax_opt (m_lba m) t0) with true; [reflexivity|].
      symmetry. apply Z.leb_le. unfold x_now. cbn [s_now s poll_event]. rewrite Hp in Hl2.
      destruct (m_lba m) as [x|] eqn:Em; cbn [zmax_opt]; [specialize (Tl x eq_refl); rewrite El in Tl; lia|lia].
    + unfold x_txt. cbn [s_tx s poll_event]. rewrite Etx, Hw. unfold reply_wire.
      assert (Hwf : wf_header (status_response_header src (ts f) st status_reply_status)).
      { pose proof (rep_st _ _ R) as St. rewrite Es in St, Hm. cbn in Hm. subst sr. destruct St as (Hsr & _). cbn in Hsr.
        pose proof (Rep_ts _ _ R). unfold wf_header, is_addr7. cbn. lia. }
      rewrite (decode_one_data _ [] Hwf) by (cbn; lia).
      cbn [status_response_header h_fc h_sa]. rewrite Hts, Z.eqb_refl. reflexivity.
  - (* CheckTokenPass: the retry, after the slot time *)
    destruct (poll_who A ops _ _ _ _ _ _ _ _ _ E Etx ltac:(rewrite Hp; exact Hslot) ltac:(rewrite Hp; exact Hto))
      as [H|[H|[(_ & l2 & El2 & Hl2)|[(src & cc & H)|[(src & nps & cc & H)|([H|[H|H]] & _)]]]]];
      try (rewrite Es in H; discriminate H).
    rewrite El in El2. injection El2 as <-. unfold x_slot. rewrite <- Hp. rewrite (Hsil _ Hl2). reflexivity.
Qed.

(* ------------------------------------------------------------------------------------------ *)
(* C06: the claim after the time-out                                                           *)

Lemma c06_ok f apps buf tl m now busy nb f' o apps' calls :
  Base f apps buf tl m -> TI f tl m -> tl <= now -> time_ok now -> all_bytes nb ->
  poll ops f now (mkPhyIn busy (buf ++ nb)) apps = Ok (f', o, apps', calls) ->
  x_e06 p m (poll_event now busy (buf ++ nb) f' o calls) = [].
Proof.
  intros HB HT Hle Hnow Hnb E.
  pose proof (x_k0_base _ _ _ _ _ HB) as Hk0.
  destruct HB as [R Hp Hn Hv Hl Hpd Hb Htl]. destruct HT as [Tl Tsome Ts1 Ts2 Tq0 Tq1 Toff].
  unfold x_e06. rewrite Hk0. cbn [s_busy s_rx s_tx poll_event].
  destruct (kind_in (kind_of (f_state f)) [KListenToken; KActiveIdle]) eqn:Ek; [|reflexivity].
  destruct busy; [reflexivity|]. cbn [negb andb].
  destruct (buf ++ nb) as [|b0 rest] eqn:Erx; [|reflexivity]. cbn [andb].
  destruct (m_quiet m) as [q|] eqn:Eq; [|reflexivity].
  destruct (token_lost_timeout p <=? x_now (poll_event now false [] f' o calls) - q) eqn:Et; [|reflexivity].
  apply Z.leb_le in Et. unfold x_now in Et. cbn [s_now poll_event] in Et.
  destruct (Tq1 q eq_refl) as (Hne & Hq). destruct (f_lba f) as [l|] eqn:El; [|contradiction]. specialize (Hq l eq_refl).
  pose proof (sync_lt_timeout p Hbv) as Hst.
  assert (Hcl : exists f2, poll ops f now (mkPhyIn false []) apps =
                  Ok (f2, mkPhyOut (Some (encode_token (ts f) (ts f))) [], apps, []) /\ f_state f2 = ClaimToken StepSecondToken).
  { apply (claim_progress A ops f now [] apps l).
    - apply (Rep_online _ _ R). intros C. rewrite C in Ek. discriminate Ek.
    - destruct (f_state f); try discriminate Ek; [left|right]; eauto.
    - exact El.
    - pose proof (rep_lba _ _ R) as Rl. rewrite El in Rl. cbn in Rl. unfold lba_rng in Rl. unfold time_ok in *.
      pose proof (bv_timeouts _ Hbv). lia.
    - exact Hnow.
    - cbn. lia.
    - rewrite Hp. lia.
    - rewrite Hp. lia. }
  destruct Hcl as (f2 & E2 & _). rewrite E2 in E. injection E as _ <- _ _. cbn [tx].
  unfold is_claim_token, x_ts, ts. rewrite Hp, bytes_eqb_refl. reflexivity.
Qed.

End S3.

(* ------------------------------------------------------------------------------------------ *)
(* the errors of one poll, for a property whose own rule groups are silent                      *)

Lemma pid_eq_dec (a b : pid) : {a = b} + {a <> b}.
Proof. decide equality. Qed.

Lemma onlyp_other (P P' : pid) l : P' <> P -> onlyp (eq P') l -> onlyp (is_not P) l.
Proof. intros H O r Hr. unfold is_not. rewrite <- (O r Hr). exact H. Qed.

Lemma onlyp_group (P P' : pid) l : (P = P' -> l = []) -> onlyp (eq P') l -> onlyp (is_not P) l.
Proof.
  intros H O. destruct (pid_eq_dec P P') as [E|E].
  - rewrite (H E). apply onlyp_nil.
  - apply (onlyp_other P P'); [intros C; apply E; symmetry; exact C|exact O].
Qed.

Lemma mon_poll_errs_other (P : pid) p n m s :
  (P = PC01 -> x_e01 p m s = []) -> (P = PC06 -> x_e06 p m s = []) ->
  (P = PC11 -> x_e11a p m s = []) -> (P = PC11 -> x_e11c p m s = []) -> (P = PC11 -> x_e11b p m s = []) ->
  (P = PC12 -> x_e12a p m s = []) -> (P = PC12 -> x_e12b p m s = []) ->
  onlyp (is_not P) (snd (x_fold p n m s)) ->
  (P = PC15 -> x_e15 p n m s = []) ->
  onlyp (is_not P) (snd (mon_poll p n m s)).
Proof.
  intros H1 H6 H11a H11c H11b H12a H12b Hf H15. rewrite mon_poll_eq. cbn [snd].
  apply onlyp_app; [exact (onlyp_group _ _ _ H1 (x_e01_only p m s))|].
  apply onlyp_app; [exact (onlyp_group _ _ _ H6 (x_e06_only p m s))|].
  apply onlyp_app; [exact (onlyp_group _ _ _ H11a (x_e11a_only p m s))|].
  apply onlyp_app; [exact (onlyp_group _ _ _ H11c (x_e11c_only p m s))|].
  apply onlyp_app; [exact (onlyp_group _ _ _ H11b (x_e11b_only p m s))|].
  apply onlyp_app; [exact (onlyp_group _ _ _ H12a (x_e12a_only p m s))|].
  apply onlyp_app; [exact (onlyp_group _ _ _ H12b (x_e12b_only p m s))|].
  apply onlyp_app; [exact Hf|].
  exact (onlyp_group _ _ _ H15 (x_e15_only p n m s)).
Qed.

Lemma x_fold_other (P : pid) p n m s : P <> PC13 -> P <> PC15 -> onlyp (is_not P) (snd (x_fold p n m s)).
Proof.
  intros H13 H15. eapply onlyp_weaken; [|apply x_fold_only]. intros x [-> | ->]; unfold is_not; congruence.
Qed.

Lemma mon_poll2_errs_other (P : pid) p n m g s :
  (P = PC12 -> y_e_found p m g s = []) -> (P = PC12 -> y_e_tok p g s = []) -> (P = PC12 -> y_e_sweep p m g s = []) ->
  (P = PC13 -> y_e13 g s = []) -> (P = PC12 -> y_e_scan p m g s = []) ->
  (P = PC15 -> y_e_rr n g s = []) -> (P = PC15 -> y_e_end p n m g s = []) ->
  onlyp (is_not P) (y_e_live p m g s) ->
  (P = PC06 -> y_e_backoff p m g s = []) ->
  onlyp (is_not P) (snd (mon_poll2 p n m g s)).
Proof.
  intros Hf Ht Hs H13 Hsc Hrr He Hl Hb. rewrite mon_poll2_eq. cbn [snd].
  apply onlyp_app; [exact (onlyp_group _ _ _ Hf (y_e_found_only p m g s))|].
  apply onlyp_app; [exact (onlyp_group _ _ _ Ht (y_e_tok_only p g s))|].
  apply onlyp_app; [exact (onlyp_group _ _ _ Hs (y_e_sweep_only p m g s))|].
  apply onlyp_app; [exact (onlyp_group _ _ _ H13 (y_e13_only g s))|].
  apply onlyp_app; [exact (onlyp_group _ _ _ Hsc (y_e_scan_only p m g s))|].
  apply onlyp_app; [exact (onlyp_group _ _ _ Hrr (y_e_rr_only n g s))|].
  apply onlyp_app; [exact (onlyp_group _ _ _ He (y_e_end_only p n m g s))|].
  apply onlyp_app; [exact Hl|].
  exact (onlyp_group _ _ _ Hb (y_e_backoff_only p m g s)).
Qed.

Lemma y_e_live_other (P : pid) p m g s : P <> PC12 -> P <> PC11 -> P <> PC15 -> onlyp (is_not P) (y_e_live p m g s).
Proof.
  intros H12 H11 H15. eapply onlyp_weaken; [|apply y_e_live_only]. intros x [-> |[-> | ->]]; unfold is_not; congruence.
Qed.

(* ------------------------------------------------------------------------------------------ *)
(* the theorems                                                                                *)

Section Theorems.
Variable A : Type.
Variable ops : app_ops A.
Variable p : params.
Hypothesis Happs : apps_total A ops.
Hypothesis Hbv : builder_valid p.

Definition J1 (n : nat) (f : fdl) (apps : list A) (buf : bytes) (tl : Z) (m : mon) (g : mon2) : Prop :=
  Base A p n f apps buf tl m /\ TI f tl m.

Lemma J1_init n f0 apps : fdl_new p = Ok f0 -> length apps = n ->
  J1 n f0 apps [] 0 (mon_reset (view_of f0) 0) mon2_reset.
Proof.
  intros E Hn. split; [eapply base_init; eassumption|].
  destruct (fdl_new_fields _ _ E) as (S1 & _ & L1 & _).
  constructor; cbn [mon_reset m_lba m_start m_quiet]; try discriminate.
  - intros _. exact S1.
  - intros _. split; assumption.
  - intros _. exact S1.
  - intros _ l C. rewrite L1 in C. discriminate C.
Qed.

Lemma J1_api n a f apps buf tl m g f' :
  J1 n f apps buf tl m g -> api_result p a f = Ok f' ->
  J1 n f' apps buf tl (fst (mon_after_api a (view_of f') m g)) (snd (mon_after_api a (view_of f') m g)).
Proof.
  intros (HB & HT) E. split; [eapply base_api; eassumption|].
  eapply ti_api; eassumption.
Qed.

Lemma J1_poll n f apps buf tl m g now busy nb f' o apps' calls :
  J1 n f apps buf tl m g -> tl < now -> time_ok now -> all_bytes nb ->
  poll ops f now (mkPhyIn busy (buf ++ nb)) apps = Ok (f', o, apps', calls) ->
  J1 n f' apps' (rx_left o) now (fst (mon_poll p n m (poll_event now busy (buf ++ nb) f' o calls)))
                                (fst (mon_poll2 p n m g (poll_event now busy (buf ++ nb) f' o calls))).
Proof.
  intros (HB & HT) Hlt Hnow Hnb E. assert (Hle : tl <= now) by lia.
  split; [eapply base_poll; eassumption|].
  eapply ti_poll; eassumption.
Qed.

Lemma transcript_ok_true (apps : list A) (ins : list minput) : transcript_ok A ops p (fun _ => True) apps ins.
Proof. unfold transcript_ok. destruct (fdl_new p); [split; [exact I|apply run_ok_true]|exact I|exact I]. Qed.

(* C01: no rule of C01 fires on a transcript of the model - for ALL input histories, the O9 corner included *)
Theorem c01_oracle_sound (apps : list A) (ins : list minput) :
  ins_ok 0 ins ->
  forall k r, In (k, r) (monitor p (length apps) (model_transcript A ops p apps ins)) -> rule_prop r <> PC01.
Proof.
  intros Hok.
  apply (generic_sound_transcript A ops p (length apps) (fun r => rule_prop r <> PC01) (J1 (length apps)) (fun _ => True)); try assumption; try reflexivity.
  - discriminate.
  - intros a f apps0 buf tl m g f' HJ E _. exact (J1_api _ _ _ _ _ _ _ _ _ HJ E).
  - intros f apps0 buf tl m g now busy nb f' o apps' calls HJ Hle Hnow Hnb E _.
    split; [|split; [|exact (J1_poll _ _ _ _ _ _ _ _ _ _ _ _ _ _ HJ Hle Hnow Hnb E)]].
    + destruct HJ as (HB & HT). assert (Hle' : tl <= now) by lia.
      apply mon_poll_errs_other; try discriminate.
      * intros _. eapply c01_ok; eassumption.
      * apply x_fold_other; discriminate.
    + apply mon_poll2_errs_other; try discriminate. apply y_e_live_other; discriminate.
  - intros f0 apps0 E Hn _. exact (J1_init _ _ _ E Hn).
  - apply transcript_ok_true.
Qed.

(* C06: the rule R06_no_claim_after_timeout (the claim after the time-out) never fires; the other rule of C06,
   R06_no_backoff, is treated in a later part *)
Theorem c06_claim_oracle_sound (apps : list A) (ins : list minput) :
  ins_ok 0 ins ->
  forall k r, In (k, r) (monitor p (length apps) (model_transcript A ops p apps ins)) -> r <> R06_no_claim_after_timeout.
Proof.
  intros Hok.
  apply (generic_sound_transcript A ops p (length apps) (fun r => r <> R06_no_claim_after_timeout) (J1 (length apps)) (fun _ => True)); try assumption; try reflexivity.
  - discriminate.
  - intros a f apps0 buf tl m g f' HJ E _. exact (J1_api _ _ _ _ _ _ _ _ _ HJ E).
  - intros f apps0 buf tl m g now busy nb f' o apps' calls HJ Hle Hnow Hnb E _.
    split; [|split; [|exact (J1_poll _ _ _ _ _ _ _ _ _ _ _ _ _ _ HJ Hle Hnow Hnb E)]].
    + destruct HJ as (HB & HT). assert (Hle' : tl <= now) by lia.
      intros r Hr ->. rewrite mon_poll_eq in Hr. cbn [snd] in Hr.
      assert (H6 : x_e06 p m (poll_event now busy (buf ++ nb) f' o calls) = []) by (eapply c06_ok; eassumption).
      rewrite H6 in Hr. cbn [app] in Hr.
      apply in_app_or in Hr; destruct Hr as [Hr|Hr]; [pose proof (x_e01_only _ _ _ _ Hr) as C; discriminate C|].
      apply in_app_or in Hr; destruct Hr as [Hr|Hr]; [pose proof (x_e11a_only _ _ _ _ Hr) as C; discriminate C|].
      apply in_app_or in Hr; destruct Hr as [Hr|Hr]; [pose proof (x_e11c_only _ _ _ _ Hr) as C; discriminate C|].
      apply in_app_or in Hr; destruct Hr as [Hr|Hr]; [pose proof (x_e11b_only _ _ _ _ Hr) as C; discriminate C|].
      apply in_app_or in Hr; destruct Hr as [Hr|Hr]; [pose proof (x_e12a_only _ _ _ _ Hr) as C; discriminate C|].
      apply in_app_or in Hr; destruct Hr as [Hr|Hr]; [pose proof (x_e12b_only _ _ _ _ Hr) as C; discriminate C|].
      apply in_app_or in Hr; destruct Hr as [Hr|Hr]; [pose proof (x_fold_only _ _ _ _ _ Hr) as [C|C]; discriminate C|].
      pose proof (x_e15_only _ _ _ _ _ Hr) as C. discriminate C.
    + intros r Hr ->. rewrite mon_poll2_eq in Hr. cbn [snd] in Hr.
      apply in_app_or in Hr; destruct Hr as [Hr|Hr]; [pose proof (y_e_found_only _ _ _ _ _ Hr) as C; discriminate C|].
      apply in_app_or in Hr; destruct Hr as [Hr|Hr]; [pose proof (y_e_tok_only _ _ _ _ Hr) as C; discriminate C|].
      apply in_app_or in Hr; destruct Hr as [Hr|Hr]; [pose proof (y_e_sweep_only _ _ _ _ _ Hr) as C; discriminate C|].
      apply in_app_or in Hr; destruct Hr as [Hr|Hr]; [pose proof (y_e13_only _ _ _ Hr) as C; discriminate C|].
      apply in_app_or in Hr; destruct Hr as [Hr|Hr]; [pose proof (y_e_scan_only _ _ _ _ _ Hr) as C; discriminate C|].
      apply in_app_or in Hr; destruct Hr as [Hr|Hr]; [pose proof (y_e_rr_only _ _ _ _ Hr) as C; discriminate C|].
      apply in_app_or in Hr; destruct Hr as [Hr|Hr]; [pose proof (y_e_end_only _ _ _ _ _ _ Hr) as C; discriminate C|].
      apply in_app_or in Hr; destruct Hr as [Hr|Hr]; [pose proof (y_e_live_only _ _ _ _ _ Hr) as [C|[C|C]]; discriminate C|].
      (* the back-off group has only its own rule *)
      unfold y_e_backoff in Hr. cbv zeta in Hr.
      repeat match type of Hr with
             | In _ (if ?b then _ else _) => destruct b
             | In _ (match ?x with _ => _ end) => destruct x
             end; try contradiction.
      unfold check in Hr. destruct (_ && _); [contradiction|]. destruct Hr as [C|[]]. discriminate C.
  - intros f0 apps0 E Hn _. exact (J1_init _ _ _ E Hn).
  - apply transcript_ok_true.
Qed.

(* C05: with total applications no call of the model panics (C05_no_panic) - except the documented
   todo!() of set_passive, which the monitor excuses - and the model has no time-outs: neither rule of C05 fires,
   for ALL input histories (no known class excluded) *)
Lemma c05_from n : forall ins f apps buf tl m g i la,
  Base A p n f apps buf tl m -> ins_ok tl ins ->
  forall k r, In (k, r) (monitor_from p n i (Some (m, g)) la (model_events A ops p f apps buf ins)) -> rule_prop r <> PC05.
Proof.
  induction ins as [|x ins IH]; intros f apps buf tl m g i la HB Hok k r Hin; [contradiction|].
  destruct x as [a|now busy nb]; cbn [model_events] in Hin.
  - cbn [ins_ok] in Hok.
    assert (Hres : (exists f', api_result p a f = Ok f') \/ (a = ApiPassive /\ api_result p a f = Panic SiteUnreachable)).
    { destruct a; cbn [api_result].
      - left. destruct (fdl_new_rep (length apps) p Hbv) as (f1 & E1 & _). exists f1. exact E1.
      - left. eexists. reflexivity.
      - left. unfold set_offline, set_state. rewrite (b_p _ _ _ _ _ _ _ _ HB).
        destruct (fdl_new_rep (length apps) p Hbv) as (f1 & E1 & _). exists f1. exact E1.
      - right. split; reflexivity. }
    destruct Hres as [(f' & Ea)|(-> & Ea)]; rewrite Ea in Hin.
    + rewrite monitor_from_api in Hin.
      destruct (mon_after_api a (view_of f') m g) as [m' g'] eqn:Em.
      assert (HB' : Base A p n f' apps buf tl (fst (mon_after_api a (view_of f') m g))) by (eapply base_api; eassumption).
      rewrite Em in HB'. cbn [fst] in HB'.
      exact (IH _ _ _ _ _ _ _ _ HB' Hok _ _ Hin).
    + rewrite monitor_from_api in Hin. cbn in Hin. contradiction.
  - cbn [ins_ok] in Hok. destruct Hok as (Htl & Hnow & Hnb & Hok).
    assert (Hrx : all_bytes (buf ++ nb)) by (apply all_bytes_app; [exact (b_bytes _ _ _ _ _ _ _ _ HB)|exact Hnb]).
    assert (Hr : Rep (length apps) f) by exact (b_rep _ _ _ _ _ _ _ _ HB).
    destruct (poll_rep_step A ops Happs f now (mkPhyIn busy (buf ++ nb)) apps Hr Hnow Hrx) as (f' & o & apps' & calls & Ep & _).
    rewrite Ep in Hin. assert (Htl' : tl <= now) by lia.
    assert (HB' : Base A p n f' apps' (rx_left o) now (fst (mon_poll p n m (poll_event now busy (buf ++ nb) f' o calls)))) by (eapply base_poll; eassumption).
    cbn [monitor_from mon_event] in Hin.
    assert (H1 : onlyp (is_not PC05) (snd (mon_poll p n m (poll_event now busy (buf ++ nb) f' o calls))))
      by (apply mon_poll_errs_other; try discriminate; apply x_fold_other; discriminate).
    assert (H2 : onlyp (is_not PC05) (snd (mon_poll2 p n m g (poll_event now busy (buf ++ nb) f' o calls))))
      by (apply mon_poll2_errs_other; try discriminate; apply y_e_live_other; discriminate).
    destruct (mon_poll p n m (poll_event now busy (buf ++ nb) f' o calls)) as [m' e1].
    destruct (mon_poll2 p n m g (poll_event now busy (buf ++ nb) f' o calls)) as [g' e2].
    cbn [fst snd app] in *. apply in_app_or in Hin. destruct Hin as [Hin|Hin].
    + apply in_map_iff in Hin. destruct Hin as (r' & Hr' & Hin). injection Hr' as _ <-.
      apply in_app_or in Hin. destruct Hin as [Hin|Hin]; [exact (H1 _ Hin)|exact (H2 _ Hin)].
    + exact (IH _ _ _ _ _ _ _ _ HB' Hok _ _ Hin).
Qed.

Theorem c05_oracle_sound (apps : list A) (ins : list minput) :
  ins_ok 0 ins ->
  forall k r, In (k, r) (monitor p (length apps) (model_transcript A ops p apps ins)) -> rule_prop r <> PC05.
Proof.
  intros Hok k r Hin. unfold monitor in Hin. destruct (builder_validb p); [|contradiction].
  unfold model_transcript in Hin.
  destruct (fdl_new_rep (length apps) p Hbv) as (f0 & E0 & _). rewrite E0 in Hin.
  cbn [monitor_from mon_event map app] in Hin.
  refine (c05_from (length apps) _ _ _ _ _ _ _ _ _ _ Hok _ _ Hin). eapply base_init; [exact Hbv|exact E0|reflexivity].
Qed.

End Theorems.

(* ------------------------------------------------------------------------------------------ *)
(* the corner O9, computed: the monitors accept the transcript, the run leaves `no_stale`          *)
Definition ex_corner_params : params := mkParams 3 B19200 100 80000 1 16 1 11 None.
Definition ex_corner_inputs : list minput :=
  [InApi ApiOnline; InPoll 834 false []; InPoll 2629 false [220;5;3;220;5;3;220;5;3]; InApi ApiOnline; InPoll 134064 false []].

Lemma c01_corner_example :
  builder_validb ex_corner_params = true /\ ins_ok 0 ex_corner_inputs /\
  monitor ex_corner_params 0 (model_transcript unit unit_app_ops ex_corner_params [] ex_corner_inputs) = [] /\
  ~ transcript_ok unit unit_app_ops ex_corner_params no_stale [] ex_corner_inputs.
Proof.
  split; [reflexivity|]. split.
  { cbn. unfold time_ok, all_bytes. repeat split; try lia; repeat constructor; unfold is_byte; lia. }
  split; [vm_compute; reflexivity|].
  intros H. vm_compute in H. destruct H as (_ & _ & _ & (H & _)). specialize (H eq_refl). discriminate H.
Qed.
