(* C07, definitions (no proofs in this file). C07: a healthy peripheral always comes back into data exchange.
   The joint system is ONE peripheral state machine of the DP master, driven directly through
   Peripheral.p_transmit / Peripheral.p_receive_reply (one DP cycle of a master with a single occupied
   slot = one p_transmit plus the delivery of the reply, if any), times the reference slave
   Slave.slave_step, over a fault-free wire: the request bytes are the frame the serializer writes
   (Telegram.frame_spec, C09_wire_bytes), the slave's answer is decoded and passed through the FDL admission
   rule DpOracle.admissible.
   Structure:  (1) joint system;  (2) control abstraction `ust` (master state x frame count bit x flags x
   slave control state x stored bit x CLASS of the stored response x fault flags x not-ready counter), the
   retry counter is kept symbolic;  (3) complete check of the finite control space by vm_compute;
   (4) data independence: the projection is a simulation;  (5) the theorems. *)
From PB Require Export Peripheral Slave DpRun DpOracle.

(* ================================================================== 2. the control abstraction *)

Inductive dgc : Set := DgNone | DgFaultPrm | DgFault | DgPrm | DgNotReady | DgReady.
Inductive dxc : Set := XSapNE | XOk | XHigh | XHighBad | XIgnore.
Inductive areply : Set := ANone | ASc | AData (d : dgc) (x : dxc).
Inductive akind : Set := KDiag | KPrm | KCfg | KDx.

Record afix : Set := mkFix { f_stat : bool; f_in0 : bool; f_dgl : bool; f_delay : nat }.

Record ust : Set := mkU {
  u_ps : pstate; u_fcb : fcbit; u_needed : bool; u_inflight : bool;
  u_sl : sl_state; u_sfcb : option bool; u_resp : areply;
  u_prmf : bool; u_cfgf : bool; u_pend : bool; u_nr : nat }.

Definition cyc (f : fcbit) : fcbit := match fcbit_cycle f with Some g => g | None => f end.

Definition dg_is_diag (d : dgc) : bool := match d with DgNone => false | _ => true end.
Definition dg_prmreq (d : dgc) : bool := match d with DgFaultPrm | DgPrm => true | _ => false end.

(* master reaction: (ps, fcb, needed, accepted) *)
Definition mrecv (fx : afix) (ps : pstate) (fcb : fcbit) (needed inflight : bool) (r : areply)
  : pstate * fcbit * bool * bool :=
  match ps with
  | PsOffline =>
      match r with
      | AData d _ => if dg_is_diag d then (PsWaitForParam, cyc fcb, needed, true) else (ps, fcb, needed, false)
      | _ => (ps, fcb, needed, false)
      end
  | PsWaitForParam =>
      match r with ASc => (PsWaitForConfig, cyc fcb, needed, true) | _ => (ps, fcb, needed, false) end
  | PsWaitForConfig =>
      match r with ASc => (PsValidateConfig, cyc fcb, needed, true) | _ => (ps, fcb, needed, false) end
  | PsValidateConfig =>
      match r with
      | AData d _ =>
          match d with
          | DgNone => (ps, fcb, needed, false)
          | DgFaultPrm | DgFault => (PsOffline, cyc fcb, needed, true)
          | DgPrm => (PsWaitForParam, cyc fcb, needed, true)
          | DgNotReady => (PsValidateConfig, cyc fcb, needed, true)
          | DgReady => (PsPreDataExchange, cyc fcb, needed, true)
          end
      | _ => (ps, fcb, needed, false)
      end
  | PsDataExchange | PsPreDataExchange =>
      if inflight then
        match r with
        | AData d _ =>
            if dg_is_diag d then ((if dg_prmreq d then PsWaitForParam else ps), cyc fcb, false, true)
            else (ps, fcb, needed, false)
        | _ => (ps, fcb, needed, false)
        end
      else
        match r with
        | ANone => (ps, fcb, needed, false)
        | ASc => ((if f_in0 fx then PsDataExchange else ps), cyc fcb, needed, true)
        | AData _ x =>
            match x with
            | XSapNE => (PsValidateConfig, cyc fcb, needed, true)
            | XOk => (PsDataExchange, cyc fcb, needed, true)
            | XHigh => (PsDataExchange, cyc fcb, true, true)
            | XHighBad => (ps, cyc fcb, true, true)
            | XIgnore => (ps, cyc fcb, needed, true)
            end
        end
  end.

Definition a_rs : areply := AData DgNone XSapNE.

(* slave processing a new request: (sl, prmf, cfgf, pend, nr, reply) *)
Definition sproc (fx : afix) (k : akind) (sl : sl_state) (prmf cfgf pend : bool) (nr : nat)
  : sl_state * bool * bool * bool * nat * areply :=
  match k with
  | KDiag =>
      let fault := prmf || cfgf in
      let prm := sl_state_eqb sl SlWaitPrm in
      let notready := negb (sl_state_eqb sl SlDataExch) || negb (Nat.eqb nr 0) in
      let d := if fault then (if prm then DgFaultPrm else DgFault)
               else if prm then DgPrm else if notready then DgNotReady else DgReady in
      (sl, prmf, cfgf, false, Nat.pred nr, AData d (if f_dgl fx then XOk else XIgnore))
  | KPrm => (SlWaitCfg, false, false, pend, 0%nat, ASc)
  | KCfg =>
      if sl_state_eqb sl SlWaitPrm then (sl, prmf, cfgf, pend, nr, a_rs)
      else (SlDataExch, prmf, false, pend, f_delay fx, ASc)
  | KDx =>
      if sl_state_eqb sl SlDataExch && Nat.eqb nr 0 then
        (SlDataExch, prmf, cfgf, pend, 0%nat,
         if f_in0 fx then ASc else AData DgNone (if pend || f_stat fx then XHigh else XOk))
      else (sl, prmf, cfgf, pend, nr, a_rs)
  end.

Definition fresh (fcb : fcbit) (sfcb : option bool) : bool :=
  negb (fcbit_fcv fcb) || negb (match sfcb with Some b => Bool.eqb b (fcbit_fcb fcb) | None => false end).

Definition stored (fcb : fcbit) : option bool :=
  if fcbit_fcv fcb then Some (fcbit_fcb fcb) else if fcbit_fcb fcb then Some true else None.

(* request of kind k sent by master state u; returns new state and accepted flag *)
Definition asend (fx : afix) (k : akind) (u : ust) : ust * bool :=
  let '(sl, prmf, cfgf, pend, nr, sfcb, resp, reply) :=
    if fresh (u_fcb u) (u_sfcb u) then
      let '(sl, prmf, cfgf, pend, nr, reply) := sproc fx k (u_sl u) (u_prmf u) (u_cfgf u) (u_pend u) (u_nr u) in
      (sl, prmf, cfgf, pend, nr, stored (u_fcb u), reply, reply)
    else (u_sl u, u_prmf u, u_cfgf u, u_pend u, u_nr u, u_sfcb u, u_resp u, u_resp u) in
  let '(ps, fcb, needed, acc) := mrecv fx (u_ps u) (u_fcb u) (u_needed u) (u_inflight u) reply in
  (mkU ps fcb needed (u_inflight u) sl sfcb resp prmf cfgf pend nr, acc).

Definition set_inflight (u : ust) (b : bool) : ust :=
  mkU (u_ps u) (u_fcb u) (u_needed u) b (u_sl u) (u_sfcb u) (u_resp u) (u_prmf u) (u_cfgf u) (u_pend u) (u_nr u).
Definition set_fcb_u (u : ust) (f : fcbit) : ust :=
  mkU (u_ps u) f (u_needed u) (u_inflight u) (u_sl u) (u_sfcb u) (u_resp u) (u_prmf u) (u_cfgf u) (u_pend u) (u_nr u).
Definition go_offline (u : ust) : ust :=
  mkU PsOffline FcbFirst (u_needed u) (u_inflight u) (u_sl u) (u_sfcb u) (u_resp u) (u_prmf u) (u_cfgf u) (u_pend u) (u_nr u).

(* not exhausted; z = (retry = 0); returns (u', reset) : reset = retry becomes 0, else retry+1 *)
Definition body (fx : afix) (z : bool) (u : ust) : ust * bool :=
  match u_ps u with
  | PsOffline => if z then asend fx KDiag u else (set_fcb_u u FcbFirst, true)
  | PsWaitForParam => asend fx KPrm u
  | PsWaitForConfig => asend fx KCfg u
  | PsValidateConfig => asend fx KDiag u
  | PsDataExchange | PsPreDataExchange =>
      let u1 := if z then set_inflight u (u_needed u) else u in
      asend fx (if u_inflight u1 then KDiag else KDx) u1
  end.


Inductive rabs : Set := RZ | RMid | RExh.

Definition fcb_eqb (a b : fcbit) : bool :=
  match a, b with FcbFirst, FcbFirst | FcbHigh, FcbHigh | FcbLow, FcbLow | FcbInactive, FcbInactive => true | _, _ => false end.
Definition dgc_eqb (a b : dgc) : bool :=
  match a, b with DgNone, DgNone | DgFaultPrm, DgFaultPrm | DgFault, DgFault | DgPrm, DgPrm | DgNotReady, DgNotReady | DgReady, DgReady => true | _, _ => false end.
Definition dxc_eqb (a b : dxc) : bool :=
  match a, b with XSapNE, XSapNE | XOk, XOk | XHigh, XHigh | XHighBad, XHighBad | XIgnore, XIgnore => true | _, _ => false end.
Definition areply_eqb (a b : areply) : bool :=
  match a, b with ANone, ANone | ASc, ASc => true | AData d x, AData e y => dgc_eqb d e && dxc_eqb x y | _, _ => false end.
Definition ob_eqb (a b : option bool) : bool :=
  match a, b with None, None => true | Some x, Some y => Bool.eqb x y | _, _ => false end.
Definition ps_eqb (a b : pstate) : bool :=
  match a, b with PsOffline, PsOffline | PsWaitForParam, PsWaitForParam | PsWaitForConfig, PsWaitForConfig
  | PsValidateConfig, PsValidateConfig | PsPreDataExchange, PsPreDataExchange | PsDataExchange, PsDataExchange => true | _, _ => false end.
Definition ust_eqb (a b : ust) : bool :=
  ps_eqb (u_ps a) (u_ps b) && fcb_eqb (u_fcb a) (u_fcb b) && Bool.eqb (u_needed a) (u_needed b) &&
  Bool.eqb (u_inflight a) (u_inflight b) && sl_state_eqb (u_sl a) (u_sl b) && ob_eqb (u_sfcb a) (u_sfcb b) &&
  areply_eqb (u_resp a) (u_resp b) && Bool.eqb (u_prmf a) (u_prmf b) && Bool.eqb (u_cfgf a) (u_cfgf b) &&
  Bool.eqb (u_pend a) (u_pend b) && Nat.eqb (u_nr a) (u_nr b).

Definition goodb (u : ust) : bool :=
  ps_eqb (u_ps u) PsDataExchange && sl_state_eqb (u_sl u) SlDataExch && Nat.eqb (u_nr u) 0 &&
  fresh (u_fcb u) (u_sfcb u).
Definition coreb (u : ust) : bool :=
  ps_eqb (u_ps u) PsValidateConfig && sl_state_eqb (u_sl u) SlWaitCfg && negb (u_prmf u) && negb (u_cfgf u) &&
  fresh (u_fcb u) (u_sfcb u).
Definition suspectb (u : ust) : bool :=
  sl_state_eqb (u_sl u) SlWaitCfg &&
  match u_ps u with
  | PsValidateConfig | PsPreDataExchange | PsDataExchange => true
  | PsWaitForConfig => negb (fresh (u_fcb u) (u_sfcb u))
  | _ => false
  end.

Definition outc : Set := option (nat * bool * bool).
Definition bump (o : outc) : outc := match o with Some (n, t, s) => Some (S n, t, s) | None => None end.
Definition join (a b : outc) : outc :=
  match a, b with Some (n, t, s), Some (n', t', s') => Some (Nat.max n n', t || t', s || s') | _, _ => None end.

Fixpoint chk (fx : afix) (fuel : nat) (u : ust) (r : rabs) : outc :=
  if (match r with RZ => goodb u | _ => false end) then Some (0%nat, false, false) else
  if (match r with RExh => false | _ => coreb u end) then Some (0%nat, false, true) else
  match fuel with
  | O => None
  | S f =>
      match r with
      | RExh => bump (chk fx f (go_offline u) RZ)
      | RZ => let (u', reset) := body fx true u in bump (chk fx f u' (if reset then RZ else RMid))
      | RMid =>
          let (u', reset) := body fx false u in
          if reset then bump (chk fx f u' RZ)
          else if ust_eqb u' u then
            match chk fx f (go_offline u) RZ with
            | Some (n, false, s) => Some (S n, true, s)
            | _ => None
            end
          else join (bump (chk fx f u' RMid)) (bump (chk fx f u' RExh))
      end
  end.

Definition all_fcb := [FcbFirst; FcbHigh; FcbLow].
Definition all_b := [true; false].
Definition all_sl := [SlWaitPrm; SlWaitCfg; SlDataExch].
Definition all_sfcb := [None; Some true; Some false].
Definition all_dg := [DgNone; DgFaultPrm; DgFault; DgPrm; DgNotReady; DgReady].
Definition all_dx := [XSapNE; XOk; XHigh; XHighBad; XIgnore].
Definition all_resp := ANone :: ASc :: flat_map (fun d => map (AData d) all_dx) all_dg.
Definition all_nr := [0;1;2]%nat.
Definition resp_list (fcb : fcbit) (sf : option bool) := if fresh fcb sf then [ANone] else all_resp.
Definition fixes_d (d : nat) : list afix :=
  flat_map (fun st => map (fun il => mkFix st (fst il) (snd il) d) [(true,false);(false,true);(false,false)]) all_b.
Definition all_fix := fixes_d 0 ++ fixes_d 1 ++ fixes_d 2.

Definition forall_u (P : ust -> bool) : bool :=
  forallb (fun ps => forallb (fun fcb => forallb (fun nd => forallb (fun inf =>
  forallb (fun sl => forallb (fun sf => forallb (fun rs => forallb (fun pf => forallb (fun cf =>
  forallb (fun pd => forallb (fun nr => P (mkU ps fcb nd inf sl sf rs pf cf pd nr)) all_nr) all_b) all_b) all_b)
  (resp_list fcb sf)) all_sfcb) all_sl) all_b) all_b) all_fcb) all_pstates.

(* ------------------------------------------------------------------ the abstract system with the retry counter *)

Definition astep (fx : afix) (M : nat) (x : ust * nat) : ust * nat :=
  let (u, r) := x in
  if Nat.ltb M r then (go_offline u, 0%nat)
  else let (u', reset) := body fx (Nat.eqb r 0) u in (u', if reset then 0%nat else S r).

Fixpoint aiter (fx : afix) (M : nat) (n : nat) (x : ust * nat) : ust * nat :=
  match n with O => x | S n' => aiter fx M n' (astep fx M x) end.

Definition absr (M r : nat) (a : rabs) : Prop :=
  match a with RZ => r = 0%nat | RMid => (1 <= r <= M)%nat | RExh => (M < r)%nat end.

Definition Goodx (x : ust * nat) : Prop := goodb (fst x) = true /\ snd x = 0%nat.
Definition Corex (M : nat) (x : ust * nat) : Prop := coreb (fst x) = true /\ (snd x <= M)%nat.

Definition set_resp (u : ust) (a : areply) : ust :=
  mkU (u_ps u) (u_fcb u) (u_needed u) (u_inflight u) (u_sl u) (u_sfcb u) a (u_prmf u) (u_cfgf u) (u_pend u) (u_nr u).
Definition canon (u : ust) : ust := if fresh (u_fcb u) (u_sfcb u) then set_resp u ANone else u.

(* what is enumerated: frame count bit never Inactive, not-ready counter at most 2, stored response class
   canonical (irrelevant, hence ANone, when the next request is not a retransmission) *)
Definition in_range (u : ust) : Prop := u_fcb u <> FcbInactive /\ (u_nr u <= 2)%nat.
Definition canonical (u : ust) : Prop := fresh (u_fcb u) (u_sfcb u) = true -> u_resp u = ANone.
Definition fx_ok (fx : afix) : Prop := (f_delay fx <= 2)%nat /\ (f_in0 fx = true -> f_dgl fx = false).

Definition off1 (u : ust) : bool := ps_eqb (u_ps u) PsOffline && fcb_eqb (u_fcb u) FcbFirst.

(* the bound on single cycles found by the complete check *)
Definition c07_units : nat := 11.

Definition okres (u : ust) (o : outc) : bool :=
  match o with
  | Some (n, tok, stuck) =>
      Nat.leb (n + (if off1 u then 1 else 0)) c07_units && implb stuck (suspectb u)
  | None => false
  end.


Definition chk_fixes (l : list afix) : bool :=
  forallb (fun fx => forall_u (fun u => okres u (chk fx 12 u RZ) && okres u (chk fx 12 u RMid))) l.

