(* C19, fidelity half (partial): the settings fragment round trip at tree level. *)
From PB Require Import Common GsdGrammar GsdTables GsdInterp GsdShape GsdRender C19Shape.

(* ------------------------------------------------------------------------------------------ written numbers *)

Lemma digit_val_dec : forall radix d, 0 <= d <= 9 -> digit_val radix (dec_char d) = Some d.
Proof.
  intros radix d H. unfold digit_val, dec_char.
  assert (E : (48 <=? 48 + d) && (48 + d <=? 57) = true).
  { apply andb_true_iff. split; apply Z.leb_le; lia. }
  rewrite E. f_equal. lia.
Qed.

Lemma digits_val_dec : forall ds acc, Forall (fun d => 0 <= d <= 9) ds ->
  digits_val 10 acc (map dec_char ds) = Some (fold_left (fun a d => a * 10 + d) ds acc).
Proof.
  induction ds as [| d ds IH]; intros acc HF; cbn [map digits_val fold_left]; [reflexivity |].
  inversion HF as [| ? ? Hd HF']; subst. rewrite digit_val_dec by exact Hd. apply IH. exact HF'.
Qed.

Lemma digit_val_hex : forall dc, 0 <= fst dc <= 15 -> digit_val 16 (hex_char dc) = Some (fst dc).
Proof.
  intros [d up] H. cbn [fst] in H. unfold digit_val, hex_char. cbn [fst snd].
  destruct (Z.ltb_spec d 10) as [Hlt | Hge].
  - assert (E : (48 <=? 48 + d) && (48 + d <=? 57) = true).
    { apply andb_true_iff. split; apply Z.leb_le; lia. }
    rewrite E. f_equal. lia.
  - destruct up.
    + assert (E1 : (48 <=? 55 + d) && (55 + d <=? 57) = false).
      { apply andb_false_iff. right. apply Z.leb_gt. lia. }
      assert (E2 : (16 =? 16) && (97 <=? 55 + d) && (55 + d <=? 102) = false).
      { apply andb_false_iff. left. apply andb_false_iff. right. apply Z.leb_gt. lia. }
      assert (E3 : (16 =? 16) && (65 <=? 55 + d) && (55 + d <=? 70) = true).
      { repeat (apply andb_true_iff; split); try reflexivity; apply Z.leb_le; lia. }
      rewrite E1, E2, E3. f_equal. lia.
    + assert (E1 : (48 <=? 87 + d) && (87 + d <=? 57) = false).
      { apply andb_false_iff. right. apply Z.leb_gt. lia. }
      assert (E2 : (16 =? 16) && (97 <=? 87 + d) && (87 + d <=? 102) = true).
      { repeat (apply andb_true_iff; split); try reflexivity; apply Z.leb_le; lia. }
      rewrite E1, E2. f_equal. lia.
Qed.

Lemma digits_val_hex : forall ds acc, Forall (fun dc => 0 <= fst dc <= 15) ds ->
  digits_val 16 acc (map hex_char ds) = Some (fold_left (fun a dc => a * 16 + fst dc) ds acc).
Proof.
  induction ds as [| d ds IH]; intros acc HF; cbn [map digits_val fold_left]; [reflexivity |].
  inversion HF as [| ? ? Hd HF']; subst. rewrite digit_val_hex by exact Hd. apply IH. exact HF'.
Qed.

Lemma fold_dec_nonneg : forall ds acc, Forall (fun d => 0 <= d <= 9) ds -> 0 <= acc ->
  0 <= fold_left (fun a d => a * 10 + d) ds acc.
Proof.
  induction ds as [| d ds IH]; intros acc HF Ha; cbn [fold_left]; [exact Ha |].
  inversion HF as [| ? ? Hd HF']; subst. apply IH; [exact HF' | lia].
Qed.

Lemma fold_hex_nonneg : forall ds acc, Forall (fun dc : Z * bool => 0 <= fst dc <= 15) ds -> 0 <= acc ->
  0 <= fold_left (fun a dc => a * 16 + fst dc) ds acc.
Proof.
  induction ds as [| d ds IH]; intros acc HF Ha; cbn [fold_left]; [exact Ha |].
  inversion HF as [| ? ? Hd HF']; subst. apply IH; [exact HF' | lia].
Qed.

(* a digit character is neither a sign nor the letter x *)
Lemma dec_char_plain : forall d, 0 <= d <= 9 ->
  (dec_char d =? 43) = false /\ (dec_char d =? 45) = false.
Proof. intros d H. unfold dec_char. split; apply Z.eqb_neq; lia. Qed.

Lemma hex_char_plain : forall dc, 0 <= fst dc <= 15 ->
  (hex_char dc =? 43) = false /\ (hex_char dc =? 45) = false /\ (hex_char dc =? 120) = false.
Proof.
  intros [d up] H. cbn [fst] in H. unfold hex_char. cbn [fst snd].
  destruct (d <? 10); [| destruct up]; repeat split; apply Z.eqb_neq; lia.
Qed.

(* from_str_radix on a non-empty string of plain digit characters *)
Lemma from_str_radix_digits : forall radix hi s v,
  s <> [] -> (forall c, In c s -> (c =? 43) = false /\ (c =? 45) = false) ->
  digits_val radix 0 s = Some v -> 0 <= v <= hi ->
  from_str_radix false 0 hi radix s = Some v.
Proof.
  intros radix hi s v Hne Hplain Hd Hv.
  assert (R : (0 <=? v) && (v <=? hi) = true) by (apply andb_true_iff; split; apply Z.leb_le; lia).
  destruct s as [| c [| c' r]]; [congruence | |].
  - destruct (Hplain c (or_introl eq_refl)) as [E1 E2].
    unfold from_str_radix. rewrite E1, E2. cbn [orb]. rewrite Hd, R. reflexivity.
  - destruct (Hplain c (or_introl eq_refl)) as [E1 E2].
    unfold from_str_radix. rewrite E1, E2. cbn [andb]. rewrite Hd, R. reflexivity.
Qed.

Lemma wnum_ok_dec : forall ds, wnum_okb (WDec ds) = true -> ds <> [] /\ Forall (fun d => 0 <= d <= 9) ds.
Proof.
  intros ds H. cbn [wnum_okb] in H. apply andb_true_iff in H. destruct H as [H1 H2]. split.
  - intros ->. discriminate H1.
  - apply Forall_forall. intros d Hin. rewrite forallb_forall in H2. specialize (H2 d Hin).
    apply andb_true_iff in H2. destruct H2 as [A B]. apply Z.leb_le in A. apply Z.leb_le in B. lia.
Qed.

Lemma wnum_ok_hex : forall ds, wnum_okb (WHex ds) = true -> ds <> [] /\ Forall (fun dc => 0 <= fst dc <= 15) ds.
Proof.
  intros ds H. cbn [wnum_okb] in H. apply andb_true_iff in H. destruct H as [H1 H2]. split.
  - intros ->. discriminate H1.
  - apply Forall_forall. intros d Hin. rewrite forallb_forall in H2. specialize (H2 d Hin).
    apply andb_true_iff in H2. destruct H2 as [A B]. apply Z.leb_le in A. apply Z.leb_le in B. lia.
Qed.

Lemma trim_0x_hex : forall ds, Forall (fun dc : Z * bool => 0 <= fst dc <= 15) ds ->
  trim_0x (48 :: 120 :: map hex_char ds) = map hex_char ds.
Proof.
  intros ds HF. cbn [trim_0x]. change ((48 =? 48) && (120 =? 120)) with true. cbv iota.
  destruct ds as [| d1 [| d2 r]]; cbn [map trim_0x]; try reflexivity.
  inversion HF as [| ? ? _ HF']; subst. inversion HF' as [| ? ? H2 _]; subst.
  destruct (hex_char_plain d2 H2) as [_ [_ E]]. rewrite E. rewrite andb_false_r. reflexivity.
Qed.

(* the parser reads exactly the value of the written digits *)
Theorem parse_number_written : forall n tmax,
  wnum_okb n = true -> wnum_value n <= tmax -> tmax <= u32_max ->
  parse_number tmax (Node (wnum_rule n) (wnum_text n) []) = POk (wnum_value n).
Proof.
  intros n tmax Hok Hv Ht. destruct n as [ds | ds].
  - apply wnum_ok_dec in Hok. destruct Hok as [Hne HF].
    unfold parse_number. cbn [root text wnum_rule wnum_text wnum_value] in *.
    pose proof (fold_dec_nonneg ds 0 HF (Z.le_refl 0)) as Hnn.
    rewrite (from_str_radix_digits 10 u32_max (map dec_char ds) (fold_left (fun a d => a * 10 + d) ds 0)).
    + apply Z.leb_le in Hv. rewrite Hv. reflexivity.
    + destruct ds; [congruence | discriminate].
    + intros c Hin. apply in_map_iff in Hin. destruct Hin as [d [<- Hd]].
      rewrite Forall_forall in HF. apply dec_char_plain. apply HF. exact Hd.
    + apply digits_val_dec. exact HF.
    + lia.
  - apply wnum_ok_hex in Hok. destruct Hok as [Hne HF].
    unfold parse_number. cbn [root text wnum_rule wnum_text wnum_value] in *.
    pose proof (fold_hex_nonneg ds 0 HF (Z.le_refl 0)) as Hnn.
    rewrite trim_0x_hex by exact HF.
    rewrite (from_str_radix_digits 16 u32_max (map hex_char ds) (fold_left (fun a dc => a * 16 + fst dc) ds 0)).
    + apply Z.leb_le in Hv. rewrite Hv. reflexivity.
    + destruct ds; [congruence | discriminate].
    + intros c Hin. apply in_map_iff in Hin. destruct Hin as [d [<- Hd]].
      rewrite Forall_forall in HF. destruct (hex_char_plain d (HF d Hd)) as [A [B _]]. split; assumption.
    + apply digits_val_hex. exact HF.
    + lia.
Qed.

(* ------------------------------------------------------------------------------------------ written strings *)

Lemma rm_crlf_eq : forall c r,
  remove_bs_crlf (c :: r) =
  match r with
  | c1 :: c2 :: r2 => if (c =? 92) && (c1 =? 13) && (c2 =? 10) then remove_bs_crlf r2 else c :: remove_bs_crlf r
  | _ => c :: remove_bs_crlf r
  end.
Proof. reflexivity. Qed.

Lemma rm_lf_eq : forall c r,
  remove_bs_lf (c :: r) =
  match r with
  | c1 :: r1 => if (c =? 92) && (c1 =? 10) then remove_bs_lf r1 else c :: remove_bs_lf r
  | [] => [c]
  end.
Proof. reflexivity. Qed.

Lemma rm_crlf_cons : forall c r, (c =? 92) = false -> remove_bs_crlf (c :: r) = c :: remove_bs_crlf r.
Proof.
  intros c r H. rewrite rm_crlf_eq. destruct r as [| c1 [| c2 r2]]; try reflexivity. rewrite H. reflexivity.
Qed.

Lemma rm_lf_cons : forall c r, (c =? 92) = false -> remove_bs_lf (c :: r) = c :: remove_bs_lf r.
Proof.
  intros c r H. rewrite rm_lf_eq. destruct r as [| c1 r1]; [reflexivity |]. rewrite H. reflexivity.
Qed.

Lemma rm_crlf_marker_crlf : forall t, remove_bs_crlf (92 :: 13 :: 10 :: t) = remove_bs_crlf t.
Proof. intros t. rewrite rm_crlf_eq. reflexivity. Qed.

Lemma rm_crlf_cons_gen : forall c r, (c =? 92) && (hd 0 r =? 13) = false -> remove_bs_crlf (c :: r) = c :: remove_bs_crlf r.
Proof.
  intros c r H. rewrite rm_crlf_eq. destruct r as [| c1 [| c2 r2]]; try reflexivity.
  cbn [hd] in H. rewrite H. reflexivity.
Qed.

Lemma rm_lf_cons_gen : forall c r, (c =? 92) && (hd 0 r =? 10) = false -> remove_bs_lf (c :: r) = c :: remove_bs_lf r.
Proof.
  intros c r H. rewrite rm_lf_eq. destruct r as [| c1 r1]; [reflexivity |].
  cbn [hd] in H. rewrite H. reflexivity.
Qed.

Lemma rm_crlf_marker_lf : forall t, remove_bs_crlf (92 :: 10 :: t) = 92 :: 10 :: remove_bs_crlf t.
Proof.
  intros t. rewrite rm_crlf_cons_gen by reflexivity. f_equal.
  apply rm_crlf_cons_gen. reflexivity.
Qed.

Lemma rm_lf_marker : forall t, remove_bs_lf (92 :: 10 :: t) = remove_bs_lf t.
Proof. intros t. rewrite rm_lf_eq. reflexivity. Qed.

(* the text after the first pass (back slash CR LF removed) *)
Definition mid_rest (rest : list (bool * str)) : str :=
  flat_map (fun ms : bool * str => (if fst ms then [] else [92; 10]) ++ snd ms) rest.
Definition inner_rest (rest : list (bool * str)) : str :=
  flat_map (fun ms : bool * str => marker (fst ms) ++ snd ms) rest.
Definition value_rest (rest : list (bool * str)) : str := flat_map (fun ms : bool * str => snd ms) rest.

Lemma clean_cons : forall c r, cleanb (c :: r) = true ->
  (c =? 92) && ((hd 0 r =? 10) || (hd 0 r =? 13)) = false /\ cleanb r = true.
Proof.
  intros c r H. cbn [cleanb] in H. apply andb_true_iff in H. destruct H as [H1 H2]. split; [| exact H2].
  apply negb_true_iff in H1. unfold bs_before_nl in H1. destruct r as [| c1 r1]; cbn [hd].
  - rewrite andb_false_r. reflexivity.
  - exact H1.
Qed.

(* the first character after a prefix f: the same in the text and in the content, or the back slash of a marker *)
Lemma hd_inner : forall rest f,
  hd 0 (f ++ inner_rest rest) = hd 0 (f ++ value_rest rest) \/ hd 0 (f ++ inner_rest rest) = 92.
Proof.
  intros rest f. destruct f as [| c f]; [| left; reflexivity].
  destruct rest as [| [crlf seg] rest]; [left; reflexivity |].
  right. cbn [app inner_rest flat_map fst]. destruct crlf; reflexivity.
Qed.

Lemma hd_mid : forall rest f,
  hd 0 (f ++ mid_rest rest) = hd 0 (f ++ value_rest rest) \/ hd 0 (f ++ mid_rest rest) = 92.
Proof.
  induction rest as [| [crlf seg] rest IH]; intros f; [left; reflexivity |].
  destruct f as [| c f]; [| left; reflexivity].
  cbn [app mid_rest value_rest flat_map fst snd]. destruct crlf; cbn [app].
  - apply IH.
  - right. reflexivity.
Qed.

Lemma no_nl_after_bs : forall c h x,
  (c =? 92) && ((h =? 10) || (h =? 13)) = false -> (x = h \/ x = 92) ->
  (c =? 92) && (x =? 13) = false /\ (c =? 92) && (x =? 10) = false.
Proof.
  intros c h x H [-> | ->].
  - destruct (c =? 92); [| split; reflexivity]. cbn [andb] in *. apply orb_false_iff in H. tauto.
  - split; rewrite andb_false_r; reflexivity.
Qed.

Lemma pass1 : forall rest first, cleanb (first ++ value_rest rest) = true ->
  remove_bs_crlf (first ++ inner_rest rest) = first ++ mid_rest rest.
Proof.
  induction rest as [| [crlf seg] rest IH].
  - induction first as [| c f IHf]; intros H; [reflexivity |].
    cbn [app] in *. apply clean_cons in H. destruct H as [Hc Hr].
    destruct (no_nl_after_bs c _ _ Hc (hd_inner [] f)) as [E _].
    rewrite rm_crlf_cons_gen by exact E. rewrite IHf by exact Hr. reflexivity.
  - induction first as [| c f IHf]; intros H.
    + cbn [app inner_rest mid_rest value_rest flat_map fst snd] in *.
      destruct crlf; cbn [marker app].
      * rewrite rm_crlf_marker_crlf. apply IH. exact H.
      * rewrite rm_crlf_marker_lf. f_equal. f_equal. apply IH. exact H.
    + cbn [app] in *. apply clean_cons in H. destruct H as [Hc Hr].
      destruct (no_nl_after_bs c _ _ Hc (hd_inner ((crlf, seg) :: rest) f)) as [E _].
      rewrite rm_crlf_cons_gen by exact E. rewrite IHf by exact Hr. reflexivity.
Qed.

Lemma pass2 : forall rest first, cleanb (first ++ value_rest rest) = true ->
  remove_bs_lf (first ++ mid_rest rest) = first ++ value_rest rest.
Proof.
  induction rest as [| [crlf seg] rest IH].
  - induction first as [| c f IHf]; intros H; [reflexivity |].
    cbn [app] in *. apply clean_cons in H. destruct H as [Hc Hr].
    destruct (no_nl_after_bs c _ _ Hc (hd_mid [] f)) as [_ E].
    rewrite rm_lf_cons_gen by exact E. rewrite IHf by exact Hr. reflexivity.
  - induction first as [| c f IHf]; intros H.
    + cbn [app mid_rest value_rest flat_map fst snd] in *.
      destruct crlf; cbn [app].
      * apply IH. exact H.
      * rewrite rm_lf_marker. apply IH. exact H.
    + cbn [app] in *. apply clean_cons in H. destruct H as [Hc Hr].
      destruct (no_nl_after_bs c _ _ Hc (hd_mid ((crlf, seg) :: rest) f)) as [_ E].
      rewrite rm_lf_cons_gen by exact E. rewrite IHf by exact Hr. reflexivity.
Qed.

(* the parser returns exactly the content of the written string, whatever continuation markers cut it *)
Theorem unquote_written : forall w, wstr_okb w = true -> unquote (wstr_text w) = wstr_value w.
Proof.
  intros [first rest] H. unfold wstr_okb, wstr_value in H. cbn [ws_first ws_rest] in H.
  unfold unquote, wstr_text, wstr_inner, wstr_value, drop_first_last. cbn [ws_first ws_rest tl].
  rewrite removelast_last.
  fold (inner_rest rest). fold (value_rest rest) in *.
  rewrite pass1 by exact H. apply pass2. exact H.
Qed.

Theorem parse_string_written : forall w, wstr_okb w = true ->
  parse_string (Node R_string_literal (wstr_text w) []) = POk (wstr_value w).
Proof. intros w H. unfold parse_string. cbn [root text]. rewrite unquote_written by exact H. reflexivity. Qed.

(* ------------------------------------------------------------------------------------------ field updates *)

Lemma nfield_index_inj : forall a b : nfield, nfield_index a = nfield_index b -> a = b.
Proof. intros a b; destruct a; destruct b; intros H; try reflexivity; discriminate H. Qed.
Lemma sfield_index_inj : forall a b : sfield, sfield_index a = sfield_index b -> a = b.
Proof. intros a b; destruct a; destruct b; intros H; try reflexivity; discriminate H. Qed.
Lemma bfield_index_inj : forall a b : bfield, bfield_index a = bfield_index b -> a = b.
Proof. intros a b; destruct a; destruct b; intros H; try reflexivity; discriminate H. Qed.

Lemma nfield_eqb_false : forall a b, a <> b -> nfield_eqb a b = false.
Proof. intros a b H. apply Nat.eqb_neq. intros E. apply H. apply nfield_index_inj. exact E. Qed.
Lemma sfield_eqb_false : forall a b, a <> b -> sfield_eqb a b = false.
Proof. intros a b H. apply Nat.eqb_neq. intros E. apply H. apply sfield_index_inj. exact E. Qed.
Lemma bfield_eqb_false : forall a b, a <> b -> bfield_eqb a b = false.
Proof. intros a b H. apply Nat.eqb_neq. intros E. apply H. apply bfield_index_inj. exact E. Qed.
Lemma nfield_eqb_refl : forall a, nfield_eqb a a = true. Proof. intros a. apply Nat.eqb_refl. Qed.
Lemma sfield_eqb_refl : forall a, sfield_eqb a a = true. Proof. intros a. apply Nat.eqb_refl. Qed.
Lemma bfield_eqb_refl : forall a, bfield_eqb a a = true. Proof. intros a. apply Nat.eqb_refl. Qed.

Lemma target_eqb_refl : forall x, target_eqb x x = true.
Proof. intros [f | f | f]; cbn [target_eqb]; [apply nfield_eqb_refl | apply sfield_eqb_refl | apply bfield_eqb_refl]. Qed.

Lemma existsb_in : forall x l, In x l -> existsb (target_eqb x) l = true.
Proof.
  intros x l H. apply existsb_exists. exists x. split; [exact H | apply target_eqb_refl].
Qed.

Lemma nodupb_app : forall l1 l2, nodupb (l1 ++ l2) = true ->
  nodupb l2 = true /\ (forall x, In x l1 -> ~ In x l2).
Proof.
  induction l1 as [| a l1 IH]; intros l2 H; cbn [app nodupb] in *.
  - split; [exact H | intros x []].
  - apply andb_true_iff in H. destruct H as [Ha Hr]. apply negb_true_iff in Ha.
    destruct (IH l2 Hr) as [H2 Hd]. split; [exact H2 |].
    intros x [<- | Hin]; [| apply Hd; exact Hin].
    intros Hin2. rewrite existsb_in in Ha; [discriminate Ha | apply in_or_app; right; exact Hin2].
Qed.

(* the effect of one written setting on the description *)
Definition apply_item (g : desc) (it : witem) : desc :=
  match item_action it, wi_value it with
  | Some (ANum f), WNum n => set_num f (wnum_value n) g
  | Some (AStr f), WStr s => set_str f (wstr_value s) g
  | Some (ABool f), WNum n => set_flag f (negb (wnum_value n =? 0)) g
  | Some (ASpeed m), WNum n => if negb (wnum_value n =? 0) then set_speeds (Z.lor (d_speeds g) m) g else g
  | _, _ => g
  end.

Lemma nfield_max_u32 : forall f, nfield_max f <= u32_max.
Proof. intros f. destruct f; vm_compute; discriminate. Qed.

Lemma do_statement_item : forall it g t d l m x w,
  item_okb it = true ->
  do_statement (mkSt g t d l m x w) (setting_node it) = POk (mkSt (apply_item g it) t d l m x w).
Proof.
  intros it g t d l m x w Hok.
  unfold do_statement, setting_node. cbn [root kids]. unfold do_setting. cbn [next_unwrap pbind text].
  unfold item_okb, item_action in Hok. unfold apply_item, item_action.
  destruct (assoc_str (to_lower (wi_keytext it)) setting_table) as [[f | f | f | mask | sp] |];
    destruct (wi_value it) as [n | s]; try discriminate Hok; try reflexivity; unfold do_action, value_node; cbv zeta.
  - apply andb_true_iff in Hok. destruct Hok as [Hn Hv]. apply Z.leb_le in Hv.
    rewrite parse_number_written; [reflexivity | exact Hn | exact Hv | apply nfield_max_u32].
  - rewrite parse_string_written by exact Hok. reflexivity.
  - apply andb_true_iff in Hok. destruct Hok as [Hn Hv]. apply Z.leb_le in Hv.
    unfold parse_bool. rewrite parse_number_written; [reflexivity | exact Hn | exact Hv | apply Z.le_refl].
  - apply andb_true_iff in Hok. destruct Hok as [Hn Hv]. apply Z.leb_le in Hv.
    unfold parse_bool. rewrite parse_number_written; [| exact Hn | exact Hv | apply Z.le_refl].
    cbn [pbind]. destruct (wnum_value n =? 0); reflexivity.
Qed.

Lemma do_statements_items : forall items g t d l m x w rest,
  forallb item_okb items = true ->
  do_statements (mkSt g t d l m x w) (map setting_node items ++ rest) =
  do_statements (mkSt (fold_left apply_item items g) t d l m x w) rest.
Proof.
  induction items as [| it items IH]; intros g t d l m x w rest H; [reflexivity |].
  cbn [forallb] in H. apply andb_true_iff in H. destruct H as [Hi Hr].
  cbn [map app do_statements fold_left]. rewrite do_statement_item by exact Hi. cbn [pbind].
  apply IH. exact Hr.
Qed.

(* ---- what the fold does to the individual fields *)

Lemma apply_keep_num : forall g a f, ~ In (TNum f) (item_target a) -> d_num (apply_item g a) f = d_num g f.
Proof.
  intros g a f H. unfold apply_item, item_target in *.
  destruct (item_action a) as [[f' | f' | f' | mask | sp] |]; destruct (wi_value a) as [n | s]; try reflexivity.
  - cbn [set_num d_num]. rewrite nfield_eqb_false; [reflexivity |]. intros ->. apply H. left. reflexivity.
  - destruct (negb _); reflexivity.
Qed.
Lemma apply_keep_str : forall g a f, ~ In (TStr f) (item_target a) -> d_str (apply_item g a) f = d_str g f.
Proof.
  intros g a f H. unfold apply_item, item_target in *.
  destruct (item_action a) as [[f' | f' | f' | mask | sp] |]; destruct (wi_value a) as [n | s]; try reflexivity.
  - cbn [set_str d_str]. rewrite sfield_eqb_false; [reflexivity |]. intros ->. apply H. left. reflexivity.
  - destruct (negb _); reflexivity.
Qed.
Lemma apply_keep_flag : forall g a f, ~ In (TFlag f) (item_target a) -> d_flag (apply_item g a) f = d_flag g f.
Proof.
  intros g a f H. unfold apply_item, item_target in *.
  destruct (item_action a) as [[f' | f' | f' | mask | sp] |]; destruct (wi_value a) as [n | s]; try reflexivity.
  - cbn [set_flag d_flag]. rewrite bfield_eqb_false; [reflexivity |]. intros ->. apply H. left. reflexivity.
  - destruct (negb _); reflexivity.
Qed.

Lemma not_in_targets_cons : forall x a r, ~ In x (targets (a :: r)) -> ~ In x (item_target a) /\ ~ In x (targets r).
Proof.
  intros x a r H. unfold targets in *. cbn [flat_map] in H. split; intros Hin; apply H; apply in_or_app; [left | right]; exact Hin.
Qed.

Lemma fold_keep_num : forall items g f, ~ In (TNum f) (targets items) ->
  d_num (fold_left apply_item items g) f = d_num g f.
Proof.
  induction items as [| a r IH]; intros g f H; [reflexivity |].
  apply not_in_targets_cons in H. destruct H as [Ha Hr].
  cbn [fold_left]. rewrite IH by exact Hr. apply apply_keep_num. exact Ha.
Qed.
Lemma fold_keep_str : forall items g f, ~ In (TStr f) (targets items) ->
  d_str (fold_left apply_item items g) f = d_str g f.
Proof.
  induction items as [| a r IH]; intros g f H; [reflexivity |].
  apply not_in_targets_cons in H. destruct H as [Ha Hr].
  cbn [fold_left]. rewrite IH by exact Hr. apply apply_keep_str. exact Ha.
Qed.
Lemma fold_keep_flag : forall items g f, ~ In (TFlag f) (targets items) ->
  d_flag (fold_left apply_item items g) f = d_flag g f.
Proof.
  induction items as [| a r IH]; intros g f H; [reflexivity |].
  apply not_in_targets_cons in H. destruct H as [Ha Hr].
  cbn [fold_left]. rewrite IH by exact Hr. apply apply_keep_flag. exact Ha.
Qed.

(* the non-scalar parts are not touched *)
Definition rest_of (d : desc) :=
  (d_modules d, d_slots d, d_prm d, d_bits d, d_notbits d, d_areas d).
Lemma apply_rest : forall g a, rest_of (apply_item g a) = rest_of g.
Proof.
  intros g a. unfold apply_item.
  destruct (item_action a) as [[f' | f' | f' | mask | sp] |]; destruct (wi_value a) as [n | s]; try reflexivity.
  destruct (negb _); reflexivity.
Qed.
Lemma fold_rest : forall items g, rest_of (fold_left apply_item items g) = rest_of g.
Proof.
  induction items as [| a r IH]; intros g; [reflexivity |]. cbn [fold_left]. rewrite IH. apply apply_rest.
Qed.

Definition speed_step (acc : Z) (it : witem) : Z :=
  match item_action it, wi_value it with
  | Some (ASpeed m), WNum n => if wnum_value n =? 0 then acc else Z.lor acc m
  | _, _ => acc
  end.
Lemma apply_speeds : forall g a, d_speeds (apply_item g a) = speed_step (d_speeds g) a.
Proof.
  intros g a. unfold apply_item, speed_step.
  destruct (item_action a) as [[f' | f' | f' | mask | sp] |]; destruct (wi_value a) as [n | s]; try reflexivity.
  destruct (wnum_value n =? 0); reflexivity.
Qed.
Lemma fold_speeds : forall items g, d_speeds (fold_left apply_item items g) = fold_left speed_step items (d_speeds g).
Proof.
  induction items as [| a r IH]; intros g; [reflexivity |]. cbn [fold_left]. rewrite IH, apply_speeds. reflexivity.
Qed.

Lemma says_fold : forall items g it,
  nodupb (targets items) = true -> In it items -> says (fold_left apply_item items g) it.
Proof.
  induction items as [| a r IH]; intros g it Hnd Hin; [destruct Hin |].
  unfold targets in Hnd. cbn [flat_map] in Hnd. apply nodupb_app in Hnd. destruct Hnd as [Hr Hd].
  cbn [fold_left]. destruct Hin as [<- | Hin]; [| apply IH; assumption].
  unfold says. unfold item_target in Hd.
  destruct (item_action a) as [[f | f | f | mask | sp] |] eqn:Ea; destruct (wi_value a) as [n | s] eqn:Ev; try exact I.
  - rewrite fold_keep_num by (apply Hd; left; reflexivity).
    unfold apply_item. rewrite Ea, Ev. cbn [set_num d_num]. rewrite nfield_eqb_refl. reflexivity.
  - rewrite fold_keep_str by (apply Hd; left; reflexivity).
    unfold apply_item. rewrite Ea, Ev. cbn [set_str d_str]. rewrite sfield_eqb_refl. reflexivity.
  - rewrite fold_keep_flag by (apply Hd; left; reflexivity).
    unfold apply_item. rewrite Ea, Ev. cbn [set_flag d_flag]. rewrite bfield_eqb_refl. reflexivity.
Qed.

(* ---- Modular_Station and Max_Module are not in the fragment (their arms are special) *)
Lemma assoc_str_in : forall (k : str) (l : list (str * action)) a, assoc_str k l = Some a -> In a (map snd l).
Proof.
  intros k l a. induction l as [| [k' v] l IH]; cbn [assoc_str map snd]; intros H; [discriminate H |].
  destruct (str_eqb k k'); [left; congruence | right; apply IH; exact H].
Qed.

Lemma table_no_modular_flag : ~ In (ABool BF_modular_station) (map snd setting_table).
Proof. vm_compute. intros H. repeat (destruct H as [H | H]; [discriminate H |]). exact H. Qed.
Lemma table_no_max_modules : ~ In (ANum NF_max_modules) (map snd setting_table).
Proof. vm_compute. intros H. repeat (destruct H as [H | H]; [discriminate H |]). exact H. Qed.

Lemma targets_no_special : forall items,
  ~ In (TFlag BF_modular_station) (targets items) /\ ~ In (TNum NF_max_modules) (targets items).
Proof.
  induction items as [| a r [IH1 IH2]]; [split; intros [] |].
  unfold targets in *. cbn [flat_map].
  split; intros H; apply in_app_or in H; destruct H as [H | H]; try (apply IH1; exact H); try (apply IH2; exact H);
    unfold item_target, item_action in H;
    destruct (assoc_str (to_lower (wi_keytext a)) setting_table) as [[f | f | f | mask | sp] |] eqn:E;
    cbn [In] in H; try (destruct H as [H | []]; try discriminate H); try contradiction.
  - injection H as ->. apply table_no_modular_flag. eapply assoc_str_in. exact E.
  - injection H as ->. apply table_no_max_modules. eapply assoc_str_in. exact E.
Qed.

(* ------------------------------------------------------------------------------------------ the round trip *)

Theorem roundtrip_settings : forall pre mk items,
  settings_okb items = true ->
  exists d, interp (settings_tree pre mk items) = POk (d, 1) /\
    (forall it, In it items -> says d it) /\
    d_speeds d = said_speeds items /\
    (forall f, ~ In (TNum f) (targets items) -> d_num d f = if nfield_eqb f NF_max_modules then 1 else nfield_default f) /\
    (forall f, ~ In (TStr f) (targets items) -> d_str d f = []) /\
    (forall f, ~ In (TFlag f) (targets items) -> d_flag d f = false) /\
    rest_of d = ([], [], prm_default, [], [], []).
Proof.
  intros pre mk items Hok. unfold settings_okb in Hok. apply andb_true_iff in Hok. destruct Hok as [Hall Hnd].
  set (G := fold_left apply_item items desc_default).
  destruct (targets_no_special items) as [Hnf Hnn].
  assert (Hflag : d_flag G BF_modular_station = false).
  { unfold G. rewrite fold_keep_flag by exact Hnf. reflexivity. }
  assert (Hrest : rest_of G = ([], [], prm_default, [], [], [])).
  { unfold G. rewrite fold_rest. reflexivity. }
  assert (Hmods : d_modules G = []) by (unfold rest_of in Hrest; congruence).
  exists (set_num NF_max_modules 1 (set_num NF_max_modules 1 (set_prm prm_default G))).
  split; [| split; [| split; [| split; [| split; [| split]]]]].
  - unfold interp, settings_tree. cbn [kids]. unfold st_init.
    cbn [do_statements do_statement root pbind].
    rewrite do_statements_items by exact Hall. fold G.
    cbn [do_statements do_statement root pbind].
    unfold post. cbn [s_legacy s_gsd s_maxspan s_modspan s_warn].
    cbn [set_num set_prm d_flag d_num d_modules]. rewrite Hflag. rewrite nfield_eqb_refl.
    rewrite Hmods. reflexivity.
  - intros it Hin. pose proof (says_fold items desc_default it Hnd Hin) as Hs. fold G in Hs.
    unfold says in *. unfold targets in Hnn.
    destruct (item_action it) as [[f | f | f | mask | sp] |] eqn:Ea; destruct (wi_value it) as [n | s]; try exact I.
    + cbn [set_num set_prm d_num].
      assert (Hne : NF_max_modules <> f).
      { intros <-. apply Hnn. apply in_flat_map. exists it. split; [exact Hin |].
        unfold item_target. rewrite Ea. left. reflexivity. }
      rewrite nfield_eqb_false by exact Hne. exact Hs.
    + exact Hs.
    + exact Hs.
  - cbn [set_num set_prm d_speeds]. unfold G. rewrite fold_speeds. reflexivity.
  - intros f Hf. cbn [set_num set_prm d_num].
    destruct (nfield_eqb NF_max_modules f) eqn:E.
    + apply Nat.eqb_eq in E. apply nfield_index_inj in E. subst f. rewrite nfield_eqb_refl. reflexivity.
    + assert (E' : nfield_eqb f NF_max_modules = false).
      { unfold nfield_eqb in *. rewrite Nat.eqb_sym. exact E. }
      rewrite E'. unfold G. rewrite fold_keep_num by exact Hf. reflexivity.
  - intros f Hf. cbn [set_num set_prm d_str]. unfold G. rewrite fold_keep_str by exact Hf. reflexivity.
  - intros f Hf. cbn [set_num set_prm d_flag]. unfold G. rewrite fold_keep_flag by exact Hf. reflexivity.
  - unfold rest_of in *. cbn [set_num set_prm d_modules d_slots d_prm d_bits d_notbits d_areas].
    injection Hrest as H1 H2 H3 H4 H5 H6. rewrite H1, H2, H4, H5, H6. reflexivity.
Qed.

(* ------------------------------------------------------------------------------------------ the settings trees are well shaped *)

Lemma leaf_shape : forall r t, child_rx r = REps -> Shape (Node r t []).
Proof. intros r t H. constructor. rewrite H. constructor. Qed.

Lemma value_node_shape : forall v, Shape (value_node v).
Proof.
  intros [[ds | ds] | s]; cbn [value_node wnum_rule]; apply leaf_shape; vm_compute; reflexivity.
Qed.

Lemma setting_node_shape : forall it, Shape (setting_node it).
Proof.
  intros it. unfold setting_node. constructor. apply rmatch_kids.
  - constructor; [apply leaf_shape; vm_compute; reflexivity |]. constructor; [apply value_node_shape | constructor].
  - cbn [map root]. destruct (wi_value it) as [[ds | ds] | s]; cbn [value_node wnum_rule root]; vm_compute; reflexivity.
Qed.

Definition gsd_tail : rx := deriv R_setting (deriv R_start (deriv R_any_text (child_rx R_gsd))).

Lemma gsd_tail_step : deriv R_setting gsd_tail = gsd_tail.
Proof. vm_compute. reflexivity. Qed.

Lemma gsd_tail_settings : forall items,
  rmatch gsd_tail (map root (map setting_node items ++ [Node R_EOI [] []])) = true.
Proof.
  induction items as [| it items IH].
  - vm_compute. reflexivity.
  - cbn [map app rmatch]. change (root (setting_node it)) with R_setting. rewrite gsd_tail_step. exact IH.
Qed.

Theorem settings_tree_shape : forall pre mk items, items <> [] -> Shape (settings_tree pre mk items).
Proof.
  intros pre mk items Hne. destruct items as [| it items]; [congruence |].
  unfold settings_tree. constructor. apply rmatch_kids.
  - constructor; [apply leaf_shape; vm_compute; reflexivity |].
    constructor; [apply leaf_shape; vm_compute; reflexivity |].
    apply Forall_app. split.
    + apply Forall_forall. intros t Hin. apply in_map_iff in Hin. destruct Hin as [x [<- _]]. apply setting_node_shape.
    + constructor; [apply leaf_shape; vm_compute; reflexivity | constructor].
  - cbn [map app rmatch]. change (root (setting_node it)) with R_setting.
    fold gsd_tail. exact (gsd_tail_settings items).
Qed.
