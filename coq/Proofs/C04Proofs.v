(* C04: process images at the level of the DP master and of histories.
   - dx_accepts p t: the peripheral is in (Pre)DataExchange with no diagnostics request in flight and t is a
     well-formed Data_Exchange reply for its input image (DpOracle.dx_reply_payload: data response with
     status Ok / DataLow / DataHigh and exactly length pi_i bytes) or a short confirmation for an input-less
     peripheral;
   - reply_event_iff / reply_effect: DataExchanged is reported iff dx_accepts, pi_i is then the payload and
     otherwise untouched, nothing else in the master changes its images;
   - tx_images: transmit_telegram touches no image and never reports DataExchanged;
   - q_item: every Data_Exchange request carries the output image as last written by the user (histories);
   - end_to_end: the FDL station model with DP masters as its applications delivers only admissible replies
     (C15), so everything above holds for whatever arrives on the bus. *)
From PB Require Import Fdl FdlProofs C15Proofs.
From PB Require Import DpMaster DpOracle DpStepProofs C14Proofs C14History.

(* ------------------------------------------------------------------ the peripheral *)

Definition in_dx (p : periph) : bool :=
  match pe_state p with PsPreDataExchange | PsDataExchange => true | _ => false end.

Definition dx_payload_ok (p : periph) (t : telegram) : bool :=
  match dx_reply_payload (length (pe_pi_i p)) t with
  | Some _ => true
  | None => is_sc t && Nat.eqb (length (pe_pi_i p)) 0
  end.

Definition dx_accepts (p : periph) (t : telegram) : bool :=
  in_dx p && negb (pe_diag_in_flight p) && dx_payload_ok p t.

Definition dx_new_pi_i (p : periph) (t : telegram) : bytes :=
  match dx_reply_payload (length (pe_pi_i p)) t with Some d => d | None => pe_pi_i p end.

Lemma receive_dx_exact : forall p t p1 ev,
  p_receive_dx p t = Ok (p1, ev) ->
  (ev = Some EvDataExchanged <-> dx_payload_ok p t = true) /\
  (ev = None \/ ev = Some EvDataExchanged) /\
  pe_pi_i p1 = (if dx_payload_ok p t then dx_new_pi_i p t else pe_pi_i p) /\
  pe_pi_q p1 = pe_pi_q p.
Proof.
  intros p t p1 ev H. unfold p_receive_dx in H. unfold dx_payload_ok, dx_new_pi_i, dx_reply_payload, resp_status_of.
  destruct t as [h pdu| |].
  - destruct (h_fc h) as [|st s]; [discriminate|].
    destruct s; cbn [fst snd is_sc andb] in *;
    repeat match type of H with
           | context [if ?c then _ else _] => destruct c eqn:?
           end;
    unfold copy_from_slice, bind in H;
    repeat match type of H with
           | context [if ?c then _ else _] => destruct c eqn:?
           end;
    try discriminate; inversion H; subst; cbn [pe_pi_i pe_pi_q set_state set_pi_i set_diag_needed] in *;
    repeat match goal with
           | E : Nat.eqb ?a ?b = _ |- context [Nat.eqb ?a ?b] => rewrite E
           end;
    (split; [split; intro X; try discriminate X; reflexivity|]); (split; [auto|]); split; reflexivity.
  - discriminate.
  - cbn [is_sc andb]. destruct (Nat.eqb (length (pe_pi_i p)) 0) eqn:E; cbn [negb] in H; inversion H; subst; cbn;
      (split; [split; intro X; try discriminate X; reflexivity|]); (split; [auto|]); split; reflexivity.
Qed.

Lemma handle_diag_images : forall p t p1 d,
  p_handle_diag p t = Ok (p1, d) -> pe_pi_i p1 = pe_pi_i p /\ pe_pi_q p1 = pe_pi_q p.
Proof. intros p t p1 d H. apply handle_diag_frame in H. destruct H as (_ & _ & _ & Hi & Hq & _). auto. Qed.

(* C04_event_iff at the peripheral, from EVERY peripheral state *)
Lemma reply_event_iff : forall p t p' ev,
  p_receive_reply p t = Ok (p', ev) ->
  (ev = Some EvDataExchanged <-> dx_accepts p t = true) /\
  pe_pi_i p' = (if dx_accepts p t then dx_new_pi_i p t else pe_pi_i p) /\
  pe_pi_q p' = pe_pi_q p.
Proof.
  intros p t p' ev H. unfold dx_accepts, in_dx. unfold p_receive_reply in H.
  destruct (pe_state p) eqn:Hst; cbn [andb].
  - unfold bind in H. destruct (p_handle_diag p t) as [[p1 d]| |] eqn:Hd; try discriminate.
    destruct (handle_diag_images _ _ _ _ Hd) as [Hi Hq].
    destruct d; inversion H; subst; cbn; (split; [split; intro X; discriminate X|]); auto.
  - destruct (is_sc t); unfold bind in H.
    + destruct (fcb_cycle (pe_fcb p)); try discriminate. inversion H; subst. cbn.
      (split; [split; intro X; discriminate X|]); auto.
    + inversion H; subst. (split; [split; intro X; discriminate X|]); auto.
  - destruct (is_sc t); unfold bind in H.
    + destruct (fcb_cycle (pe_fcb p)); try discriminate. inversion H; subst. cbn.
      (split; [split; intro X; discriminate X|]); auto.
    + inversion H; subst. (split; [split; intro X; discriminate X|]); auto.
  - unfold bind in H. destruct (p_handle_diag (set_retry p 0) t) as [[p1 d]| |] eqn:Hd; try discriminate.
    destruct (handle_diag_images _ _ _ _ Hd) as [Hi Hq]. cbn in Hi, Hq.
    destruct d.
    + unfold validate_outcome in H.
      repeat match type of H with context [if ?c then _ else _] => destruct c end;
        inversion H; subst; cbn; (split; [split; intro X; discriminate X|]); auto.
    + inversion H; subst; cbn. (split; [split; intro X; discriminate X|]); auto.
  - destruct (pe_diag_in_flight p) eqn:Hfl; unfold bind in H; cbn [negb andb].
    + destruct (p_handle_diag p t) as [[p1 d]| |] eqn:Hd; try discriminate.
      destruct (handle_diag_images _ _ _ _ Hd) as [Hi Hq].
      destruct d.
      * destruct (flags_contains (d_flags d) DF_PARAMETER_REQUIRED); inversion H; subst; cbn;
          (split; [split; intro X; discriminate X|]); auto.
      * inversion H; subst. (split; [split; intro X; discriminate X|]); auto.
    + destruct (p_receive_dx p t) as [[p1 e1]| |] eqn:Hdx; try discriminate.
      destruct (receive_dx_exact _ _ _ _ Hdx) as (Hiff & _ & Hi & Hq).
      destruct (fcb_cycle (pe_fcb (set_retry p1 0))); try discriminate.
      inversion H; subst. cbn. auto.
  - destruct (pe_diag_in_flight p) eqn:Hfl; unfold bind in H; cbn [negb andb].
    + destruct (p_handle_diag p t) as [[p1 d]| |] eqn:Hd; try discriminate.
      destruct (handle_diag_images _ _ _ _ Hd) as [Hi Hq].
      destruct d.
      * destruct (flags_contains (d_flags d) DF_PARAMETER_REQUIRED); inversion H; subst; cbn;
          (split; [split; intro X; discriminate X|]); auto.
      * inversion H; subst. (split; [split; intro X; discriminate X|]); auto.
    + destruct (p_receive_dx p t) as [[p1 e1]| |] eqn:Hdx; try discriminate.
      destruct (receive_dx_exact _ _ _ _ Hdx) as (Hiff & _ & Hi & Hq).
      destruct (fcb_cycle (pe_fcb (set_retry p1 0))); try discriminate.
      inversion H; subst. cbn. auto.
Qed.

(* ------------------------------------------------------------------ the master: one reply *)

Definition images (m : dpm) (j : nat) : option (bytes * bytes) :=
  match slot m j with Some p => Some (pe_pi_i p, pe_pi_q p) | None => None end.

(* C04_event_iff + C04_others_untouched for receive_reply, from EVERY master state: the reply goes to the
   peripheral whose turn is in progress (slot i = head of pos_rem, address = addr); no other slot changes at
   all; pi_q of slot i is unchanged; pi_i of slot i is the payload if dx_accepts and unchanged otherwise;
   DataExchanged is reported (with the handle of slot i) iff dx_accepts *)
Definition reply_spec (m : dpm) (addr : Z) (t : telegram) (m' : dpm) : Prop :=
  exists i r p p',
    pos_rem m = i :: r /\ slot m i = Some p /\ pe_addr p = addr /\ slot m' i = Some p' /\
    (forall j, j <> i -> nth_error (dm_slots m') j = nth_error (dm_slots m) j) /\
    pe_pi_q p' = pe_pi_q p /\
    pe_pi_i p' = (if dx_accepts p t then dx_new_pi_i p t else pe_pi_i p) /\
    ((exists h, ev_peripheral (dm_events m') = Some (h, EvDataExchanged)) <-> dx_accepts p t = true) /\
    (forall h e, ev_peripheral (dm_events m') = Some (h, e) -> hd_index h = i /\ hd_addr h = addr).

Lemma reply_effect : forall m addr t m',
  dp_receive_reply m addr t = Ok m' -> reply_spec m addr t m'.
Proof.
  intros m addr t m' H. unfold reply_spec. rewrite <- dp_receive_reply_erase in H.
  destruct (dp_receive_reply_g m addr t) as [[m1 log]| |] eqn:Hg; cbn [drop_log] in H; try discriminate H.
  inversion H; subst m1. clear H.
  destruct (rx_cases _ _ _ _ _ Hg) as (index & hd & p & p1 & ev & m2 & cc & Hc & Hgi & Ha & Hrx & Hi & Hm & _).
  destruct (cur_slot _ _ _ _ Hc Hgi) as (r & Hr & Hsl & Hadr).
  destruct (put_cur_facts m hd p p1 Hsl) as (_ & Hcy & Hpr & _). rewrite Hc in Hcy. rewrite Hr in Hpr.
  destruct (increment_pos _ _ _ _ _ _ Hcy Hpr Hi) as (Hsl2 & _).
  destruct (reply_event_iff _ _ _ _ Hrx) as (Hiff & Hpi & Hpq).
  exists (hd_index hd), r, p, p1. split; [exact Hr|]. split; [exact Hsl|]. split; [symmetry; exact Ha|].
  assert (Hslots : dm_slots m' = put_slot (dm_slots m) (hd_index hd) p1) by (rewrite Hm; cbn; exact Hsl2).
  split; [|split; [|split; [exact Hpq|split; [exact Hpi|split]]]].
  - unfold slot. rewrite Hslots. unfold slot in Hsl.
    destruct (nth_error (dm_slots m) (hd_index hd)) as [[q|]|] eqn:Hn; try discriminate Hsl.
    rewrite (put_slot_same _ _ p1 _ Hn). reflexivity.
  - intros j Hj. rewrite Hslots. apply put_slot_other. intro E; subst; now elim Hj.
  - rewrite Hm. cbn [dm_events set_events ev_peripheral]. rewrite <- Hiff. split.
    + intros [h Hh]. destruct ev as [e|]; cbn in Hh; inversion Hh; reflexivity.
    + intros ->. exists hd. reflexivity.
  - intros h e Hh. rewrite Hm in Hh. cbn [dm_events set_events ev_peripheral] in Hh.
    destruct ev as [e'|]; cbn in Hh; [|discriminate Hh].
    injection Hh as E1 E2. rewrite <- E1. split; [reflexivity|]. rewrite Hadr. symmetry; exact Ha.
Qed.

(* wrong length, error status, wrong kind (anything that is not dx_accepts): no image of any peripheral
   changes *)
Lemma wrong_reply_images : forall m addr t m',
  dp_receive_reply m addr t = Ok m' ->
  (forall i r p, pos_rem m = i :: r -> slot m i = Some p -> dx_accepts p t = false) ->
  forall j, images m' j = images m j.
Proof.
  intros m addr t m' H Hno j.
  destruct (reply_effect _ _ _ _ H) as (i & r & p & p' & Hr & Hs & _ & Hs' & Hoth & Hq & Hi & _).
  rewrite (Hno _ _ _ Hr Hs) in Hi. unfold images.
  destruct (Nat.eq_dec j i) as [->|Hne].
  - rewrite Hs, Hs', Hi, Hq. reflexivity.
  - unfold slot. rewrite (Hoth _ Hne). reflexivity.
Qed.

(* ------------------------------------------------------------------ the master: transmit *)

Lemma images_put : forall m i p p1 j,
  slot m i = Some p -> pe_pi_i p1 = pe_pi_i p -> pe_pi_q p1 = pe_pi_q p ->
  images (set_slots m (put_slot (dm_slots m) i p1)) j = images m j.
Proof.
  intros m i p p1 j Hs Hi Hq. unfold images. destruct (Nat.eq_dec i j) as [->|Hne].
  - rewrite (slot_put_same _ _ p1 _ Hs), Hs, Hi, Hq. reflexivity.
  - rewrite slot_put_other by exact Hne. reflexivity.
Qed.

Lemma images_slots : forall m m' j, dm_slots m' = dm_slots m -> images m' j = images m j.
Proof. intros m m' j H. unfold images, slot. rewrite H. reflexivity. Qed.

Lemma tx_rel_images : forall pa bufsize m m' o log,
  tx_rel pa bufsize m m' o log ->
  (forall j, images m' j = images m j) /\
  (forall h e, ev_peripheral (dm_events m') = Some (h, e) -> e = EvOffline).
Proof.
  intros pa bufsize m m' o log H. induction H as
    [m Hc|m index Hc Hg|m index hd p p1 h pdu o Hc Hg Hp Hs|m index hd p p1 ev m2 Hc Hg Hp Hi
    |m index hd p p1 e m2 Hc Hg Hp Hi|m index hd p p1 m2 m' o log Hc Hg Hp Hi Hrel IH].
  - split; [intro j; reflexivity|]. intros h e E. discriminate E.
  - split; [intro j; reflexivity|]. intros h e E. discriminate E.
  - destruct (cur_slot _ _ _ _ Hc Hg) as (r & Hr & Hsl & _).
    destruct (transmit_keeps _ _ _ _ _ Hp) as (_ & Hi & Hq & _).
    split; [|intros h0 e E; discriminate E].
    intro j. rewrite (images_slots (put_cur m hd p1) _ j) by reflexivity. eapply images_put; eassumption.
  - destruct (cur_slot _ _ _ _ Hc Hg) as (r & Hr & Hsl & _).
    destruct (transmit_keeps _ _ _ _ _ Hp) as (_ & Hii & Hq & _).
    destruct (put_cur_facts m hd p p1 Hsl) as (_ & Hcy & Hpr & _). rewrite Hc in Hcy. rewrite Hr in Hpr.
    destruct (increment_pos _ _ _ _ _ _ Hcy Hpr Hi) as (Hsl2 & _).
    split.
    + intro j. rewrite (images_slots (put_cur m hd p1) _ j) by (cbn; exact Hsl2). eapply images_put; eassumption.
    + intros h0 e E. cbn in E. destruct ev as [e'|]; cbn in E; inversion E; subst.
      pose proof (transmit_spec _ _ _ _ _ Hp) as Hts. cbn beta iota in Hts. destruct Hts as [-> _]. reflexivity.
  - destruct (cur_slot _ _ _ _ Hc Hg) as (r & Hr & Hsl & _).
    destruct (transmit_keeps _ _ _ _ _ Hp) as (_ & Hii & Hq & _).
    destruct (put_cur_facts m hd p p1 Hsl) as (_ & Hcy & Hpr & _). rewrite Hc in Hcy. rewrite Hr in Hpr.
    destruct (increment_pos _ _ _ _ _ _ Hcy Hpr Hi) as (Hsl2 & _).
    split.
    + intro j. rewrite (images_slots (put_cur m hd p1) _ j) by (cbn; exact Hsl2). eapply images_put; eassumption.
    + intros h0 e0 E. cbn in E. inversion E; subst.
      pose proof (transmit_spec _ _ _ _ _ Hp) as Hts. cbn beta iota in Hts. destruct Hts as [-> _]. reflexivity.
  - destruct (cur_slot _ _ _ _ Hc Hg) as (r & Hr & Hsl & _).
    destruct (transmit_keeps _ _ _ _ _ Hp) as (_ & Hii & Hq & _).
    destruct (put_cur_facts m hd p p1 Hsl) as (_ & Hcy & Hpr & _). rewrite Hc in Hcy. rewrite Hr in Hpr.
    destruct (increment_pos _ _ _ _ _ _ Hcy Hpr Hi) as (Hsl2 & _).
    destruct IH as [IHi IHe]. split; [|exact IHe].
    intro j. rewrite IHi. rewrite (images_slots (put_cur m hd p1) _ j) by exact Hsl2. eapply images_put; eassumption.
Qed.

(* transmit_telegram, from EVERY master state: no process image changes, and the only peripheral event it
   can report is Offline (never DataExchanged) *)
Lemma tx_images : forall pa bufsize m now hp m' o,
  dp_transmit pa bufsize m now hp = Ok (m', o) ->
  (forall j, images m' j = images m j) /\
  (forall h e, ev_peripheral (dm_events m') = Some (h, e) -> e = EvOffline).
Proof.
  intros pa bufsize m now hp m' o H. rewrite <- dp_transmit_erase in H.
  destruct (dp_transmit_g pa bufsize m now hp) as [[[m1 o1] log]| |] eqn:Hg; cbn [drop_log] in H; try discriminate H.
  inversion H; subst m1 o1. clear H.
  destruct (dp_transmit_g_cases _ _ _ _ _ _ _ _ Hg) as
    [(_ & -> & _)|[(_ & _ & _ & -> & _)|(_ & _ & Hrel)]].
  - split; [intro j; reflexivity|]. intros h e E; discriminate E.
  - split; [intro j; reflexivity|]. intros h e E; discriminate E.
  - eapply tx_rel_images. exact Hrel.
Qed.

(* ------------------------------------------------------------------ histories: who changes which image *)

(* per callback, from EVERY master state: pi_i of a slot changes only in receive_reply for the slot whose turn
   it is, by a reply with dx_accepts (reply_effect); pi_q of a slot changes only by the user's write to that
   slot and then equals what was written *)
Definition image_step_ok (it : item) : Prop :=
  match it_cb it with
  | CRx a t =>
      exists i r p, pos_rem (it_pre it) = i :: r /\ slot (it_pre it) i = Some p /\ pe_addr p = a /\
        (forall j, j <> i -> images (it_post it) j = images (it_pre it) j) /\
        images (it_post it) i = Some (if dx_accepts p t then dx_new_pi_i p t else pe_pi_i p, pe_pi_q p)
  | CWriteQ h q =>
      exists p, slot (it_pre it) (hd_index h) = Some p /\ length q = length (pe_pi_q p) /\
        (forall j, j <> hd_index h -> images (it_post it) j = images (it_pre it) j) /\
        images (it_post it) (hd_index h) = Some (pe_pi_i p, q)
  | _ => forall j, images (it_post it) j = images (it_pre it) j
  end /\
  forall j, images (it_m it) j = images (it_post it) j.

Lemma images_take : forall auto c m j, images (fst (auto_take_m auto c m)) j = images m j.
Proof. intros auto c m j. unfold auto_take_m. destruct (auto && is_bus c); reflexivity. Qed.

Lemma image_step : forall auto pa bufsize m c x log,
  cstep_g pa bufsize m c = Ok (x, log) -> image_step_ok (mk_item auto m c x log).
Proof.
  intros auto pa bufsize m c x log H. unfold image_step_ok, mk_item. cbn [it_cb it_pre it_post it_m].
  split; [|intro j; apply images_take].
  pose proof (cstep_erase pa bufsize m c) as He. rewrite H in He. cbn [drop_log] in He. symmetry in He.
  destruct c as [now hp|a t|a| |h|h q|s]; cbn [cstep] in He.
  - destruct (dp_transmit pa bufsize m now hp) as [[m1 o]| |] eqn:Ht; cbn [bind] in He; try discriminate He.
    inversion He; subst x. cbn [fst]. apply (tx_images _ _ _ _ _ _ _ Ht).
  - destruct (dp_receive_reply m a t) as [m1| |] eqn:Hr; cbn [bind] in He; try discriminate He.
    inversion He; subst x. cbn [fst].
    destruct (reply_effect _ _ _ _ Hr) as (i & r & p & p' & Hpr & Hs & Ha & Hs' & Hoth & Hq & Hi & _).
    exists i, r, p. split; [exact Hpr|]. split; [exact Hs|]. split; [exact Ha|]. split.
    + intros j Hj. unfold images, slot. rewrite (Hoth _ Hj). reflexivity.
    + unfold images. rewrite Hs', Hi, Hq. reflexivity.
  - cbn in He. inversion He; subst x. intro j; reflexivity.
  - cbn in He. inversion He; subst x. intro j; reflexivity.
  - unfold dp_request_diagnostics, dp_update in He.
    destruct (dp_get_mut m h) as [p| |] eqn:Hg; cbn [bind] in He; try discriminate He.
    inversion He; subst x. cbn [fst]. intro j. eapply images_put; [apply dp_get_mut_slot; exact Hg| |]; reflexivity.
  - unfold dp_write_q in He.
    destruct (dp_get_mut m h) as [p| |] eqn:Hg; cbn [bind] in He; try discriminate He.
    unfold copy_from_slice in He. destruct (Nat.eqb (length (pe_pi_q p)) (length q)) eqn:Hl; cbn [bind] in He;
      try discriminate He.
    inversion He; subst x. cbn [fst]. pose proof (dp_get_mut_slot _ _ _ Hg) as Hs.
    exists p. split; [exact Hs|]. split; [symmetry; apply Nat.eqb_eq; exact Hl|]. split.
    + intros j Hj. unfold images. rewrite slot_put_other by (intro E; subst; now elim Hj). reflexivity.
    + unfold images. rewrite (slot_put_same _ _ (set_pi_q p q) _ Hs). reflexivity.
  - inversion He; subst x. intro j; reflexivity.
Qed.

Theorem images_history : forall auto pa bufsize m0 cbs tr,
  run_g auto pa bufsize m0 cbs = Ok tr -> Forall image_step_ok tr.
Proof.
  intros auto pa bufsize m0 cbs tr H.
  destruct (liftP auto pa bufsize (fun _ => True) image_step_ok
              (fun m c x log _ Hc => conj (image_step auto pa bufsize m c x log Hc) I) cbs m0 tr I H) as [HF _].
  exact HF.
Qed.

(* ------------------------------------------------------------------ C04_pi_q_user_writes *)

(* monitor state qs: per slot the output image as the USER last wrote it (initially what the peripheral was
   constructed with).  Every Data_Exchange request (no DSAP) in the log must carry exactly qs of its slot when
   the master is in Operate at the time of the transmit callback, and zeros of that length otherwise
   (Clear).  A successful user write updates qs. *)
Definition updq (f : nat -> bytes) (i : nat) (q : bytes) : nat -> bytes :=
  fun j => if Nat.eqb j i then q else f j.

Definition is_dx_req (h : header) : bool := match h_dsap h with None => true | Some _ => false end.

Definition q_entry (op : opstate) (qs : nat -> bytes) (e : gent) : bool :=
  match e with
  | GSend i _ _ h pdu =>
      if is_dx_req h
      then bytes_eqb pdu (if opstate_eqb op OpOperate then qs i else repeat 0 (length (qs i)))
      else true
  | _ => true
  end.

Definition q_item (qs : nat -> bytes) (it : item) : option (nat -> bytes) :=
  if forallb (q_entry (dm_op (it_pre it)) qs) (it_log it)
  then Some (match it_cb it with CWriteQ h q => updq qs (hd_index h) q | _ => qs end)
  else None.

Definition q_inv (m : dpm) (qs : nat -> bytes) : Prop := forall i p, slot m i = Some p -> pe_pi_q p = qs i.

Lemma bytes_eqb_refl : forall b, bytes_eqb b b = true.
Proof. induction b as [|x b IH]; [reflexivity|]. cbn. rewrite Z.eqb_refl, IH. reflexivity. Qed.

Lemma q_inv_put : forall m qs i p p1,
  q_inv m qs -> slot m i = Some p -> pe_pi_q p1 = pe_pi_q p -> q_inv (set_slots m (put_slot (dm_slots m) i p1)) qs.
Proof.
  intros m qs i p p1 HI Hs Hq j q Hj. destruct (Nat.eq_dec i j) as [->|Hne].
  - rewrite (slot_put_same _ _ p1 _ Hs) in Hj. inversion Hj; subst. rewrite Hq. apply HI. exact Hs.
  - rewrite slot_put_other in Hj by exact Hne. apply HI. exact Hj.
Qed.

Lemma q_inv_slots : forall m m' qs, dm_slots m' = dm_slots m -> q_inv m qs -> q_inv m' qs.
Proof. intros m m' qs H HI i p Hs. apply HI. unfold slot in *. rewrite <- H. exact Hs. Qed.

Lemma tx_rel_q : forall pa bufsize m m' o log,
  tx_rel pa bufsize m m' o log -> forall qs, q_inv m qs ->
  forallb (q_entry (dm_op m) qs) log = true /\ q_inv m' qs.
Proof.
  intros pa bufsize m m' o log H. induction H as
    [m Hc|m index Hc Hg|m index hd p p1 h pdu o Hc Hg Hp Hs|m index hd p p1 ev m2 Hc Hg Hp Hi
    |m index hd p p1 e m2 Hc Hg Hp Hi|m index hd p p1 m2 m' o log Hc Hg Hp Hi Hrel IH]; intros qs HI.
  - split; [reflexivity|]. eapply q_inv_slots; [|exact HI]. reflexivity.
  - split; [reflexivity|]. eapply q_inv_slots; [|exact HI]. reflexivity.
  - destruct (cur_slot _ _ _ _ Hc Hg) as (r & Hr & Hsl & _).
    destruct (transmit_keeps _ _ _ _ _ Hp) as (_ & _ & Hq & _).
    split.
    + cbn [forallb q_entry]. rewrite Bool.andb_true_r. unfold is_dx_req.
      destruct (h_dsap h) as [d|] eqn:Hd; [reflexivity|].
      destruct (dx_request_only_when_ready _ _ _ _ _ _ Hp Hd) as (_ & _ & _ & ->).
      rewrite (HI _ _ Hsl). apply bytes_eqb_refl.
    + eapply q_inv_slots; [|eapply q_inv_put; eassumption]. reflexivity.
  - destruct (cur_slot _ _ _ _ Hc Hg) as (r & Hr & Hsl & _).
    destruct (transmit_keeps _ _ _ _ _ Hp) as (_ & _ & Hq & _).
    destruct (put_cur_facts m hd p p1 Hsl) as (_ & Hcy & Hpr & _). rewrite Hc in Hcy. rewrite Hr in Hpr.
    destruct (increment_pos _ _ _ _ _ _ Hcy Hpr Hi) as (Hsl2 & _).
    split; [reflexivity|]. eapply q_inv_slots; [|eapply q_inv_put; eassumption]. cbn. exact Hsl2.
  - destruct (cur_slot _ _ _ _ Hc Hg) as (r & Hr & Hsl & _).
    destruct (transmit_keeps _ _ _ _ _ Hp) as (_ & _ & Hq & _).
    destruct (put_cur_facts m hd p p1 Hsl) as (_ & Hcy & Hpr & _). rewrite Hc in Hcy. rewrite Hr in Hpr.
    destruct (increment_pos _ _ _ _ _ _ Hcy Hpr Hi) as (Hsl2 & _).
    split; [reflexivity|]. eapply q_inv_slots; [|eapply q_inv_put; eassumption]. cbn. exact Hsl2.
  - destruct (cur_slot _ _ _ _ Hc Hg) as (r & Hr & Hsl & _).
    destruct (transmit_keeps _ _ _ _ _ Hp) as (_ & _ & Hq & _).
    destruct (put_cur_facts m hd p p1 Hsl) as (_ & Hcy & Hpr & _). rewrite Hc in Hcy. rewrite Hr in Hpr.
    destruct (increment_pos _ _ _ _ _ _ Hcy Hpr Hi) as (Hsl2 & Hop2 & _).
    assert (HI2 : q_inv m2 qs) by (eapply q_inv_slots; [|eapply q_inv_put; eassumption]; exact Hsl2).
    destruct (IH qs HI2) as [Hall HI']. rewrite Hop2 in Hall. cbn [dm_op put_cur set_slots] in Hall.
    split; [cbn [forallb q_entry]; exact Hall|exact HI'].
Qed.

Lemma q_inv_take : forall auto c m qs, q_inv m qs -> q_inv (fst (auto_take_m auto c m)) qs.
Proof. intros auto c m qs H. unfold auto_take_m. destruct (auto && is_bus c); exact H. Qed.

Lemma q_step : forall auto pa bufsize m qs c x log,
  q_inv m qs -> cstep_g pa bufsize m c = Ok (x, log) ->
  exists qs', q_item qs (mk_item auto m c x log) = Some qs' /\ q_inv (it_m (mk_item auto m c x log)) qs'.
Proof.
  intros auto pa bufsize m qs c x log HI H. unfold q_item, mk_item. cbn [it_cb it_log it_pre it_m].
  destruct c as [now hp|a t|a| |h|h q|s].
  - destruct (cstep_tx _ _ _ _ _ _ _ H) as (o & _ & Hg).
    destruct (dp_transmit_g_cases _ _ _ _ _ _ _ _ Hg) as
      [(_ & Hm & _ & ->)|[(_ & _ & _ & Hm & -> & _)|(_ & _ & Hrel)]].
    + exists qs. split; [reflexivity|]. apply q_inv_take. rewrite Hm. exact HI.
    + exists qs. split; [reflexivity|]. apply q_inv_take. rewrite Hm. exact HI.
    + destruct (tx_rel_q _ _ _ _ _ _ Hrel qs HI) as [Hall HI']. rewrite Hall.
      exists qs. split; [reflexivity|]. apply q_inv_take. exact HI'.
  - destruct (cstep_rx _ _ _ _ _ _ _ H) as (_ & Hg).
    destruct (rx_cases _ _ _ _ _ Hg) as (index & hd & p & p1 & ev & m2 & cc & Hc & Hgi & _ & Hrx & Hi & Hm & ->).
    destruct (cur_slot _ _ _ _ Hc Hgi) as (r & Hr & Hsl & _).
    destruct (put_cur_facts m hd p p1 Hsl) as (_ & Hcy & Hpr & _). rewrite Hc in Hcy. rewrite Hr in Hpr.
    destruct (increment_pos _ _ _ _ _ _ Hcy Hpr Hi) as (Hsl2 & _).
    destruct (reply_event_iff _ _ _ _ Hrx) as (_ & _ & Hq).
    exists qs. split; [reflexivity|]. apply q_inv_take. rewrite Hm.
    eapply q_inv_slots; [|eapply q_inv_put; eassumption]. cbn. exact Hsl2.
  - destruct (other_cases_exact _ _ _ _ _ _ H) as (-> & -> & _).
    exists qs. split; [reflexivity|]. apply q_inv_take. exact HI.
  - destruct (other_cases_exact _ _ _ _ _ _ H) as (-> & -> & _).
    exists qs. split; [reflexivity|]. apply q_inv_take. exact HI.
  - destruct (other_cases_exact _ _ _ _ _ _ H) as (-> & _ & _). cbn [forallb].
    exists qs. split; [reflexivity|]. apply q_inv_take.
    cbn [cstep_g cstep] in H. unfold dp_request_diagnostics, dp_update in H.
    destruct (dp_get_mut m h) as [p| |] eqn:Hg; cbn [bind] in H; try discriminate H.
    inversion H; subst x. cbn [fst]. eapply q_inv_put; [exact HI|apply dp_get_mut_slot; exact Hg|reflexivity].
  - destruct (other_cases_exact _ _ _ _ _ _ H) as (-> & _ & _). cbn [forallb].
    eexists. split; [reflexivity|]. apply q_inv_take.
    cbn [cstep_g cstep] in H. unfold dp_write_q in H.
    destruct (dp_get_mut m h) as [p| |] eqn:Hg; cbn [bind] in H; try discriminate H.
    unfold copy_from_slice in H. destruct (Nat.eqb (length (pe_pi_q p)) (length q)); cbn [bind] in H; try discriminate H.
    inversion H; subst x. cbn [fst]. pose proof (dp_get_mut_slot _ _ _ Hg) as Hs.
    intros j p' Hj. unfold updq. destruct (Nat.eqb j (hd_index h)) eqn:E.
    + apply Nat.eqb_eq in E. subst j. rewrite (slot_put_same _ _ (set_pi_q p q) _ Hs) in Hj. inversion Hj; reflexivity.
    + apply Nat.eqb_neq in E. rewrite slot_put_other in Hj by (intro; subst; now elim E). apply HI. exact Hj.
  - destruct (other_cases_exact _ _ _ _ _ _ H) as (-> & -> & _).
    exists qs. split; [reflexivity|]. apply q_inv_take. eapply q_inv_slots; [|exact HI]. reflexivity.
Qed.

Theorem pi_q_history : forall auto pa bufsize m0 qs0 cbs tr,
  q_inv m0 qs0 -> run_g auto pa bufsize m0 cbs = Ok tr ->
  accepts (nat -> bytes) q_inv q_item qs0 m0 tr.
Proof.
  intros auto pa bufsize m0 qs0 cbs tr HI H.
  eapply (lift auto pa bufsize); [|exact HI|exact H].
  intros m s c x log HI' Hc. eapply q_step; eassumption.
Qed.

(* the initial shadow: what the peripherals hold *)
Definition q_of (m : dpm) : nat -> bytes := fun i => match slot m i with Some p => pe_pi_q p | None => [] end.
Lemma q_inv_init : forall m, q_inv m (q_of m).
Proof. intros m i p H. unfold q_of. rewrite H. reflexivity. Qed.

(* ------------------------------------------------------------------ C04_end_to_end *)

(* the DP master as an application of the FDL station model *)
Definition dp_app_ops (bufsize : nat) : app_ops dpm :=
  mkAppOps dpm
    (fun m now pa hp => dp_transmit pa bufsize m now hp)
    (fun m now pa addr t => dp_receive_reply m addr t)
    (fun m now pa addr => dp_handle_timeout m addr).

Lemma reply_ok_admissible : forall own a t, reply_ok own a t <-> admissible own a t = true.
Proof.
  intros own a t. unfold reply_ok. destruct t as [h pdu|da sa|]; cbn [admissible].
  - split.
    + intros [E|(h' & pdu' & st & s & E & Hfc & Hsa & Hda)]; [discriminate E|]. inversion E; subst h' pdu'.
      rewrite Hfc. apply andb_true_iff. split; [|reflexivity]. apply andb_true_iff. split; apply Z.eqb_eq; assumption.
    + intro H. right. apply andb_true_iff in H. destruct H as [H Hfc]. apply andb_true_iff in H. destruct H as [Hs Hd].
      apply Z.eqb_eq in Hs. apply Z.eqb_eq in Hd. destruct (h_fc h) as [|st s] eqn:E; [discriminate Hfc|].
      exists h, pdu, st, s. repeat split; assumption.
  - split; [intros [E|(h & pdu & st & s & E & _)]; discriminate E|intro E; discriminate E].
  - split; [reflexivity|intros _; left; reflexivity].
Qed.

(* whatever arrives on the bus (pin: any receive buffer contents, any time, any station state f): what the
   FDL hands to a DP master's receive_reply is admissible -- a short confirmation or a response from the
   addressed station to this master; a telegram from the wrong source / to another destination / a request /
   a token never reaches receive_reply *)
Theorem end_to_end : forall bufsize (f : fdl) (now : Z) (pin : phy_in) (apps : list dpm)
    (f' : fdl) (o : phy_out) (apps' : list dpm) (calls : list call) (i : nat) (a : Z) (t : telegram),
  poll (dp_app_ops bufsize) f now pin apps = Ok (f', o, apps', calls) ->
  In (CallReceiveReply i a t) calls -> admissible (ts f) a t = true.
Proof.
  intros bufsize f now pin apps f' o apps' calls i a t H Hin.
  apply reply_ok_admissible. eapply poll_reply_shape; eassumption.
Qed.

(* the composition: a reply the FDL delivers to a DP master that is waiting for it (safe_inv: the invariant
   of contract-respecting histories, C14_contract_safe) is processed without panic and with the effect
   reply_spec *)
Theorem end_to_end_effect : forall bufsize (f : fdl) (now : Z) (pin : phy_in) (apps : list dpm)
    (f' : fdl) (o : phy_out) (apps' : list dpm) (calls : list call) (i : nat) (a : Z) (t : telegram),
  poll (dp_app_ops bufsize) f now pin apps = Ok (f', o, apps', calls) ->
  In (CallReceiveReply i a t) calls ->
  forall m, safe_inv m (Some a) -> exists m', dp_receive_reply m a t = Ok m' /\ reply_spec m a t m'.
Proof.
  intros bufsize f now pin apps f' o apps' calls i a t H Hin m Hs.
  pose proof (end_to_end _ _ _ _ _ _ _ _ _ _ _ _ H Hin) as Ha.
  destruct (reply_total m a t (ts f) Hs Ha) as (m' & Hm). exists m'. split; [exact Hm|].
  apply reply_effect. exact Hm.
Qed.
