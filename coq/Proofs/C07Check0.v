(* C07: the complete check of the finite control space, part 0 (ready delay 0); see C07Proofs.v *)
From PB Require Import C07Abs.
Lemma chk_fixes_0 : chk_fixes (fixes_d 0) = true.
Proof. vm_cast_no_check (eq_refl true). Qed.
