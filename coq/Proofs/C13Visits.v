(* C13 - extraction of token visits from a station's history, and the station-local part of visit_ok.

   visits_of h reads the visits of ONE station off a history of `run` (C15Proofs): for every visit the
   previous token time (last_token_time when the visit begins), the token time, the deadline, the rounds
   in which applications were asked (time of the poll, high_prio_only) and the time of the poll in which
   the station passed the token on (None: the visit is still open, or it was cut short - the token was
   given up while waiting for a reply, or the station went offline).

   station_visits_ok: for histories of a newly created station with strictly increasing poll times, every
   extracted visit satisfies sv_ok - per round exactly hold_ok of C13Proofs (C13_hold_rule), the deadline
   is one number per visit and at most previous token time + TTR (deadline_ok), arrival <= rounds <=
   release.  visits_linked: the previous token time of a visit is the token time of the visit before it,
   unless the station was re-created in between (then 0).

   So the per-station hypotheses hold_ok / deadline_ok of C13_rotation_bound_conditional, and the second
   half of ring_run, are THEOREMS about model stations (rotation_bound_stations below); what remains
   assumed are the ring hypotheses: which station's visit follows which, the token arrival chain, and the
   timing bounds C (message cycle) and O (hand-over). *)
From Coq Require Import Arith.
From PB Require Import Common Tables FdlTables Telegram Phy TokenRing Params Fdl FdlProofs FdlStepProofs C01Proofs C15Proofs C13Proofs.
From PB Require Import Rotation RotationBound.
From PB Require Import FdlOracleSound2 C15Liveness.

(* ------------------------------------------------------------------------------------------ *)
(* the extraction                                                                              *)

Record svisit : Set := mkSv {
  sv_prev : Z;                       (* last_token_time when the visit began *)
  sv_arrival : Z;                    (* token_time of the visit *)
  sv_end_tht : Z;                    (* end_token_hold_time seen at the first round; without a round:
                                        previous token time + TTR (the deadline without GAP reserve) *)
  sv_rounds : list (Z * bool);       (* polls in which applications were asked: (now, high_prio_only) *)
  sv_release : option Z              (* the poll in which the token was passed on *)
}.

Record xst : Set := mkX {
  x_open : option svisit;            (* the visit the station is in *)
  x_cur : option bool;               (* priority of the transmit callbacks of the current poll, if any *)
  x_done : list svisit               (* closed visits, latest first *)
}.

Definition x_init : xst := mkX None None [].

Definition tk_of (s : state) : option Z :=
  match s with UseToken tk _ _ | AwaitDataResponse _ tk _ => Some tk | _ => None end.

Definition add_round (v : svisit) (now : Z) (cur : option bool) (e : Z) : svisit :=
  match cur with
  | Some hp => mkSv (sv_prev v) (sv_arrival v) (match sv_rounds v with [] => e | _ => sv_end_tht v end)
                    (sv_rounds v ++ [(now, hp)]) (sv_release v)
  | None => v
  end.

Definition close (v : svisit) (r : option Z) : svisit :=
  mkSv (sv_prev v) (sv_arrival v) (sv_end_tht v) (sv_rounds v) r.

Definition fresh (f : fdl) (tk : Z) : svisit :=
  mkSv (f_last_token_time f) tk (f_last_token_time f + token_rotation_time (f_p f)) [] None.

Definition xpost (s : xst) (x : hitem) : xst :=
  match x with
  | HCall (CallTransmit _ hp _) => mkX (x_open s) (match x_cur s with None => Some hp | c => c end) (x_done s)
  | HCall _ => s
  | HEnd now f =>
      match x_open s with
      | Some v =>
          let v1 := add_round v now (x_cur s) (f_end_tht f) in
          match tk_of (f_state f) with
          | Some tk =>
              if tk =? sv_arrival v then mkX (Some v1) None (x_done s)
              else (* the station passed the token to itself in this poll: its next visit *)
                   mkX (Some (fresh f tk)) None (close v1 (Some now) :: x_done s)
          | None => mkX None None (close v1 (if pass_kind (kind_of (f_state f)) then Some now else None) :: x_done s)
          end
      | None =>
          match tk_of (f_state f) with
          | Some tk => mkX (Some (fresh f tk)) None (x_done s)
          | None => mkX None None (x_done s)
          end
      end
  | HReset => mkX None None (match x_open s with Some v => close v None :: x_done s | None => x_done s end)
  end.

Definition x_all (s : xst) : list svisit :=
  rev (match x_open s with Some v => v :: x_done s | None => x_done s end).

(* the visits of a history, in order; the last one may still be open *)
Definition visits_of (h : list hitem) : list svisit := x_all (fold_left xpost h x_init).

(* what holds of every extracted visit *)
Definition sv_ok (TTR : Z) (v : svisit) : Prop :=
  sv_prev v < sv_arrival v /\
  (forall j now hp, nth_error (sv_rounds v) j = Some (now, hp) ->
     sv_arrival v <= now /\ if hp : bool then j = 0%nat /\ sv_end_tht v <= now else now < sv_end_tht v) /\
  sv_end_tht v <= sv_prev v + TTR /\
  (forall r, sv_release v = Some r -> sv_arrival v <= r /\ forall now hp, In (now, hp) (sv_rounds v) -> now <= r).

(* the visit record of C13Proofs from an extracted visit that was completed, given the arrival of the
   token at the next station *)
Definition to_visit (v : svisit) (next : Z) : visit :=
  mkVisit (sv_prev v) (sv_arrival v) (sv_end_tht v) (sv_rounds v)
          (match sv_release v with Some r => r | None => sv_arrival v end) next.

Lemma sv_ok_hold TTR v next : sv_ok TTR v -> hold_ok (to_visit v next) /\ deadline_ok TTR (to_visit v next).
Proof.
  intros (_ & Hr & Hd & _). split; [|exact Hd].
  intros j now hp Hn. exact (proj2 (Hr j now hp Hn)).
Qed.

(* poll times of a sequence of events: strictly increasing *)
Fixpoint mono {A : Type} (tl : Z) (evs : list (event A)) : Prop :=
  match evs with
  | [] => True
  | EvPoll _ now _ :: r => tl < now /\ mono now r
  | _ :: r => mono tl r
  end.

Section Apps.
Variable A : Type.
Variable ops : app_ops A.
Notation W := (world A).

(* ------------------------------------------------------------------------------------------ *)
(* what a poll inside a visit does to last_token_time and the deadline                          *)

Definition reserve_of (p : params) (r : Z) : Prop :=
  r = 0 \/ r = p_bits_to_time p (p_slot_bits p + gap_reserve_extra_bits).

Lemma gap_reserve_is f : reserve_of (f_p f) (gap_reserve f).
Proof. unfold reserve_of, gap_reserve. destruct (f_gap f); [left|right]; reflexivity. Qed.

Lemma use_deadline f now (w : W) f' w' tk fa fcd :
  do_use_token A ops f now w = Ok (f', w') -> f_state f = UseToken tk fa fcd ->
  (f_last_token_time f' = f_last_token_time f /\ f_end_tht f' = f_end_tht f /\ f_last_token_time f = tk) \/
  (f_last_token_time f <> tk /\ f_last_token_time f' = tk /\
   exists r, reserve_of (f_p f) r /\ f_end_tht f' = f_last_token_time f + token_rotation_time (f_p f) - r).
Proof.
  intros H Es. destruct (do_use_token_state A ops _ _ _ _ _ _ _ _ H Es) as (_ & Hd & _).
  destruct (Z.eqb_spec (f_last_token_time f) tk) as [El|El].
  - left. destruct Hd as (D1 & D2). tauto.
  - right. destruct Hd as (D1 & D2). split; [exact El|]. split; [exact D1|]. exists (gap_reserve f). split; [apply gap_reserve_is|exact D2].
Qed.

(* a poll that begins in a visit with token time tk: the two fields are kept, or the deadline of the
   visit is computed now from the previous token time *)
Lemma visit_deadline f now pin (apps : list A) f' o apps' calls tk :
  poll ops f now pin apps = Ok (f', o, apps', calls) -> tk_of (f_state f) = Some tk ->
  (f_last_token_time f' = f_last_token_time f /\ f_end_tht f' = f_end_tht f) \/
  is_reset f' \/
  (f_last_token_time f <> tk /\ f_last_token_time f' = tk /\
   exists r, reserve_of (f_p f) r /\ f_end_tht f' = f_last_token_time f + token_rotation_time (f_p f) - r).
Proof.
  intros H Htk. apply poll_calls_cases in H.
  destruct H as [(_ & _ & _ & [R|(Kf & _)])|(f3 & w3 & w' & Kf3 & Hs3 & _ & _ & _ & _ & [Hd|Hd])].
  - right. left. exact R.
  - left. destruct Kf as (_ & _ & Kl & Ke). split; assumption.
  - destruct Kf3 as (Kp & _ & Kl & Ke).
    assert (Hd' := Hd). unfold do_use_token, assert_entry in Hd'.
    destruct (f_state f3) as [ | | | |tk3 fa fcd| | | | | ] eqn:Es3; cbn [kind_of do_fn_entry state_kind_eqb bind] in Hd'; try discriminate Hd'.
    clear Hd'. rewrite <- Hs3 in Htk. cbn in Htk. injection Htk as <-.
    destruct (use_deadline _ _ _ _ _ _ _ _ Hd Es3) as [(D1 & D2 & _)|(D0 & D1 & r & Hr & D2)].
    + left. split; congruence.
    + right. right. rewrite Kl, Kp in *. split; [exact D0|]. split; [exact D1|]. exists r. split; assumption.
  - destruct Kf3 as (Kp & _ & Kl & Ke).
    apply do_await_data_response_split in Hd.
    destruct Hd as (a & tk3 & fa & app & Es & _ & Hcases).
    rewrite <- Hs3, Es in Htk. cbn in Htk. injection Htk as <-.
    destruct Hcases as [(t' & app' & _ & _ & _ & _ & Kf & _)|[(_ & Kf & _)|[(_ & Kf & _)|(app' & f4 & w4 & _ & _ & _ & Kf4 & Es4 & Hdo)]]].
    + left. destruct Kf as (_ & _ & Kl' & Ke'). split; congruence.
    + left. destruct Kf as (_ & _ & Kl' & Ke'). split; congruence.
    + left. destruct Kf as (_ & _ & Kl' & Ke'). split; congruence.
    + destruct Kf4 as (Kp4 & _ & Kl4 & Ke4).
      destruct (use_deadline _ _ _ _ _ _ _ _ Hdo Es4) as [(D1 & D2 & _)|(D0 & D1 & r & Hr & D2)].
      * left. split; congruence.
      * right. right. rewrite Kl4, Kl, Kp4, Kp in *. split; [exact D0|]. split; [exact D1|]. exists r. split; assumption.
Qed.

(* ------------------------------------------------------------------------------------------ *)
(* the invariant                                                                               *)

Section Inv.
Variable p : params.
Hypothesis Hslot : 0 <= p_slot_bits p.
Let TTR := token_rotation_time p.

Lemma reserve_nonneg r : reserve_of p r -> 0 <= r.
Proof.
  intros [-> | ->]; [lia|]. unfold p_bits_to_time. apply btt_nonneg. unfold gap_reserve_extra_bits. lia.
Qed.

Definition rounds_ok (v : svisit) : Prop :=
  forall j now hp, nth_error (sv_rounds v) j = Some (now, hp) ->
    sv_arrival v <= now /\ if hp : bool then j = 0%nat /\ sv_end_tht v <= now else now < sv_end_tht v.

(* what is known of an open visit from the history alone ... *)
Definition vstat (tl : Z) (v : svisit) : Prop :=
  sv_prev v < sv_arrival v /\ sv_arrival v <= tl /\ sv_release v = None /\ rounds_ok v /\
  (forall now hp, In (now, hp) (sv_rounds v) -> now <= tl) /\ sv_end_tht v <= sv_prev v + TTR.

(* ... and its link to the station: before the first do_use_token of the visit last_token_time is still the
   previous token time; afterwards it is the token time of the visit and the deadline is computed; once
   applications have been asked the deadline is the recorded one and first_cycle_done is set *)
Definition vdyn (f : fdl) (v : svisit) : Prop :=
  ((sv_rounds v = [] /\
    (f_last_token_time f = sv_prev v \/
     (f_last_token_time f = sv_arrival v /\ f_end_tht f <= sv_prev v + TTR))) \/
   (sv_rounds v <> [] /\ f_last_token_time f = sv_arrival v /\ f_end_tht f = sv_end_tht v)) /\
  (sv_rounds v <> [] -> forall tk' fa fcd, f_state f = UseToken tk' fa fcd -> fcd = true).

Definition InvX (f : fdl) (tl : Z) (s : xst) : Prop :=
  f_p f = p /\ 0 <= tl /\ Forall (sv_ok TTR) (x_done s) /\ x_cur s = None /\ f_last_token_time f <= tl /\
  match x_open s, tk_of (f_state f) with
  | Some v, Some tk => sv_arrival v = tk /\ vstat tl v /\ vdyn f v
  | None, None => True
  | _, _ => False
  end.

Lemma vstat_mono tl tl' v : vstat tl v -> tl <= tl' -> vstat tl' v.
Proof.
  intros (H1 & H2 & H3 & H4 & H5 & H6) Hle. split; [exact H1|]. split; [lia|]. split; [exact H3|]. split; [exact H4|].
  split; [|exact H6]. intros now hp Hin. specialize (H5 _ _ Hin). lia.
Qed.

Lemma vstat_close tl v r : vstat tl v -> (r = None \/ exists t, r = Some t /\ tl <= t) -> sv_ok TTR (close v r).
Proof.
  intros (H1 & H2 & H3 & H4 & H5 & H6) Hr. split; [exact H1|]. split; [exact H4|]. split; [exact H6|].
  cbn [close sv_release sv_arrival sv_rounds]. intros r0 E. destruct Hr as [-> |(t & -> & Ht)]; [discriminate E|]. injection E as <-.
  split; [lia|]. intros now hp Hin. specialize (H5 _ _ Hin). lia.
Qed.

Lemma vstat_open tl v : vstat tl v -> sv_ok TTR v.
Proof.
  intros (H1 & H2 & H3 & H4 & H5 & H6). split; [exact H1|]. split; [exact H4|]. split; [exact H6|].
  intros r E. rewrite H3 in E. discriminate E.
Qed.

Lemma fresh_ok f tl now : f_p f = p -> f_last_token_time f <= tl -> tl < now ->
  vstat now (fresh f now) /\ vdyn f (fresh f now).
Proof.
  intros Hp Hl Hlt. unfold fresh, vstat, vdyn, rounds_ok. cbn. rewrite Hp. fold TTR. split.
  - split; [lia|]. split; [lia|]. split; [reflexivity|]. split; [intros [|j] ? ? C; discriminate C|].
    split; [intros ? ? []|lia].
  - split; [left; split; [reflexivity|left; reflexivity]|]. intros C. contradiction C. reflexivity.
Qed.

(* the transmit callbacks of one poll are of one priority class: what x_cur is after them *)
Lemma xcalls hp : forall l s, Forall (prio_of hp) l -> (x_cur s = None \/ x_cur s = Some hp) ->
  let s' := fold_left xpost (map HCall l) s in
  x_open s' = x_open s /\ x_done s' = x_done s /\
  ((x_cur s' = Some hp /\ (asks l \/ x_cur s = Some hp)) \/ (x_cur s' = None /\ ~ asks l /\ x_cur s = None)).
Proof.
  induction l as [|c l IH]; intros s Hf Hc; cbn [map fold_left].
  - split; [reflexivity|]. split; [reflexivity|]. destruct Hc as [Hc|Hc]; [right; split; [exact Hc|split; [apply asks_nil|exact Hc]]|left; split; [exact Hc|right; exact Hc]].
  - inversion Hf as [|c' l' Hc0 Hl]; subst.
    destruct c as [i hp' r|i a t|i a]; cbn [xpost].
    + cbn in Hc0. subst hp'.
      destruct (IH (mkX (x_open s) (match x_cur s with None => Some hp | c => c end) (x_done s)) Hl) as (H1 & H2 & H3).
      { right. cbn. destruct Hc as [-> | ->]; reflexivity. }
      cbn in H1, H2. split; [exact H1|]. split; [exact H2|]. left.
      destruct H3 as [(E & _)|(_ & _ & C)].
      * split; [exact E|]. left. exists i, hp, r. left. reflexivity.
      * cbn in C. destruct (x_cur s); discriminate C.
    + destruct (IH s Hl Hc) as (H1 & H2 & H3). split; [exact H1|]. split; [exact H2|].
      destruct H3 as [(E & [(j & hq & r & Hin)|C])|(E & Hn & C)].
      * left. split; [exact E|]. left. exists j, hq, r. right. exact Hin.
      * left. split; [exact E|]. right. exact C.
      * right. split; [exact E|]. split; [|exact C]. intros (j & hq & r & [D|Hin]); [discriminate D|]. apply Hn. exists j, hq, r. exact Hin.
    + destruct (IH s Hl Hc) as (H1 & H2 & H3). split; [exact H1|]. split; [exact H2|].
      destruct H3 as [(E & [(j & hq & r & Hin)|C])|(E & Hn & C)].
      * left. split; [exact E|]. left. exists j, hq, r. right. exact Hin.
      * left. split; [exact E|]. right. exact C.
      * right. split; [exact E|]. split; [|exact C]. intros (j & hq & r & [D|Hin]); [discriminate D|]. apply Hn. exists j, hq, r. exact Hin.
Qed.

Definition ev_time (tl : Z) (e : event A) : Z := match e with EvPoll _ now _ => now | _ => tl end.

Lemma nth_error_snoc {X} (l : list X) x j y : nth_error (l ++ [x]) j = Some y ->
  (nth_error l j = Some y /\ (j < length l)%nat) \/ (j = length l /\ y = x).
Proof.
  intros H. destruct (lt_dec j (length l)) as [L|L].
  - rewrite nth_error_app1 in H by exact L. left. split; assumption.
  - rewrite nth_error_app2 in H by lia. right.
    destruct (j - length l)%nat as [|k] eqn:Ek; cbn in H; [injection H as <-; split; [lia|reflexivity]|destruct k; discriminate H].
Qed.

Lemma step_x f apps e f' apps' h tl s :
  InvX f tl s -> step A ops f apps e = Ok (f', apps', h) -> tl < ev_time (tl + 1) e ->
  InvX f' (ev_time tl e) (fold_left xpost h s).
Proof.
  intros (Hp & Htl & Hdone & Hcur & Hltt & Hopen) H Hlt. destruct e as [now pin| | |g]; cbn [step ev_time] in *.
  - (* a poll *)
    destruct (poll ops f now pin apps) as [[[[f1 o1] a1] calls]| |] eqn:Ep; cbn [bind] in H; try discriminate H.
    injection H as <- _ <-.
    destruct (poll_hold_rule A ops _ _ _ _ _ _ _ _ Ep) as (hp & Hprio & Hrule).
    pose proof (poll_state_cases A ops _ _ _ _ _ _ _ _ Ep) as Hcases.
    assert (Hp1 : f_p f1 = p).
    { destruct Hcases as [(_ & Hq & _)|_]; [congruence|].
      apply poll_calls_cases in Ep. destruct Ep as [(_ & _ & Hq & _)|(f3 & w3 & w' & Kf3 & _ & _ & _ & _ & _ & [Hd|Hd])]; [congruence| |].
      - destruct Kf3 as (Kp & _). assert (Hd' := Hd). unfold do_use_token, assert_entry in Hd'.
        destruct (f_state f3) as [ | | | |tk3 fa fcd| | | | | ] eqn:Es3; cbn [kind_of do_fn_entry state_kind_eqb bind] in Hd'; try discriminate Hd'.
        destruct (do_use_token_state A ops _ _ _ _ _ _ _ _ Hd Es3) as (Q & _). congruence.
      - destruct Kf3 as (Kp & _). apply do_await_data_response_split in Hd.
        destruct Hd as (a & tk3 & fa & app & Es & _ & Hc).
        destruct Hc as [(t' & app' & _ & _ & _ & _ & Kf & _)|[(_ & Kf & _)|[(_ & Kf & _)|(app' & f4 & w4 & _ & _ & _ & Kf4 & Es4 & Hdo)]]];
          try (destruct Kf as (Q & _); congruence).
        destruct Kf4 as (Q4 & _). destruct (do_use_token_state A ops _ _ _ _ _ _ _ _ Hdo Es4) as (Q & _). congruence. }
    rewrite fold_left_app.
    destruct (xcalls hp calls s Hprio (or_introl Hcur)) as (X1 & X2 & X3). cbv zeta in X1, X2, X3.
    set (s1 := fold_left xpost (map HCall calls) s) in *.
    cbn [fold_left xpost]. rewrite X1, X2.
    destruct (x_open s) as [v|] eqn:Eo.
    + (* inside a visit *)
      destruct (tk_of (f_state f)) as [tk|] eqn:Etk; [|contradiction].
      destruct Hopen as (Ha & Hst & Hdy).
      pose proof Hst as (S1 & S2 & S3 & S4 & S5 & S6).
      destruct Hcases as [(Hnil & Hq)|(tk0 & Hfrom & Hto & D1 & D2)].
      * (* nothing the applications can see *)
        assert (Hc1 : x_cur s1 = None).
        { destruct X3 as [(_ & [C|C])|(C & _)]; [rewrite Hnil in C; destruct (asks_nil C)|congruence|exact C]. }
        rewrite Hc1. cbn [add_round].
        destruct Hq as (_ & [R|(Kf & s3 & Hpro & Hqs & Hvis)]).
        -- destruct R as (Rs & _ & _ & Rl & _). unfold InvX. rewrite Rs. cbn [tk_of kind_of pass_kind x_open x_cur x_done].
           split; [exact Hp1|]. split; [lia|]. split; [constructor; [apply (vstat_close tl); [exact Hst|left; reflexivity]|exact Hdone]|].
           split; [reflexivity|]. split; [lia|exact I].
        -- assert (Hin : in_visit (kind_of (f_state f)) = true) by (destruct (f_state f); try discriminate Etk; reflexivity).
           assert (Es3 : s3 = f_state f) by (destruct Hpro as [E|(C & _)]; [exact E|rewrite C in Hin; discriminate Hin]).
           subst s3. unfold InvX. rewrite (Hvis Hin), Etk. rewrite <- Ha, Z.eqb_refl. cbn [x_open x_cur x_done].
           destruct Kf as (_ & _ & Kl & Ke).
           split; [exact Hp1|]. split; [lia|]. split; [exact Hdone|]. split; [reflexivity|]. split; [lia|].
           split; [reflexivity|]. split; [apply (vstat_mono tl); [exact Hst|lia]|].
           unfold vdyn in *. rewrite Kl, Ke, (Hvis Hin). exact Hdy.
      * (* a poll of the visit *)
        assert (Htk0 : tk0 = tk).
        { destruct Hfrom as [(fa & fcd & Es)|(a & fa & Es)]; rewrite Es in Etk; cbn in Etk; congruence. }
        subst tk0.
        assert (Hnr : ~ is_reset f1).
        { intros (Rs & _). destruct Hto as [(E1 & _)|[(E1 & _)|[(fa' & E1)|[(a' & fa' & E1)|E1]]]]; try (rewrite Rs in E1; discriminate E1).
          - rewrite E1 in Rs. destruct Hfrom as [(fa & fcd & Es)|(a & fa & Es)]; rewrite Es in Rs; discriminate Rs.
          - destruct E1 as [E1|E1]; rewrite Rs in E1; discriminate E1. }
        pose proof (visit_deadline _ _ _ _ _ _ _ _ _ Ep Etk) as Hdl.
        assert (Hdl' : (f_last_token_time f1 = f_last_token_time f /\ f_end_tht f1 = f_end_tht f) \/
                       (f_last_token_time f <> tk /\ f_last_token_time f1 = tk /\
                        exists r, 0 <= r /\ f_end_tht f1 = f_last_token_time f + TTR - r)).
        { destruct Hdl as [X|[X|(Y1 & Y2 & r & Hr & Y3)]]; [left; exact X|contradiction|right].
          split; [exact Y1|]. split; [exact Y2|]. exists r. rewrite Hp in *. split; [apply reserve_nonneg; exact Hr|exact Y3]. }
        clear Hdl. subst tk.
        (* the visit record after this poll *)
        set (v1 := add_round v now (x_cur s1) (f_end_tht f1)).
        assert (Hv1 : sv_arrival v1 = sv_arrival v /\ sv_prev v1 = sv_prev v /\ sv_release v1 = None)
          by (unfold v1, add_round; destruct (x_cur s1); cbn; tauto).
        destruct Hv1 as (V1 & V2 & V3).
        destruct Hdy as (Hd1 & Hd2).
        (* when applications were asked: the deadline in force is the recorded one *)
        assert (Hask : x_cur s1 = Some hp -> asks calls) by (intros C; destruct X3 as [(_ & [Y|Y])|(Y & _)]; [exact Y|congruence|congruence]).
        assert (Hround : x_cur s1 = Some hp ->
                  f_last_token_time f1 = sv_arrival v /\ sv_end_tht v1 = f_end_tht f1 /\ f_end_tht f1 <= sv_prev v + TTR /\
                  (if hp then sv_rounds v = [] /\ f_end_tht f1 <= now else now < f_end_tht f1)).
        { intros C. pose proof (Hask C) as Has. pose proof (D2 Has) as L1. specialize (Hrule Has).
          split; [exact L1|].
          assert (He : sv_end_tht v1 = f_end_tht f1 /\ f_end_tht f1 <= sv_prev v + TTR).
          { unfold v1, add_round. rewrite C. cbn [sv_end_tht].
            destruct Hd1 as [(Hr0 & Hl)|(Hr0 & Hl & He)].
            - rewrite Hr0. split; [reflexivity|].
              destruct Hl as [Hl|(Hl & He)].
              + destruct Hdl' as [(Y1 & _)|(_ & _ & r & Hr & Y3)]; [lia|lia].
              + destruct Hdl' as [(_ & Y2)|(Y1 & _)]; [lia|contradiction].
            - destruct (sv_rounds v) as [|x l] eqn:Er; [contradiction Hr0; reflexivity|].
              destruct Hdl' as [(_ & Y2)|(Y1 & _)]; [|contradiction]. split; [congruence|]. lia. }
          destruct He as (He1 & He2). split; [exact He1|]. split; [exact He2|].
          destruct hp; [|exact Hrule]. destruct Hrule as ((tk' & fa & Es) & Hend). split; [|exact Hend].
          destruct (sv_rounds v) as [|x l] eqn:Er; [reflexivity|]. exfalso.
          specialize (Hd2 ltac:(discriminate) _ _ _ Es). discriminate Hd2. }
        assert (Hst1 : vstat now v1).
        { destruct (x_cur s1) as [c|] eqn:Ec.
          - assert (c = hp) by (destruct X3 as [(Y & _)|(Y & _)]; congruence). subst c.
            destruct (Hround eq_refl) as (R1 & R2 & R3 & R4).
            split; [lia|]. split; [lia|]. split; [exact V3|]. split; [|split; [|lia]].
            + intros j t0 h0 Hn. unfold v1, add_round in Hn. cbn [sv_rounds] in Hn.
              apply nth_error_snoc in Hn. destruct Hn as [(Hn & Hj)|(Hj & Hy)].
              * rewrite V1. destruct (sv_rounds v) as [|x l] eqn:Er; [destruct j; discriminate Hn|].
                assert (E1 : sv_end_tht v1 = sv_end_tht v) by (unfold v1, add_round; rewrite Er; reflexivity).
                rewrite E1. rewrite <- Er in Hn. exact (S4 _ _ _ Hn).
              * injection Hy as -> ->. rewrite V1, R2. split; [lia|].
                destruct hp; [|exact R4]. destruct R4 as (R4 & R5). split; [rewrite Hj, R4; reflexivity|exact R5].
            + intros t0 h0 Hin. unfold v1, add_round in Hin. cbn [sv_rounds] in Hin. apply in_app_or in Hin.
              destruct Hin as [Hin|[Hin|[]]]; [specialize (S5 _ _ Hin); lia|injection Hin as <- _; lia].
          - unfold v1, add_round. apply (vstat_mono tl); [exact Hst|lia]. }
        assert (Hdy1 : tk_of (f_state f1) = Some (sv_arrival v) -> vdyn f1 v1).
        { intros Etk1. split.
          - destruct (x_cur s1) as [c|] eqn:Ec.
            + assert (c = hp) by (destruct X3 as [(Y & _)|(Y & _)]; congruence). subst c.
              destruct (Hround eq_refl) as (R1 & R2 & R3 & R4). right. rewrite V1.
              split; [unfold v1, add_round; cbn; destruct (sv_rounds v); discriminate|]. split; [exact R1|symmetry; exact R2].
            + unfold v1, add_round.
              destruct Hd1 as [(Hr0 & Hl)|(Hr0 & Hl & He)].
              * left. split; [exact Hr0|]. destruct Hl as [Hl|(Hl & He)].
                -- destruct Hdl' as [(Y1 & _)|(_ & Y2 & r & Hr & Y3)]; [left; congruence|right; split; [exact Y2|lia]].
                -- destruct Hdl' as [(Y1 & Y2)|(Y1 & _)]; [right; split; [congruence|lia]|contradiction].
              * right. split; [exact Hr0|]. destruct Hdl' as [(Y1 & Y2)|(Y1 & _)]; [split; congruence|contradiction].
          - intros Hne tk' fa fcd Es1.
            destruct Hto as [(E1 & Hc0)|[(E1 & _)|[(fa' & E1)|[(a' & fa' & E1)|E1]]]]; rewrite Es1 in E1; try discriminate E1.
            + (* state unchanged, no calls *)
              assert (Hcn : x_cur s1 = None) by (destruct X3 as [(_ & [C|C])|(C & _)]; [rewrite Hc0 in C; destruct (asks_nil C)|congruence|exact C]).
              unfold v1, add_round in Hne. rewrite Hcn in Hne. exact (Hd2 Hne _ _ _ (eq_sym E1)).
            + injection E1 as _ _ ->. reflexivity.
            + destruct E1 as [E1|E1]; [discriminate E1|]. injection E1 as -> _ _.
              rewrite Es1 in Etk1. cbn in Etk1. injection Etk1 as Etk1. lia. }
        (* where the station is now *)
        unfold InvX. destruct (tk_of (f_state f1)) as [tk1|] eqn:Etk1.
        -- destruct (Z.eqb_spec tk1 (sv_arrival v)) as [Eq|Ne]; cbn [x_open x_cur x_done].
           ++ subst tk1. split; [exact Hp1|]. split; [lia|]. split; [exact Hdone|]. split; [reflexivity|].
              split; [destruct Hdl' as [(Y & _)|(_ & Y & _)]; lia|].
              split; [exact V1|]. split; [exact Hst1|exact (Hdy1 eq_refl)].
           ++ (* the token was passed to the station itself: the next visit has begun *)
              assert (Es1 : f_state f1 = UseToken now None false).
              { destruct Hto as [(E1 & _)|[(E1 & _)|[(fa' & E1)|[(a' & fa' & E1)|E1]]]].
                - rewrite E1, Etk in Etk1. congruence.
                - rewrite E1 in Etk1. discriminate Etk1.
                - rewrite E1 in Etk1. cbn in Etk1. congruence.
                - rewrite E1 in Etk1. cbn in Etk1. congruence.
                - destruct E1 as [E1|E1]; [|exact E1]. destruct (f_state f1); try discriminate E1; discriminate Etk1. }
              rewrite Es1 in Etk1. cbn in Etk1. injection Etk1 as <-.
              assert (Hl1 : f_last_token_time f1 <= tl) by (destruct Hdl' as [(Y & _)|(_ & Y & _)]; lia).
              destruct (fresh_ok f1 tl now Hp1 Hl1 Hlt) as (F1 & F2).
              split; [exact Hp1|]. split; [lia|].
              split; [constructor; [apply (vstat_close now); [exact Hst1|right; exists now; split; [reflexivity|lia]]|exact Hdone]|].
              split; [reflexivity|]. split; [lia|]. split; [reflexivity|]. split; [exact F1|exact F2].
        -- cbn [x_open x_cur x_done]. split; [exact Hp1|]. split; [lia|].
           split; [constructor; [apply (vstat_close now); [exact Hst1|destruct (pass_kind _); [right; exists now; split; [reflexivity|lia]|left; reflexivity]]|exact Hdone]|].
           split; [reflexivity|]. split; [destruct Hdl' as [(Y & _)|(_ & Y & _)]; lia|exact I].
    + (* outside a visit *)
      destruct (tk_of (f_state f)) as [tk|] eqn:Etk; [contradiction|].
      assert (Hnv : in_visit (kind_of (f_state f)) = false) by (destruct (f_state f); try discriminate Etk; reflexivity).
      destruct Hcases as [(Hnil & Hq)|(tk0 & Hfrom & _)].
      * destruct Hq as (_ & [R|(Kf & s3 & Hpro & Hqs & Hvis)]).
        -- destruct R as (Rs & _ & _ & Rl & _). unfold InvX. rewrite Rs. cbn [tk_of x_open x_cur x_done].
           split; [exact Hp1|]. split; [lia|]. split; [exact Hdone|]. split; [reflexivity|]. split; [lia|exact I].
        -- destruct Kf as (_ & _ & Kl & Ke).
           assert (Hs3 : in_visit (kind_of s3) = false).
           { destruct Hpro as [E|(_ & [E|E])]; rewrite E; [exact Hnv|reflexivity|reflexivity]. }
           unfold InvX. destruct (tk_of (f_state f1)) as [tk1|] eqn:Etk1; cbn [x_open x_cur x_done].
           ++ assert (Es1 : f_state f1 = UseToken now None false).
              { destruct (f_state f1) as [ | | | |tk2 fa fcd| |a tk2 fa| | | ] eqn:Es1; try discriminate Etk1; cbn in Hqs.
                - destruct Hqs as [Hqs|Hqs]; [rewrite <- Hqs in Hs3; discriminate Hs3|exact Hqs].
                - rewrite <- Hqs in Hs3. discriminate Hs3. }
              rewrite Es1 in Etk1. cbn in Etk1. injection Etk1 as <-.
              assert (Hl1 : f_last_token_time f1 <= tl) by lia.
              destruct (fresh_ok f1 tl now Hp1 Hl1 Hlt) as (F1 & F2).
              split; [exact Hp1|]. split; [lia|]. split; [exact Hdone|]. split; [reflexivity|]. split; [lia|].
              split; [reflexivity|]. split; [exact F1|exact F2].
           ++ split; [exact Hp1|]. split; [lia|]. split; [exact Hdone|]. split; [reflexivity|]. split; [lia|exact I].
      * exfalso. destruct Hfrom as [(fa & fcd & Es)|(a & fa & Es)]; rewrite Es in Etk; discriminate Etk.
  - (* set_online *)
    unfold set_online, set_state in H. cbn [bind] in H. injection H as <- _ <-. cbn [fold_left].
    split; [exact Hp|]. split; [exact Htl|]. split; [exact Hdone|]. split; [exact Hcur|]. split; [exact Hltt|].
    cbn [set_conn f_state f_last_token_time f_end_tht]. destruct (x_open s) as [v|]; destruct (tk_of (f_state f)); try exact Hopen.
  - (* set_offline *)
    unfold set_offline, set_state in H. destruct (fdl_new (f_p f)) as [f1| |] eqn:En; cbn [bind] in H; try discriminate H.
    injection H as <- _ <-. apply fdl_new_spec in En. destruct En as ((Rs & _ & _ & Rl & _) & Rp).
    cbn [fold_left xpost]. unfold InvX. rewrite Rs. cbn [tk_of x_open x_cur x_done].
    split; [congruence|]. split; [exact Htl|].
    split; [|split; [reflexivity|split; [lia|exact I]]].
    destruct (x_open s) as [v|]; [|exact Hdone]. destruct (tk_of (f_state f)); [|contradiction].
    destruct Hopen as (_ & Hst & _). constructor; [apply (vstat_close tl); [exact Hst|left; reflexivity]|exact Hdone].
  - injection H as <- _ <-. cbn [fold_left]. split; [exact Hp|]. split; [exact Htl|]. split; [exact Hdone|]. split; [exact Hcur|]. split; [exact Hltt|exact Hopen].
Qed.

Lemma run_x : forall evs f apps tl s f' apps' h,
  InvX f tl s -> mono tl evs -> run A ops f apps evs = Ok (f', apps', h) ->
  exists tl', InvX f' tl' (fold_left xpost h s).
Proof.
  induction evs as [|e r IH]; intros f apps tl s f' apps' h HI Hm H; cbn [run] in H.
  - injection H as <- _ <-. exists tl. exact HI.
  - destruct (step A ops f apps e) as [[[f1 apps1] h1]| |] eqn:Es; cbn [bind] in H; try discriminate H.
    destruct (run A ops f1 apps1 r) as [[[f2 apps2] h2]| |] eqn:Er; cbn [bind] in H; try discriminate H.
    injection H as <- _ <-. rewrite fold_left_app.
    assert (Hlt : tl < ev_time (tl + 1) e) by (destruct e; cbn in *; [tauto|lia|lia|lia]).
    pose proof (step_x _ _ _ _ _ _ _ _ HI Es Hlt) as HI1.
    assert (Hm1 : mono (ev_time tl e) r) by (destruct e; cbn in *; tauto).
    exact (IH _ _ _ _ _ _ _ HI1 Hm1 Er).
Qed.

Lemma InvX_all f tl s : InvX f tl s -> Forall (sv_ok TTR) (x_all s).
Proof.
  intros (_ & _ & Hdone & _ & _ & Hopen). unfold x_all. apply Forall_rev.
  destruct (x_open s) as [v|]; [|exact Hdone]. destruct (tk_of (f_state f)); [|contradiction].
  destruct Hopen as (_ & Hst & _). constructor; [exact (vstat_open _ _ Hst)|exact Hdone].
Qed.

End Inv.

(* ------------------------------------------------------------------------------------------ *)
(* the previous token time of a visit is the token time of the visit before it                  *)

(* a visit ends by passing the token only through do_use_token, which has made last_token_time the token
   time of the visit *)
Lemma visit_pass_ltt f now pin (apps : list A) f' o apps' calls tk :
  poll ops f now pin apps = Ok (f', o, apps', calls) -> tk_of (f_state f) = Some tk -> tk <> now ->
  (pass_kind (kind_of (f_state f')) = true \/ f_state f' = UseToken now None false) ->
  f_last_token_time f' = tk.
Proof.
  intros H Htk Hne Hpass.
  assert (Hin : in_visit (kind_of (f_state f)) = true) by (destruct (f_state f); try discriminate Htk; reflexivity).
  assert (Hnot : forall s', tk_of s' = Some tk -> ~ (pass_kind (kind_of s') = true \/ s' = UseToken now None false)).
  { intros s' E [C|C]; [destruct s'; try discriminate E; discriminate C|subst s'; cbn in E; congruence]. }
  apply poll_calls_cases in H.
  destruct H as [(_ & _ & _ & [R|(Kf & s3 & Hpro & Hqs & Hvis)])|(f3 & w3 & w' & Kf3 & Hs3 & _ & _ & _ & _ & [Hd|Hd])].
  - destruct R as (Rs & _). rewrite Rs in Hpass. destruct Hpass as [C|C]; discriminate C.
  - exfalso. assert (Es3 : s3 = f_state f) by (destruct Hpro as [E|(C & _)]; [exact E|rewrite C in Hin; discriminate Hin]).
    subst s3. specialize (Hvis Hin). rewrite Hvis in Hpass. exact (Hnot _ Htk Hpass).
  - assert (Hd' := Hd). unfold do_use_token, assert_entry in Hd'.
    destruct (f_state f3) as [ | | | |tk3 fa fcd| | | | | ] eqn:Es3; cbn [kind_of do_fn_entry state_kind_eqb bind] in Hd'; try discriminate Hd'.
    clear Hd'. rewrite <- Hs3 in Htk. cbn in Htk. injection Htk as <-.
    destruct (use_deadline _ _ _ _ _ _ _ _ Hd Es3) as [(D1 & _ & D3)|(_ & D1 & _)]; congruence.
  - apply do_await_data_response_split in Hd.
    destruct Hd as (a & tk3 & fa & app & Es & _ & Hcases).
    rewrite <- Hs3, Es in Htk. cbn in Htk. injection Htk as <-.
    destruct Hcases as [(t' & app' & _ & _ & _ & _ & _ & Es')|[(_ & _ & Es')|[(_ & _ & Es')|(app' & f4 & w4 & _ & _ & _ & _ & Es4 & Hdo)]]].
    + exfalso. rewrite Es' in Hpass. destruct Hpass as [C|C]; discriminate C.
    + exfalso. rewrite Es' in Hpass. destruct Hpass as [C|C]; discriminate C.
    + exfalso. rewrite Es', Es in Hpass. destruct Hpass as [C|C]; discriminate C.
    + destruct (use_deadline _ _ _ _ _ _ _ _ Hdo Es4) as [(D1 & _ & D3)|(_ & D1 & _)]; congruence.
Qed.

(* latest first *)
Fixpoint linked_rev (l : list svisit) : Prop :=
  match l with
  | v' :: ((v :: _) as tl) => (sv_release v <> None -> sv_prev v' = sv_arrival v \/ sv_prev v' = 0) /\ linked_rev tl
  | _ => True
  end.

(* in order: a visit that follows a completed visit has that visit's token time as its previous token
   time - or 0, when the station was re-created in between *)
Fixpoint linked (l : list svisit) : Prop :=
  match l with
  | v :: ((v' :: _) as tl) => (sv_release v <> None -> sv_prev v' = sv_arrival v \/ sv_prev v' = 0) /\ linked tl
  | _ => True
  end.

Lemma linked_snoc l : forall v v', linked (l ++ [v]) -> (sv_release v <> None -> sv_prev v' = sv_arrival v \/ sv_prev v' = 0) ->
  linked ((l ++ [v]) ++ [v']).
Proof.
  induction l as [|x l IH]; intros v v' Hl Hv; [cbn; tauto|].
  destruct l as [|y l]; [cbn in *; tauto|].
  change (linked (x :: (y :: l ++ [v]) ++ [v'])). cbn [linked app] in Hl |- *. destruct Hl as (H1 & H2).
  split; [exact H1|]. exact (IH v v' H2 Hv).
Qed.

Lemma linked_rev_rev l : linked_rev l -> linked (rev l).
Proof.
  induction l as [|v' l IH]; intros H; [exact I|]. destruct l as [|v l]; [exact I|].
  cbn [linked_rev] in H. destruct H as (H1 & H2). specialize (IH H2).
  change (rev (v' :: v :: l)) with ((rev l ++ [v]) ++ [v']). apply linked_snoc; [exact IH|exact H1].
Qed.

Lemma linked_rev_head v1 v d : sv_prev v1 = sv_prev v -> linked_rev (v :: d) -> linked_rev (v1 :: d).
Proof. intros E H. destruct d as [|w d]; [exact I|]. cbn [linked_rev] in *. rewrite E. exact H. Qed.

Definition x_list (s : xst) : list svisit := match x_open s with Some v => v :: x_done s | None => x_done s end.

Definition LK (f : fdl) (s : xst) : Prop :=
  linked_rev (x_list s) /\
  (x_open s = None -> match x_done s with
                      | v :: _ => sv_release v <> None -> f_last_token_time f = sv_arrival v \/ f_last_token_time f = 0
                      | [] => True
                      end).

Lemma xcalls_frame : forall l s, x_open (fold_left xpost (map HCall l) s) = x_open s /\
                                  x_done (fold_left xpost (map HCall l) s) = x_done s.
Proof.
  induction l as [|c l IH]; intros s; [split; reflexivity|]. cbn [map fold_left].
  destruct (IH (xpost s (HCall c))) as (H1 & H2). rewrite H1, H2. destruct c; split; reflexivity.
Qed.

Lemma add_round_fields v now c e :
  sv_prev (add_round v now c e) = sv_prev v /\ sv_arrival (add_round v now c e) = sv_arrival v /\
  sv_release (add_round v now c e) = sv_release v.
Proof. unfold add_round. destruct c; cbn; tauto. Qed.

Section Link.
Variable p : params.

Lemma step_lk f apps e f' apps' h tl s :
  InvX p f tl s -> LK f s -> step A ops f apps e = Ok (f', apps', h) -> tl < ev_time (tl + 1) e ->
  LK f' (fold_left xpost h s).
Proof.
  intros (Hp & Htl & Hdone & Hcur & Hltt & Hopen) (Hlk & Hfact) H Hlt. destruct e as [now pin| | |g]; cbn [step ev_time] in *.
  - destruct (poll ops f now pin apps) as [[[[f1 o1] a1] calls]| |] eqn:Ep; cbn [bind] in H; try discriminate H.
    injection H as <- _ <-.
    pose proof (poll_state_cases A ops _ _ _ _ _ _ _ _ Ep) as Hcases.
    rewrite fold_left_app. destruct (xcalls_frame calls s) as (X1 & X2).
    set (s1 := fold_left xpost (map HCall calls) s) in *.
    cbn [fold_left xpost]. rewrite X1, X2. unfold x_list in Hlk.
    destruct (x_open s) as [v|] eqn:Eo.
    + destruct (tk_of (f_state f)) as [tk|] eqn:Etk; [|contradiction].
      destruct Hopen as (Ha & (S1 & S2 & _) & _).
      set (v1 := add_round v now (x_cur s1) (f_end_tht f1)).
      destruct (add_round_fields v now (x_cur s1) (f_end_tht f1)) as (A1 & A2 & A3). fold v1 in A1, A2, A3.
      assert (Hne : tk <> now) by lia.
      (* the state after the poll is one of those of visit_step, or unchanged / reset *)
      unfold LK, x_list. destruct (tk_of (f_state f1)) as [tk1|] eqn:Etk1.
      * destruct (Z.eqb_spec tk1 (sv_arrival v)) as [Eq|Ne]; cbn [x_open x_done].
        -- split; [exact (linked_rev_head _ _ _ A1 Hlk)|discriminate].
        -- split; [|discriminate].
           assert (Es1 : f_state f1 = UseToken now None false).
           { destruct Hcases as [(_ & _ & [R|(_ & s3 & Hpro & Hqs & Hvis)])|(tk0 & Hfrom & Hto & _)].
             - destruct R as (Rs & _). rewrite Rs in Etk1. discriminate Etk1.
             - exfalso. assert (Hin : in_visit (kind_of (f_state f)) = true) by (destruct (f_state f); try discriminate Etk; reflexivity).
               assert (Es3 : s3 = f_state f) by (destruct Hpro as [E|(C & _)]; [exact E|rewrite C in Hin; discriminate Hin]).
               subst s3. rewrite (Hvis Hin), Etk in Etk1. congruence.
             - assert (tk0 = tk) by (destruct Hfrom as [(fa & fcd & Es)|(a & fa & Es)]; rewrite Es in Etk; cbn in Etk; congruence). subst tk0.
               destruct Hto as [(E1 & _)|[(E1 & _)|[(fa' & E1)|[(a' & fa' & E1)|E1]]]].
               + rewrite E1, Etk in Etk1. congruence.
               + rewrite E1 in Etk1. discriminate Etk1.
               + rewrite E1 in Etk1. cbn in Etk1. congruence.
               + rewrite E1 in Etk1. cbn in Etk1. congruence.
               + destruct E1 as [E1|E1]; [|exact E1]. destruct (f_state f1); try discriminate E1; discriminate Etk1. }
           cbn [linked_rev]. split.
           ++ intros _. left. unfold fresh. cbn [sv_prev close sv_arrival]. rewrite A2, Ha.
              eapply visit_pass_ltt; [exact Ep|exact Etk|exact Hne|right; exact Es1].
           ++ apply (linked_rev_head (close v1 (Some now)) v); [cbn; exact A1|exact Hlk].
      * cbn [x_open x_done]. split; [apply (linked_rev_head (close v1 _) v); [cbn; exact A1|exact Hlk]|].
        intros _. cbn [close sv_release sv_arrival]. intros Hrel. left. rewrite A2, Ha.
        destruct (pass_kind (kind_of (f_state f1))) eqn:Epk; [|contradiction Hrel; reflexivity].
        eapply visit_pass_ltt; [exact Ep|exact Etk|exact Hne|left; exact Epk].
    + destruct (tk_of (f_state f)) as [tk|] eqn:Etk; [contradiction|].
      assert (Hl1 : f_last_token_time f1 = f_last_token_time f \/ f_last_token_time f1 = 0).
      { destruct Hcases as [(_ & _ & [R|(Kf & _)])|(tk0 & Hfrom & _)].
        - right. apply R.
        - left. apply Kf.
        - exfalso. destruct Hfrom as [(fa & fcd & Es)|(a & fa & Es)]; rewrite Es in Etk; discriminate Etk. }
      specialize (Hfact eq_refl).
      unfold LK, x_list. destruct (tk_of (f_state f1)) as [tk1|] eqn:Etk1; cbn [x_open x_done].
      * split; [|discriminate]. destruct (x_done s) as [|v d] eqn:Ed; [exact I|]. cbn [linked_rev]. split; [|exact Hlk].
        intros Hrel. unfold fresh. cbn [sv_prev]. destruct (Hfact Hrel) as [E|E]; destruct Hl1 as [E1|E1]; [left|right|right|right]; congruence.
      * split; [exact Hlk|]. intros _. destruct (x_done s) as [|v d]; [exact I|].
        intros Hrel. destruct (Hfact Hrel) as [E|E]; destruct Hl1 as [E1|E1]; [left|right|right|right]; congruence.
  - unfold set_online, set_state in H. cbn [bind] in H. injection H as <- _ <-. cbn [fold_left]. split; [exact Hlk|exact Hfact].
  - unfold set_offline, set_state in H. destruct (fdl_new (f_p f)) as [f1| |] eqn:En; cbn [bind] in H; try discriminate H.
    injection H as <- _ <-. apply fdl_new_spec in En. destruct En as ((Rs & _ & _ & Rl & _) & Rp).
    cbn [fold_left xpost]. unfold LK, x_list in *. cbn [x_open x_done].
    destruct (x_open s) as [v|].
    + split; [apply (linked_rev_head (close v None) v); [reflexivity|exact Hlk]|]. intros _ C. contradiction C. reflexivity.
    + split; [exact Hlk|]. intros _. destruct (x_done s) as [|v d]; [exact I|]. intros _. right. exact Rl.
  - injection H as <- _ <-. cbn [fold_left]. split; [exact Hlk|exact Hfact].
Qed.

Lemma run_lk (Hslot : 0 <= p_slot_bits p) : forall evs f apps tl s f' apps' h,
  InvX p f tl s -> LK f s -> mono tl evs -> run A ops f apps evs = Ok (f', apps', h) ->
  LK f' (fold_left xpost h s).
Proof.
  induction evs as [|e r IH]; intros f apps tl s f' apps' h HI HL Hm H; cbn [run] in H.
  - injection H as <- _ <-. exact HL.
  - destruct (step A ops f apps e) as [[[f1 apps1] h1]| |] eqn:Es; cbn [bind] in H; try discriminate H.
    destruct (run A ops f1 apps1 r) as [[[f2 apps2] h2]| |] eqn:Er; cbn [bind] in H; try discriminate H.
    injection H as <- _ <-. rewrite fold_left_app.
    assert (Hlt : tl < ev_time (tl + 1) e) by (destruct e; cbn in *; [tauto|lia|lia|lia]).
    pose proof (step_x p Hslot _ _ _ _ _ _ _ _ HI Es Hlt) as HI1.
    pose proof (step_lk _ _ _ _ _ _ _ _ HI HL Es Hlt) as HL1.
    assert (Hm1 : mono (ev_time tl e) r) by (destruct e; cbn in *; tauto).
    exact (IH _ _ _ _ _ _ _ HI1 HL1 Hm1 Er).
Qed.

End Link.

(* C13_visits_linked *)
Theorem visits_linked p f0 (apps : list A) evs f apps' h :
  0 <= p_slot_bits p -> fdl_new p = Ok f0 -> mono 0 evs -> run A ops f0 apps evs = Ok (f, apps', h) ->
  linked (visits_of h).
Proof.
  intros Hs Hn Hm Hr. apply fdl_new_spec in Hn. destruct Hn as ((Rs & _ & _ & Rl & _) & Rp).
  assert (HI : InvX p f0 0 x_init).
  { split; [exact Rp|]. split; [lia|]. split; [constructor|]. split; [reflexivity|]. split; [lia|]. cbn. rewrite Rs. exact I. }
  assert (HL : LK f0 x_init) by (split; [exact I|intros _; exact I]).
  pose proof (run_lk p Hs _ _ _ _ _ _ _ _ HI HL Hm Hr) as (HL' & _).
  unfold visits_of, x_all. apply linked_rev_rev. exact HL'.
Qed.

(* C13_station_visits_ok *)
Theorem station_visits_ok p f0 (apps : list A) evs f apps' h :
  0 <= p_slot_bits p -> fdl_new p = Ok f0 -> mono 0 evs -> run A ops f0 apps evs = Ok (f, apps', h) ->
  Forall (sv_ok (token_rotation_time p)) (visits_of h).
Proof.
  intros Hs Hn Hm Hr. apply fdl_new_spec in Hn. destruct Hn as ((Rs & _ & _ & Rl & _) & Rp).
  assert (HI : InvX p f0 0 x_init).
  { split; [exact Rp|]. split; [lia|]. split; [constructor|]. split; [reflexivity|]. split; [lia|]. cbn. rewrite Rs. exact I. }
  destruct (run_x p Hs _ _ _ _ _ _ _ _ HI Hm Hr) as (tl' & HI').
  exact (InvX_all p _ _ _ HI').
Qed.

End Apps.

(* ------------------------------------------------------------------------------------------ *)
(* N model stations: the rotation bound with ring hypotheses only                               *)

(* h is the history of a newly created model station with parameters p, run with some applications under some
   sequence of events with strictly increasing poll times *)
Definition station_history (p : params) (h : list hitem) : Prop :=
  exists (A : Type) (ops : app_ops A) (f0 : fdl) (apps : list A) (evs : list (event A)) (f : fdl) (apps' : list A),
    fdl_new p = Ok f0 /\ mono 0 evs /\ run A ops f0 apps evs = Ok (f, apps', h).

Lemma linked_adjacent : forall l k a b, linked l -> nth_error l k = Some a -> nth_error l (S k) = Some b ->
  sv_release a <> None -> sv_prev b = sv_arrival a \/ sv_prev b = 0.
Proof.
  induction l as [|x l IH]; intros k a b Hl Ha Hb; [destruct k; discriminate Ha|].
  destruct l as [|y l]; [destruct k as [|[|k]]; discriminate Hb|].
  cbn [linked] in Hl. destruct Hl as (H1 & H2). destruct k as [|k].
  - cbn in Ha, Hb. injection Ha as <-. injection Hb as <-. exact H1.
  - exact (IH k a b H2 Ha Hb).
Qed.

Section Ring.
Variable N : nat.
Variable P : nat -> params.                 (* parameters of station i *)
Variable H : nat -> list hitem.             (* history of station i *)
Variable st : nat -> nat.                   (* the station of the v-th token visit of the ring ... *)
Variable ix : nat -> nat.                   (* ... and which of that station's visits it is *)
Variable SV : nat -> svisit.
Variables TTR C O : Z.

(* the stations are model stations *)
Hypothesis Hstations : forall i, station_history (P i) (H i) /\ 0 <= p_slot_bits (P i) /\ token_rotation_time (P i) <= TTR.
(* RING hypotheses.  Order: the v-th visit of the ring is visit ix v of station st v, completed by passing
   the token; N visits later it is the same station's next visit; no station is re-created. *)
Hypothesis Hvisit : forall v, nth_error (visits_of (H (st v))) (ix v) = Some (SV v) /\ sv_release (SV v) <> None.
Hypothesis Horder : forall v, st (v + N) = st v /\ ix (v + N) = S (ix v).
Hypothesis Hnoreset : forall v, (N <= v)%nat -> sv_prev (SV v) <> 0.
(* Medium and schedule: the token released by one visit arrives as the next visit within O; a message cycle
   (and the decision to pass when nobody sends) takes at most C *)
Definition ring_visit (v : nat) : visit := to_visit (SV v) (sv_arrival (SV (S v))).
Hypothesis Htiming : forall v, timing_ok C O (ring_visit v).

Lemma ring_visit_ok v : visit_ok TTR C O (ring_visit v).
Proof.
  destruct (Hstations (st v)) as ((A & ops & f0 & apps & evs & f & apps' & Hn & Hm & Hr) & Hs & Ht).
  destruct (Hvisit v) as (Hnth & _).
  pose proof (station_visits_ok A ops _ _ _ _ _ _ _ Hs Hn Hm Hr) as Hall.
  rewrite Forall_forall in Hall. specialize (Hall _ (nth_error_In _ _ Hnth)).
  destruct (sv_ok_hold _ _ (sv_arrival (SV (S v))) Hall) as (Hh & Hd).
  split; [exact Hh|]. split; [|exact (Htiming v)]. unfold deadline_ok, ring_visit in *. lia.
Qed.

Lemma ring_is_run : ring_run N ring_visit.
Proof.
  split.
  - intros v. reflexivity.
  - intros v Hv. unfold ring_visit, to_visit. cbn [vi_prev vi_arrival].
    replace v with ((v - N) + N)%nat at 1 by lia.
    destruct (Horder (v - N)%nat) as (Hst & Hix).
    destruct (Hvisit (v - N)%nat) as (Ha & Hra). destruct (Hvisit ((v - N) + N)%nat) as (Hb & _).
    rewrite Hst, Hix in Hb.
    destruct (Hstations (st (v - N)%nat)) as ((A & ops & f0 & apps & evs & f & apps' & Hn & Hm & Hr) & Hs & _).
    pose proof (visits_linked A ops _ _ _ _ _ _ _ Hs Hn Hm Hr) as Hl.
    destruct (linked_adjacent _ _ _ _ Hl Ha Hb Hra) as [E|E]; [exact E|].
    exfalso. apply (Hnoreset ((v - N) + N)%nat); [lia|exact E].
Qed.

(* C13_rotation_bound_stations *)
Theorem rotation_bound_stations : (1 <= N)%nat -> 0 <= TTR -> 0 <= C -> 0 <= O ->
  forall v, (N <= v)%nat ->
  sv_arrival (SV (v + N)%nat) - sv_arrival (SV v) <= TTR + Z.of_nat N * (C + O).
Proof.
  intros HN HT HC HO v Hv.
  exact (rotation_bound_conditional N ring_visit TTR C O HN ring_is_run ring_visit_ok HT HC HO v Hv).
Qed.

End Ring.

(* ------------------------------------------------------------------------------------------ *)
(* The explicit core of the message-cycle bound C (one step, all states): a request that expects a reply
   sets last_bus_activity to the time of its poll + 11 bit times per byte of the request
   (use_poll_into_adr / adr_poll in C15Liveness.v); from then on, on a silent bus - PHY not busy, nothing
   complete in the receive buffer, every buffered byte counted - the FIRST poll later than
   last_bus_activity + Tslot delivers the time-out, which ends the message cycle.  So with polls at most
   delta apart a cycle without reply takes at most  11 bit * |request| + Tslot + delta  from the poll that
   sent the request.  (What C additionally has to cover in a ring - a reply and its reception, the
   synchronisation pause before the next transmission - and the hand-over O are NOT derived here: they
   depend on the other stations and the medium.) *)
Section Cycle.
Variable A : Type.
Variable ops : app_ops A.

Theorem reply_wait_expires f now rxb (apps : list A) f' o apps' calls a tk fa l :
  poll ops f now (mkPhyIn false rxb) apps = Ok (f', o, apps', calls) ->
  f_state f = AwaitDataResponse a tk fa -> f_conn f = ConnOnline -> f_lba f = Some l ->
  f_pending f = length rxb -> decode rxb = Ok NeedMore -> 0 <= p_slot_bits (f_p f) ->
  l + slot_time (f_p f) < now ->
  exists cl, calls = CallHandleTimeout (f_next_app f) a :: cl.
Proof.
  intros E Es Ec El Hpd Hdec Hs Hexp.
  assert (Hslot : 0 <= slot_time (f_p f)) by (unfold slot_time, p_bits_to_time; apply btt_nonneg; exact Hs).
  destruct (adr_poll A ops _ _ _ _ _ _ _ _ _ _ _ _ _ E Es Ec El ltac:(lia)) as [([C|C] & _)|(_ & Hl & Hcase)]; [discriminate C|lia|].
  cbv zeta in Hcase. rewrite Hpd, Nat.ltb_irrefl in Hcase.
  destruct Hcase as [(_ & _ & _ & _ & _ & Hne & _)|[(_ & t & k & Hd)|(Hc & _)]]; [contradiction|congruence|exact Hc].
Qed.

(* the request poll: where the wait starts *)
Theorem request_starts_wait f now busy rxb (apps : list A) f' o apps' calls :
  poll ops f now (mkPhyIn busy rxb) apps = Ok (f', o, apps', calls) ->
  kind_of (f_state f) = KUseToken -> f_conn f = ConnOnline -> (f_pending f <= length rxb)%nat ->
  kind_of (f_state f') = KAwaitDataResponse ->
  exists wire, tx o = Some wire /\ f_lba f' = Some (now + dur (f_p f) (length wire)) /\
               f_pending f' = length (rx_left o).
Proof. exact (use_poll_into_adr A ops f now busy rxb apps f' o apps' calls). Qed.

End Cycle.

(* ------------------------------------------------------------------------------------------ *)
(* Non-vacuity: a newly created station alone on the bus (HSA 4), polled every 3 ms, with the demo application
   of C15Proofs (one SRD request to station 5, then declines): it claims the token, scans its GAP, and then
   visits itself; the first visit asks twice (the request, and - after the time-out - the decline that ends
   the visit), the following visits once. *)
Definition demo4_params : params :=
  mkParams 2 default_baudrate default_slot_bits default_token_rotation_bits default_gap_wait_rotations 4
           default_max_retry_limit default_min_tsdr_bits None.
Definition demo4_events : list (event nat) :=
  EvOnline nat :: map (fun k => EvPoll nat (1 + Z.of_nat k * 3000) (mkPhyIn false [])) (seq 0 45).

Lemma demo4_visits : exists f0 f apps h,
  fdl_new demo4_params = Ok f0 /\ mono 0 demo4_events /\
  run nat demo_ops f0 [0%nat] demo4_events = Ok (f, apps, h) /\
  firstn 2 (visits_of h) =
    [mkSv 0 99001 1689375 [(105001, false); (117001, false)] (Some 117001);
     mkSv 99001 117001 1788376 [(123001, false)] (Some 123001)] /\
  firstn 3 (calls_of h) = [CallTransmit 0 false (Some (demo_wire, Some 5)); CallHandleTimeout 0 5; CallTransmit 0 false None].
Proof.
  destruct (fdl_new demo4_params) as [f0| |] eqn:E0;
    [|exfalso; assert (X : is_ok (fdl_new demo4_params) = true) by (vm_compute; reflexivity); rewrite E0 in X; discriminate X
     |exfalso; assert (X : is_ok (fdl_new demo4_params) = true) by (vm_compute; reflexivity); rewrite E0 in X; discriminate X].
  assert (X : match fdl_new demo4_params with
              | Ok f0 => match run nat demo_ops f0 [0%nat] demo4_events with
                         | Ok (_, _, h) => Some (firstn 2 (visits_of h), firstn 3 (calls_of h))
                         | _ => None
                         end
              | _ => None
              end =
              Some ([mkSv 0 99001 1689375 [(105001, false); (117001, false)] (Some 117001);
                     mkSv 99001 117001 1788376 [(123001, false)] (Some 123001)],
                    [CallTransmit 0 false (Some (demo_wire, Some 5)); CallHandleTimeout 0 5; CallTransmit 0 false None]))
    by (vm_compute; reflexivity).
  rewrite E0 in X. destruct (run nat demo_ops f0 [0%nat] demo4_events) as [[[f apps] h]| |] eqn:Er; try discriminate X.
  injection X as X1 X2. exists f0, f, apps, h. split; [reflexivity|]. split; [vm_compute; repeat split|].
  split; [exact Er|]. split; assumption.
Qed.
