(* FDL oracle soundness, part 11: the status reply (C12).  The pending status request through the receive loops of
   do_active_idle / do_check_token_pass (hrun_marker) and of do_listen_token (listen_fold_marker); whole polls of a
   listening station (listen_poll_run); the invariant RQ: a request that the station has pending is the one the monitor
   has recorded (m_req); R12_reply_without_request, R12_reply_untruthful, R12_reply_from_wrong_state never fire -
   for applications that transmit request telegrams (app_sends_requests). *)
From Coq Require Import Arith.
From PB Require Import Common Tables FdlTables Telegram Phy TokenRing Params Fdl FdlOracle FdlProofs FdlStepProofs.
From PB Require Import C05Proofs C01Proofs C11Proofs C15Proofs C13Proofs C12Proofs.
From PB Require Import FdlOracleSound1 FdlOracleSound2 FdlOracleSound3 FdlOracleSound4 FdlOracleSound5 FdlOracleSound6
                       FdlOracleSound7 FdlOracleSound8 FdlOracleSound9 FdlOracleSound10.

(* ------------------------------------------------------------------------------------------ *)
(* C12: the status reply (R12_reply_without_request, R12_reply_untruthful,                       *)
(* R12_reply_from_wrong_state): the pending status request through the receive loops              *)

(* the status request that a delivered telegram leaves pending *)
Definition req_of (tsa : Z) (t : telegram) (il : bool) : option Z :=
  match t with
  | TData h _ => if is_fdl_status_request h && (h_da h =? tsa) && il then Some (h_sa h) else None
  | _ => None
  end.

Definition mark_of (rq : Z -> telegram -> bool -> option Z) (tsa : Z) (l : list (telegram * bool)) (sr : option Z) : option Z :=
  match rev l with
  | (t, il) :: _ => match rq tsa t il with Some a => Some a | None => sr end
  | [] => sr
  end.

Lemma mark_of_cons rq tsa x l sr : l <> [] -> mark_of rq tsa (x :: l) sr = mark_of rq tsa l sr.
Proof.
  intros Hne. unfold mark_of. cbn [rev]. destruct (rev l) as [|y r] eqn:Er; [|reflexivity].
  exfalso. apply Hne. apply (f_equal (@rev _)) in Er. rewrite rev_involutive in Er. exact Er.
Qed.

(* in ListenToken a telegram with the own source address is the collision branch *)
Definition lreq_of (tsa : Z) (t : telegram) (il : bool) : option Z :=
  match t with
  | TData h _ => if negb (h_sa h =? tsa) && is_fdl_status_request h && (h_da h =? tsa) && il then Some (h_sa h) else None
  | _ => None
  end.

Section Marker.
Variable A : Type.
Notation W := (world A).

Lemma ht_step_sr now f (w : W) t il f' w' sr nps cc sr' nps' cc' :
  f_state f = ActiveIdle sr nps cc -> handle_telegram A now f w t il = Ok (f', w') ->
  f_state f' = ActiveIdle sr' nps' cc' ->
  sr' = match req_of (ts f) t il with Some a => Some a | None => sr end.
Proof.
  intros Es H Es'. unfold handle_telegram in H. rewrite Es in H. cbn [kind_of state_kind_eqb negb get_active_idle bind] in H.
  destruct t as [h pdu|da sa| ]; cbn [req_of].
  - destruct (is_fdl_status_request h && (h_da h =? ts f) && il); injection H as <- _; cbn in Es'; [|rewrite Es in Es']; injection Es' as <- _ _; reflexivity.
  - destruct (sa =? ts f).
    + unfold u8_add in H. destruct (cc + 1 <=? 255); cbn [bind] in H; [|discriminate H].
      destruct (cc + 1 =? active_idle_collision_tolerated).
      * injection H as <- _. cbn in Es'. injection Es' as <- _ _. reflexivity.
      * apply trans_spec in H. destruct H as (s' & Ht & -> & _). cbn [f_state set_st] in Ht, Es'.
        unfold transition_listen_token in Ht. destruct (assert_kind _ _); cbn [bind] in Ht; try discriminate Ht.
        injection Ht as <-. discriminate Es'.
    + replace (ts (set_st f (ActiveIdle sr nps 0))) with (ts f) in H by reflexivity.
      replace (f_ring (set_st f (ActiveIdle sr nps 0))) with (f_ring f) in H by reflexivity.
      destruct (negb (da =? ts f) || negb il).
      * destruct (witness _ _ _) as [r| |]; cbn [bind] in H; try discriminate H. injection H as <- _. cbn in Es'. injection Es' as <- _ _. reflexivity.
      * destruct (sa =? r_ps (f_ring f)).
        -- apply trans_spec in H. destruct H as (s' & Ht & -> & _). cbn [f_state set_st] in Ht, Es'.
           unfold transition_use_token in Ht. destruct (assert_kind _ _); cbn [bind] in Ht; try discriminate Ht.
           injection Ht as <-. discriminate Es'.
        -- destruct nps as [a|].
           ++ destruct (a =? sa).
              ** destruct (witness _ _ _) as [r| |]; cbn [bind] in H; try discriminate H.
                 apply trans_spec in H. destruct H as (s' & Ht & -> & _). cbn [f_state set_st set_ring] in Ht, Es'.
                 unfold transition_use_token in Ht. destruct (assert_kind _ _); cbn [bind] in Ht; try discriminate Ht.
                 injection Ht as <-. discriminate Es'.
              ** injection H as <- _. cbn in Es'. injection Es' as <- _ _. reflexivity.
           ++ injection H as <- _. cbn in Es'. injection Es' as <- _ _. reflexivity.
  - injection H as <- _. rewrite Es in Es'. injection Es' as <- _ _. reflexivity.
Qed.

Lemma hrun_marker now f l f' : hrun A now f l f' -> flags_ok l ->
  forall sr nps cc sr' nps' cc', f_state f = ActiveIdle sr nps cc -> f_state f' = ActiveIdle sr' nps' cc' ->
  sr' = mark_of req_of (ts f) l sr.
Proof.
  intros H. induction H as [f|f fm w w' f1 t il l f2 Hs Hr Hp Hh Hrun IH]; intros Hfl sr nps cc sr' nps' cc' Es Es'.
  - rewrite Es in Es'. injection Es' as <- _ _. reflexivity.
  - assert (Esm : f_state fm = ActiveIdle sr nps cc) by congruence.
    assert (Htsm : ts fm = ts f) by (unfold ts; rewrite Hp; reflexivity).
    destruct (ht_step A now fm w t il f1 w' sr nps cc Esm Hh) as (Hp1 & Hstep).
    assert (Hts1 : ts f1 = ts f) by (unfold ts; rewrite Hp1, Hp; reflexivity).
    destruct l as [|x l].
    + inversion Hrun; subst. unfold mark_of. cbn [rev app]. rewrite <- Htsm. eapply ht_step_sr; eassumption.
    + destruct Hfl as (-> & Hfl). rewrite mark_of_cons by discriminate.
      assert (Eo : offer_of (ts fm) t false = None) by (destruct t; cbn; try reflexivity; rewrite andb_false_r; reflexivity).
      rewrite Eo in Hstep. destruct Hstep as [(sr1 & cc1 & E1)|E1].
      * pose proof (ht_step_sr now fm w t false f1 w' sr nps cc sr1 nps cc1 Esm Hh E1) as Hsr1.
        assert (Er : req_of (ts fm) t false = None) by (destruct t; cbn; try reflexivity; rewrite andb_false_r; reflexivity).
        rewrite Er in Hsr1. subst sr1. rewrite <- Hts1. eapply IH; eassumption.
      * pose proof (hrun_listen A _ _ _ _ _ _ Hrun E1) as E2. rewrite E2 in Es'. discriminate Es'.
Qed.

(* the listen loop *)
Lemma listen_fold_marker now : forall l f0 (w0 : W) f1 w1 sr cc sr' cc',
  fold_cb (listen_token_telegram A now) (f0, w0) l = Ok (f1, w1) -> flags_ok l ->
  f_state f0 = ListenToken sr cc -> f_conn f0 <> ConnOffline -> f_state f1 = ListenToken sr' cc' ->
  sr' = mark_of lreq_of (ts f0) l sr.
Proof.
  induction l as [|[t il] l IH]; intros f0 w0 f1 w1 sr cc sr' cc' H Hfl Es Hc Es'; cbn [fold_cb] in H.
  - injection H as <- _. rewrite Es in Es'. injection Es' as <- _. reflexivity.
  - destruct (listen_token_telegram A now (f0, w0) t il) as [[[fa wa] u]| |] eqn:Est; cbn [bind] in H; try discriminate H.
    (* one step *)
    assert (Hstep : (exists cc1, f_state fa = ListenToken (match lreq_of (ts f0) t il with Some a => Some a | None => sr end) cc1 /\
                       f_conn fa <> ConnOffline /\ ts fa = ts f0) \/
                    (f_state fa = Offline /\ f_conn fa = ConnOffline)).
    { unfold listen_token_telegram in Est. destruct (mark_rx_spec f0 now) as (_ & _ & Ms & Mp & Mc & _).
      set (fm := mark_rx f0 now) in *.
      assert (Htsm : ts fm = ts f0) by (unfold ts; rewrite Mp; reflexivity).
      destruct (f_conn fm) eqn:Ecm; [exfalso; apply Hc; congruence| |];
        (destruct (opt_eqb (source_address t) (Some (ts fm))) eqn:Esrc;
         [ rewrite Ms, Es in Est; cbn [get_listen_token bind] in Est;
           destruct (u8_add cc 1) as [cc1| |]; cbn [bind] in Est; try discriminate Est;
           destruct (cc1 =? listen_collision_tolerated);
           [ injection Est as <- _ _; left; exists cc1; cbn [f_state set_st f_conn];
             assert (Hl : lreq_of (ts f0) t il = None)
               by (destruct t as [h pdu|da sa| ]; cbn [lreq_of]; try reflexivity; cbn [source_address opt_eqb] in Esrc; rewrite <- Htsm, Esrc; reflexivity);
             rewrite Hl; split; [reflexivity|split; [rewrite Ecm; discriminate|first [exact Htsm | reflexivity]]]
           | match type of Est with bind (set_offline ?fx) _ = _ => destruct (set_offline fx) as [fo| |] eqn:Eo end;
             cbn [bind] in Est; try discriminate Est; injection Est as <- _ _;
             unfold set_offline, set_state in Eo; apply fdl_new_fields in Eo; destruct Eo as (S1 & C1 & _);
             right; split; assumption ]
         | destruct t as [h pdu|da sa| ]; cbn [lreq_of];
           [ cbn [source_address opt_eqb] in Esrc; rewrite <- Htsm, Esrc; cbn [negb andb];
             destruct (is_fdl_status_request h && (h_da h =? ts fm));
             [ destruct il; cbn [andb];
               [ rewrite Ms, Es in Est; cbn [get_listen_token bind] in Est; injection Est as <- _ _;
                 left; exists cc; cbn [f_state set_st f_conn]; split; [reflexivity|split; [rewrite Ecm; discriminate|first [exact Htsm | reflexivity]]]
               | injection Est as <- _ _; left; exists cc; rewrite Ms, Es; split; [reflexivity|split; [rewrite Ecm; discriminate|first [exact Htsm | reflexivity]]] ]
             | cbn [andb]; injection Est as <- _ _; left; exists cc; rewrite Ms, Es; split; [reflexivity|split; [rewrite Ecm; discriminate|first [exact Htsm | reflexivity]]] ]
           | destruct (witness _ _ _) as [r| |]; cbn [bind] in Est; try discriminate Est; injection Est as <- _ _;
             left; exists cc; cbn [f_state set_ring f_conn]; rewrite Ms, Es; split; [reflexivity|split; [rewrite Ecm; discriminate|first [exact Htsm | reflexivity]]]
           | injection Est as <- _ _; left; exists cc; rewrite Ms, Es; split; [reflexivity|split; [rewrite Ecm; discriminate|first [exact Htsm | reflexivity]]] ] ]). }
    destruct Hstep as [(cc1 & E1 & Hc1 & Hts1)|(E1 & C1)].
    + destruct l as [|x l].
      * cbn [fold_cb] in H. injection H as <- _. rewrite E1 in Es'. injection Es' as <- _. reflexivity.
      * destruct Hfl as (-> & Hfl). rewrite mark_of_cons by discriminate.
        assert (Hl : lreq_of (ts f0) t false = None) by (destruct t; cbn; try reflexivity; rewrite andb_false_r; reflexivity).
        rewrite Hl in E1. rewrite <- Hts1. eapply IH; eassumption.
    + (* the station re-created itself: it is not listening any more *)
      exfalso. clear IH.
      assert (Hoff : forall l fa wa f1 w1, fold_cb (listen_token_telegram A now) (fa, wa) l = Ok (f1, w1) ->
                f_state fa = Offline -> f_conn fa = ConnOffline -> f_state f1 = Offline).
      { clear. induction l as [|[t il] l IH]; intros fa wa f1 w1 H Es Ec; cbn [fold_cb] in H.
        - injection H as <- _. exact Es.
        - unfold listen_token_telegram in H at 1. destruct (mark_rx_spec fa now) as (_ & _ & Ms & _ & Mc & _).
          rewrite Mc, Ec in H. cbn [bind] in H. eapply IH; [exact H|congruence|congruence]. }
      rewrite (Hoff _ _ _ _ _ H E1 C1) in Es'. discriminate Es'.
Qed.

End Marker.

Section ListenPoll.
Variable A : Type.
Variable ops : app_ops A.
Notation W := (world A).

Lemma hrun_listen_none now f l f' : hrun A now f l f' ->
  forall sr nps cc sr' cc', f_state f = ActiveIdle sr nps cc -> f_state f' = ListenToken sr' cc' -> sr' = None.
Proof.
  intros H. induction H as [f|f fm w w' f1 t il l f2 Hs Hr Hp Hh Hrun IH]; intros sr nps cc sr' cc' Es Es'.
  - rewrite Es in Es'. discriminate Es'.
  - assert (Esm : f_state fm = ActiveIdle sr nps cc) by congruence.
    destruct (ht_step A now fm w t il f1 w' sr nps cc Esm Hh) as (_ & Hstep).
    destruct (offer_of (ts fm) t il) as [sa|].
    + destruct Hstep as [(E1 & _)|(E1 & _)].
      * inversion Hrun as [fx|fx fmx wx wx' f1x tx ilx lx f2x Hsx Hrx Hpx Hhx Hrunx]; subst.
        -- rewrite E1 in Es'. discriminate Es'.
        -- exfalso. unfold handle_telegram in Hhx. rewrite Hsx, E1 in Hhx. discriminate Hhx.
      * eapply IH; eassumption.
    + destruct Hstep as [(sr1 & cc1 & E1)|E1]; [eapply IH; eassumption|].
      pose proof (hrun_listen A _ _ _ _ _ _ Hrun E1) as E2. rewrite E2 in Es'. injection Es' as <- _. reflexivity.
Qed.

(* a poll of a listening station (or of one that starts to listen in this poll) *)
Lemma listen_poll_run f now pin (apps : list A) f' o apps' calls sr cc k :
  poll ops f now pin apps = Ok (f', o, apps', calls) -> Rep k f ->
  (f_state f = ListenToken sr cc \/ (f_state f = Offline /\ sr = None /\ cc = 0)) ->
  (rx_left o = rx pin /\ (f_state f' = f_state f \/ f_state f' = ListenToken sr cc \/ marker (f_state f') = None)) \/
  early_claim (f_state f') \/
  (tx o = None /\ sr = None /\ flags_ok (delivered (rx pin)) /\
   (delivered (rx pin) = [] \/ (length (rx_left o) < length (rx pin))%nat) /\
   forall sr' cc', f_state f' = ListenToken sr' cc' -> sr' = mark_of lreq_of (ts f) (delivered (rx pin)) None).
Proof.
  intros E R Hst. pose proof E as E0. apply (C11Proofs.poll_inv A ops) in E. destruct E as (w' & H & -> & _ & _). cbn [tx rx_left].
  (* the station that listens in this poll *)
  assert (Hbody : (f' = f /\ w_rx w' = rx pin) \/
            exists f0 (w0 : W), f_state f0 = ListenToken sr cc /\ f_p f0 = f_p f /\ f_conn f0 = ConnOnline /\ w_tx w0 = None /\ w_rx w0 = rx pin /\
              C11Proofs.body A ops f0 now (tx_busy pin) w0 = Ok (f', w')).
  { destruct Hst as [Es|(Es & -> & ->)].
    - right. assert (Hc : f_conn f = ConnOnline) by (apply (Rep_online _ _ R); rewrite Es; discriminate).
      rewrite (C11Proofs.poll_inner_online A ops f now _ _ Hc ltac:(rewrite Es; reflexivity)) in H.
      refine (ex_intro _ f (ex_intro _ _ (conj Es (conj _ (conj Hc (conj _ (conj _ H))))))); reflexivity.
    - pose proof (rep_conn _ _ R) as Cn. rewrite Es in Cn. cbn in Cn.
      destruct (f_conn f) eqn:Hc; [|contradiction Cn; reflexivity|].
      + left. rewrite (poll_offline_noop A ops f now pin apps Hc Es) in E0. injection E0 as <- _ E1 _ _.
        split; [reflexivity|symmetry; exact E1].
      + right. unfold poll_inner in H. rewrite Hc, Es in H. cbn [kind_of online_entry_kind] in H.
        unfold trans, transition_listen_token, assert_kind in H. rewrite Es in H. cbn [kind_of may_transition_listen_token bind] in H.
        rewrite C11Proofs.body_eq in H.
        refine (ex_intro _ (set_st f (ListenToken None 0)) (ex_intro _ _ (conj _ (conj _ (conj _ (conj _ (conj _ H))))))); try reflexivity. exact Hc. }
  destruct Hbody as [(-> & Hrx)|(f0 & w0 & Es0 & Hp0 & Hc0 & Htx0 & Hrx0 & Hb)].
  { left. split; [exact Hrx|]. left. reflexivity. }
  assert (Hts0 : ts f0 = ts f) by (unfold ts; rewrite Hp0; reflexivity).
  unfold C11Proofs.body in Hb.
  destruct (tx_busy pin || C11Proofs.predicted f0 now).
  - injection Hb as <- <-. left. split; [exact Hrx0|]. right. left.
    destruct (mark_bus_activity_sblp f0 now) as (_ & _ & _ & _ & Hs & _). congruence.
  - destruct (check_for_bus_activity A f0 now w0) as [f1 w1] eqn:Ec.
    apply cfba_spec in Ec. destruct Ec as ((Hp1 & Hr1 & Hc1 & _ & Hs1 & _) & Htx1 & _ & Hrx1 & _).
    unfold C11Proofs.dispatch in Hb. rewrite Hs1, Es0 in Hb. cbn [kind_of poll_dispatch] in Hb.
    unfold do_listen_token, assert_entry in Hb. rewrite Hs1, Es0 in Hb. cbn [kind_of do_fn_entry state_kind_eqb bind] in Hb.
    destruct (handle_lost_token A f1 now w1) as [[[f2 w2] d]| |] eqn:Eh; cbn [bind] in Hb; try discriminate Hb.
    destruct d.
    { injection Hb as <- <-. right. left. exact (handle_lost_token_claims A _ _ _ _ _ Eh). }
    assert (Htx1' : w_tx w1 = None) by congruence.
    pose proof (C11Proofs.handle_lost_token_entry A _ _ _ _ _ _ Htx1' Eh) as ((Hp2 & Hr2 & Hc2 & _ & Hs2 & _) & ->).
    rewrite Hs2, Hs1, Es0 in Hb. cbn [get_listen_token bind] in Hb.
    destruct sr as [src|].
    + left. destruct (wait_synchronization_pause f2 now) as [[f3 wait]| |] eqn:Ew; cbn [bind] in Hb; try discriminate Hb.
      apply wait_sync_same in Ew. destruct Ew as ((Hp3 & Hr3 & _ & _ & Hs3 & _) & _).
      destruct wait.
      * injection Hb as <- <-. split; [cbn; congruence|]. right. left. congruence.
      * destruct (phy_send A w1 _) as [[w3 k3]| |] eqn:Eps; cbn [bind] in Hb; try discriminate Hb.
        match type of Hb with bind ?x _ = _ => destruct x as [[f4 w4]| |] eqn:E4 end; cbn [bind] in Hb; try discriminate Hb.
        destruct (mark_tx f4 now k3) as [f5| |] eqn:Em; cbn [bind] in Hb; try discriminate Hb.
        injection Hb as <- <-. apply mark_tx_same in Em. destruct Em as (_ & _ & _ & _ & Hs5 & _).
        apply phy_send_tx in Eps. destruct Eps as (_ & _ & _ & Hrx3 & _).
        assert (H4 : w_rx w4 = w_rx w3 /\ marker (f_state f4) = None).
        { destruct (ready_for_ring (f_ring f3)).
          - apply trans_spec in E4. destruct E4 as (s4 & Ht & -> & ->). split; [reflexivity|]. cbn.
            unfold transition_active_idle in Ht. destruct (assert_kind _ _); cbn [bind] in Ht; try discriminate Ht. injection Ht as <-. reflexivity.
          - destruct (get_listen_token (f_state f3)) as [[sr3 cc3]| |]; cbn [bind] in E4; try discriminate E4.
            injection E4 as <- <-. split; reflexivity. }
        destruct H4 as (Hrx4 & Hm4). split; [cbn in *; congruence|]. right. right. rewrite Hs5. exact Hm4.
    + right. right. unfold receive_all_telegrams in Hb.
      destruct (receive_all _ _ (f2, w1) (w_rx w1)) as [[[s1 rest] r]| |] eqn:Er; cbn [bind] in Hb; try discriminate Hb.
      destruct s1 as [f3 w3]. injection Hb as <- <-. cbn [w_tx w_rx set_rx].
      rewrite Hrx1, Hrx0 in Er. destruct (receive_all_delivered _ _ _ _ _ _ Er) as (Hfold & Hfl & Hnil & Hne).
      split; [|split; [reflexivity|split; [exact Hfl|split]]].
      * (* nothing is transmitted by the loop *)
        pose proof (do_listen_token_bk A now f1 w1) as _.
        assert (HI : w_tx w3 = w_tx w1).
        { assert (HL : LI A now f2 w1 (f3, w3)).
          { refine (receive_all_inv (LI A now f2 w1) _ _ _ (f2, w1) _ (f3, w3) rest r _ Er).
            - intros s t l s' u Hp Hcb. exact (listen_token_telegram_LI A _ _ _ _ _ _ _ _ Hp Hcb).
            - unfold LI. cbn. repeat split; try reflexivity. left. apply lba_moves_refl. }
          destruct HL as (T & _). exact T. }
        rewrite HI. congruence.
      * destruct (delivered (rx pin)) as [|x l]; [left; reflexivity|right; apply Hne; discriminate].
      * intros sr' cc' Es'. cbn [f_state sync_pending_bytes set_pending] in Es'.
        rewrite <- Hts0. replace (ts f0) with (ts f2) by (unfold ts; congruence).
        refine (listen_fold_marker A now _ f2 w1 f3 w3 None cc sr' cc' Hfold Hfl _ _ Es'); [congruence|rewrite Hc2, Hc1, Hc0; discriminate].
Qed.

End ListenPoll.

Section OtherStates.
Variable A : Type.
Variable ops : app_ops A.
Notation W := (world A).

(* the token-holding states other than CheckTokenPass never fall back to listening *)
Lemma holding_not_listen f now pin (apps : list A) f' o apps' calls sr cc :
  poll ops f now pin apps = Ok (f', o, apps', calls) ->
  kind_in (kind_of (f_state f)) [KUseToken; KClaimToken; KAwaitDataResponse; KPassToken; KAwaitStatusResponse] = true ->
  f_state f' <> ListenToken sr cc.
Proof.
  intros E Hk Es'.
  destruct (f_state f) as [ | |sr0 cc0|sr0 nps0 cc0|tk fa fcd|st|a1 tk fa|dg att|att|a0] eqn:Es; try discriminate Hk.
  - destruct (poll_state_cases A ops _ _ _ _ _ _ _ _ E) as [(_ & _ & [R1|(_ & s3 & Hp & Hq & Hv)])|(tk0 & _ & Hto & _)].
    + destruct R1 as (C & _). rewrite C in Es'. discriminate Es'.
    + assert (Hs3 : s3 = f_state f) by (destruct Hp as [-> |(C & _)]; [reflexivity|rewrite Es in C; discriminate C]).
      rewrite Hs3, Es in Hv. specialize (Hv eq_refl). rewrite Hv in Es'. discriminate Es'.
    + destruct Hto as [(C & _)|[(C & _)|[(fa' & C)|[(a' & fa' & C)|C]]]]; try (rewrite C in Es'; try rewrite Es in Es'; discriminate Es').
      destruct C as [C|C]; [rewrite Es' in C; discriminate C|rewrite C in Es'; discriminate Es'].
  - destruct (token_poll_split A ops _ _ _ _ _ _ _ _ E ltac:(rewrite Es; reflexivity)) as [(-> & _)|(f1 & w1 & w' & Hs & _ & _ & _ & _ & _ & _ & _ & _ & _ & Hd)].
    + destruct (mark_bus_activity_sblp f now) as (_ & _ & _ & _ & Hs & _). rewrite Hs, Es in Es'. discriminate Es'.
    + destruct Hs as (_ & _ & _ & _ & Hs1 & _). unfold C11Proofs.dispatch in Hd. rewrite Hs1, Es in Hd. cbn [kind_of poll_dispatch] in Hd.
      destruct (C12Proofs.do_claim_token_spec A _ _ _ _ _ Hd) as (st0 & Es0 & _ & _ & _ & _ & Hspec).
      rewrite Es0 in Hspec. destruct st0 as [ | | |a0].
      * destruct Hspec as (_ & [(_ & C & _)|(_ & _ & C & _)]); rewrite C in Es'; discriminate Es'.
      * destruct Hspec as (_ & [(_ & C & _)|(_ & _ & C & _)]); rewrite C in Es'; discriminate Es'.
      * destruct Hspec as (_ & _ & [(_ & C & _)|[(_ & _ & _ & C)|[(_ & cur & _ & _ & _ & C)|(cur & a1 & _ & _ & _ & C & _)]]]); rewrite C in Es'; discriminate Es'.
      * destruct Hspec as (_ & _ & rest & received & _ & _ & Hcases).
        destruct Hcases as [(_ & _ & C & _)|[(t & _ & _ & _ & C & _)|[(t & _ & _ & _ & C & _)|(_ & _ & [(_ & C & _)|[(_ & _ & _ & C)|(a1 & _ & _ & C & _)]])]]];
          rewrite C in Es'; discriminate Es'.
  - destruct (poll_state_cases A ops _ _ _ _ _ _ _ _ E) as [(_ & _ & [R1|(_ & s3 & Hp & Hq & Hv)])|(tk0 & _ & Hto & _)].
    + destruct R1 as (C & _). rewrite C in Es'. discriminate Es'.
    + assert (Hs3 : s3 = f_state f) by (destruct Hp as [-> |(C & _)]; [reflexivity|rewrite Es in C; discriminate C]).
      rewrite Hs3, Es in Hv. specialize (Hv eq_refl). rewrite Hv in Es'. discriminate Es'.
    + destruct Hto as [(C & _)|[(C & _)|[(fa' & C)|[(a' & fa' & C)|C]]]]; try (rewrite C in Es'; try rewrite Es in Es'; discriminate Es').
      destruct C as [C|C]; [rewrite Es' in C; discriminate C|rewrite C in Es'; discriminate Es'].
  - destruct (pass_token_poll A ops _ _ _ _ _ _ _ _ _ _ Es E) as (_ & _ & _ & _ & [(_ & C & _)|[(addr & _ & _ & C & _)|(r' & _ & _ & _ & C)]]);
      rewrite C in Es'; try discriminate Es'. destruct (r_ns r' =? ts f); discriminate Es'.
  - destruct (after_gap_request_step A ops _ _ _ _ _ _ _ _ E ltac:(rewrite Es; reflexivity)) as (_ & _ & [(_ & [C|[C|C]])|(_ & _ & [C|(att & C)])]);
      rewrite C in Es'; try rewrite Es in Es'; discriminate Es'.
Qed.

End OtherStates.

Section ReplyMon.
Variable A : Type.
Variable ops : app_ops A.
Variable p : params.
Variable n : nat.
Hypothesis Hdata : app_sends_data A ops.

(* what the reply rules assume of the applications: they transmit REQUEST telegrams (a response telegram with the
   own source address is taken for a status reply of the station) *)
Definition app_sends_requests : Prop :=
  forall a now q hp a' wire er, a_tx ops a now q hp = Ok (a', Some (wire, er)) ->
    exists h pdu fcb rq, decode_one wire = Some (TData h pdu) /\ h_fc h = FcRequest fcb rq.

(* the pending status request, as the monitor keeps it *)
Definition RQ (f : fdl) (m : mon) : Prop := forall src, marker (f_state f) = Some src -> m_req m = Some src.

Lemma m_req_x_m3 m s : m_req (x_m3 p n m s) = x_req p m s.
Proof. unfold x_m3. destruct (x_new_visit p m s); [reflexivity|]. destruct (state_kind_eqb _ _); reflexivity. Qed.

Lemma mark_of_some rq tsa rxb src :
  mark_of rq tsa (delivered rxb) None = Some src ->
  (exists t, last_delivered rxb = Some t /\ rq tsa t true = Some src) \/
  (exists t l0, delivered rxb = l0 ++ [(t, false)] /\ rq tsa t false = Some src).
Proof.
  unfold mark_of, last_delivered. destruct (rev (delivered rxb)) as [|[t il] r] eqn:Er; [discriminate|].
  destruct (rq tsa t il) as [a|] eqn:Eq; [|discriminate]. intros H. injection H as ->.
  destruct il; [left; exists t; split; [reflexivity|exact Eq]|right].
  exists t, (rev r). split; [|exact Eq]. apply (f_equal (@rev _)) in Er. rewrite rev_involutive in Er. exact Er.
Qed.

Lemma rq_poll f apps buf tl m now busy nb f' o apps' calls :
  Base A p n f apps buf tl m -> RQ f m ->
  poll ops f now (mkPhyIn busy (buf ++ nb)) apps = Ok (f', o, apps', calls) ->
  RQ f' (x_m3 p n m (poll_event now busy (buf ++ nb) f' o calls)).
Proof.
  intros HB HR E src Hm'. pose proof (x_k0_base A p n _ _ _ _ _ HB) as Hk0.
  destruct HB as [R Hp Hn Hv Hl Hpd Hb Htl].
  assert (Hxts : x_ts p = ts f) by (unfold x_ts, ts; rewrite Hp; reflexivity).
  set (s := poll_event now busy (buf ++ nb) f' o calls).
  rewrite m_req_x_m3. unfold x_req.
  assert (Hk1 : kind_in (x_k1 s) [KListenToken; KActiveIdle] = true).
  { change (x_k1 s) with (kind_of (f_state f')). destruct (f_state f'); cbn in Hm'; try discriminate Hm'; reflexivity. }
  rewrite Hk1. cbn [negb].
  (* a poll that leaves a request pending transmits nothing *)
  assert (Htx : tx o = None).
  { destruct (tx o) as [wire|] eqn:Etx; [exfalso|reflexivity].
    destruct (poll_transmissions A ops _ _ _ _ _ _ _ _ _ E Etx) as [(cs & i & hp & er & _ & _ & [K|K])|(_ & [Htok|[Hgap|Hrep]])].
    - destruct (f_state f'); cbn in Hm', K; try discriminate Hm'; discriminate K.
    - destruct (f_state f'); cbn in Hm', K; try discriminate Hm'; discriminate K.
    - destruct Htok as (da & _ & [(_ & [(C & _)|(C & _)])|([C|(att & C)] & _)]); rewrite C in Hm'; discriminate Hm'.
    - destruct Hgap as (a & _ & _ & _ & _ & _ & [(C & _)|(C & _)]); rewrite C in Hm'; discriminate Hm'.
    - destruct Hrep as (src0 & st & _ & [(cc & _ & _ & C)|(nps & cc & _ & _ & C)]); rewrite C in Hm'; [destruct (ready_for_ring _)|]; discriminate Hm'. }
  cbn [s poll_event s_tx]. rewrite Htx.
  (* the loops: the request is the last telegram delivered, with is_last *)
  assert (Hloop : forall rq, (forall t, rq (ts f) t false = None) ->
            (forall h pdu, rq (ts f) (TData h pdu) true = Some src ->
               is_fdl_status_request h && (h_da h =? x_ts p) && negb (state_kind_eqb (x_k0 m) KListenToken && (h_sa h =? x_ts p)) = true /\ h_sa h = src) ->
            (forall t, (forall h pdu, t <> TData h pdu) -> rq (ts f) t true = None) ->
            flags_ok (delivered (buf ++ nb)) ->
            (delivered (buf ++ nb) = [] \/ (length (rx_left o) < length (buf ++ nb))%nat) ->
            mark_of rq (ts f) (delivered (buf ++ nb)) None = Some src ->
            match x_lastt s with
            | Some (TData h _) =>
                if is_fdl_status_request h && (h_da h =? x_ts p) && negb (state_kind_eqb (x_k0 m) KListenToken && (h_sa h =? x_ts p))
                then Some (h_sa h) else m_req m
            | _ => m_req m
            end = Some src).
  { intros rq Hfalse Htrue Hother Hfl Hsh Hmk.
    destruct (x_tels_delivered now busy (buf ++ nb) f' o calls Hsh) as (_ & Hlast). fold s in Hlast. rewrite Hlast.
    destruct (mark_of_some _ _ _ _ Hmk) as [(t & Hld & Hq)|(t & l0 & _ & Hq)]; [|rewrite Hfalse in Hq; discriminate Hq].
    rewrite Hld. destruct t as [h pdu|da sa| ]; try (rewrite Hother in Hq by (intros; discriminate); discriminate Hq).
    destruct (Htrue h pdu Hq) as (Hc & Hsa). rewrite Hc, Hsa. reflexivity. }
  assert (Hsame : marker (f_state f) = Some src -> x_lastt s = None ->
            kind_in (x_k0 m) [KListenToken; KActiveIdle; KCheckTokenPass; KOffline] = true ->
            (if kind_in (x_k0 m) [KListenToken; KActiveIdle; KCheckTokenPass; KOffline]
             then match x_lastt s with
                  | Some (TData h _) =>
                      if is_fdl_status_request h && (h_da h =? x_ts p) && negb (state_kind_eqb (x_k0 m) KListenToken && (h_sa h =? x_ts p))
                      then Some (h_sa h) else m_req m
                  | Some _ => m_req m
                  | None => m_req m
                  end
             else None) = Some src).
  { intros Hm Hl0 Hkin. rewrite Hkin, Hl0. exact (HR _ Hm). }
  (* the two request extractors against the condition of the monitor *)
  assert (Hlreq : state_kind_eqb (x_k0 m) KActiveIdle = false -> state_kind_eqb (x_k0 m) KCheckTokenPass = false ->
            flags_ok (delivered (buf ++ nb)) -> (delivered (buf ++ nb) = [] \/ (length (rx_left o) < length (buf ++ nb))%nat) ->
            mark_of lreq_of (ts f) (delivered (buf ++ nb)) None = Some src ->
            match x_lastt s with
            | Some (TData h _) =>
                if is_fdl_status_request h && (h_da h =? x_ts p) && negb (state_kind_eqb (x_k0 m) KListenToken && (h_sa h =? x_ts p))
                then Some (h_sa h) else m_req m
            | _ => m_req m
            end = Some src).
  { intros _ _. apply (Hloop lreq_of).
    - intros t. destruct t; cbn; try reflexivity. rewrite andb_false_r. reflexivity.
    - intros h pdu Hq. cbn [lreq_of] in Hq. rewrite andb_true_r in Hq.
      destruct (negb (h_sa h =? ts f) && is_fdl_status_request h && (h_da h =? ts f)) eqn:Ec; [|discriminate Hq]. injection Hq as Hq.
      apply andb_true_iff in Ec. destruct Ec as (Ec & E3). apply andb_true_iff in Ec. destruct Ec as (E1 & E2).
      rewrite Hxts, E2, E3. apply negb_true_iff in E1. rewrite E1, andb_false_r. split; [reflexivity|exact Hq].
    - intros t Ht. destruct t as [h pdu| | ]; [exfalso; exact (Ht h pdu eq_refl)|reflexivity|reflexivity]. }
  assert (Hareq : state_kind_eqb (x_k0 m) KListenToken = false ->
            flags_ok (delivered (buf ++ nb)) -> (delivered (buf ++ nb) = [] \/ (length (rx_left o) < length (buf ++ nb))%nat) ->
            mark_of req_of (ts f) (delivered (buf ++ nb)) None = Some src ->
            match x_lastt s with
            | Some (TData h _) =>
                if is_fdl_status_request h && (h_da h =? x_ts p) && negb (state_kind_eqb (x_k0 m) KListenToken && (h_sa h =? x_ts p))
                then Some (h_sa h) else m_req m
            | _ => m_req m
            end = Some src).
  { intros Hnl. apply (Hloop req_of).
    - intros t. destruct t; cbn; try reflexivity. rewrite andb_false_r. reflexivity.
    - intros h pdu Hq. cbn [req_of] in Hq. rewrite andb_true_r in Hq.
      destruct (is_fdl_status_request h && (h_da h =? ts f)) eqn:Ec; [|discriminate Hq]. injection Hq as Hq.
      rewrite Hxts, Ec, Hnl. split; [reflexivity|exact Hq].
    - intros t Ht. destruct t as [h pdu| | ]; [exfalso; exact (Ht h pdu eq_refl)|reflexivity|reflexivity]. }
  assert (Hmatch : forall X : option Z,
            match x_lastt s with Some (TData h _) => X | Some _ => m_req m | None => m_req m end =
            match x_lastt s with Some (TData h _) => X | _ => m_req m end)
    by (intros X; destruct (x_lastt s) as [[? ?|? ?| ]|]; reflexivity).
  (* ActiveIdle is entered from the other states without a pending request *)
  assert (Hai : kind_in (kind_of (f_state f)) [KActiveIdle; KCheckTokenPass] = false ->
            forall sr' nps' cc', f_state f' = ActiveIdle sr' nps' cc' -> False).
  { intros Hkin sr' nps' cc' Es'. destruct (other_active_idle A ops _ _ _ _ _ _ _ _ _ _ _ _ E R Hkin Es') as (-> & _).
    rewrite Es' in Hm'. discriminate Hm'. }
  rewrite Hk0 in *.
  destruct (f_state f) as [ | |sr0 cc0|sr0 nps0 cc0|tk fa fcd|st|a1 tk fa|dg att|att|a0] eqn:Es.
  - (* Offline *)
    cbn [kind_of kind_in existsb state_kind_eqb orb] in *.
    destruct (listen_poll_run A ops _ _ _ _ _ _ _ _ None 0 _ E R ltac:(right; rewrite Es; repeat split; reflexivity)) as [(Hrx & Hcase)|[Hcl|(_ & _ & Hfl & Hsh & Hmk)]]; cbn [rx] in *.
    + exfalso. destruct Hcase as [C|[C|C]]; [rewrite C, Es in Hm'|rewrite C in Hm'|rewrite C in Hm']; discriminate Hm'.
    + exfalso. destruct Hcl as [C|C]; rewrite C in Hm'; discriminate Hm'.
    + destruct (f_state f') as [ | |sr' cc'|sr' nps' cc'| | | | | | ] eqn:Es'; cbn in Hm'; try discriminate Hm'.
      * pose proof (Hmk _ _ eq_refl) as Hs. rewrite Hm' in Hs. symmetry in Hs.
        exact (Hlreq eq_refl eq_refl Hfl Hsh Hs).
      * exfalso. exact (Hai eq_refl _ _ _ eq_refl).
  - exfalso. pose proof (rep_st _ _ R) as St. rewrite Es in St. exact St.
  - (* ListenToken *)
    cbn [kind_of kind_in existsb state_kind_eqb orb] in *.
    destruct (listen_poll_run A ops _ _ _ _ _ _ _ _ sr0 cc0 _ E R ltac:(left; exact Es)) as [(Hrx & Hcase)|[Hcl|(_ & -> & Hfl & Hsh & Hmk)]]; cbn [rx] in *.
    + destruct (x_tels_untouched now busy (buf ++ nb) f' o calls Hrx) as (_ & Hl0). fold s in Hl0.
      destruct Hcase as [C|[C|C]].
      * apply Hsame; [rewrite C, Es in Hm'; exact Hm'|exact Hl0|reflexivity].
      * apply Hsame; [rewrite C in Hm'; exact Hm'|exact Hl0|reflexivity].
      * rewrite C in Hm'. discriminate Hm'.
    + exfalso. destruct Hcl as [C|C]; rewrite C in Hm'; discriminate Hm'.
    + destruct (f_state f') as [ | |sr' cc'|sr' nps' cc'| | | | | | ] eqn:Es'; cbn in Hm'; try discriminate Hm'.
      * pose proof (Hmk _ _ eq_refl) as Hs. rewrite Hm' in Hs. symmetry in Hs.
        exact (Hlreq eq_refl eq_refl Hfl Hsh Hs).
      * exfalso. exact (Hai eq_refl _ _ _ eq_refl).
  - (* ActiveIdle *)
    cbn [kind_of kind_in existsb state_kind_eqb orb] in *.
    destruct (active_idle_poll_run A ops _ _ _ _ _ _ _ _ _ _ _ _ E R Es) as [(Hrx & Hcase)|[Hcl|(_ & -> & (f1 & Hrun & Hs1 & _ & Hfl & Hsh))]]; cbn [rx] in *.
    + destruct (x_tels_untouched now busy (buf ++ nb) f' o calls Hrx) as (_ & Hl0). fold s in Hl0.
      destruct Hcase as [(C & _)|(src0 & _ & _ & C)].
      * apply Hsame; [rewrite C, Es in Hm'; exact Hm'|exact Hl0|reflexivity].
      * rewrite C in Hm'. discriminate Hm'.
    + exfalso. destruct Hcl as [C|C]; rewrite C in Hm'; discriminate Hm'.
    + rewrite Hs1 in Hm'. destruct (f_state f1) as [ | |sr' cc'|sr' nps' cc'| | | | | | ] eqn:Es1; cbn in Hm'; try discriminate Hm'.
      * rewrite (hrun_listen_none A _ _ _ _ Hrun _ _ _ _ _ Es Es1) in Hm'. discriminate Hm'.
      * pose proof (hrun_marker A _ _ _ _ Hrun Hfl _ _ _ _ _ _ Es Es1) as Hs. rewrite Hm' in Hs. symmetry in Hs.
        exact (Hareq eq_refl Hfl Hsh Hs).
  - exfalso. destruct (f_state f') as [ | |sr' cc'|sr' nps' cc'| | | | | | ] eqn:Es'; cbn in Hm'; try discriminate Hm'.
    + exact (holding_not_listen A ops _ _ _ _ _ _ _ _ _ _ E ltac:(rewrite Es; reflexivity) Es').
    + exact (Hai eq_refl _ _ _ eq_refl).
  - exfalso. destruct (f_state f') as [ | |sr' cc'|sr' nps' cc'| | | | | | ] eqn:Es'; cbn in Hm'; try discriminate Hm'.
    + exact (holding_not_listen A ops _ _ _ _ _ _ _ _ _ _ E ltac:(rewrite Es; reflexivity) Es').
    + exact (Hai eq_refl _ _ _ eq_refl).
  - exfalso. destruct (f_state f') as [ | |sr' cc'|sr' nps' cc'| | | | | | ] eqn:Es'; cbn in Hm'; try discriminate Hm'.
    + exact (holding_not_listen A ops _ _ _ _ _ _ _ _ _ _ E ltac:(rewrite Es; reflexivity) Es').
    + exact (Hai eq_refl _ _ _ eq_refl).
  - exfalso. destruct (f_state f') as [ | |sr' cc'|sr' nps' cc'| | | | | | ] eqn:Es'; cbn in Hm'; try discriminate Hm'.
    + exact (holding_not_listen A ops _ _ _ _ _ _ _ _ _ _ E ltac:(rewrite Es; reflexivity) Es').
    + exact (Hai eq_refl _ _ _ eq_refl).
  - (* CheckTokenPass *)
    cbn [kind_of kind_in existsb state_kind_eqb orb] in *.
    destruct (check_pass_poll_run A ops _ _ _ _ _ _ _ _ _ E Es) as [(Hip & _)|[(Htx' & _)|(_ & _ & (f1 & Hrun & Hs1 & _ & Hfl & Hsh))]]; cbn [rx] in *.
    + exfalso. destruct (f_state f'); cbn in Hm', Hip; try discriminate Hm'; discriminate Hip.
    + exfalso. exact (Htx' Htx).
    + rewrite Hs1 in Hm'. destruct (f_state f1) as [ | |sr' cc'|sr' nps' cc'| | | | | | ] eqn:Es1; cbn in Hm'; try discriminate Hm'.
      * rewrite (hrun_listen_none A _ _ _ _ Hrun None None 0 _ _ eq_refl Es1) in Hm'. discriminate Hm'.
      * pose proof (hrun_marker A _ _ _ _ Hrun Hfl None None 0 _ _ _ eq_refl Es1) as Hs. rewrite Hm' in Hs. symmetry in Hs.
        exact (Hareq eq_refl Hfl Hsh Hs).
  - exfalso. destruct (f_state f') as [ | |sr' cc'|sr' nps' cc'| | | | | | ] eqn:Es'; cbn in Hm'; try discriminate Hm'.
    + exact (holding_not_listen A ops _ _ _ _ _ _ _ _ _ _ E ltac:(rewrite Es; reflexivity) Es').
    + exact (Hai eq_refl _ _ _ eq_refl).
Qed.

Lemma rq_api a f f' m g v : api_result p a f = Ok f' -> RQ f m -> RQ f' (fst (mon_after_api a v m g)).
Proof.
  intros E HR.
  assert (Hnew : forall p0 f1 m1, fdl_new p0 = Ok f1 -> RQ f1 m1).
  { intros p0 f1 m1 E1 src Hm. destruct (fdl_new_fields _ _ E1) as (S1 & _). rewrite S1 in Hm. discriminate Hm. }
  destruct a; cbn [api_result mon_after_api fst] in *.
  - eapply Hnew. exact E.
  - unfold set_online, set_state in E. injection E as <-. exact HR.
  - unfold set_offline, set_state in E. eapply Hnew. exact E.
  - discriminate E.
Qed.

Hypothesis Hreq : app_sends_requests.

Lemma e12b_ok f apps buf tl m now busy nb f' o apps' calls :
  Base A p n f apps buf tl m -> RQ f m ->
  poll ops f now (mkPhyIn busy (buf ++ nb)) apps = Ok (f', o, apps', calls) ->
  x_e12b p m (poll_event now busy (buf ++ nb) f' o calls) = [].
Proof.
  intros HB HR E. pose proof (x_k0_base A p n _ _ _ _ _ HB) as Hk0.
  destruct HB as [R Hp Hn Hv Hl Hpd Hb Htl].
  assert (Hxts : x_ts p = ts f) by (unfold x_ts, ts; rewrite Hp; reflexivity).
  set (s := poll_event now busy (buf ++ nb) f' o calls).
  unfold x_e12b. destruct (tx o) as [wire|] eqn:Etx.
  2:{ unfold x_txt. cbn [s poll_event s_tx]. rewrite Etx. reflexivity. }
  rewrite (x_txt_tx s wire) by (cbn; exact Etx).
  destruct (poll_txd A ops Hdata _ _ _ _ _ _ _ _ _ _ E Etx R) as
    [h pdu Hd (cs & i & hp & er & Hcs) Hu Hu'|da Hw Hd Hq Htok|a Hw Hd Hq Hg Ha Hne Hin Hg' Hst|src st Hw Hd Hc Hrs].
  - (* an application's telegram: a request *)
    pose proof (poll_results A ops _ _ _ _ _ _ _ _ E) as Hr. rewrite Hcs in Hr.
    apply Forall_app in Hr. destruct Hr as (_ & Hr). inversion Hr as [|? ? H1 _]. subst.
    destruct (H1 i hp (Some (wire, er)) eq_refl) as (a0 & now' & q & a' & Ea).
    destruct (Hreq _ _ _ _ _ _ _ Ea) as (h0 & pdu0 & fcb & rq & Hd0 & Hfc). rewrite Hd0. rewrite Hfc. reflexivity.
  - rewrite Hd. reflexivity.
  - rewrite Hd. reflexivity.
  - rewrite Hd. cbn [status_response_header h_fc h_sa h_da]. rewrite Hxts, Z.eqb_refl.
    assert (Hm : marker (f_state f) = Some src) by (destruct Hrs as [(cc & -> & _)|(nps & cc & -> & _)]; reflexivity).
    rewrite (HR _ Hm). cbn [opt_eqb]. rewrite Z.eqb_refl. cbn [check app].
    rewrite Hk0. destruct Hrs as [(cc & Es & -> & _)|(nps & cc & Es & -> & _)]; rewrite Es; cbn [kind_of state_kind_eqb].
    + unfold x_pre. rewrite Hv. cbn [view_of v_las_valid v_ps]. unfold ready_for_ring.
      destruct (match r_state (f_ring f) with LasValid => true | _ => false end && (src =? r_ps (f_ring f))); reflexivity.
    + reflexivity.
Qed.

End ReplyMon.
