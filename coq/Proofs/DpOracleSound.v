(* DP oracle soundness: the executable monitors of coq/Model/DpOracle.v which ocaml/run_dp.ml runs on the
   IMPLEMENTATION's transcripts (c03_monitor_ra, c04_monitor_ra, c08_monitor_ra, c14_monitor_ra, and the monitors
   c03_monitor .. c14_monitor they wrap) accept every transcript of the MODEL (DpRun.run_in + DpRun.auto_take +
   DpRun.observe, from DpRun.init_sys) that respects the FdlApplication contract (DpOracle.contract_ok) and the
   driver's guards (driver_ok; ra_sane; reset_guard = reset_address only to a station address 0..125 and only
   while no reply of that peripheral is outstanding, i.e. outside the known class F22
   DpOracle.known_reset_while_pending), for every configuration within the generator's limits (conf_ok).  So a
   failure code of these monitors on an implementation transcript that agrees with the model (0 divergences)
   is never a false alarm.
   Structure: PART 1-2 ghost wire monitors per slot (DpHistory.Inv) through one call of the master model;
   PART 3-5 the model's transcript, set-up, look-ups (the configuration `c` of the invariants is the one IN FORCE:
   station addresses as changed by reset_address); PART 6-11 per-address monitor states, the steps of C08, C03,
   C04; PART 12-17 C14; PART 18 a computed history; PART 20-22 reset_address steps, the induction over
   transcripts, the theorems cXX_oracle_sound_ra; PART 23 histories without reset_address (cXX_ra_agrees,
   cXX_oracle_sound), the guard from the driver's known-class test, a computed history with reset_address. *)
From PB Require Import Peripheral DpMaster DpRun DpOracle DpStepProofs C09Proofs C14Proofs C14History DpHistory.
From PB Require Import C04Proofs.
From Coq Require Import Sorted.

(* PART 1: ghost layer at the level of the DP master model *)

(* ------------------------------------------------------------------ ghost maps: one wire monitor per slot *)

Definition gmap := nat -> ghost.
Definition gupd (gs : gmap) (i : nat) (g : ghost) : gmap := fun j => if Nat.eqb j i then g else gs j.

Lemma gupd_same : forall gs i g, gupd gs i g i = g.
Proof. intros. unfold gupd. rewrite Nat.eqb_refl. reflexivity. Qed.

Lemma gupd_other : forall gs i g j, j <> i -> gupd gs i g j = gs j.
Proof. intros gs i g j H. unfold gupd. destruct (Nat.eqb_spec j i) as [E|_]; [now elim H|reflexivity]. Qed.

(* the slot whose turn it is: head of the remaining slots of the pass *)
Definition cur_is (m : dpm) (i : nat) : Prop := exists r, pos_rem m = i :: r.

Lemma cur_is_fun : forall m i j, cur_is m i -> cur_is m j -> i = j.
Proof. intros m i j [r Hr] [r' Hr']. rewrite Hr in Hr'. inversion Hr'. reflexivity. Qed.

Record GInv (pa : params) (m : dpm) (gs : gmap) (pend : option Z) : Prop := mkGInv {
  gi_inv : forall i p, slot m i = Some p -> Inv pa (pe_addr p) (pe_opts p) p (gs i);
  gi_out : forall i p, slot m i = Some p -> gh_out (gs i) = true -> cur_is m i /\ pend = Some (pe_addr p);
  gi_pend : forall da, pend = Some da ->
      exists i p, cur_is m i /\ slot m i = Some p /\ pe_addr p = da /\ gh_out (gs i) = true }.

Lemma slot_slots : forall m m' j, dm_slots m' = dm_slots m -> slot m' j = slot m j.
Proof. intros m m' j H. unfold slot. rewrite H. reflexivity. Qed.

Lemma ginv_frame : forall pa m m' gs pend,
  dm_slots m' = dm_slots m -> pos_rem m' = pos_rem m -> GInv pa m gs pend -> GInv pa m' gs pend.
Proof.
  intros pa m m' gs pend Hs Hp [H1 H2 H3]. constructor.
  - intros i p Hi. rewrite (slot_slots _ _ _ Hs) in Hi. apply H1; exact Hi.
  - intros i p Hi Ho. rewrite (slot_slots _ _ _ Hs) in Hi. unfold cur_is. rewrite Hp. apply (H2 i p Hi Ho).
  - intros da E. destruct (H3 da E) as (i & p & Hc & Hi & Ha & Ho). exists i, p. unfold cur_is in *. rewrite Hp.
    rewrite (slot_slots _ _ _ Hs). auto.
Qed.

(* with nothing pending no slot has an outstanding request *)
Lemma ginv_none_out : forall pa m gs i p, GInv pa m gs None -> slot m i = Some p -> gh_out (gs i) = false.
Proof.
  intros pa m gs i p G Hs. destruct (gh_out (gs i)) eqn:E; [|reflexivity].
  destruct (gi_out _ _ _ _ G i p Hs E) as [_ Hx]. discriminate Hx.
Qed.

(* nothing pending: the cycle position is irrelevant *)
Lemma ginv_none_slots : forall pa m m' gs,
  dm_slots m' = dm_slots m -> GInv pa m gs None -> GInv pa m' gs None.
Proof.
  intros pa m m' gs Hs G. constructor.
  - intros i p Hi. rewrite (slot_slots _ _ _ Hs) in Hi. apply (gi_inv _ _ _ _ G); exact Hi.
  - intros i p Hi Ho. rewrite (slot_slots _ _ _ Hs) in Hi. rewrite (ginv_none_out _ _ _ _ _ G Hi) in Ho. discriminate Ho.
  - intros da E. discriminate E.
Qed.

(* ------------------------------------------------------------------ slots that are passed over silently *)

(* what an idle turn (transmit_telegram with nothing to send and no event) may change, as far as the monitors
   can tell: nothing but the retry counter / the unanswered count of a peripheral that is not live *)
Record Quiet (q : periph) (g : ghost) (q' : periph) (g' : ghost) : Prop := mkQuiet {
  qu_addr : pe_addr q' = pe_addr q;
  qu_opts : pe_opts q' = pe_opts q;
  qu_state : pe_state q' = pe_state q;
  qu_pi_i : pe_pi_i q' = pe_pi_i q;
  qu_pi_q : pe_pi_q q' = pe_pi_q q;
  qu_diag : last_diagnostics q' = last_diagnostics q;
  qu_fl : pe_diag_in_flight q' = pe_diag_in_flight q;
  qu_last : gh_last g' = gh_last g;
  qu_acc : gh_acc g' = gh_acc g;
  qu_text : gh_text g' = gh_text g;
  qu_phase : gh_phase g' = gh_phase g;
  qu_unans : pe_state q <> PsOffline -> gh_unans g' = gh_unans g }.

Lemma quiet_refl : forall q g, Quiet q g q g.
Proof. intros. constructor; reflexivity. Qed.

Lemma quiet_trans : forall q g q1 g1 q2 g2, Quiet q g q1 g1 -> Quiet q1 g1 q2 g2 -> Quiet q g q2 g2.
Proof.
  intros q g q1 g1 q2 g2 [A1 A2 A3 A4 A5 A6 A7 A8 A9 A10 A11 A12] [B1 B2 B3 B4 B5 B6 B7 B8 B9 B10 B11 B12].
  constructor; try congruence.
  intro H. rewrite B12 by congruence. apply A12. exact H.
Qed.

Lemma idle_turn_quiet : forall pa a o op p g p1,
  Inv pa a o p g -> p_transmit pa op p = Ok (p1, PtxSkip None) -> Quiet p g p1 (gstep g WIdle).
Proof.
  intros pa a o op p g p1 I H.
  destruct (transmit_keeps _ _ _ _ _ H) as (Ha & Hi & Hq & Ho & Hn & Hd & Hx).
  destruct (transmit_facts _ _ _ _ _ H) as (_ & _ & Hle & Hr & Hs & Hfl & Hcase).
  constructor; cbn [gstep gh_last gh_acc gh_text gh_phase gh_unans]; auto.
  - unfold last_diagnostics. rewrite Hd, Hx. reflexivity.
  - intro Hlive. destruct Hcase as [(Hid & _)|(Hoff & _)]; [|now elim Hlive].
    symmetry. apply (inv_idle _ _ _ _ _ I Hid).
Qed.

(* ------------------------------------------------------------------ a user call keeps the invariant *)

Lemma inv_same_ctrl : forall pa a o p p' g, same_ctrl p p' -> Inv pa a o p g -> Inv pa a o p' g.
Proof.
  intros pa a o p p' g (Ha & Hs & Hr & Hf & Hi & Hfl & Ho & Hl) I.
  destruct I as [I1 I2 I3 I4 I5 I6 I7 I8 I9 I10 I11 I12 I13].
  assert (Hsv : state_service p' = state_service p) by (unfold state_service; rewrite Hs, Hfl; reflexivity).
  assert (Hid : idle_state p' <-> idle_state p) by (unfold idle_state; rewrite Hs, Ho; tauto).
  constructor; try congruence; try assumption.
  - rewrite Hs. exact I7.
  - destruct (gh_last g) as [h|]; [|congruence].
    destruct I9 as (f & H1 & H2 & H3). exists f. split; [exact H1|]. split; [exact H2|].
    destruct (gh_acc g); [congruence|]. rewrite Hf, Hs. exact H3.
  - intros h Hh Hacc. rewrite Hsv, Hs. apply I10; assumption.
  - intro H. apply I12. apply Hid. exact H.
Qed.

Lemma pos_rem_user : forall m m1, user_upd m m1 -> pos_rem m1 = pos_rem m.
Proof. intros m m1 Hu. destruct (user_upd_mask _ _ Hu) as (Hm & Hc & _). apply pos_rem_mask; assumption. Qed.

Lemma ginv_user : forall pa m m1 gs pend, user_upd m m1 -> GInv pa m gs pend -> GInv pa m1 gs pend.
Proof.
  intros pa m m1 gs pend Hu G. pose proof (pos_rem_user _ _ Hu) as Hp.
  destruct Hu as (i & p & p' & Hs & -> & Hsc).
  assert (Hsl : forall j q, slot (set_slots m (put_slot (dm_slots m) i p')) j = Some q ->
            exists q0, slot m j = Some q0 /\ (q = q0 \/ (j = i /\ q0 = p /\ q = p'))).
  { intros j q Hj. destruct (Nat.eq_dec i j) as [<-|Hne].
    - rewrite (slot_put_same _ _ p' _ Hs) in Hj. inversion Hj; subst q. exists p. split; [exact Hs|]. right. auto.
    - rewrite slot_put_other in Hj by exact Hne. exists q. auto. }
  pose proof Hsc as (Ha & _ & _ & _ & _ & _ & Ho & _).
  constructor.
  - intros j q Hj. destruct (Hsl j q Hj) as (q0 & Hq0 & [->|(-> & -> & ->)]).
    + apply (gi_inv _ _ _ _ G); exact Hq0.
    + rewrite Ha, Ho. apply (inv_same_ctrl _ _ _ _ _ _ Hsc). apply (gi_inv _ _ _ _ G); exact Hs.
  - intros j q Hj Hout. unfold cur_is. rewrite Hp. destruct (Hsl j q Hj) as (q0 & Hq0 & [->|(-> & -> & ->)]).
    + apply (gi_out _ _ _ _ G _ _ Hq0 Hout).
    + rewrite Ha. apply (gi_out _ _ _ _ G _ _ Hs Hout).
  - intros da E. destruct (gi_pend _ _ _ _ G da E) as (j & q & Hc & Hj & Hq & Ho').
    unfold cur_is. rewrite Hp. destruct (Nat.eq_dec i j) as [<-|Hne].
    + exists i, p'. rewrite (slot_put_same _ _ p' _ Hs). rewrite Hs in Hj. inversion Hj; subst q.
      repeat split; auto. congruence.
    + exists j, q. rewrite slot_put_other by exact Hne. auto.
Qed.

(* ------------------------------------------------------------------ one call of the slot loop *)

Lemma expects_reply_std' : forall pa a o f sv h pdu,
  std_request pa a o f sv h pdu -> tx_expects_reply h = Some (h_da h).
Proof.
  intros pa a o f sv h pdu H. destruct sv; cbn in H; try contradiction.
  - destruct H as (-> & _). reflexivity.
  - destruct H as (u & _ & -> & _). reflexivity.
  - destruct H as (u & _ & -> & _). reflexivity.
  - subst h. reflexivity.
Qed.

(* what one transmit call shows: nothing, one request, or one Offline event *)
Inductive tvis : Set := TvNone | TvSend (i : nat) (h : header) (pdu : bytes) | TvOff (i : nat).

Definition vis_index (v : tvis) : option nat :=
  match v with TvNone => None | TvSend i _ _ => Some i | TvOff i => Some i end.

Definition slot_post (pa : params) (op : opstate) (v : tvis) (j : nat) (q : periph) (g : ghost) (q' : periph) (g' : ghost)
  : Prop :=
  match v with
  | TvSend i h pdu =>
      if Nat.eqb j i then
        exists q1 g1, Quiet q g q1 g1 /\ Inv pa (pe_addr q) (pe_opts q) q1 g1 /\
          p_transmit pa op q1 = Ok (q', PtxSend h pdu) /\ g' = gstep g1 (WReq h pdu) /\
          req_ok pa (pe_addr q) (pe_opts q) g1 h pdu
      else Quiet q g q' g'
  | TvOff i =>
      if Nat.eqb j i then
        exists q1 g1, Quiet q g q1 g1 /\ Inv pa (pe_addr q) (pe_opts q) q1 g1 /\
          p_transmit pa op q1 = Ok (q', PtxSkip (Some EvOffline)) /\ g' = gstep g1 (WEvent EvOffline) /\
          ev_ok pa (pe_addr q) (pe_opts q) g1 (WEvent EvOffline)
      else Quiet q g q' g'
  | TvNone => Quiet q g q' g'
  end.

Definition tx_post (pa : params) (bufsize : nat) (m : dpm) (gs : gmap) (m' : dpm) (gs' : gmap) (o : txout) (v : tvis)
  : Prop :=
  mask m' = mask m /\ dm_op m' = dm_op m /\
  (forall j q, slot m j = Some q ->
     exists q', slot m' j = Some q' /\ slot_post pa (dm_op m) v j q (gs j) q' (gs' j)) /\
  match v with
  | TvSend i h pdu =>
      exists w q, o = Some (w, Some (h_da h)) /\ encode_data_in bufsize h pdu = Ok w /\
        ev_peripheral (dm_events m') = None /\ cur_is m' i /\ slot m i = Some q
  | TvOff i =>
      o = None /\ exists q, slot m i = Some q /\ ev_peripheral (dm_events m') = Some (mkHandle i (pe_addr q), EvOffline)
  | TvNone => o = None /\ ev_peripheral (dm_events m') = None
  end.

Lemma slot_post_quiet_other : forall pa op v j q g, vis_index v <> Some j -> slot_post pa op v j q g q g.
Proof.
  intros pa op v j q g H. destruct v as [|i h pdu|i]; cbn [slot_post vis_index] in *.
  - apply quiet_refl.
  - destruct (Nat.eqb_spec j i) as [->|_]; [now elim H|apply quiet_refl].
  - destruct (Nat.eqb_spec j i) as [->|_]; [now elim H|apply quiet_refl].
Qed.

Lemma slot_post_pre : forall pa op v j q g q0 g0 q' g',
  Quiet q g q0 g0 -> slot_post pa op v j q0 g0 q' g' -> slot_post pa op v j q g q' g'.
Proof.
  intros pa op v j q g q0 g0 q' g' Hq H. pose proof (qu_addr _ _ _ _ Hq) as Ha. pose proof (qu_opts _ _ _ _ Hq) as Ho.
  destruct v as [|i h pdu|i]; cbn [slot_post] in *.
  - eapply quiet_trans; eassumption.
  - destruct (Nat.eqb j i); [|eapply quiet_trans; eassumption].
    destruct H as (q1 & g1 & H1 & H2 & H3 & H4 & H5). exists q1, g1. rewrite <- Ha, <- Ho.
    split; [eapply quiet_trans; eassumption|]. auto.
  - destruct (Nat.eqb j i); [|eapply quiet_trans; eassumption].
    destruct H as (q1 & g1 & H1 & H2 & H3 & H4 & H5). exists q1, g1. rewrite <- Ha, <- Ho.
    split; [eapply quiet_trans; eassumption|]. auto.
Qed.

Lemma mask_slots : forall m m', dm_slots m' = dm_slots m -> mask m' = mask m.
Proof. intros m m' H. unfold mask. rewrite H. reflexivity. Qed.

(* the step of the current slot, common to all cases *)
Lemma cur_step : forall pa m gs index hd p p1 r,
  1 <= p_max_retry pa -> GInv pa m gs None ->
  dm_cycle m = CyDataExchange index -> get_at_index (dm_slots m) index = Ok (Some (hd, p)) ->
  p_transmit pa (dm_op m) p = Ok (p1, r) ->
  slot m (hd_index hd) = Some p /\ hd_addr hd = pe_addr p /\
  Inv pa (pe_addr p) (pe_opts p) p (gs (hd_index hd)) /\
  Inv pa (pe_addr p1) (pe_opts p1) p1 (gstep (gs (hd_index hd)) (wev_of_ptx r)) /\
  ev_ok pa (pe_addr p) (pe_opts p) (gs (hd_index hd)) (wev_of_ptx r) /\
  pe_addr p1 = pe_addr p /\ pe_opts p1 = pe_opts p.
Proof.
  intros pa m gs index hd p p1 r Hmax G Hc Hg Hp.
  destruct (cur_slot _ _ _ _ Hc Hg) as (rr & Hr & Hsl & Hadr).
  pose proof (gi_inv _ _ _ _ G _ _ Hsl) as I.
  assert (Hstep : p_step pa p (PcTransmit (dm_op m)) = Ok (p1, wev_of_ptx r)) by (cbn [p_step]; rewrite Hp; reflexivity).
  assert (Hct : contract_p (gh_out (gs (hd_index hd))) [wev_of_ptx r] = true) by (destruct r as [?|[?|]]; reflexivity).
  destruct (step_inv _ _ _ _ _ _ _ _ Hmax I Hstep Hct) as (I1 & Hok).
  destruct (transmit_keeps _ _ _ _ _ Hp) as (Ha & _ & _ & Ho & _).
  rewrite Ha, Ho.
  split; [exact Hsl|]. split; [exact Hadr|]. split; [exact I|]. split; [exact I1|]. split; [exact Hok|].
  split; reflexivity.
Qed.

(* all slots but i unchanged, slot i replaced *)
Lemma put_cur_slots : forall m hd p p1 j,
  slot m (hd_index hd) = Some p ->
  slot (put_cur m hd p1) j = if Nat.eqb j (hd_index hd) then Some p1 else slot m j.
Proof.
  intros m hd p p1 j Hs. unfold put_cur. destruct (Nat.eqb_spec j (hd_index hd)) as [->|Hne].
  - apply (slot_put_same _ _ p1 _ Hs).
  - apply slot_put_other. intro E; apply Hne; symmetry; exact E.
Qed.

Lemma ginv_after_skip : forall pa m gs hd p p1 g1 mx,
  GInv pa m gs None -> slot m (hd_index hd) = Some p ->
  Inv pa (pe_addr p1) (pe_opts p1) p1 g1 -> gh_out g1 = false ->
  dm_slots mx = dm_slots (put_cur m hd p1) ->
  GInv pa mx (gupd gs (hd_index hd) g1) None.
Proof.
  intros pa m gs hd p p1 g1 mx G Hs I Ho Hsl. constructor.
  - intros j q Hj. rewrite (slot_slots _ _ _ Hsl), (put_cur_slots _ _ _ _ _ Hs) in Hj.
    unfold gupd. destruct (Nat.eqb j (hd_index hd)).
    + inversion Hj; subst q. exact I.
    + apply (gi_inv _ _ _ _ G); exact Hj.
  - intros j q Hj Hout. exfalso. rewrite (slot_slots _ _ _ Hsl), (put_cur_slots _ _ _ _ _ Hs) in Hj.
    unfold gupd in Hout. destruct (Nat.eqb j (hd_index hd)).
    + rewrite Ho in Hout. discriminate Hout.
    + rewrite (ginv_none_out _ _ _ _ _ G Hj) in Hout. discriminate Hout.
  - intros da E. discriminate E.
Qed.

Lemma skip_out_false : forall g ev, gh_out (gstep g (wev_of_ptx (PtxSkip ev))) = false.
Proof. intros g [[]|]; reflexivity. Qed.

Lemma tx_rel_ghost : forall pa bufsize m m' o log,
  1 <= p_max_retry pa ->
  tx_rel pa bufsize m m' o log -> forall gs, GInv pa m gs None ->
  exists gs' v, GInv pa m' gs' (match o with Some (_, e) => e | None => None end) /\
                tx_post pa bufsize m gs m' gs' o v.
Proof.
  intros pa bufsize m m' o log Hmax H. induction H as
    [m Hc|m index Hc Hg|m index hd p p1 h pdu o Hc Hg Hp Hs|m index hd p p1 ev m2 Hc Hg Hp Hi
    |m index hd p p1 e m2 Hc Hg Hp Hi|m index hd p p1 m2 m' o log Hc Hg Hp Hi Hrel IH]; intros gs G.
  - (* cycle was completed: only the cycle state is reset *)
    exists gs, TvNone. split; [apply (ginv_none_slots pa m); [reflexivity|exact G]|].
    split; [reflexivity|]. split; [reflexivity|]. split; [|split; reflexivity].
    intros j q Hj. exists q. split; [exact Hj|apply quiet_refl].
  - exists gs, TvNone. split; [apply (ginv_none_slots pa m); [reflexivity|exact G]|].
    split; [reflexivity|]. split; [reflexivity|]. split; [|split; reflexivity].
    intros j q Hj. exists q. split; [exact Hj|apply quiet_refl].
  - (* a request *)
    destruct (cur_step _ _ _ _ _ _ _ _ Hmax G Hc Hg Hp) as (Hsl & Hadr & I & I1 & Hok & Ha & Ho).
    cbn [wev_of_ptx] in I1, Hok. cbn [ev_ok] in Hok.
    destruct (cur_slot _ _ _ _ Hc Hg) as (rr & Hr & _ & _).
    destruct (put_cur_facts m hd p p1 Hsl) as (Hmk & Hcy & Hpr & _).
    pose proof Hok as (f & Hstd & _).
    destruct (std_request_classify _ _ _ _ _ _ _ Hstd) as (_ & Hda & _ & _).
    unfold send_data in Hs. destruct (encode_data_in bufsize h pdu) as [w| |] eqn:He; cbn [bind] in Hs; try discriminate Hs.
    inversion Hs; subst o. clear Hs. rewrite (expects_reply_std' _ _ _ _ _ _ _ Hstd).
    exists (gupd gs (hd_index hd) (gstep (gs (hd_index hd)) (WReq h pdu))), (TvSend (hd_index hd) h pdu).
    split.
    + constructor.
      * intros j q Hj. change (slot (put_cur m hd p1) j = Some q) in Hj. rewrite (put_cur_slots _ _ _ _ _ Hsl) in Hj.
        unfold gupd. destruct (Nat.eqb j (hd_index hd)).
        -- inversion Hj; subst q. exact I1.
        -- apply (gi_inv _ _ _ _ G); exact Hj.
      * intros j q Hj Hout. change (slot (put_cur m hd p1) j = Some q) in Hj. rewrite (put_cur_slots _ _ _ _ _ Hsl) in Hj.
        unfold gupd in Hout. destruct (Nat.eqb_spec j (hd_index hd)) as [->|Hne].
        -- inversion Hj; subst q. split; [exists rr; rewrite pos_rem_events, Hpr; exact Hr|]. congruence.
        -- rewrite (ginv_none_out _ _ _ _ _ G Hj) in Hout. discriminate Hout.
      * intros da E. inversion E; subst da. exists (hd_index hd), p1.
        split; [exists rr; rewrite pos_rem_events, Hpr; exact Hr|].
        split; [change (slot (put_cur m hd p1) (hd_index hd) = Some p1); rewrite (put_cur_slots _ _ _ _ _ Hsl), Nat.eqb_refl; reflexivity|].
        split; [congruence|]. rewrite gupd_same. reflexivity.
    + split; [exact Hmk|]. split; [reflexivity|]. split.
      * intros j q Hj. change (slot (set_events (put_cur m hd p1) (mkEvents false None)) j) with (slot (put_cur m hd p1) j).
        rewrite (put_cur_slots _ _ _ _ _ Hsl). cbn [slot_post]. unfold gupd.
        destruct (Nat.eqb_spec j (hd_index hd)) as [->|Hne].
        -- exists p1. split; [reflexivity|]. rewrite Hsl in Hj. inversion Hj; subst q.
           exists p, (gs (hd_index hd)). split; [apply quiet_refl|]. auto.
        -- exists q. split; [exact Hj|apply quiet_refl].
      * exists w, p. split; [reflexivity|]. split; [exact He|]. split; [reflexivity|].
        split; [exists rr; rewrite pos_rem_events, Hpr; exact Hr|exact Hsl].
  - (* last slot of the pass has nothing to send *)
    destruct (cur_step _ _ _ _ _ _ _ _ Hmax G Hc Hg Hp) as (Hsl & Hadr & I & I1 & Hok & Ha & Ho).
    destruct (cur_slot _ _ _ _ Hc Hg) as (rr & Hr & _ & _).
    destruct (put_cur_facts m hd p p1 Hsl) as (Hmk & Hcy & Hpr & _). rewrite Hc in Hcy. rewrite Hr in Hpr.
    destruct (increment_pos _ _ _ _ _ _ Hcy Hpr Hi) as (Hsl2 & Hop2 & _).
    set (g1 := gstep (gs (hd_index hd)) (wev_of_ptx (PtxSkip ev))) in *.
    exists (gupd gs (hd_index hd) g1).
    exists (match ev with Some _ => TvOff (hd_index hd) | None => TvNone end).
    split; [apply (ginv_after_skip pa m gs hd p p1 g1); auto; apply skip_out_false|].
    split; [rewrite <- Hmk; apply mask_slots; exact Hsl2|]. split; [cbn; rewrite Hop2; reflexivity|]. split.
    + intros j q Hj. rewrite (slot_slots (put_cur m hd p1) _) by exact Hsl2. rewrite (put_cur_slots _ _ _ _ _ Hsl).
      unfold gupd. destruct (Nat.eqb_spec j (hd_index hd)) as [->|Hne].
      * exists p1. split; [reflexivity|]. rewrite Hsl in Hj. inversion Hj; subst q.
        destruct ev as [e|]; cbn [slot_post].
        -- rewrite Nat.eqb_refl. exists p, (gs (hd_index hd)). split; [apply quiet_refl|]. split; [exact I|].
           cbn [wev_of_ptx ev_ok] in Hok. destruct Hok as (-> & Hok). split; [exact Hp|]. split; [reflexivity|].
           cbn [ev_ok]. split; [reflexivity|exact Hok].
        -- apply (idle_turn_quiet _ _ _ _ _ _ _ I Hp).
      * exists q. split; [exact Hj|]. apply slot_post_quiet_other.
        destruct ev; cbn; [intro E; inversion E; subst; now elim Hne|discriminate].
    + destruct ev as [e|]; cbn [opt_pair].
      * cbn [wev_of_ptx ev_ok] in Hok. destruct Hok as (-> & _). split; [reflexivity|]. exists p. split; [exact Hsl|].
        cbn. rewrite <- Hadr. destruct hd; reflexivity.
      * split; reflexivity.
  - (* event, the pass goes on at the next call *)
    destruct (cur_step _ _ _ _ _ _ _ _ Hmax G Hc Hg Hp) as (Hsl & Hadr & I & I1 & Hok & Ha & Ho).
    destruct (cur_slot _ _ _ _ Hc Hg) as (rr & Hr & _ & _).
    destruct (put_cur_facts m hd p p1 Hsl) as (Hmk & Hcy & Hpr & _). rewrite Hc in Hcy. rewrite Hr in Hpr.
    destruct (increment_pos _ _ _ _ _ _ Hcy Hpr Hi) as (Hsl2 & Hop2 & _).
    set (g1 := gstep (gs (hd_index hd)) (wev_of_ptx (PtxSkip (Some e)))) in *.
    exists (gupd gs (hd_index hd) g1), (TvOff (hd_index hd)).
    split; [apply (ginv_after_skip pa m gs hd p p1 g1); auto; apply skip_out_false|].
    cbn [wev_of_ptx ev_ok] in Hok. destruct Hok as (-> & Hok).
    split; [rewrite <- Hmk; apply mask_slots; exact Hsl2|]. split; [cbn; rewrite Hop2; reflexivity|]. split.
    + intros j q Hj. rewrite (slot_slots (put_cur m hd p1) _) by exact Hsl2. rewrite (put_cur_slots _ _ _ _ _ Hsl).
      unfold gupd. cbn [slot_post]. destruct (Nat.eqb_spec j (hd_index hd)) as [->|Hne].
      * exists p1. split; [reflexivity|]. rewrite Hsl in Hj. inversion Hj; subst q.
        exists p, (gs (hd_index hd)). split; [apply quiet_refl|]. split; [exact I|].
        split; [exact Hp|]. split; [reflexivity|]. cbn [ev_ok]. split; [reflexivity|exact Hok].
      * exists q. split; [exact Hj|apply quiet_refl].
    + split; [reflexivity|]. exists p. split; [exact Hsl|]. cbn. rewrite <- Hadr. destruct hd; reflexivity.
  - (* nothing to send, next slot *)
    destruct (cur_step _ _ _ _ _ _ _ _ Hmax G Hc Hg Hp) as (Hsl & Hadr & I & I1 & Hok & Ha & Ho).
    destruct (cur_slot _ _ _ _ Hc Hg) as (rr & Hr & _ & _).
    destruct (put_cur_facts m hd p p1 Hsl) as (Hmk & Hcy & Hpr & _). rewrite Hc in Hcy. rewrite Hr in Hpr.
    destruct (increment_pos _ _ _ _ _ _ Hcy Hpr Hi) as (Hsl2 & Hop2 & _).
    set (g1 := gstep (gs (hd_index hd)) (wev_of_ptx (PtxSkip None))) in *.
    assert (G2 : GInv pa m2 (gupd gs (hd_index hd) g1) None)
      by (apply (ginv_after_skip pa m gs hd p p1 g1); auto).
    destruct (IH _ G2) as (gs' & v & G' & Hmk' & Hop' & Hslots & Hvis).
    exists gs', v. split; [exact G'|].
    assert (Hop2' : dm_op m2 = dm_op m) by (rewrite Hop2; reflexivity).
    split; [rewrite Hmk', <- Hmk; apply mask_slots; exact Hsl2|]. split; [congruence|]. split.
    + intros j q Hj.
      assert (Hj2 : slot m2 j = Some (if Nat.eqb j (hd_index hd) then p1 else q)).
      { rewrite (slot_slots (put_cur m hd p1) _) by exact Hsl2. rewrite (put_cur_slots _ _ _ _ _ Hsl).
        destruct (Nat.eqb_spec j (hd_index hd)) as [->|_]; [reflexivity|exact Hj]. }
      destruct (Hslots _ _ Hj2) as (q' & Hq' & Hpost). exists q'. split; [exact Hq'|].
      rewrite Hop2' in Hpost. unfold gupd in Hpost.
      destruct (Nat.eqb_spec j (hd_index hd)) as [->|Hne]; [|exact Hpost].
      rewrite Hsl in Hj. inversion Hj; subst q.
      eapply slot_post_pre; [|exact Hpost]. apply (idle_turn_quiet _ _ _ _ _ _ _ I Hp).
    + destruct v as [|i h pdu|i]; [exact Hvis| |].
      * destruct Hvis as (w & q & H1 & H2 & H3 & H4 & H5).
        rewrite (slot_slots (put_cur m hd p1) _) in H5 by exact Hsl2. rewrite (put_cur_slots _ _ _ _ _ Hsl) in H5.
        destruct (Nat.eqb_spec i (hd_index hd)) as [->|_].
        -- exists w, p. auto.
        -- exists w, q. auto.
      * destruct Hvis as (H1 & q & H5 & H6).
        rewrite (slot_slots (put_cur m hd p1) _) in H5 by exact Hsl2. rewrite (put_cur_slots _ _ _ _ _ Hsl) in H5.
        split; [exact H1|]. destruct (Nat.eqb_spec i (hd_index hd)) as [->|_].
        -- exists p. split; [exact Hsl|]. inversion H5; subst q. rewrite H6, Ha. reflexivity.
        -- exists q. auto.
Qed.

(* PART 2: reply, time-out, add; association lists; what the standard analyser sees of a model step *)

(* ------------------------------------------------------------------ receive_reply *)

Lemma reply_out_false : forall g t ev, gh_out (gstep g (WReply t ev)) = false.
Proof. intros g t ev. cbn [gstep]. destruct (reply_accepted _ t); reflexivity. Qed.

Lemma rx_ghost : forall pa m a t m' log gs da,
  1 <= p_max_retry pa -> GInv pa m gs (Some da) ->
  dp_receive_reply_g m a t = Ok (m', log) ->
  exists i p p1 ev cc,
    log = [GReply i p p1 t ev] /\
    cur_is m i /\ slot m i = Some p /\ pe_addr p = a /\ a = da /\ p_receive_reply p t = Ok (p1, ev) /\
    slot m' i = Some p1 /\ (forall j, j <> i -> slot m' j = slot m j) /\ mask m' = mask m /\
    dm_events m' = mkEvents cc (opt_pair (mkHandle i a) ev) /\ dm_op m' = dm_op m /\
    Inv pa a (pe_opts p) p (gs i) /\ gh_out (gs i) = true /\
    GInv pa m' (gupd gs i (gstep (gs i) (WReply t ev))) None /\
    exists r, pos_rem m = i :: r /\
      if cc then dm_cycle m' = CyCompleted /\ r = []
      else r <> [] /\ pos_rem m' = r /\ dm_cycle m' <> CyCompleted.
Proof.
  intros pa m a t m' log gs da Hmax G H.
  destruct (rx_cases _ _ _ _ _ H) as (index & hd & p & p1 & ev & m2 & cc & Hc & Hg & Ha & Hrx & Hi & Hm & Hlog).
  destruct (cur_slot _ _ _ _ Hc Hg) as (rr & Hr & Hsl & Hadr).
  destruct (put_cur_facts m hd p p1 Hsl) as (Hmk & Hcy & Hpr & _). rewrite Hc in Hcy. rewrite Hr in Hpr.
  destruct (increment_pos _ _ _ _ _ _ Hcy Hpr Hi) as (Hsl2 & Hop2 & _ & _ & Hcyc).
  destruct (gi_pend _ _ _ _ G da eq_refl) as (i' & p' & Hc' & Hs' & Ha' & Ho').
  assert (Ei : i' = hd_index hd) by (apply (cur_is_fun m); [exact Hc'|exists rr; exact Hr]). subst i'.
  rewrite Hsl in Hs'. inversion Hs'; subst p'. clear Hs'.
  pose proof (gi_inv _ _ _ _ G _ _ Hsl) as I.
  assert (Hstep : p_step pa p (PcReply t) = Ok (p1, WReply t ev)) by (cbn [p_step]; rewrite Hrx; reflexivity).
  assert (Hct : contract_p (gh_out (gs (hd_index hd))) [WReply t ev] = true) by (cbn [contract_p]; rewrite Ho'; reflexivity).
  destruct (step_inv _ _ _ _ _ _ _ _ Hmax I Hstep Hct) as (I1 & _).
  destruct (receive_facts _ _ _ _ Hrx) as (Hap & Hop & _).
  assert (Hslots : forall j, slot m' j = if Nat.eqb j (hd_index hd) then Some p1 else slot m j).
  { intro j. rewrite Hm. change (slot (set_events m2 _) j) with (slot m2 j).
    rewrite (slot_slots (put_cur m hd p1) _) by exact Hsl2. apply (put_cur_slots _ _ _ _ _ Hsl). }
  exists (hd_index hd), p, p1, ev, cc.
  split; [exact Hlog|]. split; [exists rr; exact Hr|]. split; [exact Hsl|]. split; [symmetry; exact Ha|].
  split; [congruence|]. split; [exact Hrx|].
  split; [rewrite Hslots, Nat.eqb_refl; reflexivity|].
  split; [intros j Hj; rewrite Hslots; destruct (Nat.eqb_spec j (hd_index hd)); [contradiction|reflexivity]|].
  split; [rewrite Hm; rewrite <- Hmk; apply mask_slots; exact Hsl2|].
  split; [rewrite Hm; cbn [dm_events set_events]; rewrite Ha, <- Hadr; destruct hd; reflexivity|].
  split; [rewrite Hm; cbn; rewrite Hop2; reflexivity|].
  split; [rewrite Ha; exact I|]. split; [exact Ho'|].
  split; [|exists rr; split; [exact Hr|]; rewrite Hm; destruct cc;
            [exact Hcyc|destruct Hcyc as (H1 & H2 & b & H3); split; [exact H1|]; split; [exact H2|];
             cbn [dm_cycle set_events]; rewrite H3; discriminate]].
  constructor.
  - intros j q Hj. rewrite Hslots in Hj. unfold gupd. destruct (Nat.eqb j (hd_index hd)).
    + inversion Hj; subst q. rewrite Hap, Hop. exact I1.
    + apply (gi_inv _ _ _ _ G); exact Hj.
  - intros j q Hj Hout. exfalso. rewrite Hslots in Hj. unfold gupd in Hout.
    destruct (Nat.eqb_spec j (hd_index hd)) as [->|Hne].
    + rewrite reply_out_false in Hout. discriminate Hout.
    + destruct (gi_out _ _ _ _ G _ _ Hj Hout) as [Hcj _]. apply Hne. apply (cur_is_fun m); [exact Hcj|exists rr; exact Hr].
  - intros d E. discriminate E.
Qed.

(* ------------------------------------------------------------------ handle_timeout / request dropped by the FDL *)

Lemma timeout_ghost : forall pa m gs da,
  1 <= p_max_retry pa -> GInv pa m gs (Some da) ->
  exists i p, cur_is m i /\ slot m i = Some p /\ pe_addr p = da /\ gh_out (gs i) = true /\
     GInv pa m (gupd gs i (gstep (gs i) WTimeout)) None.
Proof.
  intros pa m gs da Hmax G.
  destruct (gi_pend _ _ _ _ G da eq_refl) as (i & p & Hc & Hs & Ha & Ho).
  exists i, p. repeat (split; [assumption|]).
  pose proof (gi_inv _ _ _ _ G _ _ Hs) as I.
  assert (Hct : contract_p (gh_out (gs i)) [WTimeout] = true) by (cbn [contract_p]; rewrite Ho; reflexivity).
  destruct (step_inv pa _ _ p (gs i) PcTimeout p WTimeout Hmax I eq_refl Hct) as (I1 & _).
  constructor.
  - intros j q Hj. unfold gupd. destruct (Nat.eqb_spec j i) as [->|Hne].
    + rewrite Hs in Hj. inversion Hj; subst q. exact I1.
    + apply (gi_inv _ _ _ _ G); exact Hj.
  - intros j q Hj Hout. exfalso. unfold gupd in Hout. destruct (Nat.eqb_spec j i) as [->|Hne].
    + discriminate Hout.
    + destruct (gi_out _ _ _ _ G _ _ Hj Hout) as [Hcj _]. apply Hne. apply (cur_is_fun m); assumption.
  - intros d E. discriminate E.
Qed.

(* ------------------------------------------------------------------ add *)

Lemma first_free_spec : forall l k i, first_free l k = Some i ->
  exists j, i = (k + j)%nat /\ nth_error l j = Some None.
Proof.
  induction l as [|x l IH]; intros k i H; [discriminate H|].
  destruct x as [p|]; cbn [first_free] in H.
  - destruct (IH _ _ H) as (j & -> & Hj). exists (S j). split; [lia|exact Hj].
  - inversion H; subst. exists 0%nat. split; [lia|reflexivity].
Qed.

Lemma first_free_none : forall l k, first_free l k = None -> forall j, nth_error l j <> Some None.
Proof.
  induction l as [|x l IH]; intros k H j; [destruct j; discriminate|].
  destruct x as [p|]; cbn [first_free] in H; [|discriminate H].
  destruct j; cbn; [discriminate|]. apply (IH _ H).
Qed.

Definition add_post (m : dpm) (p0 : periph) (m' : dpm) (h : handle) : Prop :=
  slot m (hd_index h) = None /\ slot m' (hd_index h) = Some p0 /\
  (forall j, j <> hd_index h -> slot m' j = slot m j) /\ hd_addr h = pe_addr p0 /\
  dm_op m' = dm_op m /\ dm_events m' = dm_events m /\ dm_cycle m' = dm_cycle m /\ dm_last_gc m' = dm_last_gc m /\
  dm_owned m' = dm_owned m.

Lemma dp_add_post : forall m p0 m' h, dp_add m p0 = Ok (m', h) -> add_post m p0 m' h.
Proof.
  intros m p0 m' h H. unfold dp_add in H. unfold add_post.
  destruct (first_free (dm_slots m) 0) as [i|] eqn:Hf.
  - unfold bind, u8_index in H. destruct (Nat.ltb 255 i); [discriminate H|]. inversion H; subst m' h. clear H.
    destruct (first_free_spec _ _ _ Hf) as (j & -> & Hj). cbn [Nat.add hd_index hd_addr].
    split; [unfold slot; rewrite Hj; reflexivity|].
    split; [unfold slot; cbn [dm_slots set_slots]; rewrite (put_slot_same _ _ p0 _ Hj); reflexivity|].
    split; [intros k Hk; unfold slot; cbn [dm_slots set_slots]; rewrite put_slot_other by (intro E; apply Hk; symmetry; exact E); reflexivity|].
    repeat split; reflexivity.
  - destruct (dm_owned m) eqn:Hown; [|discriminate H].
    unfold bind, u8_index in H. destruct (Nat.ltb 255 (length (dm_slots m))); [discriminate H|]. inversion H; subst m' h. clear H.
    cbn [hd_index hd_addr].
    assert (Hn : nth_error (dm_slots m) (length (dm_slots m)) = None) by (apply nth_error_None; lia).
    split; [unfold slot; rewrite Hn; reflexivity|].
    split; [unfold slot; cbn [dm_slots set_slots]; rewrite nth_error_app2 by lia; rewrite Nat.sub_diag; reflexivity|].
    split.
    { intros k Hk. unfold slot. cbn [dm_slots set_slots].
      destruct (Nat.lt_ge_cases k (length (dm_slots m))) as [Hlt|Hge].
      - rewrite nth_error_app1 by exact Hlt. reflexivity.
      - rewrite nth_error_app2 by exact Hge.
        assert (Hk2 : nth_error (dm_slots m) k = None) by (apply nth_error_None; exact Hge). rewrite Hk2.
        destruct (k - length (dm_slots m))%nat as [|n] eqn:E; [lia|]. destruct n; reflexivity. }
    repeat split; try reflexivity. cbn. exact Hown.
Qed.

(* occupied slots after an add: the same plus the new one; with nothing pending the cycle position does
   not matter for the ghost invariant *)
Lemma add_ghost : forall pa m a o i q d m' h gs,
  0 <= p_max_retry pa ->
  dp_add m (periph_new a o i q d) = Ok (m', h) -> GInv pa m gs None ->
  GInv pa m' (gupd gs (hd_index h) ghost0) None.
Proof.
  intros pa m a o i q d m' h gs Hmax H G.
  destruct (dp_add_post _ _ _ _ H) as (Hfree & Hnew & Hoth & _).
  constructor.
  - intros j p Hj. unfold gupd. destruct (Nat.eqb_spec j (hd_index h)) as [->|Hne].
    + rewrite Hnew in Hj. inversion Hj; subst p. apply inv_init. exact Hmax.
    + rewrite Hoth in Hj by exact Hne. apply (gi_inv _ _ _ _ G); exact Hj.
  - intros j p Hj Hout. exfalso. unfold gupd in Hout. destruct (Nat.eqb_spec j (hd_index h)) as [->|Hne].
    + discriminate Hout.
    + rewrite Hoth in Hj by exact Hne. rewrite (ginv_none_out _ _ _ _ _ G Hj) in Hout. discriminate Hout.
  - intros da E. discriminate E.
Qed.

(* ------------------------------------------------------------------ association lists keyed by address *)

Lemma alist_get_set_same : forall A (d : A) l k v, alist_get d (alist_set l k v) k = v.
Proof.
  intros A d. induction l as [|[k' v'] l IH]; intros k v; cbn [alist_set alist_get].
  - rewrite Z.eqb_refl. reflexivity.
  - destruct (Z.eqb_spec k k') as [->|Hne]; cbn [alist_get].
    + rewrite Z.eqb_refl. reflexivity.
    + destruct (Z.eqb_spec k k'); [contradiction|]. apply IH.
Qed.

Lemma alist_get_set_other : forall A (d : A) l k v k0, k0 <> k -> alist_get d (alist_set l k v) k0 = alist_get d l k0.
Proof.
  intros A d. induction l as [|[k' v'] l IH]; intros k v k0 Hne; cbn [alist_set alist_get].
  - destruct (Z.eqb_spec k0 k); [contradiction|]. reflexivity.
  - destruct (Z.eqb_spec k k') as [->|Hne']; cbn [alist_get].
    + destruct (Z.eqb_spec k0 k'); [contradiction|]. reflexivity.
    + destruct (Z.eqb_spec k0 k'); [reflexivity|]. apply IH. exact Hne.
Qed.

(* ------------------------------------------------------------------ what the analyser sees *)

(* requests of a configuration within the limits are encoded as the frame format says and decode to themselves *)
Lemma encode_decode : forall bufsize h pdu w,
  wf_header h -> (length_byte h (length pdu) <= 249)%nat -> (telegram_len_data h (length pdu) <= bufsize)%nat ->
  encode_data_in bufsize h pdu = Ok w ->
  decode w = Ok (Accept (TData h pdu) (length w)).
Proof.
  intros bufsize h pdu w Hwf Hlb Hsz He.
  rewrite (encode_data_in_spec _ _ _ Hwf Hlb Hsz) in He. inversion He; subst w.
  pose proof (decode_data_frame h pdu [] Hwf Hlb) as Hd. rewrite app_nil_r in Hd.
  rewrite Hd, frame_spec_length. reflexivity.
Qed.

Lemma length_byte_le : forall h n, (length_byte h n <= 5 + n)%nat.
Proof. intros h n. unfold length_byte. destruct (h_dsap h), (h_ssap h); cbn; lia. Qed.

Lemma telegram_len_le : forall h n, (telegram_len_data h n <= length_byte h n + 6)%nat.
Proof.
  intros h n. unfold telegram_len_data.
  destruct (Nat.eqb (length_byte h n) 3); cbn [orb]; [lia|]. destruct (Nat.eqb (length_byte h n) 11); lia.
Qed.

Lemma view_tx_none : forall now hp tk obs op, view_of (mkStep (InTx now hp) false (OutTx None) tk obs op) = VNoTx.
Proof. reflexivity. Qed.

Lemma view_tx_req : forall now hp tk obs op w h pdu f rq,
  decode w = Ok (Accept (TData h pdu) (length w)) -> h_fc h = FcRequest f rq ->
  view_of (mkStep (InTx now hp) false (OutTx (Some (w, Some (h_da h)))) tk obs op) = VReq (h_da h) (classify h) h pdu.
Proof.
  intros now hp tk obs op w h pdu f rq Hd Hfc. unfold view_of. cbn [ts_in ts_out]. rewrite Hd, Nat.eqb_refl. cbn [negb].
  rewrite Hfc, Z.eqb_refl. reflexivity.
Qed.

Lemma view_tx_sdn : forall now hp tk obs op w h pdu f rq,
  decode w = Ok (Accept (TData h pdu) (length w)) -> h_fc h = FcRequest f rq ->
  view_of (mkStep (InTx now hp) false (OutTx (Some (w, None))) tk obs op) = VSdn h pdu.
Proof.
  intros now hp tk obs op w h pdu f rq Hd Hfc. unfold view_of. cbn [ts_in ts_out]. rewrite Hd, Nat.eqb_refl. cbn [negb].
  rewrite Hfc. reflexivity.
Qed.

Lemma view_rx : forall now addr w tk obs op t n,
  decode w = Ok (Accept t n) -> view_of (mkStep (InRx now addr w) false OutUnit tk obs op) = VReply addr t.
Proof. intros now addr w tk obs op t n Hd. unfold view_of. cbn [ts_in ts_out]. rewrite Hd. reflexivity. Qed.

(* the function code byte of a request carries the frame count bit in bit 5 *)
Lemma fc_byte_fcb : forall f rq, negb (Z.land (fc_to_byte (FcRequest f rq)) 32 =? 0) = fcbit_fcb f.
Proof. intros f rq. destruct f, rq; reflexivity. Qed.

(* PART 3: the transcript of the model, configurations, the system invariant, set-up *)

(* ------------------------------------------------------------------ the model's own transcript *)

(* events collected at a step: the take_last_events() that follows a callback (auto mode) or the step itself *)
Definition taken_of (tk : option dpevents) (o : tr_out) : option dpevents :=
  match tk with
  | Some e => Some e
  | None => match o with OutEvents e => Some e | _ => None end
  end.

(* one step of ocaml/run_dp.ml on the model side: DpRun.run_in, then DpRun.auto_take, then the observables *)
Definition model_step (s : sys) (i : tr_in) : res (sys * tstep) :=
  let* (s1, o) := run_in s i in
  let s2 := fst (auto_take s1 i) in
  Ok (s2, mkStep i false o (taken_of (snd (auto_take s1 i)) o) (observe s2) (observe_op s2)).

Fixpoint model_run (s : sys) (ins : list tr_in) : res (sys * list tstep) :=
  match ins with
  | [] => Ok (s, [])
  | i :: r =>
      let* (s1, t) := model_step s i in
      let* (s2, tr) := model_run s1 r in
      Ok (s2, t :: tr)
  end.

(* ------------------------------------------------------------------ the driver's guards (harness/src/dp.rs) *)

(* how the outstanding request evolves along a transcript (as in DpOracle.contract_from) *)
Definition pend_next_v (pend : option Z) (v : view) : option Z :=
  match v with
  | VReq da _ _ _ => Some da
  | VSdn _ _ | VNoTx | VBadTx => None
  | VReply _ _ | VTimeout _ | VAbandon => None
  | VCrash | VOther => pend
  end.

Definition is_bad (o : tr_out) : bool := match o with OutBad => true | _ => false end.

(* no ill-formed input (OutBad: "driver error"); add(k) only for a peripheral that is not yet in the master
   and only between requests (op ADD<k> of the harness; ADDF is not generated) *)
Fixpoint driver_from (hs : list (option handle)) (pend : option Z) (l : list tstep) : bool :=
  match l with
  | [] => true
  | s :: r =>
      if is_bad (ts_out s) then false else
      match ts_in s with
      | InAdd k =>
          match nth_error hs k, pend with
          | Some None, None =>
              driver_from (match ts_out s with OutHandle h => set_nth hs k (Some h) | _ => hs end) pend r
          | _, _ => false
          end
      | _ => driver_from hs (pend_next_v pend (view_of s)) r
      end
  end.
Definition driver_ok (hs0 : list (option handle)) (l : list tstep) : bool := driver_from hs0 None l.

(* ------------------------------------------------------------------ configurations of the generator *)

(* pre-placed peripherals sit in distinct slots of the storage *)
Definition placed_ok (c : conf) : Prop :=
  forall k pc i, nth_error (cf_periphs c) k = Some pc -> pc_slot pc = Some i ->
    (i < cf_nslots c)%nat /\
    forall k' pc', nth_error (cf_periphs c) k' = Some pc' -> pc_slot pc' = Some i -> k' = k.

Record conf_ok (c : conf) : Prop := mkConfOk {
  co_auto : cf_autotake c = true;                      (* the monitors are only run on such transcripts *)
  co_sane : conf_sane c = true;
  co_limits : conf_within_limits c = true;
  co_retry : 1 <= p_max_retry (cf_params c);           (* ParametersBuilder allows 1..15 *)
  co_own : 0 <= p_address (cf_params c) <= 126;
  co_placed : placed_ok c }.

(* ------------------------------------------------------------------ the system invariant *)

Definition fits (pc : pconf) (p : periph) : Prop :=
  pe_addr p = pc_addr pc /\ pe_opts p = pc_opts pc /\ length (pe_pi_i p) = pc_in pc /\ length (pe_pi_q p) = pc_out pc.

(* c = the configuration in force: the configuration of the case (sy_conf s) with the station addresses as
   changed by reset_address calls *)
Definition conf_like (c0 c : conf) : Prop :=
  cf_params c = cf_params c0 /\ cf_bufsize c = cf_bufsize c0 /\ cf_autotake c = cf_autotake c0 /\
  length (cf_periphs c) = length (cf_periphs c0).

Lemma conf_like_refl : forall c, conf_like c c.
Proof. intro c. repeat split; reflexivity. Qed.

(* handles are compared by slot index only: the address a handle carries is stale after reset_address *)
Record SInv (c : conf) (s : sys) : Prop := mkSInv {
  si_conf : conf_like (sy_conf s) c;
  si_len : length (sy_handles s) = length (cf_periphs c);
  si_events : dm_events (sy_m s) = events_default;
  si_h : forall k h, nth_error (sy_handles s) k = Some (Some h) ->
           exists pc p, nth_error (cf_periphs c) k = Some pc /\ slot (sy_m s) (hd_index h) = Some p /\ fits pc p;
  si_s : forall i p, slot (sy_m s) i = Some p ->
           exists k h, nth_error (sy_handles s) k = Some (Some h) /\ hd_index h = i;
  si_late : forall k, nth_error (sy_handles s) k = Some None ->
           nth_error (cf_periphs (sy_conf s)) k = nth_error (cf_periphs c) k }.

Definition shape_eq (q q' : periph) : Prop :=
  pe_addr q' = pe_addr q /\ pe_opts q' = pe_opts q /\ length (pe_pi_i q') = length (pe_pi_i q) /\
  length (pe_pi_q q') = length (pe_pi_q q).

Lemma sinv_step : forall c s s',
  SInv c s -> sy_conf s' = sy_conf s -> sy_handles s' = sy_handles s -> dm_events (sy_m s') = events_default ->
  (forall j q, slot (sy_m s) j = Some q -> exists q', slot (sy_m s') j = Some q' /\ shape_eq q q') ->
  (forall j q', slot (sy_m s') j = Some q' -> exists q, slot (sy_m s) j = Some q) ->
  SInv c s'.
Proof.
  intros c s s' [H1 H2 H3 H4 H5 H6] Hc Hh He Hfw Hbw. constructor.
  - rewrite Hc. exact H1.
  - rewrite Hh. exact H2.
  - exact He.
  - intros k h Hk. rewrite Hh in Hk. destruct (H4 k h Hk) as (pc & p & Hpc & Hs & (F1 & F2 & F3 & F4)).
    destruct (Hfw _ _ Hs) as (q' & Hq' & (E1 & E2 & E3 & E4)). exists pc, q'.
    split; [exact Hpc|]. split; [exact Hq'|]. unfold fits. repeat split; congruence.
  - intros i q' Hq'. rewrite Hh. destruct (Hbw _ _ Hq') as (q & Hq). apply (H5 _ _ Hq).
  - intros k Hk. rewrite Hh in Hk. rewrite Hc. apply H6. exact Hk.
Qed.

Lemma mask_slot_back : forall m m' j q', mask m' = mask m -> slot m' j = Some q' -> exists q, slot m j = Some q.
Proof.
  intros m m' j q' Hm Hs. unfold mask in Hm. unfold slot in *.
  assert (Hn : nth_error (map occ (dm_slots m')) j = nth_error (map occ (dm_slots m)) j) by (rewrite Hm; reflexivity).
  rewrite !nth_error_map in Hn.
  destruct (nth_error (dm_slots m') j) as [[x|]|]; try discriminate Hs.
  destruct (nth_error (dm_slots m) j) as [[y|]|]; cbn in Hn; try discriminate Hn. exists y. reflexivity.
Qed.

Lemma quiet_shape : forall q g q' g', Quiet q g q' g' -> shape_eq q q'.
Proof. intros q g q' g' H. destruct H. unfold shape_eq. repeat split; congruence. Qed.

Lemma transmit_shape : forall pa op q q' r, p_transmit pa op q = Ok (q', r) -> shape_eq q q'.
Proof.
  intros pa op q q' r H. destruct (transmit_keeps _ _ _ _ _ H) as (Ha & Hi & Hq & Ho & _).
  unfold shape_eq. repeat split; congruence.
Qed.

Lemma shape_trans : forall a b c, shape_eq a b -> shape_eq b c -> shape_eq a c.
Proof. intros a b c (A1 & A2 & A3 & A4) (B1 & B2 & B3 & B4). unfold shape_eq. repeat split; congruence. Qed.

Lemma slot_post_shape : forall pa op v j q g q' g', slot_post pa op v j q g q' g' -> shape_eq q q'.
Proof.
  intros pa op v j q g q' g' H. destruct v as [|i h pdu|i]; cbn [slot_post] in H.
  - eapply quiet_shape; exact H.
  - destruct (Nat.eqb j i); [|eapply quiet_shape; exact H].
    destruct H as (q1 & g1 & H1 & _ & H3 & _). eapply shape_trans; [eapply quiet_shape; exact H1|eapply transmit_shape; exact H3].
  - destruct (Nat.eqb j i); [|eapply quiet_shape; exact H].
    destruct H as (q1 & g1 & H1 & _ & H3 & _). eapply shape_trans; [eapply quiet_shape; exact H1|eapply transmit_shape; exact H3].
Qed.

Lemma receive_shape : forall p t p1 ev, p_receive_reply p t = Ok (p1, ev) -> shape_eq p p1.
Proof.
  intros p t p1 ev H. destruct (receive_facts _ _ _ _ H) as (Ha & Ho & _).
  unfold shape_eq. split; [exact Ha|]. split; [exact Ho|]. split.
  - destruct (pi_i_frame _ _ _ _ H) as [->|(_ & _ & h & pdu & st & s & _ & _ & _ & Hl & -> & _)]; [reflexivity|exact Hl].
  - destruct (reply_event_iff _ _ _ _ H) as (_ & _ & ->). reflexivity.
Qed.

(* PART 4: set-up (DpRun.init_sys) establishes the invariants *)

Lemma place_all_length : forall ps sl, length (place_all sl ps) = length sl.
Proof.
  induction ps as [|c t IH]; intro sl; [reflexivity|]. cbn [place_all].
  destruct (pc_slot c); [rewrite IH; apply put_slot_length|apply IH].
Qed.

Lemma place_all_keep : forall ps sl j,
  (forall c, In c ps -> pc_slot c <> Some j) -> nth_error (place_all sl ps) j = nth_error sl j.
Proof.
  induction ps as [|c t IH]; intros sl j H; [reflexivity|]. cbn [place_all].
  assert (Ht : forall c', In c' t -> pc_slot c' <> Some j) by (intros c' Hin; apply H; right; exact Hin).
  destruct (pc_slot c) as [i|] eqn:E; [|apply IH; exact Ht].
  rewrite IH by exact Ht. apply put_slot_other. intro Ex; subst i. apply (H c); [left; reflexivity|exact E].
Qed.

Lemma put_slot_some : forall l i p j q, nth_error (put_slot l i p) j = Some (Some q) ->
  nth_error l j = Some (Some q) \/ (j = i /\ q = p).
Proof.
  intros l i p j q H. destruct (Nat.eq_dec i j) as [->|Hne].
  - destruct (nth_error l j) as [x|] eqn:E.
    + rewrite (put_slot_same _ _ p _ E) in H. inversion H. right. auto.
    + assert (Hl : (length l <= j)%nat) by (apply nth_error_None; exact E).
      assert (Hx : nth_error (put_slot l j p) j = None) by (apply nth_error_None; rewrite put_slot_length; exact Hl).
      rewrite Hx in H. discriminate H.
  - rewrite put_slot_other in H by exact Hne. left; exact H.
Qed.

Lemma place_all_in : forall ps sl j p, nth_error (place_all sl ps) j = Some (Some p) ->
  nth_error sl j = Some (Some p) \/ exists k c, nth_error ps k = Some c /\ pc_slot c = Some j /\ p = periph_of_conf c.
Proof.
  induction ps as [|c t IH]; intros sl j p H; [left; exact H|]. cbn [place_all] in H.
  destruct (pc_slot c) as [i|] eqn:E.
  - destruct (IH _ _ _ H) as [H1|(k & c' & Hk & Hs & Hp)].
    + destruct (put_slot_some _ _ _ _ _ H1) as [H2|(-> & ->)]; [left; exact H2|].
      right. exists 0%nat, c. auto.
    + right. exists (S k), c'. auto.
  - destruct (IH _ _ _ H) as [H1|(k & c' & Hk & Hs & Hp)]; [left; exact H1|].
    right. exists (S k), c'. auto.
Qed.

Lemma place_all_placed : forall ps sl k c j,
  nth_error ps k = Some c -> pc_slot c = Some j -> (j < length sl)%nat ->
  (forall k' c', nth_error ps k' = Some c' -> pc_slot c' = Some j -> k' = k) ->
  nth_error (place_all sl ps) j = Some (Some (periph_of_conf c)).
Proof.
  induction ps as [|c0 t IH]; intros sl k c j Hk Hs Hj Hu; [destruct k; discriminate Hk|].
  cbn [place_all]. destruct k as [|k].
  - cbn in Hk. inversion Hk; subst c0. rewrite Hs.
    rewrite place_all_keep.
    + destruct (nth_error sl j) as [x|] eqn:E; [apply (put_slot_same _ _ _ _ E)|].
      apply nth_error_None in E. lia.
    + intros c' Hin Hc'. destruct (In_nth_error _ _ Hin) as (n & Hn).
      specialize (Hu (S n) c' Hn Hc'). discriminate Hu.
  - cbn in Hk.
    assert (Hu' : forall k' c', nth_error t k' = Some c' -> pc_slot c' = Some j -> k' = k).
    { intros k' c' H1 H2. specialize (Hu (S k') c' H1 H2). inversion Hu. reflexivity. }
    destruct (pc_slot c0) as [i|] eqn:E.
    + apply (IH _ k); auto. rewrite put_slot_length. exact Hj.
    + apply (IH _ k); auto.
Qed.

Lemma periph_of_conf_fits : forall pc, fits pc (periph_of_conf pc).
Proof. intro pc. unfold fits, periph_of_conf, periph_new. cbn. rewrite !repeat_length. repeat split; reflexivity. Qed.

(* what add_all does to a master and which handles it returns *)
Lemma add_all_spec : forall ps m m' hs,
  add_all m ps = Ok (m', hs) ->
  length hs = length ps /\
  (dm_events m' = dm_events m /\ dm_op m' = dm_op m /\ dm_cycle m' = dm_cycle m /\ dm_last_gc m' = dm_last_gc m) /\
  (forall j q, slot m j = Some q -> slot m' j = Some q) /\
  (forall k pc, nth_error ps k = Some pc ->
     match pc_slot pc with
     | Some i => nth_error hs k = Some (Some (mkHandle i (pc_addr pc)))
     | None =>
         if pc_late pc then nth_error hs k = Some None
         else exists h, nth_error hs k = Some (Some h) /\ hd_addr h = pc_addr pc /\
                        slot m (hd_index h) = None /\ slot m' (hd_index h) = Some (periph_of_conf pc)
     end) /\
  (forall j q, slot m' j = Some q ->
     slot m j = Some q \/
     exists k pc h, nth_error ps k = Some pc /\ pc_slot pc = None /\ pc_late pc = false /\
                    nth_error hs k = Some (Some h) /\ hd_index h = j /\ q = periph_of_conf pc).
Proof.
  induction ps as [|c t IH]; intros m m' hs H; cbn [add_all] in H.
  - inversion H; subst. split; [reflexivity|]. split; [auto|]. split; [auto|].
    split; [intros k pc Hk; destruct k; discriminate Hk|]. intros j q Hq. left; exact Hq.
  - destruct (pc_slot c) as [i|] eqn:Es.
    + destruct (add_all m t) as [[m1 hs1]| |] eqn:Ha; cbn [bind] in H; try discriminate H.
      inversion H; subst m' hs. clear H.
      destruct (IH _ _ _ Ha) as (Hl & Hf & Hmono & Hk & Hback).
      split; [cbn; rewrite Hl; reflexivity|]. split; [exact Hf|]. split; [exact Hmono|]. split.
      * intros k pc Hpc. destruct k as [|k]; [cbn in Hpc; inversion Hpc; subst pc; rewrite Es; reflexivity|].
        cbn in Hpc. cbn [nth_error]. exact (Hk _ _ Hpc).
      * intros j q Hq. destruct (Hback _ _ Hq) as [H1|(k & pc & h & H1 & H2 & H3 & H4 & H5 & H6)]; [left; exact H1|].
        right. exists (S k), pc, h. repeat split; assumption.
    + destruct (pc_late c) eqn:El.
      * destruct (add_all m t) as [[m1 hs1]| |] eqn:Ha; cbn [bind] in H; try discriminate H.
        inversion H; subst m' hs. clear H.
        destruct (IH _ _ _ Ha) as (Hl & Hf & Hmono & Hk & Hback).
        split; [cbn; rewrite Hl; reflexivity|]. split; [exact Hf|]. split; [exact Hmono|]. split.
        -- intros k pc Hpc. destruct k as [|k]; [cbn in Hpc; inversion Hpc; subst pc; rewrite Es, El; reflexivity|].
           cbn in Hpc. cbn [nth_error]. exact (Hk _ _ Hpc).
        -- intros j q Hq. destruct (Hback _ _ Hq) as [H1|(k & pc & h & H1 & H2 & H3 & H4 & H5 & H6)]; [left; exact H1|].
           right. exists (S k), pc, h. repeat split; assumption.
      * destruct (dp_add m (periph_of_conf c)) as [[m0 h0]| |] eqn:Hadd; cbn [bind] in H; try discriminate H.
        destruct (add_all m0 t) as [[m1 hs1]| |] eqn:Ha; cbn [bind] in H; try discriminate H.
        inversion H; subst m' hs. clear H.
        destruct (IH _ _ _ Ha) as (Hl & (F1 & F2 & F3 & F4) & Hmono & Hk & Hback).
        destruct (dp_add_post _ _ _ _ Hadd) as (Hfree & Hnew & Hoth & Hadr & A1 & A2 & A3 & A4 & _).
        assert (Hmono0 : forall j q, slot m j = Some q -> slot m0 j = Some q).
        { intros j q Hq. destruct (Nat.eq_dec j (hd_index h0)) as [->|Hne]; [rewrite Hfree in Hq; discriminate Hq|].
          rewrite Hoth by exact Hne. exact Hq. }
        split; [cbn; rewrite Hl; reflexivity|]. split; [repeat split; congruence|].
        split; [intros j q Hq; apply Hmono; apply Hmono0; exact Hq|]. split.
        -- intros k pc Hpc. destruct k as [|k].
           ++ cbn in Hpc. inversion Hpc; subst pc. rewrite Es, El. exists h0. cbn [nth_error].
              split; [reflexivity|]. split; [exact Hadr|]. split; [exact Hfree|]. apply Hmono. exact Hnew.
           ++ cbn in Hpc. cbn [nth_error]. specialize (Hk _ _ Hpc). destruct (pc_slot pc); [exact Hk|].
              destruct (pc_late pc); [exact Hk|]. destruct Hk as (h & H1 & H2 & H3 & H4). exists h.
              split; [exact H1|]. split; [exact H2|]. split; [|exact H4].
              destruct (slot m (hd_index h)) as [q|] eqn:E; [|reflexivity].
              rewrite (Hmono0 _ _ E) in H3. discriminate H3.
        -- intros j q Hq. destruct (Hback _ _ Hq) as [H1|(k & pc & h & H1 & H2 & H3 & H4 & H5 & H6)].
           ++ destruct (Nat.eq_dec j (hd_index h0)) as [->|Hne].
              ** rewrite Hnew in H1. inversion H1; subst q. right. exists 0%nat, c, h0. cbn. repeat split; auto.
              ** rewrite Hoth in H1 by exact Hne. left; exact H1.
           ++ right. exists (S k), pc, h. repeat split; assumption.
Qed.

Lemma slot_repeat_none : forall n owned op gc cy ev j, slot (mkDpm (repeat None n) owned op gc cy ev) j = None.
Proof.
  intros. unfold slot. cbn [dm_slots]. destruct (nth_error (repeat None n) j) as [x|] eqn:E; [|reflexivity].
  apply nth_error_In in E. apply repeat_spec in E. subst x. reflexivity.
Qed.

Lemma init_invariants : forall c s0,
  conf_ok c -> init_sys c = Ok s0 ->
  SInv c s0 /\ GInv (cf_params c) (sy_m s0) (fun _ => ghost0) None /\
  dm_op (sy_m s0) = OpStop /\ dm_cycle (sy_m s0) = CyDataExchange 0 /\
  (forall i p, slot (sy_m s0) i = Some p -> exists k pc, nth_error (cf_periphs c) k = Some pc /\ p = periph_of_conf pc) /\
  (forall k h, nth_error (sy_handles s0) k = Some (Some h) ->
     exists pc, nth_error (cf_periphs c) k = Some pc /\ hd_addr h = pc_addr pc) /\
  sy_conf s0 = c.
Proof.
  intros c s0 Hc H. unfold init_sys in H.
  set (m1 := set_slots (dp_new (cf_nslots c) (cf_owned c))
               (place_all (dm_slots (dp_new (cf_nslots c) (cf_owned c))) (cf_periphs c))) in *.
  destruct (add_all m1 (cf_periphs c)) as [[m2 hs]| |] eqn:Ha; cbn [bind] in H; try discriminate H.
  inversion H; subst s0. clear H. cbn [sy_m sy_conf sy_handles].
  destruct (add_all_spec _ _ _ _ Ha) as (Hl & (F1 & F2 & F3 & F4) & Hmono & Hk & Hback).
  assert (Hm1 : forall j q, slot m1 j = Some q ->
            exists k pc, nth_error (cf_periphs c) k = Some pc /\ pc_slot pc = Some j /\ q = periph_of_conf pc).
  { intros j q Hq. unfold slot, m1 in Hq. cbn [dm_slots set_slots dp_new] in Hq.
    destruct (nth_error (place_all (repeat None (cf_nslots c)) (cf_periphs c)) j) as [[x|]|] eqn:E; try discriminate Hq.
    inversion Hq; subst x. destruct (place_all_in _ _ _ _ E) as [E1|H1]; [|exact H1].
    apply nth_error_In in E1. apply repeat_spec in E1. discriminate E1. }
  assert (Hplaced : forall k pc i, nth_error (cf_periphs c) k = Some pc -> pc_slot pc = Some i ->
            slot m1 i = Some (periph_of_conf pc)).
  { intros k pc i Hpc Hs. destruct (co_placed _ Hc k pc i Hpc Hs) as (Hlt & Hu).
    unfold slot, m1. cbn [dm_slots set_slots dp_new].
    rewrite (place_all_placed _ _ k pc i Hpc Hs); [reflexivity|rewrite repeat_length; exact Hlt|exact Hu]. }
  assert (Hall : forall i p, slot m2 i = Some p -> exists k pc, nth_error (cf_periphs c) k = Some pc /\ p = periph_of_conf pc).
  { intros i p Hp. destruct (Hback _ _ Hp) as [H1|(k & pc & h & H1 & _ & _ & _ & _ & H6)].
    - destruct (Hm1 _ _ H1) as (k & pc & H2 & _ & H3). exists k, pc. auto.
    - exists k, pc. auto. }
  assert (Hhaddr : forall k h, nth_error hs k = Some (Some h) ->
            exists pc, nth_error (cf_periphs c) k = Some pc /\ hd_addr h = pc_addr pc).
  { intros k h Hh.
    destruct (nth_error (cf_periphs c) k) as [pc|] eqn:Epc.
    2:{ apply nth_error_None in Epc. assert (Hx : nth_error hs k = None) by (apply nth_error_None; lia).
        rewrite Hx in Hh. discriminate Hh. }
    specialize (Hk _ _ Epc). exists pc. split; [reflexivity|].
    destruct (pc_slot pc) as [i|] eqn:Es.
    - rewrite Hk in Hh. inversion Hh; subst h. reflexivity.
    - destruct (pc_late pc); [rewrite Hk in Hh; discriminate Hh|].
      destruct Hk as (h' & H1 & H2 & _). rewrite H1 in Hh. inversion Hh; subst h'. exact H2. }
  split; [|split; [|split; [|split; [|split; [|split; [exact Hhaddr|reflexivity]]]]]].
  - constructor; cbn [sy_m sy_conf sy_handles].
    + apply conf_like_refl.
    + exact Hl.
    + rewrite F1. reflexivity.
    + intros k h Hh.
      destruct (nth_error (cf_periphs c) k) as [pc|] eqn:Epc.
      2:{ apply nth_error_None in Epc. assert (Hx : nth_error hs k = None) by (apply nth_error_None; lia).
          rewrite Hx in Hh. discriminate Hh. }
      specialize (Hk _ _ Epc). exists pc.
      destruct (pc_slot pc) as [i|] eqn:Es.
      * rewrite Hk in Hh. inversion Hh; subst h. cbn [hd_index hd_addr].
        exists (periph_of_conf pc). split; [reflexivity|].
        split; [apply Hmono; apply (Hplaced k); assumption|apply periph_of_conf_fits].
      * destruct (pc_late pc); [rewrite Hk in Hh; discriminate Hh|].
        destruct Hk as (h' & H1 & H2 & H3 & H4). rewrite H1 in Hh. inversion Hh; subst h'.
        exists (periph_of_conf pc). split; [reflexivity|]. split; [exact H4|apply periph_of_conf_fits].
    + intros i p Hp. destruct (Hback _ _ Hp) as [H1|(k & pc & h & H1 & H2 & H3 & H4 & H5 & H6)].
      * destruct (Hm1 _ _ H1) as (k & pc & H2 & H3 & H4). exists k. specialize (Hk _ _ H2). rewrite H3 in Hk.
        eexists. split; [exact Hk|reflexivity].
      * exists k, h. split; [exact H4|exact H5].
    + intros k _. reflexivity.
  - constructor.
    + intros i p Hp. destruct (Hall _ _ Hp) as (k & pc & _ & ->). unfold periph_of_conf. cbn [pe_addr pe_opts periph_new].
      apply inv_init. pose proof (co_retry _ Hc). lia.
    + intros i p _ Ho. discriminate Ho.
    + intros da E. discriminate E.
  - rewrite F2. reflexivity.
  - rewrite F3. reflexivity.
  - exact Hall.
Qed.

(* PART 5: the steps of the model's transcript, address look-ups, heads of the contract *)

(* ------------------------------------------------------------------ shape of one model step, per input *)

Lemma set_events_default_id : forall m, dm_events m = events_default -> set_events m events_default = m.
Proof. intros [sl ow op gc cy ev] H. cbn in H. subst ev. reflexivity. Qed.

Lemma set_m_id : forall s, set_m s (sy_m s) = s.
Proof. intros [c m h sl]. reflexivity. Qed.

Lemma auto_take_cb : forall s i, cf_autotake (sy_conf s) = true -> is_callback i = true ->
  auto_take s i = (set_m s (set_events (sy_m s) events_default), Some (dm_events (sy_m s))).
Proof. intros s i Ha Hi. unfold auto_take. rewrite Ha, Hi. reflexivity. Qed.

Lemma sinv_auto : forall c s, SInv c s -> cf_autotake c = true -> cf_autotake (sy_conf s) = true.
Proof. intros c s I H. destruct (si_conf _ _ I) as (_ & _ & E & _). rewrite <- E. exact H. Qed.

Lemma auto_take_other : forall s i, is_callback i = false -> auto_take s i = (s, None).
Proof. intros s i Hi. unfold auto_take. rewrite Hi, Bool.andb_false_r. reflexivity. Qed.

Lemma step_tx : forall c s now hp s' t,
  SInv c s -> cf_autotake c = true -> model_step s (InTx now hp) = Ok (s', t) ->
  exists m1 o, dp_transmit (cf_params c) (cf_bufsize c) (sy_m s) now hp = Ok (m1, o) /\
    s' = set_m s (set_events m1 events_default) /\
    t = mkStep (InTx now hp) false (OutTx o) (Some (dm_events m1)) (observe s') (dm_op m1).
Proof.
  intros c s now hp s' t I Ha H. unfold model_step in H. cbn [run_in] in H.
  destruct (si_conf _ _ I) as (E1 & E2 & _). rewrite <- E1, <- E2 in H.
  destruct (dp_transmit (cf_params c) (cf_bufsize c) (sy_m s) now hp) as [[m1 o]| |]; cbn [bind] in H; try discriminate H.
  rewrite auto_take_cb in H; [|destruct s; exact (sinv_auto _ _ I Ha)|reflexivity].
  cbn [fst snd taken_of] in H. inversion H; subst s' t. exists m1, o. split; [reflexivity|].
  destruct s; split; reflexivity.
Qed.

Lemma step_rx : forall c s now addr wire s' t,
  SInv c s -> cf_autotake c = true -> model_step s (InRx now addr wire) = Ok (s', t) -> is_bad (ts_out t) = false ->
  exists tt m1, decode wire = Ok (Accept tt (length wire)) /\ dp_receive_reply (sy_m s) addr tt = Ok m1 /\
    s' = set_m s (set_events m1 events_default) /\
    t = mkStep (InRx now addr wire) false OutUnit (Some (dm_events m1)) (observe s') (dm_op m1).
Proof.
  intros c s now addr wire s' t I Ha H Hb. unfold model_step in H. cbn [run_in] in H.
  destruct (decode wire) as [[| |tt n]| |] eqn:Hd; cbn [bind] in H;
    try (inversion H; subst t; discriminate Hb).
  destruct (Nat.eqb_spec n (length wire)) as [->|Hne]; [|cbn [bind] in H; inversion H; subst t; discriminate Hb].
  destruct (dp_receive_reply (sy_m s) addr tt) as [m1| |] eqn:Hr; cbn [bind] in H; try discriminate H.
  rewrite auto_take_cb in H; [|destruct s; exact (sinv_auto _ _ I Ha)|reflexivity].
  cbn [fst snd taken_of] in H. inversion H; subst s' t. exists tt, m1. split; [reflexivity|]. split; [exact Hr|].
  destruct s; split; reflexivity.
Qed.

Lemma step_to : forall c s now addr s' t,
  SInv c s -> cf_autotake c = true -> model_step s (InTo now addr) = Ok (s', t) ->
  s' = s /\ t = mkStep (InTo now addr) false OutUnit (Some events_default) (observe s) (dm_op (sy_m s)).
Proof.
  intros c s now addr s' t I Ha H. unfold model_step in H. cbn [run_in dp_handle_timeout bind] in H.
  rewrite auto_take_cb in H; [|destruct s; exact (sinv_auto _ _ I Ha)|reflexivity].
  cbn [fst snd taken_of] in H. rewrite set_m_id in H. rewrite (set_events_default_id _ (si_events _ _ I)) in H.
  rewrite set_m_id in H. rewrite (si_events _ _ I) in H. inversion H; subst. split; reflexivity.
Qed.

(* inputs that do not reach the master *)
Definition env_input (i : tr_in) : bool :=
  match i with InAbandon | InSlave _ _ | InPower _ | InSlaveSet _ _ _ _ _ _ _ _ _ | InClean => true | _ => false end.

Lemma step_env : forall s i s' t,
  env_input i = true -> model_step s i = Ok (s', t) ->
  sy_conf s' = sy_conf s /\ sy_m s' = sy_m s /\ sy_handles s' = sy_handles s /\
  exists o, t = mkStep i false o None (observe s) (dm_op (sy_m s)) /\
            match o with OutEvents _ | OutHandle _ | OutTx _ | OutPanic | OutHang => False | _ => True end.
Proof.
  intros s i s' t Hi H. unfold model_step in H.
  destruct i; try discriminate Hi; cbn [run_in] in H.
  - cbn [bind] in H. rewrite auto_take_other in H by reflexivity. inversion H; subst. repeat split; auto.
    exists OutUnit. split; [reflexivity|exact Logic.I].
  - destruct (nth_error (sy_slaves s) k) as [sl|].
    + destruct (slave_step sl wire) as [sl1 r]. cbn [bind] in H. rewrite auto_take_other in H by reflexivity.
      inversion H; subst. repeat split; auto. exists (OutSlave r). split; [reflexivity|exact Logic.I].
    + cbn [bind] in H. rewrite auto_take_other in H by reflexivity. inversion H; subst. repeat split; auto.
      exists OutBad. split; [reflexivity|exact Logic.I].
  - destruct (nth_error (sy_slaves s) k) as [sl|]; cbn [bind] in H; rewrite auto_take_other in H by reflexivity;
      inversion H; subst; repeat split; auto; eexists; (split; [reflexivity|exact Logic.I]).
  - destruct (nth_error (sy_slaves s) k) as [sl|]; cbn [bind] in H; rewrite auto_take_other in H by reflexivity;
      inversion H; subst; repeat split; auto; eexists; (split; [reflexivity|exact Logic.I]).
  - cbn [bind] in H. rewrite auto_take_other in H by reflexivity. inversion H; subst. repeat split; auto.
    exists OutUnit. split; [reflexivity|exact Logic.I].
Qed.

Lemma step_take : forall c s s' t,
  SInv c s -> model_step s InTake = Ok (s', t) ->
  s' = s /\ t = mkStep InTake false (OutEvents events_default) (Some events_default) (observe s) (dm_op (sy_m s)).
Proof.
  intros c s s' t I H. unfold model_step in H. cbn [run_in dp_take_last_events bind] in H.
  rewrite auto_take_other in H by reflexivity. cbn [fst snd taken_of] in H.
  rewrite (set_events_default_id _ (si_events _ _ I)) in H. rewrite set_m_id in H. rewrite (si_events _ _ I) in H.
  inversion H; subst. split; reflexivity.
Qed.

Lemma step_enter : forall s st s' t,
  model_step s (InEnter st) = Ok (s', t) ->
  s' = set_m s (dp_enter_state_unwound (sy_m s) st) /\
  exists o, (o = OutUnit \/ o = OutPanicked) /\ t = mkStep (InEnter st) false o None (observe s') st.
Proof.
  intros s st s' t H. unfold model_step in H. cbn [run_in] in H. unfold dp_enter_state in H.
  destruct (opstate_eqb st opstate_supported); cbn [bind] in H; rewrite auto_take_other in H by reflexivity;
    cbn [fst snd taken_of] in H; inversion H; subst; (split; [reflexivity|]); eexists; (split; [|reflexivity]); auto.
Qed.

Lemma step_reqdiag : forall s k s' t,
  model_step s (InReqDiag k) = Ok (s', t) -> is_bad (ts_out t) = false ->
  exists h m1, handle_of s k = Some h /\ dp_request_diagnostics (sy_m s) h = Ok m1 /\ s' = set_m s m1 /\
    t = mkStep (InReqDiag k) false OutUnit None (observe s') (dm_op m1).
Proof.
  intros s k s' t H Hb. unfold model_step in H. cbn [run_in] in H.
  destruct (handle_of s k) as [h|] eqn:Hh; [|cbn [bind] in H; inversion H; subst t; discriminate Hb].
  destruct (dp_request_diagnostics (sy_m s) h) as [m1| |] eqn:Hr; cbn [bind] in H; try discriminate H.
  rewrite auto_take_other in H by reflexivity. inversion H; subst. exists h, m1. repeat split; try reflexivity; assumption.
Qed.

Lemma step_writeq : forall s k q s' t,
  model_step s (InWriteQ k q) = Ok (s', t) -> is_bad (ts_out t) = false ->
  exists h m1, handle_of s k = Some h /\ dp_write_q (sy_m s) h q = Ok m1 /\ s' = set_m s m1 /\
    t = mkStep (InWriteQ k q) false OutUnit None (observe s') (dm_op m1).
Proof.
  intros s k q s' t H Hb. unfold model_step in H. cbn [run_in] in H.
  destruct (handle_of s k) as [h|] eqn:Hh; [|cbn [bind] in H; inversion H; subst t; discriminate Hb].
  destruct (dp_write_q (sy_m s) h q) as [m1| |] eqn:Hr; cbn [bind] in H; try discriminate H.
  rewrite auto_take_other in H by reflexivity. inversion H; subst. exists h, m1. repeat split; try reflexivity; assumption.
Qed.

Lemma step_add : forall s k s' t,
  model_step s (InAdd k) = Ok (s', t) -> is_bad (ts_out t) = false ->
  exists pc m1 h, nth_error (cf_periphs (sy_conf s)) k = Some pc /\ dp_add (sy_m s) (periph_of_conf pc) = Ok (m1, h) /\
    s' = mkSys (sy_conf s) m1 (set_nth (sy_handles s) k (Some h)) (sy_slaves s) /\
    t = mkStep (InAdd k) false (OutHandle h) None (observe s') (dm_op m1).
Proof.
  intros s k s' t H Hb. unfold model_step in H. cbn [run_in] in H.
  destruct (nth_error (cf_periphs (sy_conf s)) k) as [pc|] eqn:Hpc; [|cbn [bind] in H; inversion H; subst t; discriminate Hb].
  destruct (dp_add (sy_m s) (periph_of_conf pc)) as [[m1 h]| |] eqn:Hr; cbn [bind] in H; try discriminate H.
  rewrite auto_take_other in H by reflexivity. inversion H; subst. exists pc, m1, h. repeat split; try reflexivity; assumption.
Qed.

(* ------------------------------------------------------------------ look-ups by address *)

Lemma distinct_nth : forall l i j x, distinct l = true -> nth_error l i = Some x -> nth_error l j = Some x -> i = j.
Proof.
  induction l as [|y l IH]; intros i j x Hd Hi Hj; [destruct i; discriminate Hi|].
  cbn [distinct] in Hd. apply andb_true_iff in Hd. destruct Hd as [Hn Hd]. apply negb_true_iff in Hn.
  assert (Hnot : forall n, nth_error l n <> Some y).
  { intros n Hx. apply nth_error_In in Hx.
    assert (E : existsb (Z.eqb y) l = true) by (apply existsb_exists; exists y; split; [exact Hx|apply Z.eqb_refl]).
    rewrite E in Hn. discriminate Hn. }
  destruct i, j; cbn in Hi, Hj.
  - reflexivity.
  - inversion Hi; subst. exfalso. apply (Hnot j). exact Hj.
  - inversion Hj; subst. exfalso. apply (Hnot i). exact Hi.
  - f_equal. apply (IH _ _ _ Hd Hi Hj).
Qed.

Lemma conf_sane_parts : forall c, conf_sane c = true ->
  distinct (map pc_addr (cf_periphs c)) = true /\
  (forall k pc, nth_error (cf_periphs c) k = Some pc -> pc_addr pc <> p_address (cf_params c) /\ pc_addr pc <> 127).
Proof.
  intros c H. unfold conf_sane in H. apply andb_true_iff in H. destruct H as [H H3].
  apply andb_true_iff in H. destruct H as [H1 H2]. split; [exact H1|].
  intros k pc Hk. apply negb_true_iff in H2. apply negb_true_iff in H3.
  assert (Hin : In (pc_addr pc) (map pc_addr (cf_periphs c))) by (apply in_map; eapply nth_error_In; exact Hk).
  split; intro E.
  - assert (X : existsb (Z.eqb (p_address (cf_params c))) (map pc_addr (cf_periphs c)) = true).
    { apply existsb_exists. exists (pc_addr pc). split; [exact Hin|]. apply Z.eqb_eq. symmetry; exact E. }
    rewrite X in H2. discriminate H2.
  - assert (X : existsb (Z.eqb 127) (map pc_addr (cf_periphs c)) = true).
    { apply existsb_exists. exists (pc_addr pc). split; [exact Hin|]. apply Z.eqb_eq. symmetry; exact E. }
    rewrite X in H3. discriminate H3.
Qed.

Lemma conf_addr_inj : forall c k k' pc pc', conf_sane c = true ->
  nth_error (cf_periphs c) k = Some pc -> nth_error (cf_periphs c) k' = Some pc' -> pc_addr pc = pc_addr pc' -> k = k'.
Proof.
  intros c k k' pc pc' Hs Hk Hk' E. destruct (conf_sane_parts _ Hs) as [Hd _].
  apply (distinct_nth _ _ _ (pc_addr pc) Hd).
  - rewrite nth_error_map, Hk. reflexivity.
  - rewrite nth_error_map, Hk'. cbn. rewrite E. reflexivity.
Qed.

Lemma pconf_of_addr_spec : forall c k pc, conf_sane c = true ->
  nth_error (cf_periphs c) k = Some pc -> pconf_of_addr c (pc_addr pc) = Some (k, pc).
Proof.
  intros c k pc Hs Hk. destruct (conf_sane_parts _ Hs) as [Hd _]. unfold pconf_of_addr.
  replace k with (0 + k)%nat by reflexivity. generalize 0%nat as k0.
  revert k Hk Hd. induction (cf_periphs c) as [|p l IH]; intros k Hk Hd k0; [destruct k; discriminate Hk|].
  cbn [map distinct] in Hd. apply andb_true_iff in Hd. destruct Hd as [Hn Hd]. apply negb_true_iff in Hn.
  destruct k as [|k]; cbn in Hk.
  - inversion Hk; subst p. rewrite Z.eqb_refl. rewrite Nat.add_0_r. reflexivity.
  - destruct (Z.eqb_spec (pc_addr p) (pc_addr pc)) as [E|_].
    + exfalso. assert (X : existsb (Z.eqb (pc_addr p)) (map pc_addr l) = true).
      { apply existsb_exists. exists (pc_addr pc). split; [apply in_map; eapply nth_error_In; exact Hk|apply Z.eqb_eq; exact E]. }
      rewrite X in Hn. discriminate Hn.
    + replace (k0 + S k)%nat with (S k0 + k)%nat by lia. apply IH; assumption.
Qed.

Lemma index_of_addr_spec : forall hs a k h,
  nth_error hs k = Some (Some h) -> hd_addr h = a ->
  (forall k' h', nth_error hs k' = Some (Some h') -> hd_addr h' = a -> k' = k) ->
  index_of_addr hs a = Some (hd_index h).
Proof.
  unfold index_of_addr. induction hs as [|x hs IH]; intros a k h Hk Ha Hu; [destruct k; discriminate Hk|].
  destruct k as [|k]; cbn in Hk.
  - inversion Hk; subst x. rewrite Ha, Z.eqb_refl. reflexivity.
  - assert (Hu' : forall k' h', nth_error hs k' = Some (Some h') -> hd_addr h' = a -> k' = k).
    { intros k' h' H1 H2. specialize (Hu (S k') h' H1 H2). inversion Hu; reflexivity. }
    destruct x as [h0|].
    + destruct (Z.eqb_spec (hd_addr h0) a) as [E|_]; [specialize (Hu 0%nat h0 eq_refl E); discriminate Hu|].
      apply (IH a k h Hk Ha Hu').
    + apply (IH a k h Hk Ha Hu').
Qed.

(* the handles with the station addresses in force (what DpOracle.c14_step_ra keeps in g14_handles) *)
Fixpoint cur_hs (ps : list pconf) (hs : list (option handle)) : list (option handle) :=
  match ps, hs with
  | p :: ps', Some h :: hs' => Some (mkHandle (hd_index h) (pc_addr p)) :: cur_hs ps' hs'
  | _ :: ps', None :: hs' => None :: cur_hs ps' hs'
  | _, _ => []
  end.

Lemma cur_hs_nth : forall ps hs k, length hs = length ps ->
  nth_error (cur_hs ps hs) k =
  match nth_error ps k, nth_error hs k with
  | Some p, Some (Some h) => Some (Some (mkHandle (hd_index h) (pc_addr p)))
  | Some _, Some None => Some None
  | _, _ => None
  end.
Proof.
  induction ps as [|p ps IH]; intros [|h hs] k Hl; try discriminate Hl.
  - destruct k; reflexivity.
  - cbn in Hl. destruct k as [|k].
    + destruct h; reflexivity.
    + destruct h; cbn [cur_hs nth_error]; apply IH; lia.
Qed.

Lemma cur_hs_set_nth : forall ps hs k pc j,
  nth_error ps k = Some pc ->
  cur_hs ps (set_nth hs k (Some (mkHandle j (pc_addr pc)))) = set_nth (cur_hs ps hs) k (Some (mkHandle j (pc_addr pc))).
Proof.
  induction ps as [|p ps IH]; intros [|h hs] k pc j Hk.
  - destruct k; discriminate Hk.
  - destruct k; discriminate Hk.
  - destruct k; reflexivity.
  - destruct k as [|k].
    + cbn in Hk. inversion Hk; subst p. destruct h; reflexivity.
    + cbn in Hk. destruct h; cbn [set_nth cur_hs]; rewrite (IH hs k pc j Hk); reflexivity.
Qed.

Lemma cur_hs_length : forall ps hs, length hs = length ps -> length (cur_hs ps hs) = length hs.
Proof.
  induction ps as [|p ps IH]; intros [|h hs] Hl; try discriminate Hl; [reflexivity|].
  cbn in Hl. destruct h; cbn; rewrite IH by lia; reflexivity.
Qed.

Section Lookups.
Variable c : conf.
Hypothesis Hc : conf_ok c.

Lemma slot_handle : forall s i p, SInv c s -> slot (sy_m s) i = Some p ->
  exists k h pc, nth_error (sy_handles s) k = Some (Some h) /\ hd_index h = i /\
                 nth_error (cf_periphs c) k = Some pc /\ fits pc p.
Proof.
  intros s i p I Hs. destruct (si_s _ _ I _ _ Hs) as (k & h & Hk & Hi).
  destruct (si_h _ _ I _ _ Hk) as (pc & p' & Hpc & Hs' & Hf). rewrite Hi in Hs'.
  rewrite Hs in Hs'. inversion Hs'; subst p'. exists k, h, pc. auto.
Qed.

(* two handles of the same slot are the same handle *)
Lemma handle_index_unique : forall s k k' h h', SInv c s ->
  nth_error (sy_handles s) k = Some (Some h) -> nth_error (sy_handles s) k' = Some (Some h') ->
  hd_index h = hd_index h' -> k = k'.
Proof.
  intros s k k' h h' I Hk Hk' E.
  destruct (si_h _ _ I _ _ Hk) as (pc & p & Hpc & Hs & (F1 & _)).
  destruct (si_h _ _ I _ _ Hk') as (pc' & p' & Hpc' & Hs' & (F1' & _)).
  rewrite E in Hs. rewrite Hs in Hs'. inversion Hs'; subst p'.
  apply (conf_addr_inj c k k' pc pc' (co_sane _ Hc) Hpc Hpc'). congruence.
Qed.

Lemma slot_addr_inj : forall s i j p q, SInv c s ->
  slot (sy_m s) i = Some p -> slot (sy_m s) j = Some q -> pe_addr p = pe_addr q -> i = j.
Proof.
  intros s i j p q I Hi Hj E.
  destruct (slot_handle _ _ _ I Hi) as (k & h & pc & Hk & Hhi & Hpc & (F1 & _)).
  destruct (slot_handle _ _ _ I Hj) as (k' & h' & pc' & Hk' & Hhi' & Hpc' & (F1' & _)).
  assert (Ek : k = k') by (apply (conf_addr_inj c k k' pc pc' (co_sane _ Hc) Hpc Hpc'); congruence). subst k'.
  rewrite Hk in Hk'. inversion Hk'; subst h'. congruence.
Qed.

Lemma slot_index_of_addr : forall s i p, SInv c s -> slot (sy_m s) i = Some p ->
  index_of_addr (cur_hs (cf_periphs c) (sy_handles s)) (pe_addr p) = Some i.
Proof.
  intros s i p I Hs. destruct (slot_handle _ _ _ I Hs) as (k & h & pc & Hk & Hhi & Hpc & (F1 & _)).
  pose proof (si_len _ _ I) as Hl.
  assert (Hck : nth_error (cur_hs (cf_periphs c) (sy_handles s)) k = Some (Some (mkHandle (hd_index h) (pc_addr pc))))
    by (rewrite (cur_hs_nth _ _ _ Hl), Hpc, Hk; reflexivity).
  rewrite <- Hhi. change (hd_index h) with (hd_index (mkHandle (hd_index h) (pc_addr pc))).
  apply (index_of_addr_spec _ _ k _ Hck); [cbn; congruence|].
  intros k' h' Hk' Ha. rewrite (cur_hs_nth _ _ _ Hl) in Hk'.
  destruct (nth_error (cf_periphs c) k') as [pc'|] eqn:Epc'; [|discriminate Hk'].
  destruct (nth_error (sy_handles s) k') as [[h0|]|]; try discriminate Hk'. inversion Hk'; subst h'. cbn in Ha.
  apply (conf_addr_inj c k' k pc' pc (co_sane _ Hc) Epc' Hpc). congruence.
Qed.

Lemma slot_pconf : forall s i p, SInv c s -> slot (sy_m s) i = Some p ->
  exists k pc h, pconf_of_addr c (pe_addr p) = Some (k, pc) /\ nth_error (cf_periphs c) k = Some pc /\ fits pc p /\
               nth_error (sy_handles s) k = Some (Some h) /\ hd_index h = i.
Proof.
  intros s i p I Hs. destruct (slot_handle _ _ _ I Hs) as (k & h & pc & Hk & Hhi & Hpc & Hf).
  exists k, pc, h. pose proof Hf as (Ha & _). rewrite Ha.
  split; [apply pconf_of_addr_spec; [exact (co_sane _ Hc)|exact Hpc]|]. auto.
Qed.

(* observables *)
Lemma observe_nth : forall s k h p, nth_error (sy_handles s) k = Some (Some h) -> slot (sy_m s) (hd_index h) = Some p ->
  nth_error (observe s) k = Some (Some (observe_periph p)).
Proof.
  intros s k h p Hk Hs. unfold observe. rewrite nth_error_map, Hk. cbn [option_map].
  unfold dp_get_mut. unfold slot in Hs. destruct (nth_error (dm_slots (sy_m s)) (hd_index h)) as [[q|]|]; try discriminate Hs.
  inversion Hs; reflexivity.
Qed.

Lemma observe_none : forall s k, nth_error (sy_handles s) k = Some None -> nth_error (observe s) k = Some None.
Proof. intros s k Hk. unfold observe. rewrite nth_error_map, Hk. reflexivity. Qed.

Lemma observe_length : forall s, length (observe s) = length (sy_handles s).
Proof. intro s. unfold observe. apply map_length. Qed.

End Lookups.

(* ------------------------------------------------------------------ heads of contract and driver guards *)

Definition head_ok (own : Z) (hs : list (option handle)) (pend : option Z) (t : tstep) : Prop :=
  is_bad (ts_out t) = false /\
  match view_of t with
  | VReq _ _ _ _ | VSdn _ _ | VNoTx | VBadTx => pend = None
  | VReply a tg => pend = Some a /\ admissible own a tg = true
  | VTimeout a => pend = Some a
  | VAbandon => pend <> None
  | VCrash | VOther => True
  end /\
  match ts_in t with
  | InAdd k => nth_error hs k = Some None /\ pend = None
  | _ => True
  end.

(* histories without the user call reset_address (added to the model after phase 1) *)
Definition is_reset_in (i : tr_in) : bool := match i with InResetAddr _ _ => true | _ => false end.
Definition no_reset (ins : list tr_in) : bool := forallb (fun i => negb (is_reset_in i)) ins.

Definition hs_next (hs : list (option handle)) (t : tstep) : list (option handle) :=
  match ts_in t, ts_out t with
  | InAdd k, OutHandle h => set_nth hs k (Some h)
  | _, _ => hs
  end.

Lemma heads : forall own hs pend t r,
  contract_from own pend (t :: r) = true -> driver_from hs pend (t :: r) = true -> view_of t <> VCrash ->
  head_ok own hs pend t /\
  contract_from own (pend_next_v pend (view_of t)) r = true /\
  driver_from (hs_next hs t) (pend_next_v pend (view_of t)) r = true.
Proof.
  intros own hs pend t r Hc Hd Hv. cbn [contract_from driver_from] in Hc, Hd.
  destruct (ts_raw t); [discriminate Hc|].
  destruct (is_bad (ts_out t)) eqn:Hb; [discriminate Hd|].
  unfold head_ok, hs_next. rewrite Hb.
  assert (Hview : match view_of t with
            | VReq _ _ _ _ | VSdn _ _ | VNoTx | VBadTx => pend = None
            | VReply a tg => pend = Some a /\ admissible own a tg = true
            | VTimeout a => pend = Some a
            | VAbandon => pend <> None
            | VCrash | VOther => True
            end /\ contract_from own (pend_next_v pend (view_of t)) r = true).
  { destruct (view_of t) eqn:E; cbn [pend_next_v]; try (now elim Hv);
      try (destruct pend as [d|]; [discriminate Hc|]; split; [reflexivity|exact Hc]).
    - destruct pend as [d|]; [|discriminate Hc]. apply andb_true_iff in Hc. destruct Hc as [Hc Hr].
      apply andb_true_iff in Hc. destruct Hc as [Ha Hadm]. apply Z.eqb_eq in Ha. subst d. auto.
    - destruct pend as [d|]; [|discriminate Hc]. apply andb_true_iff in Hc. destruct Hc as [Ha Hr].
      apply Z.eqb_eq in Ha. subst d. auto.
    - destruct pend as [d|]; [|discriminate Hc]. split; [discriminate|exact Hc].
    - auto. }
  destruct Hview as [Hv1 Hv2]. split; [split; [reflexivity|split; [exact Hv1|]]|split; [exact Hv2|]].
  - destruct (ts_in t); try exact Logic.I.
    destruct (nth_error hs k) as [[h|]|]; try discriminate Hd. destruct pend; [discriminate Hd|]. auto.
  - destruct (ts_in t) eqn:Ei; try exact Hd.
    destruct (nth_error hs k) as [[h|]|]; try discriminate Hd. destruct pend as [d|]; [discriminate Hd|].
    assert (Ev : view_of t = VOther).
    { unfold view_of. rewrite Ei. destruct (ts_out t); reflexivity. }
    rewrite Ev. cbn [pend_next_v]. destruct (ts_out t); exact Hd.
Qed.

(* PART 6: the generic induction over the transcript; per-address monitor states *)

(* ------------------------------------------------------------------ outputs of model steps *)

Lemma model_out_shape : forall s i s' t, model_step s i = Ok (s', t) ->
  ts_in t = i /\ ts_raw t = false /\
  match i with
  | InTx _ _ => exists o, ts_out t = OutTx o
  | InRx _ _ _ => ts_out t = OutUnit \/ ts_out t = OutBad
  | InTo _ _ => ts_out t = OutUnit
  | _ => True
  end.
Proof.
  intros s i s' t H. unfold model_step in H.
  destruct (run_in s i) as [[s1 o]| |] eqn:Hr; cbn [bind] in H; try discriminate H.
  inversion H; subst s' t. cbn [ts_in ts_raw ts_out]. split; [reflexivity|]. split; [reflexivity|].
  destruct i; try exact Logic.I; cbn [run_in] in Hr.
  - destruct (dp_transmit _ _ _ _ _) as [[m o1]| |]; cbn [bind] in Hr; try discriminate Hr. inversion Hr. eexists; reflexivity.
  - destruct (decode wire) as [[| |tg n]| |]; try (inversion Hr; right; reflexivity).
    destruct (Nat.eqb n (length wire)); [|inversion Hr; right; reflexivity].
    destruct (dp_receive_reply _ _ _); cbn [bind] in Hr; try discriminate Hr. inversion Hr. left; reflexivity.
  - cbn [dp_handle_timeout bind] in Hr. inversion Hr. reflexivity.
Qed.

Lemma model_view_not_crash : forall s i s' t,
  model_step s i = Ok (s', t) -> is_bad (ts_out t) = false -> view_of t <> VCrash.
Proof.
  intros s i s' t H Hb. destruct (model_out_shape _ _ _ _ H) as (Hi & _ & Ho).
  unfold view_of. rewrite Hi. destruct i; try (destruct (ts_out t); discriminate).
  - destruct Ho as (o & ->). destruct o as [[w e]|]; [|discriminate].
    destruct (decode w) as [[| |[h pdu| |] n]| |]; try discriminate.
    destruct (negb (Nat.eqb n (length w))); [discriminate|].
    destruct (h_fc h); destruct e as [da|]; try discriminate.
    destruct (da =? h_da h); discriminate.
  - destruct Ho as [Ho|Ho]; [|rewrite Ho in Hb; discriminate Hb]. rewrite Ho. destruct (decode wire) as [[| |tg n]| |]; discriminate.
Qed.

Lemma model_run_no_reset : forall ins s s' tr,
  model_run s ins = Ok (s', tr) -> no_reset ins = true -> has_reset tr = false.
Proof.
  induction ins as [|i ins IH]; intros s s' tr H Hn; cbn [model_run] in H.
  - inversion H; subst. reflexivity.
  - destruct (model_step s i) as [[s1 t]| |] eqn:Hs; cbn [bind] in H; try discriminate H.
    destruct (model_run s1 ins) as [[s2 tr1]| |] eqn:Hr; cbn [bind] in H; try discriminate H.
    inversion H; subst s' tr. cbn [no_reset forallb] in Hn. apply andb_true_iff in Hn. destruct Hn as [H1 H2].
    unfold has_reset. cbn [existsb]. destruct (model_out_shape _ _ _ _ Hs) as (E & _). rewrite E.
    apply orb_false_iff. split; [destruct i; try reflexivity; discriminate H1|].
    apply (IH _ _ _ Hr H2).
Qed.

(* ------------------------------------------------------------------ monitor states per station address *)

Section PerAddr.
Variable A : Type.
Variable d : A.
Variable Rp : periph -> ghost -> A -> Prop.

Definition per_ok (m : dpm) (gs : gmap) (per : list (Z * A)) : Prop :=
  (forall i p, slot m i = Some p -> Rp p (gs i) (alist_get d per (pe_addr p))) /\
  (forall a, (forall i p, slot m i = Some p -> pe_addr p <> a) -> alist_get d per a = d).

Definition addr_inj (m : dpm) : Prop :=
  forall i j p q, slot m i = Some p -> slot m j = Some q -> pe_addr p = pe_addr q -> i = j.

(* every slot keeps its relation (its peripheral and ghost may change in ways the relation does not see) *)
Lemma per_ok_same : forall m gs per m' gs',
  per_ok m gs per ->
  (forall j q', slot m' j = Some q' -> exists q, slot m j = Some q /\ pe_addr q' = pe_addr q /\
      forall x, Rp q (gs j) x -> Rp q' (gs' j) x) ->
  (forall j q, slot m j = Some q -> exists q', slot m' j = Some q' /\ pe_addr q' = pe_addr q) ->
  per_ok m' gs' per.
Proof.
  intros m gs per m' gs' [H1 H2] Hb Hf. split.
  - intros j q' Hq'. destruct (Hb _ _ Hq') as (q & Hq & Ha & Hr). rewrite Ha. apply Hr. apply H1. exact Hq.
  - intros a Hna. apply H2. intros j q Hq E. destruct (Hf _ _ Hq) as (q' & Hq' & Ha). apply (Hna _ _ Hq'). congruence.
Qed.

(* slot i gets the new monitor state v *)
Lemma per_ok_set : forall m gs per m' gs' i a v,
  per_ok m gs per -> addr_inj m ->
  (forall j q', slot m' j = Some q' -> exists q, slot m j = Some q /\ pe_addr q' = pe_addr q /\
      (j <> i -> forall x, Rp q (gs j) x -> Rp q' (gs' j) x) /\ (j = i -> Rp q' (gs' j) v /\ pe_addr q = a)) ->
  (forall j q, slot m j = Some q -> exists q', slot m' j = Some q' /\ pe_addr q' = pe_addr q) ->
  (exists q, slot m i = Some q /\ pe_addr q = a) ->
  per_ok m' gs' (alist_set per a v).
Proof.
  intros m gs per m' gs' i a v [H1 H2] Hinj Hb Hf (qi & Hqi & Hai). split.
  - intros j q' Hq'. destruct (Hb _ _ Hq') as (q & Hq & Ha & Hne & Heq).
    destruct (Nat.eq_dec j i) as [->|Hji].
    + destruct (Heq eq_refl) as (Hr & Haa). rewrite Ha, Haa, alist_get_set_same. exact Hr.
    + rewrite alist_get_set_other.
      * rewrite Ha. apply (Hne Hji). apply H1. exact Hq.
      * rewrite Ha. intro E. apply Hji. apply (Hinj _ _ _ _ Hq Hqi). congruence.
  - intros a0 Hna. rewrite alist_get_set_other.
    + apply H2. intros j q Hq E. destruct (Hf _ _ Hq) as (q' & Hq' & Ha). apply (Hna _ _ Hq'). congruence.
    + intro E. subst a0. destruct (Hf _ _ Hqi) as (q' & Hq' & Ha). apply (Hna _ _ Hq'). congruence.
Qed.

(* a new peripheral at a fresh address in a free slot *)
Lemma per_ok_add : forall m gs per m' i p0,
  per_ok m gs per ->
  slot m i = None -> slot m' i = Some p0 -> (forall j, j <> i -> slot m' j = slot m j) ->
  (forall j q, slot m j = Some q -> pe_addr q <> pe_addr p0) ->
  Rp p0 ghost0 d ->
  per_ok m' (gupd gs i ghost0) per.
Proof.
  intros m gs per m' i p0 [H1 H2] Hfree Hnew Hoth Hfresh Hr. split.
  - intros j q Hq. unfold gupd. destruct (Nat.eqb_spec j i) as [->|Hne].
    + rewrite Hnew in Hq. inversion Hq; subst q. rewrite (H2 _ (fun j q Hj => Hfresh j q Hj)). exact Hr.
    + rewrite Hoth in Hq by exact Hne. apply H1. exact Hq.
  - intros a Hna. apply H2. intros j q Hq. destruct (Nat.eq_dec j i) as [->|Hne]; [rewrite Hfree in Hq; discriminate Hq|].
    apply (Hna j). rewrite Hoth by exact Hne. exact Hq.
Qed.

End PerAddr.

(* the request outstanding according to the oracle is the one of the slot whose turn it is *)
Definition pend_link (m : dpm) (gs : gmap) (pend : option Z) (op : option (Z * service)) : Prop :=
  match pend, op with
  | None, None => True
  | Some da, Some (da', sv) =>
      da' = da /\ forall i p, slot m i = Some p -> pe_addr p = da -> exists h, gh_last (gs i) = Some h /\ classify h = sv
  | _, _ => False
  end.

Lemma pend_link_none : forall m gs op, pend_link m gs None op -> op = None.
Proof. intros m gs [[a sv]|] H; [contradiction|reflexivity]. Qed.

Lemma pend_link_some : forall m gs da op, pend_link m gs (Some da) op ->
  exists sv, op = Some (da, sv) /\
    forall i p, slot m i = Some p -> pe_addr p = da -> exists h, gh_last (gs i) = Some h /\ classify h = sv.
Proof. intros m gs da [[a sv]|] H; [|contradiction]. destruct H as (-> & H). exists sv. auto. Qed.

Lemma sinv_addr_inj : forall c s, conf_ok c -> SInv c s -> addr_inj (sy_m s).
Proof. intros c s Hc I i j p q Hi Hj E. apply (slot_addr_inj c Hc s i j p q I Hi Hj E). Qed.

(* PART 7: C08 -- the executable frame-count-bit / retry monitor accepts every transcript of the model *)

(* ------------------------------------------------------------------ c08_step in two parts *)

Definition c08_r1 (max_retry : nat) (g : c08g) (v : view) : c08g + Z :=
    match v with
    | VBadTx => inr 807
    | VReq da sv h _ =>
        let st := alist_get c08_init (g8_per g) da in
        match req_fcbit h with
        | None => inr 807
        | Some f =>
            let fc := fc_to_byte (h_fc h) in
            let ok_bits : option Z :=
              if c8_first st then
                (if fcbit_eqb f FcbFirst then None else Some 801)
              else
                match c8_last st with
                | None => Some 801
                | Some (sv0, fc0) =>
                    if c8_acc st then
                      (if fcbit_fcv f && negb (Bool.eqb (fcbit_fcb f) (negb (Z.land fc0 32 =? 0))) then None else Some 802)
                    else
                      (if service_eqb sv sv0 && ((fc =? fc0) || (c8_probe st && fcbit_eqb f FcbFirst))
                       then None else Some 803)
                end in
            match ok_bits with
            | Some code => inr code
            | None =>
                if fcbit_eqb f FcbInactive then inr 808 else
                if c8_probe st && negb (service_eqb sv SvDiag) then inr 804 else
                if negb (c8_probe st) && Nat.ltb max_retry (c8_lo st) then inr 805 else
                let st' := mkC08 (c8_probe st) false (Some (sv, fc)) false (S (c8_lo st)) (S (c8_hi st)) in
                inl (mkC08g (alist_set (g8_per g) da st') (Some (da, sv)))
            end
        end
    | VReply a t =>
        match g8_pending g with
        | Some (da, sv) =>
            let st := alist_get c08_init (g8_per g) da in
            let st' := if reply_accepted sv t
                       then mkC08 (c8_probe st) (c8_first st) (c8_last st) true 0 0
                       else mkC08 (c8_probe st) (c8_first st) (c8_last st) (c8_acc st) 0 (c8_hi st) in
            inl (mkC08g (alist_set (g8_per g) da st') None)
        | None => inl g
        end
    | VTimeout _ | VAbandon => inl (mkC08g (g8_per g) None)
    | _ => inl g
    end.

Definition c08_ev (max_retry : nat) (g1 : c08g) (e : option (Z * pevent)) : c08g + Z :=
      match e with
      | None => inl g1
      | Some (a, ev) =>
          let st := alist_get c08_init (g8_per g1) a in
          match ev with
          | EvOffline =>
              if c8_probe st || negb (Nat.ltb max_retry (c8_hi st)) then inr 806
              else inl (mkC08g (alist_set (g8_per g1) a (mkC08 true true None false 0 0)) (g8_pending g1))
          | EvParameterError | EvConfigError =>
              inl (mkC08g (alist_set (g8_per g1) a
                             (mkC08 true (c8_first st) (c8_last st) (c8_acc st) (c8_lo st) (c8_hi st)))
                          (g8_pending g1))
          | EvOnline =>
              inl (mkC08g (alist_set (g8_per g1) a
                             (mkC08 false (c8_first st) (c8_last st) (c8_acc st) (c8_lo st) (c8_hi st)))
                          (g8_pending g1))
          | _ => inl g1
          end
      end.

Lemma c08_step_eq : forall mr g n s,
  c08_step mr g n s = match c08_r1 mr g (view_of s) with inr c => inr c | inl g1 => c08_ev mr g1 (step_event s) end.
Proof. reflexivity. Qed.

(* ------------------------------------------------------------------ the relation peripheral / ghost / c08st *)

Definition is_off (p : periph) : bool := match pe_state p with PsOffline => true | _ => false end.

Definition R8 (p : periph) (g : ghost) (st : c08st) : Prop :=
  c8_probe st = is_off p /\
  match gh_last g with
  | None => c8_first st = true
  | Some h => c8_first st = false /\ c8_last st = Some (classify h, fc_to_byte (h_fc h)) /\ c8_acc st = gh_acc g
  end /\
  (c8_probe st = false -> Z.of_nat (c8_hi st) = gh_unans g /\ (c8_lo st <= c8_hi st)%nat).

Lemma R8_init : forall a o i q d, R8 (periph_new a o i q d) ghost0 c08_init.
Proof. intros. unfold R8. cbn. split; [reflexivity|]. split; [reflexivity|]. intro H; discriminate H. Qed.

Lemma is_off_spec : forall p, is_off p = true <-> pe_state p = PsOffline.
Proof. intro p. unfold is_off. destruct (pe_state p); split; intro H; try reflexivity; discriminate H. Qed.

Lemma R8_quiet : forall q g q' g' st, Quiet q g q' g' -> R8 q g st -> R8 q' g' st.
Proof.
  intros q g q' g' st Q (H1 & H2 & H3). unfold R8.
  split; [unfold is_off in *; rewrite (qu_state _ _ _ _ Q); exact H1|].
  split; [rewrite (qu_last _ _ _ _ Q), (qu_acc _ _ _ _ Q); exact H2|].
  intro Hp. destruct (H3 Hp) as [E1 E2]. split; [|exact E2]. rewrite (qu_unans _ _ _ _ Q); [exact E1|].
  intro E. apply is_off_spec in E. congruence.
Qed.

Lemma R8_same_ctrl : forall p p' g st, same_ctrl p p' -> R8 p g st -> R8 p' g st.
Proof.
  intros p p' g st (_ & Hs & _) (H1 & H2 & H3). unfold R8. split; [unfold is_off in *; rewrite Hs; exact H1|]. auto.
Qed.

Lemma R8_timeout : forall p g st, R8 p g st -> R8 p (gstep g WTimeout) st.
Proof. intros p g st H. exact H. Qed.

Lemma service_eqb_refl : forall sv, service_eqb sv sv = true.
Proof. destruct sv; reflexivity. Qed.

Lemma inv_off_phase : forall pa a o p g, Inv pa a o p g -> (gh_phase g = PhNeedDiag <-> is_off p = true).
Proof.
  intros pa a o p g I. rewrite (inv_phase _ _ _ _ _ I). rewrite is_off_spec. split.
  - apply need_diag_offline.
  - intros ->. reflexivity.
Qed.

(* a request of the model passes the checks of the monitor *)
Lemma c08_req_ok : forall pa a o q1 g1 st h pdu q' op per pendg,
  1 <= p_max_retry pa ->
  Inv pa a o q1 g1 -> R8 q1 g1 st -> req_ok pa a o g1 h pdu ->
  p_transmit pa op q1 = Ok (q', PtxSend h pdu) ->
  alist_get c08_init per (h_da h) = st ->
  exists st', c08_r1 (Z.to_nat (p_max_retry pa)) (mkC08g per pendg) (VReq (h_da h) (classify h) h pdu) =
                inl (mkC08g (alist_set per (h_da h) st') (Some (h_da h, classify h))) /\
              R8 q' (gstep g1 (WReq h pdu)) st'.
Proof.
  intros pa a o q1 g1 st h pdu q' op per pendg Hmax I (P1 & P2 & P3) Hreq Hp Hget.
  destruct Hreq as (f & Hstd & Hact & Hfirst & Hprev & Hprobe & Hbound & _).
  destruct (std_request_classify _ _ _ _ _ _ _ Hstd) as (_ & _ & _ & Hfc).
  pose proof (transmit_spec _ _ _ _ _ Hp) as Hts. cbn beta iota in Hts. destruct Hts as (_ & _ & _ & _ & _ & _ & Hst).
  pose proof (inv_off_phase _ _ _ _ _ I) as Hoff.
  unfold c08_r1. cbn [g8_per g8_pending]. rewrite Hget. unfold req_fcbit. rewrite Hfc.
  (* the frame count bit *)
  assert (Hbits : (if c8_first st then (if fcbit_eqb f FcbFirst then None else Some 801)
                   else match c8_last st with
                        | None => Some 801
                        | Some (sv0, fc0) =>
                            if c8_acc st then
                              (if fcbit_fcv f && negb (Bool.eqb (fcbit_fcb f) (negb (Z.land fc0 32 =? 0))) then None else Some 802)
                            else
                              (if service_eqb (classify h) sv0 &&
                                  ((fc_to_byte (FcRequest f (sv_req (classify h))) =? fc0) || (c8_probe st && fcbit_eqb f FcbFirst))
                               then None else Some 803)
                        end) = @None Z).
  { destruct (gh_last g1) as [h0|] eqn:Hl.
    - destruct P2 as (Q1 & Q2 & Q3). rewrite Q1, Q2, Q3.
      destruct (Hprev h0 eq_refl) as (f0 & rq0 & Hfc0 & Hb). rewrite Hfc0.
      destruct (gh_acc g1).
      + destruct Hb as (Hv & Hb). rewrite Hv, fc_byte_fcb, Hb. destruct (fcbit_fcb f0); reflexivity.
      + destruct Hb as (Hsv & _ & Hor). rewrite Hsv, service_eqb_refl. cbn [andb].
        destruct Hor as [Hsame|(Hph & Hf)].
        * assert (E : FcRequest f (sv_req (classify h0)) = FcRequest f0 rq0)
            by (rewrite <- Hsv, <- Hfc, Hsame; exact Hfc0).
          rewrite E, Z.eqb_refl. reflexivity.
        * apply Hoff in Hph. rewrite P1, Hph, Hf. cbn. rewrite Bool.orb_true_r. reflexivity.
    - rewrite P2. rewrite (Hfirst eq_refl). reflexivity. }
  rewrite Hbits.
  assert (Hina : fcbit_eqb f FcbInactive = false) by (destruct f; try reflexivity; now elim Hact). rewrite Hina.
  assert (Hpo : c8_probe st = true -> gh_phase g1 = PhNeedDiag) by (intro E; apply Hoff; rewrite <- P1; exact E).
  assert (H804 : c8_probe st && negb (service_eqb (classify h) SvDiag) = false).
  { destruct (c8_probe st) eqn:Epr; [|reflexivity].
    destruct (Hprobe (Hpo eq_refl)) as (-> & _). reflexivity. }
  rewrite H804.
  assert (H805 : negb (c8_probe st) && Nat.ltb (Z.to_nat (p_max_retry pa)) (c8_lo st) = false).
  { destruct (c8_probe st) eqn:Epr; [reflexivity|]. destruct (P3 eq_refl) as (E1 & E2). cbn [negb andb].
    apply Nat.ltb_ge. lia. }
  rewrite H805.
  eexists. split; [reflexivity|].
  unfold R8. cbn [c8_probe c8_first c8_last c8_acc c8_lo c8_hi gstep gh_last gh_acc gh_unans].
  split; [unfold is_off in *; rewrite Hst; exact P1|]. split; [rewrite Hfc; auto|].
  intro Epr. destruct (P3 Epr) as (E1 & E2). split; lia.
Qed.

(* the Offline event of the model passes the check of the monitor *)
Lemma c08_off_ok : forall pa a o q1 g1 st q' op per pendg ad,
  1 <= p_max_retry pa ->
  Inv pa a o q1 g1 -> R8 q1 g1 st -> ev_ok pa a o g1 (WEvent EvOffline) ->
  p_transmit pa op q1 = Ok (q', PtxSkip (Some EvOffline)) ->
  alist_get c08_init per ad = st ->
  exists st', c08_ev (Z.to_nat (p_max_retry pa)) (mkC08g per pendg) (Some (ad, EvOffline)) =
                inl (mkC08g (alist_set per ad st') pendg) /\
              R8 q' (gstep g1 (WEvent EvOffline)) st'.
Proof.
  intros pa a o q1 g1 st q' op per pendg ad Hmax I (P1 & P2 & P3) (_ & Hlive & Hun) Hp Hget.
  pose proof (transmit_spec _ _ _ _ _ Hp) as Hts. cbn beta iota in Hts. destruct Hts as (_ & _ & _ & Hst & _).
  pose proof (inv_off_phase _ _ _ _ _ I) as Hoff.
  assert (Epr : c8_probe st = false).
  { destruct (c8_probe st) eqn:E; [|reflexivity]. exfalso. apply Hlive. apply Hoff. rewrite <- P1. reflexivity. }
  destruct (P3 Epr) as (E1 & E2).
  unfold c08_ev. cbn [g8_per g8_pending]. rewrite Hget, Epr. cbn [orb].
  assert (Hlt : Nat.ltb (Z.to_nat (p_max_retry pa)) (c8_hi st) = true) by (apply Nat.ltb_lt; lia).
  rewrite Hlt. cbn [negb]. eexists. split; [reflexivity|].
  unfold R8. cbn. split; [unfold is_off; rewrite Hst; reflexivity|]. split; [reflexivity|]. intro E; discriminate E.
Qed.

(* what receive_reply can do to "is not live" *)
Lemma rx_off : forall s ev s1, rx_allowed s ev s1 = true ->
  match ev with
  | Some EvOnline => s = PsOffline /\ s1 <> PsOffline
  | Some EvParameterError | Some EvConfigError => s1 = PsOffline
  | Some EvOffline => False
  | _ => (s1 = PsOffline <-> s = PsOffline)
  end.
Proof.
  intros s ev s1 H. destruct s, ev as [[]|], s1; cbn in H; try discriminate H; cbn;
    try reflexivity; try (split; [reflexivity|discriminate]); try (split; intro X; discriminate X); try tauto.
Qed.

Lemma is_off_iff : forall p q, (pe_state p = PsOffline <-> pe_state q = PsOffline) -> is_off p = is_off q.
Proof.
  intros p q H. destruct (is_off p) eqn:E1, (is_off q) eqn:E2; try reflexivity.
  - apply is_off_spec in E1. apply H in E1. apply is_off_spec in E1. congruence.
  - apply is_off_spec in E2. apply H in E2. apply is_off_spec in E2. congruence.
Qed.

(* a reply: wire part and event part *)
Lemma c08_reply_ok : forall pa a o p g st t p1 ev h per da x mr,
  Inv pa a o p g -> R8 p g st -> gh_last g = Some h -> gh_acc g = false ->
  p_receive_reply p t = Ok (p1, ev) ->
  alist_get c08_init per da = st ->
  exists per' st',
    match c08_r1 mr (mkC08g per (Some (da, classify h))) (VReply x t) with
    | inr cd => inr cd
    | inl g1 => c08_ev mr g1 (option_map (fun e => (da, e)) ev)
    end = inl (mkC08g per' None) /\
    alist_get c08_init per' da = st' /\ (forall a0, a0 <> da -> alist_get c08_init per' a0 = alist_get c08_init per a0) /\
    R8 p1 (gstep g (WReply t ev)) st'.
Proof.
  intros pa a o p g st t p1 ev h per da x mr I (P1 & P2 & P3) Hl Hacc0 Hrx Hget.
  rewrite Hl in P2. destruct P2 as (Q1 & Q2 & Q3).
  destruct (inv_unacc _ _ _ _ _ I h Hl Hacc0) as (Hsv & _).
  destruct (receive_reply_outcome _ _ _ _ Hrx) as (Hal & _ & _).
  pose proof (rx_off _ _ _ Hal) as Hoff.
  pose proof (receive_facts _ _ _ _ Hrx) as (_ & _ & Hfacts). rewrite <- Hsv in Hfacts.
  unfold c08_r1. cbn [g8_per g8_pending]. rewrite Hget.
  set (st1 := if reply_accepted (classify h) t
              then mkC08 (c8_probe st) (c8_first st) (c8_last st) true 0 0
              else mkC08 (c8_probe st) (c8_first st) (c8_last st) (c8_acc st) 0 (c8_hi st)).
  (* the ghost after the reply *)
  assert (Hg : gh_last (gstep g (WReply t ev)) = Some h /\
               gh_acc (gstep g (WReply t ev)) = (if reply_accepted (classify h) t then true else false) /\
               gh_unans (gstep g (WReply t ev)) = (if reply_accepted (classify h) t then 0 else gh_unans g)).
  { cbn [gstep]. rewrite Hl. destruct (reply_accepted (classify h) t); cbn; auto. }
  destruct Hg as (G1 & G2 & G3).
  assert (S1 : c8_first st1 = false /\ c8_last st1 = Some (classify h, fc_to_byte (h_fc h)) /\
               c8_acc st1 = gh_acc (gstep g (WReply t ev)) /\ c8_probe st1 = c8_probe st /\
               (c8_probe st = false \/ reply_accepted (classify h) t = true ->
                Z.of_nat (c8_hi st1) = gh_unans (gstep g (WReply t ev)) /\ (c8_lo st1 <= c8_hi st1)%nat)).
  { unfold st1. rewrite G2, G3. destruct (reply_accepted (classify h) t); cbn.
    - repeat split; auto.
    - repeat split; auto; try congruence.
      + destruct H as [H|H]; [apply (P3 H)|discriminate H].
      + lia. }
  destruct S1 as (S1 & S2 & S3 & S4 & S5).
  (* the state changes only with an accepted reply *)
  assert (Hsame : reply_accepted (classify h) t = false -> pe_state p1 = pe_state p).
  { intro E. rewrite E in Hfacts. apply Hfacts. }
  destruct ev as [e|]; cbn [option_map c08_ev g8_per g8_pending].
  - rewrite alist_get_set_same.
    destruct e; cbn beta iota in Hoff; try (exists (alist_set per da st1), st1; split; [reflexivity|]; split; [apply alist_get_set_same|];
                     split; [intros a0 Ha0; apply alist_get_set_other; exact Ha0|];
                     unfold R8; rewrite G1; split; [rewrite S4, P1; apply is_off_iff; (split; apply Hoff)|]; split; [auto|];
                     intro E; apply S5; left; congruence).
    + (* Online *)
      destruct Hoff as (Hs & Hs1).
      assert (Haccd : reply_accepted (classify h) t = true).
      { destruct (reply_accepted (classify h) t) eqn:E; [reflexivity|]. exfalso. apply Hs1. rewrite (Hsame eq_refl). exact Hs. }
      eexists; eexists. split; [reflexivity|]. split; [apply alist_get_set_same|].
      split; [intros a0 Ha0; rewrite !alist_get_set_other by exact Ha0; reflexivity|].
      unfold R8. cbn [c8_probe c8_first c8_last c8_acc c8_lo c8_hi]. rewrite G1.
      split; [unfold is_off; destruct (pe_state p1); try reflexivity; now elim Hs1|]. split; [auto|].
      intros _. apply S5. right; exact Haccd.
    + (* ConfigError *)
      eexists; eexists. split; [reflexivity|]. split; [apply alist_get_set_same|].
      split; [intros a0 Ha0; rewrite !alist_get_set_other by exact Ha0; reflexivity|].
      unfold R8. cbn [c8_probe c8_first c8_last c8_acc c8_lo c8_hi]. rewrite G1.
      split; [unfold is_off; rewrite Hoff; reflexivity|]. split; [auto|]. intro E; discriminate E.
    + (* ParameterError *)
      eexists; eexists. split; [reflexivity|]. split; [apply alist_get_set_same|].
      split; [intros a0 Ha0; rewrite !alist_get_set_other by exact Ha0; reflexivity|].
      unfold R8. cbn [c8_probe c8_first c8_last c8_acc c8_lo c8_hi]. rewrite G1.
      split; [unfold is_off; rewrite Hoff; reflexivity|]. split; [auto|]. intro E; discriminate E.
    + contradiction.
  - cbn beta iota in Hoff.
    exists (alist_set per da st1), st1. split; [reflexivity|]. split; [apply alist_get_set_same|].
    split; [intros a0 Ha0; apply alist_get_set_other; exact Ha0|].
    unfold R8. rewrite G1. split; [rewrite S4, P1; apply is_off_iff; (split; apply Hoff)|]. split; [auto|].
    intro E. apply S5. left; congruence.
Qed.

(* PART 8: one step of the model's transcript, described once for all monitors *)

(* ------------------------------------------------------------------ requests fit the frame format *)

Lemma limits_parts : forall c, conf_within_limits c = true ->
  (255 <= cf_bufsize c)%nat /\
  forall k pc, nth_error (cf_periphs c) k = Some pc ->
    0 <= pc_addr pc <= 125 /\ (pc_in pc <= 244)%nat /\ (pc_out pc <= 244)%nat /\
    (forall u, o_user_prm (pc_opts pc) = Some u -> (length u <= 237)%nat) /\
    (forall u, o_config (pc_opts pc) = Some u -> (length u <= 244)%nat).
Proof.
  intros c H. unfold conf_within_limits in H. apply andb_true_iff in H. destruct H as [H1 H2].
  split; [apply Nat.leb_le; exact H1|]. intros k pc Hk. rewrite forallb_forall in H2.
  specialize (H2 pc (nth_error_In _ _ Hk)).
  repeat (apply andb_true_iff in H2; let X := fresh "X" in destruct H2 as [H2 X]).
  apply Z.leb_le in H2. apply Z.leb_le in X3. apply Nat.leb_le in X2. apply Nat.leb_le in X1.
  split; [lia|]. split; [exact X2|]. split; [exact X1|]. split.
  - intros u Hu. rewrite Hu in X0. apply Nat.leb_le. exact X0.
  - intros u Hu. rewrite Hu in X. apply Nat.leb_le. exact X.
Qed.

Lemma std_set_prm_length : forall pa o u, length (std_set_prm pa o u) = (7 + length u)%nat.
Proof. intros. unfold std_set_prm. rewrite app_length. reflexivity. Qed.

Lemma req_wire : forall c pc pa op q q' h pdu w,
  conf_within_limits c = true -> 0 <= p_address pa <= 126 ->
  (exists k, nth_error (cf_periphs c) k = Some pc) -> fits pc q ->
  p_transmit pa op q = Ok (q', PtxSend h pdu) ->
  encode_data_in (cf_bufsize c) h pdu = Ok w ->
  decode w = Ok (Accept (TData h pdu) (length w)) /\ exists f rq, h_fc h = FcRequest f rq.
Proof.
  intros c pc pa op q q' h pdu w Hlim Hown (k & Hk) (F1 & F2 & F3 & F4) Hp He.
  destruct (limits_parts _ Hlim) as (Hbuf & Hper). destruct (Hper _ _ Hk) as (Ha & Hin & Hout & Hprm & Hcfg).
  destruct (transmit_facts _ _ _ _ _ Hp) as (_ & _ & _ & _ & _ & _ & _ & _ & Hstd).
  destruct (std_request_classify _ _ _ _ _ _ _ Hstd) as (_ & Hda & Hsa & Hfc).
  assert (Hlen : (length pdu <= 244)%nat).
  { destruct (state_service q') eqn:Esv; cbn in Hstd; try contradiction.
    - destruct Hstd as (_ & ->). cbn. lia.
    - destruct Hstd as (u & Hu & _ & ->). rewrite F2 in Hu. specialize (Hprm _ Hu). cbn [length]. lia.
    - destruct Hstd as (u & Hu & _ & ->). rewrite F2 in Hu. apply (Hcfg _ Hu).
    - assert (Hd : h_dsap h = None) by (rewrite Hstd; reflexivity).
      destruct (dx_request_only_when_ready _ _ _ _ _ _ Hp Hd) as (_ & _ & _ & ->).
      destruct (opstate_eqb op OpOperate); rewrite ?repeat_length; lia. }
  assert (Hwf : wf_header h).
  { unfold wf_header, is_addr7. rewrite Hda, Hsa, F1.
    split; [lia|]. split; [lia|].
    destruct (state_service q'); cbn in Hstd; try contradiction.
    - destruct Hstd as (-> & _). cbn. unfold is_byte. lia.
    - destruct Hstd as (u & _ & -> & _). cbn. unfold is_byte. lia.
    - destruct Hstd as (u & _ & -> & _). cbn. unfold is_byte. lia.
    - rewrite Hstd. cbn. auto. }
  split; [|eexists; eexists; exact Hfc].
  apply (encode_decode (cf_bufsize c)); auto.
  - pose proof (length_byte_le h (length pdu)). lia.
  - pose proof (telegram_len_le h (length pdu)). pose proof (length_byte_le h (length pdu)). lia.
Qed.

Lemma gc_wire : forall c pa b w,
  conf_within_limits c = true -> 0 <= p_address pa <= 126 ->
  send_data (cf_bufsize c) (gc_header pa) [b; dp_gc_groups] = Ok (w, None) ->
  decode w = Ok (Accept (TData (gc_header pa) [b; dp_gc_groups]) (length w)).
Proof.
  intros c pa b w Hlim Hown Hs. destruct (limits_parts _ Hlim) as (Hbuf & _).
  unfold send_data in Hs. destruct (encode_data_in (cf_bufsize c) (gc_header pa) [b; dp_gc_groups]) as [w'| |] eqn:He;
    cbn [bind] in Hs; try discriminate Hs. inversion Hs; subst w'.
  apply (encode_decode (cf_bufsize c)); auto.
  - unfold wf_header, gc_header. cbn [h_da h_sa h_dsap h_ssap].
    split; [vm_compute; split; [discriminate|reflexivity]|]. split; [unfold is_addr7; lia|].
    split; vm_compute; (split; [discriminate|reflexivity]).
  - vm_compute. lia.
  - unfold telegram_len_data, length_byte. cbn. lia.
Qed.

(* ------------------------------------------------------------------ the description of a step *)

Definition all_quiet (m : dpm) (gs : gmap) (m' : dpm) (gs' : gmap) : Prop :=
  (forall j q, slot m j = Some q -> exists q', slot m' j = Some q' /\ Quiet q (gs j) q' (gs' j)) /\
  (forall j q', slot m' j = Some q' -> exists q, slot m j = Some q).

Definition others_quiet (m : dpm) (gs : gmap) (m' : dpm) (gs' : gmap) (i : nat) : Prop :=
  (forall j q, j <> i -> slot m j = Some q -> exists q', slot m' j = Some q' /\ Quiet q (gs j) q' (gs' j)) /\
  (forall j q', slot m' j = Some q' -> exists q, slot m j = Some q).

Section Step.
Variable c : conf.
Hypothesis Hc : conf_ok c.

Definition Base (s : sys) (gs : gmap) (pend : option Z) : Prop :=
  SInv c s /\ GInv (cf_params c) (sy_m s) gs pend.

Inductive Trans (s : sys) (gs : gmap) (pend : option Z) (t : tstep) (s' : sys) (gs' : gmap) : Prop :=
| TQuiet :
    (view_of t = VNoTx /\ pend = None \/ (exists h pdu, view_of t = VSdn h pdu) /\ pend = None \/ view_of t = VOther) ->
    step_event t = None ->
    match ts_in t with InWriteQ _ _ | InAdd _ => False | _ => True end ->
    all_quiet (sy_m s) gs (sy_m s') gs' ->
    Trans s gs pend t s' gs'
| TReq : forall i h pdu q q1 g1 q',
    pend = None -> view_of t = VReq (h_da h) (classify h) h pdu -> step_event t = None ->
    (exists now hp, ts_in t = InTx now hp) ->
    slot (sy_m s) i = Some q -> h_da h = pe_addr q -> Quiet q (gs i) q1 g1 ->
    Inv (cf_params c) (pe_addr q) (pe_opts q) q1 g1 ->
    p_transmit (cf_params c) (dm_op (sy_m s)) q1 = Ok (q', PtxSend h pdu) ->
    slot (sy_m s') i = Some q' -> gs' i = gstep g1 (WReq h pdu) ->
    req_ok (cf_params c) (pe_addr q) (pe_opts q) g1 h pdu ->
    others_quiet (sy_m s) gs (sy_m s') gs' i ->
    Trans s gs pend t s' gs'
| TOff : forall i q q1 g1 q',
    pend = None -> view_of t = VNoTx -> step_event t = Some (pe_addr q, EvOffline) ->
    (exists now hp, ts_in t = InTx now hp) ->
    slot (sy_m s) i = Some q -> Quiet q (gs i) q1 g1 ->
    Inv (cf_params c) (pe_addr q) (pe_opts q) q1 g1 ->
    p_transmit (cf_params c) (dm_op (sy_m s)) q1 = Ok (q', PtxSkip (Some EvOffline)) ->
    slot (sy_m s') i = Some q' -> gs' i = gstep g1 (WEvent EvOffline) ->
    ev_ok (cf_params c) (pe_addr q) (pe_opts q) g1 (WEvent EvOffline) ->
    others_quiet (sy_m s) gs (sy_m s') gs' i ->
    Trans s gs pend t s' gs'
| TReply : forall i a tg ev p p1 now w,
    pend = Some a -> view_of t = VReply a tg -> step_event t = option_map (fun e => (a, e)) ev ->
    ts_in t = InRx now a w ->
    slot (sy_m s) i = Some p -> pe_addr p = a -> p_receive_reply p tg = Ok (p1, ev) ->
    slot (sy_m s') i = Some p1 -> gs' = gupd gs i (gstep (gs i) (WReply tg ev)) ->
    gh_out (gs i) = true ->
    others_quiet (sy_m s) gs (sy_m s') gs' i ->
    Trans s gs pend t s' gs'
| TTimeout : forall i a p,
    pend = Some a -> (view_of t = VTimeout a \/ view_of t = VAbandon) -> step_event t = None ->
    match ts_in t with InTo _ _ | InAbandon => True | _ => False end ->
    slot (sy_m s) i = Some p -> pe_addr p = a -> sy_m s' = sy_m s ->
    gs' = gupd gs i (gstep (gs i) WTimeout) ->
    Trans s gs pend t s' gs'
| TUser : forall i k p p',
    view_of t = VOther -> step_event t = None ->
    slot (sy_m s) i = Some p -> slot (sy_m s') i = Some p' -> same_ctrl p p' -> gs' = gs ->
    (exists h, nth_error (sy_handles s) k = Some (Some h) /\ hd_index h = i) ->
    (ts_in t = InReqDiag k /\ pe_pi_q p' = pe_pi_q p \/ exists q, ts_in t = InWriteQ k q /\ pe_pi_q p' = q) ->
    others_quiet (sy_m s) gs (sy_m s') gs' i ->
    Trans s gs pend t s' gs'
| TAdd : forall k i pc,
    pend = None -> ts_in t = InAdd k -> view_of t = VOther -> step_event t = None ->
    nth_error (cf_periphs c) k = Some pc -> nth_error (sy_handles s) k = Some None ->
    ts_out t = OutHandle (mkHandle i (pc_addr pc)) ->
    slot (sy_m s) i = None -> slot (sy_m s') i = Some (periph_of_conf pc) ->
    (forall j, j <> i -> slot (sy_m s') j = slot (sy_m s) j) ->
    gs' = gupd gs i ghost0 ->
    (forall j q, slot (sy_m s) j = Some q -> pe_addr q <> pc_addr pc) ->
    Trans s gs pend t s' gs'.

Lemma all_quiet_refl : forall m gs m', (forall j, slot m' j = slot m j) -> all_quiet m gs m' gs.
Proof.
  intros m gs m' H. split.
  - intros j q Hq. exists q. rewrite H. split; [exact Hq|apply quiet_refl].
  - intros j q' Hq'. exists q'. rewrite <- H. exact Hq'.
Qed.

Lemma sinv_same_slots : forall s s',
  SInv c s -> sy_conf s' = sy_conf s -> sy_handles s' = sy_handles s -> dm_events (sy_m s') = events_default ->
  (forall j, slot (sy_m s') j = slot (sy_m s) j) -> SInv c s'.
Proof.
  intros s s' I H1 H2 H3 H4. apply (sinv_step c s s' I H1 H2 H3).
  - intros j q Hq. exists q. rewrite H4. split; [exact Hq|]. unfold shape_eq. auto.
  - intros j q' Hq'. exists q'. rewrite <- H4. exact Hq'.
Qed.

Lemma hs_next_other : forall hs t, (forall k, ts_in t <> InAdd k) -> hs_next hs t = hs.
Proof. intros hs t H. unfold hs_next. destruct (ts_in t); try reflexivity. now elim (H k). Qed.

Lemma quiet_all_shape : forall m gs m' gs',
  all_quiet m gs m' gs' ->
  (forall j q, slot m j = Some q -> exists q', slot m' j = Some q' /\ shape_eq q q') /\
  (forall j q', slot m' j = Some q' -> exists q, slot m j = Some q).
Proof.
  intros m gs m' gs' [H1 H2]. split; [|exact H2].
  intros j q Hq. destruct (H1 _ _ Hq) as (q' & Hq' & HQ). exists q'. split; [exact Hq'|eapply quiet_shape; exact HQ].
Qed.

(* the view of a transmit step is one of four, and all of them need an idle FDL *)
Lemma tx_view_pend : forall own hs pend now hp o tk obs op,
  head_ok own hs pend (mkStep (InTx now hp) false (OutTx o) tk obs op) -> pend = None.
Proof.
  intros own hs pend now hp o tk obs op (_ & Hv & _).
  unfold view_of in Hv. cbn [ts_in ts_out] in Hv.
  destruct o as [[w e]|]; [|exact Hv].
  destruct (decode w) as [[| |[h pdu| |] n]| |]; try exact Hv.
  destruct (negb (Nat.eqb n (length w))); [exact Hv|].
  destruct (h_fc h); destruct e as [da|]; try exact Hv.
  destruct (da =? h_da h); exact Hv.
Qed.


Lemma reqdiag_upd : forall m h m1, dp_request_diagnostics m h = Ok m1 ->
  exists p, slot m (hd_index h) = Some p /\
    m1 = set_slots m (put_slot (dm_slots m) (hd_index h) (p_request_diagnostics p)) /\
    same_ctrl p (p_request_diagnostics p).
Proof.
  intros m h m1 H. unfold dp_request_diagnostics, dp_update in H.
  destruct (dp_get_mut m h) as [p| |] eqn:Hg; cbn [bind] in H; try discriminate H. inversion H; subst m1.
  exists p. split; [apply dp_get_mut_slot; exact Hg|]. split; [reflexivity|]. unfold same_ctrl. cbn. repeat split; reflexivity.
Qed.

Lemma writeq_upd : forall m h q m1, dp_write_q m h q = Ok m1 ->
  exists p, slot m (hd_index h) = Some p /\
    m1 = set_slots m (put_slot (dm_slots m) (hd_index h) (set_pi_q p q)) /\ same_ctrl p (set_pi_q p q).
Proof.
  intros m h q m1 H. unfold dp_write_q in H.
  destruct (dp_get_mut m h) as [p| |] eqn:Hg; cbn [bind] in H; try discriminate H.
  unfold copy_from_slice in H. destruct (Nat.eqb (length (pe_pi_q p)) (length q)) eqn:Hl; cbn [bind] in H; try discriminate H.
  inversion H; subst m1. exists p. split; [apply dp_get_mut_slot; exact Hg|]. split; [reflexivity|].
  unfold same_ctrl. cbn. repeat split; try reflexivity. symmetry. apply Nat.eqb_eq. exact Hl.
Qed.

Lemma set_nth_length : forall A (l : list A) i x, length (set_nth l i x) = length l.
Proof. induction l as [|y l IH]; intros [|i] x; cbn; auto. Qed.

Lemma set_nth_same : forall A (l : list A) i x, (i < length l)%nat -> nth_error (set_nth l i x) i = Some x.
Proof. induction l as [|y l IH]; intros [|i] x H; cbn in *; try lia; [reflexivity|]. apply IH. lia. Qed.

Lemma set_nth_other : forall A (l : list A) i j x, j <> i -> nth_error (set_nth l i x) j = nth_error l j.
Proof.
  induction l as [|y l IH]; intros [|i] [|j] x H; cbn; try reflexivity; try (now elim H).
  apply IH. intro E; apply H; f_equal; exact E.
Qed.

Lemma observe_eq : forall s s', sy_handles s' = sy_handles s -> sy_m s' = sy_m s -> observe s' = observe s.
Proof. intros s s' H1 H2. unfold observe. rewrite H1, H2. reflexivity. Qed.

Lemma same_ctrl_shape : forall p p', same_ctrl p p' -> shape_eq p p'.
Proof. intros p p' (Ha & _ & _ & _ & Hi & _ & Ho & Hl). unfold shape_eq. repeat split; congruence. Qed.

(* a user call through handle k *)
Lemma user_trans : forall s gs pend k h p p' (i0 : tr_in) o,
  Base s gs pend -> handle_of s k = Some h -> slot (sy_m s) (hd_index h) = Some p -> same_ctrl p p' ->
  (i0 = InReqDiag k /\ pe_pi_q p' = pe_pi_q p \/ exists q, i0 = InWriteQ k q /\ pe_pi_q p' = q) ->
  let m1 := set_slots (sy_m s) (put_slot (dm_slots (sy_m s)) (hd_index h) p') in
  let t := mkStep i0 false OutUnit None (observe (set_m s m1)) o in
  o = dm_op m1 ->
  exists gs',
    Base (set_m s m1) gs' pend /\ sy_handles s = sy_handles s /\ i0 = i0 /\
    observe (set_m s m1) = observe (set_m s m1) /\ o = dm_op m1 /\
    (match i0 with InEnter _ => True | _ => dm_op m1 = dm_op (sy_m s) end) /\
    Trans s gs pend t (set_m s m1) gs'.
Proof.
  intros s gs pend k h p p' i0 o [I G] Hh Hsl Hsc Hin m1 t Ho.
  assert (Hk : nth_error (sy_handles s) k = Some (Some h)).
  { unfold handle_of in Hh. destruct (nth_error (sy_handles s) k) as [[h0|]|]; inversion Hh; reflexivity. }
  assert (Hupd : user_upd (sy_m s) m1) by (exists (hd_index h), p, p'; auto).
  assert (Hv : view_of t = VOther) by (destruct Hin as [(-> & _)|(q & -> & _)]; reflexivity).
  assert (Hslots : forall j, slot m1 j = if Nat.eqb j (hd_index h) then Some p' else slot (sy_m s) j).
  { intro j. unfold m1. destruct (Nat.eqb_spec j (hd_index h)) as [->|Hne].
    - apply (slot_put_same _ _ p' _ Hsl).
    - apply slot_put_other. intro E; apply Hne; symmetry; exact E. }
  exists gs. split.
  { split.
    - apply (sinv_step c s); auto.
      + cbn. exact (si_events _ _ I).
      + intros j q Hq. cbn [sy_m set_m]. rewrite Hslots. destruct (Nat.eqb_spec j (hd_index h)) as [->|Hne].
        * exists p'. split; [reflexivity|]. rewrite Hsl in Hq. inversion Hq; subst q. apply same_ctrl_shape. exact Hsc.
        * exists q. split; [exact Hq|]. unfold shape_eq. auto.
      + intros j q' Hq'. cbn [sy_m set_m] in Hq'. rewrite Hslots in Hq'.
        destruct (Nat.eqb_spec j (hd_index h)) as [->|Hne]; [exists p; exact Hsl|exists q'; exact Hq'].
    - cbn [sy_m set_m]. apply (ginv_user _ (sy_m s)); assumption. }
  split; [reflexivity|]. split; [reflexivity|]. split; [reflexivity|]. split; [exact Ho|].
  split; [destruct Hin as [(-> & _)|(q & -> & _)]; reflexivity|].
  apply (TUser s gs pend t _ gs (hd_index h) k p p'); cbn [sy_m set_m]; auto.
  - rewrite Hslots, Nat.eqb_refl. reflexivity.
  - exists h. split; [exact Hk|reflexivity].
  - split.
    + intros j q Hne Hq. exists q. rewrite Hslots. destruct (Nat.eqb_spec j (hd_index h)); [contradiction|].
      split; [exact Hq|apply quiet_refl].
    + intros j q' Hq'. rewrite Hslots in Hq'.
      destruct (Nat.eqb_spec j (hd_index h)) as [->|Hne]; [exists p; exact Hsl|exists q'; exact Hq'].
Qed.

(* an input that does not reach the master *)
Lemma env_trans : forall s gs pend s' (i0 : tr_in) o,
  Base s gs pend -> sy_conf s' = sy_conf s -> sy_m s' = sy_m s -> sy_handles s' = sy_handles s ->
  (match i0 with InSlave _ _ | InPower _ | InSlaveSet _ _ _ _ _ _ _ _ _ | InClean => True | _ => False end) ->
  view_of (mkStep i0 false o None (observe s) (dm_op (sy_m s))) = VOther ->
  let t := mkStep i0 false o None (observe s) (dm_op (sy_m s)) in
  exists gs',
    Base s' gs' (pend_next_v pend (view_of t)) /\ sy_handles s' = hs_next (sy_handles s) t /\
    ts_in t = i0 /\ ts_obs t = observe s' /\ ts_op t = dm_op (sy_m s') /\
    (match i0 with InEnter _ => True | _ => dm_op (sy_m s') = dm_op (sy_m s) end) /\
    Trans s gs pend t s' gs'.
Proof.
  intros s gs pend s' i0 o [I G] Hcf Hm Hh Hi Hv t.
  exists gs. unfold t. rewrite Hv. cbn [pend_next_v ts_in ts_obs ts_op].
  rewrite hs_next_other by (cbn [ts_in]; intros k' E; rewrite E in Hi; exact Hi).
  split.
  { split.
    - apply (sinv_same_slots s); auto; rewrite Hm; [exact (si_events _ _ I)|reflexivity].
    - rewrite Hm. exact G. }
  split; [exact Hh|]. split; [reflexivity|]. split; [symmetry; apply observe_eq; assumption|].
  split; [rewrite Hm; reflexivity|]. split; [destruct i0; try exact Logic.I; rewrite Hm; reflexivity|].
  apply TQuiet; cbn [ts_in]; auto.
  - destruct i0; try contradiction; exact Logic.I.
  - apply all_quiet_refl. rewrite Hm. reflexivity.
Qed.

Lemma model_trans : forall s gs pend i t s',
  Base s gs pend -> model_step s i = Ok (s', t) ->
  head_ok (p_address (cf_params c)) (sy_handles s) pend t -> is_reset_in i = false ->
  exists gs',
    Base s' gs' (pend_next_v pend (view_of t)) /\ sy_handles s' = hs_next (sy_handles s) t /\
    ts_in t = i /\ ts_obs t = observe s' /\ ts_op t = dm_op (sy_m s') /\
    (match i with InEnter _ => True | _ => dm_op (sy_m s') = dm_op (sy_m s) end) /\
    Trans s gs pend t s' gs'.
Proof.
  intros s gs pend i t s' [I G] Hstep Hhead Hnreset.
  pose proof (co_auto _ Hc) as Hauto. pose proof (co_retry _ Hc) as Hmax.
  pose proof Hhead as (Hbad & Hview & Hadd).
  destruct i as [now hp|now addr wire|now addr| |k|k q|st| |k|k wire|k|k si rd sd dp f1 f2 ext ident| |k a].
  - (* transmit_telegram *)
    destruct (step_tx c s now hp s' t I Hauto Hstep) as (m1 & o & Htx & -> & ->).
    pose proof (tx_view_pend _ _ _ _ _ _ _ _ _ Hhead) as Hp. subst pend.
    rewrite <- dp_transmit_erase in Htx.
    destruct (dp_transmit_g (cf_params c) (cf_bufsize c) (sy_m s) now hp) as [[[m1' o'] log]| |] eqn:Hg;
      cbn [drop_log] in Htx; try discriminate Htx. inversion Htx; subst m1' o'. clear Htx.
    cbn [sy_m set_m sy_handles ts_in ts_obs ts_op dm_op set_events].
    rewrite hs_next_other by (intros k E; discriminate E).
    destruct (dp_transmit_g_cases _ _ _ _ _ _ _ _ Hg) as
      [(Hop & Hm & -> & _)|[(Hop & _ & _ & Hm & _ & b & w & _ & Hsd & ->)|(Hop & _ & Hrel)]].
    + (* stopped *)
      assert (Hsl : forall j, slot (set_events m1 events_default) j = slot (sy_m s) j) by (rewrite Hm; reflexivity).
      exists gs. split.
      { split.
        - apply (sinv_same_slots s); auto.
        - cbn [pend_next_v view_of ts_in ts_out sy_m set_m]. apply (ginv_none_slots _ (sy_m s)); [rewrite Hm; reflexivity|exact G]. }
      split; [reflexivity|]. split; [reflexivity|]. split; [reflexivity|]. split; [reflexivity|].
      split; [rewrite Hm; reflexivity|].
      apply TQuiet; cbn [sy_m set_m ts_in].
      * left. split; reflexivity.
      * rewrite Hm. reflexivity.
      * exact Logic.I.
      * apply all_quiet_refl. exact Hsl.
    + (* global control *)
      assert (Hsl : forall j, slot (set_events m1 events_default) j = slot (sy_m s) j) by (rewrite Hm; reflexivity).
      pose proof (gc_wire c _ _ _ (co_limits _ Hc) (co_own _ Hc) Hsd) as Hdec.
      assert (Hv : forall tk obs op, view_of (mkStep (InTx now hp) false (OutTx (Some (w, None))) tk obs op) =
                     VSdn (gc_header (cf_params c)) [b; dp_gc_groups]).
      { intros. eapply view_tx_sdn; [exact Hdec|reflexivity]. }
      exists gs. split.
      { split.
        - apply (sinv_same_slots s); auto.
        - rewrite Hv. cbn [pend_next_v sy_m set_m]. apply (ginv_none_slots _ (sy_m s)); [rewrite Hm; reflexivity|exact G]. }
      split; [reflexivity|]. split; [reflexivity|]. split; [reflexivity|]. split; [reflexivity|].
      split; [rewrite Hm; reflexivity|].
      apply TQuiet; cbn [sy_m set_m ts_in].
      * right; left. split; [|reflexivity]. eexists; eexists. apply Hv.
      * rewrite Hm. reflexivity.
      * exact Logic.I.
      * apply all_quiet_refl. exact Hsl.
    + (* the slot loop *)
      destruct (tx_rel_ghost _ _ _ _ _ _ Hmax Hrel gs G) as (gs' & v & G' & Hmk & Hop' & Hslots & Hvis).
      assert (Hfw : forall j q, slot (sy_m s) j = Some q -> exists q', slot m1 j = Some q' /\ shape_eq q q').
      { intros j q Hq. destruct (Hslots _ _ Hq) as (q' & Hq' & Hpost). exists q'. split; [exact Hq'|].
        eapply slot_post_shape; exact Hpost. }
      assert (I' : SInv c (set_m s (set_events m1 events_default))).
      { apply (sinv_step c s); auto.
        intros j q' Hq'. apply (mask_slot_back (sy_m s) m1 j q' Hmk Hq'). }
      exists gs'.
      assert (Hbw : forall j q', slot m1 j = Some q' -> exists q, slot (sy_m s) j = Some q)
        by (intros j q' Hq'; apply (mask_slot_back (sy_m s) m1 j q' Hmk Hq')).
      destruct v as [|i h pdu|i].
      * (* nothing visible *)
        destruct Hvis as (-> & Hev).
        split.
        { split; [exact I'|]. cbn [pend_next_v view_of ts_in ts_out sy_m set_m].
          apply (ginv_frame _ m1); [reflexivity|reflexivity|exact G']. }
        split; [reflexivity|]. split; [reflexivity|]. split; [reflexivity|]. split; [reflexivity|].
        split; [exact Hop'|].
        apply TQuiet; cbn [sy_m set_m ts_in].
        -- left. split; reflexivity.
        -- unfold step_event. cbn [ts_taken]. rewrite Hev. reflexivity.
        -- exact Logic.I.
        -- split; [|exact Hbw]. intros j q Hq. destruct (Hslots _ _ Hq) as (q' & Hq' & Hpost). exists q'.
           split; [exact Hq'|exact Hpost].
      * (* a request *)
        destruct Hvis as (w & q & -> & Henc & Hev & Hcur & Hq).
        destruct (Hslots _ _ Hq) as (q' & Hq' & Hpost). cbn [slot_post] in Hpost. rewrite Nat.eqb_refl in Hpost.
        destruct Hpost as (q1 & g1 & HQ & I1 & Hp & Hg' & Hreq).
        destruct (slot_handle c s i q I Hq) as (k & hq & pc & _ & _ & Hpc & Hfit).
        assert (Hfit1 : fits pc q1).
        { destruct Hfit as (F1 & F2 & F3 & F4). destruct HQ. unfold fits. repeat split; congruence. }
        destruct (req_wire c pc _ _ _ _ _ _ _ (co_limits _ Hc) (co_own _ Hc) (ex_intro _ k Hpc) Hfit1 Hp Henc)
          as (Hdec & f & rq & Hfc).
        assert (Hv : forall tk obs op, view_of (mkStep (InTx now hp) false (OutTx (Some (w, Some (h_da h)))) tk obs op) =
                       VReq (h_da h) (classify h) h pdu).
        { intros. eapply view_tx_req; [exact Hdec|exact Hfc]. }
        pose proof Hreq as (f0 & Hstd & _). destruct (std_request_classify _ _ _ _ _ _ _ Hstd) as (_ & Hda & _).
        split.
        { split; [exact I'|]. rewrite Hv. cbn [pend_next_v sy_m set_m].
          apply (ginv_frame _ m1); [reflexivity|reflexivity|exact G']. }
        split; [reflexivity|]. split; [reflexivity|]. split; [reflexivity|]. split; [reflexivity|].
        split; [exact Hop'|].
        apply (TReq _ _ _ _ _ _ i h pdu q q1 g1 q'); cbn [sy_m set_m ts_in]; auto.
        -- unfold step_event. cbn [ts_taken]. rewrite Hev. reflexivity.
        -- eexists; eexists; reflexivity.
        -- split; [|exact Hbw]. intros j qj Hne Hqj. destruct (Hslots _ _ Hqj) as (qj' & Hqj' & Hpost).
           exists qj'. split; [exact Hqj'|]. cbn [slot_post] in Hpost.
           destruct (Nat.eqb_spec j i); [contradiction|exact Hpost].
      * (* the Offline event *)
        destruct Hvis as (-> & q & Hq & Hev).
        destruct (Hslots _ _ Hq) as (q' & Hq' & Hpost). cbn [slot_post] in Hpost. rewrite Nat.eqb_refl in Hpost.
        destruct Hpost as (q1 & g1 & HQ & I1 & Hp & Hg' & Hok).
        split.
        { split; [exact I'|]. cbn [pend_next_v view_of ts_in ts_out sy_m set_m].
          apply (ginv_frame _ m1); [reflexivity|reflexivity|exact G']. }
        split; [reflexivity|]. split; [reflexivity|]. split; [reflexivity|]. split; [reflexivity|].
        split; [exact Hop'|].
        apply (TOff _ _ _ _ _ _ i q q1 g1 q'); cbn [sy_m set_m ts_in]; auto.
        -- unfold step_event. cbn [ts_taken]. rewrite Hev. reflexivity.
        -- eexists; eexists; reflexivity.
        -- split; [|exact Hbw]. intros j qj Hne Hqj. destruct (Hslots _ _ Hqj) as (qj' & Hqj' & Hpost).
           exists qj'. split; [exact Hqj'|]. cbn [slot_post] in Hpost.
           destruct (Nat.eqb_spec j i); [contradiction|exact Hpost].
  - (* receive_reply *)
    destruct (step_rx c s now addr wire s' t I Hauto Hstep Hbad) as (tg & m1 & Hdec & Hrx & -> & ->).
    assert (Hv : forall tk obs op, view_of (mkStep (InRx now addr wire) false OutUnit tk obs op) = VReply addr tg)
      by (intros; eapply view_rx; exact Hdec).
    rewrite Hv in Hview. destruct Hview as (-> & Hadm).
    rewrite <- dp_receive_reply_erase in Hrx.
    destruct (dp_receive_reply_g (sy_m s) addr tg) as [[m1' log]| |] eqn:Hg; cbn [drop_log] in Hrx; try discriminate Hrx.
    inversion Hrx; subst m1'. clear Hrx.
    destruct (rx_ghost _ _ _ _ _ _ _ _ Hmax G Hg) as
      (i & p & p1 & ev & cc & _ & Hcur & Hsl & Ha & _ & Hp & Hsl' & Hoth & Hmk & Hev & Hop' & _ & Hout & G' & _).
    cbn [sy_m set_m sy_handles ts_in ts_obs ts_op dm_op set_events].
    rewrite hs_next_other by (intros k E; discriminate E). rewrite Hv. cbn [pend_next_v].
    exists (gupd gs i (gstep (gs i) (WReply tg ev))).
    assert (Hbw : forall j q', slot m1 j = Some q' -> exists q, slot (sy_m s) j = Some q)
      by (intros j q' Hq'; apply (mask_slot_back (sy_m s) m1 j q' Hmk Hq')).
    split.
    { split.
      - apply (sinv_step c s); auto.
        intros j q Hq. cbn [sy_m set_m]. change (slot (set_events m1 events_default) j) with (slot m1 j).
        destruct (Nat.eq_dec j i) as [->|Hne].
        + exists p1. split; [exact Hsl'|]. rewrite Hsl in Hq. inversion Hq; subst q. eapply receive_shape; exact Hp.
        + exists q. rewrite Hoth by exact Hne. split; [exact Hq|]. unfold shape_eq. auto.
      - apply (ginv_frame _ m1); [reflexivity|reflexivity|exact G']. }
    split; [reflexivity|]. split; [reflexivity|]. split; [reflexivity|]. split; [reflexivity|].
    split; [exact Hop'|].
    apply (TReply _ _ _ _ _ _ i addr tg ev p p1 now wire); cbn [sy_m set_m ts_in]; auto.
    + unfold step_event. cbn [ts_taken]. rewrite Hev. cbn [ev_peripheral]. destruct ev; reflexivity.
    + split; [|exact Hbw]. intros j q Hne Hq. exists q.
      change (slot (set_events m1 events_default) j) with (slot m1 j). rewrite Hoth by exact Hne.
      split; [exact Hq|]. rewrite gupd_other by exact Hne. apply quiet_refl.
  - (* handle_timeout *)
    destruct (step_to c s now addr s' t I Hauto Hstep) as (-> & ->).
    cbn [view_of ts_in ts_out] in Hview. subst pend.
    destruct (timeout_ghost _ _ _ _ Hmax G) as (i & p & Hcur & Hsl & Ha & Hout & G').
    cbn [ts_in ts_obs ts_op]. rewrite hs_next_other by (intros k E; discriminate E).
    exists (gupd gs i (gstep (gs i) WTimeout)).
    split; [split; [exact I|exact G']|].
    split; [reflexivity|]. split; [reflexivity|]. split; [reflexivity|]. split; [reflexivity|]. split; [reflexivity|].
    apply (TTimeout _ _ _ _ _ _ i addr p); auto.
  - (* the FDL gives the request up *)
    destruct (step_env s InAbandon s' t eq_refl Hstep) as (Hcf & Hm & Hh & o & -> & _).
    cbn [view_of ts_in] in Hview.
    destruct pend as [a|]; [|now elim Hview].
    destruct (timeout_ghost _ _ _ _ Hmax G) as (i & p & Hcur & Hsl & Ha' & Hout & G').
    cbn [ts_in ts_obs ts_op]. rewrite hs_next_other by (intros k E; discriminate E).
    exists (gupd gs i (gstep (gs i) WTimeout)).
    split; [split; [apply (sinv_same_slots s); auto; rewrite Hm; [exact (si_events _ _ I)|reflexivity]|rewrite Hm; exact G']|].
    split; [exact Hh|]. split; [reflexivity|]. split; [symmetry; apply observe_eq; assumption|]. split; [rewrite Hm; reflexivity|].
    split; [rewrite Hm; reflexivity|].
    apply (TTimeout _ _ _ _ _ _ i a p); auto.
  - (* request_diagnostics *)
    destruct (step_reqdiag s k s' t Hstep Hbad) as (h & m1 & Hh & Hu & -> & ->).
    cbn [sy_m set_m sy_handles ts_in ts_obs ts_op view_of pend_next_v ts_out].
    rewrite hs_next_other by (intros k' E; discriminate E).
    destruct (reqdiag_upd _ _ _ Hu) as (p & Hsl & -> & Hsc).
    apply (user_trans s gs pend k h p (p_request_diagnostics p) (InReqDiag k) _ (conj I G) Hh Hsl Hsc);
      [left; split; reflexivity|reflexivity].
  - (* pi_q write *)
    destruct (step_writeq s k q s' t Hstep Hbad) as (h & m1 & Hh & Hu & -> & ->).
    cbn [sy_m set_m sy_handles ts_in ts_obs ts_op view_of pend_next_v ts_out].
    rewrite hs_next_other by (intros k' E; discriminate E).
    destruct (writeq_upd _ _ _ _ Hu) as (p & Hsl & -> & Hsc).
    apply (user_trans s gs pend k h p (set_pi_q p q) (InWriteQ k q) _ (conj I G) Hh Hsl Hsc);
      [right; exists q; split; reflexivity|reflexivity].
  - (* enter_state *)
    destruct (step_enter s st s' t Hstep) as (-> & o & Ho & ->).
    cbn [sy_m set_m sy_handles ts_in ts_obs ts_op].
    rewrite hs_next_other by (intros k' E; discriminate E).
    assert (Hv : view_of (mkStep (InEnter st) false o None
                   (observe (set_m s (dp_enter_state_unwound (sy_m s) st))) st) = VOther)
      by (destruct Ho as [-> | ->]; reflexivity).
    rewrite Hv. cbn [pend_next_v].
    assert (Hsl : forall j, slot (dp_enter_state_unwound (sy_m s) st) j = slot (sy_m s) j) by (intro j; reflexivity).
    exists gs. split.
    { split.
      - apply (sinv_same_slots s); auto. cbn. exact (si_events _ _ I).
      - apply (ginv_frame _ (sy_m s)); [reflexivity|reflexivity|exact G]. }
    split; [reflexivity|]. split; [reflexivity|]. split; [reflexivity|]. split; [reflexivity|]. split; [exact Logic.I|].
    apply TQuiet; cbn [sy_m set_m ts_in]; auto.
    apply all_quiet_refl. exact Hsl.
  - (* take_last_events *)
    destruct (step_take c s s' t I Hstep) as (-> & ->).
    cbn [ts_in ts_obs ts_op view_of ts_out pend_next_v]. rewrite hs_next_other by (intros k' E; discriminate E).
    exists gs. split; [split; assumption|].
    split; [reflexivity|]. split; [reflexivity|]. split; [reflexivity|]. split; [reflexivity|]. split; [reflexivity|].
    apply TQuiet; cbn [ts_in]; auto.
    apply all_quiet_refl. reflexivity.
  - (* add *)
    destruct (step_add s k s' t Hstep Hbad) as (pc & m1 & h & Hpc & Hdadd & -> & ->).
    cbn [ts_in] in Hadd. destruct Hadd as (Hnone & ->). rewrite (si_late _ _ I _ Hnone) in Hpc.
    cbn [sy_m sy_handles ts_in ts_obs ts_op view_of pend_next_v ts_out hs_next].
    destruct (dp_add_post _ _ _ _ Hdadd) as (Hfree & Hnew & Hoth & Hadr & A1 & A2 & A3 & A4 & A5).
    assert (Hh : h = mkHandle (hd_index h) (pc_addr pc)).
    { destruct h as [hi ha]. cbn in Hadr |- *. rewrite Hadr. reflexivity. }
    assert (Hklt : (k < length (sy_handles s))%nat) by (apply nth_error_Some; rewrite Hnone; discriminate).
    assert (Hfresh : forall j q0, slot (sy_m s) j = Some q0 -> pe_addr q0 <> pc_addr pc).
    { intros j q0 Hq0 E. destruct (slot_handle c s j q0 I Hq0) as (k' & h' & pc' & Hk' & _ & Hpc' & (F1 & _)).
      assert (Ek : k' = k) by (apply (conf_addr_inj c k' k pc' pc (co_sane _ Hc) Hpc' Hpc); congruence).
      subst k'. rewrite Hnone in Hk'. discriminate Hk'. }
    exists (gupd gs (hd_index h) ghost0). split.
    { split.
      - constructor; cbn [sy_conf sy_handles sy_m].
        + exact (si_conf _ _ I).
        + rewrite set_nth_length. exact (si_len _ _ I).
        + rewrite A2. exact (si_events _ _ I).
        + intros k' h' Hk'. destruct (Nat.eq_dec k' k) as [->|Hne].
          * rewrite set_nth_same in Hk' by exact Hklt. inversion Hk'; subst h'.
            exists pc, (periph_of_conf pc). split; [exact Hpc|]. split; [exact Hnew|apply periph_of_conf_fits].
          * rewrite set_nth_other in Hk' by exact Hne.
            destruct (si_h _ _ I _ _ Hk') as (pc' & p' & H1 & H2 & H4). exists pc', p'.
            split; [exact H1|]. split; [|assumption].
            rewrite Hoth; [exact H2|]. intro E. rewrite E in H2. rewrite Hfree in H2. discriminate H2.
        + intros j p Hp. destruct (Nat.eq_dec j (hd_index h)) as [->|Hne].
          * rewrite Hnew in Hp. inversion Hp; subst p. exists k, h. rewrite set_nth_same by exact Hklt. auto.
          * rewrite Hoth in Hp by exact Hne. destruct (si_s _ _ I _ _ Hp) as (k' & h' & Hk' & Hi'). exists k', h'.
            split; [|exact Hi']. rewrite set_nth_other; [exact Hk'|]. intro E; subst k'. rewrite Hnone in Hk'. discriminate Hk'.
        + intros k' Hk'. destruct (Nat.eq_dec k' k) as [->|Hne].
          * rewrite set_nth_same in Hk' by exact Hklt. discriminate Hk'.
          * rewrite set_nth_other in Hk' by exact Hne. apply (si_late _ _ I). exact Hk'.
      - unfold periph_of_conf in Hdadd. assert (H0 : 0 <= p_max_retry (cf_params c)) by lia.
        apply (add_ghost (cf_params c) _ _ _ _ _ _ _ _ _ H0 Hdadd G). }
    split; [reflexivity|]. split; [reflexivity|]. split; [reflexivity|]. split; [reflexivity|]. split; [exact A1|].
    apply (TAdd _ _ _ _ _ _ k (hd_index h) pc); cbn [sy_m sy_handles ts_in ts_out]; auto.
    rewrite <- Hh. reflexivity.
  - destruct (step_env s (InSlave k wire) s' t eq_refl Hstep) as (Hcf & Hm & Hh & o & -> & Ho).
    apply (env_trans s gs pend s' (InSlave k wire) o (conj I G) Hcf Hm Hh Logic.I).
    destruct o; try contradiction; reflexivity.
  - destruct (step_env s (InPower k) s' t eq_refl Hstep) as (Hcf & Hm & Hh & o & -> & Ho).
    apply (env_trans s gs pend s' (InPower k) o (conj I G) Hcf Hm Hh Logic.I).
    destruct o; try contradiction; reflexivity.
  - destruct (step_env s (InSlaveSet k si rd sd dp f1 f2 ext ident) s' t eq_refl Hstep) as (Hcf & Hm & Hh & o & -> & Ho).
    apply (env_trans s gs pend s' (InSlaveSet k si rd sd dp f1 f2 ext ident) o (conj I G) Hcf Hm Hh Logic.I).
    destruct o; try contradiction; reflexivity.
  - destruct (step_env s InClean s' t eq_refl Hstep) as (Hcf & Hm & Hh & o & -> & Ho).
    apply (env_trans s gs pend s' InClean o (conj I G) Hcf Hm Hh Logic.I).
    destruct o; try contradiction; reflexivity.
  - (* reset_address: handled separately *)
    discriminate Hnreset.
Qed.

End Step.

(* PART 9: C08_oracle_sound *)

Section PerAddr2.
Variable A : Type.
Variable d : A.
Variable Rp : periph -> ghost -> A -> Prop.

Lemma per_ok_set' : forall m gs per m' gs' i a v per',
  per_ok A d Rp m gs per -> addr_inj m ->
  alist_get d per' a = v -> (forall a0, a0 <> a -> alist_get d per' a0 = alist_get d per a0) ->
  (forall j q', slot m' j = Some q' -> exists q, slot m j = Some q /\ pe_addr q' = pe_addr q /\
      (j <> i -> forall x, Rp q (gs j) x -> Rp q' (gs' j) x) /\ (j = i -> Rp q' (gs' j) v /\ pe_addr q = a)) ->
  (forall j q, slot m j = Some q -> exists q', slot m' j = Some q' /\ pe_addr q' = pe_addr q) ->
  (exists q, slot m i = Some q /\ pe_addr q = a) ->
  per_ok A d Rp m' gs' per'.
Proof.
  intros m gs per m' gs' i a v per' [H1 H2] Hinj Hget Hoth Hb Hf (qi & Hqi & Hai). split.
  - intros j q' Hq'. destruct (Hb _ _ Hq') as (q & Hq & Ha & Hne & Heq).
    destruct (Nat.eq_dec j i) as [->|Hji].
    + destruct (Heq eq_refl) as (Hr & Haa). rewrite Ha, Haa, Hget. exact Hr.
    + rewrite Hoth.
      * rewrite Ha. apply (Hne Hji). apply H1. exact Hq.
      * rewrite Ha. intro E. apply Hji. apply (Hinj _ _ _ _ Hq Hqi). congruence.
  - intros a0 Hna. rewrite Hoth.
    + apply H2. intros j q Hq E. destruct (Hf _ _ Hq) as (q' & Hq' & Ha). apply (Hna _ _ Hq'). congruence.
    + intro E. subst a0. destruct (Hf _ _ Hqi) as (q' & Hq' & Ha). apply (Hna _ _ Hq'). congruence.
Qed.
End PerAddr2.

Lemma pend_link_pres : forall m gs m' gs' pend op,
  pend_link m gs pend op ->
  (forall j q', slot m' j = Some q' -> exists q, slot m j = Some q /\ pe_addr q' = pe_addr q /\
      gh_last (gs' j) = gh_last (gs j)) ->
  pend_link m' gs' pend op.
Proof.
  intros m gs m' gs' pend op H Hb. destruct pend as [da|], op as [[da' sv]|]; try exact H.
  destruct H as (-> & H). split; [reflexivity|].
  intros j q' Hq' Ha. destruct (Hb _ _ Hq') as (q & Hq & Haq & Hl). rewrite Hl. apply (H j q Hq). congruence.
Qed.

Lemma quiet_back : forall m gs m' gs', all_quiet m gs m' gs' ->
  forall j q', slot m' j = Some q' -> exists q, slot m j = Some q /\ Quiet q (gs j) q' (gs' j).
Proof.
  intros m gs m' gs' [H1 H2] j q' Hq'. destruct (H2 _ _ Hq') as (q & Hq). destruct (H1 _ _ Hq) as (q2 & Hq2 & HQ).
  rewrite Hq' in Hq2. inversion Hq2; subst q2. exists q. auto.
Qed.

Lemma others_back : forall m gs m' gs' i, others_quiet m gs m' gs' i ->
  forall j q', j <> i -> slot m' j = Some q' -> exists q, slot m j = Some q /\ Quiet q (gs j) q' (gs' j).
Proof.
  intros m gs m' gs' i [H1 H2] j q' Hne Hq'. destruct (H2 _ _ Hq') as (q & Hq). destruct (H1 _ _ Hne Hq) as (q2 & Hq2 & HQ).
  rewrite Hq' in Hq2. inversion Hq2; subst q2. exists q. auto.
Qed.

Section C08.
Variable c : conf.
Hypothesis Hc : conf_ok c.

Definition Rel8 (s : sys) (gs : gmap) (pend : option Z) (g : c08g) : Prop :=
  Base c s gs pend /\ per_ok c08st c08_init R8 (sy_m s) gs (g8_per g) /\ pend_link (sy_m s) gs pend (g8_pending g).

Lemma c08_sound_step : forall s gs pend g i t s' n,
  Rel8 s gs pend g -> model_step s i = Ok (s', t) ->
  head_ok (p_address (cf_params c)) (sy_handles s) pend t -> is_reset_in i = false ->
  exists gs' g', c08_step (Z.to_nat (p_max_retry (cf_params c))) g n t = inl g' /\
                 Rel8 s' gs' (pend_next_v pend (view_of t)) g' /\ sy_handles s' = hs_next (sy_handles s) t.
Proof.
  intros s gs pend g i t s' n (HB & Hper & Hpl) Hstep Hhead Hnri.
  destruct (model_trans c Hc s gs pend i t s' HB Hstep Hhead Hnri) as (gs' & HB' & Hhs & _ & _ & _ & _ & HT).
  pose proof HB as [I G]. pose proof HB' as [I' G'].
  pose proof (sinv_addr_inj c s Hc I) as Hinj. pose proof (sinv_addr_inj c s' Hc I') as Hinj'.
  pose proof (co_retry _ Hc) as Hmax.
  exists gs'. rewrite c08_step_eq. destruct g as [per pendg]. cbn [g8_per g8_pending] in *.
  destruct HT as
    [Hv Hev Hin Hq
    |j h pdu q q1 g1 q' Hpn Hv Hev Hin Hsl Hda HQ I1 Hp Hsl' Hg' Hreq Hoq
    |j q q1 g1 q' Hpn Hv Hev Hin Hsl HQ I1 Hp Hsl' Hg' Hok Hoq
    |j a tg ev p p1 now w Hpn Hv Hev Hin Hsl Ha Hp Hsl' Hg' Hout Hoq
    |j a p Hpn Hv Hev Hin Hsl Ha Hm Hg'
    |j k p p' Hv Hev Hsl Hsl' Hsc Hg' Hk Hin Hoq
    |k j pc Hpn Hin Hv Hev Hpc Hnone Hout Hfree Hnew Hoth Hg' Hfresh].
  - (* nothing the monitor reacts to *)
    rewrite Hev.
    assert (Hr1 : c08_r1 (Z.to_nat (p_max_retry (cf_params c))) (mkC08g per pendg) (view_of t) = inl (mkC08g per pendg) /\
                  pend_next_v pend (view_of t) = pend).
    { destruct Hv as [(-> & ->)|[((h & pdu & ->) & ->)| ->]]; split; reflexivity. }
    destruct Hr1 as (-> & Hpn'). rewrite Hpn' in *. cbn [c08_ev].
    exists (mkC08g per pendg). split; [reflexivity|]. split; [|exact Hhs].
    split; [exact HB'|]. cbn [g8_per g8_pending]. split.
    + apply (per_ok_same _ _ _ (sy_m s) gs per); auto.
      * intros j q' Hq'. destruct (quiet_back _ _ _ _ Hq _ _ Hq') as (q & Hq0 & HQ). exists q.
        split; [exact Hq0|]. split; [apply (qu_addr _ _ _ _ HQ)|]. intros x Hx. eapply R8_quiet; eassumption.
      * intros j q Hq0. destruct Hq as [Hq1 _]. destruct (Hq1 _ _ Hq0) as (q' & Hq' & HQ). exists q'.
        split; [exact Hq'|apply (qu_addr _ _ _ _ HQ)].
    + apply (pend_link_pres (sy_m s) gs); auto.
      intros j q' Hq'. destruct (quiet_back _ _ _ _ Hq _ _ Hq') as (q & Hq0 & HQ). exists q.
      split; [exact Hq0|]. split; [apply (qu_addr _ _ _ _ HQ)|apply (qu_last _ _ _ _ HQ)].
  - (* a request *)
    subst pend. pose proof (pend_link_none _ _ _ Hpl) as ->.
    rewrite Hev. rewrite Hv in *. cbn [pend_next_v].
    assert (HR : R8 q1 g1 (alist_get c08_init per (h_da h))).
    { eapply R8_quiet; [exact HQ|]. rewrite Hda. apply (proj1 Hper). exact Hsl. }
    destruct (c08_req_ok _ _ _ _ _ _ _ _ _ _ per None Hmax I1 HR Hreq Hp eq_refl) as (st' & -> & HR').
    cbn [c08_ev]. eexists. split; [reflexivity|]. split; [|exact Hhs].
    split; [exact HB'|]. cbn [g8_per g8_pending].
    assert (Haq' : pe_addr q' = pe_addr q).
    { destruct (transmit_keeps _ _ _ _ _ Hp) as (E & _). rewrite E. apply (qu_addr _ _ _ _ HQ). }
    split.
    + apply (per_ok_set _ _ _ (sy_m s) gs per (sy_m s') gs' j (h_da h) st'); auto.
      * intros j0 q0' Hq0'. destruct (Nat.eq_dec j0 j) as [->|Hne].
        -- rewrite Hsl' in Hq0'. inversion Hq0'; subst q0'. exists q. split; [exact Hsl|]. split; [exact Haq'|].
           split; [intro X; now elim X|]. intros _. rewrite Hg'. auto.
        -- destruct (others_back _ _ _ _ _ Hoq _ _ Hne Hq0') as (q0 & Hq0 & HQ0). exists q0.
           split; [exact Hq0|]. split; [apply (qu_addr _ _ _ _ HQ0)|].
           split; [intros _ x Hx; eapply R8_quiet; eassumption|intro X; contradiction].
      * intros j0 q0 Hq0. destruct (Nat.eq_dec j0 j) as [->|Hne].
        -- rewrite Hsl in Hq0. inversion Hq0; subst q0. exists q'. auto.
        -- destruct Hoq as [Ho1 _]. destruct (Ho1 _ _ Hne Hq0) as (q0' & Hq0' & HQ0). exists q0'.
           split; [exact Hq0'|apply (qu_addr _ _ _ _ HQ0)].
      * exists q. auto.
    + split; [reflexivity|]. intros j0 p0 Hp0 Ha0.
      assert (Ej : j0 = j) by (apply (Hinj' j0 j p0 q' Hp0 Hsl'); congruence). subst j0.
      exists h. rewrite Hg'. split; reflexivity.
  - (* the Offline event *)
    subst pend. pose proof (pend_link_none _ _ _ Hpl) as ->.
    rewrite Hev. rewrite Hv in *. cbn [pend_next_v c08_r1].
    assert (HR : R8 q1 g1 (alist_get c08_init per (pe_addr q))).
    { eapply R8_quiet; [exact HQ|]. apply (proj1 Hper). exact Hsl. }
    destruct (c08_off_ok _ _ _ _ _ _ _ _ per None (pe_addr q) Hmax I1 HR Hok Hp eq_refl) as (st' & -> & HR').
    eexists. split; [reflexivity|]. split; [|exact Hhs].
    split; [exact HB'|]. cbn [g8_per g8_pending].
    assert (Haq' : pe_addr q' = pe_addr q).
    { destruct (transmit_keeps _ _ _ _ _ Hp) as (E & _). rewrite E. apply (qu_addr _ _ _ _ HQ). }
    split; [|exact Logic.I].
    apply (per_ok_set _ _ _ (sy_m s) gs per (sy_m s') gs' j (pe_addr q) st'); auto.
    + intros j0 q0' Hq0'. destruct (Nat.eq_dec j0 j) as [->|Hne].
      * rewrite Hsl' in Hq0'. inversion Hq0'; subst q0'. exists q. split; [exact Hsl|]. split; [exact Haq'|].
        split; [intro X; now elim X|]. intros _. rewrite Hg'. auto.
      * destruct (others_back _ _ _ _ _ Hoq _ _ Hne Hq0') as (q0 & Hq0 & HQ0). exists q0.
        split; [exact Hq0|]. split; [apply (qu_addr _ _ _ _ HQ0)|].
        split; [intros _ x Hx; eapply R8_quiet; eassumption|intro X; contradiction].
    + intros j0 q0 Hq0. destruct (Nat.eq_dec j0 j) as [->|Hne].
      * rewrite Hsl in Hq0. inversion Hq0; subst q0. exists q'. auto.
      * destruct Hoq as [Ho1 _]. destruct (Ho1 _ _ Hne Hq0) as (q0' & Hq0' & HQ0). exists q0'.
        split; [exact Hq0'|apply (qu_addr _ _ _ _ HQ0)].
    + exists q. auto.
  - (* a reply *)
    subst pend. destruct (pend_link_some _ _ _ _ Hpl) as (sv & -> & Hlast).
    destruct (Hlast _ _ Hsl Ha) as (h & Hl & Hsv). subst sv.
    pose proof (gi_inv _ _ _ _ G _ _ Hsl) as Ij. rewrite Ha in Ij.
    assert (Hacc : gh_acc (gs j) = false).
    { destruct (inv_pending _ _ _ _ _ Ij (inv_out _ _ _ _ _ Ij Hout)) as (h' & _ & Hx). exact Hx. }
    rewrite Hev. rewrite Hv in *. cbn [pend_next_v].
    assert (HR : R8 p (gs j) (alist_get c08_init per a)) by (rewrite <- Ha; apply (proj1 Hper); exact Hsl).
    destruct (c08_reply_ok _ _ _ _ _ _ _ _ _ _ per a a (Z.to_nat (p_max_retry (cf_params c))) Ij HR Hl Hacc Hp eq_refl)
      as (per' & st' & -> & Hget & Hoth' & HR').
    eexists. split; [reflexivity|]. split; [|exact Hhs].
    split; [exact HB'|]. cbn [g8_per g8_pending]. split; [|exact Logic.I].
    assert (Hap : pe_addr p1 = pe_addr p) by (apply (receive_facts _ _ _ _ Hp)).
    apply (per_ok_set' _ _ _ (sy_m s) gs per (sy_m s') gs' j a st' per'); auto.
    + intros j0 q0' Hq0'. destruct (Nat.eq_dec j0 j) as [->|Hne].
      * rewrite Hsl' in Hq0'. inversion Hq0'; subst q0'. exists p. split; [exact Hsl|]. split; [exact Hap|].
        split; [intro X; now elim X|]. intros _. rewrite Hg', gupd_same. auto.
      * destruct (others_back _ _ _ _ _ Hoq _ _ Hne Hq0') as (q0 & Hq0 & HQ0). exists q0.
        split; [exact Hq0|]. split; [apply (qu_addr _ _ _ _ HQ0)|].
        split; [intros _ x Hx; eapply R8_quiet; eassumption|intro X; contradiction].
    + intros j0 q0 Hq0. destruct (Nat.eq_dec j0 j) as [->|Hne].
      * rewrite Hsl in Hq0. inversion Hq0; subst q0. exists p1. auto.
      * destruct Hoq as [Ho1 _]. destruct (Ho1 _ _ Hne Hq0) as (q0' & Hq0' & HQ0). exists q0'.
        split; [exact Hq0'|apply (qu_addr _ _ _ _ HQ0)].
    + exists p. auto.
  - (* time-out / request dropped *)
    subst pend. rewrite Hev.
    assert (Hr1 : c08_r1 (Z.to_nat (p_max_retry (cf_params c))) (mkC08g per pendg) (view_of t) = inl (mkC08g per None) /\
                  pend_next_v (Some a) (view_of t) = None).
    { destruct Hv as [-> | ->]; split; reflexivity. }
    destruct Hr1 as (-> & Hpn'). rewrite Hpn' in *. cbn [c08_ev].
    eexists. split; [reflexivity|]. split; [|exact Hhs].
    split; [exact HB'|]. cbn [g8_per g8_pending]. split; [|exact Logic.I].
    rewrite Hm. apply (per_ok_same _ _ _ (sy_m s) gs per); auto.
    + intros j0 q0 Hq0. exists q0. split; [exact Hq0|]. split; [reflexivity|]. intros x Hx.
      rewrite Hg'. unfold gupd. destruct (Nat.eqb_spec j0 j) as [->|_]; [apply R8_timeout|]; exact Hx.
    + intros j0 q0 Hq0. exists q0. auto.
  - (* a user call *)
    rewrite Hev. rewrite Hv in *. cbn [pend_next_v c08_r1 c08_ev].
    eexists. split; [reflexivity|]. split; [|exact Hhs].
    split; [exact HB'|]. cbn [g8_per g8_pending]. subst gs'.
    pose proof Hsc as (Hap & _).
    split.
    + apply (per_ok_same _ _ _ (sy_m s) gs per); auto.
      * intros j0 q0' Hq0'. destruct (Nat.eq_dec j0 j) as [->|Hne].
        -- rewrite Hsl' in Hq0'. inversion Hq0'; subst q0'. exists p. split; [exact Hsl|]. split; [exact Hap|].
           intros x Hx. eapply R8_same_ctrl; eassumption.
        -- destruct (others_back _ _ _ _ _ Hoq _ _ Hne Hq0') as (q0 & Hq0 & HQ0). exists q0.
           split; [exact Hq0|]. split; [apply (qu_addr _ _ _ _ HQ0)|]. intros x Hx; eapply R8_quiet; eassumption.
      * intros j0 q0 Hq0. destruct (Nat.eq_dec j0 j) as [->|Hne].
        -- rewrite Hsl in Hq0. inversion Hq0; subst q0. exists p'. auto.
        -- destruct Hoq as [Ho1 _]. destruct (Ho1 _ _ Hne Hq0) as (q0' & Hq0' & HQ0). exists q0'.
           split; [exact Hq0'|apply (qu_addr _ _ _ _ HQ0)].
    + apply (pend_link_pres (sy_m s) gs); auto.
      intros j0 q0' Hq0'. destruct (Nat.eq_dec j0 j) as [->|Hne].
      * rewrite Hsl' in Hq0'. inversion Hq0'; subst q0'. exists p. auto.
      * destruct (others_back _ _ _ _ _ Hoq _ _ Hne Hq0') as (q0 & Hq0 & HQ0). exists q0.
        split; [exact Hq0|]. split; [apply (qu_addr _ _ _ _ HQ0)|apply (qu_last _ _ _ _ HQ0)].
  - (* add *)
    subst pend. pose proof (pend_link_none _ _ _ Hpl) as ->.
    rewrite Hev. rewrite Hv in *. cbn [pend_next_v c08_r1 c08_ev].
    eexists. split; [reflexivity|]. split; [|exact Hhs].
    split; [exact HB'|]. cbn [g8_per g8_pending]. split; [|exact Logic.I].
    rewrite Hg'. apply (per_ok_add _ _ _ (sy_m s) gs per (sy_m s') j (periph_of_conf pc)); auto.
    unfold periph_of_conf. apply R8_init.
Qed.

End C08.

(* PART 10: C03_oracle_sound *)

(* ------------------------------------------------------------------ c03_step in two parts *)

Definition c03_r1 (c : conf) (g : c03g) (v : view) : c03g + Z :=
  let pa := cf_params c in
    match v with
    | VReq da sv h pdu =>
        match pconf_of_addr c da with
        | None => inr 306
        | Some (_, pc) =>
            if negb (h_sa h =? p_address pa) then inr 307 else
            let ph := alist_get PhNeedDiag (g3_per g) da in
            let g' := mkC03g (g3_per g) (Some (da, sv)) in
            match sv with
            | SvDx =>
                if negb (is_req h RqSrdHigh) then inr 307 else
                if phase_eqb ph PhReady then inl g' else inr 301
            | SvPrm =>
                if negb (is_req h RqSrdLow) then inr 307 else
                match o_user_prm (pc_opts pc) with
                | Some user => if bytes_eqb pdu (std_set_prm pa (pc_opts pc) user) then inl g' else inr 303
                | None => inr 303
                end
            | SvCfg =>
                if negb (is_req h RqSrdLow) then inr 307 else
                match o_config (pc_opts pc) with
                | Some cfg => if bytes_eqb pdu cfg then inl g' else inr 304
                | None => inr 304
                end
            | SvDiag =>
                if negb (is_req h RqSrdLow) then inr 307 else
                if bytes_eqb pdu [] then inl g' else inr 305
            | _ => inr 302
            end
        end
    | VReply a t =>
        match g3_pending g with
        | Some (da, sv) =>
            let ph := alist_get PhNeedDiag (g3_per g) da in
            let ph' :=
              if reply_accepted sv t then
                match sv, t with
                | SvDiag, TData _ pdu =>
                    let f := diag_flags pdu in
                    if has_flag f 256 then PhDiagAnswered
                    else match ph with
                         | PhNeedDiag => PhDiagAnswered
                         | PhCfgAcked =>
                             if has_flag f 64 || has_flag f 4 || has_flag f 2 then PhCfgAcked else PhReady
                         | _ => ph
                         end
                | SvPrm, _ => if phase_eqb ph PhDiagAnswered then PhPrmAcked else ph
                | SvCfg, _ => if phase_eqb ph PhPrmAcked then PhCfgAcked else ph
                | _, _ => ph
                end
              else ph in
            inl (mkC03g (alist_set (g3_per g) da ph') None)
        | None => inl g
        end
    | VTimeout _ | VAbandon => inl (mkC03g (g3_per g) None)
    | _ => inl g
    end.

Definition c03_ev (g1 : c03g) (e : option (Z * pevent)) : c03g + Z :=
      match e with
      | Some (a, EvOffline) | Some (a, EvParameterError) | Some (a, EvConfigError) =>
          inl (mkC03g (alist_set (g3_per g1) a PhNeedDiag) (g3_pending g1))
      | _ => inl g1
      end.

Lemma c03_step_eq : forall c g n s,
  c03_step c g n s = match c03_r1 c g (view_of s) with inr cd => inr cd | inl g1 => c03_ev g1 (step_event s) end.
Proof. reflexivity. Qed.

(* ------------------------------------------------------------------ relation: the oracle's phase is the text monitor of the ghost *)

Definition R3 (p : periph) (g : ghost) (ph : phase) : Prop := ph = gh_text g.

Lemma is_req_refl : forall h f r, h_fc h = FcRequest f r -> is_req h r = true.
Proof. intros h f r H. unfold is_req. rewrite H. apply Z.eqb_refl. Qed.

Lemma c03_req_ok : forall c pa k pc a o g1 h pdu per pendg,
  pa = cf_params c -> pconf_of_addr c (h_da h) = Some (k, pc) -> o = pc_opts pc ->
  req_ok pa a o g1 h pdu -> alist_get PhNeedDiag per (h_da h) = gh_text g1 ->
  c03_r1 c (mkC03g per pendg) (VReq (h_da h) (classify h) h pdu) = inl (mkC03g per (Some (h_da h, classify h))).
Proof.
  intros c pa k pc a o g1 h pdu per pendg -> Hpc -> (f & Hstd & _ & _ & _ & _ & _ & _ & Hdx) Hget.
  destruct (std_request_classify _ _ _ _ _ _ _ Hstd) as (_ & _ & Hsa & Hfc).
  unfold c03_r1. rewrite Hpc. cbn [g3_per g3_pending]. rewrite Hsa, Z.eqb_refl. cbn [negb].
  destruct (classify h) eqn:Esv; cbn in Hstd; try contradiction; cbn [sv_req] in Hfc;
    rewrite (is_req_refl _ _ _ Hfc); cbn [negb].
  - destruct Hstd as (_ & ->). reflexivity.
  - destruct Hstd as (u & Hu & _ & ->). rewrite Hu, bytes_eqb_refl. reflexivity.
  - destruct Hstd as (u & Hu & _ & ->). rewrite Hu, bytes_eqb_refl. reflexivity.
  - rewrite Hget, (Hdx eq_refl). reflexivity.
Qed.

Lemma c03_reply_ok : forall c g t ev h per da x,
  gh_last g = Some h -> alist_get PhNeedDiag per da = gh_text g ->
  exists per',
    match c03_r1 c (mkC03g per (Some (da, classify h))) (VReply x t) with
    | inr cd => inr cd
    | inl g1 => c03_ev g1 (option_map (fun e => (da, e)) ev)
    end = inl (mkC03g per' None) /\
    alist_get PhNeedDiag per' da = gh_text (gstep g (WReply t ev)) /\
    (forall a0, a0 <> da -> alist_get PhNeedDiag per' a0 = alist_get PhNeedDiag per a0).
Proof.
  intros c g t ev h per da x Hl Hget. unfold c03_r1. cbn [g3_per g3_pending]. rewrite Hget.
  set (ph' := if reply_accepted (classify h) t then
                match classify h, t with
                | SvDiag, TData _ pdu =>
                    let f := diag_flags pdu in
                    if has_flag f 256 then PhDiagAnswered
                    else match gh_text g with
                         | PhNeedDiag => PhDiagAnswered
                         | PhCfgAcked => if has_flag f 64 || has_flag f 4 || has_flag f 2 then PhCfgAcked else PhReady
                         | _ => gh_text g
                         end
                | SvPrm, _ => if phase_eqb (gh_text g) PhDiagAnswered then PhPrmAcked else gh_text g
                | SvCfg, _ => if phase_eqb (gh_text g) PhPrmAcked then PhCfgAcked else gh_text g
                | _, _ => gh_text g
                end
              else gh_text g).
  assert (Hph : ph' = if reply_accepted (classify h) t then text_phase (gh_text g) (classify h) t else gh_text g) by reflexivity.
  assert (Hg : gh_text (gstep g (WReply t ev)) = if offline_event ev then PhNeedDiag else ph').
  { cbn [gstep]. rewrite Hl, Hph. destruct (reply_accepted (classify h) t); reflexivity. }
  rewrite Hg.
  destruct ev as [e|]; cbn [option_map c03_ev g3_per g3_pending offline_event].
  - destruct e; cbn [offline_event];
      try (exists (alist_set per da ph'); split; [reflexivity|]; split; [apply alist_get_set_same|];
           intros a0 Ha0; apply alist_get_set_other; exact Ha0);
      (eexists; split; [reflexivity|]; split; [apply alist_get_set_same|];
       intros a0 Ha0; rewrite !alist_get_set_other by exact Ha0; reflexivity).
  - exists (alist_set per da ph'). split; [reflexivity|]. split; [apply alist_get_set_same|].
    intros a0 Ha0. apply alist_get_set_other. exact Ha0.
Qed.

Section C03.
Variable c : conf.
Hypothesis Hc : conf_ok c.

Definition Rel3 (s : sys) (gs : gmap) (pend : option Z) (g : c03g) : Prop :=
  Base c s gs pend /\ per_ok phase PhNeedDiag R3 (sy_m s) gs (g3_per g) /\ pend_link (sy_m s) gs pend (g3_pending g).

Lemma R3_quiet : forall q g q' g' x, Quiet q g q' g' -> R3 q g x -> R3 q' g' x.
Proof. intros q g q' g' x HQ H. unfold R3 in *. rewrite (qu_text _ _ _ _ HQ). exact H. Qed.

Lemma c03_sound_step : forall s gs pend g i t s' n,
  Rel3 s gs pend g -> model_step s i = Ok (s', t) ->
  head_ok (p_address (cf_params c)) (sy_handles s) pend t -> is_reset_in i = false ->
  exists gs' g', c03_step c g n t = inl g' /\
                 Rel3 s' gs' (pend_next_v pend (view_of t)) g' /\ sy_handles s' = hs_next (sy_handles s) t.
Proof.
  intros s gs pend g i t s' n (HB & Hper & Hpl) Hstep Hhead Hnri.
  destruct (model_trans c Hc s gs pend i t s' HB Hstep Hhead Hnri) as (gs' & HB' & Hhs & _ & _ & _ & _ & HT).
  pose proof HB as [I G]. pose proof HB' as [I' G'].
  pose proof (sinv_addr_inj c s Hc I) as Hinj. pose proof (sinv_addr_inj c s' Hc I') as Hinj'.
  exists gs'. rewrite c03_step_eq. destruct g as [per pendg]. cbn [g3_per g3_pending] in *.
  destruct HT as
    [Hv Hev Hin Hq
    |j h pdu q q1 g1 q' Hpn Hv Hev Hin Hsl Hda HQ I1 Hp Hsl' Hg' Hreq Hoq
    |j q q1 g1 q' Hpn Hv Hev Hin Hsl HQ I1 Hp Hsl' Hg' Hok Hoq
    |j a tg ev p p1 now w Hpn Hv Hev Hin Hsl Ha Hp Hsl' Hg' Hout Hoq
    |j a p Hpn Hv Hev Hin Hsl Ha Hm Hg'
    |j k p p' Hv Hev Hsl Hsl' Hsc Hg' Hk Hin Hoq
    |k j pc Hpn Hin Hv Hev Hpc Hnone Hout Hfree Hnew Hoth Hg' Hfresh].
  - rewrite Hev.
    assert (Hr1 : c03_r1 c (mkC03g per pendg) (view_of t) = inl (mkC03g per pendg) /\
                  pend_next_v pend (view_of t) = pend).
    { destruct Hv as [(-> & ->)|[((h & pdu & ->) & ->)| ->]]; split; reflexivity. }
    destruct Hr1 as (-> & Hpn'). rewrite Hpn' in *. cbn [c03_ev].
    exists (mkC03g per pendg). split; [reflexivity|]. split; [|exact Hhs].
    split; [exact HB'|]. cbn [g3_per g3_pending]. split.
    + apply (per_ok_same _ _ _ (sy_m s) gs per); auto.
      * intros j q' Hq'. destruct (quiet_back _ _ _ _ Hq _ _ Hq') as (q & Hq0 & HQ). exists q.
        split; [exact Hq0|]. split; [apply (qu_addr _ _ _ _ HQ)|]. intros x Hx. eapply R3_quiet; eassumption.
      * intros j q Hq0. destruct Hq as [Hq1 _]. destruct (Hq1 _ _ Hq0) as (q' & Hq' & HQ). exists q'.
        split; [exact Hq'|apply (qu_addr _ _ _ _ HQ)].
    + apply (pend_link_pres (sy_m s) gs); auto.
      intros j q' Hq'. destruct (quiet_back _ _ _ _ Hq _ _ Hq') as (q & Hq0 & HQ). exists q.
      split; [exact Hq0|]. split; [apply (qu_addr _ _ _ _ HQ)|apply (qu_last _ _ _ _ HQ)].
  - (* a request *)
    subst pend. pose proof (pend_link_none _ _ _ Hpl) as ->.
    rewrite Hev. rewrite Hv in *. cbn [pend_next_v].
    destruct (slot_pconf c Hc s j q I Hsl) as (k & pc & hq & Hpca & Hpc & (F1 & F2 & _) & _).
    assert (Hget : alist_get PhNeedDiag per (h_da h) = gh_text g1).
    { rewrite Hda, (qu_text _ _ _ _ HQ). apply (proj1 Hper). exact Hsl. }
    rewrite <- Hda in Hpca.
    rewrite (c03_req_ok c (cf_params c) k pc (pe_addr q) (pe_opts q) g1 h pdu per None eq_refl Hpca F2 Hreq Hget).
    cbn [c03_ev]. eexists. split; [reflexivity|]. split; [|exact Hhs].
    split; [exact HB'|]. cbn [g3_per g3_pending].
    assert (Haq' : pe_addr q' = pe_addr q).
    { destruct (transmit_keeps _ _ _ _ _ Hp) as (E & _). rewrite E. apply (qu_addr _ _ _ _ HQ). }
    split.
    + apply (per_ok_same _ _ _ (sy_m s) gs per); auto.
      * intros j0 q0' Hq0'. destruct (Nat.eq_dec j0 j) as [->|Hne].
        -- rewrite Hsl' in Hq0'. inversion Hq0'; subst q0'. exists q. split; [exact Hsl|]. split; [exact Haq'|].
           intros x Hx. unfold R3 in *. rewrite Hg'. cbn [gstep gh_text]. rewrite (qu_text _ _ _ _ HQ). exact Hx.
        -- destruct (others_back _ _ _ _ _ Hoq _ _ Hne Hq0') as (q0 & Hq0 & HQ0). exists q0.
           split; [exact Hq0|]. split; [apply (qu_addr _ _ _ _ HQ0)|]. intros x Hx; eapply R3_quiet; eassumption.
      * intros j0 q0 Hq0. destruct (Nat.eq_dec j0 j) as [->|Hne].
        -- rewrite Hsl in Hq0. inversion Hq0; subst q0. exists q'. auto.
        -- destruct Hoq as [Ho1 _]. destruct (Ho1 _ _ Hne Hq0) as (q0' & Hq0' & HQ0). exists q0'.
           split; [exact Hq0'|apply (qu_addr _ _ _ _ HQ0)].
    + split; [reflexivity|]. intros j0 p0 Hp0 Ha0.
      assert (Ej : j0 = j) by (apply (Hinj' j0 j p0 q' Hp0 Hsl'); congruence). subst j0.
      exists h. rewrite Hg'. split; reflexivity.
  - (* the Offline event *)
    subst pend. pose proof (pend_link_none _ _ _ Hpl) as ->.
    rewrite Hev. rewrite Hv in *. cbn [pend_next_v c03_r1 c03_ev g3_per g3_pending].
    eexists. split; [reflexivity|]. split; [|exact Hhs].
    split; [exact HB'|]. cbn [g3_per g3_pending].
    assert (Haq' : pe_addr q' = pe_addr q).
    { destruct (transmit_keeps _ _ _ _ _ Hp) as (E & _). rewrite E. apply (qu_addr _ _ _ _ HQ). }
    split; [|exact Logic.I].
    apply (per_ok_set _ _ _ (sy_m s) gs per (sy_m s') gs' j (pe_addr q) PhNeedDiag); auto.
    + intros j0 q0' Hq0'. destruct (Nat.eq_dec j0 j) as [->|Hne].
      * rewrite Hsl' in Hq0'. inversion Hq0'; subst q0'. exists q. split; [exact Hsl|]. split; [exact Haq'|].
        split; [intro X; now elim X|]. intros _. rewrite Hg'. split; reflexivity.
      * destruct (others_back _ _ _ _ _ Hoq _ _ Hne Hq0') as (q0 & Hq0 & HQ0). exists q0.
        split; [exact Hq0|]. split; [apply (qu_addr _ _ _ _ HQ0)|].
        split; [intros _ x Hx; eapply R3_quiet; eassumption|intro X; contradiction].
    + intros j0 q0 Hq0. destruct (Nat.eq_dec j0 j) as [->|Hne].
      * rewrite Hsl in Hq0. inversion Hq0; subst q0. exists q'. auto.
      * destruct Hoq as [Ho1 _]. destruct (Ho1 _ _ Hne Hq0) as (q0' & Hq0' & HQ0). exists q0'.
        split; [exact Hq0'|apply (qu_addr _ _ _ _ HQ0)].
    + exists q. auto.
  - (* a reply *)
    subst pend. destruct (pend_link_some _ _ _ _ Hpl) as (sv & -> & Hlast).
    destruct (Hlast _ _ Hsl Ha) as (h & Hl & Hsv). subst sv.
    rewrite Hev. rewrite Hv in *. cbn [pend_next_v].
    assert (Hget : alist_get PhNeedDiag per a = gh_text (gs j)) by (rewrite <- Ha; apply (proj1 Hper); exact Hsl).
    destruct (c03_reply_ok c (gs j) tg ev h per a a Hl Hget) as (per' & -> & Hget' & Hoth').
    eexists. split; [reflexivity|]. split; [|exact Hhs].
    split; [exact HB'|]. cbn [g3_per g3_pending]. split; [|exact Logic.I].
    assert (Hap : pe_addr p1 = pe_addr p) by (apply (receive_facts _ _ _ _ Hp)).
    apply (per_ok_set' _ _ _ (sy_m s) gs per (sy_m s') gs' j a (gh_text (gstep (gs j) (WReply tg ev))) per'); auto.
    + intros j0 q0' Hq0'. destruct (Nat.eq_dec j0 j) as [->|Hne].
      * rewrite Hsl' in Hq0'. inversion Hq0'; subst q0'. exists p. split; [exact Hsl|]. split; [exact Hap|].
        split; [intro X; now elim X|]. intros _. rewrite Hg', gupd_same. split; [reflexivity|exact Ha].
      * destruct (others_back _ _ _ _ _ Hoq _ _ Hne Hq0') as (q0 & Hq0 & HQ0). exists q0.
        split; [exact Hq0|]. split; [apply (qu_addr _ _ _ _ HQ0)|].
        split; [intros _ x Hx; eapply R3_quiet; eassumption|intro X; contradiction].
    + intros j0 q0 Hq0. destruct (Nat.eq_dec j0 j) as [->|Hne].
      * rewrite Hsl in Hq0. inversion Hq0; subst q0. exists p1. auto.
      * destruct Hoq as [Ho1 _]. destruct (Ho1 _ _ Hne Hq0) as (q0' & Hq0' & HQ0). exists q0'.
        split; [exact Hq0'|apply (qu_addr _ _ _ _ HQ0)].
    + exists p. auto.
  - (* time-out / request dropped *)
    subst pend. rewrite Hev.
    assert (Hr1 : c03_r1 c (mkC03g per pendg) (view_of t) = inl (mkC03g per None) /\
                  pend_next_v (Some a) (view_of t) = None).
    { destruct Hv as [-> | ->]; split; reflexivity. }
    destruct Hr1 as (-> & Hpn'). rewrite Hpn' in *. cbn [c03_ev].
    eexists. split; [reflexivity|]. split; [|exact Hhs].
    split; [exact HB'|]. cbn [g3_per g3_pending]. split; [|exact Logic.I].
    rewrite Hm. apply (per_ok_same _ _ _ (sy_m s) gs per); auto.
    + intros j0 q0 Hq0. exists q0. split; [exact Hq0|]. split; [reflexivity|]. intros x Hx.
      rewrite Hg'. unfold gupd. destruct (Nat.eqb_spec j0 j) as [->|_]; exact Hx.
    + intros j0 q0 Hq0. exists q0. auto.
  - (* a user call *)
    rewrite Hev. rewrite Hv in *. cbn [pend_next_v c03_r1 c03_ev].
    eexists. split; [reflexivity|]. split; [|exact Hhs].
    split; [exact HB'|]. cbn [g3_per g3_pending]. subst gs'.
    pose proof Hsc as (Hap & _).
    split.
    + apply (per_ok_same _ _ _ (sy_m s) gs per); auto.
      * intros j0 q0' Hq0'. destruct (Nat.eq_dec j0 j) as [->|Hne].
        -- rewrite Hsl' in Hq0'. inversion Hq0'; subst q0'. exists p. split; [exact Hsl|]. split; [exact Hap|].
           intros x Hx. exact Hx.
        -- destruct (others_back _ _ _ _ _ Hoq _ _ Hne Hq0') as (q0 & Hq0 & HQ0). exists q0.
           split; [exact Hq0|]. split; [apply (qu_addr _ _ _ _ HQ0)|]. intros x Hx; eapply R3_quiet; eassumption.
      * intros j0 q0 Hq0. destruct (Nat.eq_dec j0 j) as [->|Hne].
        -- rewrite Hsl in Hq0. inversion Hq0; subst q0. exists p'. auto.
        -- destruct Hoq as [Ho1 _]. destruct (Ho1 _ _ Hne Hq0) as (q0' & Hq0' & HQ0). exists q0'.
           split; [exact Hq0'|apply (qu_addr _ _ _ _ HQ0)].
    + apply (pend_link_pres (sy_m s) gs); auto.
      intros j0 q0' Hq0'. destruct (Nat.eq_dec j0 j) as [->|Hne].
      * rewrite Hsl' in Hq0'. inversion Hq0'; subst q0'. exists p. auto.
      * destruct (others_back _ _ _ _ _ Hoq _ _ Hne Hq0') as (q0 & Hq0 & HQ0). exists q0.
        split; [exact Hq0|]. split; [apply (qu_addr _ _ _ _ HQ0)|apply (qu_last _ _ _ _ HQ0)].
  - (* add *)
    subst pend. pose proof (pend_link_none _ _ _ Hpl) as ->.
    rewrite Hev. rewrite Hv in *. cbn [pend_next_v c03_r1 c03_ev].
    eexists. split; [reflexivity|]. split; [|exact Hhs].
    split; [exact HB'|]. cbn [g3_per g3_pending]. split; [|exact Logic.I].
    rewrite Hg'. apply (per_ok_add _ _ _ (sy_m s) gs per (sy_m s') j (periph_of_conf pc)); auto.
    reflexivity.
Qed.

End C03.

(* PART 11: C04_oracle_sound *)

(* ------------------------------------------------------------------ c04_step with its local definitions named *)

Definition c04_upd (c : conf) (v : view) (pending : option (Z * service)) : option (nat * bytes) :=
    match v, pending with
    | VReply a t, Some (da, SvDx) =>
        match pconf_of_addr c da with
        | Some (k, pc) => match dx_reply_payload (pc_in pc) t with Some d => Some (k, d) | None => None end
        | None => None
        end
    | _, _ => None
    end.

Definition c04_sc (c : conf) (v : view) (pending : option (Z * service)) : option nat :=
    match v, pending with
    | VReply a TShortConf, Some (da, SvDx) =>
        match pconf_of_addr c da with
        | Some (k, pc) => if Nat.eqb (pc_in pc) 0 then Some k else None
        | None => None
        end
    | _, _ => None
    end.

Definition img_chk (upd : option (nat * bytes)) (inp : tr_in) (k : nat) (ob oa : option pobs) : option Z :=
             if obs_present ob && obs_present oa then
               let ri :=
                 match upd with
                 | Some (k', d) =>
                     if Nat.eqb k k' then (if bytes_eqb (obs_pi_i oa) d then None else Some 403)
                     else (if bytes_eqb (obs_pi_i ob) (obs_pi_i oa) then None else Some 407)
                 | None => if bytes_eqb (obs_pi_i ob) (obs_pi_i oa) then None else Some 402
                 end in
               match ri with
               | Some code => Some code
               | None =>
                   match inp with
                   | InWriteQ k' q =>
                       if Nat.eqb k k' then (if bytes_eqb (obs_pi_q oa) q then None else Some 404)
                       else (if bytes_eqb (obs_pi_q ob) (obs_pi_q oa) then None else Some 404)
                   | _ => if bytes_eqb (obs_pi_q ob) (obs_pi_q oa) then None else Some 404
                   end
               end
             else None.

Definition chk_go (upd : option (nat * bytes)) (inp : tr_in) : nat -> list (option pobs) -> list (option pobs) -> option Z :=
    (fix go (k : nat) (b a : list (option pobs)) : option Z :=
       match b, a with
       | ob :: b', oa :: a' =>
           match img_chk upd inp k ob oa with Some code => Some code | None => go (S k) b' a' end
       | _, _ => None
       end).

Lemma chk_go_cons : forall upd inp k ob b oa a,
  chk_go upd inp k (ob :: b) (oa :: a) =
  match img_chk upd inp k ob oa with Some code => Some code | None => chk_go upd inp (S k) b a end.
Proof. reflexivity. Qed.

Definition c04_req (c : conf) (g : c04g) (v : view) : option Z :=
          match v with
          | VReq da SvDx _ pdu =>
              match pconf_of_addr c da with
              | Some (k, pc) =>
                  let q := obs_pi_q (nth k (g4_obs g) None) in
                  let want := match g4_op g with
                              | OpOperate => q
                              | _ => repeat 0 (length q)
                              end in
                  if bytes_eqb pdu want then None else Some 401
              | None => None
              end
          | _ => None
          end.

Definition c04_evok (c : conf) (s : tstep) (expect_ev : option nat) : bool :=
            let got_ev : option Z :=
              match step_event s with Some (a, EvDataExchanged) => Some a | _ => None end in
              match ts_taken s with
              | None => true
              | Some _ =>
                  match expect_ev, got_ev with
                  | None, None => true
                  | Some k, Some a =>
                      match nth_error (cf_periphs c) k with Some pc => pc_addr pc =? a | None => false end
                  | _, _ => false
                  end
              end.

Definition c04_pending' (g : c04g) (v : view) : option (Z * service) :=
              match v with
              | VReq da sv _ _ => Some (da, sv)
              | VReply _ _ | VTimeout _ | VAbandon => None
              | _ => g4_pending g
              end.

Lemma c04_step_eq : forall c g i s,
  c04_step c g i s =
  let v := view_of s in
  let upd := c04_upd c v (g4_pending g) in
  match v with
  | VCrash => match ts_in s with InRx _ _ _ => inr 406 | _ => inl g end
  | _ =>
    match chk_go upd (ts_in s) 0%nat (g4_obs g) (ts_obs s) with
    | Some code => inr code
    | None =>
        match c04_req c g v with
        | Some code => inr code
        | None =>
            if negb (c04_evok c s (match upd with Some (k, _) => Some k | None => c04_sc c v (g4_pending g) end))
            then inr 405
            else inl (mkC04g (ts_obs s) (ts_op s) (c04_pending' g v))
        end
    end
  end.
Proof. reflexivity. Qed.

Lemma chk_go_none : forall upd inp b a k,
  (forall n ob oa, nth_error b n = Some ob -> nth_error a n = Some oa -> img_chk upd inp (k + n) ob oa = None) ->
  chk_go upd inp k b a = None.
Proof.
  intros upd inp. induction b as [|ob b IH]; intros a k H; [reflexivity|].
  destruct a as [|oa a]; [reflexivity|]. rewrite chk_go_cons.
  pose proof (H 0%nat ob oa eq_refl eq_refl) as H0. rewrite Nat.add_0_r in H0. rewrite H0.
  apply IH. intros n ob' oa' Hb Ha. replace (S k + n)%nat with (k + S n)%nat by lia. apply (H (S n)); assumption.
Qed.

(* one position: what has to be shown about a configured peripheral that is observable before and after *)
Lemma img_chk_none : forall upd inp k (p p' : periph),
  match upd with
  | Some (k', d) => if Nat.eqb k k' then pe_pi_i p' = d else pe_pi_i p' = pe_pi_i p
  | None => pe_pi_i p' = pe_pi_i p
  end ->
  match inp with
  | InWriteQ k' q => if Nat.eqb k k' then pe_pi_q p' = q else pe_pi_q p' = pe_pi_q p
  | _ => pe_pi_q p' = pe_pi_q p
  end ->
  img_chk upd inp k (Some (observe_periph p)) (Some (observe_periph p')) = None.
Proof.
  intros upd inp k p p' Hi Hq. unfold img_chk. cbn [obs_present andb obs_pi_i obs_pi_q observe_periph ob_pi_i ob_pi_q].
  assert (E1 : match upd with
               | Some (k', d) =>
                   if Nat.eqb k k' then (if bytes_eqb (pe_pi_i p') d then None else Some 403)
                   else (if bytes_eqb (pe_pi_i p) (pe_pi_i p') then None else Some 407)
               | None => if bytes_eqb (pe_pi_i p) (pe_pi_i p') then None else Some 402
               end = @None Z).
  { destruct upd as [[k' d]|]; [destruct (Nat.eqb k k')|]; rewrite Hi, bytes_eqb_refl; reflexivity. }
  rewrite E1.
  destruct inp; try (rewrite Hq, bytes_eqb_refl; reflexivity).
  destruct (Nat.eqb k k0); rewrite Hq, bytes_eqb_refl; reflexivity.
Qed.

Lemma img_chk_absent : forall upd inp k ob oa, ob = None \/ oa = None -> img_chk upd inp k ob oa = None.
Proof.
  intros upd inp k ob oa [-> | ->]; unfold img_chk; cbn [obs_present andb]; [reflexivity|].
  rewrite Bool.andb_false_r. reflexivity.
Qed.

Lemma classify_dx_sap : forall h, classify h = SvDx -> h_dsap h = None.
Proof.
  intros h H. unfold classify in H. destruct (h_dsap h) as [d|]; [|reflexivity].
  destruct (h_ssap h) as [x|]; [|discriminate H].
  destruct (x =? 62); [|discriminate H]. destruct (d =? 60); [discriminate H|]. destruct (d =? 61); [discriminate H|].
  destruct (d =? 62); [discriminate H|]. destruct (d =? 58); discriminate H.
Qed.

Lemma opstate_match : forall op (A : Type) (x y : A),
  match op with OpOperate => x | _ => y end = if opstate_eqb op OpOperate then x else y.
Proof. intros op A x y. destruct op; reflexivity. Qed.

Section C04.
Variable c : conf.
Hypothesis Hc : conf_ok c.

Definition Rel4 (s : sys) (gs : gmap) (pend : option Z) (g : c04g) : Prop :=
  Base c s gs pend /\ g4_obs g = observe s /\ g4_op g = dm_op (sy_m s) /\ pend_link (sy_m s) gs pend (g4_pending g).

(* positions of the observation lists *)
Lemma obs_position : forall s n ob, SInv c s -> nth_error (observe s) n = Some ob ->
  (ob = None) \/
  exists h p pc, nth_error (sy_handles s) n = Some (Some h) /\ slot (sy_m s) (hd_index h) = Some p /\
                 ob = Some (observe_periph p) /\ nth_error (cf_periphs c) n = Some pc /\ fits pc p.
Proof.
  intros s n ob I H. unfold observe in H. rewrite nth_error_map in H.
  destruct (nth_error (sy_handles s) n) as [[h|]|] eqn:Hn; cbn [option_map] in H; try discriminate H.
  - destruct (si_h _ _ I _ _ Hn) as (pc & p & Hpc & Hs & Hf). right. exists h, p, pc.
    split; [reflexivity|]. split; [exact Hs|]. split.
    + unfold dp_get_mut in H. unfold slot in Hs. destruct (nth_error (dm_slots (sy_m s)) (hd_index h)) as [[q|]|]; try discriminate Hs.
      inversion Hs; subst q. inversion H; reflexivity.
    + split; [exact Hpc|exact Hf].
  - left. inversion H; reflexivity.
Qed.

Lemma obs_position_gen : forall c2 s n ob, SInv c2 s -> nth_error (observe s) n = Some ob ->
  (ob = None) \/
  exists h p, nth_error (sy_handles s) n = Some (Some h) /\ slot (sy_m s) (hd_index h) = Some p /\ ob = Some (observe_periph p).
Proof.
  intros c2 s n ob I H. unfold observe in H. rewrite nth_error_map in H.
  destruct (nth_error (sy_handles s) n) as [[h|]|] eqn:Hn; cbn [option_map] in H; try discriminate H.
  - destruct (si_h _ _ I _ _ Hn) as (pc & p & Hpc & Hs & Hf). right. exists h, p.
    split; [reflexivity|]. split; [exact Hs|].
    unfold dp_get_mut in H. unfold slot in Hs. destruct (nth_error (dm_slots (sy_m s)) (hd_index h)) as [[q|]|]; try discriminate Hs.
    inversion Hs; subst q. inversion H; reflexivity.
  - left. inversion H; reflexivity.
Qed.

Definition images_ok (upd : option (nat * bytes)) (inp : tr_in) (s s' : sys) : Prop :=
  forall n h p p', nth_error (sy_handles s) n = Some (Some h) -> nth_error (sy_handles s') n = Some (Some h) ->
    slot (sy_m s) (hd_index h) = Some p -> slot (sy_m s') (hd_index h) = Some p' ->
    match upd with
    | Some (k', d) => if Nat.eqb n k' then pe_pi_i p' = d else pe_pi_i p' = pe_pi_i p
    | None => pe_pi_i p' = pe_pi_i p
    end /\
    match inp with
    | InWriteQ k' q => if Nat.eqb n k' then pe_pi_q p' = q else pe_pi_q p' = pe_pi_q p
    | _ => pe_pi_q p' = pe_pi_q p
    end.

Lemma chk_images_ok : forall c2 upd inp s s',
  SInv c s -> SInv c2 s' ->
  (forall n h, nth_error (sy_handles s) n = Some (Some h) -> nth_error (sy_handles s') n = Some (Some h)) ->
  images_ok upd inp s s' ->
  chk_go upd inp 0%nat (observe s) (observe s') = None.
Proof.
  intros c2 upd inp s s' I I' Hh Himg. apply chk_go_none. intros n ob oa Hb Ha. cbn [Nat.add].
  destruct (obs_position s n ob I Hb) as [->|(h & p & pc & Hn & Hs & -> & _)]; [apply img_chk_absent; left; reflexivity|].
  destruct (obs_position_gen c2 s' n oa I' Ha) as [->|(h' & p' & Hn' & Hs' & ->)]; [apply img_chk_absent; right; reflexivity|].
  rewrite (Hh _ _ Hn) in Hn'. inversion Hn'; subst h'.
  destruct (Himg n h p p' Hn (Hh _ _ Hn) Hs Hs') as (H1 & H2). apply img_chk_none; assumption.
Qed.

(* nothing changes any image *)
Lemma images_same : forall inp s s',
  (forall j q q', slot (sy_m s) j = Some q -> slot (sy_m s') j = Some q' -> pe_pi_i q' = pe_pi_i q /\ pe_pi_q q' = pe_pi_q q) ->
  match inp with InWriteQ _ _ => False | _ => True end ->
  images_ok None inp s s'.
Proof.
  intros inp s s' H Hin n h p p' _ _ Hs Hs'. destruct (H _ _ _ Hs Hs') as (E1 & E2).
  split; [exact E1|]. destruct inp; try exact E2. contradiction.
Qed.


Lemma state_service_dx : forall p, state_service p = SvDx <-> (in_dx p = true /\ pe_diag_in_flight p = false).
Proof.
  intro p. unfold state_service, in_dx. destruct (pe_state p), (pe_diag_in_flight p); split;
    try (intro H; discriminate H); try (intros [H1 H2]; discriminate); auto.
Qed.

Lemma handles_same_of : forall s s' t, sy_handles s' = hs_next (sy_handles s) t -> (forall k, ts_in t <> InAdd k) ->
  sy_handles s' = sy_handles s.
Proof. intros s s' t H Hn. rewrite H. apply hs_next_other. exact Hn. Qed.

Lemma nth_of_nth_error : forall A (l : list A) k x d, nth_error l k = Some x -> nth k l d = x.
Proof. intros A l k x d H. apply nth_error_nth. exact H. Qed.

(* the expression c04_step reduces to when the three checks pass *)
Lemma c04_finish : forall (g : c04g) (t : tstep) v upd exp obs' op',
  v <> VCrash ->
  chk_go upd (ts_in t) 0%nat (g4_obs g) obs' = None -> c04_req c g v = None -> c04_evok c t exp = true ->
  match v with
  | VCrash => match ts_in t with InRx _ _ _ => inr 406 | _ => inl g end
  | _ =>
    match chk_go upd (ts_in t) 0%nat (g4_obs g) obs' with
    | Some code => inr code
    | None =>
        match c04_req c g v with
        | Some code => inr code
        | None =>
            if negb (c04_evok c t exp) then inr 405
            else inl (mkC04g obs' op' (c04_pending' g v))
        end
    end
  end = inl (mkC04g obs' op' (c04_pending' g v)).
Proof.
  intros g t v upd exp obs' op' Hv H1 H2 H3. rewrite H1, H2, H3. cbn [negb].
  destruct v; try reflexivity. now elim Hv.
Qed.

Lemma evok_none : forall t, match step_event t with Some (_, EvDataExchanged) => False | _ => True end ->
  c04_evok c t None = true.
Proof.
  intros t H. unfold c04_evok. destruct (ts_taken t); [|reflexivity].
  destruct (step_event t) as [[a e]|]; [|reflexivity]. destruct e; try reflexivity. contradiction.
Qed.

Ltac c04_close Hv Hchk Hreq4 Hevok :=
  let Hvne := fresh "Hvne" in let Hupd := fresh "Hupd" in let Hscx := fresh "Hscx" in
  match goal with |- context [c04_upd ?c (view_of ?t) ?pg] =>
    assert (Hvne : view_of t <> VCrash) by (rewrite Hv; discriminate);
    assert (Hupd : c04_upd c (view_of t) pg = None) by (rewrite Hv; reflexivity);
    assert (Hscx : c04_sc c (view_of t) pg = None) by (rewrite Hv; reflexivity);
    rewrite Hupd, Hscx;
    rewrite (c04_finish _ t (view_of t) None None _ _ Hvne Hchk Hreq4 Hevok)
  end.

Lemma c04_sound_step : forall s gs pend g i t s' n,
  Rel4 s gs pend g -> model_step s i = Ok (s', t) ->
  head_ok (p_address (cf_params c)) (sy_handles s) pend t -> is_reset_in i = false ->
  exists gs' g', c04_step c g n t = inl g' /\
                 Rel4 s' gs' (pend_next_v pend (view_of t)) g' /\ sy_handles s' = hs_next (sy_handles s) t.
Proof.
  intros s gs pend g i t s' n (HB & Hobs & Hop & Hpl) Hstep Hhead Hnri.
  destruct (model_trans c Hc s gs pend i t s' HB Hstep Hhead Hnri) as (gs' & HB' & Hhs & Hti & Hto & Htop & Hopk & HT).
  pose proof HB as [I G]. pose proof HB' as [I' G'].
  pose proof (sinv_addr_inj c s Hc I) as Hinj. pose proof (sinv_addr_inj c s' Hc I') as Hinj'.
  exists gs'. rewrite c04_step_eq. cbn zeta. rewrite Hto, Htop.
  destruct HT as
    [Hv Hev Hin Hq
    |j h pdu q q1 g1 q' Hpn Hv Hev Hin Hsl Hda HQ I1 Hp Hsl' Hg' Hreq Hoq
    |j q q1 g1 q' Hpn Hv Hev Hin Hsl HQ I1 Hp Hsl' Hg' Hok Hoq
    |j a tg ev p p1 now w Hpn Hv Hev Hin Hsl Ha Hp Hsl' Hg' Hout Hoq
    |j a p Hpn Hv Hev Hin Hsl Ha Hm Hg'
    |j k p p' Hv Hev Hsl Hsl' Hsc Hg' Hk Hin Hoq
    |k j pc Hpn Hin Hv Hev Hpc Hnone Hout Hfree Hnew Hoth Hg' Hfresh].
  - (* nothing visible *)
    assert (Hhh : sy_handles s' = sy_handles s).
    { apply (handles_same_of s s' t Hhs). intros k E. rewrite E in Hin. exact Hin. }
    assert (Hchk : chk_go None (ts_in t) 0%nat (g4_obs g) (observe s') = None).
    { rewrite Hobs. apply (chk_images_ok c); auto.
      - intros n0 h Hn0. rewrite Hhh. exact Hn0.
      - apply images_same.
        + intros j q q' Hq0 Hq0'. destruct Hq as [Hq1 _]. destruct (Hq1 _ _ Hq0) as (q2 & Hq2 & HQ).
          rewrite Hq0' in Hq2. inversion Hq2; subst q2. split; [apply (qu_pi_i _ _ _ _ HQ)|apply (qu_pi_q _ _ _ _ HQ)].
        + destruct (ts_in t); try exact Logic.I; contradiction. }
    assert (Hevok : c04_evok c t None = true) by (apply evok_none; rewrite Hev; exact Logic.I).
    assert (Hrel : Rel4 s' gs' pend (mkC04g (observe s') (dm_op (sy_m s')) (g4_pending g))).
    { assert (Hpn' : pend_next_v pend (view_of t) = pend)
        by (destruct Hv as [(-> & ->)|[((h & pdu & ->) & ->)| ->]]; reflexivity).
      rewrite Hpn' in HB'.
      split; [exact HB'|]. cbn [g4_obs g4_op g4_pending]. split; [reflexivity|]. split; [reflexivity|].
      apply (pend_link_pres (sy_m s) gs); auto.
      intros j q' Hq'. destruct (quiet_back _ _ _ _ Hq _ _ Hq') as (q & Hq0 & HQ). exists q.
      split; [exact Hq0|]. split; [apply (qu_addr _ _ _ _ HQ)|apply (qu_last _ _ _ _ HQ)]. }
    assert (Hpn' : pend_next_v pend (view_of t) = pend)
      by (destruct Hv as [(-> & ->)|[((h & pdu & ->) & ->)| ->]]; reflexivity).
    assert (Hpg' : c04_pending' g (view_of t) = g4_pending g)
      by (destruct Hv as [(-> & _)|[((h & pdu & ->) & _)| ->]]; reflexivity).
    assert (Hreq4 : c04_req c g (view_of t) = None)
      by (destruct Hv as [(-> & _)|[((h & pdu & ->) & _)| ->]]; reflexivity).
    rewrite Hpn'.
    destruct Hv as [(Hv & _)|[((h & pdu & Hv) & _)| Hv]]; c04_close Hv Hchk Hreq4 Hevok; rewrite Hpg';
      (eexists; split; [reflexivity|split; [exact Hrel|exact Hhs]]).
  - (* a request *)
    subst pend. pose proof (pend_link_none _ _ _ Hpl) as Hpg.
    assert (Hhh : sy_handles s' = sy_handles s).
    { apply (handles_same_of s s' t Hhs). intros k E. destruct Hin as (now & hp & Hin). rewrite Hin in E. discriminate E. }
    destruct (transmit_keeps _ _ _ _ _ Hp) as (Ka & Ki & Kq & _).
    assert (Hchk : chk_go None (ts_in t) 0%nat (g4_obs g) (observe s') = None).
    { rewrite Hobs. apply (chk_images_ok c); auto.
      - intros n0 h0 Hn0. rewrite Hhh. exact Hn0.
      - apply images_same.
        + intros j0 q0 q0' Hq0 Hq0'. destruct (Nat.eq_dec j0 j) as [->|Hne].
          * rewrite Hsl in Hq0. inversion Hq0; subst q0. rewrite Hsl' in Hq0'. inversion Hq0'; subst q0'.
            rewrite Ki, Kq. split; [apply (qu_pi_i _ _ _ _ HQ)|apply (qu_pi_q _ _ _ _ HQ)].
          * destruct Hoq as [Ho1 _]. destruct (Ho1 _ _ Hne Hq0) as (q2 & Hq2 & HQ2).
            rewrite Hq0' in Hq2. inversion Hq2; subst q2. split; [apply (qu_pi_i _ _ _ _ HQ2)|apply (qu_pi_q _ _ _ _ HQ2)].
        + destruct Hin as (now & hp & ->). exact Logic.I. }
    assert (Hevok : c04_evok c t None = true) by (apply evok_none; rewrite Hev; exact Logic.I).
    assert (Hreq4 : c04_req c g (view_of t) = None).
    { rewrite Hv. unfold c04_req. destruct (classify h) eqn:Esv; try reflexivity.
      destruct (slot_pconf c Hc s j q I Hsl) as (k & pc & hq & Hpca & Hpc & Hfit & Hk & Ehq).
      rewrite Hda, Hpca. rewrite Hobs, Hop.
      rewrite <- Ehq in Hsl. rewrite (nth_of_nth_error _ _ _ _ None (observe_nth s k _ q Hk Hsl)).
      cbn [obs_pi_q observe_periph ob_pi_q].
      destruct (dx_request_only_when_ready _ _ _ _ _ _ Hp (classify_dx_sap _ Esv)) as (_ & _ & _ & ->).
      rewrite (qu_pi_q _ _ _ _ HQ). rewrite opstate_match.
      destruct (opstate_eqb (dm_op (sy_m s)) OpOperate); rewrite bytes_eqb_refl; reflexivity. }
    c04_close Hv Hchk Hreq4 Hevok. rewrite Hv in *. cbn [pend_next_v] in *.
    eexists. split; [reflexivity|]. split; [|exact Hhs].
    split; [exact HB'|]. cbn [g4_obs g4_op g4_pending c04_pending']. split; [reflexivity|]. split; [reflexivity|].
    split; [reflexivity|]. intros j0 p0 Hp0 Ha0.
    assert (Ej : j0 = j).
    { apply (Hinj' j0 j p0 q' Hp0 Hsl'). rewrite Ka, (qu_addr _ _ _ _ HQ). congruence. }
    subst j0. exists h. rewrite Hg'. split; reflexivity.
  - (* the Offline event *)
    subst pend. pose proof (pend_link_none _ _ _ Hpl) as Hpg.
    assert (Hhh : sy_handles s' = sy_handles s).
    { apply (handles_same_of s s' t Hhs). intros k E. destruct Hin as (now & hp & Hin). rewrite Hin in E. discriminate E. }
    destruct (transmit_keeps _ _ _ _ _ Hp) as (Ka & Ki & Kq & _).
    assert (Hchk : chk_go None (ts_in t) 0%nat (g4_obs g) (observe s') = None).
    { rewrite Hobs. apply (chk_images_ok c); auto.
      - intros n0 h0 Hn0. rewrite Hhh. exact Hn0.
      - apply images_same.
        + intros j0 q0 q0' Hq0 Hq0'. destruct (Nat.eq_dec j0 j) as [->|Hne].
          * rewrite Hsl in Hq0. inversion Hq0; subst q0. rewrite Hsl' in Hq0'. inversion Hq0'; subst q0'.
            rewrite Ki, Kq. split; [apply (qu_pi_i _ _ _ _ HQ)|apply (qu_pi_q _ _ _ _ HQ)].
          * destruct Hoq as [Ho1 _]. destruct (Ho1 _ _ Hne Hq0) as (q2 & Hq2 & HQ2).
            rewrite Hq0' in Hq2. inversion Hq2; subst q2. split; [apply (qu_pi_i _ _ _ _ HQ2)|apply (qu_pi_q _ _ _ _ HQ2)].
        + destruct Hin as (now & hp & ->). exact Logic.I. }
    assert (Hevok : c04_evok c t None = true) by (apply evok_none; rewrite Hev; exact Logic.I).
    assert (Hreq4 : c04_req c g (view_of t) = None) by (rewrite Hv; reflexivity).
    c04_close Hv Hchk Hreq4 Hevok. rewrite Hv in *. cbn [pend_next_v] in *.
    eexists. split; [reflexivity|]. split; [|exact Hhs].
    split; [exact HB'|]. cbn [g4_obs g4_op g4_pending c04_pending']. split; [reflexivity|]. split; [reflexivity|].
    rewrite Hpg. exact Logic.I.
  - (* a reply *)
    subst pend. destruct (pend_link_some _ _ _ _ Hpl) as (sv & Hpg & Hlast).
    destruct (Hlast _ _ Hsl Ha) as (h0 & Hl & Hsv). subst sv.
    pose proof (gi_inv _ _ _ _ G _ _ Hsl) as Ij.
    assert (Hacc : gh_acc (gs j) = false).
    { destruct (inv_pending _ _ _ _ _ Ij (inv_out _ _ _ _ _ Ij Hout)) as (h' & _ & Hx). exact Hx. }
    destruct (inv_unacc _ _ _ _ _ Ij h0 Hl Hacc) as (Hsvp & _).
    assert (Hhh : sy_handles s' = sy_handles s).
    { apply (handles_same_of s s' t Hhs). intros k E. rewrite Hin in E. discriminate E. }
    destruct (reply_event_iff _ _ _ _ Hp) as (Hiff & Hpi & Hpq).
    destruct (slot_pconf c Hc s j p I Hsl) as (k' & pc & hk' & Hpca & Hpc & Hfit & Hk' & Ehk').
    pose proof Hfit as (F1 & F2 & F3 & F4). rewrite Ha in Hpca.
    (* position n is the replying peripheral exactly when its handle points to slot j *)
    assert (Hpos : forall n0 h1, nth_error (sy_handles s) n0 = Some (Some h1) -> (hd_index h1 = j <-> n0 = k')).
    { intros n0 h1 Hn0. split.
      - intro E. apply (handle_index_unique c Hc s n0 k' _ _ I Hn0 Hk'). congruence.
      - intros ->. rewrite Hk' in Hn0. inversion Hn0. subst h1. exact Ehk'. }
    set (upd := c04_upd c (VReply a tg) (g4_pending g)).
    assert (Himg : images_ok upd (ts_in t) s s' /\
                   c04_evok c t (match upd with Some (k0, _) => Some k0 | None => c04_sc c (VReply a tg) (g4_pending g) end) = true).
    { unfold upd. rewrite Hpg. unfold c04_upd, c04_sc. rewrite Hpca.
      assert (Hothers : forall n0 h1 q0 q0', nth_error (sy_handles s) n0 = Some (Some h1) -> hd_index h1 <> j ->
                slot (sy_m s) (hd_index h1) = Some q0 -> slot (sy_m s') (hd_index h1) = Some q0' ->
                pe_pi_i q0' = pe_pi_i q0 /\ pe_pi_q q0' = pe_pi_q q0).
      { intros n0 h1 q0 q0' _ Hne Hq0 Hq0'. destruct Hoq as [Ho1 _]. destruct (Ho1 _ _ Hne Hq0) as (q2 & Hq2 & HQ2).
        rewrite Hq0' in Hq2. inversion Hq2; subst q2. split; [apply (qu_pi_i _ _ _ _ HQ2)|apply (qu_pi_q _ _ _ _ HQ2)]. }
      assert (Hevs : step_event t = match ev with Some e => Some (a, e) | None => None end) by (rewrite Hev; destruct ev; reflexivity).
      assert (Hinq : match ts_in t with InWriteQ _ _ => False | _ => True end) by (rewrite Hin; exact Logic.I).
      (* generic shape of the image obligations *)
      assert (Hgen : forall updv : option (nat * bytes),
                (match updv with Some (k0, d) => k0 = k' /\ pe_pi_i p1 = d | None => pe_pi_i p1 = pe_pi_i p end) ->
                images_ok updv (ts_in t) s s').
      { intros updv Hu n0 h1 q0 q0' Hn0 _ Hq0 Hq0'.
        destruct (Nat.eq_dec (hd_index h1) j) as [E|Hne].
        - pose proof (proj1 (Hpos _ _ Hn0) E) as En. subst n0. rewrite E in Hq0, Hq0'.
          rewrite Hsl in Hq0. inversion Hq0; subst q0. rewrite Hsl' in Hq0'. inversion Hq0'; subst q0'.
          split.
          + destruct updv as [[k0 d]|]; [destruct Hu as (-> & Hu); rewrite Nat.eqb_refl; exact Hu|exact Hu].
          + destruct (ts_in t); try exact Hpq. contradiction.
        - destruct (Hothers _ _ _ _ Hn0 Hne Hq0 Hq0') as (E1 & E2). split.
          + destruct updv as [[k0 d]|]; [|exact E1]. destruct Hu as (-> & _).
            destruct (Nat.eqb_spec n0 k') as [En|_]; [|exact E1]. exfalso. apply Hne. apply (Hpos _ _ Hn0). exact En.
          + destruct (ts_in t); try exact E2. contradiction. }
      assert (Hgot : forall b : bool, (ev = Some EvDataExchanged <-> b = true) ->
                c04_evok c t (if b then Some k' else None) = true).
      { intros b Hb. unfold c04_evok. rewrite Hevs. destruct (ts_taken t); [|reflexivity].
        destruct b.
        - rewrite (proj2 Hb eq_refl). rewrite Hpc. apply Z.eqb_eq. congruence.
        - destruct ev as [e|]; [|reflexivity]. destruct e; try reflexivity.
          assert (X : false = true) by (apply Hb; reflexivity). discriminate X. }
      destruct (classify h0) eqn:Esv.
      1,2,3,5,6: (assert (Hna : dx_accepts p tg = false)
          by (unfold dx_accepts; destruct (in_dx p && negb (pe_diag_in_flight p)) eqn:E; [|reflexivity];
              exfalso; apply andb_true_iff in E; destruct E as [E1 E2]; apply negb_true_iff in E2;
              assert (X : state_service p = SvDx) by (apply state_service_dx; auto); congruence);
        rewrite Hna in Hpi; split; [apply (Hgen None); exact Hpi|];
        destruct tg; apply (Hgot false); rewrite Hiff, Hna; tauto).
      (* Data_Exchange *)
      symmetry in Hsvp. apply state_service_dx in Hsvp. destruct Hsvp as (Hdx1 & Hdx2).
      assert (Hdxa : dx_accepts p tg = dx_payload_ok p tg) by (unfold dx_accepts; rewrite Hdx1, Hdx2; reflexivity).
      unfold dx_payload_ok, dx_new_pi_i in *. rewrite F3 in *.
      destruct (dx_reply_payload (pc_in pc) tg) as [d|] eqn:Epay.
      - rewrite Hdxa in Hpi. split; [apply (Hgen (Some (k', d))); auto|].
        apply (Hgot true). rewrite Hiff, Hdxa. tauto.
      - split.
        + apply (Hgen None). rewrite Hdxa in Hpi. destruct (is_sc tg && Nat.eqb (pc_in pc) 0); exact Hpi.
        + destruct tg as [hh pp| |]; cbn [is_sc andb] in *.
          * apply (Hgot false). rewrite Hiff, Hdxa. tauto.
          * apply (Hgot false). rewrite Hiff, Hdxa. tauto.
          * destruct (Nat.eqb (pc_in pc) 0) eqn:E0; [apply (Hgot true)|apply (Hgot false)]; rewrite Hiff, Hdxa; tauto. }
    destruct Himg as (Himg & Hevok).
    assert (Hchk : chk_go upd (ts_in t) 0%nat (g4_obs g) (observe s') = None).
    { rewrite Hobs. apply (chk_images_ok c); auto. intros n0 h1 Hn0. rewrite Hhh. exact Hn0. }
    assert (Hvne : view_of t <> VCrash) by (rewrite Hv; discriminate).
    assert (Hupd : c04_upd c (view_of t) (g4_pending g) = upd) by (rewrite Hv; reflexivity).
    assert (Hscx : c04_sc c (view_of t) (g4_pending g) = c04_sc c (VReply a tg) (g4_pending g)) by (rewrite Hv; reflexivity).
    assert (Hreq4 : c04_req c g (view_of t) = None) by (rewrite Hv; reflexivity).
    rewrite Hupd, Hscx.
    rewrite (c04_finish _ t (view_of t) upd _ _ _ Hvne Hchk Hreq4 Hevok). rewrite Hv in *. cbn [pend_next_v] in *.
    eexists. split; [reflexivity|]. split; [|exact Hhs].
    split; [exact HB'|]. cbn [g4_obs g4_op g4_pending c04_pending']. split; [reflexivity|]. split; [reflexivity|].
    exact Logic.I.
  - (* time-out / request dropped *)
    subst pend.
    assert (Hhh : sy_handles s' = sy_handles s).
    { apply (handles_same_of s s' t Hhs). intros k E. rewrite E in Hin. exact Hin. }
    assert (Hchk : chk_go None (ts_in t) 0%nat (g4_obs g) (observe s') = None).
    { rewrite Hobs. apply (chk_images_ok c); auto.
      - intros n0 h0 Hn0. rewrite Hhh. exact Hn0.
      - apply images_same.
        + intros j0 q0 q0' Hq0 Hq0'. rewrite Hm in Hq0'. rewrite Hq0 in Hq0'. inversion Hq0'. auto.
        + destruct (ts_in t); try exact Logic.I; contradiction. }
    assert (Hevok : c04_evok c t None = true) by (apply evok_none; rewrite Hev; exact Logic.I).
    assert (Hrel : Rel4 s' gs' None (mkC04g (observe s') (dm_op (sy_m s')) None)).
    { assert (Hpn' : pend_next_v (Some a) (view_of t) = None) by (destruct Hv as [-> | ->]; reflexivity).
      rewrite Hpn' in HB'. split; [exact HB'|]. cbn [g4_obs g4_op g4_pending]. repeat split; reflexivity. }
    assert (Hpn' : pend_next_v (Some a) (view_of t) = None) by (destruct Hv as [-> | ->]; reflexivity).
    assert (Hpg' : c04_pending' g (view_of t) = None) by (destruct Hv as [-> | ->]; reflexivity).
    assert (Hreq4 : c04_req c g (view_of t) = None) by (destruct Hv as [-> | ->]; reflexivity).
    rewrite Hpn'.
    destruct Hv as [Hv|Hv]; c04_close Hv Hchk Hreq4 Hevok; rewrite Hpg';
      (eexists; split; [reflexivity|split; [exact Hrel|exact Hhs]]).
  - (* a user call *)
    assert (Hhh : sy_handles s' = sy_handles s).
    { apply (handles_same_of s s' t Hhs). intros k0 E. destruct Hin as [(Hin & _)|(q0 & Hin & _)]; rewrite Hin in E; discriminate E. }
    pose proof Hsc as (Hap & _ & _ & _ & Hpi & _).
    assert (Hpos : forall n0 h1, nth_error (sy_handles s) n0 = Some (Some h1) -> (hd_index h1 = j <-> n0 = k)).
    { intros n0 h1 Hn0. split.
      - intro E. destruct Hk as (hk & Hk & Ehk). apply (handle_index_unique c Hc s n0 k _ _ I Hn0 Hk). congruence.
      - intros ->. destruct Hk as (hk & Hk & Ehk). rewrite Hk in Hn0. inversion Hn0. subst h1. exact Ehk. }
    assert (Hchk : chk_go None (ts_in t) 0%nat (g4_obs g) (observe s') = None).
    { rewrite Hobs. apply (chk_images_ok c); auto.
      - intros n0 h0 Hn0. rewrite Hhh. exact Hn0.
      - intros n0 h1 q0 q0' Hn0 _ Hq0 Hq0'.
        destruct (Nat.eq_dec (hd_index h1) j) as [E|Hne].
        + pose proof (proj1 (Hpos _ _ Hn0) E) as En. subst n0. rewrite E in Hq0, Hq0'.
          rewrite Hsl in Hq0. inversion Hq0; subst q0. rewrite Hsl' in Hq0'. inversion Hq0'; subst q0'.
          split; [exact Hpi|]. destruct Hin as [(-> & Hx)|(qq & -> & Hx)]; [exact Hx|]. rewrite Nat.eqb_refl. exact Hx.
        + destruct Hoq as [Ho1 _]. destruct (Ho1 _ _ Hne Hq0) as (q2 & Hq2 & HQ2).
          rewrite Hq0' in Hq2. inversion Hq2; subst q2. split; [apply (qu_pi_i _ _ _ _ HQ2)|].
          destruct Hin as [(-> & _)|(qq & -> & _)]; [apply (qu_pi_q _ _ _ _ HQ2)|].
          destruct (Nat.eqb_spec n0 k) as [En|_]; [|apply (qu_pi_q _ _ _ _ HQ2)]. exfalso. apply Hne. apply (Hpos _ _ Hn0). exact En. }
    assert (Hevok : c04_evok c t None = true) by (apply evok_none; rewrite Hev; exact Logic.I).
    assert (Hreq4 : c04_req c g (view_of t) = None) by (rewrite Hv; reflexivity).
    c04_close Hv Hchk Hreq4 Hevok. rewrite Hv in *. cbn [pend_next_v] in *.
    eexists. split; [reflexivity|]. split; [|exact Hhs].
    split; [exact HB'|]. cbn [g4_obs g4_op g4_pending c04_pending']. split; [reflexivity|]. split; [reflexivity|].
    subst gs'. apply (pend_link_pres (sy_m s) gs); auto.
    intros j0 q0' Hq0'. destruct (Nat.eq_dec j0 j) as [->|Hne].
    + rewrite Hsl' in Hq0'. inversion Hq0'; subst q0'. exists p. auto.
    + destruct (others_back _ _ _ _ _ Hoq _ _ Hne Hq0') as (q0 & Hq0 & HQ0). exists q0.
      split; [exact Hq0|]. split; [apply (qu_addr _ _ _ _ HQ0)|apply (qu_last _ _ _ _ HQ0)].
  - (* add *)
    subst pend. pose proof (pend_link_none _ _ _ Hpl) as Hpg.
    assert (Hklt : (k < length (sy_handles s))%nat) by (apply nth_error_Some; rewrite Hnone; discriminate).
    assert (Hhh : forall n0 h0, nth_error (sy_handles s) n0 = Some (Some h0) -> nth_error (sy_handles s') n0 = Some (Some h0)).
    { intros n0 h0 Hn0. rewrite Hhs. unfold hs_next. rewrite Hin, Hout. rewrite set_nth_other; [exact Hn0|].
      intro E; subst n0. rewrite Hnone in Hn0. discriminate Hn0. }
    assert (Hchk : chk_go None (ts_in t) 0%nat (g4_obs g) (observe s') = None).
    { rewrite Hobs. apply (chk_images_ok c); auto.
      apply images_same.
      - intros j0 q0 q0' Hq0 Hq0'. destruct (Nat.eq_dec j0 j) as [->|Hne]; [rewrite Hfree in Hq0; discriminate Hq0|].
        rewrite Hoth in Hq0' by exact Hne. rewrite Hq0 in Hq0'. inversion Hq0'. auto.
      - rewrite Hin. exact Logic.I. }
    assert (Hevok : c04_evok c t None = true) by (apply evok_none; rewrite Hev; exact Logic.I).
    assert (Hreq4 : c04_req c g (view_of t) = None) by (rewrite Hv; reflexivity).
    c04_close Hv Hchk Hreq4 Hevok. rewrite Hv in *. cbn [pend_next_v] in *.
    eexists. split; [reflexivity|]. split; [|exact Hhs].
    split; [exact HB'|]. cbn [g4_obs g4_op g4_pending c04_pending']. split; [reflexivity|]. split; [reflexivity|].
    rewrite Hpg. exact Logic.I.
Qed.

End C04.

(* PART 12: C14, preliminaries -- the slots visited by one call of the slot loop *)

(* ------------------------------------------------------------------ occupied slots come in increasing order *)

Lemma occupied_from_in : forall l k j, In j (occupied_from l k) <->
  (k <= j)%nat /\ exists p, nth_error l (j - k) = Some (Some p).
Proof.
  induction l as [|x l IH]; intros k j; cbn [occupied_from].
  - split; [intros []|]. intros (_ & p & H). destruct (j - k)%nat; discriminate H.
  - destruct x as [q|]; cbn [In]; rewrite IH.
    + split.
      * intros [<-|(Hle & p & Hp)].
        -- split; [lia|]. exists q. rewrite Nat.sub_diag. reflexivity.
        -- split; [lia|]. exists p. replace (j - k)%nat with (S (j - S k)) by lia. exact Hp.
      * intros (Hle & p & Hp). destruct (Nat.eq_dec k j) as [->|Hne]; [left; reflexivity|right].
        split; [lia|]. exists p. replace (j - k)%nat with (S (j - S k)) in Hp by lia. exact Hp.
    + split.
      * intros (Hle & p & Hp). split; [lia|]. exists p. replace (j - k)%nat with (S (j - S k)) by lia. exact Hp.
      * intros (Hle & p & Hp). destruct (Nat.eq_dec k j) as [->|Hne].
        -- rewrite Nat.sub_diag in Hp. discriminate Hp.
        -- split; [lia|]. exists p. replace (j - k)%nat with (S (j - S k)) in Hp by lia. exact Hp.
Qed.

Lemma occupied_from_sorted : forall l k, StronglySorted lt (occupied_from l k).
Proof.
  induction l as [|x l IH]; intro k; cbn [occupied_from]; [constructor|].
  destruct x as [q|]; [|apply IH]. constructor; [apply IH|].
  apply Forall_forall. intros j Hj. apply occupied_from_in in Hj. lia.
Qed.

Lemma occupied_in_slot : forall m j, In j (occupied m) <-> exists p, slot m j = Some p.
Proof.
  intros m j. unfold occupied. rewrite occupied_from_in. rewrite Nat.sub_0_r. unfold slot. split.
  - intros (_ & p & Hp). exists p. rewrite Hp. reflexivity.
  - intros (p & Hp). split; [lia|]. exists p. destruct (nth_error (dm_slots m) j) as [[q|]|]; inversion Hp; reflexivity.
Qed.

Lemma pos_rem_sorted : forall m, StronglySorted lt (pos_rem m).
Proof. intro m. unfold pos_rem. destruct (dm_cycle m); apply occupied_from_sorted. Qed.

Lemma pos_rem_occ : forall m j, In j (pos_rem m) -> exists p, slot m j = Some p.
Proof.
  intros m j H. unfold pos_rem in H. destruct (dm_cycle m) as [i|].
  - apply occupied_from_in in H. destruct H as (Hle & p & Hp). rewrite nth_error_skipn' in Hp.
    replace (i + (j - i))%nat with j in Hp by lia. exists p. unfold slot. rewrite Hp. reflexivity.
  - apply occupied_in_slot. exact H.
Qed.

(* occupied slots that are not in the rest of the pass lie before it *)
Lemma pos_rem_done : forall m i j p, slot m i = Some p -> ~ In i (pos_rem m) -> In j (pos_rem m) -> (i < j)%nat.
Proof.
  intros m i j p Hs Hn Hj. unfold pos_rem in *. destruct (dm_cycle m) as [k|].
  - apply occupied_from_in in Hj. destruct Hj as (Hle & _).
    destruct (Nat.lt_ge_cases i k) as [Hlt|Hge]; [lia|]. exfalso. apply Hn. apply occupied_from_in.
    split; [exact Hge|]. exists p. rewrite nth_error_skipn'. replace (k + (i - k))%nat with i by lia.
    unfold slot in Hs. destruct (nth_error (dm_slots m) i) as [[q|]|]; inversion Hs; reflexivity.
  - exfalso. apply Hn. apply occupied_in_slot. exists p. exact Hs.
Qed.

Lemma sorted_app : forall (a b : list nat), StronglySorted lt (a ++ b) ->
  StronglySorted lt b /\ (forall x y, In x a -> In y b -> (x < y)%nat) /\ (forall x, In x a -> ~ In x b).
Proof.
  induction a as [|h a IH]; intros b H; cbn [app] in H.
  - split; [exact H|]. split; intros x; intros; contradiction.
  - inversion H as [|? ? Hs Hf]; subst. destruct (IH _ Hs) as (H1 & H2 & H3).
    rewrite Forall_forall in Hf.
    split; [exact H1|]. split.
    + intros x y [<-|Hx] Hy; [apply Hf; apply in_or_app; right; exact Hy|apply H2; assumption].
    + intros x [<-|Hx] Hb; [|apply (H3 x Hx Hb)].
      assert (X : (h < h)%nat) by (apply Hf; apply in_or_app; right; exact Hb). lia.
Qed.

Lemma sorted_head_notin : forall (i : nat) r, StronglySorted lt (i :: r) -> ~ In i r /\ forall y, In y r -> (i < y)%nat.
Proof.
  intros i r H. inversion H as [|? ? Hs Hf]; subst. rewrite Forall_forall in Hf. split.
  - intro Hi. specialize (Hf _ Hi). lia.
  - exact Hf.
Qed.

(* ------------------------------------------------------------------ the slots one call of the slot loop visits *)

Section Visit.
Variables (pa : params) (bufsize : nat).

(* vis = the slots whose turn ended in this call (all silently, except possibly the last one, which raised
   Offline); the slot that sent a request is the head of what remains *)
Definition visit_post (m m' : dpm) (o : txout) (vis rem' : list nat) : Prop :=
  pos_rem m = vis ++ rem' /\
  (forall j, In j vis -> exists q q' ev, slot m j = Some q /\ slot m' j = Some q' /\
      p_transmit pa (dm_op m) q = Ok (q', PtxSkip ev) /\
      (ev = None \/ (ev = Some EvOffline /\ ev_peripheral (dm_events m') = Some (mkHandle j (pe_addr q), EvOffline)))) /\
  (o <> None -> exists js r q q' h pdu, rem' = js :: r /\ slot m js = Some q /\ slot m' js = Some q' /\
      p_transmit pa (dm_op m) q = Ok (q', PtxSend h pdu) /\
      (forall j, ~ In j vis -> j <> js -> slot m' j = slot m j) /\
      (exists x, o = Some x /\ send_data bufsize h pdu = Ok x)) /\
  (o = None -> forall j, ~ In j vis -> slot m' j = slot m j) /\
  (ev_peripheral (dm_events m') = None -> forall j, In j vis -> exists q q', slot m j = Some q /\ slot m' j = Some q' /\
      p_transmit pa (dm_op m) q = Ok (q', PtxSkip None)) /\
  (vis = [] -> o = None -> dm_cycle m = CyCompleted \/ pos_rem m = []) /\
  (forall hd ev, ev_peripheral (dm_events m') = Some (hd, ev) -> In (hd_index hd) vis).

Lemma tx_rel_visit : forall m m' o log,
  tx_rel pa bufsize m m' o log ->
  forall rem', turn_entries (pos_rem m) log = Some rem' -> exists vis, visit_post m m' o vis rem'.
Proof.
  intros m m' o log H. induction H as
    [m Hc|m index Hc Hg|m index hd p p1 h pdu o Hc Hg Hp Hs|m index hd p p1 ev m2 Hc Hg Hp Hi
    |m index hd p p1 e m2 Hc Hg Hp Hi|m index hd p p1 m2 m' o log Hc Hg Hp Hi Hrel IH]; intros rem' Ht.
  - cbn in Ht. inversion Ht; subst rem'. exists []. unfold visit_post. cbn [app].
    split; [reflexivity|]. split; [intros j []|]. split; [intro X; now elim X|].
    split; [intros _ j _; reflexivity|]. split; [intros _ j []|]. split; [intros _ _; left; exact Hc|].
    intros hd ev E. discriminate E.
  - cbn in Ht. inversion Ht; subst rem'. exists []. unfold visit_post. cbn [app].
    split; [reflexivity|]. split; [intros j []|]. split; [intro X; now elim X|].
    split; [intros _ j _; reflexivity|]. split; [intros _ j []|].
    split; [intros _ _; right; unfold pos_rem; rewrite Hc; apply get_at_index_none; exact Hg|].
    intros hd ev E. discriminate E.
  - destruct (cur_slot _ _ _ _ Hc Hg) as (r & Hr & Hsl & Hadr).
    rewrite Hr in Ht. cbn [turn_entries turn_entry] in Ht. rewrite Nat.eqb_refl in Ht. inversion Ht; subst rem'.
    exists []. unfold visit_post. cbn [app]. split; [exact Hr|]. split; [intros j []|].
    assert (Hsl' : forall j, slot (set_events (put_cur m hd p1) (mkEvents false None)) j =
                     if Nat.eqb j (hd_index hd) then Some p1 else slot m j)
      by (intro j; apply (put_cur_slots _ _ _ _ _ Hsl)).
    split; [|split; [intro E; discriminate E|split; [intros _ j []|split; [intros _ E; discriminate E|intros hd0 ev0 E; discriminate E]]]].
    intros _. exists (hd_index hd), r, p, p1, h, pdu. split; [reflexivity|]. split; [exact Hsl|].
    split; [rewrite Hsl', Nat.eqb_refl; reflexivity|]. split; [exact Hp|].
    split; [|exists o; split; [reflexivity|exact Hs]].
    intros j _ Hne. rewrite Hsl'. destruct (Nat.eqb_spec j (hd_index hd)); [contradiction|reflexivity].
  - destruct (cur_slot _ _ _ _ Hc Hg) as (r & Hr & Hsl & Hadr).
    destruct (put_cur_facts m hd p p1 Hsl) as (_ & Hcy & Hpr & _). rewrite Hc in Hcy. rewrite Hr in Hpr.
    destruct (increment_pos _ _ _ _ _ _ Hcy Hpr Hi) as (Hsl2 & _ & _ & _ & _ & Hrnil). subst r.
    rewrite Hr in Ht. cbn [turn_entries turn_entry] in Ht. rewrite Nat.eqb_refl in Ht. inversion Ht; subst rem'.
    assert (Hsl' : forall j, slot (set_events (set_cycle m2 (CyDataExchange 0)) (mkEvents true (opt_pair hd ev))) j =
                     if Nat.eqb j (hd_index hd) then Some p1 else slot m j).
    { intro j. change (slot (set_events (set_cycle m2 _) _) j) with (slot m2 j).
      rewrite (slot_slots (put_cur m hd p1) _) by exact Hsl2. apply (put_cur_slots _ _ _ _ _ Hsl). }
    exists [hd_index hd]. unfold visit_post. split; [rewrite Hr; reflexivity|].
    split; [|split; [intro X; now elim X|split; [|split; [|split]]]].
    + intros j [<-|[]]. exists p, p1, ev. split; [exact Hsl|]. split; [rewrite Hsl', Nat.eqb_refl; reflexivity|].
      split; [exact Hp|]. destruct ev as [e|]; [right|left; reflexivity].
      pose proof (transmit_spec _ _ _ _ _ Hp) as Hts. cbn beta iota in Hts. destruct Hts as [-> _].
      split; [reflexivity|]. cbn. rewrite <- Hadr. destruct hd; reflexivity.
    + intros _ j Hj. rewrite Hsl'. destruct (Nat.eqb_spec j (hd_index hd)) as [->|_]; [exfalso; apply Hj; left; reflexivity|reflexivity].
    + intros Hnone j [<-|[]]. exists p, p1. split; [exact Hsl|]. split; [rewrite Hsl', Nat.eqb_refl; reflexivity|].
      cbn [dm_events set_events ev_peripheral] in Hnone. destruct ev; [discriminate Hnone|exact Hp].
    + intro E. discriminate E.
    + intros hd0 ev0 E. cbn [dm_events set_events ev_peripheral] in E. destruct ev; cbn in E; inversion E. left; reflexivity.
  - destruct (cur_slot _ _ _ _ Hc Hg) as (r & Hr & Hsl & Hadr).
    destruct (put_cur_facts m hd p p1 Hsl) as (_ & Hcy & Hpr & _). rewrite Hc in Hcy. rewrite Hr in Hpr.
    destruct (increment_pos _ _ _ _ _ _ Hcy Hpr Hi) as (Hsl2 & _).
    rewrite Hr in Ht. cbn [turn_entries turn_entry] in Ht. rewrite Nat.eqb_refl in Ht. inversion Ht; subst rem'.
    assert (Hsl' : forall j, slot (set_events m2 (mkEvents false (Some (hd, e)))) j =
                     if Nat.eqb j (hd_index hd) then Some p1 else slot m j).
    { intro j. change (slot (set_events m2 _) j) with (slot m2 j).
      rewrite (slot_slots (put_cur m hd p1) _) by exact Hsl2. apply (put_cur_slots _ _ _ _ _ Hsl). }
    exists [hd_index hd]. unfold visit_post. split; [rewrite Hr; reflexivity|].
    split; [|split; [intro X; now elim X|split; [|split; [|split]]]].
    + intros j [<-|[]]. exists p, p1, (Some e). split; [exact Hsl|]. split; [rewrite Hsl', Nat.eqb_refl; reflexivity|].
      split; [exact Hp|]. right.
      pose proof (transmit_spec _ _ _ _ _ Hp) as Hts. cbn beta iota in Hts. destruct Hts as [-> _].
      split; [reflexivity|]. cbn. rewrite <- Hadr. destruct hd; reflexivity.
    + intros _ j Hj. rewrite Hsl'. destruct (Nat.eqb_spec j (hd_index hd)) as [->|_]; [exfalso; apply Hj; left; reflexivity|reflexivity].
    + intros Hnone. cbn in Hnone. discriminate Hnone.
    + intro E. discriminate E.
    + intros hd0 ev0 E. cbn in E. inversion E. left; reflexivity.
  - destruct (cur_slot _ _ _ _ Hc Hg) as (r & Hr & Hsl & Hadr).
    destruct (put_cur_facts m hd p p1 Hsl) as (_ & Hcy & Hpr & _). rewrite Hc in Hcy. rewrite Hr in Hpr.
    destruct (increment_pos _ _ _ _ _ _ Hcy Hpr Hi) as (Hsl2 & Hop2 & _ & _ & Hne & Hp2 & _).
    rewrite Hr in Ht. cbn [turn_entries turn_entry] in Ht. rewrite Nat.eqb_refl in Ht.
    rewrite <- Hp2 in Ht. destruct (IH _ Ht) as (vis & Hpos & Hv1 & Hv5 & Hv3 & Hv4 & Hv6 & Hv7).
    assert (Hop : dm_op m2 = dm_op m) by (rewrite Hop2; reflexivity).
    assert (Hm2 : forall j, slot m2 j = if Nat.eqb j (hd_index hd) then Some p1 else slot m j).
    { intro j. rewrite (slot_slots (put_cur m hd p1) _) by exact Hsl2. apply (put_cur_slots _ _ _ _ _ Hsl). }
    pose proof (pos_rem_sorted m) as Hsorted. rewrite Hr in Hsorted.
    destruct (sorted_head_notin _ _ Hsorted) as (Hnotin & _).
    assert (Hnv : ~ In (hd_index hd) vis /\ ~ In (hd_index hd) rem').
    { rewrite Hp2 in Hpos. split; intro X; apply Hnotin; rewrite Hpos; apply in_or_app; [left|right]; exact X. }
    destruct Hnv as (Hnv & Hnr).
    assert (Hkeep : slot m' (hd_index hd) = Some p1).
    { destruct o as [x|].
      - destruct (Hv5 ltac:(discriminate)) as (js & r0 & q & q' & h & pdu & Erem & _ & _ & _ & Hoth & _).
        rewrite Hoth; [rewrite Hm2, Nat.eqb_refl; reflexivity|exact Hnv|].
        intro E. apply Hnr. rewrite Erem, E. left; reflexivity.
      - rewrite (Hv3 eq_refl _ Hnv), Hm2, Nat.eqb_refl. reflexivity. }
    exists (hd_index hd :: vis). unfold visit_post.
    split; [rewrite Hr; rewrite Hp2 in Hpos; rewrite Hpos; reflexivity|].
    split; [|split; [|split; [|split; [|split]]]].
    + intros j [<-|Hj].
      * exists p, p1, None. split; [exact Hsl|]. split; [exact Hkeep|]. split; [exact Hp|left; reflexivity].
      * destruct (Hv1 _ Hj) as (q & q' & ev & H1 & H2 & H3 & H4). rewrite Hm2 in H1.
        assert (Hne' : j <> hd_index hd) by (intro E; subst j; contradiction).
        destruct (Nat.eqb_spec j (hd_index hd)); [contradiction|]. rewrite Hop in H3.
        exists q, q', ev. auto.
    + intros Ho. destruct (Hv5 Ho) as (js & r0 & q & q' & h & pdu & Erem & H1 & H2 & H3 & Hoth & Hsd).
      assert (Hjs : js <> hd_index hd) by (intro E; apply Hnr; rewrite Erem, E; left; reflexivity).
      rewrite Hm2 in H1. destruct (Nat.eqb_spec js (hd_index hd)); [contradiction|]. rewrite Hop in H3.
      exists js, r0, q, q', h, pdu. split; [exact Erem|]. split; [exact H1|]. split; [exact H2|]. split; [exact H3|].
      split; [|exact Hsd].
      intros j Hj Hne'. assert (Hne2 : j <> hd_index hd) by (intro E; apply Hj; left; symmetry; exact E).
      rewrite Hoth; [|intro X; apply Hj; right; exact X|exact Hne'].
      rewrite Hm2. destruct (Nat.eqb_spec j (hd_index hd)); [contradiction|reflexivity].
    + intros Ho j Hj. assert (Hne' : j <> hd_index hd) by (intro E; apply Hj; left; symmetry; exact E).
      assert (Hjv : ~ In j vis) by (intro X; apply Hj; right; exact X).
      rewrite (Hv3 Ho _ Hjv), Hm2. destruct (Nat.eqb_spec j (hd_index hd)); [contradiction|reflexivity].
    + intros Hnone j [<-|Hj].
      * exists p, p1. auto.
      * destruct (Hv4 Hnone _ Hj) as (q & q' & H1 & H2 & H3). rewrite Hm2 in H1.
        assert (Hne' : j <> hd_index hd) by (intro E; subst j; contradiction).
        destruct (Nat.eqb_spec j (hd_index hd)); [contradiction|]. rewrite Hop in H3. exists q, q'. auto.
    + intro E. discriminate E.
    + intros hd0 ev0 E. right. apply (Hv7 _ _ E).
Qed.

End Visit.

(* PART 13: C14, c14_step with its parts named; the invariant *)

Definition c14_r1 (max_retry : nat) (g : c14g) (hs : list (option handle)) (dirty : bool) (s : tstep)
  : (list Z * option Z * nat) + Z :=
      if dirty then
        match view_of s with
        | VReq da _ _ _ => inl (g14_turns g, Some da, 1%nat)
        | VReply _ _ => inl (g14_turns g, None, 0%nat)
        | _ => inl (g14_turns g, g14_cur g, g14_sends g)
        end
      else
      match view_of s with
      | VReq da _ _ _ =>
          match index_of_addr hs da with
          | None => inr 1409
          | Some ix =>
              if match g14_cur g with Some a => a =? da | None => false end then
                (if Nat.ltb max_retry (g14_sends g) then inr 1408
                 else inl (g14_turns g, Some da, S (g14_sends g)))
              else
                if existsb (Z.eqb da) (g14_turns g) then inr 1402 else
                let in_order :=
                  match g14_turns g with
                  | [] => true
                  | prev :: _ =>
                      match index_of_addr hs prev with Some px => Nat.ltb px ix | None => true end
                  end in
                if in_order then inl (da :: g14_turns g, Some da, 1%nat) else inr 1403
          end
      | VReply _ _ => inl (g14_turns g, None, 0%nat)
      | VNoTx =>
          match ts_op s with
          | OpStop => inl (g14_turns g, g14_cur g, g14_sends g)
          | _ => inl (g14_turns g, None, 0%nat)
          end
      | _ => inl (g14_turns g, g14_cur g, g14_sends g)
      end.

Definition c14_r2 (g : c14g) (hs : list (option handle)) (turns : list Z) (s : tstep)
  : (list (Z * lstate) * list Z) + Z :=
          match step_event s with
          | None => inl (g14_life g, turns)
          | Some (a, ev) =>
              match ts_taken s with
              | Some {| ev_peripheral := Some (h, _) |} =>
                  if negb (match index_of_addr hs a with Some ix => Nat.eqb ix (hd_index h) | None => false end)
                  then inr 1407 else
                  match l_step (alist_get LOff (g14_life g) a) ev with
                  | None => inr 1405
                  | Some l' =>
                      let turns' := match ev with
                                    | EvOffline => if existsb (Z.eqb a) turns then turns else a :: turns
                                    | _ => turns
                                    end in
                      inl (alist_set (g14_life g) a l', turns')
                  end
              | _ => inr 1407
              end
          end.

Definition c14_consistent (life : list (Z * lstate)) : list pconf -> list (option pobs) -> bool :=
              (fix go (ps : list pconf) (os : list (option pobs)) : bool :=
                 match ps, os with
                 | p :: ps', Some o :: os' =>
                     let l := alist_get LOff life (pc_addr p) in
                     Bool.eqb (ob_live o) (negb (lstate_eqb l LOff)) &&
                     (negb (ob_running o) || lstate_eqb l LCfg) && go ps' os'
                 | _ :: ps', None :: os' => go ps' os'
                 | _, _ => true
                 end).

Definition c14_hs (g : c14g) (s : tstep) : list (option handle) :=
  match ts_in s, ts_out s with
  | InAdd k, OutHandle h => set_nth (g14_handles g) k (Some h)
  | _, _ => g14_handles g
  end.

Definition c14_dirty (g : c14g) (s : tstep) : bool := match ts_in s with InAdd _ => true | _ => g14_dirty g end.

Lemma c14_step_eq : forall c g i s,
  c14_step c g i s =
  match ts_out s with
  | OutHang => inr 1401
  | OutPanic => if is_callback (ts_in s) && conf_within_limits c then inr 1410 else inl g
  | _ =>
    let hs := c14_hs g s in
    let dirty := c14_dirty g s in
    match c14_r1 (Z.to_nat (p_max_retry (cf_params c))) g hs dirty s with
    | inr code => inr code
    | inl (turns, cur, sends) =>
        match c14_r2 g hs turns s with
        | inr code => inr code
        | inl (life, turns2) =>
            if negb (c14_consistent life (cf_periphs c) (ts_obs s)) then inr 1406 else
            if step_cc s then
              if dirty || forallb (fun a => existsb (Z.eqb a) turns2) (g14_due g)
              then inl (mkC14g life hs [] None (due_after c (ts_obs s)) 0 false)
              else inr 1404
            else inl (mkC14g life hs turns2 cur (g14_due g) sends dirty)
        end
    end
  end.
Proof. reflexivity. Qed.

(* ------------------------------------------------------------------ consistency and due lists, by position *)

Lemma c14_consistent_true : forall life ps os,
  (forall k pc o, nth_error ps k = Some pc -> nth_error os k = Some (Some o) ->
     ob_live o = negb (lstate_eqb (alist_get LOff life (pc_addr pc)) LOff) /\
     (ob_running o = true -> alist_get LOff life (pc_addr pc) = LCfg)) ->
  c14_consistent life ps os = true.
Proof.
  intros life. induction ps as [|p ps IH]; intros os H; [reflexivity|].
  destruct os as [|o os]; [reflexivity|].
  assert (Hrest : c14_consistent life ps os = true).
  { apply IH. intros k pc o0 H1 H2. apply (H (S k)); assumption. }
  destruct o as [o|]; [|exact Hrest].
  change (Bool.eqb (ob_live o) (negb (lstate_eqb (alist_get LOff life (pc_addr p)) LOff)) &&
          (negb (ob_running o) || lstate_eqb (alist_get LOff life (pc_addr p)) LCfg) && c14_consistent life ps os = true).
  destruct (H 0%nat p o eq_refl eq_refl) as (H1 & H2). rewrite Hrest, H1, Bool.eqb_reflx. cbn [andb].
  rewrite Bool.andb_true_r. destruct (ob_running o); [rewrite (H2 eq_refl); reflexivity|reflexivity].
Qed.

Definition due_go : list pconf -> list (option pobs) -> list Z :=
  (fix go (ps : list pconf) (os : list (option pobs)) : list Z :=
     match ps, os with
     | p :: ps', Some o :: os' =>
         let rest := go ps' os' in
         if ob_live o &&
            match o_user_prm (pc_opts p), o_config (pc_opts p) with Some _, Some _ => true | _, _ => false end
         then pc_addr p :: rest else rest
     | _ :: ps', None :: os' => go ps' os'
     | _, _ => []
     end).

Lemma due_after_eq : forall c obs, due_after c obs = due_go (cf_periphs c) obs.
Proof. reflexivity. Qed.

Lemma due_go_in : forall ps os a, In a (due_go ps os) ->
  exists k pc o, nth_error ps k = Some pc /\ nth_error os k = Some (Some o) /\ pc_addr pc = a /\ ob_live o = true /\
    match o_user_prm (pc_opts pc), o_config (pc_opts pc) with Some _, Some _ => true | _, _ => false end = true.
Proof.
  induction ps as [|p ps IH]; intros os a H; [destruct H|].
  destruct os as [|o os]; [destruct H|].
  destruct o as [o|].
  - change (In a (if ob_live o && match o_user_prm (pc_opts p), o_config (pc_opts p) with Some _, Some _ => true | _, _ => false end
                  then pc_addr p :: due_go ps os else due_go ps os)) in H.
    destruct (ob_live o && _) eqn:E.
    + destruct H as [<-|H].
      * apply andb_true_iff in E. destruct E as [E1 E2]. exists 0%nat, p, o. auto.
      * destruct (IH _ _ H) as (k & pc & o0 & H1 & H2 & H3). exists (S k), pc, o0. auto.
    + destruct (IH _ _ H) as (k & pc & o0 & H1 & H2 & H3). exists (S k), pc, o0. auto.
  - change (In a (due_go ps os)) in H. destruct (IH _ _ H) as (k & pc & o0 & H1 & H2 & H3). exists (S k), pc, o0. auto.
Qed.

(* ------------------------------------------------------------------ the invariant *)

Definition complete (p : periph) : bool :=
  match o_user_prm (pe_opts p), o_config (pe_opts p) with Some _, Some _ => true | _, _ => false end.

(* the life-cycle automaton state fits the peripheral *)
Definition RL (p : periph) (g : ghost) (l : lstate) : Prop := agree_b l (pe_state p) = true.

Record Turns (m : dpm) (rem : list nat) (turns : list Z) (cur : option Z) (sends : nat) (due : list Z) : Prop := mkTurns {
  tu_sorted : StronglySorted lt rem;
  tu_occ : forall j, In j rem -> exists p, slot m j = Some p;
  tu_done : forall i j p, slot m i = Some p -> ~ In i rem -> In j rem -> (i < j)%nat;
  tu_t1 : forall a, In a turns -> exists i p, slot m i = Some p /\ pe_addr p = a /\
            (~ In i rem \/ (exists r, rem = i :: r /\ cur = Some a));
  tu_t2 : forall a, cur = Some a -> exists i r p, rem = i :: r /\ slot m i = Some p /\ pe_addr p = a /\
            In a turns /\ Z.of_nat sends <= pe_retry p;
  tu_due : forall a, In a due -> In a turns \/
            exists i p, In i rem /\ slot m i = Some p /\ pe_addr p = a /\ is_live p = true /\ complete p = true;
  tu_comp : dm_cycle m = CyCompleted -> cur = None }.

Definition Ccomp (m : dpm) : Prop := dm_cycle m = CyCompleted -> occupied m <> [].

(* a fresh pass: nothing visited yet *)
Lemma turns_fresh : forall m due,
  pos_rem m = occupied m ->
  (forall a, In a due -> exists i p, slot m i = Some p /\ pe_addr p = a /\ is_live p = true /\ complete p = true) ->
  Turns m (pos_rem m) [] None 0 due.
Proof.
  intros m due Hpr Hdue. constructor.
  - apply pos_rem_sorted.
  - apply pos_rem_occ.
  - apply pos_rem_done.
  - intros a [].
  - intros a E. discriminate E.
  - intros a Ha. right. destruct (Hdue a Ha) as (i & p & H1 & H2 & H3 & H4). exists i, p.
    split; [rewrite Hpr; apply occupied_in_slot; exists p; exact H1|]. auto.
  - reflexivity.
Qed.

(* a live peripheral with complete options always has something to send or is declared offline *)
Lemma live_complete_not_idle : forall pa op q q',
  p_transmit pa op q = Ok (q', PtxSkip None) -> is_live q = true -> complete q = true -> False.
Proof.
  intros pa op q q' H Hl Hcm. destruct (transmit_facts _ _ _ _ _ H) as (_ & _ & _ & _ & _ & _ & Hcase).
  unfold is_live in Hl. unfold complete in Hcm. unfold idle_state in Hcase.
  destruct Hcase as [(Hid & _)|(Hoff & _)].
  - destruct (pe_state q); try contradiction.
    + rewrite Hid in Hcm. discriminate Hcm.
    + rewrite Hid in Hcm. destruct (o_user_prm (pe_opts q)); discriminate Hcm.
  - rewrite Hoff in Hl. discriminate Hl.
Qed.

(* PART 14: C14, the relation and the steps that do not run the slot scheduler *)

Lemma agree_b_public : forall l s, agree_b l s = true ->
  pstate_is_live s = negb (lstate_eqb l LOff) /\ (pstate_is_running s = true -> l = LCfg).
Proof. intros l s H. destruct l, s; cbn in *; try discriminate H; split; try reflexivity; intro X; try discriminate X; reflexivity. Qed.

Lemma existsb_in : forall a l, In a l -> existsb (Z.eqb a) l = true.
Proof. intros a l H. apply existsb_exists. exists a. split; [exact H|apply Z.eqb_refl]. Qed.

Lemma existsb_in_iff : forall a l, existsb (Z.eqb a) l = true <-> In a l.
Proof.
  intros a l. split; [|apply existsb_in]. intro H. apply existsb_exists in H. destruct H as (x & Hx & E).
  apply Z.eqb_eq in E. subst x. exact Hx.
Qed.

(* the handles as the monitor knows them: slot index from the master, station address in force *)
Definition chs (c : conf) (s : sys) : list (option handle) := cur_hs (cf_periphs c) (sy_handles s).

Section C14.
Variable c : conf.
Hypothesis Hc : conf_ok c.

Definition Rel14 (s : sys) (gs : gmap) (pend : option Z) (g : c14g) : Prop :=
  Base c s gs pend /\ g14_handles g = chs c s /\ Ccomp (sy_m s) /\
  per_ok lstate LOff RL (sy_m s) gs (g14_life g) /\
  (forall da, pend = Some da -> g14_cur g = Some da) /\
  (g14_dirty g = false ->
   Turns (sy_m s) (pos_rem (sy_m s)) (g14_turns g) (g14_cur g) (g14_sends g) (g14_due g)).

(* the last part of c14_step: consistency of the observables, completed cycle *)
Lemma c14_tail : forall s' gs' pend' (g : c14g) life' hs' turns2 cur1 sends1 dirty' t rem',
  Base c s' gs' pend' -> hs' = chs c s' -> Ccomp (sy_m s') ->
  per_ok lstate LOff RL (sy_m s') gs' life' ->
  ts_obs t = observe s' ->
  (forall da, pend' = Some da -> cur1 = Some da) ->
  (step_cc t = true -> pend' = None /\ pos_rem (sy_m s') = occupied (sy_m s')) ->
  (dirty' = false -> Turns (sy_m s') rem' turns2 cur1 sends1 (g14_due g) /\
                     (if step_cc t then rem' = [] else rem' = pos_rem (sy_m s'))) ->
  exists g',
    (if negb (c14_consistent life' (cf_periphs c) (ts_obs t)) then inr 1406 else
     if step_cc t then
       if dirty' || forallb (fun a => existsb (Z.eqb a) turns2) (g14_due g)
       then inl (mkC14g life' hs' [] None (due_after c (ts_obs t)) 0 false)
       else inr 1404
     else inl (mkC14g life' hs' turns2 cur1 (g14_due g) sends1 dirty')) = inl g' /\
    Rel14 s' gs' pend' g'.
Proof.
  intros s' gs' pend' g life' hs' turns2 cur1 sends1 dirty' t rem' HB Hhs Hcc Hlife Hobs HP Hccp Hturns.
  pose proof HB as [I G].
  assert (Hcons : c14_consistent life' (cf_periphs c) (ts_obs t) = true).
  { apply c14_consistent_true. intros k pc o Hpc Ho. rewrite Hobs in Ho.
    destruct (obs_position c s' k (Some o) I Ho) as [E|(h & p & pc' & Hk & Hsl & Eo & Hpc' & (F1 & _))]; [discriminate E|].
    rewrite Hpc in Hpc'. inversion Hpc'; subst pc'. inversion Eo; subst o. cbn [ob_live ob_running observe_periph].
    pose proof (proj1 Hlife _ _ Hsl) as Hrl. unfold RL in Hrl. rewrite F1 in Hrl.
    unfold is_live, is_running. apply agree_b_public. exact Hrl. }
  rewrite Hcons. cbn [negb].
  destruct (step_cc t) eqn:Ecc.
  - destruct (Hccp eq_refl) as (Hpn & Hpr).
    assert (Hok : dirty' || forallb (fun a => existsb (Z.eqb a) turns2) (g14_due g) = true).
    { destruct dirty'; [reflexivity|]. cbn [orb]. destruct (Hturns eq_refl) as (HT & ->).
      apply forallb_forall. intros a Ha. apply existsb_in.
      destruct (tu_due _ _ _ _ _ _ HT a Ha) as [Hin|(i & p & Hi & _)]; [exact Hin|destruct Hi]. }
    rewrite Hok. eexists. split; [reflexivity|].
    split; [exact HB|]. cbn [g14_handles g14_life g14_cur g14_dirty g14_turns g14_sends g14_due].
    split; [exact Hhs|]. split; [exact Hcc|]. split; [exact Hlife|].
    split; [intros da E; rewrite Hpn in E; discriminate E|].
    intros _. apply turns_fresh; [exact Hpr|].
    intros a Ha. rewrite due_after_eq in Ha. destruct (due_go_in _ _ _ Ha) as (k & pc & o & Hpc & Ho & Hadr & Hlv & Hcm).
    rewrite Hobs in Ho.
    destruct (obs_position c s' k (Some o) I Ho) as [E|(h & p & pc' & Hk & Hsl & Eo & Hpc' & (F1 & F2 & _))]; [discriminate E|].
    rewrite Hpc in Hpc'. inversion Hpc'; subst pc'. inversion Eo; subst o. cbn [ob_live observe_periph] in Hlv.
    exists (hd_index h), p. split; [exact Hsl|]. split; [congruence|]. split; [exact Hlv|].
    unfold complete. rewrite F2. exact Hcm.
  - eexists. split; [reflexivity|].
    split; [exact HB|]. cbn [g14_handles g14_life g14_cur g14_dirty g14_turns g14_sends g14_due].
    split; [exact Hhs|]. split; [exact Hcc|]. split; [exact Hlife|]. split; [exact HP|].
    intros Hd. destruct (Hturns Hd) as (HT & ->). exact HT.
Qed.

(* slots that are the same or differ by a user write *)
Definition user_same (m m' : dpm) : Prop :=
  forall j, slot m' j = slot m j \/ exists p p', slot m j = Some p /\ slot m' j = Some p' /\ same_ctrl p p'.

Lemma turns_static : forall m m' rem turns cur sends due,
  Turns m rem turns cur sends due -> user_same m m' -> dm_cycle m' = dm_cycle m ->
  Turns m' rem turns cur sends due.
Proof.
  intros m m' rem turns cur sends due [T1 T2 T3 T4 T5 T6 T7] Hu Hcy.
  assert (Hfw : forall j p, slot m j = Some p -> exists p', slot m' j = Some p' /\ pe_addr p' = pe_addr p /\
            pe_state p' = pe_state p /\ pe_retry p' = pe_retry p /\ pe_opts p' = pe_opts p).
  { intros j p Hp. destruct (Hu j) as [E|(q & q' & Hq & Hq' & (Ha & Hs & Hr & _ & _ & _ & Ho & _))].
    - exists p. rewrite E. auto.
    - rewrite Hp in Hq. inversion Hq; subst q. exists q'. auto. }
  assert (Hbw : forall j p', slot m' j = Some p' -> exists p, slot m j = Some p).
  { intros j p' Hp'. destruct (Hu j) as [E|(q & q' & Hq & _)]; [exists p'; rewrite <- E; exact Hp'|exists q; exact Hq]. }
  constructor.
  - exact T1.
  - intros j Hj. destruct (T2 j Hj) as (p & Hp). destruct (Hfw _ _ Hp) as (p' & Hp' & _). exists p'. exact Hp'.
  - intros i j p' Hp' Hni Hj. destruct (Hbw _ _ Hp') as (p & Hp). apply (T3 i j p Hp Hni Hj).
  - intros a Ha. destruct (T4 a Ha) as (i & p & Hp & Hpa & Hor). destruct (Hfw _ _ Hp) as (p' & Hp' & Ea & _).
    exists i, p'. split; [exact Hp'|]. split; [congruence|exact Hor].
  - intros a Ha. destruct (T5 a Ha) as (i & r & p & Hr & Hp & Hpa & Hin & Hs).
    destruct (Hfw _ _ Hp) as (p' & Hp' & Ea & _ & Er & _). exists i, r, p'. rewrite Er. repeat split; auto. congruence.
  - intros a Ha. destruct (T6 a Ha) as [Hin|(i & p & Hi & Hp & Hpa & Hl & Hcm)]; [left; exact Hin|right].
    destruct (Hfw _ _ Hp) as (p' & Hp' & Ea & Es & _ & Eo). exists i, p'. split; [exact Hi|]. split; [exact Hp'|].
    split; [congruence|]. unfold is_live, complete in *. rewrite Es, Eo. auto.
  - rewrite Hcy. exact T7.
Qed.

Lemma per_ok_user_same : forall m gs m' gs' life,
  per_ok lstate LOff RL m gs life -> user_same m m' -> per_ok lstate LOff RL m' gs' life.
Proof.
  intros m gs m' gs' life Hl Hu.
  apply (per_ok_same _ _ _ m gs life m' gs' Hl).
  - intros j q' Hq'. destruct (Hu j) as [E|(p & p' & Hp & Hp' & (Ha & Hs & _))].
    + exists q'. rewrite <- E. split; [exact Hq'|]. split; [reflexivity|]. intros x Hx. exact Hx.
    + rewrite Hq' in Hp'. inversion Hp'; subst p'. exists p. split; [exact Hp|]. split; [exact Ha|].
      intros x Hx. unfold RL in *. rewrite Hs. exact Hx.
  - intros j q Hq. destruct (Hu j) as [E|(p & p' & Hp & Hp' & (Ha & _))].
    + exists q. rewrite E. auto.
    + rewrite Hq in Hp. inversion Hp; subst p. exists p'. auto.
Qed.

Lemma ccomp_static : forall m m', Ccomp m -> user_same m m' -> dm_cycle m' = dm_cycle m -> Ccomp m'.
Proof.
  intros m m' Hcc Hu Hcy E. rewrite Hcy in E. specialize (Hcc E). intro Hn. apply Hcc.
  destruct (occupied m) as [|j r] eqn:Eo; [reflexivity|]. exfalso.
  assert (Hj : In j (occupied m)) by (rewrite Eo; left; reflexivity).
  apply occupied_in_slot in Hj. destruct Hj as (p & Hp).
  assert (Hj' : exists p', slot m' j = Some p').
  { destruct (Hu j) as [E'|(q & q' & _ & Hq' & _)]; [exists p; rewrite E'; exact Hp|exists q'; exact Hq']. }
  apply occupied_in_slot in Hj'. rewrite Hn in Hj'. destruct Hj'.
Qed.

(* steps in which the slot scheduler does not run *)
Lemma c14_static : forall s gs pend g t s' gs' n,
  Rel14 s gs pend g -> Base c s' gs' (pend_next_v pend (view_of t)) ->
  sy_handles s' = sy_handles s -> (forall k, ts_in t <> InAdd k) ->
  user_same (sy_m s) (sy_m s') -> pos_rem (sy_m s') = pos_rem (sy_m s) -> dm_cycle (sy_m s') = dm_cycle (sy_m s) ->
  (view_of t = VOther \/ (exists a, view_of t = VTimeout a) \/ view_of t = VAbandon \/
   (exists h pdu, view_of t = VSdn h pdu) \/ (view_of t = VNoTx /\ ts_op t = OpStop)) ->
  step_event t = None -> step_cc t = false -> ts_obs t = observe s' ->
  match ts_out t with OutHang | OutPanic => False | _ => True end ->
  exists g', c14_step c g n t = inl g' /\ Rel14 s' gs' (pend_next_v pend (view_of t)) g'.
Proof.
  intros s gs pend g t s' gs' n (HB & Hh & Hcc & Hlife & HP & HT) HB' Hhs Hnadd Hus Hpr Hcy Hv Hev Hncc Hobs Hout.
  rewrite c14_step_eq.
  assert (Ehs : c14_hs g t = chs c s').
  { unfold c14_hs, chs. rewrite Hh, Hhs. unfold chs. destruct (ts_in t); try reflexivity. now elim (Hnadd k). }
  assert (Edirty : c14_dirty g t = g14_dirty g).
  { unfold c14_dirty. destruct (ts_in t); try reflexivity. now elim (Hnadd k). }
  assert (Er1 : c14_r1 (Z.to_nat (p_max_retry (cf_params c))) g (c14_hs g t) (c14_dirty g t) t =
                inl (g14_turns g, g14_cur g, g14_sends g)).
  { unfold c14_r1. destruct (c14_dirty g t);
      destruct Hv as [->|[(a & ->)|[->|[(h & pdu & ->)|(-> & Hop)]]]]; try rewrite Hop; reflexivity. }
  assert (Er2 : c14_r2 g (c14_hs g t) (g14_turns g) t = inl (g14_life g, g14_turns g)).
  { unfold c14_r2. rewrite Hev. reflexivity. }
  assert (Hpn : pend_next_v pend (view_of t) = pend \/ pend_next_v pend (view_of t) = None).
  { destruct Hv as [->|[(a & ->)|[->|[(h & pdu & ->)|(-> & _)]]]]; cbn; auto. }
  destruct (ts_out t) eqn:Eout; try contradiction; cbn zeta; rewrite Er1, Er2, Ehs, Edirty;
    (apply (c14_tail s' gs' _ g (g14_life g) (chs c s') (g14_turns g) (g14_cur g) (g14_sends g) (g14_dirty g) t (pos_rem (sy_m s')));
     [exact HB'|reflexivity|apply (ccomp_static (sy_m s)); assumption|apply (per_ok_user_same (sy_m s) gs); assumption|exact Hobs
     |intros da E; destruct Hpn as [Hpn|Hpn]; rewrite Hpn in E; [apply HP; exact E|discriminate E]
     |intro E; rewrite Hncc in E; discriminate E
     |intro Hd; split; [rewrite Hpr; apply (turns_static (sy_m s)); auto|rewrite Hncc; reflexivity]]).
Qed.

End C14.

(* PART 15: C14, how the turn bookkeeping moves when the slot scheduler runs *)

Section TurnMoves.
Variables (pa : params) (op : opstate).

Definition slots_fw (m m' : dpm) : Prop :=
  forall j p, slot m j = Some p -> exists p', slot m' j = Some p' /\ pe_addr p' = pe_addr p.
Definition slots_bw (m m' : dpm) : Prop :=
  forall j p', slot m' j = Some p' -> exists p, slot m j = Some p.

Lemma turns_struct : forall m m' vis rem' turns cur sends due,
  Turns m (vis ++ rem') turns cur sends due -> slots_fw m m' -> slots_bw m m' ->
  StronglySorted lt rem' /\ (forall j, In j rem' -> exists p', slot m' j = Some p') /\
  (forall i j p', slot m' i = Some p' -> ~ In i rem' -> In j rem' -> (i < j)%nat) /\
  (forall x y, In x vis -> In y rem' -> (x < y)%nat) /\ (forall x, In x vis -> ~ In x rem').
Proof.
  intros m m' vis rem' turns cur sends due T Hfw Hbw.
  destruct (sorted_app _ _ (tu_sorted _ _ _ _ _ _ T)) as (S1 & S2 & S3).
  split; [exact S1|]. split.
  - intros j Hj. destruct (tu_occ _ _ _ _ _ _ T j (in_or_app _ _ _ (or_intror Hj))) as (p & Hp).
    destruct (Hfw _ _ Hp) as (p' & Hp' & _). exists p'. exact Hp'.
  - split; [|split; [exact S2|exact S3]].
    intros i j p' Hp' Hni Hj. destruct (Hbw _ _ Hp') as (p & Hp).
    destruct (in_dec Nat.eq_dec i vis) as [Hiv|Hniv]; [apply S2; assumption|].
    apply (tu_done _ _ _ _ _ _ T i j p Hp); [|apply in_or_app; right; exact Hj].
    intro X. apply in_app_or in X. destruct X; contradiction.
Qed.

(* the head of the remaining list is visited first *)
Lemma head_in_vis : forall (vis rem' : list nat) i r, vis ++ rem' = i :: r -> vis <> [] -> In i vis.
Proof. intros [|v vis] rem' i r H Hne; [now elim Hne|]. cbn in H. inversion H. left; reflexivity. Qed.

Definition silent (m m' : dpm) (j : nat) : Prop :=
  exists q q', slot m j = Some q /\ slot m' j = Some q' /\ p_transmit pa op q = Ok (q', PtxSkip None).

(* nothing visible: zero or more silent turns *)
Lemma turns_tx_quiet : forall m m' vis rem' turns cur sends due,
  Turns m (vis ++ rem') turns cur sends due -> slots_fw m m' -> slots_bw m m' ->
  (forall j, In j vis -> silent m m' j) ->
  (forall j, ~ In j vis -> slot m' j = slot m j) ->
  (vis = [] -> dm_cycle m = CyCompleted \/ vis ++ rem' = []) ->
  dm_cycle m' <> CyCompleted ->
  Turns m' rem' turns None 0 due.
Proof.
  intros m m' vis rem' turns cur sends due T Hfw Hbw Hsil Hun Hnil Hncc.
  destruct (turns_struct _ _ _ _ _ _ _ _ T Hfw Hbw) as (S1 & S2 & S3 & S4 & S5).
  assert (Hcur : vis = [] -> cur = None).
  { intro E. destruct (Hnil E) as [Hc|Hc]; [apply (tu_comp _ _ _ _ _ _ T Hc)|].
    destruct cur as [a|]; [|reflexivity]. destruct (tu_t2 _ _ _ _ _ _ T a eq_refl) as (i & r & p & Hr & _).
    rewrite Hc in Hr. discriminate Hr. }
  constructor; [exact S1|exact S2|exact S3| | | |intro Ecc; now elim Hncc].
  - intros a Ha. destruct (tu_t1 _ _ _ _ _ _ T a Ha) as (i & p & Hp & Hpa & Hor).
    destruct (Hfw _ _ Hp) as (p' & Hp' & Ea). exists i, p'. split; [exact Hp'|]. split; [congruence|]. left.
    destruct Hor as [Hni|(r & Hr & Hc)].
    + intro X. apply Hni. apply in_or_app. right; exact X.
    + assert (Hvne : vis <> []) by (intro E; rewrite (Hcur E) in Hc; discriminate Hc).
      apply S5. apply (head_in_vis _ _ _ _ Hr Hvne).
  - intros a E. discriminate E.
  - intros a Ha. destruct (tu_due _ _ _ _ _ _ T a Ha) as [Hin|(i & p & Hi & Hp & Hpa & Hl & Hcm)]; [left; exact Hin|].
    apply in_app_or in Hi. destruct Hi as [Hi|Hi].
    + exfalso. destruct (Hsil _ Hi) as (q & q' & Hq & _ & Ht). rewrite Hp in Hq. inversion Hq; subst q.
      apply (live_complete_not_idle _ _ _ _ Ht Hl Hcm).
    + right. exists i, p. split; [exact Hi|]. split; [|auto]. rewrite Hun; [exact Hp|]. intro X. apply (S5 _ X Hi).
Qed.

(* the last visited slot raised Offline *)
Lemma turns_tx_off : forall m m' vis rem' turns cur sends due joff q q' turns',
  Turns m (vis ++ rem') turns cur sends due -> slots_fw m m' -> slots_bw m m' ->
  In joff vis -> slot m joff = Some q -> slot m' joff = Some q' -> pe_addr q' = pe_addr q ->
  (forall j, In j vis -> j = joff \/ silent m m' j) ->
  (forall j, ~ In j vis -> slot m' j = slot m j) ->
  In (pe_addr q) turns' -> (forall x, In x turns -> In x turns') -> (forall x, In x turns' -> x = pe_addr q \/ In x turns) ->
  dm_cycle m' <> CyCompleted ->
  Turns m' rem' turns' None 0 due.
Proof.
  intros m m' vis rem' turns cur sends due joff q q' turns' T Hfw Hbw Hjv Hq Hq' Ea Hsil Hun Hin Hsub Hsup Hncc.
  destruct (turns_struct _ _ _ _ _ _ _ _ T Hfw Hbw) as (S1 & S2 & S3 & S4 & S5).
  constructor; [exact S1|exact S2|exact S3| | | |intro Ecc; now elim Hncc].
  - intros a Ha. destruct (Hsup _ Ha) as [->|Ha'].
    + exists joff, q'. split; [exact Hq'|]. split; [exact Ea|]. left. apply S5. exact Hjv.
    + destruct (tu_t1 _ _ _ _ _ _ T a Ha') as (i & p & Hp & Hpa & Hor).
      destruct (Hfw _ _ Hp) as (p' & Hp' & Ea'). exists i, p'. split; [exact Hp'|]. split; [congruence|]. left.
      destruct Hor as [Hni|(r & Hr & Hc)].
      * intro X. apply Hni. apply in_or_app. right; exact X.
      * apply S5. apply (head_in_vis _ _ _ _ Hr). intro E. rewrite E in Hjv. destruct Hjv.
  - intros a E. discriminate E.
  - intros a Ha. destruct (tu_due _ _ _ _ _ _ T a Ha) as [Hi|(i & p & Hi & Hp & Hpa & Hl & Hcm)]; [left; apply Hsub; exact Hi|].
    apply in_app_or in Hi. destruct Hi as [Hi|Hi].
    + destruct (Hsil _ Hi) as [->|(q0 & q0' & Hq0 & _ & Ht)].
      * left. rewrite Hq in Hp. inversion Hp; subst p. rewrite <- Hpa. exact Hin.
      * exfalso. rewrite Hp in Hq0. inversion Hq0; subst q0. apply (live_complete_not_idle _ _ _ _ Ht Hl Hcm).
    + right. exists i, p. split; [exact Hi|]. split; [|auto]. rewrite Hun; [exact Hp|]. intro X. apply (S5 _ X Hi).
Qed.

(* a request from slot js, the head of what remains *)
Lemma turns_tx_send : forall m m' vis r js q q' h pdu turns cur sends due,
  Turns m (vis ++ js :: r) turns cur sends due -> slots_fw m m' -> slots_bw m m' -> addr_inj m ->
  slot m js = Some q -> slot m' js = Some q' -> p_transmit pa op q = Ok (q', PtxSend h pdu) -> 0 <= pe_retry q ->
  (forall j, In j vis -> silent m m' j) ->
  (forall j, ~ In j vis -> j <> js -> slot m' j = slot m j) ->
  dm_cycle m' <> CyCompleted ->
  (cur = Some (pe_addr q) -> vis = [] /\ Z.of_nat sends <= pe_retry q /\
     Turns m' (js :: r) turns (Some (pe_addr q)) (S sends) due) /\
  (cur <> Some (pe_addr q) ->
     ~ In (pe_addr q) turns /\
     (forall prev rest, turns = prev :: rest -> exists ip pp, slot m ip = Some pp /\ pe_addr pp = prev /\ (ip < js)%nat) /\
     Turns m' (js :: r) (pe_addr q :: turns) (Some (pe_addr q)) 1 due).
Proof.
  intros m m' vis r js q q' h pdu turns cur sends due T Hfw Hbw Hinj Hq Hq' Hp Hr0 Hsil Hun Hncc.
  destruct (turns_struct _ _ _ _ _ _ _ _ T Hfw Hbw) as (S1 & S2 & S3 & S4 & S5).
  pose proof (transmit_spec _ _ _ _ _ Hp) as Hts. cbn beta iota in Hts.
  destruct Hts as (_ & _ & _ & _ & _ & Hre & Hst).
  destruct (transmit_keeps _ _ _ _ _ Hp) as (Ea & _ & _ & Eo & _).
  assert (Hjs : In js (js :: r)) by (left; reflexivity).
  assert (Hlive : is_live q' = is_live q /\ complete q' = complete q) by (unfold is_live, complete; rewrite Hst, Eo; auto).
  (* obligations shared by both branches *)
  assert (Hdue : forall turns', (forall x, In x turns -> In x turns') -> In (pe_addr q) turns' ->
            forall a, In a due -> In a turns' \/
              exists i p, In i (js :: r) /\ slot m' i = Some p /\ pe_addr p = a /\ is_live p = true /\ complete p = true).
  { intros turns' Hsub Hin a Ha.
    destruct (tu_due _ _ _ _ _ _ T a Ha) as [Hi|(i & p & Hi & Hpp & Hpa & Hl & Hcm)]; [left; apply Hsub; exact Hi|].
    apply in_app_or in Hi. destruct Hi as [Hi|Hi].
    - exfalso. destruct (Hsil _ Hi) as (q0 & q0' & Hq0 & _ & Ht). rewrite Hpp in Hq0. inversion Hq0; subst q0.
      apply (live_complete_not_idle _ _ _ _ Ht Hl Hcm).
    - destruct (Nat.eq_dec i js) as [->|Hne].
      + left. rewrite Hq in Hpp. inversion Hpp; subst p. rewrite <- Hpa. exact Hin.
      + right. exists i, p. split; [exact Hi|]. split; [|auto]. rewrite Hun; [exact Hpp| |exact Hne]. intro X. apply (S5 _ X Hi). }
  split.
  - intro Hc. destruct (tu_t2 _ _ _ _ _ _ T _ Hc) as (i & r0 & p & Hr & Hpp & Hpa & Hin & Hs).
    assert (Ei : i = js) by (apply (Hinj i js p q Hpp Hq Hpa)). subst i. rewrite Hq in Hpp. inversion Hpp; subst p.
    assert (Ev : vis = []).
    { destruct vis as [|v vs]; [reflexivity|]. exfalso. cbn in Hr. inversion Hr; subst v.
      apply (S5 js); [left; reflexivity|exact Hjs]. }
    split; [exact Ev|]. split; [exact Hs|].
    constructor; [exact S1|exact S2|exact S3| | | |intro Ecc; now elim Hncc].
    + intros a Ha. destruct (tu_t1 _ _ _ _ _ _ T a Ha) as (i & p & Hpi & Hpa' & Hor).
      destruct (Hfw _ _ Hpi) as (p' & Hp' & Ea'). exists i, p'. split; [exact Hp'|]. split; [congruence|].
      destruct Hor as [Hni|(r1 & Hr1 & Hc1)].
      * left. intro X. apply Hni. apply in_or_app. right; exact X.
      * right. rewrite Ev in Hr1. cbn in Hr1. exists r. inversion Hr1; subst. split; [reflexivity|exact Hc1].
    + intros a E. inversion E; subst a. exists js, r, q'. split; [reflexivity|]. split; [exact Hq'|]. split; [exact Ea|].
      split; [exact Hin|]. rewrite Hre. lia.
    + apply Hdue; auto.
  - intro Hc.
    assert (Hnin : ~ In (pe_addr q) turns).
    { intro Ha. destruct (tu_t1 _ _ _ _ _ _ T _ Ha) as (i & p & Hpi & Hpa & Hor).
      assert (Ei : i = js) by (apply (Hinj i js p q Hpi Hq Hpa)). subst i.
      destruct Hor as [Hni|(r1 & _ & Hc1)]; [|contradiction].
      apply Hni. apply in_or_app. right. exact Hjs. }
    split; [exact Hnin|]. split.
    + intros prev rest Et. assert (Ha : In prev turns) by (rewrite Et; left; reflexivity).
      destruct (tu_t1 _ _ _ _ _ _ T _ Ha) as (i & p & Hpi & Hpa & Hor). exists i, p. split; [exact Hpi|]. split; [exact Hpa|].
      destruct Hor as [Hni|(r1 & Hr1 & Hc1)].
      * apply (tu_done _ _ _ _ _ _ T i js p Hpi Hni). apply in_or_app. right; exact Hjs.
      * assert (Hne : i <> js) by (intro E; subst i; rewrite Hq in Hpi; inversion Hpi; subst p; rewrite Hpa in Hc; contradiction).
        destruct vis as [|v vs].
        -- cbn in Hr1. inversion Hr1. exfalso. congruence.
        -- cbn in Hr1. inversion Hr1; subst v. apply S4; [left; reflexivity|exact Hjs].
    + constructor; [exact S1|exact S2|exact S3| | | |intro Ecc; now elim Hncc].
      * intros a [<-|Ha].
        -- exists js, q'. split; [exact Hq'|]. split; [exact Ea|]. right. exists r. auto.
        -- destruct (tu_t1 _ _ _ _ _ _ T a Ha) as (i & p & Hpi & Hpa & Hor).
           destruct (Hfw _ _ Hpi) as (p' & Hp' & Ea'). exists i, p'. split; [exact Hp'|]. split; [congruence|]. left.
           destruct Hor as [Hni|(r1 & Hr1 & Hc1)].
           ++ intro X. apply Hni. apply in_or_app. right; exact X.
           ++ assert (Hne : i <> js).
              { intro E; subst i. rewrite Hq in Hpi. inversion Hpi; subst p. rewrite Hpa in Hc. contradiction. }
              destruct vis as [|v vs].
              ** cbn in Hr1. inversion Hr1. exfalso. congruence.
              ** cbn in Hr1. inversion Hr1; subst v. apply S5. left; reflexivity.
      * intros a E. inversion E; subst a. exists js, r, q'. split; [reflexivity|]. split; [exact Hq'|]. split; [exact Ea|].
        split; [left; reflexivity|]. rewrite Hre. lia.
      * apply Hdue; [intros x Hx; right; exact Hx|left; reflexivity].
Qed.

(* the reply for the head ends its turn *)
Lemma turns_rx : forall m m' j r p p1 turns sends due,
  Turns m (j :: r) turns (Some (pe_addr p)) sends due -> slots_fw m m' -> slots_bw m m' ->
  slot m j = Some p -> slot m' j = Some p1 ->
  (forall i, i <> j -> slot m' i = slot m i) ->
  Turns m' r turns None 0 due.
Proof.
  intros m m' j r p p1 turns sends due T Hfw Hbw Hp Hp1 Hun.
  destruct (turns_struct m m' [j] r _ _ _ _ T Hfw Hbw) as (S1 & S2 & S3 & S4 & S5).
  assert (Hjr : ~ In j r) by (apply S5; left; reflexivity).
  constructor; [exact S1|exact S2|exact S3| | | |intros _; reflexivity].
  - intros a Ha. destruct (tu_t1 _ _ _ _ _ _ T a Ha) as (i & q & Hq & Hqa & Hor).
    destruct (Hfw _ _ Hq) as (q' & Hq' & Ea'). exists i, q'. split; [exact Hq'|]. split; [congruence|]. left.
    destruct Hor as [Hni|(r1 & Hr1 & _)].
    + intro X. apply Hni. right; exact X.
    + inversion Hr1; subst. exact Hjr.
  - intros a E. discriminate E.
  - intros a Ha. destruct (tu_due _ _ _ _ _ _ T a Ha) as [Hi|(i & q & Hi & Hq & Hqa & Hl & Hcm)]; [left; exact Hi|].
    destruct Hi as [<-|Hi].
    + left. rewrite Hp in Hq. inversion Hq; subst q. rewrite <- Hqa.
      destruct (tu_t2 _ _ _ _ _ _ T _ eq_refl) as (_ & _ & _ & _ & _ & _ & Hin & _). exact Hin.
    + right. exists i, q. split; [exact Hi|]. split; [|auto]. rewrite Hun; [exact Hq|]. intro E; subst i. contradiction.
Qed.

End TurnMoves.

(* PART 16: C14, a transmit call that runs the slot scheduler *)

Lemma cur_test : forall (cur : option Z) da,
  (match cur with Some a => a =? da | None => false end) = true <-> cur = Some da.
Proof.
  intros [a|] da; split; intro H; try discriminate H.
  - apply Z.eqb_eq in H. subst. reflexivity.
  - inversion H. apply Z.eqb_refl.
Qed.

Lemma RL_agree : forall pa a o p g l, RL p g l -> Inv pa a o p g -> agree l p.
Proof.
  intros pa a o p g l H I. split; [exact H|]. intro Hoff.
  rewrite (inv_retry _ _ _ _ _ I). apply (inv_probe _ _ _ _ _ I Hoff).
Qed.

Lemma RL_quiet : forall q g q' g' l, Quiet q g q' g' -> RL q g l -> RL q' g' l.
Proof. intros q g q' g' l HQ H. unfold RL in *. rewrite (qu_state _ _ _ _ HQ). exact H. Qed.

Lemma ltb_false_of_le : forall (a b : nat), (b <= a)%nat -> Nat.ltb a b = false.
Proof. intros a b H. apply Nat.ltb_ge. exact H. Qed.

Lemma c14_r2_event : forall (g : c14g) hs turns t a ev e i l',
  step_event t = Some (a, ev) -> ts_taken t = Some e -> ev_peripheral e = Some (mkHandle i a, ev) ->
  index_of_addr hs a = Some i -> l_step (alist_get LOff (g14_life g) a) ev = Some l' ->
  c14_r2 g hs turns t =
    inl (alist_set (g14_life g) a l',
         match ev with EvOffline => if existsb (Z.eqb a) turns then turns else a :: turns | _ => turns end).
Proof.
  intros g hs turns t a ev e i l' Hse Htk Hpe Hidx Hl. unfold c14_r2. rewrite Hse, Htk.
  destruct e as [ccf pe]. cbn [ev_peripheral] in Hpe. subst pe. rewrite Hidx. cbn [hd_index]. rewrite Nat.eqb_refl.
  cbn [negb]. rewrite Hl. reflexivity.
Qed.

Section C14b.
Variable c : conf.
Hypothesis Hc : conf_ok c.

Lemma c14_tx : forall s gs g now hp m1 o log n,
  Rel14 c s gs None g -> dm_op (sy_m s) <> OpStop ->
  tx_rel (cf_params c) (cf_bufsize c) (sy_m s) m1 o log ->
  SInv c (set_m s (set_events m1 events_default)) ->
  exists gs' g',
    c14_step c g n (mkStep (InTx now hp) false (OutTx o) (Some (dm_events m1))
                      (observe (set_m s (set_events m1 events_default))) (dm_op m1)) = inl g' /\
    Rel14 c (set_m s (set_events m1 events_default)) gs'
      (pend_next_v None (view_of (mkStep (InTx now hp) false (OutTx o) (Some (dm_events m1))
                                    (observe (set_m s (set_events m1 events_default))) (dm_op m1)))) g'.
Proof.
  intros s gs g now hp m1 o log n (HB & Hh & Hcc & Hlife & HP & HT) Hop Hrel I'.
  set (s' := set_m s (set_events m1 events_default)) in *.
  set (t := mkStep (InTx now hp) false (OutTx o) (Some (dm_events m1)) (observe s') (dm_op m1)).
  destruct HB as [I G]. pose proof (co_retry _ Hc) as Hmax.
  destruct (tx_rel_ghost _ _ _ _ _ _ Hmax Hrel gs G) as (gs' & v & G' & Hmk & Hop' & Hslots & Hvis).
  destruct (tx_rel_cycle _ _ _ _ _ _ Hrel Hcc) as (rem' & Hte & _ & Hncc & Hpost).
  destruct (tx_rel_visit _ _ _ _ _ _ Hrel rem' Hte) as (vis & Hpos & V1 & V5 & V3 & V4 & V6 & V7).
  exists gs'.
  pose proof (sinv_addr_inj c s Hc I) as Hinj. pose proof (sinv_addr_inj c s' Hc I') as Hinj'.
  assert (Hsl' : forall j, slot (sy_m s') j = slot m1 j) by reflexivity.
  assert (Hfw : slots_fw (sy_m s) (sy_m s')).
  { intros j p Hp. destruct (Hslots _ _ Hp) as (p' & Hp' & Hpost'). exists p'. split; [exact Hp'|].
    apply (slot_post_shape _ _ _ _ _ _ _ _ Hpost'). }
  assert (Hbw : slots_bw (sy_m s) (sy_m s')) by (intros j p' Hp'; apply (mask_slot_back (sy_m s) m1 j p' Hmk Hp')).
  assert (Hcc' : Ccomp (sy_m s')) by (intro E; now elim Hncc).
  assert (Hncc' : dm_cycle (sy_m s') <> CyCompleted) by exact Hncc.
  assert (Hstepcc : step_cc t = ev_cycle_completed (dm_events m1)) by reflexivity.
  assert (Hrem : if step_cc t then rem' = [] else rem' = pos_rem (sy_m s')).
  { rewrite Hstepcc. destruct (ev_cycle_completed (dm_events m1)); [apply Hpost|symmetry; apply Hpost]. }
  assert (Hccocc : step_cc t = true -> o = None /\ pos_rem (sy_m s') = occupied (sy_m s')).
  { rewrite Hstepcc. intro E. rewrite E in Hpost. destruct Hpost as (Hr' & Hpr). split; [|exact Hpr].
    destruct o as [x|]; [|reflexivity]. destruct (V5 ltac:(discriminate)) as (js & r & _ & _ & _ & _ & Er & _).
    rewrite Hr' in Er. discriminate Er. }
  assert (Hhs : c14_hs g t = chs c s') by (unfold c14_hs; cbn; exact Hh).
  assert (Hdirty : c14_dirty g t = g14_dirty g) by reflexivity.
  assert (Hopt : ts_op t <> OpStop) by (cbn; rewrite Hop'; exact Hop).
  rewrite Hpos in HT.
  rewrite c14_step_eq. cbn [ts_out t]. cbn zeta. rewrite Hhs, Hdirty.
  destruct v as [|i h pdu|i].
  - (* nothing visible *)
    destruct Hvis as (Ho & Hev). subst o.
    assert (Hv : view_of t = VNoTx) by reflexivity.
    assert (Hse : step_event t = None) by (unfold step_event; cbn; rewrite Hev; reflexivity).
    assert (Hr1 : c14_r1 (Z.to_nat (p_max_retry (cf_params c))) g (chs c s') (g14_dirty g) t =
                  inl (g14_turns g, (if g14_dirty g then g14_cur g else None), (if g14_dirty g then g14_sends g else 0%nat))).
    { unfold c14_r1. rewrite Hv. destruct (g14_dirty g); [reflexivity|].
      destruct (ts_op t) eqn:E; [now elim Hopt|reflexivity|reflexivity]. }
    rewrite Hr1. unfold c14_r2. rewrite Hse.
    apply (c14_tail c s' gs' _ g (g14_life g) (chs c s') (g14_turns g) _ _ (g14_dirty g) t rem').
    + rewrite Hv. split; [exact I'|]. apply (ginv_frame _ m1); [reflexivity|reflexivity|exact G'].
    + reflexivity.
    + exact Hcc'.
    + apply (per_ok_same _ _ _ (sy_m s) gs (g14_life g) (sy_m s') gs' Hlife); [|exact Hfw].
      intros j q' Hq'. destruct (Hbw _ _ Hq') as (q & Hq). destruct (Hslots _ _ Hq) as (q2 & Hq2 & HQ).
      rewrite Hsl' in Hq'. rewrite Hq' in Hq2. inversion Hq2; subst q2. cbn [slot_post] in HQ. exists q.
      split; [exact Hq|]. split; [apply (qu_addr _ _ _ _ HQ)|]. intros x Hx. eapply RL_quiet; eassumption.
    + reflexivity.
    + rewrite Hv. intros da E. discriminate E.
    + intro E. destruct (Hccocc E) as (_ & Hx). rewrite Hv. auto.
    + intro Hd. rewrite Hd. split; [|exact Hrem].
      apply (turns_tx_quiet (cf_params c) (dm_op (sy_m s)) (sy_m s) (sy_m s') vis rem' _ (g14_cur g) (g14_sends g)); auto.
      * intros j Hj. destruct (V4 Hev _ Hj) as (q & q' & H1 & H2 & H3). exists q, q'. auto.
      * intros j Hj. rewrite Hsl'. apply (V3 eq_refl _ Hj).
      * intros E. rewrite <- Hpos. apply (V6 E eq_refl).
  - (* a request *)
    destruct Hvis as (w & q & Ho & Henc & Hev & Hcur & Hq). subst o.
    destruct (Hslots _ _ Hq) as (q' & Hq' & Hpost'). cbn [slot_post] in Hpost'. rewrite Nat.eqb_refl in Hpost'.
    destruct Hpost' as (q1 & g1 & HQ & I1 & Hp & Hg' & Hreq).
    destruct (slot_handle c s i q I Hq) as (k & _ & pc & _ & _ & Hpc & Hfit).
    assert (Hfit1 : fits pc q1).
    { destruct Hfit as (F1 & F2 & F3 & F4). unfold fits.
      rewrite (qu_addr _ _ _ _ HQ), (qu_opts _ _ _ _ HQ), (qu_pi_i _ _ _ _ HQ), (qu_pi_q _ _ _ _ HQ). auto. }
    destruct (req_wire c pc _ _ _ _ _ _ _ (co_limits _ Hc) (co_own _ Hc) (ex_intro _ k Hpc) Hfit1 Hp Henc)
      as (Hdec & f & rq & Hfc).
    assert (Hv : view_of t = VReq (h_da h) (classify h) h pdu) by (eapply view_tx_req; [exact Hdec|exact Hfc]).
    pose proof Hreq as (f0 & Hstd & _). destruct (std_request_classify _ _ _ _ _ _ _ Hstd) as (_ & Hda & _).
    assert (Hse : step_event t = None) by (unfold step_event; cbn; rewrite Hev; reflexivity).
    (* not the end of the pass; the sender is the head of what remains *)
    destruct (V5 ltac:(discriminate)) as (js & r & qs & qs' & h2 & pdu2 & Erem & Hqs & Hqs' & Hps & Hoth & _).
    assert (Encc : step_cc t = false).
    { destruct (step_cc t) eqn:E; [|reflexivity]. destruct (Hccocc eq_refl) as (X & _). discriminate X. }
    rewrite Encc in Hrem.
    assert (Eij : i = js).
    { apply (cur_is_fun m1); [exact Hcur|]. exists r. change (pos_rem m1) with (pos_rem (sy_m s')). rewrite <- Hrem. exact Erem. }
    subst js. rewrite Hq in Hqs. inversion Hqs; subst qs. rewrite Hq' in Hqs'. inversion Hqs'; subst qs'.
    assert (Haq' : pe_addr q' = pe_addr q) by (destruct (transmit_keeps _ _ _ _ _ Hps) as (E & _); exact E).
    assert (Hidx : index_of_addr (chs c s') (h_da h) = Some i).
    { rewrite Hda, <- Haq'. apply (slot_index_of_addr c Hc s' i q' I'). exact Hq'. }
    pose proof (transmit_spec _ _ _ _ _ Hps) as Hts. cbn beta iota in Hts. destruct Hts as (Hex & _ & _ & _ & _ & Hre & Hst).
    unfold dp_retry_exhausted in Hex. apply Z.ltb_ge in Hex.
    pose proof (gi_inv _ _ _ _ G _ _ Hq) as Iq.
    assert (Hr0 : 0 <= pe_retry q) by (rewrite (inv_retry _ _ _ _ _ Iq); apply (inv_bound _ _ _ _ _ Iq)).
    rewrite Erem in HT.
    assert (Hsend := fun Hd : g14_dirty g = false =>
      turns_tx_send (cf_params c) (dm_op (sy_m s)) (sy_m s) (sy_m s') vis r i q q' h2 pdu2 _ _ _ _
        (HT Hd) Hfw Hbw Hinj Hq Hq' Hps Hr0
        (V4 Hev)
        (fun j Hj Hne => eq_trans (Hsl' j) (Hoth j Hj Hne)) Hncc').
    (* the turn bookkeeping of the monitor *)
    assert (Hr1 : exists turns1 sends1,
              c14_r1 (Z.to_nat (p_max_retry (cf_params c))) g (chs c s') (g14_dirty g) t =
                inl (turns1, Some (h_da h), sends1) /\
              (g14_dirty g = true -> turns1 = g14_turns g) /\
              (g14_dirty g = false -> Turns (sy_m s') (i :: r) turns1 (Some (h_da h)) sends1 (g14_due g))).
    { unfold c14_r1. rewrite Hv. destruct (g14_dirty g) eqn:Ed.
      - eexists; eexists. split; [reflexivity|]. split; [reflexivity|intro X; discriminate X].
      - rewrite Hidx. destruct (Hsend eq_refl) as (Hretx & Hnew). rewrite Hda in *.
        destruct (match g14_cur g with Some a => a =? pe_addr q | None => false end) eqn:Ecur.
        + apply cur_test in Ecur. destruct (Hretx Ecur) as (_ & Hs & HT').
          rewrite ltb_false_of_le by lia.
          eexists; eexists. split; [reflexivity|]. split; [intro X; discriminate X|intros _; exact HT'].
        + assert (Hncur : g14_cur g <> Some (pe_addr q)).
          { intro E. apply cur_test in E. rewrite E in Ecur. discriminate Ecur. }
          destruct (Hnew Hncur) as (Hnin & Hord & HT').
          assert (Hex0 : existsb (Z.eqb (pe_addr q)) (g14_turns g) = false).
          { destruct (existsb (Z.eqb (pe_addr q)) (g14_turns g)) eqn:E; [|reflexivity].
            apply existsb_in_iff in E. contradiction. }
          rewrite Hex0.
          assert (Hio : match g14_turns g with
                        | [] => true
                        | prev :: _ => match index_of_addr (chs c s') prev with Some px => Nat.ltb px i | None => true end
                        end = true).
          { destruct (g14_turns g) as [|prev rest] eqn:Et; [reflexivity|].
            destruct (Hord prev rest eq_refl) as (ip & pp & Hpp & Hpa & Hlt).
            destruct (Hfw _ _ Hpp) as (pp' & Hpp' & Ea).
            rewrite <- Hpa, <- Ea. unfold chs. rewrite (slot_index_of_addr c Hc s' ip pp' I' Hpp'). apply Nat.ltb_lt. exact Hlt. }
          rewrite Hio.
          eexists; eexists. split; [reflexivity|]. split; [intro X; discriminate X|intros _; exact HT']. }
    destruct Hr1 as (turns1 & sends1 & -> & Hdt & Hnt).
    unfold c14_r2. rewrite Hse.
    apply (c14_tail c s' gs' _ g (g14_life g) (chs c s') turns1 _ _ (g14_dirty g) t (i :: r)).
    + rewrite Hv. split; [exact I'|]. apply (ginv_frame _ m1); [reflexivity|reflexivity|exact G'].
    + reflexivity.
    + exact Hcc'.
    + apply (per_ok_same _ _ _ (sy_m s) gs (g14_life g) (sy_m s') gs' Hlife); [|exact Hfw].
      * intros j q0' Hq0'. destruct (Hbw _ _ Hq0') as (q0 & Hq0). destruct (Hslots _ _ Hq0) as (q2 & Hq2 & HQ2).
        rewrite Hsl' in Hq0'. rewrite Hq0' in Hq2. inversion Hq2; subst q2.
        pose proof (slot_post_shape _ _ _ _ _ _ _ _ HQ2) as (Ea0 & _). cbn [slot_post] in HQ2. exists q0.
        split; [exact Hq0|]. split; [exact Ea0|].
        destruct (Nat.eqb_spec j i) as [->|Hne].
        -- destruct HQ2 as (q3 & g3 & HQ3 & _ & Hp3 & _). intros x Hx. unfold RL in *.
           pose proof (transmit_spec _ _ _ _ _ Hp3) as Hts3. cbn beta iota in Hts3.
           destruct Hts3 as (_ & _ & _ & _ & _ & _ & Hst3). rewrite Hst3, (qu_state _ _ _ _ HQ3). exact Hx.
        -- intros x Hx. eapply RL_quiet; eassumption.
    + reflexivity.
    + rewrite Hv. intros da E. inversion E. reflexivity.
    + intro E. rewrite Encc in E. discriminate E.
    + intro Hd. split; [apply Hnt; exact Hd|]. rewrite Encc. rewrite <- Erem. exact Hrem.
  - (* the Offline event *)
    destruct Hvis as (Ho & q & Hq & Hev). subst o.
    destruct (Hslots _ _ Hq) as (q' & Hq' & Hpost'). cbn [slot_post] in Hpost'. rewrite Nat.eqb_refl in Hpost'.
    destruct Hpost' as (q1 & g1 & HQ & I1 & Hp & Hg' & Hok).
    assert (Hv : view_of t = VNoTx) by reflexivity.
    assert (Hse : step_event t = Some (pe_addr q, EvOffline)) by (unfold step_event; cbn; rewrite Hev; reflexivity).
    assert (Haq' : pe_addr q' = pe_addr q).
    { destruct (transmit_keeps _ _ _ _ _ Hp) as (E & _). rewrite E. apply (qu_addr _ _ _ _ HQ). }
    assert (Hr1 : c14_r1 (Z.to_nat (p_max_retry (cf_params c))) g (chs c s') (g14_dirty g) t =
                  inl (g14_turns g, (if g14_dirty g then g14_cur g else None), (if g14_dirty g then g14_sends g else 0%nat))).
    { unfold c14_r1. rewrite Hv. destruct (g14_dirty g); [reflexivity|].
      destruct (ts_op t) eqn:E; [now elim Hopt|reflexivity|reflexivity]. }
    rewrite Hr1.
    pose proof (proj1 Hlife _ _ Hq) as Hrl.
    assert (Hag : agree (alist_get LOff (g14_life g) (pe_addr q)) q1).
    { eapply RL_agree; [eapply RL_quiet; eassumption|exact I1]. }
    pose proof (tx_agree _ _ _ _ _ _ Hmax Hag Hp) as Hta. cbn beta iota in Hta. destruct Hta as (l' & Hl & Hag').
    assert (Hidx : index_of_addr (chs c s') (pe_addr q) = Some i).
    { rewrite <- Haq'. apply (slot_index_of_addr c Hc s' i q' I'). exact Hq'. }
    rewrite (c14_r2_event g (chs c s') (g14_turns g) t (pe_addr q) EvOffline (dm_events m1) i l' Hse eq_refl Hev Hidx Hl).
    set (turns2 := if existsb (Z.eqb (pe_addr q)) (g14_turns g) then g14_turns g else pe_addr q :: g14_turns g).
    assert (Ht2 : In (pe_addr q) turns2 /\ (forall x, In x (g14_turns g) -> In x turns2) /\
                  (forall x, In x turns2 -> x = pe_addr q \/ In x (g14_turns g))).
    { unfold turns2. destruct (existsb (Z.eqb (pe_addr q)) (g14_turns g)) eqn:E.
      - apply existsb_in_iff in E. split; [exact E|]. split; [auto|]. intros x Hx. right; exact Hx.
      - split; [left; reflexivity|]. split; [intros x Hx; right; exact Hx|]. intros x [<-|Hx]; auto. }
    destruct Ht2 as (T2a & T2b & T2c).
    assert (Hiv : In i vis) by (apply (V7 _ _ Hev)).
    apply (c14_tail c s' gs' _ g (alist_set (g14_life g) (pe_addr q) l') (chs c s') turns2 _ _ (g14_dirty g) t rem').
    + rewrite Hv. split; [exact I'|]. apply (ginv_frame _ m1); [reflexivity|reflexivity|exact G'].
    + reflexivity.
    + exact Hcc'.
    + apply (per_ok_set _ _ _ (sy_m s) gs (g14_life g) (sy_m s') gs' i (pe_addr q) l' Hlife Hinj); [|exact Hfw|exists q; auto].
      intros j q0' Hq0'. destruct (Hbw _ _ Hq0') as (q0 & Hq0). destruct (Hslots _ _ Hq0) as (q2 & Hq2 & HQ2).
      rewrite Hsl' in Hq0'. rewrite Hq0' in Hq2. inversion Hq2; subst q2.
      pose proof (slot_post_shape _ _ _ _ _ _ _ _ HQ2) as (Ea0 & _). cbn [slot_post] in HQ2. exists q0.
      split; [exact Hq0|]. split; [exact Ea0|]. split.
      * intros Hne x Hx. destruct (Nat.eqb_spec j i); [contradiction|]. eapply RL_quiet; eassumption.
      * intros ->. rewrite Hq in Hq0. inversion Hq0; subst q0. rewrite Hq' in Hq0'. inversion Hq0'; subst q0'.
        split; [apply Hag'|reflexivity].
    + reflexivity.
    + rewrite Hv. intros da E. discriminate E.
    + intro E. destruct (Hccocc E) as (_ & Hx). rewrite Hv. auto.
    + intro Hd. rewrite Hd. split; [|exact Hrem].
      apply (turns_tx_off (cf_params c) (dm_op (sy_m s)) (sy_m s) (sy_m s') vis rem' (g14_turns g) (g14_cur g) (g14_sends g)
               (g14_due g) i q q' turns2); auto.
      * intros j Hj. destruct (V1 _ Hj) as (q0 & q0' & ev0 & H1 & H2 & H3 & [->|(-> & H4)]).
        -- right. exists q0, q0'. auto.
        -- left. rewrite Hev in H4. inversion H4. reflexivity.
      * intros j Hj. rewrite Hsl'. apply (V3 eq_refl _ Hj).
Qed.


End C14b.

(* PART 17: C14_oracle_sound *)

Section C14c.
Variable c : conf.
Hypothesis Hc : conf_ok c.

(* receive_reply: the turn of the current slot ends *)
Lemma c14_rx : forall s gs g now addr wire tg m1 n,
  Rel14 c s gs (Some addr) g ->
  decode wire = Ok (Accept tg (length wire)) -> dp_receive_reply (sy_m s) addr tg = Ok m1 ->
  SInv c (set_m s (set_events m1 events_default)) ->
  exists gs' g',
    c14_step c g n (mkStep (InRx now addr wire) false OutUnit (Some (dm_events m1))
                      (observe (set_m s (set_events m1 events_default))) (dm_op m1)) = inl g' /\
    Rel14 c (set_m s (set_events m1 events_default)) gs' None g'.
Proof.
  intros s gs g now addr wire tg m1 n (HB & Hh & Hcc & Hlife & HP & HT) Hdec Hrx I'.
  set (s' := set_m s (set_events m1 events_default)) in *.
  set (t := mkStep (InRx now addr wire) false OutUnit (Some (dm_events m1)) (observe s') (dm_op m1)).
  destruct HB as [I G]. pose proof (co_retry _ Hc) as Hmax.
  rewrite <- dp_receive_reply_erase in Hrx.
  destruct (dp_receive_reply_g (sy_m s) addr tg) as [[m1' log]| |] eqn:Hg; cbn [drop_log] in Hrx; try discriminate Hrx.
  inversion Hrx; subst m1'. clear Hrx.
  destruct (rx_ghost _ _ _ _ _ _ _ _ Hmax G Hg) as
    (i & p & p1 & ev & cc & _ & Hcur & Hsl & Ha & _ & Hp & Hsl' & Hoth & Hmk & Hev & Hop' & Ii & Hout & G' & r & Hr & Hcyc).
  exists (gupd gs i (gstep (gs i) (WReply tg ev))).
  pose proof (sinv_addr_inj c s Hc I) as Hinj.
  assert (Hsls : forall j, slot (sy_m s') j = slot m1 j) by reflexivity.
  assert (Hap : pe_addr p1 = pe_addr p) by (apply (receive_facts _ _ _ _ Hp)).
  assert (Hfw : slots_fw (sy_m s) (sy_m s')).
  { intros j q Hq. destruct (Nat.eq_dec j i) as [->|Hne].
    - rewrite Hsl in Hq. inversion Hq; subst q. exists p1. split; [rewrite Hsls; exact Hsl'|exact Hap].
    - exists q. rewrite Hsls, Hoth by exact Hne. auto. }
  assert (Hbw : slots_bw (sy_m s) (sy_m s')) by (intros j q' Hq'; apply (mask_slot_back (sy_m s) m1 j q' Hmk Hq')).
  assert (Hv : view_of t = VReply addr tg) by (eapply view_rx; exact Hdec).
  assert (Hse : step_event t = option_map (fun e => (addr, e)) ev).
  { unfold step_event. cbn [ts_taken t]. rewrite Hev. cbn [ev_peripheral]. destruct ev; reflexivity. }
  assert (Hstepcc : step_cc t = cc) by (unfold step_cc; cbn [ts_taken t]; rewrite Hev; reflexivity).
  assert (Hcc' : Ccomp (sy_m s')).
  { intros _ Hn. assert (X : In i (occupied (sy_m s'))) by (apply occupied_in_slot; exists p1; rewrite Hsls; exact Hsl').
    rewrite Hn in X. destruct X. }
  assert (Hhs : c14_hs g t = chs c s') by (unfold c14_hs; cbn; exact Hh).
  assert (Hdirty : c14_dirty g t = g14_dirty g) by reflexivity.
  rewrite c14_step_eq. cbn [ts_out t]. cbn zeta. rewrite Hhs, Hdirty.
  assert (Hr1 : c14_r1 (Z.to_nat (p_max_retry (cf_params c))) g (chs c s') (g14_dirty g) t =
                inl (g14_turns g, None, 0%nat)).
  { unfold c14_r1. rewrite Hv. destruct (g14_dirty g); reflexivity. }
  rewrite Hr1.
  (* the event *)
  pose proof (proj1 Hlife _ _ Hsl) as Hrl. rewrite Ha in Hrl.
  assert (Hag : agree (alist_get LOff (g14_life g) addr) p) by (eapply RL_agree; [exact Hrl|exact Ii]).
  pose proof (rx_agree _ _ _ _ _ Hag Hp) as Hra.
  destruct (receive_reply_outcome _ _ _ _ Hp) as (Hal & _ & _). pose proof (rx_off _ _ _ Hal) as Hoff.
  assert (Hidx : index_of_addr (chs c s') addr = Some i).
  { rewrite <- Ha, <- Hap. apply (slot_index_of_addr c Hc s' i p1 I'). rewrite Hsls. exact Hsl'. }
  assert (Hr2 : exists life', c14_r2 g (chs c s') (g14_turns g) t = inl (life', g14_turns g) /\
                  per_ok lstate LOff RL (sy_m s') (gupd gs i (gstep (gs i) (WReply tg ev))) life').
  { destruct ev as [e|].
    - destruct Hra as (l' & Hl & Hag').
      exists (alist_set (g14_life g) addr l'). split.
      + rewrite (c14_r2_event g (chs c s') (g14_turns g) t addr e (dm_events m1) i l' Hse eq_refl); auto.
        * destruct e; try reflexivity. cbn beta iota in Hoff. contradiction.
        * rewrite Hev. reflexivity.
      + apply (per_ok_set _ _ _ (sy_m s) gs (g14_life g) (sy_m s') _ i addr l' Hlife Hinj); [|exact Hfw|exists p; auto].
        intros j q' Hq'. rewrite Hsls in Hq'. destruct (Nat.eq_dec j i) as [->|Hne].
        * rewrite Hsl' in Hq'. inversion Hq'; subst q'. exists p. split; [exact Hsl|]. split; [exact Hap|].
          split; [intro X; now elim X|]. intros _. split; [apply Hag'|exact Ha].
        * rewrite Hoth in Hq' by exact Hne. exists q'. split; [exact Hq'|]. split; [reflexivity|].
          split; [intros _ x Hx; exact Hx|intro X; contradiction].
    - exists (g14_life g). split; [unfold c14_r2; rewrite Hse; reflexivity|].
      apply (per_ok_same _ _ _ (sy_m s) gs (g14_life g) (sy_m s') _ Hlife); [|exact Hfw].
      intros j q' Hq'. rewrite Hsls in Hq'. destruct (Nat.eq_dec j i) as [->|Hne].
      + rewrite Hsl' in Hq'. inversion Hq'; subst q'. exists p. split; [exact Hsl|]. split; [exact Hap|].
        intros x Hx. unfold RL in *. apply (rx_allowed_life x (pe_state p) None (pe_state p1) Hx Hal).
      + rewrite Hoth in Hq' by exact Hne. exists q'. split; [exact Hq'|]. split; [reflexivity|]. intros x Hx; exact Hx. }
  destruct Hr2 as (life' & -> & Hlife').
  assert (Haddr : addr = pe_addr p) by (symmetry; exact Ha).
  apply (c14_tail c s' _ None g life' (chs c s') (g14_turns g) None 0%nat (g14_dirty g) t r).
  - split; [exact I'|]. apply (ginv_frame _ m1); [reflexivity|reflexivity|exact G'].
  - reflexivity.
  - exact Hcc'.
  - exact Hlife'.
  - reflexivity.
  - intros da E. discriminate E.
  - rewrite Hstepcc. intro E. rewrite E in Hcyc. destruct Hcyc as (Hcm & _). split; [reflexivity|].
    unfold pos_rem. change (dm_cycle (sy_m s')) with (dm_cycle m1). rewrite Hcm. reflexivity.
  - intro Hd. split.
    + specialize (HT Hd). rewrite Hr in HT. rewrite (HP addr eq_refl), Haddr in HT.
      apply (turns_rx (sy_m s) (sy_m s') i r p p1 _ _ _ HT Hfw Hbw Hsl); [rewrite Hsls; exact Hsl'|].
      intros j Hne. rewrite Hsls. apply Hoth. exact Hne.
    + rewrite Hstepcc. destruct cc; [apply Hcyc|]. destruct Hcyc as (_ & Hx & _). symmetry. exact Hx.
Qed.


Lemma user_same_put : forall m i p p', slot m i = Some p -> same_ctrl p p' ->
  user_same m (set_slots m (put_slot (dm_slots m) i p')).
Proof.
  intros m i p p' Hs Hsc j. destruct (Nat.eq_dec j i) as [->|Hne].
  - right. exists p, p'. split; [exact Hs|]. split; [apply (slot_put_same _ _ p' _ Hs)|exact Hsc].
  - left. apply slot_put_other. intro E; apply Hne; symmetry; exact E.
Qed.

Lemma user_same_refl : forall m m', (forall j, slot m' j = slot m j) -> user_same m m'.
Proof. intros m m' H j. left. apply H. Qed.

Lemma c14_sound_step : forall s gs pend g i t s' n,
  Rel14 c s gs pend g -> model_step s i = Ok (s', t) ->
  head_ok (p_address (cf_params c)) (sy_handles s) pend t -> is_reset_in i = false ->
  exists gs' g', c14_step c g n t = inl g' /\
                 Rel14 c s' gs' (pend_next_v pend (view_of t)) g' /\ sy_handles s' = hs_next (sy_handles s) t.
Proof.
  intros s gs pend g i t s' n HR Hstep Hhead Hnri.
  pose proof HR as (HB & Hh & Hcc & Hlife & HP & HT).
  destruct (model_trans c Hc s gs pend i t s' HB Hstep Hhead Hnri) as (gs' & HB' & Hhs & Hti & Hto & Htop & Hopk & HTr).
  pose proof HB as [I G]. pose proof HB' as [I' G'].
  pose proof Hhead as (Hbad & Hview & _).
  pose proof (co_auto _ Hc) as Hauto.
  (* every step that does not run the scheduler goes through c14_static *)
  assert (Hstatic : forall (Hnadd : forall k, ts_in t <> InAdd k),
            sy_handles s' = sy_handles s -> user_same (sy_m s) (sy_m s') ->
            pos_rem (sy_m s') = pos_rem (sy_m s) -> dm_cycle (sy_m s') = dm_cycle (sy_m s) ->
            (view_of t = VOther \/ (exists a, view_of t = VTimeout a) \/ view_of t = VAbandon \/
             (exists h pdu, view_of t = VSdn h pdu) \/ (view_of t = VNoTx /\ ts_op t = OpStop)) ->
            step_event t = None -> step_cc t = false ->
            match ts_out t with OutHang | OutPanic => False | _ => True end ->
            exists gs' g', c14_step c g n t = inl g' /\
              Rel14 c s' gs' (pend_next_v pend (view_of t)) g' /\ sy_handles s' = hs_next (sy_handles s) t).
  { intros Hnadd H1 H2 H3 H4 H5 H6 H7 H8.
    destruct (c14_static c s gs pend g t s' gs' n HR HB' H1 Hnadd H2 H3 H4 H5 H6 H7 Hto H8) as (g' & Hg1 & Hg2).
    exists gs', g'. auto. }
  destruct i as [now hp|now addr wire|now addr| |k|k q|st| |k|k wire|k|k si rd sd dp f1 f2 ext ident| |k a].
  - (* transmit_telegram *)
    destruct (step_tx c s now hp s' t I Hauto Hstep) as (m1 & o & Htx & -> & ->).
    pose proof (tx_view_pend _ _ _ _ _ _ _ _ _ Hhead) as Hp. subst pend.
    rewrite <- dp_transmit_erase in Htx.
    destruct (dp_transmit_g (cf_params c) (cf_bufsize c) (sy_m s) now hp) as [[[m1' o'] log]| |] eqn:Hg;
      cbn [drop_log] in Htx; try discriminate Htx. inversion Htx; subst m1' o'. clear Htx.
    destruct (dp_transmit_g_cases _ _ _ _ _ _ _ _ Hg) as
      [(Hop & Hm & -> & _)|[(Hop & _ & _ & Hm & _ & b & w & _ & Hsd & ->)|(Hop & _ & Hrel)]].
    + apply Hstatic; cbn [ts_in ts_out ts_op sy_m set_m sy_handles];
        [intros k E; discriminate E|reflexivity|apply user_same_refl; rewrite Hm; reflexivity
        |rewrite Hm; reflexivity|rewrite Hm; reflexivity
        |right; right; right; right; split; [reflexivity|rewrite Hm; exact Hop]
        |unfold step_event; cbn; rewrite Hm; reflexivity|unfold step_cc; cbn; rewrite Hm; reflexivity|exact Logic.I].
    + pose proof (gc_wire c _ _ _ (co_limits _ Hc) (co_own _ Hc) Hsd) as Hdec.
      apply Hstatic; cbn [ts_in ts_out ts_op sy_m set_m sy_handles];
        [intros k E; discriminate E|reflexivity|apply user_same_refl; rewrite Hm; reflexivity
        |rewrite Hm; reflexivity|rewrite Hm; reflexivity
        |right; right; right; left; eexists; eexists; eapply view_tx_sdn; [exact Hdec|reflexivity]
        |unfold step_event; cbn; rewrite Hm; reflexivity|unfold step_cc; cbn; rewrite Hm; reflexivity|exact Logic.I].
    + destruct (c14_tx c Hc s gs g now hp m1 o log n HR Hop Hrel I') as (gs2 & g' & Hg1 & Hg2).
      exists gs2, g'. split; [exact Hg1|]. split; [exact Hg2|exact Hhs].
  - (* receive_reply *)
    destruct (step_rx c s now addr wire s' t I Hauto Hstep Hbad) as (tg & m1 & Hdec & Hrx & -> & ->).
    assert (Hv : forall tk obs op, view_of (mkStep (InRx now addr wire) false OutUnit tk obs op) = VReply addr tg)
      by (intros; eapply view_rx; exact Hdec).
    rewrite Hv in Hview. destruct Hview as (-> & _).
    destruct (c14_rx s gs g now addr wire tg m1 n HR Hdec Hrx I') as (gs2 & g' & Hg1 & Hg2).
    exists gs2, g'. split; [exact Hg1|]. rewrite Hv. cbn [pend_next_v]. split; [exact Hg2|exact Hhs].
  - (* handle_timeout *)
    destruct (step_to c s now addr s' t I Hauto Hstep) as (-> & ->).
    apply Hstatic; cbn [ts_in ts_out ts_op sy_m set_m sy_handles];
      [intros k E; discriminate E|reflexivity|apply user_same_refl; reflexivity|reflexivity|reflexivity
      |right; left; exists addr; reflexivity|reflexivity|reflexivity|exact Logic.I].
  - (* request dropped *)
    destruct (step_env s InAbandon s' t eq_refl Hstep) as (Hcf & Hm & Hhh & o & -> & Ho).
    apply Hstatic; cbn [ts_in ts_out ts_op sy_m set_m sy_handles];
      [intros k E; discriminate E|exact Hhh|apply user_same_refl; rewrite Hm; reflexivity
      |rewrite Hm; reflexivity|rewrite Hm; reflexivity
      |right; right; left; reflexivity|reflexivity|reflexivity|destruct o; try contradiction; exact Logic.I].
  - (* request_diagnostics *)
    destruct (step_reqdiag s k s' t Hstep Hbad) as (h & m1 & Hhk & Hu & -> & ->).
    destruct (reqdiag_upd _ _ _ Hu) as (p & Hsl & -> & Hsc).
    apply Hstatic; cbn [ts_in ts_out ts_op sy_m set_m sy_handles];
      [intros k0 E; discriminate E|reflexivity|apply (user_same_put _ _ p); assumption
      |apply pos_rem_user; exists (hd_index h), p, (p_request_diagnostics p); auto|reflexivity
      |left; reflexivity|reflexivity|reflexivity|exact Logic.I].
  - (* pi_q write *)
    destruct (step_writeq s k q s' t Hstep Hbad) as (h & m1 & Hhk & Hu & -> & ->).
    destruct (writeq_upd _ _ _ _ Hu) as (p & Hsl & -> & Hsc).
    apply Hstatic; cbn [ts_in ts_out ts_op sy_m set_m sy_handles];
      [intros k0 E; discriminate E|reflexivity|apply (user_same_put _ _ p); assumption
      |apply pos_rem_user; exists (hd_index h), p, (set_pi_q p q); auto|reflexivity
      |left; reflexivity|reflexivity|reflexivity|exact Logic.I].
  - (* enter_state *)
    destruct (step_enter s st s' t Hstep) as (-> & o & Ho & ->).
    apply Hstatic; cbn [ts_in ts_out ts_op sy_m set_m sy_handles];
      [intros k0 E; discriminate E|reflexivity|apply user_same_refl; reflexivity|reflexivity|reflexivity
      |left; destruct Ho as [-> | ->]; reflexivity|reflexivity|reflexivity|destruct Ho as [-> | ->]; exact Logic.I].
  - (* take_last_events *)
    destruct (step_take c s s' t I Hstep) as (-> & ->).
    apply Hstatic; cbn [ts_in ts_out ts_op sy_m set_m sy_handles];
      [intros k0 E; discriminate E|reflexivity|apply user_same_refl; reflexivity|reflexivity|reflexivity
      |left; reflexivity|reflexivity|reflexivity|exact Logic.I].
  - (* add *)
    destruct (step_add s k s' t Hstep Hbad) as (pc0 & m1 & h & Hpc0 & Hdadd & -> & ->).
    destruct HTr as
      [Hv Hev Hin Hq
      |j h0 pdu q q1 g1 q' Hpn Hv Hev Hin
      |j q q1 g1 q' Hpn Hv Hev Hin
      |j a tg ev p p1 now w Hpn Hv Hev Hin
      |j a p Hpn Hv Hev Hin
      |j k0 p p' Hv Hev Hsl Hsl' Hsc Hg' Hk Hin
      |k0 j pc Hpn Hin Hv Hev Hpc Hnone Hout Hfree Hnew Hoth Hg' Hfresh];
      cbn [ts_in] in Hin; try contradiction;
      try (destruct Hin as (nw & hp & Hin); discriminate Hin); try discriminate Hin;
      try (destruct Hin as [(Hin & _)|(qq & Hin & _)]; discriminate Hin).
    subst pend. inversion Hin; subst k0. cbn [ts_out] in Hout. inversion Hout; subst h.
    exists gs'. rewrite c14_step_eq. cbn [ts_out]. cbn zeta.
    assert (Ehs : c14_hs g (mkStep (InAdd k) false (OutHandle (mkHandle j (pc_addr pc))) None
                           (observe (mkSys (sy_conf s) m1 (set_nth (sy_handles s) k (Some (mkHandle j (pc_addr pc)))) (sy_slaves s)))
                           (dm_op m1)) = set_nth (chs c s) k (Some (mkHandle j (pc_addr pc))))
      by (unfold c14_hs; cbn; rewrite Hh; reflexivity).
    rewrite Ehs.
    match goal with |- context [c14_r1 ?mr g ?hs ?d ?tt] =>
      assert (Er1 : c14_r1 mr g hs d tt = inl (g14_turns g, g14_cur g, g14_sends g)) by reflexivity;
      assert (Er2 : c14_r2 g hs (g14_turns g) tt = inl (g14_life g, g14_turns g)) by reflexivity
    end.
    rewrite Er1, Er2.
    destruct (dp_add_post _ _ _ _ Hdadd) as (_ & _ & _ & _ & _ & _ & A3 & _).
    match goal with |- exists g', ?X = inl g' /\ _ =>
      destruct (c14_tail c _ gs' None g (g14_life g) (set_nth (chs c s) k (Some (mkHandle j (pc_addr pc))))
                  (g14_turns g) (g14_cur g) (g14_sends g) true
                  (mkStep (InAdd k) false (OutHandle (mkHandle j (pc_addr pc))) None
                     (observe (mkSys (sy_conf s) m1 (set_nth (sy_handles s) k (Some (mkHandle j (pc_addr pc)))) (sy_slaves s)))
                     (dm_op m1)) [] HB') as (g' & Hg1 & Hg2)
    end.
    + unfold chs. cbn [sy_handles]. symmetry. apply cur_hs_set_nth. exact Hpc.
    + cbn [sy_m]. intros E Hn. rewrite A3 in E. specialize (Hcc E).
      destruct (occupied (sy_m s)) as [|j0 r0] eqn:Eo; [now elim Hcc|].
      assert (Hj0 : In j0 (occupied (sy_m s))) by (rewrite Eo; left; reflexivity).
      apply occupied_in_slot in Hj0. destruct Hj0 as (p0 & Hp0).
      assert (Hne : j0 <> j) by (intro X; subst j0; rewrite Hfree in Hp0; discriminate Hp0).
      assert (X : In j0 (occupied m1)) by (apply occupied_in_slot; exists p0; cbn [sy_m] in Hoth; rewrite Hoth by exact Hne; exact Hp0).
      rewrite Hn in X. destruct X.
    + cbn [sy_m] in *. rewrite Hg'. apply (per_ok_add _ _ _ (sy_m s) gs (g14_life g) m1 j (periph_of_conf pc)); auto.
      reflexivity.
    + reflexivity.
    + intros da E. discriminate E.
    + intro E. discriminate E.
    + intro E. discriminate E.
    + exists g'. split; [exact Hg1|]. split; [exact Hg2|exact Hhs].
  - destruct (step_env s (InSlave k wire) s' t eq_refl Hstep) as (Hcf & Hm & Hhh & o & -> & Ho).
    apply Hstatic; cbn [ts_in ts_out ts_op sy_m set_m sy_handles];
      [intros k0 E; discriminate E|exact Hhh|apply user_same_refl; rewrite Hm; reflexivity
      |rewrite Hm; reflexivity|rewrite Hm; reflexivity
      |left; destruct o; try contradiction; reflexivity|reflexivity|reflexivity
      |destruct o; try contradiction; exact Logic.I].
  - destruct (step_env s (InPower k) s' t eq_refl Hstep) as (Hcf & Hm & Hhh & o & -> & Ho).
    apply Hstatic; cbn [ts_in ts_out ts_op sy_m set_m sy_handles];
      [intros k0 E; discriminate E|exact Hhh|apply user_same_refl; rewrite Hm; reflexivity
      |rewrite Hm; reflexivity|rewrite Hm; reflexivity
      |left; destruct o; try contradiction; reflexivity|reflexivity|reflexivity
      |destruct o; try contradiction; exact Logic.I].
  - destruct (step_env s (InSlaveSet k si rd sd dp f1 f2 ext ident) s' t eq_refl Hstep) as (Hcf & Hm & Hhh & o & -> & Ho).
    apply Hstatic; cbn [ts_in ts_out ts_op sy_m set_m sy_handles];
      [intros k0 E; discriminate E|exact Hhh|apply user_same_refl; rewrite Hm; reflexivity
      |rewrite Hm; reflexivity|rewrite Hm; reflexivity
      |left; destruct o; try contradiction; reflexivity|reflexivity|reflexivity
      |destruct o; try contradiction; exact Logic.I].
  - destruct (step_env s InClean s' t eq_refl Hstep) as (Hcf & Hm & Hhh & o & -> & Ho).
    apply Hstatic; cbn [ts_in ts_out ts_op sy_m set_m sy_handles];
      [intros k0 E; discriminate E|exact Hhh|apply user_same_refl; rewrite Hm; reflexivity
      |rewrite Hm; reflexivity|rewrite Hm; reflexivity
      |left; destruct o; try contradiction; reflexivity|reflexivity|reflexivity
      |destruct o; try contradiction; exact Logic.I].
  - (* reset_address: handled separately *)
    discriminate Hnri.
Qed.


End C14c.


(* PART 18: the hypotheses of the soundness theorems are satisfiable: a computed history *)

(* two peripherals (7 is added at set-up, 9 later by add()), max_retry_limit 1; the history has a global control
   broadcast, bring-up requests, an accepted diagnostics reply (Online, the cycle completes), take_last_events,
   a time-out with retransmission, a request dropped by the FDL, user calls, add() between requests, the Offline
   event after 1 + 1 transmissions, probes of both peripherals, a completed cycle, a reply that is not accepted
   and two environment steps *)
Definition ex_pa : params := mkParams 2 B19200 100 32436 10 126 1 11 None.
Definition ex_opts : poptions := mkOpts 4660 false false 0 100 false (Some [170]) (Some [17]).
Definition ex_conf : conf :=
  mkConf ex_pa 256 2 false true
    [mkPconf None false 7 ex_opts 1 1 0; mkPconf None true 9 ex_opts 0 0 0]
    [slave_new 7 4660 [17] 1 1].
Definition ex_diag : bytes :=
  frame_spec (mkHeader 2 7 (Some 62) (Some 60) (FcResponse RsSlave StDataLow)) [0; 0; 0; 2; 18; 52].
Definition ex_ins : list tr_in :=
  [InEnter OpOperate; InTx 0 false; InTx 10 false; InRx 20 7 ex_diag; InTake; InTx 30 false; InTx 35 false; InTo 40 7;
   InTx 50 false; InAbandon; InReqDiag 0; InWriteQ 0 [5]; InAdd 1; InTx 60 false; InTx 70 false; InTo 80 9; InTx 90 false;
   InTx 100 false; InRx 110 7 [229]; InTx 120 false; InSlave 0 [229]; InClean].

Lemma ex_conf_ok : conf_ok ex_conf.
Proof.
  constructor; try reflexivity.
  - unfold ex_conf, ex_pa. cbn. lia.
  - intros k pc i Hk Hs. destruct k as [|[|k]]; cbn in Hk; try (destruct k; discriminate Hk);
      inversion Hk; subst pc; discriminate Hs.
Qed.

Lemma oracle_sound_example :
  conf_ok ex_conf /\
  exists s0 s' tr, init_sys ex_conf = Ok s0 /\ model_run s0 ex_ins = Ok (s', tr) /\
    no_reset ex_ins = true /\ contract_ok ex_conf tr = true /\ driver_ok (sy_handles s0) tr = true /\ length tr = 22%nat /\
    map step_event tr = [None; None; None; Some (7, EvOnline); None; None; None; None; None; None; None; None; None;
                         Some (7, EvOffline); None; None; None; None; None; None; None; None] /\
    map step_cc tr = [false; false; false; true; false; false; false; false; false; false; false; false; false; false;
                      false; false; true; false; false; false; false; false].
Proof.
  split; [exact ex_conf_ok|].
  destruct (init_sys ex_conf) as [s0| |] eqn:E0; try (vm_compute in E0; discriminate E0).
  destruct (model_run s0 ex_ins) as [[s' tr]| |] eqn:E1.
  - exists s0, s', tr. split; [reflexivity|]. split; [exact E1|].
    vm_compute in E0. inversion E0; subst s0. vm_compute in E1. inversion E1; subst tr.
    repeat split; vm_compute; reflexivity.
  - exfalso. vm_compute in E0. inversion E0; subst s0. vm_compute in E1. discriminate E1.
  - exfalso. vm_compute in E0. inversion E0; subst s0. vm_compute in E1. discriminate E1.
Qed.

(* PART 20: reset_address on the model side *)

(* ------------------------------------------------------------------ the configuration in force *)

Lemma nth_set_addr : forall c k a k',
  nth_error (cf_periphs (conf_set_addr c k a)) k' =
  if Nat.eqb k' k then option_map (fun p => pconf_set_addr p a) (nth_error (cf_periphs c) k)
  else nth_error (cf_periphs c) k'.
Proof.
  intros c k a k'. unfold conf_set_addr. cbn [cf_periphs].
  destruct (nth_error (cf_periphs c) k) as [pc|] eqn:Hk.
  - assert (Hlt : (k < length (cf_periphs c))%nat) by (apply nth_error_Some; rewrite Hk; discriminate).
    destruct (Nat.eqb_spec k' k) as [->|Hne].
    + rewrite set_nth_same by exact Hlt. reflexivity.
    + apply set_nth_other. exact Hne.
  - destruct (Nat.eqb_spec k' k) as [->|Hne]; [exact Hk|reflexivity].
Qed.

Lemma len_set_addr : forall c k a, length (cf_periphs (conf_set_addr c k a)) = length (cf_periphs c).
Proof.
  intros c k a. unfold conf_set_addr. cbn [cf_periphs].
  destruct (nth_error (cf_periphs c) k); [apply set_nth_length|reflexivity].
Qed.

Lemma conf_ok_set_addr : forall c k a,
  conf_ok c -> conf_sane (conf_set_addr c k a) = true -> 0 <= a <= 125 -> conf_ok (conf_set_addr c k a).
Proof.
  intros c k a Hc Hs Ha. constructor.
  - exact (co_auto _ Hc).
  - exact Hs.
  - pose proof (co_limits _ Hc) as Hl. unfold conf_within_limits in *.
    apply andb_true_iff in Hl. destruct Hl as [H1 H2]. apply andb_true_iff. split; [exact H1|].
    rewrite forallb_forall in *. intros x Hx. apply In_nth_error in Hx. destruct Hx as (k' & Hk').
    rewrite nth_set_addr in Hk'. destruct (Nat.eqb k' k).
    + destruct (nth_error (cf_periphs c) k) as [pc|] eqn:Hk; [|discriminate Hk']. inversion Hk'; subst x.
      specialize (H2 pc (nth_error_In _ _ Hk)).
      repeat (apply andb_true_iff in H2; let X := fresh "X" in destruct H2 as [H2 X]).
      cbn [pconf_set_addr pc_addr pc_in pc_out pc_opts]. rewrite X, X0, X1, X2.
      replace (0 <=? a) with true by (symmetry; apply Z.leb_le; lia).
      replace (a <=? 125) with true by (symmetry; apply Z.leb_le; lia). reflexivity.
    + apply H2. apply (nth_error_In _ _ Hk').
  - exact (co_retry _ Hc).
  - exact (co_own _ Hc).
  - intros k1 pc1 i H1 Hsl. rewrite nth_set_addr in H1.
    assert (Hbase : forall k2 pc2, nth_error (cf_periphs (conf_set_addr c k a)) k2 = Some pc2 ->
              exists pc0, nth_error (cf_periphs c) k2 = Some pc0 /\ pc_slot pc0 = pc_slot pc2).
    { intros k2 pc2 H. rewrite nth_set_addr in H. destruct (Nat.eqb_spec k2 k) as [->|Hne].
      - destruct (nth_error (cf_periphs c) k) as [pc0|]; [|discriminate H]. inversion H; subst pc2.
        exists pc0. split; reflexivity.
      - exists pc2. split; [exact H|reflexivity]. }
    assert (H1' : nth_error (cf_periphs (conf_set_addr c k a)) k1 = Some pc1) by (rewrite nth_set_addr; exact H1).
    destruct (Hbase _ _ H1') as (pc0 & Hpc0 & Es). rewrite <- Es in Hsl.
    destruct (co_placed _ Hc k1 pc0 i Hpc0 Hsl) as (Hlt & Hu). split; [exact Hlt|].
    intros k' pc' Hk' Hs'. destruct (Hbase _ _ Hk') as (pc0' & Hpc0' & Es'). rewrite <- Es' in Hs'.
    apply (Hu k' pc0' Hpc0' Hs').
Qed.

Lemma ra_sane_head : forall c l, ra_sane c l = true -> conf_sane c = true.
Proof. intros c [|t r] H; cbn [ra_sane] in H; [exact H|]. apply andb_true_iff in H. exact (proj1 H). Qed.

(* ------------------------------------------------------------------ the guards on reset_address steps *)

(* a reset_address step: the new address is a station address (0..125) and no reply of that peripheral is
   outstanding (DpOracle.known_reset_while_pending, F22) *)
Fixpoint reset_guard (c : conf) (pend : option Z) (l : list tstep) : bool :=
  match l with
  | [] => true
  | s :: r =>
      match reset_of c s with
      | Some (k, old, a) =>
          (0 <=? a) && (a <=? 125) &&
          negb (match pend with Some da => da =? old | None => false end) &&
          reset_guard (conf_set_addr c k a) pend r
      | None => reset_guard c (pend_next_v pend (view_of s)) r
      end
  end.

(* ------------------------------------------------------------------ the step of the model *)

Lemma step_reset : forall s k a s' t,
  model_step s (InResetAddr k a) = Ok (s', t) -> is_bad (ts_out t) = false ->
  exists h p, nth_error (sy_handles s) k = Some (Some h) /\ slot (sy_m s) (hd_index h) = Some p /\
    s' = set_m s (set_slots (sy_m s) (put_slot (dm_slots (sy_m s)) (hd_index h) (p_reset_address p a))) /\
    t = mkStep (InResetAddr k a) false OutUnit None (observe s') (dm_op (sy_m s)).
Proof.
  intros s k a s' t H Hb. unfold model_step in H. cbn [run_in] in H. unfold handle_of in H.
  destruct (nth_error (sy_handles s) k) as [[h|]|] eqn:Hh;
    try (cbn [bind] in H; inversion H; subst t; discriminate Hb).
  unfold dp_reset_address, dp_update in H.
  destruct (dp_get_mut (sy_m s) h) as [p| |] eqn:Hg; cbn [bind] in H; try discriminate H.
  rewrite auto_take_other in H by reflexivity. cbn [fst snd taken_of] in H. inversion H; subst s' t.
  exists h, p. split; [reflexivity|]. split; [apply dp_get_mut_slot; exact Hg|]. split; reflexivity.
Qed.

Lemma reset_inv : forall pa p a, 0 <= p_max_retry pa ->
  Inv pa a (pe_opts p) (p_reset_address p a) ghost0.
Proof.
  intros. constructor; cbn; try reflexivity; try lia; try discriminate; auto; intros; try lia; try discriminate;
    try contradiction.
Qed.

Section Reset.
Variable c : conf.
Hypothesis Hc : conf_ok c.

(* what a reset_address step does to the system and to the invariants *)
Lemma reset_trans : forall s gs pend k a s' t,
  Base c s gs pend -> model_step s (InResetAddr k a) = Ok (s', t) -> is_bad (ts_out t) = false ->
  exists h pc p,
    nth_error (sy_handles s) k = Some (Some h) /\ nth_error (cf_periphs c) k = Some pc /\
    slot (sy_m s) (hd_index h) = Some p /\ fits pc p /\
    reset_of c t = Some (k, pc_addr pc, a) /\
    sy_handles s' = sy_handles s /\
    t = mkStep (InResetAddr k a) false OutUnit None (observe s') (dm_op (sy_m s')) /\
    slot (sy_m s') (hd_index h) = Some (p_reset_address p a) /\
    (forall j, j <> hd_index h -> slot (sy_m s') j = slot (sy_m s) j) /\
    pos_rem (sy_m s') = pos_rem (sy_m s) /\ dm_cycle (sy_m s') = dm_cycle (sy_m s) /\
    dm_op (sy_m s') = dm_op (sy_m s) /\
    (conf_ok (conf_set_addr c k a) -> pend <> Some (pc_addr pc) ->
     Base (conf_set_addr c k a) s' (gupd gs (hd_index h) ghost0) pend).
Proof.
  intros s gs pend k a s' t [I G] Hstep Hb.
  destruct (step_reset _ _ _ _ _ Hstep Hb) as (h & p & Hk & Hsl & Es & Et).
  destruct (si_h _ _ I _ _ Hk) as (pc & p0 & Hpc & Hsl0 & Hfit). rewrite Hsl in Hsl0. inversion Hsl0; subst p0.
  remember (hd_index h) as i eqn:Ei.
  assert (Hslots : forall j, slot (sy_m s') j = if Nat.eqb j i then Some (p_reset_address p a) else slot (sy_m s) j).
  { intro j. rewrite Es. cbn [sy_m set_m]. destruct (Nat.eqb_spec j i) as [->|Hne].
    - apply (slot_put_same _ _ _ _ Hsl).
    - apply slot_put_other. intro E; apply Hne; symmetry; exact E. }
  assert (Hhs : sy_handles s' = sy_handles s) by (rewrite Es; reflexivity).
  assert (Hpr : pos_rem (sy_m s') = pos_rem (sy_m s)).
  { rewrite Es. cbn [sy_m set_m]. apply pos_rem_mask; [apply (mask_put _ _ _ _ Hsl)|reflexivity]. }
  assert (Hop : dm_op (sy_m s') = dm_op (sy_m s)) by (rewrite Es; reflexivity).
  exists h, pc, p. rewrite <- Ei. split; [exact Hk|]. split; [exact Hpc|]. split; [exact Hsl|]. split; [exact Hfit|].
  split; [rewrite Et; unfold reset_of, conf_addr; cbn [ts_in ts_out]; rewrite Hpc; reflexivity|].
  split; [exact Hhs|]. split; [rewrite Hop; exact Et|].
  split; [rewrite Hslots, Nat.eqb_refl; reflexivity|].
  split; [intros j Hne; rewrite Hslots; destruct (Nat.eqb_spec j i); [contradiction|reflexivity]|].
  split; [exact Hpr|]. split; [rewrite Es; reflexivity|]. split; [exact Hop|].
  intros Hc' Hpend. split.
  - (* SInv *)
    constructor.
    + destruct (si_conf _ _ I) as (E1 & E2 & E3 & E4). rewrite Es. cbn [sy_conf set_m].
      unfold conf_like. rewrite len_set_addr. unfold conf_set_addr. cbn [cf_params cf_bufsize cf_autotake]. auto.
    + rewrite Hhs, len_set_addr. exact (si_len _ _ I).
    + rewrite Es. cbn [sy_m set_m dm_events set_slots]. exact (si_events _ _ I).
    + intros k' h' Hk'. rewrite Hhs in Hk'. rewrite nth_set_addr. destruct (Nat.eqb_spec k' k) as [->|Hne].
      * rewrite Hk in Hk'. inversion Hk'; subst h'. rewrite Hpc. cbn [option_map].
        exists (pconf_set_addr pc a), (p_reset_address p a). split; [reflexivity|].
        split; [rewrite <- Ei, Hslots, Nat.eqb_refl; reflexivity|].
        destruct Hfit as (F1 & F2 & F3 & F4). unfold fits. cbn. auto.
      * destruct (si_h _ _ I _ _ Hk') as (pc' & p' & Hpc' & Hs' & Hf'). exists pc', p'.
        split; [exact Hpc'|]. split; [|exact Hf']. rewrite Hslots.
        destruct (Nat.eqb_spec (hd_index h') i) as [E|_]; [|exact Hs'].
        exfalso. apply Hne. apply (handle_index_unique c Hc s k' k h' h I Hk' Hk). congruence.
    + intros j q Hq. rewrite Hhs. rewrite Hslots in Hq. destruct (Nat.eqb_spec j i) as [->|Hne].
      * exists k, h. split; [exact Hk|symmetry; exact Ei].
      * apply (si_s _ _ I _ _ Hq).
    + intros k' Hk'. rewrite Hhs in Hk'. rewrite nth_set_addr. destruct (Nat.eqb_spec k' k) as [->|Hne].
      * rewrite Hk in Hk'. discriminate Hk'.
      * rewrite Es. cbn [sy_conf set_m]. apply (si_late _ _ I). exact Hk'.
  - (* GInv *)
    assert (Epa : cf_params (conf_set_addr c k a) = cf_params c) by reflexivity. rewrite Epa.
    destruct G as [G1 G2 G3]. constructor.
    + intros j q Hq. rewrite Hslots in Hq. unfold gupd. destruct (Nat.eqb_spec j i) as [->|Hne].
      * inversion Hq; subst q. cbn [pe_addr pe_opts p_reset_address]. apply reset_inv.
        pose proof (co_retry _ Hc). lia.
      * apply G1. exact Hq.
    + intros j q Hq Ho. rewrite Hslots in Hq. unfold gupd in Ho. destruct (Nat.eqb_spec j i) as [->|Hne].
      * discriminate Ho.
      * unfold cur_is. rewrite Hpr. apply (G2 j q Hq Ho).
    + intros da E. destruct (G3 da E) as (j & q & Hcur & Hq & Ha & Ho).
      assert (Hne : j <> i).
      { intro X. subst j. rewrite Hsl in Hq. inversion Hq; subst q. apply Hpend. rewrite E. f_equal.
        rewrite <- Ha. exact (proj1 Hfit). }
      exists j, q. unfold cur_is. rewrite Hpr. split; [exact Hcur|].
      split; [rewrite Hslots; destruct (Nat.eqb_spec j i); [contradiction|exact Hq]|].
      split; [exact Ha|]. rewrite gupd_other by exact Hne. exact Ho.
Qed.

End Reset.

(* ------------------------------------------------------------------ per-address monitor states at a reset *)

Section PerAddrReset.
Variable A : Type.
Variable d : A.
Variable Rp : periph -> ghost -> A -> Prop.

Lemma per_ok_reset : forall m gs per m' i p p' old a,
  addr_inj m -> slot m i = Some p -> pe_addr p = old -> slot m' i = Some p' -> pe_addr p' = a ->
  (forall j, j <> i -> slot m' j = slot m j) ->
  (forall j q, j <> i -> slot m j = Some q -> pe_addr q <> a) ->
  Rp p' ghost0 d ->
  per_ok A d Rp m gs per -> per_ok A d Rp m' (gupd gs i ghost0) (alist_set (alist_set per old d) a d).
Proof.
  intros m gs per m' i p p' old a Hinj Hp Hold Hp' Ha Hoth Hfree Hr [H1 H2]. split.
  - intros j q Hq. unfold gupd. destruct (Nat.eqb_spec j i) as [->|Hne].
    + rewrite Hp' in Hq. inversion Hq; subst q. rewrite Ha, alist_get_set_same. exact Hr.
    + rewrite Hoth in Hq by exact Hne.
      rewrite alist_get_set_other by (apply (Hfree j q Hne Hq)).
      rewrite alist_get_set_other.
      * apply H1. exact Hq.
      * intro E. apply Hne. apply (Hinj _ _ _ _ Hq Hp). congruence.
  - intros x Hx.
    assert (Hxa : x <> a) by (intro E; apply (Hx i p' Hp'); congruence).
    rewrite alist_get_set_other by exact Hxa.
    destruct (Z.eq_dec x old) as [->|Hxo]; [apply alist_get_set_same|].
    rewrite alist_get_set_other by exact Hxo. apply H2.
    intros j q Hq. destruct (Nat.eq_dec j i) as [->|Hne].
    + rewrite Hp in Hq. inversion Hq; subst q. congruence.
    + apply (Hx j). rewrite Hoth by exact Hne. exact Hq.
Qed.

End PerAddrReset.

(* the outstanding request is not the one of the reset peripheral *)
Lemma pend_link_reset : forall m gs pend op m' i p p' g0,
  addr_inj m' -> slot m i = Some p -> slot m' i = Some p' ->
  (forall j, j <> i -> slot m' j = slot m j) ->
  pend <> Some (pe_addr p) ->
  (forall da, pend = Some da -> exists j q, slot m j = Some q /\ pe_addr q = da) ->
  pend_link m gs pend op -> pend_link m' (gupd gs i g0) pend op.
Proof.
  intros m gs pend op m' i p p' g0 Hinj Hp Hp' Hoth Hne Hex H.
  destruct pend as [da|], op as [[da' sv]|]; try contradiction; [|exact Logic.I].
  destruct H as (-> & H). split; [reflexivity|].
  destruct (Hex da eq_refl) as (j & q & Hq & Hqa).
  assert (Hji : j <> i) by (intro X; subst j; rewrite Hp in Hq; inversion Hq; subst q; apply Hne; congruence).
  assert (Hq' : slot m' j = Some q) by (rewrite Hoth by exact Hji; exact Hq).
  intros i0 p0 Hp0 Ha0.
  assert (i0 = j) by (apply (Hinj _ _ _ _ Hp0 Hq'); congruence). subst i0.
  rewrite gupd_other by exact Hji. apply (H j q Hq Hqa).
Qed.

(* PART 21: transcripts with reset_address: the generic induction; C08 and C03 *)

Lemma reset_of_none : forall c t, is_reset_in (ts_in t) = false -> reset_of c t = None.
Proof. intros c t H. unfold reset_of. destruct (ts_in t); try reflexivity. discriminate H. Qed.

Lemma reset_view : forall t k a, ts_in t = InResetAddr k a -> view_of t = VOther.
Proof. intros t k a H. unfold view_of. rewrite H. reflexivity. Qed.

Section GenericRa.
Variable St : Type.
Variable ostep : conf -> St -> nat -> tstep -> St + Z.
Variable ostep_ra : conf * St -> nat -> tstep -> (conf * St) + Z.
Variable R : conf -> sys -> gmap -> option Z -> St -> Prop.
Variable P : conf -> Prop.

Hypothesis HP : forall c k a, P c -> P (conf_set_addr c k a).
Hypothesis Hwrap : forall c g n t, P c -> reset_of c t = None ->
  ostep_ra (c, g) n t = match ostep c g n t with inl g' => inl (c, g') | inr e => inr e end.
Hypothesis HRB : forall c s gs pend g, R c s gs pend g -> Base c s gs pend.
Hypothesis Hstep : forall c, conf_ok c -> forall s gs pend g i t s' n,
  R c s gs pend g -> model_step s i = Ok (s', t) ->
  head_ok (p_address (cf_params c)) (sy_handles s) pend t -> is_reset_in i = false ->
  exists gs' g', ostep c g n t = inl g' /\ R c s' gs' (pend_next_v pend (view_of t)) g' /\
                 sy_handles s' = hs_next (sy_handles s) t.
Hypothesis Hreset : forall c, conf_ok c -> P c -> forall s gs pend g k a t s' n old,
  R c s gs pend g -> model_step s (InResetAddr k a) = Ok (s', t) -> is_bad (ts_out t) = false ->
  reset_of c t = Some (k, old, a) -> conf_ok (conf_set_addr c k a) -> pend <> Some old ->
  exists gs' g', ostep_ra (c, g) n t = inl (conf_set_addr c k a, g') /\ R (conf_set_addr c k a) s' gs' pend g'.

Lemma sound_generic_ra : forall ins c s gs pend g s' tr n,
  conf_ok c -> P c -> R c s gs pend g -> model_run s ins = Ok (s', tr) ->
  contract_from (p_address (cf_params c)) pend tr = true -> driver_from (sy_handles s) pend tr = true ->
  ra_sane c tr = true -> reset_guard c pend tr = true ->
  run_monitor ostep_ra (c, g) n tr = None.
Proof.
  induction ins as [|i ins IH]; intros c s gs pend g s' tr n Hc HPc HR Hrun Hct Hdr Hsane Hguard; cbn [model_run] in Hrun.
  - inversion Hrun; subst. reflexivity.
  - destruct (model_step s i) as [[s1 t]| |] eqn:Hs; cbn [bind] in Hrun; try discriminate Hrun.
    destruct (model_run s1 ins) as [[s2 tr1]| |] eqn:Hr; cbn [bind] in Hrun; try discriminate Hrun.
    inversion Hrun; subst s' tr. clear Hrun.
    assert (Hb : is_bad (ts_out t) = false).
    { cbn [driver_from] in Hdr. destruct (is_bad (ts_out t)); [discriminate Hdr|reflexivity]. }
    pose proof (model_view_not_crash _ _ _ _ Hs Hb) as Hv.
    destruct (heads _ _ _ _ _ Hct Hdr Hv) as (Hh & Hct' & Hdr').
    destruct (model_out_shape _ _ _ _ Hs) as (Hin & _).
    cbn [ra_sane] in Hsane. apply andb_true_iff in Hsane. destruct Hsane as [_ Hsane].
    cbn [reset_guard] in Hguard. cbn [run_monitor].
    destruct (is_reset_in i) eqn:Hri.
    + (* reset_address *)
      destruct i; try discriminate Hri.
      pose proof (HRB _ _ _ _ _ HR) as HB.
      destruct (reset_trans c Hc s gs pend k a s1 t HB Hs Hb)
        as (h & pc & p & Hk & Hpc & Hsl & Hfit & Hro & Hhs & _).
      rewrite Hro in Hsane, Hguard.
      apply andb_true_iff in Hguard. destruct Hguard as [Hguard Hg4].
      apply andb_true_iff in Hguard. destruct Hguard as [Hguard Hg3].
      apply andb_true_iff in Hguard. destruct Hguard as [Hg1 Hg2].
      apply Z.leb_le in Hg1. apply Z.leb_le in Hg2.
      assert (Hpend : pend <> Some (pc_addr pc)).
      { intro E. rewrite E, Z.eqb_refl in Hg3. discriminate Hg3. }
      assert (Hc' : conf_ok (conf_set_addr c k a)).
      { apply conf_ok_set_addr; [exact Hc|apply (ra_sane_head _ _ Hsane)|lia]. }
      destruct (Hreset c Hc HPc s gs pend g k a t s1 n (pc_addr pc) HR Hs Hb Hro Hc' Hpend) as (gs' & g' & Ho & HR').
      rewrite Ho. rewrite (reset_view t k a Hin) in Hct', Hdr'. cbn [pend_next_v] in Hct', Hdr'.
      rewrite hs_next_other in Hdr' by (intros k' E; rewrite Hin in E; discriminate E).
      rewrite <- Hhs in Hdr'.
      apply (IH (conf_set_addr c k a) s1 gs' pend g' s2 tr1 (S n) Hc' (HP _ _ _ HPc) HR' Hr Hct' Hdr' Hsane Hg4).
    + assert (Hro : reset_of c t = None) by (apply reset_of_none; rewrite Hin; exact Hri).
      rewrite Hro in Hsane, Hguard.
      destruct (Hstep c Hc _ _ _ _ _ _ _ n HR Hs Hh Hri) as (gs' & g' & Ho & HR' & Hhs).
      rewrite (Hwrap c g n t HPc Hro), Ho. rewrite <- Hhs in Hdr'.
      apply (IH c s1 gs' _ g' s2 tr1 (S n) Hc HPc HR' Hr Hct' Hdr' Hsane Hguard).
Qed.

End GenericRa.

(* ------------------------------------------------------------------ what every reset lemma needs *)

Lemma reset_common : forall c (Hc : conf_ok c) s gs pend k a s' t old,
  Base c s gs pend -> model_step s (InResetAddr k a) = Ok (s', t) -> is_bad (ts_out t) = false ->
  reset_of c t = Some (k, old, a) -> conf_ok (conf_set_addr c k a) -> pend <> Some old ->
  exists i p,
    let p' := p_reset_address p a in
    let gs' := gupd gs i ghost0 in
    Base (conf_set_addr c k a) s' gs' pend /\
    slot (sy_m s) i = Some p /\ pe_addr p = old /\ slot (sy_m s') i = Some p' /\
    (forall j, j <> i -> slot (sy_m s') j = slot (sy_m s) j) /\
    (forall j q, j <> i -> slot (sy_m s) j = Some q -> pe_addr q <> a) /\
    addr_inj (sy_m s) /\ addr_inj (sy_m s') /\
    (forall da, pend = Some da -> exists j q, slot (sy_m s) j = Some q /\ pe_addr q = da) /\
    sy_handles s' = sy_handles s /\ ts_in t = InResetAddr k a /\ view_of t = VOther /\ step_event t = None /\
    step_cc t = false /\ ts_obs t = observe s' /\ ts_op t = dm_op (sy_m s') /\ ts_out t = OutUnit /\
    ts_taken t = None /\
    pos_rem (sy_m s') = pos_rem (sy_m s) /\ dm_cycle (sy_m s') = dm_cycle (sy_m s) /\
    dm_op (sy_m s') = dm_op (sy_m s) /\
    exists h pc, nth_error (sy_handles s) k = Some (Some h) /\ hd_index h = i /\
                 nth_error (cf_periphs c) k = Some pc /\ pc_addr pc = old /\ fits pc p.
Proof.
  intros c Hc s gs pend k a s' t old HB Hs Hb Hro Hc' Hpend.
  destruct (reset_trans c Hc s gs pend k a s' t HB Hs Hb)
    as (h & pc & p & Hk & Hpc & Hsl & Hfit & Hro' & Hhs & Et & Hsl' & Hoth & Hpr & Hcy & Hop & HB').
  rewrite Hro in Hro'. inversion Hro'; subst old.
  specialize (HB' Hc' Hpend).
  pose proof HB as [I G]. pose proof HB' as [I' G'].
  pose proof (sinv_addr_inj c s Hc I) as Hinj. pose proof (sinv_addr_inj _ s' Hc' I') as Hinj'.
  exists (hd_index h), p. cbv zeta.
  split; [exact HB'|]. split; [exact Hsl|]. split; [exact (proj1 Hfit)|]. split; [exact Hsl'|].
  split; [exact Hoth|].
  split.
  { intros j q Hne Hq E. apply Hne. apply (Hinj' j (hd_index h) q (p_reset_address p a)); [|exact Hsl'|].
    - rewrite Hoth by exact Hne. exact Hq.
    - rewrite E. reflexivity. }
  split; [exact Hinj|]. split; [exact Hinj'|].
  split.
  { intros da E. destruct (gi_pend _ _ _ _ G da E) as (j & q & _ & Hq & Ha & _). exists j, q. auto. }
  split; [exact Hhs|].
  rewrite Et. cbn [ts_in ts_obs ts_op ts_out ts_taken]. unfold step_event, step_cc, view_of. cbn [ts_in ts_out ts_taken].
  repeat (split; [reflexivity|]). split; [exact Hpr|]. split; [exact Hcy|]. split; [exact Hop|].
  exists h, pc. auto.
Qed.

(* ------------------------------------------------------------------ C08 *)

Definition Pparams (pa : params) (c : conf) : Prop := cf_params c = pa.

Lemma Pparams_set : forall pa c k a, Pparams pa c -> Pparams pa (conf_set_addr c k a).
Proof. intros pa c k a H. exact H. Qed.

Lemma R8_reset : forall p a, R8 (p_reset_address p a) ghost0 c08_init.
Proof. intros. unfold R8. cbn. split; [reflexivity|]. split; [reflexivity|]. intro H; discriminate H. Qed.

Lemma pending_keep : forall (pendg : option (Z * service)) pend m gs old,
  pend_link m gs pend pendg -> pend <> Some old ->
  match pendg with Some (da, sv) => if da =? old then None else Some (da, sv) | None => None end = pendg.
Proof.
  intros [[da sv]|] pend m gs old H Hne; [|reflexivity].
  destruct pend as [d|]; [|contradiction]. destruct H as (-> & _).
  destruct (Z.eqb_spec d old) as [->|_]; [now elim Hne|reflexivity].
Qed.

Lemma c08_reset_step : forall pa c, conf_ok c -> Pparams pa c -> forall s gs pend g k a t s' n old,
  Rel8 c s gs pend g -> model_step s (InResetAddr k a) = Ok (s', t) -> is_bad (ts_out t) = false ->
  reset_of c t = Some (k, old, a) -> conf_ok (conf_set_addr c k a) -> pend <> Some old ->
  exists gs' g', c08_step_ra (Z.to_nat (p_max_retry pa)) (c, g) n t = inl (conf_set_addr c k a, g') /\
                 Rel8 (conf_set_addr c k a) s' gs' pend g'.
Proof.
  intros pa c Hc HPc s gs pend g k a t s' n old (HB & Hper & Hpl) Hs Hb Hro Hc' Hpend.
  destruct (reset_common c Hc s gs pend k a s' t old HB Hs Hb Hro Hc' Hpend)
    as (i & p & HB' & Hsl & Hold & Hsl' & Hoth & Hfree & Hinj & Hinj' & Hex & _).
  unfold c08_step_ra. rewrite Hro. rewrite (pending_keep _ _ _ _ old Hpl Hpend).
  eexists. eexists. split; [reflexivity|].
  split; [exact HB'|]. cbn [g8_per g8_pending]. split.
  - apply (per_ok_reset c08st c08_init R8 (sy_m s) gs (g8_per g) (sy_m s') i p (p_reset_address p a) old a); auto.
    apply R8_reset.
  - apply (pend_link_reset (sy_m s) gs pend (g8_pending g) (sy_m s') i p (p_reset_address p a) ghost0); auto.
    rewrite Hold. exact Hpend.
Qed.

Theorem c08_oracle_sound_ra : forall c s0 ins s' tr, conf_ok c ->
  init_sys c = Ok s0 -> model_run s0 ins = Ok (s', tr) ->
  contract_ok c tr = true -> driver_ok (sy_handles s0) tr = true ->
  ra_sane c tr = true -> reset_guard c None tr = true ->
  c08_monitor_ra c tr = None.
Proof.
  intros c s0 ins s' tr Hc Hinit Hrun Hct Hdr Hsane Hguard.
  destruct (init_invariants c s0 Hc Hinit) as (I0 & G0 & _ & _ & Hfresh & _).
  unfold c08_monitor_ra.
  apply (sound_generic_ra c08g (fun c => c08_step (Z.to_nat (p_max_retry (cf_params c))))
           (c08_step_ra (Z.to_nat (p_max_retry (cf_params c)))) Rel8 (Pparams (cf_params c))
           (Pparams_set (cf_params c))) with (ins := ins) (s := s0) (gs := fun _ => ghost0) (pend := None) (s' := s'); auto.
  - intros c1 g n t HP Hro. unfold c08_step_ra. rewrite Hro. rewrite HP. reflexivity.
  - intros c1 s gs pend g (HB & _). exact HB.
  - intros c1 Hc1 s gs pend g i t s1 n HR Hs Hh Hri. apply (c08_sound_step c1 Hc1 s gs pend g i t s1 n HR Hs Hh Hri).
  - intros c1 Hc1 HP1. apply (c08_reset_step (cf_params c) c1 Hc1 HP1).
  - reflexivity.
  - split; [split; assumption|]. cbn [g8_per g8_pending]. split; [|exact Logic.I].
    split.
    + intros i p Hp. destruct (Hfresh _ _ Hp) as (k & pc & _ & ->). cbn. unfold periph_of_conf. apply R8_init.
    + intros a _. reflexivity.
Qed.

(* ------------------------------------------------------------------ C03 *)

Lemma c03_reset_step : forall c, conf_ok c -> True -> forall s gs pend g k a t s' n old,
  Rel3 c s gs pend g -> model_step s (InResetAddr k a) = Ok (s', t) -> is_bad (ts_out t) = false ->
  reset_of c t = Some (k, old, a) -> conf_ok (conf_set_addr c k a) -> pend <> Some old ->
  exists gs' g', c03_step_ra (c, g) n t = inl (conf_set_addr c k a, g') /\
                 Rel3 (conf_set_addr c k a) s' gs' pend g'.
Proof.
  intros c Hc _ s gs pend g k a t s' n old (HB & Hper & Hpl) Hs Hb Hro Hc' Hpend.
  destruct (reset_common c Hc s gs pend k a s' t old HB Hs Hb Hro Hc' Hpend)
    as (i & p & HB' & Hsl & Hold & Hsl' & Hoth & Hfree & Hinj & Hinj' & Hex & _).
  unfold c03_step_ra. rewrite Hro.
  eexists. eexists. split; [reflexivity|].
  split; [exact HB'|]. cbn [g3_per g3_pending]. split.
  - apply (per_ok_reset phase PhNeedDiag R3 (sy_m s) gs (g3_per g) (sy_m s') i p (p_reset_address p a) old a); auto.
    reflexivity.
  - apply (pend_link_reset (sy_m s) gs pend (g3_pending g) (sy_m s') i p (p_reset_address p a) ghost0); auto.
    rewrite Hold. exact Hpend.
Qed.

Theorem c03_oracle_sound_ra : forall c s0 ins s' tr, conf_ok c ->
  init_sys c = Ok s0 -> model_run s0 ins = Ok (s', tr) ->
  contract_ok c tr = true -> driver_ok (sy_handles s0) tr = true ->
  ra_sane c tr = true -> reset_guard c None tr = true ->
  c03_monitor_ra c tr = None.
Proof.
  intros c s0 ins s' tr Hc Hinit Hrun Hct Hdr Hsane Hguard.
  destruct (init_invariants c s0 Hc Hinit) as (I0 & G0 & _ & _ & Hfresh & _).
  unfold c03_monitor_ra.
  apply (sound_generic_ra c03g c03_step c03_step_ra Rel3 (fun _ => True) (fun _ _ _ _ => Logic.I))
    with (ins := ins) (s := s0) (gs := fun _ => ghost0) (pend := None) (s' := s'); auto.
  - intros c1 g n t _ Hro. unfold c03_step_ra. rewrite Hro. reflexivity.
  - intros c1 s gs pend g (HB & _). exact HB.
  - intros c1 Hc1 s gs pend g i t s1 n HR Hs Hh Hri. apply (c03_sound_step c1 Hc1 s gs pend g i t s1 n HR Hs Hh Hri).
  - exact c03_reset_step.
  - split; [split; assumption|]. cbn [g3_per g3_pending]. split; [|exact Logic.I].
    split.
    + intros i p Hp. reflexivity.
    + intros a _. reflexivity.
Qed.

(* PART 22: transcripts with reset_address: C04 and C14 *)

(* ------------------------------------------------------------------ C04 *)

Lemma c04_reset_step : forall c, conf_ok c -> True -> forall s gs pend g k a t s' n old,
  Rel4 c s gs pend g -> model_step s (InResetAddr k a) = Ok (s', t) -> is_bad (ts_out t) = false ->
  reset_of c t = Some (k, old, a) -> conf_ok (conf_set_addr c k a) -> pend <> Some old ->
  exists gs' g', c04_step_ra (c, g) n t = inl (conf_set_addr c k a, g') /\
                 Rel4 (conf_set_addr c k a) s' gs' pend g'.
Proof.
  intros c Hc _ s gs pend g k a t s' n old (HB & Hobs & Hop & Hpl) Hs Hb Hro Hc' Hpend.
  destruct (reset_common c Hc s gs pend k a s' t old HB Hs Hb Hro Hc' Hpend)
    as (i & p & HB' & Hsl & Hold & Hsl' & Hoth & Hfree & Hinj & Hinj' & Hex & Hhs & Hin & Hv & Hev & _ & Hto & Htop & _ & Htk & _).
  pose proof HB as [I G]. pose proof HB' as [I' G'].
  unfold c04_step_ra. rewrite Hro. rewrite (pending_keep _ _ _ _ old Hpl Hpend).
  assert (Hchk : chk_go None (ts_in t) 0%nat (g4_obs g) (ts_obs t) = None).
  { rewrite Hobs, Hto. apply (chk_images_ok c (conf_set_addr c k a) None (ts_in t) s s' I I').
    - intros n0 h0 H0. rewrite Hhs. exact H0.
    - apply images_same; [|rewrite Hin; exact Logic.I].
      intros j q q' Hq Hq'. destruct (Nat.eq_dec j i) as [->|Hne].
      + rewrite Hsl in Hq. rewrite Hsl' in Hq'. inversion Hq; inversion Hq'; subst. split; reflexivity.
      + rewrite Hoth in Hq' by exact Hne. rewrite Hq in Hq'. inversion Hq'; subst. split; reflexivity. }
  assert (Hevok : c04_evok c t None = true) by (apply evok_none; rewrite Hev; exact Logic.I).
  assert (E : c04_step c (mkC04g (g4_obs g) (g4_op g) (g4_pending g)) n t =
              inl (mkC04g (ts_obs t) (ts_op t) (g4_pending g))).
  { rewrite c04_step_eq. cbv zeta. rewrite Hv. cbn [c04_upd c04_sc c04_req c04_pending' g4_obs g4_op g4_pending].
    rewrite Hchk, Hevok. reflexivity. }
  rewrite E. eexists. eexists. split; [reflexivity|].
  split; [exact HB'|]. cbn [g4_obs g4_op g4_pending]. split; [exact Hto|]. split; [exact Htop|].
  apply (pend_link_reset (sy_m s) gs pend (g4_pending g) (sy_m s') i p (p_reset_address p a) ghost0); auto.
  rewrite Hold. exact Hpend.
Qed.

Theorem c04_oracle_sound_ra : forall c s0 ins s' tr, conf_ok c ->
  init_sys c = Ok s0 -> model_run s0 ins = Ok (s', tr) ->
  contract_ok c tr = true -> driver_ok (sy_handles s0) tr = true ->
  ra_sane c tr = true -> reset_guard c None tr = true ->
  c04_monitor_ra c (observe s0) tr = None.
Proof.
  intros c s0 ins s' tr Hc Hinit Hrun Hct Hdr Hsane Hguard.
  destruct (init_invariants c s0 Hc Hinit) as (I0 & G0 & Hop0 & _ & Hfresh & _).
  unfold c04_monitor_ra.
  apply (sound_generic_ra c04g c04_step c04_step_ra Rel4 (fun _ => True) (fun _ _ _ _ => Logic.I))
    with (ins := ins) (s := s0) (gs := fun _ => ghost0) (pend := None) (s' := s'); auto.
  - intros c1 g n t _ Hro. unfold c04_step_ra. rewrite Hro. reflexivity.
  - intros c1 s gs pend g (HB & _). exact HB.
  - intros c1 Hc1 s gs pend g i t s1 n HR Hs Hh Hri. apply (c04_sound_step c1 Hc1 s gs pend g i t s1 n HR Hs Hh Hri).
  - exact c04_reset_step.
  - split; [split; assumption|]. cbn [g4_obs g4_op g4_pending]. split; [reflexivity|].
    split; [symmetry; exact Hop0|exact Logic.I].
Qed.

(* ------------------------------------------------------------------ C14 *)

Lemma chs_set_addr : forall ps hs k pc h a,
  nth_error ps k = Some pc -> nth_error hs k = Some (Some h) ->
  handles_set_addr (cur_hs ps hs) k a = cur_hs (set_nth ps k (pconf_set_addr pc a)) hs.
Proof.
  induction ps as [|p ps IH]; intros hs k pc h a Hp Hh.
  - destruct k; discriminate Hp.
  - destruct hs as [|x hs]; [destruct k; discriminate Hh|].
    destruct k as [|k].
    + cbn in Hp, Hh. inversion Hp; subst p. inversion Hh; subst x. reflexivity.
    + cbn [nth_error] in Hp, Hh. specialize (IH hs k pc h a Hp Hh).
      unfold handles_set_addr in *. destruct x as [hx|]; cbn [cur_hs set_nth nth_error].
      * destruct (nth_error (cur_hs ps hs) k) as [[h1|]|]; rewrite <- IH; reflexivity.
      * destruct (nth_error (cur_hs ps hs) k) as [[h1|]|]; rewrite <- IH; reflexivity.
Qed.

Lemma cur_hs_id : forall ps hs, length hs = length ps ->
  (forall k h, nth_error hs k = Some (Some h) -> exists pc, nth_error ps k = Some pc /\ hd_addr h = pc_addr pc) ->
  cur_hs ps hs = hs.
Proof.
  induction ps as [|p ps IH]; intros [|x hs] Hl H; try discriminate Hl; [reflexivity|].
  cbn in Hl. assert (IH' : cur_hs ps hs = hs).
  { apply IH; [lia|]. intros k h Hk. apply (H (S k) h Hk). }
  destruct x as [h|]; cbn [cur_hs]; rewrite IH'; [|reflexivity].
  destruct (H 0%nat h eq_refl) as (pc & Hpc & Ha). cbn in Hpc. inversion Hpc; subst pc.
  rewrite <- Ha. destruct h; reflexivity.
Qed.

Lemma turns_reset : forall m m' rem turns cur sends due i p a,
  addr_inj m -> slot m i = Some p -> slot m' i = Some (p_reset_address p a) ->
  (forall j, j <> i -> slot m' j = slot m j) -> dm_cycle m' = dm_cycle m ->
  Turns m rem turns cur sends due ->
  Turns m' rem (map (fun x => if x =? pe_addr p then a else x) turns)
     (match cur with Some x => Some (if x =? pe_addr p then a else x) | None => None end)
     (if match cur with Some x => x =? pe_addr p | None => false end then 0%nat else sends)
     (filter (fun x => negb (x =? pe_addr p)) due).
Proof.
  intros m m' rem turns cur sends due i p a Hinj Hp Hp' Hoth Hcy [T1 T2 T3 T4 T5 T6 T7].
  assert (Hfw : forall j q, slot m j = Some q -> exists q', slot m' j = Some q').
  { intros j q Hq. destruct (Nat.eq_dec j i) as [->|Hne]; [eexists; exact Hp'|].
    exists q. rewrite Hoth by exact Hne. exact Hq. }
  assert (Hbw : forall j q', slot m' j = Some q' -> exists q, slot m j = Some q).
  { intros j q' Hq'. destruct (Nat.eq_dec j i) as [->|Hne]; [eexists; exact Hp|].
    exists q'. rewrite <- Hoth by exact Hne. exact Hq'. }
  (* a slot with address x in m: the same slot has the renamed address in m' *)
  assert (Hren : forall j q, slot m j = Some q ->
            exists q', slot m' j = Some q' /\ pe_addr q' = (if pe_addr q =? pe_addr p then a else pe_addr q) /\
                       ((pe_addr q =? pe_addr p) = true -> j = i /\ pe_retry q' = 0) /\
                       ((pe_addr q =? pe_addr p) = false -> q' = q)).
  { intros j q Hq. destruct (Z.eqb_spec (pe_addr q) (pe_addr p)) as [E|Hne].
    - assert (j = i) by (apply (Hinj _ _ _ _ Hq Hp E)). subst j.
      exists (p_reset_address p a). split; [exact Hp'|]. split; [reflexivity|]. split; [auto|]. intro X; discriminate X.
    - assert (Hji : j <> i) by (intro X; subst j; rewrite Hp in Hq; inversion Hq; subst q; apply Hne; reflexivity).
      exists q. split; [rewrite Hoth by exact Hji; exact Hq|]. split; [reflexivity|]. split; [intro X; discriminate X|auto]. }
  constructor.
  - exact T1.
  - intros j Hj. destruct (T2 j Hj) as (q & Hq). apply (Hfw _ _ Hq).
  - intros i0 j q' Hq' Hni Hj. destruct (Hbw _ _ Hq') as (q & Hq). apply (T3 i0 j q Hq Hni Hj).
  - intros x Hx. apply in_map_iff in Hx. destruct Hx as (y & <- & Hy).
    destruct (T4 y Hy) as (j & q & Hq & Hqa & Hor). destruct (Hren _ _ Hq) as (q' & Hq' & Ea & _).
    exists j, q'. split; [exact Hq'|]. split; [rewrite Ea, Hqa; reflexivity|].
    destruct Hor as [Hn|(r & Hr & Hc)]; [left; exact Hn|right]. exists r. split; [exact Hr|]. rewrite Hc. reflexivity.
  - intros x Hx. destruct cur as [y|]; [|discriminate Hx]. inversion Hx; subst x. clear Hx.
    destruct (T5 y eq_refl) as (j & r & q & Hr & Hq & Hqa & Hin & Hsd).
    destruct (Hren _ _ Hq) as (q' & Hq' & Ea & H1 & H2).
    exists j, r, q'. split; [exact Hr|]. split; [exact Hq'|]. split; [rewrite Ea, Hqa; reflexivity|].
    split; [apply in_map_iff; exists y; auto|].
    rewrite <- Hqa. destruct (pe_addr q =? pe_addr p) eqn:E.
    + destruct (H1 eq_refl) as (_ & ->). cbn. lia.
    + rewrite (H2 eq_refl). exact Hsd.
  - intros x Hx. apply filter_In in Hx. destruct Hx as (Hx & Hne). apply negb_true_iff in Hne.
    destruct (T6 x Hx) as [Hin|(j & q & Hj & Hq & Hqa & Hl & Hcm)].
    + left. apply in_map_iff. exists x. rewrite Hne. auto.
    + right. destruct (Hren _ _ Hq) as (q' & Hq' & _ & _ & H2). rewrite Hqa, Hne in H2. rewrite (H2 eq_refl) in Hq'.
      exists j, q. auto.
  - intro E. rewrite Hcy in E. rewrite (T7 E). reflexivity.
Qed.

Lemma c14_reset_step : forall c, conf_ok c -> True -> forall s gs pend g k a t s' n old,
  Rel14 c s gs pend g -> model_step s (InResetAddr k a) = Ok (s', t) -> is_bad (ts_out t) = false ->
  reset_of c t = Some (k, old, a) -> conf_ok (conf_set_addr c k a) -> pend <> Some old ->
  exists gs' g', c14_step_ra (c, g) n t = inl (conf_set_addr c k a, g') /\
                 Rel14 (conf_set_addr c k a) s' gs' pend g'.
Proof.
  intros c Hc _ s gs pend g k a t s' n old (HB & Hh & Hcc & Hlife & HP & HT) Hs Hb Hro Hc' Hpend.
  destruct (reset_common c Hc s gs pend k a s' t old HB Hs Hb Hro Hc' Hpend)
    as (i & p & HB' & Hsl & Hold & Hsl' & Hoth & Hfree & Hinj & Hinj' & Hex & Hhs & Hin & Hv & Hev & Hncc & Hto & Htop &
        Hout & Htk & Hpr & Hcy & Hop & h & pc & Hk & Hhi & Hpc & Hpca & Hfit).
  unfold c14_step_ra. rewrite Hro.
  match goal with |- context [c14_step ?c2 ?g1 n t] => set (g1v := g1) end.
  assert (HR1 : Rel14 (conf_set_addr c k a) s' (gupd gs i ghost0) pend g1v).
  { split; [exact HB'|]. unfold g1v. cbn [g14_handles g14_life g14_cur g14_dirty g14_turns g14_sends g14_due].
    split.
    { rewrite Hh. unfold chs. rewrite Hhs. unfold conf_set_addr. cbn [cf_periphs]. rewrite Hpc.
      apply (chs_set_addr _ _ _ _ h a Hpc Hk). }
    split.
    { intros _ E. assert (X : In i (occupied (sy_m s'))) by (apply occupied_in_slot; eexists; exact Hsl').
      rewrite E in X. destruct X. }
    split.
    { apply (per_ok_reset lstate LOff RL (sy_m s) gs (g14_life g) (sy_m s') i p (p_reset_address p a) old a); auto.
      reflexivity. }
    split.
    { intros da E. rewrite (HP da E). destruct (Z.eqb_spec da old) as [->|_]; [now elim Hpend|reflexivity]. }
    intro Hd. specialize (HT Hd). rewrite Hpr. rewrite <- Hold.
    apply (turns_reset (sy_m s) (sy_m s') _ _ _ _ _ i p a Hinj Hsl Hsl' Hoth Hcy HT). }
  destruct (c14_static (conf_set_addr c k a) s' (gupd gs i ghost0) pend g1v t s' (gupd gs i ghost0) n HR1) as (g' & Hg1 & Hg2).
  - rewrite Hv. exact HB'.
  - reflexivity.
  - intros k0 E. rewrite Hin in E. discriminate E.
  - intro j. left. reflexivity.
  - reflexivity.
  - reflexivity.
  - left. exact Hv.
  - exact Hev.
  - exact Hncc.
  - exact Hto.
  - rewrite Hout. exact Logic.I.
  - rewrite Hg1. rewrite Hv in Hg2. cbn [pend_next_v] in Hg2. exists (gupd gs i ghost0), g'. auto.
Qed.

Theorem c14_oracle_sound_ra : forall c s0 ins s' tr, conf_ok c ->
  init_sys c = Ok s0 -> model_run s0 ins = Ok (s', tr) ->
  contract_ok c tr = true -> driver_ok (sy_handles s0) tr = true ->
  ra_sane c tr = true -> reset_guard c None tr = true ->
  c14_monitor_ra c (sy_handles s0) tr = None.
Proof.
  intros c s0 ins s' tr Hc Hinit Hrun Hct Hdr Hsane Hguard.
  destruct (init_invariants c s0 Hc Hinit) as (I0 & G0 & Hop0 & Hcy0 & Hfresh & Hha & _).
  unfold c14_monitor_ra.
  apply (sound_generic_ra c14g c14_step c14_step_ra Rel14 (fun _ => True) (fun _ _ _ _ => Logic.I))
    with (ins := ins) (s := s0) (gs := fun _ => ghost0) (pend := None) (s' := s'); auto.
  - intros c1 g n t _ Hro. unfold c14_step_ra. rewrite Hro. reflexivity.
  - intros c1 s gs pend g (HB & _). exact HB.
  - intros c1 Hc1 s gs pend g i t s1 n HR Hs Hh Hri. apply (c14_sound_step c1 Hc1 s gs pend g i t s1 n HR Hs Hh Hri).
  - exact c14_reset_step.
  - split; [split; assumption|]. cbn [g14_handles g14_life g14_cur g14_dirty g14_turns g14_sends g14_due].
    split.
    { unfold chs. symmetry. apply cur_hs_id; [exact (si_len _ _ I0)|exact Hha]. }
    split; [intro E; rewrite Hcy0 in E; discriminate E|]. split.
    + split.
      * intros i p Hp. destruct (Hfresh _ _ Hp) as (k & pc & _ & ->). reflexivity.
      * intros a _. reflexivity.
    + split; [intros da E; discriminate E|]. intros _. apply turns_fresh.
      * apply pos_rem_zero. exact Hcy0.
      * intros a [].
Qed.

(* PART 23: histories without reset_address (the monitors the driver runs are then the plain ones); the guard of
   the reset_address theorems follows from the driver's known-class test; a computed history with reset_address *)

Section Wrap.
Variable St : Type.
Variable c : conf.
Variable step : St -> nat -> tstep -> St + Z.
Variable step_ra : conf * St -> nat -> tstep -> (conf * St) + Z.
Hypothesis Hwrap : forall g i s, is_reset_in (ts_in s) = false ->
  step_ra (c, g) i s = match step g i s with inl g' => inl (c, g') | inr code => inr code end.

Lemma run_monitor_wrap : forall l g i, has_reset l = false ->
  run_monitor step_ra (c, g) i l = run_monitor step g i l.
Proof.
  induction l as [|s l IH]; intros g i H; [reflexivity|].
  unfold has_reset in H. cbn [existsb] in H. apply orb_false_iff in H. destruct H as [H1 H2].
  cbn [run_monitor]. rewrite (Hwrap g i s H1). destruct (step g i s) as [g'|code]; [apply IH; exact H2|reflexivity].
Qed.
End Wrap.

Theorem c03_ra_agrees : forall c l, has_reset l = false -> c03_monitor_ra c l = c03_monitor c l.
Proof.
  intros c l H. unfold c03_monitor_ra, c03_monitor. apply run_monitor_wrap; [|exact H].
  intros g i s Hs. unfold c03_step_ra. rewrite (reset_of_none c s Hs). reflexivity.
Qed.

Theorem c08_ra_agrees : forall c l, has_reset l = false -> c08_monitor_ra c l = c08_monitor c l.
Proof.
  intros c l H. unfold c08_monitor_ra, c08_monitor. apply run_monitor_wrap; [|exact H].
  intros g i s Hs. unfold c08_step_ra. rewrite (reset_of_none c s Hs). reflexivity.
Qed.

Theorem c04_ra_agrees : forall c obs0 l, has_reset l = false -> c04_monitor_ra c obs0 l = c04_monitor c obs0 l.
Proof.
  intros c obs0 l H. unfold c04_monitor_ra, c04_monitor. apply run_monitor_wrap; [|exact H].
  intros g i s Hs. unfold c04_step_ra. rewrite (reset_of_none c s Hs). reflexivity.
Qed.

Theorem c14_ra_agrees : forall c hs0 l, has_reset l = false -> c14_monitor_ra c hs0 l = c14_monitor c hs0 l.
Proof.
  intros c hs0 l H. unfold c14_monitor_ra, c14_monitor. apply run_monitor_wrap; [|exact H].
  intros g i s Hs. unfold c14_step_ra. rewrite (reset_of_none c s Hs). reflexivity.
Qed.

Theorem c07_ra_agrees : forall c l, has_reset l = false -> c07_monitor_ra c l = c07_monitor c l.
Proof.
  intros c l H. unfold c07_monitor_ra, c07_monitor.
  destruct (ts_op (last l (mkStep InClean false OutUnit None [] OpStop))); try reflexivity;
    (apply run_monitor_wrap; [|exact H]; intros g i s Hs; unfold c07_step_ra; rewrite (reset_of_none c s Hs); reflexivity).
Qed.

Lemma ra_sane_plain : forall c l, has_reset l = false -> ra_sane c l = conf_sane c.
Proof.
  intros c l. induction l as [|s l IH]; intro H; [reflexivity|].
  unfold has_reset in H. cbn [existsb] in H. apply orb_false_iff in H. destruct H as [H1 H2].
  cbn [ra_sane]. rewrite (reset_of_none c s H1). rewrite (IH H2). destruct (conf_sane c); reflexivity.
Qed.

Lemma reset_guard_plain : forall l c pend, has_reset l = false -> reset_guard c pend l = true.
Proof.
  induction l as [|s l IH]; intros c pend H; [reflexivity|].
  unfold has_reset in H. cbn [existsb] in H. apply orb_false_iff in H. destruct H as [H1 H2].
  cbn [reset_guard]. rewrite (reset_of_none c s H1). apply IH. exact H2.
Qed.

(* ------------------------------------------------------------------ histories without reset_address *)
Section RaSound.
Variable c : conf.
Hypothesis Hc : conf_ok c.

Lemma plain_hyps : forall s0 ins s' tr, model_run s0 ins = Ok (s', tr) -> no_reset ins = true ->
  has_reset tr = false /\ ra_sane c tr = true /\ reset_guard c None tr = true.
Proof.
  intros s0 ins s' tr Hr Hn. pose proof (model_run_no_reset _ _ _ _ Hr Hn) as H.
  split; [exact H|]. split; [rewrite (ra_sane_plain c tr H); exact (co_sane _ Hc)|apply reset_guard_plain; exact H].
Qed.

Theorem c03_oracle_sound_ra0 : forall s0 ins s' tr,
  init_sys c = Ok s0 -> no_reset ins = true -> model_run s0 ins = Ok (s', tr) ->
  contract_ok c tr = true -> driver_ok (sy_handles s0) tr = true ->
  c03_monitor_ra c tr = None.
Proof.
  intros s0 ins s' tr H0 Hn Hr Hct Hd. destruct (plain_hyps _ _ _ _ Hr Hn) as (_ & H1 & H2).
  apply (c03_oracle_sound_ra c s0 ins s' tr); assumption.
Qed.

Theorem c08_oracle_sound_ra0 : forall s0 ins s' tr,
  init_sys c = Ok s0 -> no_reset ins = true -> model_run s0 ins = Ok (s', tr) ->
  contract_ok c tr = true -> driver_ok (sy_handles s0) tr = true ->
  c08_monitor_ra c tr = None.
Proof.
  intros s0 ins s' tr H0 Hn Hr Hct Hd. destruct (plain_hyps _ _ _ _ Hr Hn) as (_ & H1 & H2).
  apply (c08_oracle_sound_ra c s0 ins s' tr); assumption.
Qed.

Theorem c04_oracle_sound_ra0 : forall s0 ins s' tr,
  init_sys c = Ok s0 -> no_reset ins = true -> model_run s0 ins = Ok (s', tr) ->
  contract_ok c tr = true -> driver_ok (sy_handles s0) tr = true ->
  c04_monitor_ra c (observe s0) tr = None.
Proof.
  intros s0 ins s' tr H0 Hn Hr Hct Hd. destruct (plain_hyps _ _ _ _ Hr Hn) as (_ & H1 & H2).
  apply (c04_oracle_sound_ra c s0 ins s' tr); assumption.
Qed.

Theorem c14_oracle_sound_ra0 : forall s0 ins s' tr,
  init_sys c = Ok s0 -> no_reset ins = true -> model_run s0 ins = Ok (s', tr) ->
  contract_ok c tr = true -> driver_ok (sy_handles s0) tr = true ->
  c14_monitor_ra c (sy_handles s0) tr = None.
Proof.
  intros s0 ins s' tr H0 Hn Hr Hct Hd. destruct (plain_hyps _ _ _ _ Hr Hn) as (_ & H1 & H2).
  apply (c14_oracle_sound_ra c s0 ins s' tr); assumption.
Qed.

(* the monitors of phase 1 *)
Theorem c03_oracle_sound : forall s0 ins s' tr,
  init_sys c = Ok s0 -> no_reset ins = true -> model_run s0 ins = Ok (s', tr) ->
  contract_ok c tr = true -> driver_ok (sy_handles s0) tr = true ->
  c03_monitor c tr = None.
Proof.
  intros s0 ins s' tr H0 Hn Hr Hct Hd. rewrite <- (c03_ra_agrees c tr (model_run_no_reset _ _ _ _ Hr Hn)).
  apply (c03_oracle_sound_ra0 s0 ins s' tr); assumption.
Qed.

Theorem c08_oracle_sound : forall s0 ins s' tr,
  init_sys c = Ok s0 -> no_reset ins = true -> model_run s0 ins = Ok (s', tr) ->
  contract_ok c tr = true -> driver_ok (sy_handles s0) tr = true ->
  c08_monitor c tr = None.
Proof.
  intros s0 ins s' tr H0 Hn Hr Hct Hd. rewrite <- (c08_ra_agrees c tr (model_run_no_reset _ _ _ _ Hr Hn)).
  apply (c08_oracle_sound_ra0 s0 ins s' tr); assumption.
Qed.

Theorem c04_oracle_sound : forall s0 ins s' tr,
  init_sys c = Ok s0 -> no_reset ins = true -> model_run s0 ins = Ok (s', tr) ->
  contract_ok c tr = true -> driver_ok (sy_handles s0) tr = true ->
  c04_monitor c (observe s0) tr = None.
Proof.
  intros s0 ins s' tr H0 Hn Hr Hct Hd. rewrite <- (c04_ra_agrees c _ tr (model_run_no_reset _ _ _ _ Hr Hn)).
  apply (c04_oracle_sound_ra0 s0 ins s' tr); assumption.
Qed.

Theorem c14_oracle_sound : forall s0 ins s' tr,
  init_sys c = Ok s0 -> no_reset ins = true -> model_run s0 ins = Ok (s', tr) ->
  contract_ok c tr = true -> driver_ok (sy_handles s0) tr = true ->
  c14_monitor c (sy_handles s0) tr = None.
Proof.
  intros s0 ins s' tr H0 Hn Hr Hct Hd. rewrite <- (c14_ra_agrees c _ tr (model_run_no_reset _ _ _ _ Hr Hn)).
  apply (c14_oracle_sound_ra0 s0 ins s' tr); assumption.
Qed.
End RaSound.

(* ------------------------------------------------------------------ the guard and the driver's known-class test *)

(* every new address is a station address *)
Fixpoint reset_range (c : conf) (l : list tstep) : bool :=
  match l with
  | [] => true
  | s :: r =>
      match reset_of c s with
      | Some (k, _, a) => (0 <=? a) && (a <=? 125) && reset_range (conf_set_addr c k a) r
      | None => reset_range c r
      end
  end.

Definition kstep (acc : (conf * option Z) * bool) (s : tstep) : (conf * option Z) * bool :=
  let '(c, pending, hit) := acc in
  match reset_of c s with
  | Some (k, old, a) =>
      (conf_set_addr c k a, pending, hit || match pending with Some da => da =? old | None => false end)
  | None =>
      match view_of s with
      | VReq da _ _ _ => (c, Some da, hit)
      | VReply _ _ | VTimeout _ | VAbandon => (c, None, hit)
      | _ => (c, pending, hit)
      end
  end.

Lemma known_eq : forall c l, known_reset_while_pending c l = snd (fold_left kstep l (c, None, false)).
Proof. reflexivity. Qed.

Lemma kstep_hit : forall l c p, snd (fold_left kstep l (c, p, true)) = true.
Proof.
  induction l as [|s l IH]; intros c p; [reflexivity|]. cbn [fold_left]. unfold kstep at 2.
  destruct (reset_of c s) as [[[k old] a]|]; [apply IH|].
  destruct (view_of s); apply IH.
Qed.

Lemma reset_guard_known_gen : forall l c pk pm, (pm = None \/ pm = pk) ->
  snd (fold_left kstep l (c, pk, false)) = false -> reset_range c l = true -> reset_guard c pm l = true.
Proof.
  induction l as [|s l IH]; intros c pk pm Hp Hk Hr; [reflexivity|].
  cbn [fold_left] in Hk. unfold kstep at 2 in Hk. cbn [reset_range] in Hr. cbn [reset_guard].
  destruct (reset_of c s) as [[[k old] a]|].
  - apply andb_true_iff in Hr. destruct Hr as [Hr1 Hr2]. rewrite Hr1. cbn [orb andb] in *.
    destruct (match pk with Some da => da =? old | None => false end) eqn:E.
    + rewrite kstep_hit in Hk. discriminate Hk.
    + assert (E' : match pm with Some da => da =? old | None => false end = false)
        by (destruct Hp as [->| ->]; [reflexivity|exact E]).
      rewrite E'. cbn [negb andb]. apply (IH _ pk pm Hp Hk Hr2).
  - destruct (view_of s) eqn:Ev; cbn [pend_next_v];
      first [apply (IH c _ _ (or_intror eq_refl) Hk Hr) | apply (IH c _ _ (or_introl eq_refl) Hk Hr) | apply (IH c _ _ Hp Hk Hr)].
Qed.

(* the driver's test: no reset_address while the reply of that peripheral is outstanding (outside F22) *)
Theorem reset_guard_known : forall c l,
  known_reset_while_pending c l = false -> reset_range c l = true -> reset_guard c None l = true.
Proof.
  intros c l Hk Hr. rewrite known_eq in Hk. apply (reset_guard_known_gen l c None None); auto.
Qed.

(* ------------------------------------------------------------------ a computed history with reset_address *)

(* ex_conf of PART 18; reset_address to the same address after the bring-up started, to another address after a
   time-out, of a peripheral that was just added, and back to the first address *)
Definition ex_ins_ra : list tr_in :=
  [InEnter OpOperate; InTx 0 false; InTx 10 false; InRx 20 7 ex_diag; InTake; InResetAddr 0 7; InTx 30 false;
   InTx 35 false; InTo 40 7; InResetAddr 0 12; InTx 50 false; InTo 60 12; InAdd 1; InResetAddr 1 9; InTx 70 false;
   InTo 80 9; InTx 90 false; InResetAddr 0 7; InTx 110 false; InTo 120 7; InClean].

Lemma oracle_sound_ra_example :
  conf_ok ex_conf /\
  exists s0 s' tr, init_sys ex_conf = Ok s0 /\ model_run s0 ex_ins_ra = Ok (s', tr) /\
    has_reset tr = true /\ contract_ok ex_conf tr = true /\ driver_ok (sy_handles s0) tr = true /\
    ra_sane ex_conf tr = true /\ known_reset_while_pending ex_conf tr = false /\ reset_range ex_conf tr = true /\
    reset_guard ex_conf None tr = true /\ length tr = 21%nat /\
    map (fun t => match reset_of ex_conf t with Some _ => true | None => false end) tr =
      [false; false; false; false; false; true; false; false; false; true; false; false; false; true; false; false;
       false; true; false; false; false] /\
    map step_event tr = [None; None; None; Some (7, EvOnline); None; None; None; None; None; None; None; None; None;
                         None; None; None; None; None; None; None; None].
Proof.
  split; [exact ex_conf_ok|].
  destruct (init_sys ex_conf) as [s0| |] eqn:E0; try (vm_compute in E0; discriminate E0).
  destruct (model_run s0 ex_ins_ra) as [[s' tr]| |] eqn:E1.
  - exists s0, s', tr. split; [reflexivity|]. split; [exact E1|].
    vm_compute in E0. inversion E0; subst s0. vm_compute in E1. inversion E1; subst tr.
    repeat split; vm_compute; reflexivity.
  - exfalso. vm_compute in E0. inversion E0; subst s0. vm_compute in E1. discriminate E1.
  - exfalso. vm_compute in E0. inversion E0; subst s0. vm_compute in E1. discriminate E1.
Qed.
